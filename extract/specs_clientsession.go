package main

// Generated group ClientSession: how the client wires a session (C01).

func init() {
	const calls = `\.Pop$|\.Write$|^newEncapsulationPacketConn$|NewRedialPacketConn$|^kcp\.NewConn2$|SetStreamMode$|SetWindowSize$|SetNoDelay$|^smux\.Client$|NewClientID$|ReadData$|WriteData$|\.Flush$|^copy$`
	register(&group{name: "ClientSession",
		skels: []skelSpec{
			{lean: "skel_newSession", dir: "client/lib", name: "newSession", calls: calls, assigns: `^smuxConfig\.`},
			{lean: "skel_encap_ReadFrom", dir: "client/lib", name: "encapsulationPacketConn.ReadFrom", calls: calls, returns: true},
			{lean: "skel_encap_WriteTo", dir: "client/lib", name: "encapsulationPacketConn.WriteTo", calls: calls},
		},
	})
}
