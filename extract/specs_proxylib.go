package main

// Group ProxyLib (C16): the proxy's slot accounting — tokens_t, the poll loop of Start, the exit
// paths of runSession and the data channel handler — plus the load expression of pollOffer.

func init() {
	const slotCalls = `(\.|^)(get|ret|count|release|newTokens|runSession|datachannelHandler|makePeerConnectionFromOffer|sendAnswer|pollOffer|Parse|IsMember|AddInt64|LoadInt64|Dial|copyLoop|genSessionID|OnDataChannel)$` +
		`|^go |^lit:dataChannelHandlerWithRelayURL$`
	register(&group{name: "ProxyLib",
		consts: []constSpec{
			{lean: "dataChannelTimeout", dir: "proxy/lib", name: "dataChannelTimeout"},
			{lean: "pollInterval", dir: "proxy/lib", name: "pollInterval"},
		},
		exprs: []exprSpec{
			{lean: "pollOffer_numClients", dir: "proxy/lib", name: "SignalingServer.pollOffer", assign: "numClients", result: tInt,
				params: []absParam{{"count", tInt}},
				abs:    map[string]string{"tokens.count()": "count"}},
		},
		skels: []skelSpec{
			{lean: "skel_newTokens", dir: "proxy/lib", name: "newTokens", calls: slotCalls},
			{lean: "skel_get", dir: "proxy/lib", name: "tokens_t.get", calls: slotCalls},
			{lean: "skel_ret", dir: "proxy/lib", name: "tokens_t.ret", calls: slotCalls},
			{lean: "skel_count", dir: "proxy/lib", name: "tokens_t.count", calls: slotCalls},
			{lean: "skel_Start", dir: "proxy/lib", name: "SnowflakeProxy.Start", calls: slotCalls},
			{lean: "skel_runSession", dir: "proxy/lib", name: "SnowflakeProxy.runSession", calls: slotCalls},
			{lean: "skel_datachannelHandler", dir: "proxy/lib", name: "SnowflakeProxy.datachannelHandler", calls: slotCalls},
			{lean: "skel_adaptor", dir: "proxy/lib", name: "dataChannelHandlerWithRelayURL.datachannelHandler", calls: slotCalls},
			{lean: "skel_makePeerConnectionFromOffer", dir: "proxy/lib", name: "SnowflakeProxy.makePeerConnectionFromOffer", calls: slotCalls},
			{lean: "skel_pollOffer", dir: "proxy/lib", name: "SignalingServer.pollOffer", calls: slotCalls},
			{lean: "skel_main", dir: "proxy", name: "main", calls: `^flag\.(Uint|Parse)$|^lit:sf\.SnowflakeProxy$|^proxy\.Start$`},
		},
	})
}
