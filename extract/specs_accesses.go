package main

// Shared variables of C20 and the lock aliases of each package.

func init() {
	registerAcc(accPkg{dir: "broker", ctors: `^(NewBrokerContext|NewMetrics|initPrometheus|NewRoundedCounterVec|newRoundedCounter|main)$`,
		aliases: []lockAlias{
			{`.`, `(\w+\.)*snowflakeLock`, "broker.snowflakeLock"},
			{`.`, `(\w+\.)*metrics\.lock`, "broker.metrics.lock"},
			{`^metrics\.go$`, `m\.lock`, "broker.metrics.lock"},
			{`^prometheus\.go$`, `c\.lock`, "broker.roundedCounter.lock"},
			{`^bridge-list\.go$`, `h\.accessBridgeInfo`, "broker.bridgeList.lock"},
		},
		vars: []accVar{
			{"broker.snowflakes", `.`, `(\w+\.)*ctx\.snowflakes`},
			{"broker.restrictedSnowflakes", `.`, `(\w+\.)*ctx\.restrictedSnowflakes`},
			{"broker.idToSnowflake", `.`, `(\w+\.)*ctx\.idToSnowflake`},
			{"broker.Snowflake.index", `^(broker|snowflake-heap)\.go$`, `(snowflake|sh\[\w\]|sh\[\w+\])\.index`},
			{"broker.Metrics.clientRoundtripEstimate", `.`, `(\w+\.)*(metrics|m)\.clientRoundtripEstimate`},
			{"broker.Metrics.proxyIdleCount", `.`, `(\w+\.)*(metrics|m)\.proxyIdleCount`},
			{"broker.Metrics.clientDeniedCount", `.`, `(\w+\.)*(metrics|m)\.clientDeniedCount`},
			{"broker.Metrics.clientRestrictedDeniedCount", `.`, `(\w+\.)*(metrics|m)\.clientRestrictedDeniedCount`},
			{"broker.Metrics.clientUnrestrictedDeniedCount", `.`, `(\w+\.)*(metrics|m)\.clientUnrestrictedDeniedCount`},
			{"broker.Metrics.clientProxyMatchCount", `.`, `(\w+\.)*(metrics|m)\.clientProxyMatchCount`},
			{"broker.Metrics.proxyPollWithRelayURLExtension", `.`, `(\w+\.)*(metrics|m)\.proxyPollWithRelayURLExtension`},
			{"broker.Metrics.proxyPollWithoutRelayURLExtension", `.`, `(\w+\.)*(metrics|m)\.proxyPollWithoutRelayURLExtension`},
			{"broker.Metrics.proxyPollRejectedWithRelayURLExtension", `.`, `(\w+\.)*(metrics|m)\.proxyPollRejectedWithRelayURLExtension`},
			{"broker.Metrics.countryStats", `^metrics\.go$`, `m\.countryStats(\.\w+)?`},
			{"broker.Metrics.geoipdb", `^metrics\.go$`, `m\.geoipdb`},
			{"broker.roundedCounter.total", `^prometheus\.go$`, `c\.total`},
			{"broker.roundedCounter.value", `^prometheus\.go$`, `c\.value`},
			{"broker.bridgeList.bridgeInfo", `^bridge-list\.go$`, `h\.bridgeInfo`},
		}})
	registerAcc(accPkg{dir: "common/turbotunnel", ctors: `^(NewClientMap|NewQueuePacketConn|NewRedialPacketConn)$`,
		aliases: []lockAlias{{`^clientmap\.go$`, `m\.lock`, "turbotunnel.ClientMap.lock"}},
		vars: []accVar{
			{"turbotunnel.ClientMap.inner", `^clientmap\.go$`, `m\.inner`},
		}})
	registerAcc(accPkg{dir: "server/lib", ctors: `^(newClientIDMap)$`,
		aliases: []lockAlias{{`^turbotunnel\.go$`, `m\.lock`, "server.clientIDMap.lock"}},
		vars: []accVar{
			{"server.clientIDMap.entries", `^turbotunnel\.go$`, `m\.entries`},
			{"server.clientIDMap.oldest", `^turbotunnel\.go$`, `m\.oldest`},
			{"server.clientIDMap.current", `^turbotunnel\.go$`, `m\.current`},
		}})
	registerAcc(accPkg{dir: "client/lib", ctors: `^(NewPeers|NewWebRTCPeer|NewWebRTCPeerWithEvents)$`,
		aliases: []lockAlias{
			{`^peers\.go$`, `p\.collectLock`, "client.Peers.collectLock"},
			{`^webrtc\.go$`, `c\.mu`, "client.WebRTCPeer.mu"},
		},
		vars: []accVar{
			{"client.Peers.activePeers", `^peers\.go$`, `p\.activePeers`},
			{"client.WebRTCPeer.lastReceive", `^webrtc\.go$`, `c\.lastReceive`},
			{"client.WebRTCPeer.bytesLogger", `^(webrtc|peers|snowflake)\.go$`, `(c|connection|snowflake|conn)\.bytesLogger`},
		}})
	registerAcc(accPkg{dir: "proxy/lib", ctors: `^(newBytesSyncLogger|NewProxyEventLogger|newTokens)$`,
		aliases: []lockAlias{{`^webrtcconn\.go$`, `c\.lock`, "proxy.webRTCConn.lock"}},
		vars: []accVar{
			{"proxy.bytesSyncLogger.outbound", `^util\.go$`, `b\.outbound`},
			{"proxy.bytesSyncLogger.inbound", `^util\.go$`, `b\.inbound`},
			{"proxy.bytesSyncLogger.outEvents", `^util\.go$`, `b\.outEvents`},
			{"proxy.bytesSyncLogger.inEvents", `^util\.go$`, `b\.inEvents`},
			{"proxy.logEventLogger.inboundSum", `^pt_event_logger\.go$`, `p\.inboundSum`},
			{"proxy.logEventLogger.outboundSum", `^pt_event_logger\.go$`, `p\.outboundSum`},
			{"proxy.logEventLogger.connectionCount", `^pt_event_logger\.go$`, `p\.connectionCount`},
			{"proxy.tokens.clients", `^tokens\.go$`, `t\.clients`},
			{"proxy.webRTCConn.dc", `^(webrtcconn|snowflake)\.go$`, `(c|conn)\.dc`},
		}})
}
