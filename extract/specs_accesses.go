package main

// Shared variables of C20 and the lock aliases of each package.

func init() {
	heapCB := []string{"SnowflakeHeap.Push", "SnowflakeHeap.Pop", "SnowflakeHeap.Swap", "SnowflakeHeap.Less", "SnowflakeHeap.Len"}
	registerAcc(accPkg{dir: "broker", label: "broker", types: []string{"BrokerContext", "Metrics", "CountryStats", "Snowflake", "roundedCounter", "bridgeListHolder", "PromMetrics", "ProxyPoll", "ClientOffer"}, callbacks: map[string][]string{`heap\.(Push|Pop|Remove|Fix|Init)`: heapCB}, ctors: `^(NewBrokerContext|NewMetrics|initPrometheus|NewRoundedCounterVec|newRoundedCounter|main|BrokerContext\.InstallBridgeListProfile|Metrics\.SetIPAddressRecorder)$`,
		aliases: []lockAlias{
			{`.`, `(\w+\.)*snowflakeLock`, "broker.snowflakeLock"},
			{`.`, `(\w+\.)*metrics\.lock`, "broker.metrics.lock"},
			{`^metrics\.go$`, `m\.lock`, "broker.metrics.lock"},
			{`^prometheus\.go$`, `c\.lock`, "broker.roundedCounter.lock"},
			{`^bridge-list\.go$`, `h\.accessBridgeInfo`, "broker.bridgeList.lock"},
		},
		vars: []accVar{
			{"broker.snowflakes", `.`, `(\w+\.)*ctx\.snowflakes`, ""},
			{"broker.restrictedSnowflakes", `.`, `(\w+\.)*ctx\.restrictedSnowflakes`, ""},
			{"broker.idToSnowflake", `.`, `(\w+\.)*ctx\.idToSnowflake`, ""},
			{"broker.Snowflake.index", `^(broker|snowflake-heap)\.go$`, `(snowflake|sh\[\w\]|sh\[\w+\])\.index`, ""},
			{"broker.SnowflakeHeap.items", `^snowflake-heap\.go$`, `sh|\*sh`, ""},
			{"broker.Metrics.clientRoundtripEstimate", `.`, `(\w+\.)*(metrics|m)\.clientRoundtripEstimate`, ""},
			{"broker.Metrics.proxyIdleCount", `.`, `(\w+\.)*(metrics|m)\.proxyIdleCount`, ""},
			{"broker.Metrics.clientDeniedCount", `.`, `(\w+\.)*(metrics|m)\.clientDeniedCount`, ""},
			{"broker.Metrics.clientRestrictedDeniedCount", `.`, `(\w+\.)*(metrics|m)\.clientRestrictedDeniedCount`, ""},
			{"broker.Metrics.clientUnrestrictedDeniedCount", `.`, `(\w+\.)*(metrics|m)\.clientUnrestrictedDeniedCount`, ""},
			{"broker.Metrics.clientProxyMatchCount", `.`, `(\w+\.)*(metrics|m)\.clientProxyMatchCount`, ""},
			{"broker.Metrics.proxyPollWithRelayURLExtension", `.`, `(\w+\.)*(metrics|m)\.proxyPollWithRelayURLExtension`, ""},
			{"broker.Metrics.proxyPollWithoutRelayURLExtension", `.`, `(\w+\.)*(metrics|m)\.proxyPollWithoutRelayURLExtension`, ""},
			{"broker.Metrics.proxyPollRejectedWithRelayURLExtension", `.`, `(\w+\.)*(metrics|m)\.proxyPollRejectedWithRelayURLExtension`, ""},
			{"broker.Metrics.countryStats", `^metrics\.go$`, `m\.countryStats(\.\w+)?`, ""},
			{"broker.Metrics.geoipdb", `^metrics\.go$`, `m\.geoipdb`, ""},
			{"broker.roundedCounter.total", `^prometheus\.go$`, `c\.total`, ""},
			{"broker.roundedCounter.value", `^prometheus\.go$`, `c\.value`, ""},
			{"broker.bridgeList.bridgeInfo", `^bridge-list\.go$`, `h\.bridgeInfo`, ""},
		}})
	registerAcc(accPkg{dir: "common/turbotunnel", label: "turbotunnel", types: []string{"ClientMap", "QueuePacketConn", "RedialPacketConn"}, exported: true, ctors: `^(NewClientMap|NewQueuePacketConn|NewRedialPacketConn)$`,
		aliases: []lockAlias{{`^clientmap\.go$`, `m\.lock`, "turbotunnel.ClientMap.lock"}},
		vars: []accVar{
			{name: "turbotunnel.ClientMap.inner", files: `^clientmap\.go$`, expr: `m\.inner`, mut: `SendQueue|removeExpired`},
		}})
	registerAcc(accPkg{dir: "server/lib", label: "server", types: []string{"clientIDMap", "SnowflakeListener", "Transport", "httpHandler", "SnowflakeClientConn"}, exported: true, ctors: `^(newClientIDMap)$`,
		aliases: []lockAlias{{`^turbotunnel\.go$`, `m\.lock`, "server.clientIDMap.lock"}},
		vars: []accVar{
			{"server.clientIDMap.entries", `^turbotunnel\.go$`, `m\.entries(\[.*\]\.\w+)?`, ""},
			{"server.clientIDMap.oldest", `^turbotunnel\.go$`, `m\.oldest`, ""},
			{"server.clientIDMap.current", `^turbotunnel\.go$`, `m\.current`, ""},
		}})
	registerAcc(accPkg{dir: "client/lib", label: "client", types: []string{"Peers", "WebRTCPeer", "BrokerChannel", "SnowflakeConn", "WebRTCDialer", "bytesSyncLogger"}, exported: true, assume: map[string][]string{"Peers.Count": {"client.Peers.collectLock"}}, ctors: `^(NewPeers|NewWebRTCPeer|NewWebRTCPeerWithEvents|WebRTCPeer\.connect|WebRTCPeer\.preparePeerConnection|Transport\.SetRendezvousMethod|NewSnowflakeClient|newBrokerChannelFromConfig)$`,
		exempt: map[string]string{"client.Peers|WebRTCPeer.bytesLogger": "two fields under one name (the table is alias-insensitive): WebRTCPeer.bytesLogger is kept under WebRTCPeer.mu since the repair of F19 (setBytesLogger / getBytesLogger; before it, Pop's write raced with the OnMessage callback whenever the receive pipe was closed under the callback); Peers.bytesLogger is written once in Transport.Dial before the connect loop and the data path are started (ordered by the go statements, which Hb does not model). Both are covered by the race-detector workloads only"},
		aliases: []lockAlias{
			{`^peers\.go$`, `p\.collectLock`, "client.Peers.collectLock"},
			{`^(webrtc|peers)\.go$`, `(c|snowflake)\.mu`, "client.WebRTCPeer.mu"},
			{`^rendezvous\.go$`, `bc\.lock`, "client.BrokerChannel.lock"},
		},
		vars: []accVar{
			{name: "client.Peers.activePeers", files: `^peers\.go$`, expr: `p\.activePeers`, mut: `PushBack|PushFront|Remove|Init|MoveToFront|MoveToBack|InsertBefore|InsertAfter`},
			{"client.WebRTCPeer.lastReceive", `^webrtc\.go$`, `c\.lastReceive`, ""},
			{"client.BrokerChannel.natType", `^rendezvous\.go$`, `bc\.natType`, ""},
		}})
	registerAcc(accPkg{dir: "proxy/lib", label: "proxy", types: []string{"bytesSyncLogger", "logEventLogger", "tokens_t", "webRTCConn", "SnowflakeProxy", "SignalingServer"}, exported: true, ctors: `^(newBytesSyncLogger|NewProxyEventLogger|newTokens|newSignalingServer|SnowflakeProxy\.Start)$`,
		aliases: []lockAlias{
			{`^(webrtcconn|snowflake)\.go$`, `(c|conn)\.lock`, "proxy.webRTCConn.lock"},
			{`^pt_event_logger\.go$`, `p\.lock`, "proxy.logEventLogger.lock"},
			{`^util\.go$`, `b\.lock`, "proxy.bytesSyncLogger.lock"},
			{`^snowflake\.go$`, `currentNATTypeAccess`, "proxy.currentNATTypeAccess"},
		},
		vars: []accVar{
			{"proxy.bytesSyncLogger.outbound", `^util\.go$`, `b\.outbound`, ""},
			{"proxy.bytesSyncLogger.inbound", `^util\.go$`, `b\.inbound`, ""},
			{"proxy.bytesSyncLogger.outEvents", `^util\.go$`, `b\.outEvents`, ""},
			{"proxy.bytesSyncLogger.inEvents", `^util\.go$`, `b\.inEvents`, ""},
			{"proxy.logEventLogger.inboundSum", `^pt_event_logger\.go$`, `p\.inboundSum`, ""},
			{"proxy.logEventLogger.outboundSum", `^pt_event_logger\.go$`, `p\.outboundSum`, ""},
			{"proxy.logEventLogger.connectionCount", `^pt_event_logger\.go$`, `p\.connectionCount`, ""},
			{"proxy.tokens.clients", `^tokens\.go$`, `t\.clients`, ""},
			{"proxy.currentNATType", `^snowflake\.go$`, `currentNATType`, ""},
			{"proxy.webRTCConn.dc", `^(webrtcconn|snowflake)\.go$`, `(c|conn)\.dc`, ""},
		}})
	registerAcc(accPkg{dir: "common/event", label: "event", types: []string{"eventBus"}, exported: true, ctors: `^(NewSnowflakeEventDispatcher)$`,
		aliases: []lockAlias{{`^bus\.go$`, `e\.lock`, "event.eventBus.lock"}},
		vars: []accVar{
			{"event.eventBus.listeners", `^bus\.go$`, `e\.listeners`, ""},
		}})
}
