package main

// Group for the AMP armor codec (C10) and the AMP path / cache URL helpers (C11).

func init() {
	register(&group{name: "Amp",
		consts: []constSpec{
			{lean: "boilerplateStart", dir: "common/amp", name: "boilerplateStart"},
			{lean: "boilerplateEnd", dir: "common/amp", name: "boilerplateEnd"},
			{lean: "elementSizeLimit", dir: "common/amp", name: "elementSizeLimit"},
			{lean: "bytesPerChunk", dir: "common/amp", name: "bytesPerChunk"},
			{lean: "chunksPerElement", dir: "common/amp", name: "chunksPerElement"},
		},
		fns: []fnSpec{
			{lean: "isASCIIWhitespace", dir: "common/amp", name: "isASCIIWhitespace"},
		},
		skels: []skelSpec{
			{lean: "skel_NewArmorEncoder", dir: "common/amp", name: "NewArmorEncoder", calls: `Write$|NewEncoder$`},
			{lean: "skel_armorEncoder_Write", dir: "common/amp", name: "armorEncoder.Write", calls: `Write$`},
			{lean: "skel_armorEncoder_Close", dir: "common/amp", name: "armorEncoder.Close", calls: `Write$|Close$`},
			{lean: "skel_elementEncoder_Write", dir: "common/amp", name: "elementEncoder.Write", calls: `Write$`},
			{lean: "skel_elementEncoder_Close", dir: "common/amp", name: "elementEncoder.Close", calls: `Write$`},
			{lean: "skel_decodeToWriter", dir: "common/amp", name: "decodeToWriter", calls: `NewTokenizer$|SetMaxBuf$|Next$|Err$|Text$|TagName$|Split$|Scan$|Bytes$|Write$|Errorf$`},
			{lean: "skel_NewArmorDecoder", dir: "common/amp", name: "NewArmorDecoder", calls: `Pipe$|decodeToWriter$|Read$|NewDecoder$|CloseWithError$`},
			{lean: "skel_splitASCIIWhitespace", dir: "common/amp", name: "splitASCIIWhitespace", calls: `isASCIIWhitespace$`},
		},
	})
	register(&group{name: "AmpPath",
		consts: []constSpec{
			{lean: "clientReadLimit", dir: "client/lib", name: "readLimit"},
			{lean: "brokerReadLimit", dir: "broker", name: "readLimit"},
		},
		skels: []skelSpec{
			{lean: "skel_EncodePath", dir: "common/amp", name: "EncodePath", calls: `Read$|^b64$`},
			{lean: "skel_DecodePath", dir: "common/amp", name: "DecodePath", calls: `LastIndexByte$|IndexByte$|DecodeString$|Errorf$`},
			{lean: "skel_CacheURL", dir: "common/amp", name: "CacheURL", calls: `domainPrefix$|JoinHostPort$|PathEscape$|PathUnescape$|Join$|Errorf$`},
			{lean: "skel_domainPrefix", dir: "common/amp", name: "domainPrefix", calls: `domainPrefixBasic$|domainPrefixFallback$`},
			{lean: "skel_domainPrefixBasic", dir: "common/amp", name: "domainPrefixBasic", calls: `ToUnicode$|ToASCII$|Replace$`},
			{lean: "skel_ampClientOffers", dir: "broker", name: "ampClientOffers", calls: `TrimPrefix$|DecodePath$|ClientOffers$|EncodePollResponse$|NewArmorEncoder$|WriteHeader$|Write$`},
			{lean: "skel_clientOffers", dir: "broker", name: "clientOffers", calls: `MaxBytesReader$|ReadAll$|ClientOffers$|WriteHeader$|Write$`},
			{lean: "skel_httpExchange", dir: "client/lib", name: "httpRendezvous.Exchange", calls: `ResolveReference$|NewRequest$|RoundTrip$|limitedRead$|New$`, assigns: `^req\.(Host|URL\.Host)$`},
			{lean: "skel_limitedRead", dir: "client/lib", name: "limitedRead", calls: `ReadAll$`},
			{lean: "skel_ampExchange", dir: "client/lib", name: "ampCacheRendezvous.Exchange", calls: `ResolveReference$|EncodePath$|CacheURL$|NewRequest$|RoundTrip$|Location$|LimitReader$|NewArmorDecoder$|ReadAll$|New$`, assigns: `^req\.(Host|URL\.Host)$`},
			{lean: "skel_Negotiate", dir: "client/lib", name: "BrokerChannel.Negotiate", calls: `Exchange$|DecodeClientPollResponse$`},
		},
	})
}
