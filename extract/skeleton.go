package main

// Synchronisation skeletons: for each listed function the ordered list of statements that matter
// to the hand-written interleaving models (locks, channel operations, close, delete, go, defer,
// select arms, returns, selected calls), with the control structure that encloses them.

import (
	"bytes"
	"fmt"
	"go/ast"
	"go/printer"
	"go/scanner"
	"go/token"
	"regexp"
	"strings"
)

type skelSpec struct {
	lean, dir, name string
	calls           string // regexp over printed callee for calls worth recording
	assigns         string // optional regexp over the printed left-hand side of assignments worth recording
	returns         bool   // record the returned expressions too
	// idents: also emit `<lean>_ids : List (List String)` — for every line of the skeleton the identifiers
	// that occur in the statement (go/scanner over the untruncated text, string literals excluded) — and
	// `<lean>_sig : String`, the printed signature (receiver and parameter names).  Data-flow ties ("every
	// statement that mentions x") use these instead of substring search, which is slow in the Lean kernel.
	idents bool
}

const defaultCalls = `(\.|^)(Lock|Unlock|RLock|RUnlock|Do|Wait|Done|Add)$|^(close|delete|panic|make)$|^heap\.|^time\.After$|\.Close$`

// noTrunc switches the 90-character cut of exprStrShort off (second pass of emitSkel for `idents`).
var noTrunc bool

func exprStrShort(fset *token.FileSet, e ast.Node) string {
	s := exprStr(fset, e)
	if len(s) > 90 && !noTrunc {
		s = s[:90] + "…"
	}
	return s
}

func exprStr(fset *token.FileSet, e ast.Node) string {
	var b bytes.Buffer
	printer.Fprint(&b, fset, e)
	s := b.String()
	s = strings.Join(strings.Fields(s), " ")
	return s
}

type skel struct {
	fset    *token.FileSet
	calls   *regexp.Regexp
	assigns *regexp.Regexp
	returns bool
	// single assignments "assign <lhs> <op> <rhs>;" are also recorded for specs whose `calls` pattern
	// mentions "assign " explicitly and matches that text (work package C19)
	callAssigns bool
	// x++ / x-- statements likewise only for specs whose pattern mentions `\+\+` or `--`
	incdecs bool
}

// exprFacts lists sync-relevant facts inside an expression (receives, interesting calls, func literals).
func (k *skel) exprFacts(e ast.Node) []string {
	var out []string
	if e == nil {
		return nil
	}
	ast.Inspect(e, func(n ast.Node) bool {
		switch x := n.(type) {
		case *ast.FuncLit:
			inner := k.block(x.Body.List)
			if len(inner) > 0 {
				out = append(out, "func{")
				out = append(out, inner...)
				out = append(out, "}")
			}
			return false
		case *ast.CompositeLit:
			// composite literals of selected types (how a value is wired into a struct)
			if x.Type != nil {
				if tn := exprStr(k.fset, x.Type); k.calls.MatchString("lit:" + tn) {
					out = append(out, "lit "+exprStrShort(k.fset, x))
				}
			}
		case *ast.UnaryExpr:
			if x.Op == token.ARROW {
				out = append(out, "recv "+exprStr(k.fset, x.X))
			}
		case *ast.CallExpr:
			callee := exprStr(k.fset, x.Fun)
			if k.calls.MatchString(callee) {
				if callee == "make" {
					if len(x.Args) >= 1 {
						if _, ok := x.Args[0].(*ast.ChanType); ok {
							capS := "0"
							if len(x.Args) == 2 {
								capS = exprStr(k.fset, x.Args[1])
							}
							out = append(out, "makechan cap="+capS)
						}
					}
				} else {
					var args []string
					for _, a := range x.Args {
						if _, ok := a.(*ast.FuncLit); ok {
							args = append(args, "func")
						} else {
							args = append(args, exprStrShort(k.fset, a))
						}
					}
					out = append(out, "call "+callee+"("+strings.Join(args, ", ")+")")
				}
			}
		}
		return true
	})
	return out
}

func wrap(open string, inner []string, force bool) []string {
	if len(inner) == 0 && !force {
		return nil
	}
	out := []string{open + "{"}
	out = append(out, inner...)
	return append(out, "}")
}

func (k *skel) block(list []ast.Stmt) []string {
	var out []string
	for _, s := range list {
		out = append(out, k.stmt(s)...)
	}
	return out
}

func (k *skel) stmt(s ast.Stmt) []string {
	switch x := s.(type) {
	case nil:
		return nil
	case *ast.BlockStmt:
		return k.block(x.List)
	case *ast.ExprStmt:
		return k.exprFacts(x.X)
	case *ast.SendStmt:
		out := k.exprFacts(x.Value)
		return append(out, "send "+exprStr(k.fset, x.Chan))
	case *ast.AssignStmt:
		var out []string
		for _, r := range x.Rhs {
			out = append(out, k.exprFacts(r)...)
		}
		if k.callAssigns && len(x.Lhs) == 1 && len(x.Rhs) == 1 {
			f := "assign " + exprStr(k.fset, x.Lhs[0]) + " " + x.Tok.String() + " " + exprStrShort(k.fset, x.Rhs[0]) + ";"
			if k.calls.MatchString(f) {
				out = append(out, f)
			}
		}
		if k.assigns != nil {
			var ls, rs []string
			for _, l := range x.Lhs {
				ls = append(ls, exprStr(k.fset, l))
			}
			for _, r := range x.Rhs {
				rs = append(rs, exprStrShort(k.fset, r))
			}
			lhs := strings.Join(ls, ", ")
			if k.assigns.MatchString(lhs) {
				out = append(out, "assign "+lhs+" "+x.Tok.String()+" "+strings.Join(rs, ", "))
			}
		}
		return out
	case *ast.DeclStmt:
		return k.exprFacts(x)
	case *ast.IncDecStmt:
		// recorded only when the spec's `calls` pattern asks for it (e.g. `\+\+$`)
		if f := exprStr(k.fset, x.X) + x.Tok.String(); k.incdecs && k.calls.MatchString(f) {
			return []string{"incdec " + f}
		}
		return nil
	case *ast.GoStmt:
		if fl, ok := x.Call.Fun.(*ast.FuncLit); ok {
			return wrap("go", k.block(fl.Body.List), true)
		}
		return []string{"go " + exprStr(k.fset, x.Call.Fun)}
	case *ast.DeferStmt:
		if fl, ok := x.Call.Fun.(*ast.FuncLit); ok {
			return wrap("defer", k.block(fl.Body.List), true)
		}
		return []string{"defer " + exprStr(k.fset, x.Call)}
	case *ast.ReturnStmt:
		var out []string
		var rs []string
		for _, r := range x.Results {
			out = append(out, k.exprFacts(r)...)
			rs = append(rs, exprStrShort(k.fset, r))
		}
		if k.returns && len(rs) > 0 {
			return append(out, "return "+strings.Join(rs, ", "))
		}
		return append(out, "return")
	case *ast.BranchStmt:
		return []string{x.Tok.String()}
	case *ast.IfStmt:
		out := k.stmt(x.Init)
		out = append(out, k.exprFacts(x.Cond)...)
		th := k.block(x.Body.List)
		el := k.stmt(x.Else)
		if len(th) == 0 && len(el) == 0 {
			return out
		}
		out = append(out, "if "+exprStr(k.fset, x.Cond)+"{")
		out = append(out, th...)
		if len(el) > 0 {
			out = append(out, "}else{")
			out = append(out, el...)
		}
		return append(out, "}")
	case *ast.ForStmt:
		out := k.stmt(x.Init)
		inner := k.exprFacts(x.Cond)
		inner = append(inner, k.block(x.Body.List)...)
		inner = append(inner, k.stmt(x.Post)...)
		return append(out, wrap("for", inner, false)...)
	case *ast.RangeStmt:
		inner := k.exprFacts(x.X)
		inner = append(inner, k.block(x.Body.List)...)
		return wrap("range "+exprStr(k.fset, x.X), inner, false)
	case *ast.SelectStmt:
		out := []string{"select{"}
		for _, c := range x.Body.List {
			cc := c.(*ast.CommClause)
			if cc.Comm == nil {
				out = append(out, "default:")
			} else {
				out = append(out, "case:")
				out = append(out, k.stmt(cc.Comm)...)
			}
			out = append(out, "do:")
			out = append(out, k.block(cc.Body)...)
		}
		return append(out, "}")
	case *ast.SwitchStmt:
		var inner []string
		for _, c := range x.Body.List {
			cc := c.(*ast.CaseClause)
			body := k.block(cc.Body)
			if len(body) > 0 {
				lab := "default"
				if cc.List != nil {
					var parts []string
					for _, e := range cc.List {
						parts = append(parts, exprStr(k.fset, e))
					}
					lab = strings.Join(parts, ",")
				}
				inner = append(inner, "case "+lab+":")
				inner = append(inner, body...)
			}
		}
		out := k.stmt(x.Init)
		out = append(out, k.exprFacts(x.Tag)...)
		tag := ""
		if x.Tag != nil {
			tag = " " + exprStr(k.fset, x.Tag)
		}
		return append(out, wrap("switch"+tag, inner, false)...)
	case *ast.TypeSwitchStmt:
		return wrap("typeswitch", k.block(x.Body.List), false)
	case *ast.CaseClause:
		return k.block(x.Body)
	case *ast.LabeledStmt:
		return k.stmt(x.Stmt)
	}
	return nil
}

func leanStr(s string) string {
	s = strings.ReplaceAll(s, `\`, `\\`)
	s = strings.ReplaceAll(s, `"`, `\"`)
	return `"` + s + `"`
}

// srcSpec emits the printed source text of a function body (whitespace-normalised) as a Lean string:
// the tie of last resort for code outside the translated subset (e.g. float arithmetic).
type srcSpec struct{ lean, dir, name string }

func emitSrc(b *strings.Builder, sp srcSpec) {
	p := loadPkg(sp.dir)
	fd, ok := p.funcs[sp.name]
	if !ok || fd.Body == nil {
		fmt.Fprintf(b, "/-- `%s` `%s` not found. -/\ndef %s : String := \"<missing>\"\n\n", sp.dir, sp.name, sp.lean)
		return
	}
	fmt.Fprintf(b, "/-- source text of the body of `%s` `%s` -/\ndef %s : String := %s\n\n", sp.dir, sp.name, sp.lean, leanStr(exprStr(p.fset, fd.Body)))
}

func emitSkel(b *strings.Builder, sp skelSpec) {
	p := loadPkg(sp.dir)
	fd, ok := p.funcs[sp.name]
	if !ok || fd.Body == nil {
		fmt.Fprintf(b, "/-- `%s` `%s` not found. -/\ndef %s : List String := [\"<missing>\"]\n\n", sp.dir, sp.name, sp.lean)
		return
	}
	pat := defaultCalls
	if sp.calls != "" {
		pat += "|" + sp.calls
	}
	k := &skel{fset: p.fset, calls: regexp.MustCompile(pat), callAssigns: strings.Contains(sp.calls, "assign "),
		incdecs: strings.Contains(sp.calls, `\+\+`) || strings.Contains(sp.calls, "--")}
	if sp.assigns != "" {
		k.assigns = regexp.MustCompile(sp.assigns)
	}
	k.returns = sp.returns
	facts := k.block(fd.Body.List)
	fmt.Fprintf(b, "/-- skeleton of `%s` `%s` -/\ndef %s : List String := [\n", sp.dir, sp.name, sp.lean)
	for i, f := range facts {
		sep := ","
		if i == len(facts)-1 {
			sep = ""
		}
		fmt.Fprintf(b, "  %s%s\n", leanStr(f), sep)
	}
	b.WriteString("]\n\n")
	if sp.idents {
		noTrunc = true
		full := k.block(fd.Body.List)
		noTrunc = false
		if len(full) != len(facts) {
			fmt.Fprintf(b, "theorem translator_unsupported_%s_ids : False := by trivial\n\n", sp.lean)
			return
		}
		fmt.Fprintf(b, "/-- identifiers occurring in each line of `%s` (same order, same length) -/\ndef %s_ids : List (List String) := [\n", sp.lean, sp.lean)
		for i, f := range full {
			sep := ","
			if i == len(full)-1 {
				sep = ""
			}
			var qs []string
			for _, id := range lineIdents(f) {
				qs = append(qs, leanStr(id))
			}
			fmt.Fprintf(b, "  [%s]%s\n", strings.Join(qs, ", "), sep)
		}
		b.WriteString("]\n\n")
		sig := *fd
		sig.Body, sig.Doc = nil, nil
		fmt.Fprintf(b, "/-- signature of `%s` `%s` -/\ndef %s_sig : String := %s\n\n", sp.dir, sp.name, sp.lean, leanStr(exprStr(p.fset, &sig)))
	}
}

// lineIdents lists the identifiers of one skeleton line (first occurrence order, no duplicates); the
// leading fact-kind word of the line is not an identifier of the statement.
func lineIdents(line string) []string {
	for _, kind := range []string{"assign ", "call ", "lit ", "send ", "recv ", "incdec ", "makechan "} {
		if strings.HasPrefix(line, kind) {
			line = line[len(kind):]
			break
		}
	}
	var sc scanner.Scanner
	fs := token.NewFileSet()
	src := []byte(line)
	sc.Init(fs.AddFile("", fs.Base(), len(src)), src, func(token.Position, string) {}, 0)
	var out []string
	seen := map[string]bool{}
	for {
		_, tok, lit := sc.Scan()
		if tok == token.EOF {
			break
		}
		if tok == token.IDENT && !seen[lit] {
			seen[lit] = true
			out = append(out, lit)
		}
	}
	return out
}
