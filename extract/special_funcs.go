package main

// Function-level facts for code that is outside the translated subset (maps, interfaces):
//
//	typeAsserts  every type assertion `x.(T)` of a function, in source order, with whether it is the
//	             checked (comma-ok) form.  A single-value assertion panics on a mismatch.
//	switchCases  every tagged `switch` of a function: ("switch", tag) followed by one (label, body)
//	             pair per case clause, labels constant-folded where possible, body printed.
//	stringLits   the string literals of a function body in source order (status strings and the like that
//	             the code writes inline instead of naming them)
//	signature    the parameters of a function in declaration order as (name, type) pairs, followed by one
//	             ("", type) pair per result: which argument position a name used in the body refers to
//	identUsers   every function of the package (non-test files) whose body mentions the identifier, sorted by
//	             name, with the number of mentions; initialisers of package-level declarations count as
//	             the pseudo-function "<package-level>".  Purely syntactic (a shadowing local counts too).
//	             A name written ".m" counts the selector expressions x.m (method calls / values) instead.
//	structFields the fields of a struct type in declaration order: (Go name, type, JSON name, omitempty)
//	             following encoding/json's tag rules for the simple tags the repository uses.

import (
	"fmt"
	"go/ast"
	"reflect"
	"sort"
	"strconv"
	"strings"
)

var funcSpecials = map[string]func(b *strings.Builder, sp specialSpec){
	"typeAsserts":  emitTypeAsserts,
	"switchCases":  emitSwitchCases,
	"structFields": emitStructFields,
	"stringLits":   emitStringLits,
	"signature":    emitSignature,
	"identUsers":   emitIdentUsers,
}

func specialFail(b *strings.Builder, sp specialSpec, why string) {
	fmt.Fprintf(b, "/-- `%s.%s` (%s) could not be extracted: %s -/\ntheorem translator_unsupported_%s : False := by trivial\n\n", sp.dir, sp.name, sp.kind, why, sp.lean)
}

func emitTypeAsserts(b *strings.Builder, sp specialSpec) {
	p := loadPkg(sp.dir)
	fd, ok := p.funcs[sp.name]
	if !ok || fd.Body == nil {
		specialFail(b, sp, "function not found")
		return
	}
	checked := map[*ast.TypeAssertExpr]bool{}
	ast.Inspect(fd.Body, func(n ast.Node) bool {
		switch x := n.(type) {
		case *ast.AssignStmt:
			if len(x.Lhs) == 2 && len(x.Rhs) == 1 {
				if ta, ok := x.Rhs[0].(*ast.TypeAssertExpr); ok {
					checked[ta] = true
				}
			}
		case *ast.ValueSpec:
			if len(x.Names) == 2 && len(x.Values) == 1 {
				if ta, ok := x.Values[0].(*ast.TypeAssertExpr); ok {
					checked[ta] = true
				}
			}
		}
		return true
	})
	var parts []string
	ast.Inspect(fd.Body, func(n ast.Node) bool {
		if ta, ok := n.(*ast.TypeAssertExpr); ok && ta.Type != nil {
			parts = append(parts, fmt.Sprintf("(%s, %s, %v)", leanStr(exprStr(p.fset, ta.X)), leanStr(exprStr(p.fset, ta.Type)), checked[ta]))
		}
		return true
	})
	fmt.Fprintf(b, "/-- type assertions of `%s` `%s`: (operand, asserted type, comma-ok form) -/\ndef %s : List (String × String × Bool) := [%s]\n\n",
		sp.dir, sp.name, sp.lean, strings.Join(parts, ", "))
}

func emitSwitchCases(b *strings.Builder, sp specialSpec) {
	p := loadPkg(sp.dir)
	fd, ok := p.funcs[sp.name]
	if !ok || fd.Body == nil {
		specialFail(b, sp, "function not found")
		return
	}
	var parts []string
	ast.Inspect(fd.Body, func(n ast.Node) bool {
		sw, ok := n.(*ast.SwitchStmt)
		if !ok || sw.Tag == nil {
			return true
		}
		parts = append(parts, fmt.Sprintf("(\"switch\", %s)", leanStr(exprStr(p.fset, sw.Tag))))
		for _, c := range sw.Body.List {
			cc := c.(*ast.CaseClause)
			var body []string
			for _, s := range cc.Body {
				body = append(body, exprStr(p.fset, s))
			}
			labels := []string{"default"}
			if cc.List != nil {
				labels = nil
				for _, e := range cc.List {
					if v := p.eval(e, 0); v.ok && v.isStr {
						labels = append(labels, "="+v.s)
					} else {
						labels = append(labels, exprStr(p.fset, e))
					}
				}
			}
			for _, l := range labels {
				parts = append(parts, fmt.Sprintf("(%s, %s)", leanStr(l), leanStr(strings.Join(body, "; "))))
			}
		}
		return true
	})
	fmt.Fprintf(b, "/-- tagged switches of `%s` `%s`: (\"switch\", tag) then (label, body) per case; a constant string label is written `=text` -/\ndef %s : List (String × String) := [\n  %s]\n\n",
		sp.dir, sp.name, sp.lean, strings.Join(parts, ",\n  "))
}

func emitStructFields(b *strings.Builder, sp specialSpec) {
	p := loadPkg(sp.dir)
	ts, ok := p.types[sp.name]
	if !ok {
		specialFail(b, sp, "type not found")
		return
	}
	st, ok := ts.Type.(*ast.StructType)
	if !ok {
		specialFail(b, sp, "not a struct type")
		return
	}
	var parts []string
	for _, f := range st.Fields.List {
		if len(f.Names) == 0 {
			specialFail(b, sp, "embedded field")
			return
		}
		for _, n := range f.Names {
			if !n.IsExported() {
				continue
			}
			jsonName, omit := n.Name, false
			if f.Tag != nil {
				raw, err := strconv.Unquote(f.Tag.Value)
				if err != nil {
					specialFail(b, sp, "tag")
					return
				}
				if tag, ok := reflect.StructTag(raw).Lookup("json"); ok {
					if tag == "-" {
						continue
					}
					opts := strings.Split(tag, ",")
					if opts[0] != "" {
						jsonName = opts[0]
					}
					for _, o := range opts[1:] {
						switch o {
						case "omitempty":
							omit = true
						default:
							specialFail(b, sp, "unsupported tag option "+o)
							return
						}
					}
				}
			}
			parts = append(parts, fmt.Sprintf("(%s, %s, %s, %v)", leanStr(n.Name), leanStr(exprStr(p.fset, f.Type)), leanStr(jsonName), omit))
		}
	}
	fmt.Fprintf(b, "/-- exported fields of `%s.%s`: (Go name, type, JSON name, omitempty) -/\ndef %s : List (String × String × String × Bool) := [%s]\n\n",
		sp.dir, sp.name, sp.lean, strings.Join(parts, ", "))
}

func emitStringLits(b *strings.Builder, sp specialSpec) {
	p := loadPkg(sp.dir)
	fd, ok := p.funcs[sp.name]
	if !ok || fd.Body == nil {
		specialFail(b, sp, "function not found")
		return
	}
	var parts []string
	ast.Inspect(fd.Body, func(n ast.Node) bool {
		if bl, ok := n.(*ast.BasicLit); ok {
			if v := p.eval(bl, 0); v.ok && v.isStr {
				parts = append(parts, leanStr(v.s))
			}
		}
		return true
	})
	fmt.Fprintf(b, "/-- string literals of `%s` `%s` in source order -/\ndef %s : List String := [%s]\n\n", sp.dir, sp.name, sp.lean, strings.Join(parts, ", "))
}

func emitSignature(b *strings.Builder, sp specialSpec) {
	p := loadPkg(sp.dir)
	fd, ok := p.funcs[sp.name]
	if !ok || fd.Type == nil {
		specialFail(b, sp, "function not found")
		return
	}
	var parts []string
	if fd.Type.Params != nil {
		for _, f := range fd.Type.Params.List {
			if len(f.Names) == 0 {
				specialFail(b, sp, "unnamed parameter")
				return
			}
			for _, n := range f.Names {
				parts = append(parts, fmt.Sprintf("(%s, %s)", leanStr(n.Name), leanStr(exprStr(p.fset, f.Type))))
			}
		}
	}
	if fd.Type.Results != nil {
		for _, f := range fd.Type.Results.List {
			k := len(f.Names)
			if k == 0 {
				k = 1
			}
			for i := 0; i < k; i++ {
				parts = append(parts, fmt.Sprintf("(\"\", %s)", leanStr(exprStr(p.fset, f.Type))))
			}
		}
	}
	fmt.Fprintf(b, "/-- signature of `%s` `%s`: (parameter name, type) in order, then (\"\", type) per result -/\ndef %s : List (String × String) := [%s]\n\n",
		sp.dir, sp.name, sp.lean, strings.Join(parts, ", "))
}

func emitIdentUsers(b *strings.Builder, sp specialSpec) {
	p := loadPkg(sp.dir)
	if len(p.files) == 0 {
		specialFail(b, sp, "package not found")
		return
	}
	counts := map[string]int{}
	selName := strings.TrimPrefix(sp.name, ".") // ".m": mentions of the method / field m (x.m) instead of the identifier
	var count func(fn string, n ast.Node)
	count = func(fn string, n ast.Node) {
		if n == nil {
			return
		}
		ast.Inspect(n, func(n ast.Node) bool {
			if sel, ok := n.(*ast.SelectorExpr); ok { // x.name is a field or method, not the identifier
				if selName != sp.name && sel.Sel.Name == selName {
					counts[fn]++
				}
				count(fn, sel.X)
				return false
			}
			if kv, ok := n.(*ast.KeyValueExpr); ok { // a struct-literal key is a field name
				if _, isId := kv.Key.(*ast.Ident); isId {
					count(fn, kv.Value)
					return false
				}
			}
			if id, ok := n.(*ast.Ident); ok && id.Name == sp.name {
				counts[fn]++
			}
			return true
		})
	}
	for _, f := range p.files {
		for _, d := range f.Decls {
			switch d := d.(type) {
			case *ast.FuncDecl:
				name := d.Name.Name
				if d.Recv != nil && len(d.Recv.List) == 1 {
					name = recvName(d.Recv.List[0].Type) + "." + name
				}
				if d.Body != nil {
					count(name, d.Body)
				}
			case *ast.GenDecl:
				for _, s := range d.Specs {
					if vs, ok := s.(*ast.ValueSpec); ok {
						for _, v := range vs.Values {
							count("<package-level>", v)
						}
					}
				}
			}
		}
	}
	var names []string
	for n := range counts {
		names = append(names, n)
	}
	sort.Strings(names)
	var parts []string
	for _, n := range names {
		parts = append(parts, fmt.Sprintf("(%s, %d)", leanStr(n), counts[n]))
	}
	fmt.Fprintf(b, "/-- functions of `%s` that mention the identifier `%s`: (function, number of mentions), sorted -/\ndef %s : List (String × Nat) := [%s]\n\n",
		sp.dir, sp.name, sp.lean, strings.Join(parts, ", "))
}
