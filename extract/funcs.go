package main

// Translation of small loop-free Go functions into Lean definitions.
//
// Subset: parameters / locals of type int (emitted over Nat: the call sites only pass lengths and
// guarded non-negative values; truncated subtraction is discharged in the tie lemma), byte (UInt8),
// bool, string and []byte (List UInt8), small structs; statements return / if / tagless switch /
// single assignment; expressions literals, arithmetic, shifts, masks, comparisons, && || !,
// conversions byte() int(), len(), indexing by a literal, slice/struct literals and a whitelist of
// strings.* functions.  Anything else is refused.

import (
	"fmt"
	"go/ast"
	"go/token"
	"strings"
)

type refuse struct{ why string }

func bad(format string, a ...interface{}) { panic(refuse{fmt.Sprintf(format, a...)}) }

type ty string

const (
	tInt   ty = "int"
	tByte  ty = "byte"
	tBool  ty = "bool"
	tBytes ty = "bytes" // string, []byte, net.IP
	tZ     ty = "z"     // time.Time / time.Duration (and other signed quantities) as Lean Int
	tConst ty = "const" // untyped numeric constant
	tNil   ty = "nil"
	tErr   ty = "error"
)

type tr struct {
	p       *pkgInfo
	env     map[string]ty
	results []ty
	structs map[string]bool
	// abs maps the printed form of a Go sub-expression to a Lean parameter standing for it
	abs map[string]absParam
}

type absParam struct {
	lean string
	ty   ty
}

func (t *tr) goType(e ast.Expr) ty {
	switch x := e.(type) {
	case *ast.Ident:
		switch x.Name {
		case "int", "uint", "int64", "uint64", "uint32", "int32":
			return tInt
		case "byte", "uint8":
			return tByte
		case "bool":
			return tBool
		case "string":
			return tBytes
		case "error":
			return tErr
		}
		if _, ok := t.p.types[x.Name]; ok {
			t.structs[x.Name] = true
			return ty("struct:" + x.Name)
		}
	case *ast.ArrayType:
		if id, ok := x.Elt.(*ast.Ident); ok && (id.Name == "byte" || id.Name == "uint8") {
			return tBytes
		}
	case *ast.StarExpr:
		return t.goType(x.X)
	case *ast.SelectorExpr:
		if id, ok := x.X.(*ast.Ident); ok && id.Name == "net" && x.Sel.Name == "IP" {
			return tBytes
		}
	}
	bad("unsupported type %T", e)
	return ""
}

func leanType(t ty) string {
	switch t {
	case tInt:
		return "Nat"
	case tByte:
		return "UInt8"
	case tBool:
		return "Bool"
	case tBytes:
		return "List UInt8"
	case tZ:
		return "Int"
	}
	if strings.HasPrefix(string(t), "struct:") {
		return strings.TrimPrefix(string(t), "struct:")
	}
	bad("no Lean type for %s", t)
	return ""
}

func v(name string) string { return "v_" + name }

var binOps = map[token.Token]string{
	token.ADD: "+", token.SUB: "-", token.MUL: "*", token.QUO: "/", token.REM: "%",
	token.SHL: "<<<", token.SHR: ">>>", token.AND: "&&&", token.OR: "|||", token.XOR: "^^^",
}

var stringsFns = map[string]struct {
	lean string
	ret  ty
}{
	"strings.HasPrefix":  {"Snowflake.GoStr.hasPrefix", tBool},
	"strings.HasSuffix":  {"Snowflake.GoStr.hasSuffix", tBool},
	"strings.TrimPrefix": {"Snowflake.GoStr.trimPrefix", tBytes},
	"strings.TrimSuffix": {"Snowflake.GoStr.trimSuffix", tBytes},
}

func (t *tr) expr(e ast.Expr) (string, ty) {
	if t.abs != nil {
		if a, ok := t.abs[exprStr(t.p.fset, e)]; ok {
			return a.lean, a.ty
		}
	}
	switch x := e.(type) {
	case *ast.BasicLit:
		switch x.Kind {
		case token.INT:
			c := t.p.eval(x, 0)
			return fmt.Sprintf("%d", c.n), tConst
		case token.STRING:
			c := t.p.eval(x, 0)
			return "(" + leanBytes(c.s) + " : List UInt8)", tBytes
		case token.CHAR:
			c := t.p.eval(x, 0)
			if c.ok {
				return fmt.Sprintf("%d", c.n), tConst
			}
		}
	case *ast.Ident:
		switch x.Name {
		case "true", "false":
			return x.Name, tBool
		case "nil":
			return "none", tNil
		}
		if ty, ok := t.env[x.Name]; ok {
			return v(x.Name), ty
		}
		if c, ok := t.p.vals[x.Name]; ok {
			if cv := t.p.eval(c, 0); cv.ok && !cv.isStr {
				return fmt.Sprintf("%d", cv.n), tConst
			}
		}
		bad("unknown identifier %s", x.Name)
	case *ast.ParenExpr:
		s, ty := t.expr(x.X)
		return "(" + s + ")", ty
	case *ast.UnaryExpr:
		if x.Op == token.NOT {
			s, _ := t.expr(x.X)
			return "(!" + s + ")", tBool
		}
	case *ast.BinaryExpr:
		a, ta := t.expr(x.X)
		b, tb := t.expr(x.Y)
		rt := ta
		if ta == tConst {
			rt = tb
		}
		if op, ok := binOps[x.Op]; ok {
			if x.Op != token.SHL && x.Op != token.SHR {
				if ta == tConst && tb != tConst {
					a = "(" + a + " : " + leanType(tb) + ")"
				}
				if tb == tConst && ta != tConst {
					b = "(" + b + " : " + leanType(ta) + ")"
				}
			}
			if x.Op == token.SHL || x.Op == token.SHR {
				rt = ta
				if ta == tConst {
					rt = tInt
				}
			}
			return fmt.Sprintf("(%s %s %s)", a, op, b), rt
		}
		switch x.Op {
		case token.EQL:
			return fmt.Sprintf("(%s == %s)", a, b), tBool
		case token.NEQ:
			return fmt.Sprintf("(%s != %s)", a, b), tBool
		case token.LSS:
			return fmt.Sprintf("(decide (%s < %s))", a, b), tBool
		case token.LEQ:
			return fmt.Sprintf("(decide (%s ≤ %s))", a, b), tBool
		case token.GTR:
			return fmt.Sprintf("(decide (%s > %s))", a, b), tBool
		case token.GEQ:
			return fmt.Sprintf("(decide (%s ≥ %s))", a, b), tBool
		case token.LAND:
			return fmt.Sprintf("(%s && %s)", a, b), tBool
		case token.LOR:
			return fmt.Sprintf("(%s || %s)", a, b), tBool
		}
	case *ast.CallExpr:
		if id, ok := x.Fun.(*ast.Ident); ok && len(x.Args) == 1 {
			a, ta := t.expr(x.Args[0])
			switch id.Name {
			case "byte", "uint8":
				if ta == tInt || ta == tConst {
					return "(UInt8.ofNat " + a + ")", tByte
				}
				return a, tByte
			case "int", "uint", "int64", "uint64":
				if ta == tByte {
					return "(UInt8.toNat " + a + ")", tInt
				}
				return a, tInt
			case "len":
				return "(List.length " + a + ")", tInt
			}
		}
		if sel, ok := x.Fun.(*ast.SelectorExpr); ok {
			if pk, ok := sel.X.(*ast.Ident); ok {
				if f, ok := stringsFns[pk.Name+"."+sel.Sel.Name]; ok && len(x.Args) == 2 {
					a, _ := t.expr(x.Args[0])
					b, _ := t.expr(x.Args[1])
					return fmt.Sprintf("(%s %s %s)", f.lean, a, b), f.ret
				}
			}
			// time.Time methods on instants modelled as integers: Before/After/Sub/Equal
			if len(x.Args) == 1 && (sel.Sel.Name == "Before" || sel.Sel.Name == "After" || sel.Sel.Name == "Sub" || sel.Sel.Name == "Equal") {
				a, ta := t.expr(sel.X)
				b, tb := t.expr(x.Args[0])
				if ta == tZ && tb == tZ {
					switch sel.Sel.Name {
					case "Before":
						return fmt.Sprintf("(decide (%s < %s))", a, b), tBool
					case "After":
						return fmt.Sprintf("(decide (%s > %s))", a, b), tBool
					case "Equal":
						return fmt.Sprintf("(%s == %s)", a, b), tBool
					case "Sub":
						return fmt.Sprintf("(%s - %s)", a, b), tZ
					}
				}
			}
		}
	case *ast.SelectorExpr:
		if pk, ok := x.X.(*ast.Ident); ok {
			if pk.Name == "net" && x.Sel.Name == "IPv6len" {
				return "16", tConst
			}
			if pk.Name == "net" && x.Sel.Name == "IPv4len" {
				return "4", tConst
			}
			if tyx, ok := t.env[pk.Name]; ok && strings.HasPrefix(string(tyx), "struct:") {
				st := t.p.types[strings.TrimPrefix(string(tyx), "struct:")]
				if s, ok := st.Type.(*ast.StructType); ok {
					for _, f := range s.Fields.List {
						for _, n := range f.Names {
							if n.Name == x.Sel.Name {
								return "(" + v(pk.Name) + "." + x.Sel.Name + ")", t.goType(f.Type)
							}
						}
					}
				}
			}
		}
	case *ast.IndexExpr:
		a, ta := t.expr(x.X)
		i, _ := t.expr(x.Index)
		if ta == tBytes {
			return fmt.Sprintf("(Snowflake.GoStr.idx %s %s)", a, i), tByte
		}
	case *ast.CompositeLit:
		switch lt := x.Type.(type) {
		case *ast.ArrayType:
			var parts []string
			for _, el := range x.Elts {
				s, _ := t.expr(el)
				parts = append(parts, "("+s+" : UInt8)")
			}
			return "[" + strings.Join(parts, ", ") + "]", tBytes
		case *ast.Ident:
			if _, ok := t.p.types[lt.Name]; ok {
				t.structs[lt.Name] = true
				var parts []string
				for _, el := range x.Elts {
					kv, ok := el.(*ast.KeyValueExpr)
					if !ok {
						bad("positional struct literal")
					}
					s, _ := t.expr(kv.Value)
					parts = append(parts, fmt.Sprintf("%s := %s", kv.Key.(*ast.Ident).Name, s))
				}
				return fmt.Sprintf("({ %s } : %s)", strings.Join(parts, ", "), lt.Name), ty("struct:" + lt.Name)
			}
		}
	}
	bad("unsupported expression %T at %v", e, t.p.fset.Position(e.Pos()))
	return "", ""
}

// stmts translates a statement list; k yields the value when control falls off the end.
func (t *tr) stmts(list []ast.Stmt, ind string, k func(string) string) string {
	if len(list) == 0 {
		return k(ind)
	}
	rest := func(i string) string { return t.stmts(list[1:], i, k) }
	switch s := list[0].(type) {
	case *ast.ReturnStmt:
		return ind + t.ret(s) + "\n"
	case *ast.AssignStmt:
		if len(s.Lhs) == 1 && len(s.Rhs) == 1 && (s.Tok == token.ASSIGN || s.Tok == token.DEFINE) {
			if id, ok := s.Lhs[0].(*ast.Ident); ok {
				e, ty := t.expr(s.Rhs[0])
				if old, ok := t.env[id.Name]; ok && (ty == tConst || ty == tNil) {
					ty = old
				}
				if ty == tConst {
					ty = tInt
				}
				t.env[id.Name] = ty
				return fmt.Sprintf("%slet %s : %s := %s\n", ind, v(id.Name), leanType(ty), e) + rest(ind)
			}
		}
	case *ast.IfStmt:
		els := rest
		if s.Else != nil {
			switch e := s.Else.(type) {
			case *ast.BlockStmt:
				els = func(i string) string { return t.stmts(e.List, i, rest) }
			case *ast.IfStmt:
				els = func(i string) string { return t.stmts([]ast.Stmt{e}, i, rest) }
			}
		}
		if s.Init != nil {
			// pattern: if x := y.To4(); x != nil { … }
			as, ok := s.Init.(*ast.AssignStmt)
			if ok && len(as.Lhs) == 1 && len(as.Rhs) == 1 {
				id := as.Lhs[0].(*ast.Ident)
				call, ok1 := as.Rhs[0].(*ast.CallExpr)
				cond, ok2 := s.Cond.(*ast.BinaryExpr)
				if ok1 && ok2 && cond.Op == token.NEQ {
					sel, ok3 := call.Fun.(*ast.SelectorExpr)
					cx, ok4 := cond.X.(*ast.Ident)
					cy, ok5 := cond.Y.(*ast.Ident)
					if ok3 && ok4 && ok5 && sel.Sel.Name == "To4" && cx.Name == id.Name && cy.Name == "nil" && len(call.Args) == 0 {
						recv, _ := t.expr(sel.X)
						t.env[id.Name] = tBytes
						thenS := t.stmts(s.Body.List, ind+"    ", rest)
						delete(t.env, id.Name)
						return fmt.Sprintf("%smatch Snowflake.GoStr.to4 %s with\n%s| some %s =>\n%s%s| none =>\n%s", ind, recv, ind, v(id.Name), thenS, ind, els(ind+"    "))
					}
				}
			}
			bad("unsupported if-init at %v", t.p.fset.Position(s.Pos()))
		}
		c, _ := t.expr(s.Cond)
		saved := copyEnv(t.env)
		thenS := t.stmts(s.Body.List, ind+"  ", rest)
		t.env = saved
		return fmt.Sprintf("%sif %s then\n%s%selse\n%s", ind, c, thenS, ind, els(ind+"  "))
	case *ast.SwitchStmt:
		if s.Init == nil {
			tag := ""
			if s.Tag != nil {
				tag, _ = t.expr(s.Tag)
			}
			var cases []*ast.CaseClause
			var def *ast.CaseClause
			for _, c := range s.Body.List {
				cc := c.(*ast.CaseClause)
				if cc.List == nil {
					def = cc
				} else {
					cases = append(cases, cc)
				}
			}
			var build func(i int, ind string) string
			build = func(i int, ind string) string {
				if i == len(cases) {
					if def != nil {
						return t.stmts(def.Body, ind, rest)
					}
					return rest(ind)
				}
				var alts []string
				for _, ce := range cases[i].List {
					c, _ := t.expr(ce)
					if tag != "" {
						c = fmt.Sprintf("(%s == %s)", tag, c)
					}
					alts = append(alts, c)
				}
				c := alts[0]
				if len(alts) > 1 {
					c = "(" + strings.Join(alts, " || ") + ")"
				}
				saved := copyEnv(t.env)
				thenS := t.stmts(cases[i].Body, ind+"  ", rest)
				t.env = saved
				return fmt.Sprintf("%sif %s then\n%s%selse\n%s", ind, c, thenS, ind, build(i+1, ind+"  "))
			}
			return build(0, ind)
		}
	}
	bad("unsupported statement %T at %v", list[0], t.p.fset.Position(list[0].Pos()))
	return ""
}

func copyEnv(m map[string]ty) map[string]ty {
	n := map[string]ty{}
	for k, v := range m {
		n[k] = v
	}
	return n
}

func (t *tr) ret(s *ast.ReturnStmt) string {
	switch {
	case len(t.results) == 1 && len(s.Results) == 1:
		e, _ := t.expr(s.Results[0])
		return e
	case len(t.results) == 2 && t.results[1] == tErr && len(s.Results) == 2:
		if id, ok := s.Results[1].(*ast.Ident); ok && id.Name == "nil" {
			e, _ := t.expr(s.Results[0])
			return "some " + e
		}
		return "none"
	}
	bad("unsupported return shape")
	return ""
}

func (t *tr) resultType() string {
	if len(t.results) == 1 {
		return leanType(t.results[0])
	}
	if len(t.results) == 2 && t.results[1] == tErr {
		return "Option (" + leanType(t.results[0]) + ")"
	}
	bad("unsupported result list")
	return ""
}

func (t *tr) structDecl(name string) string {
	st, ok := t.p.types[name].Type.(*ast.StructType)
	if !ok {
		bad("%s is not a struct", name)
	}
	var b strings.Builder
	fmt.Fprintf(&b, "structure %s where\n", name)
	for _, f := range st.Fields.List {
		for _, n := range f.Names {
			fmt.Fprintf(&b, "  %s : %s\n", n.Name, leanType(t.goType(f.Type)))
		}
	}
	b.WriteString("deriving DecidableEq, Repr\n\n")
	return b.String()
}

type fnSpec struct {
	lean, dir, name string
	// when set, translate only the first tagless switch in the body, as a function of `param`
	// returning the tuple of `outs` (each must be assigned in the cases).
	switchParam string
	switchOuts  []string
}

// condSpec translates one `if` condition inside a function, abstracting listed sub-expressions
// into parameters.  `contains` selects the if statement (its printed condition must contain it).
type condSpec struct {
	lean, dir, name, contains string
	params                    []absParam // in order
	abs                       map[string]string
}

func emitConds(b *strings.Builder, specs []condSpec) {
	for _, cs := range specs {
		func() {
			defer func() {
				if r := recover(); r != nil {
					rf, ok := r.(refuse)
					if !ok {
						panic(r)
					}
					fmt.Fprintf(b, "/-- translator refused `%s.%s`: %s -/\ntheorem translator_unsupported_%s : False := by trivial\n\n", cs.dir, cs.name, rf.why, cs.lean)
				}
			}()
			p := loadPkg(cs.dir)
			fd, ok := p.funcs[cs.name]
			if !ok {
				bad("function not found")
			}
			var conds []ast.Expr
			ast.Inspect(fd.Body, func(n ast.Node) bool {
				switch st := n.(type) {
				case *ast.IfStmt:
					if strings.Contains(exprStr(p.fset, st.Cond), cs.contains) {
						conds = append(conds, st.Cond)
					}
				case *ast.ForStmt:
					if st.Cond != nil && strings.Contains(exprStr(p.fset, st.Cond), cs.contains) {
						conds = append(conds, st.Cond)
					}
				case *ast.ReturnStmt:
					if len(st.Results) == 1 && strings.Contains(exprStr(p.fset, st.Results[0]), cs.contains) {
						conds = append(conds, st.Results[0])
					}
				}
				return true
			})
			if len(conds) != 1 {
				bad("expected exactly one if/for condition or returned expression containing %q, found %d", cs.contains, len(conds))
			}
			t := &tr{p: p, env: map[string]ty{}, structs: map[string]bool{}, abs: map[string]absParam{}}
			byName := map[string]absParam{}
			var params []string
			for _, pa := range cs.params {
				byName[pa.lean] = pa
				params = append(params, fmt.Sprintf("(%s : %s)", v(pa.lean), leanType(pa.ty)))
			}
			for goExpr, name := range cs.abs {
				t.abs[goExpr] = absParam{v(name), byName[name].ty}
			}
			e, _ := t.expr(conds[0])
			fmt.Fprintf(b, "/-- condition `%s` of `%s` `%s` -/\ndef %s %s : Bool :=\n  %s\n\n", exprStr(p.fset, conds[0]), cs.dir, cs.name, cs.lean, strings.Join(params, " "), e)
		}()
	}
}

func findSwitch(n ast.Node) *ast.SwitchStmt {
	var out *ast.SwitchStmt
	ast.Inspect(n, func(x ast.Node) bool {
		if s, ok := x.(*ast.SwitchStmt); ok && out == nil && s.Tag == nil {
			out = s
		}
		return out == nil
	})
	return out
}

func emitFn(b *strings.Builder, fs fnSpec, declared map[string]bool) {
	defer func() {
		if r := recover(); r != nil {
			rf, ok := r.(refuse)
			if !ok {
				panic(r)
			}
			fmt.Fprintf(b, "/-- translator refused `%s.%s`: %s -/\ntheorem translator_unsupported_%s : False := by trivial\n\n", fs.dir, fs.name, rf.why, fs.lean)
		}
	}()
	p := loadPkg(fs.dir)
	fd, ok := p.funcs[fs.name]
	if !ok {
		bad("function not found")
	}
	t := &tr{p: p, env: map[string]ty{}, structs: map[string]bool{}}
	var params []string
	var body string
	var rty string
	if fs.switchParam != "" {
		sw := findSwitch(fd.Body)
		if sw == nil {
			bad("no tagless switch")
		}
		t.env[fs.switchParam] = tInt
		t.env["prefix"] = tBytes
		params = append(params, fmt.Sprintf("(%s : Nat)", v(fs.switchParam)))
		var outs []string
		for _, o := range fs.switchOuts {
			outs = append(outs, v(o))
		}
		body = "  let v_prefix : List UInt8 := []\n" + t.stmts([]ast.Stmt{sw}, "  ", func(ind string) string {
			return ind + "(" + strings.Join(outs, ", ") + ")\n"
		})
		rty = "Nat × List UInt8"
	} else {
		if fd.Recv != nil {
			for _, f := range fd.Recv.List {
				for _, n := range f.Names {
					ty := t.goType(f.Type)
					t.env[n.Name] = ty
					params = append(params, fmt.Sprintf("(%s : %s)", v(n.Name), leanType(ty)))
				}
			}
		}
		for _, f := range fd.Type.Params.List {
			for _, n := range f.Names {
				ty := t.goType(f.Type)
				t.env[n.Name] = ty
				params = append(params, fmt.Sprintf("(%s : %s)", v(n.Name), leanType(ty)))
			}
		}
		if fd.Type.Results != nil {
			for _, f := range fd.Type.Results.List {
				t.results = append(t.results, t.goType(f.Type))
			}
		}
		rty = t.resultType()
		body = t.stmts(fd.Body.List, "  ", func(string) string { bad("control falls off the end"); return "" })
	}
	var pre strings.Builder
	for name := range t.structs {
		if !declared[name] {
			declared[name] = true
			pre.WriteString(t.structDecl(name))
		}
	}
	b.WriteString(pre.String())
	fmt.Fprintf(b, "/-- translated from `%s` `%s` -/\ndef %s %s : %s :=\n%s\n", fs.dir, fs.name, fs.lean, strings.Join(params, " "), rty, body)
}
