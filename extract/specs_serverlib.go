package main

// Group for C18 (server/lib): the capacity constant, the initialiser of the global map, the constructor's
// return expression, and statement listings (skeletons with every assignment and returned expression)
// of the sanitiser and of the ring map's Set / Get.  None of these functions fits the translator's
// expression subset (maps, slices of structs, net.ParseIP, method values), so the tie is: listings
// (guards, order, presence) + differential runs.

func init() {
	register(&group{name: "ServerLib",
		consts: []constSpec{{lean: "clientIDAddrMapCapacity", dir: "server/lib", name: "clientIDAddrMapCapacity"}},
		specials: []specialSpec{
			{lean: "clientIDAddrMap_init", kind: "exprText", dir: "server/lib", name: "clientIDAddrMap"},
			{lean: "newClientIDMap_ret", kind: "returnText", dir: "server/lib", name: "newClientIDMap"},
		},
		skels: []skelSpec{
			{lean: "stmts_clientAddr", dir: "server/lib", name: "clientAddr", assigns: `.`, returns: true},
			{lean: "stmts_Set", dir: "server/lib", name: "clientIDMap.Set", assigns: `.`, returns: true},
			{lean: "stmts_Get", dir: "server/lib", name: "clientIDMap.Get", assigns: `.`, returns: true},
		},
	})
}
