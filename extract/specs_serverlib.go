package main

// Group for C18 (server/lib): the capacity constant, the initialiser of the global map, the constructor's
// return expression, and statement listings (skeletons with every assignment and returned expression)
// of the sanitiser and of the ring map's Set / Get.  None of these functions fits the translator's
// expression subset (maps, slices of structs, net.ParseIP, method values), so the tie is: listings
// (guards, order, presence) + differential runs.
//
// Attribution clause: listings of the three functions that decide which Set / Get is performed for a
// carrier and for a session — httpHandler.ServeHTTP (addr := clientAddr(client_ip), handed to
// turbotunnelMode), turbotunnelMode (Set(clientID, addr) with the ClientID read from the carrier, before
// any packet of the carrier is queued) and SnowflakeListener.acceptStreams (one Get before the
// AcceptStream loop; every accepted stream is wrapped with the variable assigned from that Get) — plus
// the signatures of the latter two (which parameter `addr` / `conn` is).

const attrCalls = `^clientIDAddrMap\.[A-Za-z]+$|^clientAddr$|^turbotunnelMode$|^r\.URL\.Query\(\)\.Get$|^io\.ReadFull$` +
	`|^encapsulation\.ReadData$|\.QueueIncoming$|\.queueConn$|\.AcceptStream$|^smux\.Server$|^lit:SnowflakeClientConn$`

func init() {
	register(&group{name: "ServerLib",
		consts: []constSpec{{lean: "clientIDAddrMapCapacity", dir: "server/lib", name: "clientIDAddrMapCapacity"}},
		specials: []specialSpec{
			{lean: "clientIDAddrMap_init", kind: "exprText", dir: "server/lib", name: "clientIDAddrMap"},
			{lean: "newClientIDMap_ret", kind: "returnText", dir: "server/lib", name: "newClientIDMap"},
			{lean: "sig_turbotunnelMode", kind: "signature", dir: "server/lib", name: "turbotunnelMode"},
			{lean: "sig_acceptStreams", kind: "signature", dir: "server/lib", name: "SnowflakeListener.acceptStreams"},
			{lean: "sig_clientAddr", kind: "signature", dir: "server/lib", name: "clientAddr"},
			{lean: "users_clientIDAddrMap", kind: "identUsers", dir: "server/lib", name: "clientIDAddrMap"},
			{lean: "users_turbotunnelMode", kind: "identUsers", dir: "server/lib", name: "turbotunnelMode"},
			{lean: "users_acceptStreams", kind: "identUsers", dir: "server/lib", name: ".acceptStreams"},
			{lean: "users_SnowflakeClientConn", kind: "identUsers", dir: "server/lib", name: "SnowflakeClientConn"},
			{lean: "users_address", kind: "identUsers", dir: "server/lib", name: ".address"},
			{lean: "remoteAddr_ret", kind: "returnText", dir: "server/lib", name: "SnowflakeClientConn.RemoteAddr"},
		},
		skels: []skelSpec{
			{lean: "stmts_clientAddr", dir: "server/lib", name: "clientAddr", assigns: `.`, returns: true},
			{lean: "stmts_Set", dir: "server/lib", name: "clientIDMap.Set", assigns: `.`, returns: true},
			{lean: "stmts_Get", dir: "server/lib", name: "clientIDMap.Get", assigns: `.`, returns: true},
			{lean: "stmts_ServeHTTP", dir: "server/lib", name: "httpHandler.ServeHTTP", calls: attrCalls, assigns: `.`, returns: true},
			{lean: "stmts_turbotunnelMode", dir: "server/lib", name: "turbotunnelMode", calls: attrCalls, assigns: `.`, returns: true},
			{lean: "stmts_acceptStreams", dir: "server/lib", name: "SnowflakeListener.acceptStreams", calls: attrCalls, assigns: `.`, returns: true},
		},
	})
}
