package main

// Group Metrics (C19): rounding, counter call sites, unique-address sets, distinct-IP journal.

func init() {
	const ipcCalls = `\.Inc$|\.UpdateCountryStats$|\.RecordIPAddress$|^i\.ctx\.metrics\.[A-Za-z]+\+\+$`
	register(&group{name: "Metrics",
		consts: []constSpec{
			{"NATRestricted", "broker", "NATRestricted"},
			{"NATUnrestricted", "broker", "NATUnrestricted"},
		},
		specials: []specialSpec{{lean: "KnownProxyTypes", kind: "mapKeys", dir: "common/messages", name: "KnownProxyTypes"}},
		conds: []condSpec{
			{lean: "inc_guard", dir: "broker", name: "roundedCounter.Inc", contains: "c.total",
				params: []absParam{{"total", tInt}, {"value", tInt}},
				abs:    map[string]string{"c.total": "total", "c.value": "value"}},
			{lean: "reader_skipCond", dir: "common/ipsetsink/sinkcluster", name: "ClusterCounter.Count", contains: "RecordingStart.Before",
				params: []absParam{{"startBeforeFrom", tBool}, {"startEqFrom", tBool}, {"endAfterTo", tBool}},
				abs: map[string]string{"sinkInfo.RecordingStart.Before(c.from)": "startBeforeFrom",
					"sinkInfo.RecordingStart.Equal(c.from)": "startEqFrom", "sinkInfo.RecordingEnd.After(c.to)": "endAfterTo"}},
		},
		skels: []skelSpec{
			{lean: "skel_Inc", dir: "broker", name: "roundedCounter.Inc", calls: `^atomic\.`},
			{lean: "skel_Write", dir: "broker", name: "roundedCounter.Write", calls: `^atomic\.`},
			{lean: "skel_ProxyPolls", dir: "broker", name: "IPC.ProxyPolls", calls: ipcCalls},
			{lean: "skel_ClientOffers", dir: "broker", name: "IPC.ClientOffers", calls: ipcCalls},
			{lean: "skel_UpdateCountryStats", dir: "broker", name: "Metrics.UpdateCountryStats", calls: `\.Inc$|^assign m\.countryStats\.|^m\.countryStats\.counts\[country\]\+\+$|^assign addresses\[addr\] = `},
			{lean: "skel_zeroMetrics", dir: "broker", name: "Metrics.zeroMetrics", calls: `^assign m\.`},
			{lean: "skel_printMetrics", dir: "broker", name: "Metrics.printMetrics", calls: `^binCount$`},
			{lean: "skel_sinkAdd", dir: "common/ipsetsink", name: "IPSetSink.AddIPToSet", calls: `\.countDistinct\.`},
			{lean: "skel_sinkDump", dir: "common/ipsetsink", name: "IPSetSink.Dump", calls: `\.countDistinct\.`},
			{lean: "skel_writerAdd", dir: "common/ipsetsink/sinkcluster", name: "ClusterWriter.AddIPToSet", calls: `WriteIPSetToDisk$|\.AddIPToSet$`},
			{lean: "skel_writerFlush", dir: "common/ipsetsink/sinkcluster", name: "ClusterWriter.WriteIPSetToDisk", calls: `\.Dump$|^io\.Copy$|\.Reset$|\.Sync$`},
		},
		srcs: []srcSpec{{"binCount_src", "broker", "binCount"}},
	})
	// The scanner in front of the journal reader, in its own module: on a tree whose reader has no
	// explicit line limit only the reader obligations break.
	register(&group{name: "MetricsReader",
		consts: []constSpec{{"maxLineSize", "common/ipsetsink/sinkcluster", "maxLineSize"}},
		skels: []skelSpec{
			{lean: "skel_readerCount", dir: "common/ipsetsink/sinkcluster", name: "ClusterCounter.Count", calls: `^inputScanner\.(Buffer|Scan|Err)$|^bufio\.NewScanner$|\.Merge$|\.GobDecode$|\.Count$`},
		},
	})
}
