package main

// C12: constants, struct layouts, inline status strings, the NAT switches and the validation
// conditions of common/messages and common/bridgefingerprint.

func init() {
	m, f, n := "common/messages", "common/bridgefingerprint", "common/nat"
	status := func(lean, fn, contains string) condSpec {
		return condSpec{lean: lean, dir: m, name: fn, contains: contains,
			params: []absParam{{"status", tBytes}}, abs: map[string]string{"message.Status": "status"}}
	}
	register(&group{name: "Messages",
		consts: []constSpec{
			{"version", m, "version"}, {"ProxyUnknown", m, "ProxyUnknown"}, {"ClientVersion", m, "ClientVersion"},
			{"defaultBridgeFingerprint", m, "defaultBridgeFingerprint"}, {"StrTimedOut", m, "StrTimedOut"}, {"StrNoProxies", m, "StrNoProxies"},
			{"NATUnknown", n, "NATUnknown"}, {"NATRestricted", n, "NATRestricted"}, {"NATUnrestricted", n, "NATUnrestricted"},
		},
		specials: []specialSpec{
			{lean: "KnownProxyTypes", kind: "mapKeys", dir: m, name: "KnownProxyTypes"},
			{lean: "fieldsProxyPollRequest", kind: "structFields", dir: m, name: "ProxyPollRequest"},
			{lean: "fieldsProxyPollResponse", kind: "structFields", dir: m, name: "ProxyPollResponse"},
			{lean: "fieldsProxyAnswerRequest", kind: "structFields", dir: m, name: "ProxyAnswerRequest"},
			{lean: "fieldsProxyAnswerResponse", kind: "structFields", dir: m, name: "ProxyAnswerResponse"},
			{lean: "fieldsClientPollRequest", kind: "structFields", dir: m, name: "ClientPollRequest"},
			{lean: "fieldsClientPollResponse", kind: "structFields", dir: m, name: "ClientPollResponse"},
			{lean: "litsEncodePollResponse", kind: "stringLits", dir: m, name: "EncodePollResponse"},
			{lean: "litsEncodePollResponseWithRelayURL", kind: "stringLits", dir: m, name: "EncodePollResponseWithRelayURL"},
			{lean: "litsEncodeAnswerResponse", kind: "stringLits", dir: m, name: "EncodeAnswerResponse"},
			{lean: "litsEncodeProxyPollRequest", kind: "stringLits", dir: m, name: "EncodeProxyPollRequest"},
			{lean: "switchDecodeProxyPollRequest", kind: "switchCases", dir: m, name: "DecodeProxyPollRequestWithRelayPrefix"},
			{lean: "switchDecodeClientPollRequest", kind: "switchCases", dir: m, name: "DecodeClientPollRequest"},
		},
		conds: []condSpec{
			{lean: "fingerprintLenBad", dir: f, name: "FingerprintFromBytes", contains: "n != ",
				params: []absParam{{"n", tInt}}, abs: map[string]string{"n": "n"}},
			{lean: "pollVersionBad", dir: m, name: "DecodeProxyPollRequestWithRelayPrefix", contains: "majorVersion",
				params: []absParam{{"major", tBytes}}, abs: map[string]string{"majorVersion": "major"}},
			{lean: "pollSidMissing", dir: m, name: "DecodeProxyPollRequestWithRelayPrefix", contains: "message.Sid",
				params: []absParam{{"sid", tBytes}}, abs: map[string]string{"message.Sid": "sid"}},
			{lean: "answerVersionBad", dir: m, name: "DecodeAnswerRequest", contains: "majorVersion",
				params: []absParam{{"major", tBytes}}, abs: map[string]string{"majorVersion": "major"}},
			{lean: "answerMissing", dir: m, name: "DecodeAnswerRequest", contains: "message.Sid",
				params: []absParam{{"sid", tBytes}, {"answer", tBytes}}, abs: map[string]string{"message.Sid": "sid", "message.Answer": "answer"}},
			status("pollRespStatusEmpty", "DecodePollResponseWithRelayURL", `message.Status == ""`),
			status("pollRespIsMatch", "DecodePollResponseWithRelayURL", `"client match"`),
			status("pollRespIsFailure", "DecodePollResponseWithRelayURL", `"no match"`),
			{lean: "pollRespOfferMissing", dir: m, name: "DecodePollResponseWithRelayURL", contains: "message.Offer",
				params: []absParam{{"offer", tBytes}}, abs: map[string]string{"message.Offer": "offer"}},
			status("answerRespStatusEmpty", "DecodeAnswerResponse", `message.Status == ""`),
			status("answerRespIsSuccess", "DecodeAnswerResponse", `"success"`),
			{lean: "clientReqOfferMissing", dir: m, name: "DecodeClientPollRequest", contains: "message.Offer",
				params: []absParam{{"offer", tBytes}}, abs: map[string]string{"message.Offer": "offer"}},
			{lean: "clientReqFingerprintEmpty", dir: m, name: "DecodeClientPollRequest", contains: "message.Fingerprint ==",
				params: []absParam{{"fp", tBytes}}, abs: map[string]string{"message.Fingerprint": "fp"}},
			{lean: "clientRespEmpty", dir: m, name: "DecodeClientPollResponse", contains: "message.Error",
				params: []absParam{{"error", tBytes}, {"answer", tBytes}}, abs: map[string]string{"message.Error": "error", "message.Answer": "answer"}},
		},
	})
}
