package main

// Group ClientLib (C15): synchronisation skeletons of the client's peer pool, its collection loop and
// peer construction, plus the timeouts the model abstracts into nondeterministic timer labels.

func init() {
	const peersCalls = `(\.|^)(Catch|GetMax|Count|purgeClosedPeers|PushBack|Remove|Closed|Collect|Melted|End|end|Pop)$` +
		`|(\.|^)(preparePeerConnection|LocalDescription|Negotiate|SetRemoteDescription|NewPeerConnection|CreateDataChannel|CreateOffer|SetLocalDescription|connect|OnNewSnowflakeEvent)$`
	register(&group{name: "ClientLib",
		consts: []constSpec{
			{lean: "ReconnectTimeout", dir: "client/lib", name: "ReconnectTimeout"},
			{lean: "SnowflakeTimeout", dir: "client/lib", name: "SnowflakeTimeout"},
			{lean: "DataChannelTimeout", dir: "client/lib", name: "DataChannelTimeout"},
		},
		skels: []skelSpec{
			{lean: "skel_NewPeers", dir: "client/lib", name: "NewPeers", calls: peersCalls},
			{lean: "skel_Collect", dir: "client/lib", name: "Peers.Collect", calls: peersCalls},
			{lean: "skel_Pop", dir: "client/lib", name: "Peers.Pop", calls: peersCalls},
			{lean: "skel_End", dir: "client/lib", name: "Peers.End", calls: peersCalls},
			{lean: "skel_endBody", dir: "client/lib", name: "Peers.end", calls: peersCalls}, // body run under the Once, if split off
			{lean: "skel_Count", dir: "client/lib", name: "Peers.Count", calls: peersCalls},
			{lean: "skel_purgeClosedPeers", dir: "client/lib", name: "Peers.purgeClosedPeers", calls: peersCalls},
			{lean: "skel_Melted", dir: "client/lib", name: "Peers.Melted", calls: peersCalls},
			{lean: "skel_connectLoop", dir: "client/lib", name: "connectLoop", calls: peersCalls},
			{lean: "skel_Close", dir: "client/lib", name: "SnowflakeConn.Close", calls: peersCalls},
			{lean: "skel_NewWebRTCPeerWithEvents", dir: "client/lib", name: "NewWebRTCPeerWithEvents", calls: peersCalls},
			{lean: "skel_connect", dir: "client/lib", name: "WebRTCPeer.connect", calls: peersCalls},
			{lean: "skel_preparePeerConnection", dir: "client/lib", name: "WebRTCPeer.preparePeerConnection", calls: peersCalls},
			{lean: "skel_PeerClose", dir: "client/lib", name: "WebRTCPeer.Close", calls: peersCalls},
			{lean: "skel_Catch", dir: "client/lib", name: "WebRTCDialer.Catch", calls: peersCalls + `|^NewWebRTCPeerWithEvents$`},
		},
	})
}
