module verifextract

go 1.23
