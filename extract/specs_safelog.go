package main

// C07: the address patterns of common/safelog (parsed by regexp/syntax), the compiled variables that
// use them, and the skeletons of Scrub and LogScrubber.Write.

func init() {
	const dir = "common/safelog"
	register(&group{name: "Safelog",
		consts: []constSpec{
			{lean: "ipv4AddressSrc", dir: dir, name: "ipv4Address"},
			{lean: "optionalPortSrc", dir: dir, name: "optionalPort"},
		},
		regexes: []regexSpec{
			{lean: "addressPattern", dir: dir, name: "addressPattern", idx: -1},
			{lean: "fullAddrPattern", dir: dir, name: "fullAddrPattern", idx: -1},
			{lean: "ipv4Address", dir: dir, name: "ipv4Address", idx: -1},
			{lean: "ipv6Address", dir: dir, name: "ipv6Address", idx: -1},
			{lean: "ipv6Compressed", dir: dir, name: "ipv6Compressed", idx: -1},
			{lean: "ipv6Full", dir: dir, name: "ipv6Full", idx: -1},
			{lean: "optionalPort", dir: dir, name: "optionalPort", idx: -1},
			{lean: "scrubberPattern0", dir: dir, name: "scrubberPatterns", idx: 0},
			{lean: "addressRegexp", dir: dir, name: "addressRegexp", idx: 0},
		},
		skels: []skelSpec{
			{lean: "skel_Scrub", dir: dir, name: "Scrub", calls: `Scrub|LastIndexByte|IndexByte|Write$|ReplaceAll|Match|Equal|Lock|Unlock`},
			{lean: "skel_Write", dir: dir, name: "LogScrubber.Write", calls: `Scrub|LastIndexByte|IndexByte|Write$|ReplaceAll|Match|Equal|Lock|Unlock`},
		},
	})
}
