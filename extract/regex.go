package main

// Regular expressions of the source, parsed by Go's own regexp/syntax (Perl flags, as
// regexp.MustCompile does) and emitted as terms of Snowflake.Rx.

import (
	"fmt"
	"go/ast"
	"regexp/syntax"
	"strings"
)

func rxCls(r []rune) string {
	var p []string
	for i := 0; i+1 < len(r); i += 2 {
		p = append(p, fmt.Sprintf("(%d,%d)", r[i], r[i+1]))
	}
	return "(.cls [" + strings.Join(p, ",") + "])"
}

// rxNullable: can the expression match the empty string (anchors count as nullable).
func rxNullable(re *syntax.Regexp) bool {
	switch re.Op {
	case syntax.OpLiteral:
		return len(re.Rune) == 0
	case syntax.OpCharClass, syntax.OpAnyCharNotNL, syntax.OpAnyChar, syntax.OpNoMatch:
		return false
	case syntax.OpCapture, syntax.OpPlus:
		return rxNullable(re.Sub[0])
	case syntax.OpConcat:
		for _, s := range re.Sub {
			if !rxNullable(s) {
				return false
			}
		}
		return true
	case syntax.OpAlternate:
		for _, s := range re.Sub {
			if rxNullable(s) {
				return true
			}
		}
		return false
	case syntax.OpRepeat:
		return re.Min == 0 || rxNullable(re.Sub[0])
	}
	return true
}

func rxEmit(re *syntax.Regexp) string {
	switch re.Op {
	case syntax.OpEmptyMatch:
		return ".eps"
	case syntax.OpLiteral:
		s := ".eps"
		for i := len(re.Rune) - 1; i >= 0; i-- {
			r := re.Rune[i]
			c := fmt.Sprintf("(.cls [(%d,%d)])", r, r)
			if re.Flags&syntax.FoldCase != 0 {
				bad("case folding unsupported")
			}
			if s == ".eps" {
				s = c
			} else {
				s = "(.cat " + c + " " + s + ")"
			}
		}
		return s
	case syntax.OpCharClass:
		return rxCls(re.Rune)
	case syntax.OpAnyCharNotNL:
		return "(.cls [(0,9),(11,1114111)])"
	case syntax.OpAnyChar:
		return "(.cls [(0,1114111)])"
	case syntax.OpCapture:
		return fmt.Sprintf("(.cap %d %s)", re.Cap, rxEmit(re.Sub[0]))
	case syntax.OpConcat:
		s := rxEmit(re.Sub[len(re.Sub)-1])
		for i := len(re.Sub) - 2; i >= 0; i-- {
			s = "(.cat " + rxEmit(re.Sub[i]) + " " + s + ")"
		}
		return s
	case syntax.OpAlternate:
		s := rxEmit(re.Sub[len(re.Sub)-1])
		for i := len(re.Sub) - 2; i >= 0; i-- {
			s = "(.alt " + rxEmit(re.Sub[i]) + " " + s + ")"
		}
		return s
	case syntax.OpQuest:
		if re.Flags&syntax.NonGreedy != 0 {
			return "(.alt .eps " + rxEmit(re.Sub[0]) + ")"
		}
		return "(.alt " + rxEmit(re.Sub[0]) + " .eps)"
	case syntax.OpStar:
		if re.Flags&syntax.NonGreedy != 0 {
			bad("non-greedy star unsupported")
		}
		return "(.star " + rxEmit(re.Sub[0]) + ")"
	case syntax.OpPlus:
		if re.Flags&syntax.NonGreedy != 0 {
			bad("non-greedy plus unsupported")
		}
		if rxNullable(re.Sub[0]) {
			bad("plus over a body that can match the empty string is unsupported (Go's priority for empty rounds differs from x x*)")
		}
		s := rxEmit(re.Sub[0])
		return "(.cat " + s + " (.star " + s + "))"
	case syntax.OpRepeat:
		if re.Max < 0 || re.Flags&syntax.NonGreedy != 0 {
			bad("unbounded or non-greedy repeat unsupported")
		}
		return fmt.Sprintf("(Snowflake.Rx.rep %s %d %d)", rxEmit(re.Sub[0]), re.Min, re.Max-re.Min)
	case syntax.OpBeginText:
		return ".bot"
	case syntax.OpEndText:
		return ".eot"
	case syntax.OpBeginLine:
		return ".bol"
	case syntax.OpEndLine:
		return ".eol"
	}
	bad("regexp op %s unsupported", re.Op.String())
	return ""
}

func emitOneRegex(b *strings.Builder, lean, pattern string) {
	defer func() {
		if r := recover(); r != nil {
			rf, ok := r.(refuse)
			if !ok {
				panic(r)
			}
			fmt.Fprintf(b, "/-- translator refused: %s -/\ntheorem translator_unsupported_%s : False := by trivial\n\n", rf.why, lean)
		}
	}()
	re, err := syntax.Parse(pattern, syntax.Perl)
	if err != nil {
		bad("parse error: %v", err)
	}
	term := rxEmit(re)
	fmt.Fprintf(b, "/-- `%s` -/\ndef %s : Snowflake.Rx := %s\n\n", strings.ReplaceAll(pattern, "-/", "- /"), lean, term)
}

// emitRegexSpec emits the regex named by the spec: either a string constant (idx < 0) or the idx-th
// regexp.MustCompile argument inside a package-level var initialiser.
func emitRegexSpec(b *strings.Builder, rs regexSpec) {
	p := loadPkg(rs.dir)
	e, ok := p.vals[rs.name]
	if !ok {
		fmt.Fprintf(b, "theorem translator_unsupported_%s : False := by trivial\n\n", rs.lean)
		return
	}
	if rs.idx < 0 {
		v := p.eval(e, 0)
		if !v.ok || !v.isStr {
			fmt.Fprintf(b, "theorem translator_unsupported_%s : False := by trivial\n\n", rs.lean)
			return
		}
		emitOneRegex(b, rs.lean, v.s)
		return
	}
	var args []ast.Expr
	ast.Inspect(e, func(n ast.Node) bool {
		if c, ok := n.(*ast.CallExpr); ok {
			if s, ok := c.Fun.(*ast.SelectorExpr); ok && s.Sel.Name == "MustCompile" && len(c.Args) == 1 {
				args = append(args, c.Args[0])
			}
		}
		return true
	})
	fmt.Fprintf(b, "/-- number of regexp.MustCompile calls in `%s.%s` -/\ndef %s_count : Nat := %d\n\n", rs.dir, rs.name, rs.lean, len(args))
	if rs.idx >= len(args) {
		fmt.Fprintf(b, "theorem translator_unsupported_%s : False := by trivial\n\n", rs.lean)
		return
	}
	v := p.eval(args[rs.idx], 0)
	if !v.ok || !v.isStr {
		fmt.Fprintf(b, "theorem translator_unsupported_%s : False := by trivial\n\n", rs.lean)
		return
	}
	fmt.Fprintf(b, "/-- source expression: `%s` -/\ndef %s_src : String := %s\n\n", exprStr(p.fset, args[rs.idx]), rs.lean, leanStr(exprStr(p.fset, args[rs.idx])))
	emitOneRegex(b, rs.lean, v.s)
}
