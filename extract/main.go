// Command extract regenerates /verif/lean/Snowflake/Generated/*.lean from the working tree of the
// repository under verification.  It is the "translator" half of the model/code tie:
//
//	Consts.lean    named constants (ints, strings, byte strings) read from the source
//	Funcs.lean     Lean definitions translated from small loop-free Go functions
//	Skeleton.lean  synchronisation skeletons (ordered lock/channel/close/delete/go/return facts)
//	Regex.lean     the regular expressions of safelog and proxy, parsed by Go's regexp/syntax
//
// It refuses rather than guesses: anything outside its subset becomes
// `theorem translator_unsupported_<name> : False := by trivial`-style marker that cannot build.
package main

import (
	"fmt"
	"go/ast"
	"go/parser"
	"go/token"
	"os"
	"path/filepath"
	"sort"
	"strconv"
	"strings"
)

var repo = "/repo"
var outDir = "/verif/lean/Snowflake/Generated"

type pkgInfo struct {
	fset  *token.FileSet
	files map[string]*ast.File
	funcs map[string]*ast.FuncDecl // "Name" or "Recv.Name"
	vals  map[string]ast.Expr      // const / var initialisers by name
	types map[string]*ast.TypeSpec
}

var pkgCache = map[string]*pkgInfo{}

func loadPkg(dir string) *pkgInfo {
	if p, ok := pkgCache[dir]; ok {
		return p
	}
	p := &pkgInfo{fset: token.NewFileSet(), files: map[string]*ast.File{}, funcs: map[string]*ast.FuncDecl{},
		vals: map[string]ast.Expr{}, types: map[string]*ast.TypeSpec{}}
	ents, err := os.ReadDir(filepath.Join(repo, dir))
	if err != nil {
		fmt.Fprintln(os.Stderr, "extract: cannot read", dir, err)
		pkgCache[dir] = p
		return p
	}
	for _, e := range ents {
		n := e.Name()
		if !strings.HasSuffix(n, ".go") || strings.HasSuffix(n, "_test.go") {
			continue
		}
		f, err := parser.ParseFile(p.fset, filepath.Join(repo, dir, n), nil, parser.SkipObjectResolution)
		if err != nil {
			fmt.Fprintln(os.Stderr, "extract: parse error", err)
			continue
		}
		p.files[n] = f
		for _, d := range f.Decls {
			switch d := d.(type) {
			case *ast.FuncDecl:
				name := d.Name.Name
				if d.Recv != nil && len(d.Recv.List) == 1 {
					name = recvName(d.Recv.List[0].Type) + "." + name
				}
				p.funcs[name] = d
			case *ast.GenDecl:
				for _, s := range d.Specs {
					switch s := s.(type) {
					case *ast.ValueSpec:
						for i, nm := range s.Names {
							if i < len(s.Values) {
								p.vals[nm.Name] = s.Values[i]
							}
						}
					case *ast.TypeSpec:
						p.types[s.Name.Name] = s
					}
				}
			}
		}
	}
	pkgCache[dir] = p
	return p
}

func recvName(e ast.Expr) string {
	switch t := e.(type) {
	case *ast.StarExpr:
		return recvName(t.X)
	case *ast.Ident:
		return t.Name
	}
	return "?"
}

// ---------------------------------------------------------------------------------------------
// constant evaluation (AST level: literals, named constants of the same package, + - * / << >>, string +)

type cval struct {
	isStr bool
	s     string
	n     int64
	ok    bool
}

func (p *pkgInfo) eval(e ast.Expr, depth int) cval {
	if depth > 400 {
		return cval{}
	}
	switch e := e.(type) {
	case *ast.BasicLit:
		switch e.Kind {
		case token.INT:
			n, err := strconv.ParseInt(e.Value, 0, 64)
			return cval{n: n, ok: err == nil}
		case token.STRING:
			s, err := strconv.Unquote(e.Value)
			return cval{isStr: true, s: s, ok: err == nil}
		case token.CHAR:
			s, err := strconv.Unquote(e.Value)
			if err == nil && len([]rune(s)) == 1 {
				return cval{n: int64([]rune(s)[0]), ok: true}
			}
		}
	case *ast.ParenExpr:
		return p.eval(e.X, depth+1)
	case *ast.Ident:
		if v, ok := p.vals[e.Name]; ok {
			return p.eval(v, depth+1)
		}
	case *ast.SelectorExpr:
		if x, ok := e.X.(*ast.Ident); ok {
			switch x.Name + "." + e.Sel.Name {
			case "time.Second", "time.Minute", "time.Hour", "time.Millisecond":
				m := map[string]int64{"time.Millisecond": 1000000, "time.Second": 1000000000, "time.Minute": 60000000000, "time.Hour": 3600000000000}
				return cval{n: m[x.Name+"."+e.Sel.Name], ok: true}
			}
		}
	case *ast.CallExpr:
		// conversions such as time.Duration(x), uint(x)
		if len(e.Args) == 1 {
			return p.eval(e.Args[0], depth+1)
		}
	case *ast.BinaryExpr:
		a, b := p.eval(e.X, depth+1), p.eval(e.Y, depth+1)
		if !a.ok || !b.ok {
			return cval{}
		}
		if a.isStr && b.isStr && e.Op == token.ADD {
			return cval{isStr: true, s: a.s + b.s, ok: true}
		}
		if a.isStr || b.isStr {
			return cval{}
		}
		switch e.Op {
		case token.ADD:
			return cval{n: a.n + b.n, ok: true}
		case token.SUB:
			return cval{n: a.n - b.n, ok: true}
		case token.MUL:
			return cval{n: a.n * b.n, ok: true}
		case token.QUO:
			if b.n != 0 {
				return cval{n: a.n / b.n, ok: true}
			}
		case token.SHL:
			return cval{n: a.n << uint(b.n), ok: true}
		case token.SHR:
			return cval{n: a.n >> uint(b.n), ok: true}
		}
	}
	return cval{}
}

func leanBytes(s string) string {
	var b strings.Builder
	b.WriteString("[")
	for i := 0; i < len(s); i++ {
		if i > 0 {
			b.WriteString(", ")
		}
		fmt.Fprintf(&b, "%d", s[i])
	}
	b.WriteString("]")
	return b.String()
}

type constSpec struct{ lean, dir, name string }

var constSpecs = []constSpec{
	{"turbotunnel_queueSize", "common/turbotunnel", "queueSize"},
	{"turbotunnel_Token", "common/turbotunnel", "Token"},
	{"broker_readLimit", "broker", "readLimit"},
	{"broker_ClientTimeout", "broker", "ClientTimeout"},
	{"broker_ProxyTimeout", "broker", "ProxyTimeout"},
	{"broker_NATUnknown", "broker", "NATUnknown"},
	{"broker_NATRestricted", "broker", "NATRestricted"},
	{"broker_NATUnrestricted", "broker", "NATUnrestricted"},
	{"messages_version", "common/messages", "version"},
	{"messages_ClientVersion", "common/messages", "ClientVersion"},
	{"messages_defaultBridgeFingerprint", "common/messages", "defaultBridgeFingerprint"},
	{"messages_StrTimedOut", "common/messages", "StrTimedOut"},
	{"messages_StrNoProxies", "common/messages", "StrNoProxies"},
	{"amp_boilerplateStart", "common/amp", "boilerplateStart"},
	{"amp_boilerplateEnd", "common/amp", "boilerplateEnd"},
	{"amp_elementSizeLimit", "common/amp", "elementSizeLimit"},
	{"amp_bytesPerChunk", "common/amp", "bytesPerChunk"},
	{"amp_chunksPerElement", "common/amp", "chunksPerElement"},
	{"server_clientIDAddrMapCapacity", "server/lib", "clientIDAddrMapCapacity"},
	{"server_clientMapTimeout", "server/lib", "clientMapTimeout"},
	{"client_readLimit", "client/lib", "readLimit"},
	{"client_DataChannelTimeout", "client/lib", "DataChannelTimeout"},
	{"client_ReconnectTimeout", "client/lib", "ReconnectTimeout"},
	{"client_SnowflakeTimeout", "client/lib", "SnowflakeTimeout"},
	{"proxy_dataChannelTimeout", "proxy/lib", "dataChannelTimeout"},
	{"proxy_readLimit", "proxy/lib", "readLimit"},
	{"proxy_pollInterval", "proxy/lib", "pollInterval"},
	{"safelog_ipv4Address", "common/safelog", "ipv4Address"},
	{"safelog_ipv6Address", "common/safelog", "ipv6Address"},
	{"safelog_optionalPort", "common/safelog", "optionalPort"},
	{"safelog_addressPattern", "common/safelog", "addressPattern"},
	{"safelog_fullAddrPattern", "common/safelog", "fullAddrPattern"},
}

func emitConsts() string {
	var b strings.Builder
	b.WriteString("/- GENERATED by /verif/extract from the repository working tree. Do not edit. -/\nnamespace Snowflake.Gen.Consts\n\n")
	for _, c := range constSpecs {
		p := loadPkg(c.dir)
		e, ok := p.vals[c.name]
		if !ok {
			fmt.Fprintf(&b, "/-- `%s.%s` not found in the source. -/\ntheorem translator_unsupported_%s : False := by trivial\n\n", c.dir, c.name, c.lean)
			continue
		}
		v := p.eval(e, 0)
		switch {
		case !v.ok:
			// composite literal of bytes, e.g. Token = [8]byte{...}
			if bs, ok := p.byteLit(e); ok {
				fmt.Fprintf(&b, "/-- `%s.%s` -/\ndef %s : List UInt8 := %s\n\n", c.dir, c.name, c.lean, leanBytes(string(bs)))
			} else {
				fmt.Fprintf(&b, "/-- `%s.%s` is outside the constant subset. -/\ntheorem translator_unsupported_%s : False := by trivial\n\n", c.dir, c.name, c.lean)
			}
		case v.isStr:
			fmt.Fprintf(&b, "/-- `%s.%s` (bytes of the Go string) -/\ndef %s : List UInt8 := %s\n\n", c.dir, c.name, c.lean, leanBytes(v.s))
		default:
			fmt.Fprintf(&b, "/-- `%s.%s` -/\ndef %s : Int := %d\n\n", c.dir, c.name, c.lean, v.n)
		}
	}
	// len(paddingBuffer): make([]byte, N)
	pe := loadPkg("common/encapsulation")
	if e, ok := pe.vals["paddingBuffer"]; ok {
		if call, ok := e.(*ast.CallExpr); ok && len(call.Args) == 2 {
			if v := pe.eval(call.Args[1], 0); v.ok && !v.isStr {
				fmt.Fprintf(&b, "/-- `len(encapsulation.paddingBuffer)` -/\ndef encapsulation_paddingBufferLen : Int := %d\n\n", v.n)
			}
		}
	}
	// KnownProxyTypes: map[string]bool{...}
	pm := loadPkg("common/messages")
	if e, ok := pm.vals["KnownProxyTypes"]; ok {
		if cl, ok := e.(*ast.CompositeLit); ok {
			var keys []string
			good := true
			for _, el := range cl.Elts {
				kv, ok := el.(*ast.KeyValueExpr)
				if !ok {
					good = false
					break
				}
				k := pm.eval(kv.Key, 0)
				val, isId := kv.Value.(*ast.Ident)
				if !k.ok || !k.isStr || !isId || val.Name != "true" {
					good = false
					break
				}
				keys = append(keys, k.s)
			}
			if good {
				sort.Strings(keys)
				var parts []string
				for _, k := range keys {
					parts = append(parts, leanBytes(k))
				}
				fmt.Fprintf(&b, "/-- keys of `messages.KnownProxyTypes` (all mapped to true), sorted -/\ndef messages_KnownProxyTypes : List (List UInt8) := [%s]\n\n", strings.Join(parts, ", "))
			} else {
				b.WriteString("theorem translator_unsupported_messages_KnownProxyTypes : False := by trivial\n\n")
			}
		}
	}
	b.WriteString("end Snowflake.Gen.Consts\n")
	return b.String()
}

func (p *pkgInfo) byteLit(e ast.Expr) ([]byte, bool) {
	cl, ok := e.(*ast.CompositeLit)
	if !ok {
		return nil, false
	}
	var out []byte
	for _, el := range cl.Elts {
		v := p.eval(el, 0)
		if !v.ok || v.isStr || v.n < 0 || v.n > 255 {
			return nil, false
		}
		out = append(out, byte(v.n))
	}
	return out, true
}

// ---------------------------------------------------------------------------------------------

func writeIfChanged(path, content string) {
	old, err := os.ReadFile(path)
	if err == nil && string(old) == content {
		return
	}
	if err := os.WriteFile(path, []byte(content), 0o644); err != nil {
		fmt.Fprintln(os.Stderr, "extract:", err)
		os.Exit(2)
	}
}

func main() {
	if len(os.Args) > 1 {
		repo = os.Args[1]
	}
	if len(os.Args) > 2 {
		outDir = os.Args[2]
	}
	os.MkdirAll(outDir, 0o755)
	writeIfChanged(filepath.Join(outDir, "Consts.lean"), emitConsts())
	writeIfChanged(filepath.Join(outDir, "Funcs.lean"), emitFuncs())
	writeIfChanged(filepath.Join(outDir, "Skeleton.lean"), emitSkeletons())
	writeIfChanged(filepath.Join(outDir, "Regex.lean"), emitRegex())
}
