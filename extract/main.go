// Command extract regenerates /verif/lean/Snowflake/Generated/*.lean from the working tree of the
// repository under verification.  It is the "translator" half of the model/code tie:
//
//	Consts.lean    named constants (ints, strings, byte strings) read from the source
//	Funcs.lean     Lean definitions translated from small loop-free Go functions
//	Skeleton.lean  synchronisation skeletons (ordered lock/channel/close/delete/go/return facts)
//	Regex.lean     the regular expressions of safelog and proxy, parsed by Go's regexp/syntax
//
// It refuses rather than guesses: anything outside its subset becomes
// `theorem translator_unsupported_<name> : False := by trivial`-style marker that cannot build.
package main

import (
	"fmt"
	"go/ast"
	"go/parser"
	"go/token"
	"os"
	"path/filepath"
	"sort"
	"strconv"
	"strings"
)

var repo = "/repo"
var outDir = "/verif/lean/Snowflake/Generated"

type pkgInfo struct {
	fset  *token.FileSet
	files map[string]*ast.File
	funcs map[string]*ast.FuncDecl // "Name" or "Recv.Name"
	vals  map[string]ast.Expr      // const / var initialisers by name
	types map[string]*ast.TypeSpec
}

var pkgCache = map[string]*pkgInfo{}

func loadPkg(dir string) *pkgInfo {
	if p, ok := pkgCache[dir]; ok {
		return p
	}
	p := &pkgInfo{fset: token.NewFileSet(), files: map[string]*ast.File{}, funcs: map[string]*ast.FuncDecl{},
		vals: map[string]ast.Expr{}, types: map[string]*ast.TypeSpec{}}
	ents, err := os.ReadDir(filepath.Join(repo, dir))
	if err != nil {
		fmt.Fprintln(os.Stderr, "extract: cannot read", dir, err)
		pkgCache[dir] = p
		return p
	}
	for _, e := range ents {
		n := e.Name()
		if !strings.HasSuffix(n, ".go") || strings.HasSuffix(n, "_test.go") {
			continue
		}
		f, err := parser.ParseFile(p.fset, filepath.Join(repo, dir, n), nil, parser.SkipObjectResolution)
		if err != nil {
			fmt.Fprintln(os.Stderr, "extract: parse error", err)
			continue
		}
		p.files[n] = f
		for _, d := range f.Decls {
			switch d := d.(type) {
			case *ast.FuncDecl:
				name := d.Name.Name
				if d.Recv != nil && len(d.Recv.List) == 1 {
					name = recvName(d.Recv.List[0].Type) + "." + name
				}
				p.funcs[name] = d
			case *ast.GenDecl:
				for _, s := range d.Specs {
					switch s := s.(type) {
					case *ast.ValueSpec:
						for i, nm := range s.Names {
							if i < len(s.Values) {
								p.vals[nm.Name] = s.Values[i]
							}
						}
					case *ast.TypeSpec:
						p.types[s.Name.Name] = s
					}
				}
			}
		}
	}
	pkgCache[dir] = p
	return p
}

func recvName(e ast.Expr) string {
	switch t := e.(type) {
	case *ast.StarExpr:
		return recvName(t.X)
	case *ast.Ident:
		return t.Name
	}
	return "?"
}

// ---------------------------------------------------------------------------------------------
// constant evaluation (AST level: literals, named constants of the same package, + - * / << >>, string +)

type cval struct {
	isStr bool
	s     string
	n     int64
	ok    bool
}

func (p *pkgInfo) eval(e ast.Expr, depth int) cval {
	if depth > 400 {
		return cval{}
	}
	switch e := e.(type) {
	case *ast.BasicLit:
		switch e.Kind {
		case token.INT:
			n, err := strconv.ParseInt(e.Value, 0, 64)
			return cval{n: n, ok: err == nil}
		case token.STRING:
			s, err := strconv.Unquote(e.Value)
			return cval{isStr: true, s: s, ok: err == nil}
		case token.CHAR:
			s, err := strconv.Unquote(e.Value)
			if err == nil && len([]rune(s)) == 1 {
				return cval{n: int64([]rune(s)[0]), ok: true}
			}
		}
	case *ast.ParenExpr:
		return p.eval(e.X, depth+1)
	case *ast.Ident:
		if v, ok := p.vals[e.Name]; ok {
			return p.eval(v, depth+1)
		}
	case *ast.SelectorExpr:
		if x, ok := e.X.(*ast.Ident); ok {
			switch x.Name + "." + e.Sel.Name {
			case "time.Second", "time.Minute", "time.Hour", "time.Millisecond":
				m := map[string]int64{"time.Millisecond": 1000000, "time.Second": 1000000000, "time.Minute": 60000000000, "time.Hour": 3600000000000}
				return cval{n: m[x.Name+"."+e.Sel.Name], ok: true}
			}
		}
	case *ast.CallExpr:
		// conversions such as time.Duration(x), uint(x)
		if len(e.Args) == 1 {
			return p.eval(e.Args[0], depth+1)
		}
	case *ast.BinaryExpr:
		a, b := p.eval(e.X, depth+1), p.eval(e.Y, depth+1)
		if !a.ok || !b.ok {
			return cval{}
		}
		if a.isStr && b.isStr && e.Op == token.ADD {
			return cval{isStr: true, s: a.s + b.s, ok: true}
		}
		if a.isStr || b.isStr {
			return cval{}
		}
		switch e.Op {
		case token.ADD:
			return cval{n: a.n + b.n, ok: true}
		case token.SUB:
			return cval{n: a.n - b.n, ok: true}
		case token.MUL:
			return cval{n: a.n * b.n, ok: true}
		case token.QUO:
			if b.n != 0 {
				return cval{n: a.n / b.n, ok: true}
			}
		case token.SHL:
			return cval{n: a.n << uint(b.n), ok: true}
		case token.SHR:
			return cval{n: a.n >> uint(b.n), ok: true}
		}
	}
	return cval{}
}

func leanBytes(s string) string {
	var b strings.Builder
	b.WriteString("[")
	for i := 0; i < len(s); i++ {
		if i > 0 {
			b.WriteString(", ")
		}
		fmt.Fprintf(&b, "%d", s[i])
	}
	b.WriteString("]")
	return b.String()
}

type constSpec struct{ lean, dir, name string }

// special constant kinds
type specialSpec struct {
	lean string
	kind string // "makeLen" (len of make([]byte, N) var), "mapKeys" (sorted keys of a map[string]bool literal)
	dir  string
	name string
}

type regexSpec struct {
	lean string
	dir  string
	name string // const/var name holding the pattern string, or var holding MustCompile calls (index selects)
	idx  int    // for vars with several regexp.MustCompile calls: which one (-1: the named string const itself)
}

// group = one generated Lean module Snowflake/Generated/<Name>.lean, namespace Snowflake.Gen.<Name>.
// A refusal inside one group breaks only the properties that import that group.
type group struct {
	name     string
	consts   []constSpec
	specials []specialSpec
	fns      []fnSpec
	conds    []condSpec
	exprs    []exprSpec
	skels    []skelSpec
	regexes  []regexSpec
	srcs     []srcSpec
}

var groups []*group

func register(g *group) { groups = append(groups, g) }

func emitConst(b *strings.Builder, c constSpec) {
	p := loadPkg(c.dir)
	e, ok := p.vals[c.name]
	if !ok {
		fmt.Fprintf(b, "/-- `%s.%s` not found in the source. -/\ntheorem translator_unsupported_%s : False := by trivial\n\n", c.dir, c.name, c.lean)
		return
	}
	v := p.eval(e, 0)
	switch {
	case !v.ok:
		if bs, ok := p.byteLit(e); ok {
			fmt.Fprintf(b, "/-- `%s.%s` -/\ndef %s : List UInt8 := %s\n\n", c.dir, c.name, c.lean, leanBytes(string(bs)))
		} else {
			fmt.Fprintf(b, "/-- `%s.%s` is outside the constant subset. -/\ntheorem translator_unsupported_%s : False := by trivial\n\n", c.dir, c.name, c.lean)
		}
	case v.isStr:
		fmt.Fprintf(b, "/-- `%s.%s` (bytes of the Go string) -/\ndef %s : List UInt8 := %s\n\n", c.dir, c.name, c.lean, leanBytes(v.s))
	default:
		fmt.Fprintf(b, "/-- `%s.%s` -/\ndef %s : Int := %d\n\n", c.dir, c.name, c.lean, v.n)
	}
}

func emitSpecial(b *strings.Builder, sp specialSpec) {
	if h, ok := funcSpecials[sp.kind]; ok { // function- and type-level facts, see special_funcs.go
		h(b, sp)
		return
	}
	p := loadPkg(sp.dir)
	if sp.kind == "returnText" { // the (untruncated) source text of the only statement `return <expr>` of a function
		if fd, ok := p.funcs[sp.name]; ok && fd.Body != nil && len(fd.Body.List) == 1 {
			if rs, ok := fd.Body.List[0].(*ast.ReturnStmt); ok && len(rs.Results) == 1 {
				fmt.Fprintf(b, "/-- `%s` `%s` is `return <this expression>` (source text) -/\ndef %s : String := %s\n\n", sp.dir, sp.name, sp.lean, leanStr(exprStr(p.fset, rs.Results[0])))
				return
			}
		}
		fmt.Fprintf(b, "/-- `%s.%s` is not a single `return <expr>`. -/\ntheorem translator_unsupported_%s : False := by trivial\n\n", sp.dir, sp.name, sp.lean)
		return
	}
	e, ok := p.vals[sp.name]
	fail := func() {
		fmt.Fprintf(b, "/-- `%s.%s` (%s) could not be extracted. -/\ntheorem translator_unsupported_%s : False := by trivial\n\n", sp.dir, sp.name, sp.kind, sp.lean)
	}
	if !ok {
		fail()
		return
	}
	switch sp.kind {
	case "exprText": // the initialiser expression of a package-level var/const, as printed source text
		fmt.Fprintf(b, "/-- initialiser of `%s.%s` (source text) -/\ndef %s : String := %s\n\n", sp.dir, sp.name, sp.lean, leanStr(exprStr(p.fset, e)))
	case "makeLen":
		if call, ok := e.(*ast.CallExpr); ok && len(call.Args) == 2 {
			if v := p.eval(call.Args[1], 0); v.ok && !v.isStr {
				fmt.Fprintf(b, "/-- `len(%s.%s)` -/\ndef %s : Int := %d\n\n", sp.dir, sp.name, sp.lean, v.n)
				return
			}
		}
		fail()
	case "mapKeys":
		cl, ok := e.(*ast.CompositeLit)
		if !ok {
			fail()
			return
		}
		var keys []string
		for _, el := range cl.Elts {
			kv, ok := el.(*ast.KeyValueExpr)
			if !ok {
				fail()
				return
			}
			k := p.eval(kv.Key, 0)
			val, isId := kv.Value.(*ast.Ident)
			if !k.ok || !k.isStr || !isId || val.Name != "true" {
				fail()
				return
			}
			keys = append(keys, k.s)
		}
		sort.Strings(keys)
		var parts []string
		for _, k := range keys {
			parts = append(parts, leanBytes(k))
		}
		fmt.Fprintf(b, "/-- keys of `%s.%s` (all mapped to true), sorted -/\ndef %s : List (List UInt8) := [%s]\n\n", sp.dir, sp.name, sp.lean, strings.Join(parts, ", "))
	default:
		fail()
	}
}

func emitGroup(g *group) string {
	var b strings.Builder
	b.WriteString("import Snowflake.Base.GoStr\n")
	if len(g.regexes) > 0 {
		b.WriteString("import Snowflake.Base.Rx\n")
	}
	b.WriteString("/- GENERATED by /verif/extract from the repository working tree. Do not edit. -/\n")
	if len(g.regexes) > 0 {
		b.WriteString("set_option maxRecDepth 100000\n")
	}
	fmt.Fprintf(&b, "namespace Snowflake.Gen.%s\n\n", g.name)
	for _, c := range g.consts {
		emitConst(&b, c)
	}
	for _, sp := range g.specials {
		emitSpecial(&b, sp)
	}
	declared := map[string]bool{}
	for _, fs := range g.fns {
		emitFn(&b, fs, declared)
	}
	emitConds(&b, g.conds)
	emitExprs(&b, g.exprs)
	for _, sp := range g.skels {
		emitSkel(&b, sp)
	}
	for _, rs := range g.regexes {
		emitRegexSpec(&b, rs)
	}
	for _, sp := range g.srcs {
		emitSrc(&b, sp)
	}
	fmt.Fprintf(&b, "end Snowflake.Gen.%s\n", g.name)
	return b.String()
}

func (p *pkgInfo) byteLit(e ast.Expr) ([]byte, bool) {
	cl, ok := e.(*ast.CompositeLit)
	if !ok {
		return nil, false
	}
	var out []byte
	for _, el := range cl.Elts {
		v := p.eval(el, 0)
		if !v.ok || v.isStr || v.n < 0 || v.n > 255 {
			return nil, false
		}
		out = append(out, byte(v.n))
	}
	return out, true
}

// ---------------------------------------------------------------------------------------------

func writeIfChanged(path, content string) {
	old, err := os.ReadFile(path)
	if err == nil && string(old) == content {
		return
	}
	// put in place atomically: another check may be compiling the previous version right now
	tmp := fmt.Sprintf("%s.%d.tmp", path, os.Getpid())
	if err := os.WriteFile(tmp, []byte(content), 0o644); err == nil {
		err = os.Rename(tmp, path)
		if err == nil {
			return
		}
	}
	if err := os.WriteFile(path, []byte(content), 0o644); err != nil {
		fmt.Fprintln(os.Stderr, "extract:", err)
		os.Exit(2)
	}
}

func main() {
	if len(os.Args) > 1 {
		repo = os.Args[1]
	}
	if len(os.Args) > 2 {
		outDir = os.Args[2]
	}
	os.MkdirAll(outDir, 0o755)
	keep := map[string]bool{}
	for _, g := range groups {
		writeIfChanged(filepath.Join(outDir, g.name+".lean"), emitGroup(g))
		keep[g.name+".lean"] = true
	}
	writeIfChanged(filepath.Join(outDir, "Accesses.lean"), emitAccesses())
	keep["Accesses.lean"] = true
	// delete stale generated modules
	ents, _ := os.ReadDir(outDir)
	for _, e := range ents {
		if strings.HasSuffix(e.Name(), ".lean") && !keep[e.Name()] {
			os.Remove(filepath.Join(outDir, e.Name()))
		}
	}
}
