package main

// Access table for C20: for a declared list of shared variables (struct fields, identified by the
// printed selector expression inside given files) every access site with
//   function, read/write, atomic?, the set of mutexes that MUST be held there, constructor-phase?
// Must-hold locksets are computed syntactically: within a function the statements are scanned in order
// (`X.Lock()` adds, `X.Unlock()` removes, `defer X.Unlock()` keeps to the end; a nested block starts from
// the enclosing set and does not change it afterwards; function literals start from the empty set), and
// for functions with callers inside the package the entry set is the intersection over their call
// sites, iterated to a fixpoint.  Lock expressions are canonicalised by per-package alias rules.
// This is deliberately alias-insensitive (variables = declared fields); its adequacy is cross-checked
// dynamically by the race-detector workloads of the C20 harness.

import (
	"fmt"
	"go/ast"
	"go/token"
	"os"
	"path/filepath"
	"regexp"
	"sort"
	"strings"
)

type accVar struct {
	name  string // canonical variable name, e.g. "broker.Metrics.proxyIdleCount"
	files string // regexp over the file base name in which the pattern is meaningful
	expr  string // regexp over the printed expression (anchored)
	mut   string // optional regexp over method names that mutate the object the variable refers to (x.M(...) counts as a write of x)
}

type lockAlias struct {
	files, expr, canon string
}

type accPkg struct {
	dir       string
	vars      []accVar
	aliases   []lockAlias
	ctors     string              // regexp over function names that run before the value is published
	callbacks map[string][]string // regexp over a printed callee -> functions of the package it calls back (e.g. heap.Push -> SnowflakeHeap.Push/Swap/Less)
	exported  bool                // library package: exported functions can be entered from outside with nothing held
	assume    map[string][]string // exported function -> locks its callers are assumed to hold (recorded as an assumption)
	label     string              // prefix of automatically named variables ("broker", "proxy", ...)
	types     []string            // struct types all of whose fields are tracked automatically (variable <label>.<Type>.<field>)
	exempt    map[string]string   // variable -> why it is not under the lock discipline (ordered by other synchronisation; dynamic side only)
}

var accPkgs []accPkg
var accMissing []string         // tracked types that no longer exist
var accAuto = map[string]bool{} // automatically tracked variables with at least one access

func registerAcc(p accPkg) { accPkgs = append(accPkgs, p) }

type access struct {
	v      string
	fn     string
	write  bool
	atomic bool
	locks  []string // held exclusively (Lock)
	rlocks []string // held shared (RLock)
	ctor   bool
}

type accCtx struct {
	p       *pkgInfo
	cfg     *accPkg
	file    string
	fn      string
	out     *[]access
	entry   map[string][]string   // function name -> must-hold set at entry
	calls   map[string][][]string // function name -> held sets at its call sites
	unique  map[string]string     // base names that are unique in the package -> full function name
	cbRe    map[string]*regexp.Regexp
	auto    map[string]string // field name -> automatically tracked variable
	fresh   map[string]bool   // locals of the current function that hold an object allocated in it (x := new(T), &T{}, T{}, var x T)
	autoHit map[string]bool   // automatically tracked variables that have at least one access
	varRe   []*regexp.Regexp
	mutRe   []*regexp.Regexp
	fileRe  []*regexp.Regexp
	aliasRe [][2]*regexp.Regexp
	ctorRe  *regexp.Regexp
	valRecv map[string][]valRecvInfo // method base name -> value-receiver methods of tracked struct types
}

// valRecvInfo: a method of a tracked struct type declared with a value receiver. Calling it copies the whole
// struct: a plain read of every field at the call site.
type valRecvInfo struct {
	typ, recv, file string
	fields          []string
}

func (c *accCtx) canonLock(e ast.Expr) string {
	s := exprStr(c.p.fset, e)
	for i, a := range c.cfg.aliases {
		if c.aliasRe[i][0].MatchString(c.file) && c.aliasRe[i][1].MatchString(s) {
			return a.canon
		}
	}
	return ""
}

func (c *accCtx) varOf(e ast.Expr) string {
	v, _ := c.varIdx(e)
	return v
}

func (c *accCtx) varIdx(e ast.Expr) (string, int) {
	s := exprStr(c.p.fset, e)
	for i, v := range c.cfg.vars {
		if c.fileRe[i].MatchString(c.file) && c.varRe[i].MatchString(s) {
			return v.name, i
		}
	}
	// automatically tracked struct fields: any selector x.f with f a field of a tracked type
	if sel, ok := e.(*ast.SelectorExpr); ok {
		if name, ok := c.auto[sel.Sel.Name]; ok && !c.isImport(sel.X) {
			c.autoHit[name] = true
			return name, -1
		}
	}
	return "", -1
}

// isImport: x is the name of a package imported by the current file (pkg.Name is not a field access).
func (c *accCtx) isImport(x ast.Expr) bool {
	id, ok := x.(*ast.Ident)
	if !ok {
		return false
	}
	f := c.p.files[c.file]
	if f == nil {
		return false
	}
	for _, im := range f.Imports {
		path := strings.Trim(im.Path.Value, "\"")
		name := path[strings.LastIndex(path, "/")+1:]
		if im.Name != nil {
			name = im.Name.Name
		}
		if name == id.Name {
			return true
		}
	}
	return false
}

// freshLocals: identifiers bound in the function body to a newly allocated object.  A write x.f = e through
// such a local at the function's own nesting level initialises an object that is not shared yet (it is
// published later by a send, a store under a lock, a return or a go statement) and counts as constructor phase.
func freshLocals(body *ast.BlockStmt) map[string]bool {
	out := map[string]bool{}
	isAlloc := func(e ast.Expr) bool {
		switch x := e.(type) {
		case *ast.CallExpr:
			if id, ok := x.Fun.(*ast.Ident); ok && id.Name == "new" {
				return true
			}
		case *ast.UnaryExpr:
			if x.Op == token.AND {
				_, ok := x.X.(*ast.CompositeLit)
				return ok
			}
		case *ast.CompositeLit:
			return true
		}
		return false
	}
	ast.Inspect(body, func(n ast.Node) bool {
		switch x := n.(type) {
		case *ast.FuncLit:
			return false
		case *ast.AssignStmt:
			if x.Tok == token.DEFINE && len(x.Lhs) == len(x.Rhs) {
				for i, l := range x.Lhs {
					if id, ok := l.(*ast.Ident); ok && isAlloc(x.Rhs[i]) {
						out[id.Name] = true
					}
				}
			}
		case *ast.DeclStmt:
			if gd, ok := x.Decl.(*ast.GenDecl); ok {
				for _, sp := range gd.Specs {
					if vs, ok := sp.(*ast.ValueSpec); ok && len(vs.Values) == 0 && vs.Type != nil {
						for _, nm := range vs.Names {
							out[nm.Name] = true
						}
					}
				}
			}
		}
		return true
	})
	return out
}

func (c *accCtx) record(v string, held map[string]bool, write, atomicCtx bool) {
	var ex, sh []string
	for _, l := range setList(held) {
		if strings.HasPrefix(l, "R:") {
			sh = append(sh, l[2:])
		} else {
			ex = append(ex, l)
		}
	}
	*c.out = append(*c.out, access{v: v, fn: c.fn, write: write, atomic: atomicCtx, locks: ex, rlocks: sh, ctor: c.ctorRe != nil && c.ctorRe.MatchString(c.fn)})
}

// inLit analyses the body of a function literal that runs as a goroutine or callback: it is labelled
// apart from the enclosing function so that a constructor's background goroutine is not taken for
// constructor-phase code.
func (c *accCtx) inLit(body *ast.BlockStmt, f func()) {
	old, oldFresh := c.fn, c.fresh
	if !strings.HasSuffix(c.fn, "·func") {
		c.fn += "·func"
	}
	c.fresh = freshLocals(body) // objects allocated by the literal itself, at its own nesting level
	f()
	c.fn, c.fresh = old, oldFresh
}

// recordInit records an initialising write through a fresh local (constructor phase).
func (c *accCtx) recordInit(v string, held map[string]bool) {
	n := len(*c.out)
	c.record(v, held, true, false)
	(*c.out)[n].ctor = true
}

func copySet(s map[string]bool) map[string]bool {
	n := map[string]bool{}
	for k := range s {
		n[k] = true
	}
	return n
}

func setList(s map[string]bool) []string {
	var l []string
	for k := range s {
		l = append(l, k)
	}
	sort.Strings(l)
	return l
}

// record accesses inside an expression; `write` marks the outermost matching selector as written
func (c *accCtx) exprAcc(e ast.Node, held map[string]bool, write bool, atomicCtx bool) {
	if e == nil {
		return
	}
	ast.Inspect(e, func(n ast.Node) bool {
		switch x := n.(type) {
		case *ast.FuncLit:
			c.inLit(x.Body, func() { c.block(x.Body.List, map[string]bool{}) }) // callbacks and goroutines start with nothing held
			return false
		case *ast.CallExpr:
			callee := exprStr(c.p.fset, x.Fun)
			if strings.HasPrefix(callee, "atomic.") {
				for _, a := range x.Args {
					c.exprAcc(a, held, strings.Contains(callee, "Add") || strings.Contains(callee, "Store") || strings.Contains(callee, "Swap"), true)
				}
				return false
			}
			if callee == "delete" && len(x.Args) == 2 {
				c.exprAcc(x.Args[0], held, true, false)
				c.exprAcc(x.Args[1], held, false, false)
				return false
			}
			// x.M(...) with M a declared mutator of tracked variable x: a write of x
			if sel, ok := x.Fun.(*ast.SelectorExpr); ok {
				if v, i := c.varIdx(sel.X); v != "" && i >= 0 && c.mutRe[i] != nil && c.mutRe[i].MatchString(sel.Sel.Name) {
					c.record(v, held, true, false)
					for _, a := range x.Args {
						c.exprAcc(a, held, false, false)
					}
					return false
				}
			}
			// call-site lockset for package functions
			name := callee
			if i := strings.LastIndex(name, "."); i >= 0 {
				name = name[i+1:]
			}
			if c.ctorRe != nil && c.ctorRe.MatchString(c.fn) {
				return true // constructor phase: the value is not shared yet, the call site does not constrain the callee
			}
			if full, ok := c.unique[name]; ok {
				c.calls[full] = append(c.calls[full], setList(held))
			}
			// x.m() with m declared on a tracked struct type with a VALUE receiver: the call copies the struct,
			// i.e. reads every field plainly at this site (whatever the method body does with the copy)
			if _, isSel := x.Fun.(*ast.SelectorExpr); isSel {
				for _, info := range c.valRecv[name] {
					for _, f := range info.fields {
						saved := c.file
						c.file = info.file
						v := c.varOf(&ast.SelectorExpr{X: ast.NewIdent(info.recv), Sel: ast.NewIdent(f)})
						c.file = saved
						if v != "" {
							c.record(v, held, false, false)
						}
					}
				}
			}
			for pat, fns := range c.cfg.callbacks {
				if c.cbRe[pat].MatchString(callee) {
					for _, f := range fns {
						c.calls[f] = append(c.calls[f], setList(held))
					}
				}
			}
		case *ast.SelectorExpr, *ast.Ident:
			ex := x.(ast.Expr)
			if v := c.varOf(ex); v != "" {
				if sel, ok := ex.(*ast.SelectorExpr); ok && write {
					if id, ok := sel.X.(*ast.Ident); ok && c.fresh[id.Name] {
						c.recordInit(v, held)
						return false
					}
				}
				c.record(v, held, write, atomicCtx)
				return false
			}
		case *ast.StarExpr:
			if v := c.varOf(x); v != "" {
				c.record(v, held, write, atomicCtx)
				return false
			}
		case *ast.IndexExpr:
			// m[k] = v writes m; m[k] read reads m
			c.exprAcc(x.X, held, write, atomicCtx)
			c.exprAcc(x.Index, held, false, false)
			return false
		case *ast.UnaryExpr:
			if x.Op == token.AND {
				c.exprAcc(x.X, held, write, atomicCtx)
				return false
			}
		}
		return true
	})
}

func (c *accCtx) block(list []ast.Stmt, held map[string]bool) {
	held = copySet(held)
	for _, s := range list {
		c.stmt(s, held)
	}
}

func (c *accCtx) lockCall(call *ast.CallExpr) (string, string) {
	sel, ok := call.Fun.(*ast.SelectorExpr)
	if !ok {
		return "", ""
	}
	switch sel.Sel.Name {
	case "Lock", "RLock", "Unlock", "RUnlock":
		if l := c.canonLock(sel.X); l != "" {
			return l, sel.Sel.Name
		}
	}
	return "", ""
}

func (c *accCtx) stmt(s ast.Stmt, held map[string]bool) {
	switch x := s.(type) {
	case nil:
	case *ast.ExprStmt:
		if call, ok := x.X.(*ast.CallExpr); ok {
			if l, op := c.lockCall(call); l != "" {
				switch op {
				case "Lock":
					held[l] = true
				case "RLock":
					held["R:"+l] = true
				case "Unlock":
					delete(held, l)
				case "RUnlock":
					delete(held, "R:"+l)
				}
				return
			}
		}
		c.exprAcc(x.X, held, false, false)
	case *ast.DeferStmt:
		if l, op := c.lockCall(x.Call); l != "" && (op == "Unlock" || op == "RUnlock") {
			return // stays held to the end of the function
		}
		if fl, ok := x.Call.Fun.(*ast.FuncLit); ok {
			c.block(fl.Body.List, held)
			return
		}
		c.exprAcc(x.Call, held, false, false)
	case *ast.GoStmt:
		if fl, ok := x.Call.Fun.(*ast.FuncLit); ok {
			c.inLit(fl.Body, func() { c.block(fl.Body.List, map[string]bool{}) })
			for _, a := range x.Call.Args {
				c.exprAcc(a, held, false, false)
			}
			return
		}
		// go f(...): f starts with nothing held
		name := exprStr(c.p.fset, x.Call.Fun)
		if i := strings.LastIndex(name, "."); i >= 0 {
			name = name[i+1:]
		}
		if full, ok := c.unique[name]; ok {
			c.calls[full] = append(c.calls[full], nil)
		}
		for _, a := range x.Call.Args {
			c.exprAcc(a, held, false, false)
		}
	case *ast.AssignStmt:
		for _, r := range x.Rhs {
			c.exprAcc(r, held, false, false)
		}
		for _, l := range x.Lhs {
			c.exprAcc(l, held, true, false)
		}
	case *ast.IncDecStmt:
		c.exprAcc(x.X, held, true, false)
	case *ast.SendStmt:
		c.exprAcc(x.Chan, held, false, false)
		c.exprAcc(x.Value, held, false, false)
	case *ast.ReturnStmt:
		for _, r := range x.Results {
			c.exprAcc(r, held, false, false)
		}
	case *ast.BlockStmt:
		c.block(x.List, held)
	case *ast.IfStmt:
		h := copySet(held)
		c.stmt(x.Init, h)
		c.exprAcc(x.Cond, h, false, false)
		c.block(x.Body.List, h)
		if x.Else != nil {
			c.stmt(x.Else, copySet(h))
		}
	case *ast.ForStmt:
		h := copySet(held)
		c.stmt(x.Init, h)
		c.exprAcc(x.Cond, h, false, false)
		c.block(x.Body.List, h)
		c.stmt(x.Post, h)
	case *ast.RangeStmt:
		c.exprAcc(x.X, held, false, false)
		c.block(x.Body.List, held)
	case *ast.SwitchStmt:
		h := copySet(held)
		c.stmt(x.Init, h)
		c.exprAcc(x.Tag, h, false, false)
		for _, cc := range x.Body.List {
			cl := cc.(*ast.CaseClause)
			for _, e := range cl.List {
				c.exprAcc(e, h, false, false)
			}
			c.block(cl.Body, h)
		}
	case *ast.TypeSwitchStmt:
		for _, cc := range x.Body.List {
			c.block(cc.(*ast.CaseClause).Body, held)
		}
	case *ast.SelectStmt:
		for _, cc := range x.Body.List {
			cl := cc.(*ast.CommClause)
			h := copySet(held)
			c.stmt(cl.Comm, h)
			c.block(cl.Body, h)
		}
	case *ast.DeclStmt:
		c.exprAcc(x, held, false, false)
	case *ast.LabeledStmt:
		c.stmt(x.Stmt, held)
	}
}

func intersect(sets [][]string) []string {
	if len(sets) == 0 {
		return nil
	}
	cnt := map[string]int{}
	for _, s := range sets {
		for _, l := range s {
			cnt[l]++
		}
	}
	var out []string
	for l, n := range cnt {
		if n == len(sets) {
			out = append(out, l)
		}
	}
	sort.Strings(out)
	return out
}

func analysePkg(cfg *accPkg) []access {
	p := loadPkg(cfg.dir)
	c := &accCtx{p: p, cfg: cfg, entry: map[string][]string{}, unique: map[string]string{}, cbRe: map[string]*regexp.Regexp{}}
	for pat := range cfg.callbacks {
		c.cbRe[pat] = regexp.MustCompile("^(?:" + pat + ")$")
	}
	c.auto, c.autoHit = map[string]string{}, map[string]bool{}
	if len(cfg.types) > 0 {
		owners := map[string][]string{}
		for tn, ts := range p.types {
			if st, ok := ts.Type.(*ast.StructType); ok {
				for _, f := range st.Fields.List {
					for _, nm := range f.Names {
						owners[nm.Name] = append(owners[nm.Name], tn)
					}
				}
			}
		}
		tracked := map[string]bool{}
		for _, t := range cfg.types {
			tracked[t] = true
			if _, ok := p.types[t]; !ok {
				fmt.Fprintf(os.Stderr, "extract: tracked type %s not found in %s\n", t, cfg.dir)
				accMissing = append(accMissing, cfg.dir+"."+t)
			}
		}
		c.valRecv = map[string][]valRecvInfo{}
		for name, fd := range p.funcs {
			if fd.Recv == nil || len(fd.Recv.List) != 1 {
				continue
			}
			id, ok := fd.Recv.List[0].Type.(*ast.Ident) // value receiver: the type is not a pointer
			if !ok || !tracked[id.Name] {
				continue
			}
			st, ok := p.types[id.Name].Type.(*ast.StructType)
			if !ok {
				continue
			}
			info := valRecvInfo{typ: id.Name, recv: "recv", file: filepath.Base(p.fset.Position(fd.Pos()).Filename)}
			if len(fd.Recv.List[0].Names) == 1 && fd.Recv.List[0].Names[0].Name != "_" {
				info.recv = fd.Recv.List[0].Names[0].Name
			}
			for _, f := range st.Fields.List {
				for _, nm := range f.Names {
					info.fields = append(info.fields, nm.Name)
				}
			}
			b := name[strings.LastIndex(name, ".")+1:]
			c.valRecv[b] = append(c.valRecv[b], info)
		}
		for f, ts := range owners {
			any := false
			for _, t := range ts {
				any = any || tracked[t]
			}
			if any {
				sort.Strings(ts)
				c.auto[f] = cfg.label + "." + strings.Join(ts, "|") + "." + f
			}
		}
	}
	for _, v := range cfg.vars {
		c.varRe = append(c.varRe, regexp.MustCompile("^(?:"+v.expr+")$"))
		c.fileRe = append(c.fileRe, regexp.MustCompile(v.files))
		if v.mut != "" {
			c.mutRe = append(c.mutRe, regexp.MustCompile("^(?:"+v.mut+")$"))
		} else {
			c.mutRe = append(c.mutRe, nil)
		}
	}
	for _, a := range cfg.aliases {
		c.aliasRe = append(c.aliasRe, [2]*regexp.Regexp{regexp.MustCompile(a.files), regexp.MustCompile("^(?:" + a.expr + ")$")})
	}
	if cfg.ctors != "" {
		c.ctorRe = regexp.MustCompile(cfg.ctors)
	}
	// unique base names
	count := map[string]int{}
	fullOf := map[string]string{}
	for name := range p.funcs {
		b := name
		if i := strings.LastIndex(b, "."); i >= 0 {
			b = b[i+1:]
		}
		count[b]++
		fullOf[b] = name
	}
	for b, n := range count {
		if n == 1 {
			c.unique[b] = fullOf[b]
		}
	}
	names := make([]string, 0, len(p.funcs))
	for name := range p.funcs {
		names = append(names, name)
	}
	sort.Strings(names)
	var out []access
	for round := 0; round < 6; round++ {
		out = nil
		c.out = &out
		c.calls = map[string][][]string{}
		for _, name := range names {
			fd := p.funcs[name]
			if fd.Body == nil {
				continue
			}
			c.fn = name
			c.fresh = freshLocals(fd.Body)
			c.file = filepath.Base(p.fset.Position(fd.Pos()).Filename)
			b := name
			if i := strings.LastIndex(b, "."); i >= 0 {
				b = b[i+1:]
			}
			held := map[string]bool{}
			if as, ok := cfg.assume[name]; ok {
				for _, l := range as {
					held[l] = true
				}
			} else if !(cfg.exported && ast.IsExported(b)) {
				for _, l := range c.entry[name] {
					held[l] = true
				}
			}
			c.block(fd.Body.List, held)
		}
		changed := false
		if os.Getenv("ACC_DEBUG") != "" {
			for b, sets := range c.calls {
				fmt.Fprintf(os.Stderr, "round %d calls %s: %v\n", round, b, sets)
			}
		}
		for b, sets := range c.calls {
			n := intersect(sets)
			if strings.Join(n, ",") != strings.Join(c.entry[b], ",") {
				c.entry[b] = n
				changed = true
			}
		}
		if !changed {
			break
		}
	}
	for v := range c.autoHit {
		accAuto[v] = true
	}
	return out
}

func emitAccesses() string {
	var b strings.Builder
	b.WriteString("/- GENERATED by /verif/extract from the repository working tree. Do not edit. -/\nnamespace Snowflake.Gen.Accesses\n\n")
	b.WriteString("structure Acc where\n  v : String\n  fn : String\n  write : Bool\n  atomic : Bool\n  locks : List String\n  rlocks : List String\n  ctor : Bool\nderiving DecidableEq, Repr\n\n")
	b.WriteString("def table : List Acc := [\n")
	var rows []string
	seen := map[string]bool{}
	for i := range accPkgs {
		for _, a := range analysePkg(&accPkgs[i]) {
			var ls, rs []string
			for _, l := range a.locks {
				ls = append(ls, leanStr(l))
			}
			for _, l := range a.rlocks {
				rs = append(rs, leanStr(l))
			}
			row := fmt.Sprintf("  ⟨%s, %s, %v, %v, [%s], [%s], %v⟩", leanStr(a.v), leanStr(a.fn), a.write, a.atomic, strings.Join(ls, ", "), strings.Join(rs, ", "), a.ctor)
			if !seen[row] {
				seen[row] = true
				rows = append(rows, row)
			}
		}
	}
	sort.Strings(rows)
	b.WriteString(strings.Join(rows, ",\n"))
	b.WriteString("\n]\n\n")
	var vars, exempt []string
	vs := map[string]bool{}
	ex := map[string]string{}
	for _, p := range accPkgs {
		for v, why := range p.exempt {
			ex[v] = why
		}
	}
	for _, p := range accPkgs {
		for _, v := range p.vars {
			if !vs[v.name] && ex[v.name] == "" {
				vs[v.name] = true
				vars = append(vars, leanStr(v.name))
			}
		}
	}
	for v := range accAuto {
		if !vs[v] && ex[v] == "" {
			vs[v] = true
			vars = append(vars, leanStr(v))
		}
	}
	for v, why := range ex {
		exempt = append(exempt, "("+leanStr(v)+", "+leanStr(why)+")")
	}
	sort.Strings(exempt)
	var missing []string
	for _, m := range accMissing {
		missing = append(missing, leanStr(m))
	}
	sort.Strings(vars)
	fmt.Fprintf(&b, "def sharedVars : List String := [%s]\n\n", strings.Join(vars, ", "))
	var as []string
	for _, p := range accPkgs {
		for fn, ls := range p.assume {
			as = append(as, leanStr(p.dir+" "+fn+" is only entered with "+strings.Join(ls, ", ")+" held"))
		}
	}
	fmt.Fprintf(&b, "/-- Variables kept out of the lock discipline, with the reason (ordered by other synchronisation; covered by the race-detector workloads only). -/\ndef exemptVars : List (String × String) := [%s]\n\n", strings.Join(exempt, ",\n  "))
	fmt.Fprintf(&b, "/-- Tracked struct types that no longer exist in the source (must be empty). -/\ndef missingTypes : List String := [%s]\n\n", strings.Join(missing, ", "))
	sort.Strings(as)
	fmt.Fprintf(&b, "/-- Caller assumptions used by the lockset analysis (declared in extract/specs_accesses.go). -/\ndef callerAssumptions : List String := [%s]\n\n", strings.Join(as, ", "))
	b.WriteString("end Snowflake.Gen.Accesses\n")
	return b.String()
}
