package main

// Group for C08 (common/util): IsLocal is inside the translator subset; StripLocalAddresses is tied by a
// statement listing (skeleton with every assignment and returned expression: the nested guards of its
// filter loop) and by differential runs.

func init() {
	register(&group{name: "Util",
		fns: []fnSpec{{lean: "IsLocal", dir: "common/util", name: "IsLocal"}},
		skels: []skelSpec{
			{lean: "stmts_StripLocalAddresses", dir: "common/util", name: "StripLocalAddresses", assigns: `.`, returns: true},
		},
	})
}
