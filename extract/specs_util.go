package main

// Group for C08 (common/util): IsLocal is inside the translator subset; StripLocalAddresses is tied by a
// statement listing (skeleton with every assignment and returned expression: the nested guards of its
// filter loop) and by differential runs.  The two functions that send a description to the broker —
// (*BrokerChannel).Negotiate and (*SignalingServer).sendAnswer — are listed with every call, literal,
// assignment and condition plus the identifiers of each statement and the signature (`idents`): the
// data-flow ties of the "applied before it leaves the process" clause (Tie/StripApplied{Client,Proxy}.lean).

func init() {
	register(&group{name: "Util",
		fns: []fnSpec{{lean: "IsLocal", dir: "common/util", name: "IsLocal"}},
		skels: []skelSpec{
			{lean: "stmts_StripLocalAddresses", dir: "common/util", name: "StripLocalAddresses", assigns: `.`, returns: true},
			{lean: "stmts_Negotiate", dir: "client/lib", name: "BrokerChannel.Negotiate", calls: `.`, assigns: `.`, returns: true, idents: true},
			{lean: "stmts_sendAnswer", dir: "proxy/lib", name: "SignalingServer.sendAnswer", calls: `.`, assigns: `.`, returns: true, idents: true},
		},
	})
}
