package main

// C13: util.DeserializeSessionDescription is outside the translated subset (map of interfaces); what
// the model depends on is regenerated as facts: its type assertions and the type-name switch.

func init() {
	register(&group{name: "SessionDesc",
		specials: []specialSpec{
			{lean: "deserializeAsserts", kind: "typeAsserts", dir: "common/util", name: "DeserializeSessionDescription"},
			{lean: "deserializeSwitch", kind: "switchCases", dir: "common/util", name: "DeserializeSessionDescription"},
		},
	})
}
