package main

// Group Turbotunnel (property C17): common/turbotunnel.

func init() {
	const d = "common/turbotunnel"
	register(&group{name: "Turbotunnel",
		consts: []constSpec{{lean: "queueSize", dir: d, name: "queueSize"}},
		conds: []condSpec{
			// for len(inner.byAge) > 0 && now.Sub(inner.byAge[0].LastSeen) >= timeout { heap.Pop(inner) }
			{lean: "removeExpired_guard", dir: d, name: "clientMapInner.removeExpired", contains: "timeout",
				params: []absParam{{"n", tInt}, {"now", tZ}, {"lastSeen", tZ}, {"timeout", tZ}},
				abs:    map[string]string{"len(inner.byAge)": "n", "now": "now", "inner.byAge[0].LastSeen": "lastSeen", "timeout": "timeout"}},
			// return inner.byAge[i].LastSeen.Before(inner.byAge[j].LastSeen)
			{lean: "clientMap_less", dir: d, name: "clientMapInner.Less", contains: "LastSeen",
				params: []absParam{{"a", tZ}, {"b", tZ}},
				abs:    map[string]string{"inner.byAge[i].LastSeen": "a", "inner.byAge[j].LastSeen": "b"}},
		},
		skels: []skelSpec{
			{lean: "skel_NewRedialPacketConn", dir: d, name: "NewRedialPacketConn", calls: ``},
			{lean: "skel_NewQueuePacketConn", dir: d, name: "NewQueuePacketConn", calls: `NewClientMap`},
			{lean: "skel_dialLoop", dir: d, name: "RedialPacketConn.dialLoop", calls: `dialContext|exchange|closeWithError|^cancel$`},
			{lean: "skel_exchange", dir: d, name: "RedialPacketConn.exchange", calls: `ReadFrom|WriteTo`},
			{lean: "skel_redialCloseWithError", dir: d, name: "RedialPacketConn.closeWithError", calls: `Store`},
			{lean: "skel_redialReadFrom", dir: d, name: "RedialPacketConn.ReadFrom", calls: ``},
			{lean: "skel_redialWriteTo", dir: d, name: "RedialPacketConn.WriteTo", calls: `^copy$`},
			{lean: "skel_QueueIncoming", dir: d, name: "QueuePacketConn.QueueIncoming", calls: `^copy$`},
			{lean: "skel_queueWriteTo", dir: d, name: "QueuePacketConn.WriteTo", calls: `^copy$|SendQueue|trySend`},
			{lean: "skel_queueReadFrom", dir: d, name: "QueuePacketConn.ReadFrom", calls: `^copy$`},
			{lean: "skel_queueCloseWithError", dir: d, name: "QueuePacketConn.closeWithError", calls: `Store`},
			{lean: "skel_OutgoingQueue", dir: d, name: "QueuePacketConn.OutgoingQueue", calls: `SendQueue`},
			{lean: "skel_cmSendQueue", dir: d, name: "clientMapInner.SendQueue", calls: ``},
			{lean: "skel_cmRemoveExpired", dir: d, name: "clientMapInner.removeExpired", calls: ``},
			{lean: "skel_cmPush", dir: d, name: "clientMapInner.Push", calls: `^append$`},
			{lean: "skel_cmPop", dir: d, name: "clientMapInner.Pop", calls: ``},
			{lean: "skel_cmLen", dir: d, name: "clientMapInner.Len", calls: ``},
			{lean: "skel_NewClientMap", dir: d, name: "NewClientMap", calls: `removeExpired|Sleep`},
			{lean: "skel_ClientMapSendQueue", dir: d, name: "ClientMap.SendQueue", calls: `SendQueue`},
			{lean: "skel_ClientMapTrySend", dir: d, name: "ClientMap.trySend", calls: `SendQueue|Lock|Unlock`},
		},
	})
}
