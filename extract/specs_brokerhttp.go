package main

// Generated group BrokerHttp: the HTTP shell of the broker (C14).

func init() {
	const calls = `WriteHeader$|\.Write$|^panic$|MaxBytesReader|ClientOffers$|ProxyPolls$|ProxyAnswers$|\.Debug$|DecodeClientPollResponse|EncodeClientPollRequest|DecodePath|NewArmorEncoder|NotFound|errors\.Is|handle$`
	register(&group{name: "BrokerHttp",
		consts: []constSpec{
			{"readLimit", "broker", "readLimit"},
			{"StrNoProxies", "common/messages", "StrNoProxies"},
			{"StrTimedOut", "common/messages", "StrTimedOut"},
			{"ClientVersion", "common/messages", "ClientVersion"},
		},
		skels: []skelSpec{
			{lean: "skel_ServeHTTP", dir: "broker", name: "SnowflakeHandler.ServeHTTP", calls: calls},
			{lean: "skel_MetricsServeHTTP", dir: "broker", name: "MetricsHandler.ServeHTTP", calls: calls},
			{lean: "skel_proxyPolls", dir: "broker", name: "proxyPolls", calls: calls},
			{lean: "skel_clientOffers", dir: "broker", name: "clientOffers", calls: calls, assigns: `^isLegacy$|^response$`},
			{lean: "skel_proxyAnswers", dir: "broker", name: "proxyAnswers", calls: calls},
			{lean: "skel_ampClientOffers", dir: "broker", name: "ampClientOffers", calls: calls},
			{lean: "skel_debugHandler", dir: "broker", name: "debugHandler", calls: calls},
			{lean: "skel_metricsHandler", dir: "broker", name: "metricsHandler", calls: calls},
		},
	})
}
