package main

// Generated group ServerHttp: the server's carrier handler (C05, C01).

func init() {
	const calls = `ReadFull$|ReadData$|WriteData$|QueueIncoming$|OutgoingQueue$|clientIDAddrMap\.Set$|^bytes\.Equal$|^turbotunnelMode$|^clientAddr$|\.Flush$|Upgrade$|websocketconn\.New$`
	register(&group{name: "ServerHttp",
		consts: []constSpec{
			{"Token", "common/turbotunnel", "Token"},
			{"queueSize", "common/turbotunnel", "queueSize"},
		},
		skels: []skelSpec{
			{lean: "skel_ServeHTTP", dir: "server/lib", name: "httpHandler.ServeHTTP", calls: calls, assigns: `^addr$|^clientIPParam$`},
			{lean: "skel_turbotunnelMode", dir: "server/lib", name: "turbotunnelMode", calls: calls},
			{lean: "skel_QueueIncoming", dir: "common/turbotunnel", name: "QueuePacketConn.QueueIncoming", calls: `^copy$|^make$`},
			{lean: "skel_WriteTo", dir: "common/turbotunnel", name: "QueuePacketConn.WriteTo", calls: `^copy$|^make$|SendQueue$|trySend$`},
			{lean: "skel_trySend", dir: "common/turbotunnel", name: "ClientMap.trySend", calls: `SendQueue$|Lock$|Unlock$`},
			{lean: "skel_OutgoingQueue", dir: "common/turbotunnel", name: "QueuePacketConn.OutgoingQueue", calls: `SendQueue$`, returns: true},
		},
	})
}
