package main

// Groups for the properties built so far.  Add new groups in separate specs_<area>.go files.

func init() {
	register(&group{name: "Encap",
		specials: []specialSpec{{lean: "paddingBufferLen", kind: "makeLen", dir: "common/encapsulation", name: "paddingBuffer"}},
		fns: []fnSpec{
			{lean: "dataPrefixForLength", dir: "common/encapsulation", name: "dataPrefixForLength"},
			{lean: "paddingSwitch", dir: "common/encapsulation", name: "WritePadding", switchParam: "p", switchOuts: []string{"p", "prefix"}},
		},
	})
	register(&group{name: "NameMatcher",
		fns: []fnSpec{
			{lean: "NewNameMatcher", dir: "common/namematcher", name: "NewNameMatcher"},
			{lean: "IsValidRule", dir: "common/namematcher", name: "IsValidRule"},
			{lean: "IsSupersetOf", dir: "common/namematcher", name: "NameMatcher.IsSupersetOf"},
			{lean: "IsMember", dir: "common/namematcher", name: "NameMatcher.IsMember"},
		},
		conds: []condSpec{
			{lean: "runSession_rejectCond", dir: "proxy/lib", name: "SnowflakeProxy.runSession", contains: "IsMember",
				params: []absParam{{"relayURL", tBytes}, {"isMember", tBool}, {"allowNonTLS", tBool}, {"scheme", tBytes}},
				abs: map[string]string{"relayURL": "relayURL", "matcher.IsMember(parsedRelayURL.Hostname())": "isMember",
					"sf.AllowNonTLSRelay": "allowNonTLS", "parsedRelayURL.Scheme": "scheme"}},
		},
		skels: []skelSpec{
			{lean: "skel_ProxyPolls", dir: "broker", name: "IPC.ProxyPolls", calls: `RequestOffer|CheckProxyRelayPattern`},
		},
	})
}
