package main

// Generated group Broker: what the rendezvous model (C02/C03/C04) relies on.

func init() {
	register(&group{name: "Broker",
		consts: []constSpec{
			{"ClientTimeout", "broker", "ClientTimeout"},
			{"ProxyTimeout", "broker", "ProxyTimeout"},
			{"NATUnknown", "broker", "NATUnknown"},
			{"NATRestricted", "broker", "NATRestricted"},
			{"NATUnrestricted", "broker", "NATUnrestricted"},
		},
		skels: []skelSpec{
			{lean: "skel_Broker", dir: "broker", name: "BrokerContext.Broker"},
			{lean: "skel_RequestOffer", dir: "broker", name: "BrokerContext.RequestOffer"},
			{lean: "skel_AddSnowflake", dir: "broker", name: "BrokerContext.AddSnowflake", assigns: `idToSnowflake`},
			{lean: "skel_matchSnowflake", dir: "broker", name: "IPC.matchSnowflake", assigns: `^snowflakeHeap$`, returns: true},
			{lean: "skel_ClientOffers", dir: "broker", name: "IPC.ClientOffers", calls: `matchSnowflake|GetBridgeInfo|^sendClientResponse$`},
			{lean: "skel_ProxyAnswers", dir: "broker", name: "IPC.ProxyAnswers", assigns: `^snowflake, ok$|^success$`},
			{lean: "skel_ProxyPollsTail", dir: "broker", name: "IPC.ProxyPolls", calls: `RequestOffer|GetBridgeInfo|EncodePollResponse`},
			// the registration accounting of Props/C04Reg: gauge Inc / Dec, id-map set / delete, heap push / remove
			{lean: "reg_AddSnowflake", dir: "broker", name: "BrokerContext.AddSnowflake", calls: `AvailableProxies.*\.(Inc|Dec|Add|Sub|Set)$`, assigns: `idToSnowflake`},
			{lean: "reg_Broker", dir: "broker", name: "BrokerContext.Broker", calls: `AvailableProxies.*\.(Inc|Dec|Add|Sub|Set)$`, assigns: `idToSnowflake`},
			{lean: "reg_ClientOffers", dir: "broker", name: "IPC.ClientOffers", calls: `AvailableProxies.*\.(Inc|Dec|Add|Sub|Set)$|matchSnowflake`, assigns: `idToSnowflake`},
			{lean: "reg_ProxyAnswers", dir: "broker", name: "IPC.ProxyAnswers", calls: `AvailableProxies.*\.(Inc|Dec|Add|Sub|Set)$`, assigns: `idToSnowflake`},
			{lean: "skel_heap_Less", dir: "broker", name: "SnowflakeHeap.Less", returns: true},
			{lean: "skel_heap_Swap", dir: "broker", name: "SnowflakeHeap.Swap", assigns: `.`},
			{lean: "skel_heap_Push", dir: "broker", name: "SnowflakeHeap.Push", assigns: `.`},
			{lean: "skel_heap_Pop", dir: "broker", name: "SnowflakeHeap.Pop", assigns: `.`, returns: true},
		},
	})
}
