#!/bin/sh
# usage: merge_wp.sh <name>  — copy NEW files of /tmp/work/<name>/verif into /verif (never overwrites), list DIFF files.
N=$1; cd /tmp/work/$N/verif
for f in $(find . -type f ! -path './.cache/*' ! -path './lean/.lake/*' ! -path './evidence/*' ! -path './lean/Snowflake/Generated/*' ! -name '*.pyc' ! -name 'lake-manifest.json' | sort); do
  if [ ! -e /verif/$f ]; then mkdir -p /verif/$(dirname $f); cp $f /verif/$f; echo "COPIED $f";
  elif ! cmp -s $f /verif/$f; then echo "DIFF   $f"; fi
done
