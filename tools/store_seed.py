#!/usr/bin/env python3
"""store_seed.py <Cxx> <src dir> <n> <caught_by text> — copy a confirmed seeded change into /verif/seeded/<Cxx>-<n>/."""
import json, os, shutil, sys
pid, src, n, caught = sys.argv[1:5]
dst = f"/verif/seeded/{pid}-{n}"
os.makedirs(dst, exist_ok=True)
for f in ("patch.diff", "demo_test.go"):
    shutil.copy(os.path.join(src, f), dst)
m = json.load(open(os.path.join(src, "meta.json")))
out = {"property": pid, "package": m.get("package"), "what": m.get("what"), "needs": m.get("needs"), "agent_ran": m.get("ran"),
       "confirmed_by_me": "tools/verify_seed.sh in a scratch worktree: existing package tests pass with the patch, the demo fails with the patch and passes without it",
       "check_result": f"git -C /repo apply patch.diff; python3 run.py {pid} quick -> exit 1 with a VIOLATION line; git -C /repo checkout -- .",
       "caught_by": caught}
json.dump(out, open(os.path.join(dst, "meta.json"), "w"), indent=1)
print("stored", dst)
