#!/bin/sh
# Create a private workspace for a work-package agent: /tmp/work/<name>/{verif,repo}
set -e
N=$1
W=/tmp/work/$N
mkdir -p $W
rsync -a --exclude .git --exclude .cache --exclude 'lean/.lake' --exclude evidence --exclude seeded /verif/ $W/verif/
mkdir -p $W/verif/evidence
git -C /repo worktree add -q --detach $W/repo HEAD
echo $W
