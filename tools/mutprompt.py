#!/usr/bin/env python3
"""Print the prompt for a seeded-defect agent: mutprompt.py <Cxx> <n changes> <pkgs to test, space separated> [ldflags]"""
import json, sys
pid, n, pkgs = sys.argv[1], sys.argv[2], sys.argv[3]
ldf = sys.argv[4] if len(sys.argv) > 4 else ""
for l in open('/verif/properties.jsonl'):
    p = json.loads(l)
    if p['id'] == pid:
        break
low = pid.lower()
text = (f"Title: {p['title']}\nStatement: {p['statement']}\nQuantifier: {p['quantifier']['text']}\n"
        f"Code: {', '.join(p['anchors']['files'])}\nMechanisms meant to make it hold: "
        + '; '.join(m['name'] + ' (' + m['where'] + ')' for m in p['anchors']['mechanism'])
        + "\nObservable at: " + '; '.join(p['anchors'].get('observe_at', [])))
gt = f"go test -modfile=/tmp/wt-{low}-mod/repo.go.mod -vet=off -count=1 {ldf}".strip()
print(f"""You are helping test a verification tool by writing *seeded defects* for a Go repository (Tor Snowflake pluggable transport). Work ONLY inside the scratch git worktree /tmp/wt-{low} (a checkout of the repository). Do not read or touch /verif or /repo. There is no network.

Go environment for every shell call: `export GOFLAGS=-mod=mod GOPROXY=off GOSUMDB=off GOTOOLCHAIN=local`. IMPORTANT: never let go rewrite go.mod: copy go.mod and go.sum once to /tmp/wt-{low}-mod/repo.go.mod and /tmp/wt-{low}-mod/repo.go.sum (the .go.sum must sit beside it with the same base name) and always pass `-modfile=/tmp/wt-{low}-mod/repo.go.mod` to go commands; use `-vet=off`.{' Packages that link pion need `-ldflags=-checklinkname=0`.' if ldf else ''} Test command pattern: `cd /tmp/wt-{low} && {gt} ./<pkg>/`. The packages whose existing tests must keep passing: {pkgs} (the broker package's tests take about 40 s).

The property under test (a semantic property the code is meant to satisfy):

{text}

Your task: produce {n} different, independent source changes (each a separate small patch against the clean worktree) to the repository's non-test Go code, each of which BREAKS the property above while (a) the repository still compiles and (b) the existing tests of the affected packages still pass unchanged (do not edit any existing test). Prefer subtle, realistic changes (the kind a refactoring or a well-meant optimisation could introduce) that need something specific to manifest — a particular interleaving or timing, a fault at a particular point, a multi-step sequence of operations, an unusual but legal input, or two cooperating sites that each look fine alone — not changes that ordinary use would expose at once. Make the changes as different from each other as possible (different functions / different clauses of the property).

For each change i = 1..{n} create the directory /tmp/seeded-{low}/<i>/ containing:
  - patch.diff : output of `git diff` for that change alone (relative to the clean worktree HEAD), applicable with `git apply`;
  - demo_test.go : a Go test file (same package as the code it exercises; it will be dropped into that package directory as zz_demo_test.go; its test function names must start with TestDemo) that FAILS with the change applied and PASSES on the clean tree — the demonstration of the property violation. If the violation is a hang, the demo must detect it with a deadline and fail, not hang. If it needs a specific interleaving, force it deterministically if you can (for instance by holding one of the package's own locks from the test while the racing goroutines queue up) or repeat until it manifests with a bounded number of attempts;
  - meta.json : {{"property":"{pid}","package":"<package dir the demo goes in>","what":"one-sentence description","needs":"what specific interleaving/input/sequence is needed for it to manifest","ran":"commands you ran and their results"}}.

Procedure for each change: start from a clean tree (`git -C /tmp/wt-{low} checkout -- . && git -C /tmp/wt-{low} clean -fdq`), apply your edit, verify it builds and the existing package tests pass, save `git diff > patch.diff`, copy your demo test in and check it fails; then revert the source change (keep the demo) and check the demo passes on the clean tree; then remove the demo and reset the tree. At the end leave the worktree clean. Report a short summary listing the changes and confirming the fail/pass checks you actually performed.""")
