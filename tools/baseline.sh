#!/bin/sh
# Runs the repository's pinned test suite with the verification guard OFF (no -tags verif, no overlay).
# A copy of go.mod is used so that -mod=mod never rewrites /repo/go.mod.
set -e
mkdir -p /verif/.cache
cp /repo/go.mod /verif/.cache/baseline.go.mod
cp /repo/go.sum /verif/.cache/baseline.go.sum
cd /repo
GOFLAGS=-mod=mod GOPROXY=off GOSUMDB=off GOTOOLCHAIN=local \
  go test -modfile=/verif/.cache/baseline.go.mod -json -vet=off -count=1 -timeout 25m ./...
