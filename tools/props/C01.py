"""Registry entry for C01 (see tools/registry.py)."""

SPEC = {'id': 'C01',
 'modules': ['Snowflake.Props.C01', 'Snowflake.Tie.ClientSession', 'Snowflake.Tie.ServerHttp'],
 'theorems': [('Snowflake.Props.C01', 'Snowflake.C01.decodeAll_partial_frame'),
              ('Snowflake.Props.C01', 'Snowflake.C01.frames_prefix_closed'),
              ('Snowflake.Props.C01', 'Snowflake.C01.honest_lossy_upstream'),
              ('Snowflake.Props.C01', 'Snowflake.C01.honest_lossy_downstream'),
              ('Snowflake.Props.C01', 'Snowflake.C01.upstream_only_sent'),
              ('Snowflake.Props.C01', 'Snowflake.C01.downstream_only_sent'),
              ('Snowflake.Props.C01', 'Snowflake.C01.arrivals_honest'),
              ('Snowflake.Props.C01', 'Snowflake.C01.e2e_prefix_safe'),
              ('Snowflake.Props.C01', 'Snowflake.C01.e2e_never_taken_back'),
              ('Snowflake.Props.C01', 'Snowflake.C01.e2e_exact_partial'),
              ('Snowflake.Props.C01', 'Snowflake.Reasm.delivered_prefix'),
              ('Snowflake.Props.C01', 'Snowflake.Reasm.delivered_exact'),
              ('Snowflake.Props.C01', 'Snowflake.Reasm.delivered_mono'),
              ('Snowflake.Props.C05', 'Snowflake.Server.C05.upstream_exact'),
              ('Snowflake.Props.C05', 'Snowflake.Server.C05.downstream_only_to_same_id'),
              ('Snowflake.Props.C09', 'Snowflake.Encap.C09.fragmentation_independent')],
 'ties': [('Snowflake.Tie.ClientSession', 'Snowflake.Tie.ClientSession.skel_newSession_tie'),
          ('Snowflake.Tie.ClientSession', 'Snowflake.Tie.ClientSession.skel_encap_ReadFrom_tie'),
          ('Snowflake.Tie.ClientSession', 'Snowflake.Tie.ClientSession.skel_encap_WriteTo_tie'),
          ('Snowflake.Tie.ClientSession', 'Snowflake.Tie.ClientSession.preface_order'),
          ('Snowflake.Tie.ServerHttp', 'Snowflake.Tie.ServerHttp.skel_ServeHTTP_tie'),
          ('Snowflake.Tie.ServerHttp', 'Snowflake.Tie.ServerHttp.skel_turbotunnelMode_tie'),
          ('Snowflake.Tie.ServerHttp', 'Snowflake.Tie.ServerHttp.token_tie')],
 'harness': [{'pkg': 'client/lib', 'test': 'TestVerifC01Stack$', 'checklinkname': True, 'timeout': '12m'}],
 'overlay': {'client/lib/zz_verif_c01_test.go': 'c01_stack_test.go'},
 'rule': 'cases = sessions over the real stack (real server Transport.Listen/Accept with kcp-go+smux; client side the '
         'real RedialPacketConn + encapsulation + kcp-go + smux wired as newSession) with payloads 0..hundreds of KB '
         '(MB in thorough) in both directions and per-session generated carrier faults: cut after a byte budget '
         'upstream or downstream (before the first byte, inside the preface, inside a frame, mid-stream), freezes, '
         'delayed redials, then working carriers; plus carriers without token; non-trivial = the session used more '
         'than one carrier; distinct = distinct (class, session description)'
         ' Also: outage during a bulk download (carrier cut after 256 KiB, no proxy for 5 s), and a frozen proxy (real peer built by NewWebRTCPeerWithEvents against an in-process pion proxy that echoes 1.5 s and then goes silent with its data channel open while the client keeps writing: the peer must be given up within SnowflakeTimeout).',
 'level_text': 'Proof-partial. Kernel-checked: framing is prefix-closed (a cut at any byte offset yields exactly the '
               'packets before it), so the server hands the peer KCP an in-order, byte-identical prefix of what the '
               'client KCP wrote on each carrier (honest_lossy_upstream, over the C05 server model), and symmetrically '
               'downstream through any reader fragmentation (C09) with packets going only to carriers of the same '
               'ClientID; so everything a session receives is a datagram its peer wrote (upstream_only_sent, '
               'downstream_only_sent). Over any such service - arbitrary loss, duplication, reordering, any number of '
               'carriers - a receiver that reassembles by segment number hands the reader at every moment a whole-segment '
               'prefix of the written stream (e2e_prefix_safe: nothing missing in the middle, duplicated, reordered or '
               'foreign), never takes bytes back (e2e_never_taken_back), and has handed over exactly the written stream once '
               'every segment got through (e2e_exact_partial). What remains assumed about kcp-go/smux is stated as two '
               'explicit hypotheses of those theorems: their datagrams carry numbered segments that decode to what was '
               'encoded (SegCodec), and they retransmit until every segment got through while some working proxy is '
               'available. The wiring assumed by the theorems is tied to newSession / '
               'turbotunnelMode by regenerated skeletons; the composed real stack is exercised end to end under '
               'generated carrier faults with an exact stream oracle in both directions.',
 'level_note': 'Trusted/not modelled: kcp-go and smux beyond the two hypotheses (numbered-segment datagram codec; '
               'retransmission until delivered) - their windowing, acknowledgements, keep-alives and stream multiplexing '
               'are not modelled and the reassembly model (Model/Reasm.lean) is not tied to their source; gorilla/websocket, the WebRTC '
               "data channel and the proxy's copy loop (carriers in the harness are WebSockets straight to the "
               "server), timing (staleness 20 s, reconnect 10 s). The harness replicates newSession's wiring by hand "
               "because WebRTCPeer cannot be faked; the skeleton tie re-checks that wiring. RedialPacketConn's 'no "
               "surfaced error' is the C17 theorem.",
 'design_ref': 'DESIGN.md §5.1',
 'assumptions': ['SegCodec: the reliability layer\'s datagrams carry a segment number and payload and decode to what was encoded',
                 'the reliability layer retransmits until every segment got through (e2e_exact_partial only)',
                 'carriers deliver bytes in order and unmodified while alive',
                 'some working carrier eventually becomes available'],
 'race': True}

SPEC['thorough_passes'] = 4  # the thorough tier runs the whole harness under this many consecutive seeds

SPEC['rule'] += (' ' +
    'Added after rounds four and five: carriers that die on one side only (writes fail, reads just stay silent until the owner closes), old carriers whose socket lingers at the server or stays open for good while the replacement attaches, one Transport listening on two addresses, carriers cut while the last bytes of a download are in flight with the bridge closing first; a session that is out of time but moved payload bytes within the last half of the budget (37 s quick, 150 s thorough - longer than the pauses the doubling retransmission timeout of kcp-go, capped at 60 s, can cause with the number of faults generated) is slow, not stalled - no verdict.')
