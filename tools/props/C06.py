"""Registry entry for C06 (see tools/registry.py)."""

SPEC = {'id': 'C06',
 'lean_search': 'Snowflake/Search/C06.lean',
 'modules': ['Snowflake.Props.C06', 'Snowflake.Tie.NameMatcher'],
 'theorems': [('Snowflake.Props.C06', 'Snowflake.NameMatcher.C06.superset_sound'),
              ('Snowflake.Props.C06', 'Snowflake.NameMatcher.C06.superset_sound_rules'),
              ('Snowflake.Props.C06', 'Snowflake.NameMatcher.C06.superset_refl'),
              ('Snowflake.Props.C06', 'Snowflake.NameMatcher.C06.superset_trans'),
              ('Snowflake.Props.C06', 'Snowflake.NameMatcher.C06.superset_complete'),
              ('Snowflake.Props.C06', 'Snowflake.NameMatcher.C06.superset_iff'),
              ('Snowflake.Props.C06', 'Snowflake.NameMatcher.C06.broker_check_sound'),
              ('Snowflake.Props.C06', 'Snowflake.NameMatcher.C06.broker_check_iff'),
              ('Snowflake.Props.C06', 'Snowflake.NameMatcher.C06.broker_rejects_iff'),
              ('Snowflake.Props.C06', 'Snowflake.NameMatcher.C06.proxy_accepts_only_member_and_wss'),
              ('Snowflake.Props.C06', 'Snowflake.NameMatcher.C06.empty_url_not_rejected'),
              ('Snowflake.Props.C06', 'Snowflake.NameMatcher.C06.proxy_rejects_outside')],
 'ties': [('Snowflake.Tie.NameMatcher', 'Snowflake.Tie.NameMatcher.new_tie'),
          ('Snowflake.Tie.NameMatcher', 'Snowflake.Tie.NameMatcher.isValidRule_tie'),
          ('Snowflake.Tie.NameMatcher', 'Snowflake.Tie.NameMatcher.isSupersetOf_tie'),
          ('Snowflake.Tie.NameMatcher', 'Snowflake.Tie.NameMatcher.isMember_tie'),
          ('Snowflake.Tie.NameMatcher', 'Snowflake.Tie.NameMatcher.proxyRejects_tie'),
          ('Snowflake.Tie.NameMatcher', 'Snowflake.Tie.NameMatcher.proxyPolls_check_precedes_offer')],
 'harness': [{'pkg': 'common/namematcher', 'test': 'TestVerifC06Matcher'},
             {'pkg': 'broker', 'test': 'TestVerifC06Broker'},
             {'pkg': 'proxy/lib', 'test': 'TestVerifC06Proxy$', 'checklinkname': True}],
 'parallel': 3,
 'overlay': {'common/namematcher/zz_verif_c06_test.go': 'c06_namematcher_test.go',
             'broker/zz_verif_c06_test.go': 'c06_broker_test.go',
             'proxy/lib/zz_verif_c16_test.go': 'c16_proxylib_test.go'},
 'rule': 'proxy side: relay URLs (inside / outside the pattern, ws / wss, userinfo, suffix and prefix tricks, ports, '
         'upper case, opaque, empty, unparsable) and URL histories (accepted over TLS, then the same host without TLS / as '
         'userinfo of a decoy / over http) through the real runSession of long-lived proxies, six patterns x both values '
         'of the non-TLS flag, observed at /answer and at a decoy listener; '
         'cases = (pattern, pattern, hostname) triples built to share suffixes (with/without ^ and $, empty, doubled '
         'anchors), broker configurations (allowed, presumed, proxy pattern, legacy flag) through the real '
         'CheckProxyRelayPattern and the real IPC.ProxyPolls; non-trivial = superset or membership holds / every '
         'broker case; distinct = distinct (class, case line)',
 'level_text': 'The superset-implies-membership law is a theorem for all matchers, patterns and hostnames; the broker '
               "check and the proxy's acceptance condition are theorems over definitions that are regenerated from the "
               'Go source (matcher functions and the runSession condition are translated and proved equal to the model '
               "by rfl); the ordering 'pattern check and return before RequestOffer' is a regenerated skeleton "
               'obligation; real matcher, CheckProxyRelayPattern and IPC.ProxyPolls are run against the model and the '
               'property oracle.',
 'level_note': 'Trusted: Lean kernel; translator (strings.HasPrefix/HasSuffix/TrimPrefix/TrimSuffix modelled on byte '
               'lists); net/url.Parse output (hostname, scheme) is an input to the model, and that the websocket '
               "dialer connects to the URL's host is not modelled; 'never gives such a proxy a client' rests on the "
               'rejection preceding registration (skeleton tie + observed on the real IPC).',
 'design_ref': 'DESIGN.md §5.6',
 'assumptions': ['net/url.Parse returns the hostname/scheme the dialer will use']}

SPEC['rule'] += (' Added after the seeded-change rounds: ' +
    'Broker side: polls announce every protocol version 1.0 .. 1.3 (pattern-aware from 1.3 in the source; the accepted-pattern field present / absent / empty); patterns that differ only in letter case; the non-TLS opt-in crossed with hosts inside / outside the pattern.')

SPEC['thorough_passes'] = 4  # the thorough tier runs the whole harness under this many consecutive seeds
