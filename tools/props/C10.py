"""Registry entry for C10 (see tools/registry.py)."""

_P = 'Snowflake.Props.C10'
_T = 'Snowflake.Tie.Amp'

SPEC = {'id': 'C10',
 'modules': [_P, _T],
 'theorems': [(_P, 'Snowflake.Base64.decode_encode'),
              (_P, 'Snowflake.Base64.stream_encode'),
              (_P, 'Snowflake.Base64.url_no_slash_plus'),
              (_P, 'Snowflake.Base64.rawUrl_no_slash_plus'),
              (_P, 'Snowflake.Base64.streamDecode_encode'),
              (_P, 'Snowflake.Base64.streamDecode_not_eof'),
              (_P, 'Snowflake.Amp.C10.encode_chunking_independent'),
              (_P, 'Snowflake.Amp.C10.armor_shape'),
              (_P, 'Snowflake.Amp.C10.boilerplateStart_neutral'),
              (_P, 'Snowflake.Amp.C10.layout_decodes'),
              (_P, 'Snowflake.Amp.C10.roundtrip'),
              (_P, 'Snowflake.Amp.C10.armor_injective'),
              (_P, 'Snowflake.Amp.C10.encoder_writes_unambiguous'),
              (_P, 'Snowflake.Amp.C10.whitespace_invariant'),
              (_P, 'Snowflake.Amp.C10.ws_filler_neutral'),
              (_P, 'Snowflake.Amp.C10.ws_trailer_neutral'),
              (_P, 'Snowflake.Amp.C10.outside_markup_invariant'),
              (_P, 'Snowflake.Amp.C10.boilerplate_pieces'),
              (_P, 'Snowflake.Amp.C10.errors_classified_unknown_version'),
              (_P, 'Snowflake.Amp.C10.errors_classified_stray'),
              (_P, 'Snowflake.Amp.C10.errors_classified_stray_first'),
              (_P, 'Snowflake.Amp.C10.errors_classified_nested'),
              (_P, 'Snowflake.Amp.C10.errors_classified_missing'),
              (_P, 'Snowflake.Amp.C10.errors_classified_exceeded'),
              (_P, 'Snowflake.Amp.C10.errors_classified_oversized_element'),
              (_P, 'Snowflake.Amp.C10.errors_classified_bad_base64'),
              (_P, 'Snowflake.Base64.streamDecode_bad'),
              (_P, 'Snowflake.Amp.C10.errors_classified_read_error'),
              (_P, 'Snowflake.Amp.C10.stream_padding_quirk')],
 'ties': [(_T, 'Snowflake.Tie.Amp.boilerplateStart_tie'),
          (_T, 'Snowflake.Tie.Amp.boilerplateEnd_tie'),
          (_T, 'Snowflake.Tie.Amp.elementSizeLimit_tie'),
          (_T, 'Snowflake.Tie.Amp.bytesPerChunk_tie'),
          (_T, 'Snowflake.Tie.Amp.chunksPerElement_tie'),
          (_T, 'Snowflake.Tie.Amp.chunksPerElement_formula'),
          (_T, 'Snowflake.Tie.Amp.isASCIIWhitespace_tie'),
          (_T, 'Snowflake.Tie.Amp.newArmorEncoder_order'),
          (_T, 'Snowflake.Tie.Amp.armorEncoder_write_close_order'),
          (_T, 'Snowflake.Tie.Amp.elementEncoder_order'),
          (_T, 'Snowflake.Tie.Amp.decodeToWriter_shape'),
          (_T, 'Snowflake.Tie.Amp.newArmorDecoder_shape')],
 'harness': {'pkg': 'common/amp', 'test': 'TestVerifC10'},
 'overlay': {'common/amp/zz_verif_c10_test.go': 'c10_amp_test.go'},
 'rule': 'cases = bytes for isASCIIWhitespace; byte strings through encoding/base64 (4 encodings; one-shot, streaming '
         'encoder writes, streaming decoder over chunked sources with read-size scripts: valid, mutated, concatenated, '
         'truncated, newline-laced); payloads (sizes straddling 3-byte groups, 32-byte words, the 992-word element '
         'boundary, 0 … >100 kB) through the real NewArmorEncoder in one write, all chunkings (≤7 bytes) and random '
         'chunkings; their armor through the real NewArmorDecoder whole, through scripted fragmenting readers, with read '
         'sizes 1…32768, re-separated with random ASCII whitespace, with outside-markup insertions from the token '
         'grammar; a table of 57 malformed documents; mutated armor; random bytes / token soup. Real token streams of '
         'x/net/html are compared with the model tokenizer. non-trivial = every case except empty inputs; distinct = '
         'distinct (class, case line)',
 'level_text': 'Kernel-checked theorems over a model of the real encoder chain and of the real decoder pipeline '
               '(x/net/html tokenizer as a byte transducer with the maxBuf rule, active flag, whitespace splitter, '
               'io.Pipe, version byte, streaming base64 decoder with explicit read sizes): write-chunking independence, '
               'shape, round trip for all payloads and all positive read sizes, invariance under any ASCII-whitespace '
               're-separation and under insertion of complete non-pre markup outside the pre elements, and the error '
               'classes. Constants, boilerplate, isASCIIWhitespace and the statement order of encoder/decoder are '
               'regenerated from the source and tied; the model agrees with the real code on every generated case.',
 'level_note': 'proof-partial: not theorems — (1) independence of the real tokenizer from how its io.Reader fragments the '
               'document (the model consumes a byte list; differential + oracle only); (2) totality / no hang / bounded '
               'buffering of the real decoder on arbitrary bytes (model functions are total by construction; real code '
               'checked for return, recover, deadline, output ≤ input); (3) entity unescaping (&…;) in text is outside '
               'the tokenizer model — documents containing & are checked by the oracles only; (4) "bad base64 ⇒ error" is a '
               'theorem for every byte outside the alphabet; truncated text and misplaced padding are evaluated instances '
               "only (Go's streaming decoder accepts padding in the middle depending on read boundaries: "
               'stream_padding_quirk). '
               'Trusted: hand-written models of encoding/base64 (go1.23.5), golang.org/x/net/html token.go '
               '(v0.0.0-20220425223048), bufio.Scanner and io.Pipe, validated differentially.',
 'design_ref': 'DESIGN.md §5.10',
 'trusted': ['Go stdlib / x/net modelled by hand: encoding/base64 encoder+decoder (streaming Read loop, newline filter), '
             'golang.org/x/net/html Tokenizer (token.go), bufio.Scanner with splitASCIIWhitespace, io.Pipe delivery of one '
             'Write per Read'],
 'assumptions': ['the document reader obeys the io.Reader contract; the caller reads the decoder with non-empty buffers']}

SPEC['rule'] += (' Added after the seeded-change rounds: ' +
    'Every case is evaluated twice, in different orders and interleaved with other documents (vh.Independent: encoder and decoder results depend on the input alone, no state survives between calls).')

SPEC['thorough_passes'] = 5  # the thorough tier runs the whole harness under this many consecutive seeds
