"""Registry entry for C11 (see tools/registry.py)."""

_P = 'Snowflake.Props.C11'
_T = 'Snowflake.Tie.AmpPath'
_N = 'Snowflake.AmpPath.C11.'

SPEC = {'id': 'C11',
 'modules': [_P, _T],
 'theorems': [(_P, _N + 'path_roundtrip'),
              (_P, _N + 'encodePath_decodePath'),
              (_P, _N + 'encodePath_data_unambiguous'),
              (_P, _N + 'path_errors'),
              (_P, _N + 'amp_endpoint'),
              (_P, _N + 'amp_equals_post'),
              (_P, _N + 'amp_undecodable'),
              (_P, _N + 'cache_url_guards'),
              (_P, _N + 'cache_url_shape'),
              (_P, _N + 'cache_url_path'),
              (_P, _N + 'cache_url_dotdot_escapes'),
              (_P, _N + 'domain_prefix_label'),
              (_P, _N + 'domain_prefix_basic_ascii'),
              (_P, 'Snowflake.AmpPath.prefixMid_not_ace'),
              (_P, 'Snowflake.AmpPath.pathJoin_normal'),
              (_P, _N + 'fronting'),
              (_P, _N + 'limit_read'),
              (_P, _N + 'limit'),
              (_P, _N + 'limit_amp'),
              (_P, 'Snowflake.Base64.rawUrl_no_slash_plus'),
              (_P, 'Snowflake.Amp.C10.roundtrip')],
 'ties': [(_T, 'Snowflake.Tie.AmpPath.clientReadLimit_tie'),
          (_T, 'Snowflake.Tie.AmpPath.brokerReadLimit_tie'),
          (_T, 'Snowflake.Tie.AmpPath.path_shape'),
          (_T, 'Snowflake.Tie.AmpPath.ampClientOffers_shape'),
          (_T, 'Snowflake.Tie.AmpPath.clientOffers_shape'),
          (_T, 'Snowflake.Tie.AmpPath.cacheURL_shape'),
          (_T, 'Snowflake.Tie.AmpPath.exchange_shape'),
          (_T, 'Snowflake.Tie.AmpPath.negotiate_drops_data_on_error')],
 'harness': [{'pkg': 'common/amp', 'test': 'TestVerifC11Amp'},
             {'pkg': 'broker', 'test': 'TestVerifC11Broker'},
             {'pkg': 'client/lib', 'test': 'TestVerifC11Client', 'checklinkname': True}],
 'overlay': {'common/amp/zz_verif_c11_test.go': 'c11_amp_test.go',
             'broker/zz_verif_c11_test.go': 'c11_broker_test.go',
             'client/lib/zz_verif_c11_test.go': 'c11_client_test.go'},
 'rule': 'cases = (data, padding) pairs through the real EncodePath/DecodePath (arbitrary padding incl. slashes, '
         'malformed table, random paths); strings through url.PathEscape / path.Clean / path.Join; domains (ASCII with '
         'hyphens at positions 3-4, >63-byte results, xn-- labels valid and invalid, IDN, random bytes) through the real '
         'domainPrefixBasic/Fallback/domainPrefix with idna results as parameters; publisher/cache URL pairs parsed by '
         "Go's url.Parse through the real CacheURL; poll bodies (valid polls with all NAT/fingerprint variants, malformed, "
         'sizes around readLimit, legacy) through the real clientOffers and ampClientOffers of an in-package broker with '
         'empty pool and with a scripted answering proxy; real Exchange of both rendezvous methods against a loopback '
         'server with a recording dialler: statuses, Location header, body/armor sizes 99 999…100 002 and beyond, '
         'fronts, caches. non-trivial = every case except empty inputs / unparsable URLs; distinct = distinct (class, case line)'
         ' Decoded polls are kept and re-checked after later decodes and 8 goroutines run 300 encode/decode round trips each (results are values of their own); AMP requests also arrive with RFC 3986-equivalent percent-encoded targets parsed like net/http.',
 'level_text': 'Kernel-checked theorems over models of path.go, cache.go, the broker AMP endpoint next to the POST '
               'endpoint (poll handler as a parameter function) and the client response handling: path round trip for '
               'every padding (uses: base64url output has no slash), path error classes, AMP endpoint = armor of what '
               'POST returns (composed with the C10 round trip), cache URL guards / fields / literal path for normal '
               'components, domain prefix is a dot-free label ≤ 63 bytes (basic else 52-character fallback), fronting, '
               'status and size limits with no use of truncated data. Constants and the statement order of all seven '
               'functions are regenerated and tied; real code agrees with the model and satisfies the oracles.',
 'level_note': 'proof-partial: net/url parsing and serialisation, SHA-256, x/net/idna outside ASCII (results are '
               'parameters; the identity assumption on ASCII is checked on the real idna for every generated domain), '
               'net/http transport (fronting and request shape are observed on the real client, the model only restates '
               'the two assignments) and the broker poll handler (parameter function; the real handlers are compared '
               'in-package) are not modelled. The AMP endpoint has no counterpart of the POST read limit and no legacy '
               'shim: amp_equals_post is stated for polls within readLimit that do not start with "{".',
 'design_ref': 'DESIGN.md §5.11',
 'trusted': ['Go stdlib modelled by hand: strings.LastIndexByte, path.Join/Clean, url.PathEscape, net.JoinHostPort, '
             'encoding/base32, io.LimitedReader+ReadAll; net/url, x/net/idna (non-ASCII), crypto/sha256, net/http as '
             'inputs/parameters'],
 'assumptions': ["net/url.Parse's components are what the HTTP client will use; idna.ToASCII returns a dot-free label "
                 'for a dot-free input (IDN domains only)']}

SPEC['rule'] += (' Added after the seeded-change rounds: ' +
    'Decodes kept alive and run concurrently (results depend on the input alone); multi-label IDN domains around the 63-byte label limit; the Host header is compared after the AMP-cache rewrite; the size bound is applied to the decoded body, not to the encoded path.')

SPEC['thorough_passes'] = 6  # the thorough tier runs the whole harness under this many consecutive seeds

SPEC['rule'] += (' ' +
    'Added after rounds four and five: transports whose first attempts fail below HTTP (every attempt made must go to the front); fronts that answer 301/302/307 with a Location (reported as non-200, the target is never contacted); fixed domains with Punycode labels in every position and an independent re-statement of the basic prefix algorithm; conditional and range headers on AMP GET requests.')
