"""Registry entry for C15 (see tools/registry.py)."""

_P = 'Snowflake.Props.C15'
_T = 'Snowflake.Tie.ClientLib'
_N = 'Snowflake.Peers.C15.'
_TN = 'Snowflake.Tie.ClientLib.'

SPEC = {'id': 'C15',
 'modules': [_P, _T],
 'theorems': [(_P, _N + n) for n in [
     'live_peers_le_max', 'every_live_peer_is_held', 'catch_only_below_max',
     'pop_never_returns_closed_at_handover',
     'end_returns', 'end_closes_all', 'no_collect_after_end', 'no_catch_started_after_end',
     'connect_loop_can_stop', 'no_panic', 'end_idempotent',
     'failed_catch_is_error', 'failed_catch_releases_lock',
     # kernel-checked refutations for the pinned skeleton (F8, F9, F10) and the repaired counterparts
     'pinned_end_twice_panics', 'fixed_end_twice_ok', 'pinned_no_panic_fails',
     'pinned_f9_reaches_stuck', 'pinned_end_blocked_forever', 'pinned_end_returns_fails', 'fixed_f9_end_returns',
     'pinned_bad_ice_panics', 'fixed_bad_ice_is_error', 'pinned_failed_catch_is_error_fails', 'each_fix_needed']],
 'ties': [(_T, _TN + n) for n in [
     'chan_capacity_is_max', 'collect_lock_scope', 'collect_order', 'collect_handover_selects_on_melt',
     'pop_skips_closed', 'purge_removes_only_closed', 'end_once_guarded', 'end_body_order',
     'connectLoop_shape', 'close_calls_end', 'connect_checks_error_first', 'connect_failures_return',
     'peer_close_once']],
 'harness': [{'pkg': 'client/lib', 'test': 'TestVerifC15$', 'checklinkname': True},
             {'pkg': 'client', 'test': 'TestVerifC15Binary$', 'checklinkname': True, 'timeout': '10m'}],
 'parallel': 2,
 'overlay': {'client/lib/zz_verif_c15_test.go': 'c15_clientlib_test.go',
             'client/zz_verif_c15_test.go': 'c15_client_binary_test.go'},
 'rule': 'binary level (oracle-only): the real client binary run as a managed transport with an unreachable broker, '
         'hand-made SOCKS5 connections with pt arguments, -ice absent / blank / trailing comma / garbage and ice= SOCKS '
         'arguments, SIGTERM or stdin close with and without a SOCKS connection still open: the process must stay alive '
         'under failing rendezvous and exit within 25 s of the shutdown request; '
         'cases = sequential scripts over collect | pop | closePeer i | end | count (max 1..4, 3-13 ops, scripted Catch '
         'outcomes; fixed scripts for End twice and for stale spares with max 2..4) run on the real Peers with a '
         'scripted Tongue, every op in its own goroutine with a deadline (outcomes ok/err/blocked/panic, late '
         'completions attributed to the op that released them); concurrent templates (End during an in-flight Catch, '
         'two concurrent End calls, the real connectLoop stopped by End, SnowflakeConn.Close twice after the real '
         'Transport.Dial); NewWebRTCPeerWithEvents and Collect through the real WebRTCDialer for generated ICE '
         'configurations (client default, garbage, unreachable STUN, none) and stub rendezvous methods (unreachable, '
         'garbage, refusal, four malformed answers, a live pion answerer); every case is non-trivial; distinct = '
         'distinct (class, case line)',
 'level_text': 'All clauses are kernel-checked theorems over an interleaving model of Peers (any number of Collect / '
               'connectLoop, Pop and End goroutines, peers closing on their own, every outcome of peer construction): '
               'live peers never exceed max; Pop never hands over a peer that was closed at the hand-over check; in '
               'every reachable state a pending End has an explicit schedule of at most 6 steps of itself, the Once '
               'runner and the lock holder - no Pop, at most the one Catch in flight, for every outcome of that Catch - '
               'after which it has returned; after End everything is closed and no Catch is ever started again; a '
               'second End returns; no panic is reachable; every failing step of peer construction is an error. The '
               'three clauses that are false on the pinned tree (F8 End twice, F9 Collect blocked on the full channel '
               'holding the lock, F10 nil dereference on an unusable ICE configuration) are refuted for the pinned '
               'skeleton by kernel-checked schedules (F9: no Pop-free continuation of any length ever lets End return) '
               'and proved for the repaired one; 13 regenerated skeleton obligations tie the labels to the source; the '
               'real code is run against the model and the property oracle.',
 'level_note': 'proof-partial. Trusted / modelled, not verified: Go channel, mutex (FIFO hand-over is used only by the '
               'sequential-script driver) and sync.Once semantics; lock-protected sections as atomic labels (purge reads '
               'all closed flags at one instant - closing is monotone and commutes); end_returns is possibility of '
               'progress in every reachable state (an explicit enabled schedule), termination additionally needs a fair '
               'scheduler/mutex; pion internals (what makes NewPeerConnection fail, data-channel timing, Close of a '
               'PeerConnection not blocking) enter as the environment outcome of Catch; a malformed answer whose JSON '
               'members have the wrong type is C13 (F6) and is not fed here; the binary-level clauses are oracle-only: the real client binary is run as a managed transport '
               '(liveness under failing rendezvous, exit within a bound after SIGTERM / stdin close, also with a SOCKS connection open); that polling stops after a SOCKS close is observed in-process on the real SnowflakeConn (Close after the session / stream died, Melted() checked), not on the binary.',
 'design_ref': 'DESIGN.md §5.15',
 'trusted': ['Go runtime modelled: channels (buffered send/receive, close, receive from closed channel drains the buffer first), '
             'sync.Mutex, sync.Once, select',
             'pion/webrtc v3: NewPeerConnection validates ICE URLs; its result classifies the environment outcome of Catch'],
 'assumptions': ['timers eventually fire (time is abstracted: the reconnect timer arm is always enabled)',
                 'WebRTCPeer.Close does not block (pion PeerConnection.Close / DataChannel.Close return)']}

SPEC['thorough_passes'] = 5  # the thorough tier runs the whole harness under this many consecutive seeds

SPEC['rule'] += (' ' +
    "Added after rounds four and five: End() while a rendezvous exchange is in flight that then fails with one of seven error classes (no further exchange may follow); half of the ICE cases use the constructors without an event receiver; a broker that accepts the poll and never answers (child process with the real rendezvous method and transport: Close returns at the transport's 15 s response-header timeout); more blank -ice entries in the binary test.")
