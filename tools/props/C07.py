"""Registry entry for C07 (see tools/registry.py).

If fix-c07-f4.diff is NOT applied (F4 recorded as a known finding instead): drop the modules
Snowflake.Props.C07Full and Snowflake.Tie.SafelogF4 and their four obligations from this entry and add
  known: property=C07 key=leak:ipv6-7-groups-beside-dcolon <text>
to known_findings.txt (see REPORT.md).
"""

SPEC = {'id': 'C07',
 'modules': ['Snowflake.Props.C07',
             'Snowflake.Props.C07Full',
             'Snowflake.Tie.Safelog',
             'Snowflake.Tie.SafelogF4',
             'Snowflake.Proofs.Rx',
             'Snowflake.Proofs.Safelog',
             'Snowflake.Proofs.SafelogCoverage'],
 'theorems': [('Snowflake.Props.C07', 'Snowflake.Safelog.C07.find_complete'),
              ('Snowflake.Props.C07', 'Snowflake.Safelog.C07.scrub_clean'),
              ('Snowflake.Props.C07', 'Snowflake.Safelog.C07.scrub_pass_decreases'),
              ('Snowflake.Props.C07', 'Snowflake.Safelog.C07.scrub_leaves_clean_text'),
              ('Snowflake.Props.C07', 'Snowflake.Safelog.C07.scrub_idempotent'),
              ('Snowflake.Props.C07', 'Snowflake.Safelog.C07.split_independent'),
              ('Snowflake.Props.C07', "Snowflake.Safelog.C07.split_independent'"),
              ('Snowflake.Props.C07', 'Snowflake.Safelog.C07.scrub_keeps_final_newline'),
              ('Snowflake.Props.C07', 'Snowflake.Safelog.C07.only_complete_lines'),
              ('Snowflake.Props.C07', 'Snowflake.Safelog.C07.coverage_partial'),
              ('Snowflake.Props.C07', 'Snowflake.Safelog.C07.coverage_ipv4'),
              ('Snowflake.Props.C07', 'Snowflake.Safelog.C07.coverage_ipv6_full'),
              ('Snowflake.Props.C07', 'Snowflake.Safelog.C07.coverage_ipv6_compressed_le6'),
              ('Snowflake.Props.C07', 'Snowflake.Safelog.C07.coverage_ipv6_embedded4'),
              ('Snowflake.Props.C07', 'Snowflake.Safelog.C07.scrub_clean_go_partial'),
              ('Snowflake.Props.C07', 'Snowflake.Safelog.C07.coverage_pinned_pattern_partial'),
              ('Snowflake.Props.C07', 'Snowflake.Safelog.C07.seven_groups_is_go_address'),
              ('Snowflake.Props.C07', 'Snowflake.Safelog.C07.pinned_pattern_misses_seven_groups'),
              ('Snowflake.Props.C07', 'Snowflake.Safelog.C07.pinned_pattern_leaks_seven_groups'),
              ('Snowflake.Props.C07', 'Snowflake.Safelog.C07.pinned_second_address_survives'),
              ('Snowflake.Props.C07', 'Snowflake.Safelog.C07.pinned_consecutive_lines_leak'),
              ('Snowflake.Props.C07', 'Snowflake.Safelog.C07.pinned_split_dependent'),
              ('Snowflake.Props.C07', 'Snowflake.Safelog.C07.repeating_alone_is_split_dependent'),
              ('Snowflake.Props.C07Full', 'Snowflake.Safelog.C07.coverage'),
              ('Snowflake.Props.C07Full', 'Snowflake.Safelog.C07.coverage_ipv6_compressed'),
              ('Snowflake.Props.C07Full', 'Snowflake.Safelog.C07.scrub_clean_go'),
              ('Snowflake.Proofs.Rx', 'Snowflake.Rx.run_sound'),
              ('Snowflake.Proofs.Rx', 'Snowflake.Rx.run_complete'),
              ('Snowflake.Proofs.Rx', 'Snowflake.Rx.findFrom_sound'),
              ('Snowflake.Proofs.Rx', 'Snowflake.Rx.findFrom_complete'),
              ('Snowflake.Proofs.Rx', 'Snowflake.Rx.findFrom_none'),
              ('Snowflake.Proofs.Rx', 'Snowflake.Rx.findFrom_priority'),
              ('Snowflake.Proofs.Rx', 'Snowflake.Rx.tokensOf_replPieces'),
              ('Snowflake.Proofs.Rx', 'Snowflake.Rx.hits_replPieces'),
              ('Snowflake.Proofs.Rx', 'Snowflake.Rx.first_hit_replPieces'),
              ('Snowflake.Proofs.Rx', 'Snowflake.Rx.render_weight_lt'),
              ('Snowflake.Proofs.Rx', 'Snowflake.Rx.render_ends_nl'),
              ('Snowflake.Proofs.Rx', 'Snowflake.Rx.minWeight_sound'),
              ('Snowflake.Proofs.Rx', 'Snowflake.Rx.anchorFree_frame'),
              ('Snowflake.Proofs.Rx', 'Snowflake.Rx.avoids_sound'),
              ('Snowflake.Proofs.Rx', 'Snowflake.Rx.matches_eraseCaps_iff'),
              ('Snowflake.Proofs.Rx', 'Snowflake.Rx.matches_iff_factors'),
              ('Snowflake.Proofs.Rx', 'Snowflake.Rx.matches_sandwich'),
              ('Snowflake.Proofs.Rx', 'Snowflake.Rx.bytesOf_decode'),
              ('Snowflake.Proofs.Rx', 'Snowflake.Rx.decode_wf'),
              ('Snowflake.Proofs.Rx', 'Snowflake.Rx.decode_segment'),
              ('Snowflake.Proofs.Rx', 'Snowflake.Rx.decode_snoc_nl'),
              ('Snowflake.Proofs.Safelog', 'Snowflake.Safelog.pass_lt'),
              ('Snowflake.Proofs.Safelog', 'Snowflake.Safelog.scrub_fixed_no_match'),
              ('Snowflake.Proofs.Safelog', 'Snowflake.Safelog.exposed_found'),
              ('Snowflake.Proofs.Safelog', 'Snowflake.Safelog.scrub_fixed_clean'),
              ('Snowflake.Proofs.Safelog', 'Snowflake.Safelog.scrub_fixed_keeps_nl'),
              ('Snowflake.Proofs.Safelog', 'Snowflake.Safelog.writes_fixed'),
              ('Snowflake.Proofs.SafelogCoverage', 'Snowflake.Safelog.L_rep'),
              ('Snowflake.Proofs.SafelogCoverage', 'Snowflake.Safelog.L_addr'),
              ('Snowflake.Proofs.SafelogCoverage', 'Snowflake.Safelog.L_addrGo')],
 'ties': [('Snowflake.Tie.Safelog', 'Snowflake.Tie.Safelog.compiled_patterns'),
          ('Snowflake.Tie.Safelog', 'Snowflake.Tie.Safelog.full_is_delim_addr_delim'),
          ('Snowflake.Tie.Safelog', 'Snowflake.Tie.Safelog.address_anchor_free'),
          ('Snowflake.Tie.Safelog', 'Snowflake.Tie.Safelog.address_heavy'),
          ('Snowflake.Tie.Safelog', 'Snowflake.Tie.Safelog.address_avoids_newline'),
          ('Snowflake.Tie.Safelog', 'Snowflake.Tie.Safelog.address_shape'),
          ('Snowflake.Tie.Safelog', 'Snowflake.Tie.Safelog.scrub_skeleton'),
          ('Snowflake.Tie.Safelog', 'Snowflake.Tie.Safelog.write_skeleton'),
          ('Snowflake.Tie.SafelogF4', 'Snowflake.Tie.Safelog.compressed_covers_seven_groups')],
 'harness': {'pkg': 'common/safelog', 'test': 'TestVerifC07'},
 'overlay': {'common/safelog/zz_verif_c07_test.go': 'c07_safelog_test.go'},
 'rule': 'cases = (a) (pattern, text) pairs for the matcher model: the seven safelog patterns/sub-patterns on '
         'address-like texts and random small patterns (classes, anchors, (?m), repeats, alternation, empty matches, '
         'invalid UTF-8) through regexp.FindIndex/ReplaceAll; (b) single log lines and multi-line blocks through the '
         'real Scrub: 0..5 addresses per line from a grammar covering IPv4, 8 groups, every group count 0..8 on either '
         "side of '::', IPv4-embedded, net.IP.String output, brackets, ports 0..65535, zones, between delimiters of "
         'every class (BOL/EOL, each ASCII whitespace, punctuation incl. : [ ] % = , ", \':\'+space, \'_\', multi-byte '
         'runes, invalid UTF-8, none) inside log-like text (timestamps, fingerprints, URLs, glued tokens); (c) streams '
         'of 1..4 lines (+ unterminated tail, CRLF) under random splittings into Write calls incl. empty writes and '
         'cuts inside runes, compared with the line-by-line and the one-write splitting; (d) 2..5 concurrent writers '
         'of complete lines (output as a multiset of lines). non-trivial = at least one address / every matcher and '
         'writer case; distinct = distinct (class, canonical case line)',
 'level_text': 'For every byte string (any number of addresses, any separators, valid UTF-8 or not) the repaired Scrub '
               'leaves no member of the language of the regenerated addressPattern between admissible delimiters '
               "(scrub_clean), hence no address in any spelling Go's net package prints or accepts (coverage, "
               'scrub_clean_go; independent grammar AddrGo); its loop terminates because every pass lowers '
               "2*dots+3*colons; the line-wise writer's output is, for every splitting of the stream into writes, the "
               'scrubbed complete lines of the stream, each ending in a newline, with exactly the bytes after the last '
               'newline held back (split_independent, only_complete_lines). All are kernel-checked theorems over a '
               "model of regexp's leftmost-first matching and ReplaceAll loop that is proved sound and complete w.r.t. "
               "a denotation; the two regular expressions are regenerated from the source by Go's own regexp/syntax "
               'parser and enter the theorems through decide+kernel evaluations of structural analyses. Real regexp, '
               'Scrub and LogScrubber are run against the compiled model and against an independent exposed-address '
               'detector (net.ParseIP on every delimiter-bounded substring of the emitted text).',
 'level_note': "proof-partial. Trusted/modelled, not verified: Go's regexp engine (RE2 leftmost-first = priority "
               "backtracking on code points, ReplaceAll's loop) is hand-modelled in Base/Rx.lean and validated "
               'differentially (0 disagreements on >10^5 (pattern, text) pairs in the thorough tier), not proved; '
               'star/plus over a body that can match the empty string is refused by the translator for plus and '
               "modelled by Go's compiled form for star; sync.Mutex serialisation of concurrent Write calls and "
               'Output.Write errors are not modelled (concurrent writers are checked differentially as a multiset of '
               "lines; the lock is a skeleton tie). AddrGo is a hand-written grammar of net.ParseIP's accepted "
               "spellings (zones excluded by design of the pattern: the '%zone' suffix survives). A stranded ':port' "
               "or ':group' next to a placeholder is not an address and is not claimed. The oracle treats '_' as an "
               'identifier character (\\w), as the code does.',
 'design_ref': 'DESIGN.md §5.7',
 'trusted': ['Go stdlib modelled: regexp (leftmost-first matching on UTF-8 decoded []byte, ReplaceAll/ReplaceAllFunc '
             'loop, Match), utf8.DecodeRune, bytes.IndexByte; net.ParseIP is used by the oracle only'],
 'assumptions': ["regexp's leftmost-first semantics equals priority backtracking for the supported syntax (documented "
                 'RE2 guarantee; validated differentially)',
                 'LogScrubber.Output.Write does not fail (the error path keeps the buffer and is outside the model)']}

SPEC['rule'] += (' Added after the seeded-change rounds: ' +
    'Lines of every length up to 1 MiB without a newline (nothing may be emitted before the newline; the pending buffer is unbounded in the source); Scrub as the first call of a fresh process (child process re-executing the test binary: the result must not depend on earlier use); every case is also evaluated twice in different orders (vh.Independent: the result depends on the input alone).')
