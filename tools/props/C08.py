"""Registry entry for C08 (see tools/registry.py)."""

_P = 'Snowflake.Props.C08'
_T = 'Snowflake.Tie.Util'
_N = 'Snowflake.Util.C08.'

SPEC = {'id': 'C08',
 'modules': [_P, _T],
 'theorems': [(_P, _N + 'isLocal_spec'),
              (_P, _N + 'isLocal_spec_v4'),
              (_P, _N + 'isLocal_spec_mapped'),
              (_P, _N + 'isLocal_spec_v6'),
              (_P, _N + 'isLocal_other_len'),
              (_P, _N + 'isLoopback_spec'),
              (_P, _N + 'bad_iff'),
              (_P, _N + 'stripLoop_eq'),
              (_P, _N + 'strip_removes_all'),
              (_P, _N + 'strip_removes_only'),
              (_P, _N + 'strip_keeps_others'),
              (_P, _N + 'strip_sublist'),
              (_P, _N + 'strip_idempotent'),
              (_P, _N + 'strip_survivor_not_local'),
              (_P, _N + 'stripSdp_untouched'),
              (_P, _N + 'stripSdp_attrs'),
              (_P, _N + 'stripSdp_removes_all'),
              (_P, _N + 'stripSdp_idempotent')],
 'ties': [(_T, 'Snowflake.Tie.Util.isLocal_tie'),
          (_T, 'Snowflake.Tie.Util.strip_listing')],
 'harness': [{'pkg': 'common/util', 'test': 'TestVerifC08Util', 'checklinkname': True}],
 'overlay': {'common/util/zz_verif_c08_test.go': 'c08_util_test.go'},
 'rule': 'cases = byte slices through the real util.IsLocal (every first octet x boundary second octets in 4-byte and '
         'IPv4-mapped form, every range boundary +-1 as 32-bit value, every first byte of an IPv6 address, random '
         'slices of length 0..32) and SDP texts through the real StripLocalAddresses (pion-canonical descriptions with '
         '0..4 media sections, 0..12 candidates per section of all four types, IPv4 / IPv6 / IPv4-mapped addresses on '
         'and around every boundary, .local names, malformed candidate lines, session-level candidates; plus a '
         'malformed stream of mutated / truncated / random inputs). One strip case = one description; the model gets '
         "pion's per-attribute facts (candidate? parses? host? address text) and must predict the surviving "
         'attribute indices. non-trivial = IsLocal true / at least one candidate removed; distinct = distinct (class, case)',
 'level_text': 'isLocal_spec (IsLocal holds exactly on 10/8, 172.16/12, 192.168/16, 100.64/10, 169.254/16 in 4-byte and '
               'IPv4-mapped form and on fc00::/7 otherwise, all boundaries inside the quantifier) is a theorem about a '
               'model that is proved equal to the definition translated from util.IsLocal. The filter loop of '
               'StripLocalAddresses, modelled with its nested guards, is proved to remove exactly the attributes that '
               'are (ICE candidate, parses, type host, address parses to a local / unspecified / loopback IP) and '
               'nothing else, order preserved, idempotent, all other parts of the description untouched - over an '
               "abstract attribute list where pion's verdict about an attribute is a parameter.",
 'level_note': "partial: pion/sdp's Unmarshal/Marshal and ice.UnmarshalCandidate are not modelled (they enter as the "
               "parameter `view` and the harness's use of pion); that Unmarshal;Marshal is the identity on the rest of "
               "the description and 'no input makes the stripping step panic' are differential evidence only (malformed "
               'stream under recover), not theorems. Session-level a=candidate lines are not filtered by the code (pion '
               'never emits them); recorded, not judged. Trusted: Lean kernel; translator (IsLocal); the hand-written '
               'model of net.ParseIP / IP.To4 / IsUnspecified / IsLoopback (shared with C18).',
 'level_category': 'proof-partial',
 'design_ref': 'DESIGN.md §5.8',
 'trusted': ['pion/sdp v3.0.5 Unmarshal/Marshal and pion/ice v2.2.6 UnmarshalCandidate (not modelled; their verdicts are inputs)',
             'Go stdlib modelled by hand: net.ParseIP, IP.To4, IP.IsUnspecified, IP.IsLoopback'],
 'assumptions': ['descriptions handed to StripLocalAddresses carry ICE candidates only as media-level attributes (as pion emits them)']}
