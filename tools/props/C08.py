"""Registry entry for C08 (see tools/registry.py)."""

_P = 'Snowflake.Props.C08'
_T = 'Snowflake.Tie.Util'
_TC = 'Snowflake.Tie.StripAppliedClient'
_TP = 'Snowflake.Tie.StripAppliedProxy'
_N = 'Snowflake.Util.C08.'

SPEC = {'id': 'C08',
 'modules': [_P, _T, _TC, _TP],
 'theorems': [(_P, _N + 'isLocal_spec'),
              (_P, _N + 'isLocal_spec_v4'),
              (_P, _N + 'isLocal_spec_mapped'),
              (_P, _N + 'isLocal_spec_v6'),
              (_P, _N + 'isLocal_other_len'),
              (_P, _N + 'isLoopback_spec'),
              (_P, _N + 'bad_iff'),
              (_P, _N + 'stripLoop_eq'),
              (_P, _N + 'strip_removes_all'),
              (_P, _N + 'strip_removes_only'),
              (_P, _N + 'strip_keeps_others'),
              (_P, _N + 'strip_sublist'),
              (_P, _N + 'strip_idempotent'),
              (_P, _N + 'strip_append'),
              (_P, _N + 'strip_unchanged_iff'),
              (_P, _N + 'strip_count'),
              (_P, _N + 'strip_survivor_not_local'),
              (_P, _N + 'stripSdp_untouched'),
              (_P, _N + 'stripSdp_attrs'),
              (_P, _N + 'stripSdp_removes_all'),
              (_P, _N + 'stripSdp_idempotent'),
              (_P, _N + 'leaves_eq'),
              (_P, _N + 'leaves_kept'),
              (_P, _N + 'leaves_no_local'),
              (_P, _N + 'leaves_survivor_not_local'),
              (_P, _N + 'leaves_preserves'),
              (_P, _N + 'leaves_all_local'),
              (_P, _N + 'sent_description_spec')],
 'ties': [(_T, 'Snowflake.Tie.Util.isLocal_tie'),
          (_T, 'Snowflake.Tie.Util.strip_listing'),
          (_TC, _TC + '.negotiate_strips_under_flag'),
          (_TC, _TC + '.negotiate_sends_serialised'),
          (_TP, _TP + '.sendAnswer_strips_under_flag'),
          (_TP, _TP + '.sendAnswer_sends_serialised')],
 'harness': [{'pkg': 'common/util', 'test': 'TestVerifC08Util', 'checklinkname': True},
             {'pkg': 'client/lib', 'test': 'TestVerifC08Client$', 'checklinkname': True},
             {'pkg': 'proxy/lib', 'test': 'TestVerifC08Proxy$', 'checklinkname': True}],
 'overlay': {'common/util/zz_verif_c08_test.go': 'c08_util_test.go',
             'client/lib/zz_verif_c08_test.go': 'c08_clientlib_test.go',
             'proxy/lib/zz_verif_c08_test.go': 'c08_proxylib_test.go',
             'common/zzverif/c08sent.go': 'vh/c08sent.go'},
 'rule': 'cases = byte slices through the real util.IsLocal (every first octet x boundary second octets in 4-byte and '
         'IPv4-mapped form, every range boundary +-1 as 32-bit value, every first byte of an IPv6 address, random '
         'slices of length 0..32) and SDP texts through the real StripLocalAddresses (pion-canonical descriptions with '
         '0..4 media sections, 0..12 candidates per section of all four types, IPv4 / IPv6 / IPv4-mapped addresses on '
         'and around every boundary, .local names, malformed candidate lines, session-level candidates; plus a '
         'malformed stream of mutated / truncated / random inputs). One strip case = one description; the model gets '
         "pion's per-attribute facts (candidate? parses? host? address text) and must predict the surviving "
         'attribute indices. Sent description (last clause): the real (*BrokerChannel).Negotiate with a recording '
         'RendezvousMethod on generated offers (all candidates local host / all public / mixed / local addresses only on '
         'srflx-prflx-relay / no candidates / no media / malformed candidate lines; mutated and non-SDP strings; every '
         'local kind alone) and the real (*SignalingServer).sendAnswer against an httptest broker with real pion '
         'PeerConnections (machine interfaces, host candidates rewritten by SetNAT1To1IPs, pion vnet with generated '
         'static addresses), each for keepLocalAddresses false and true; one case = one call; the model (Util.leaves) '
         'gets the flag and the same per-attribute facts. non-trivial = IsLocal true / at least one candidate removed '
         '(or, for the sent description, at least one local host candidate in the input); distinct = distinct (class, case)',
 'level_text': 'isLocal_spec (IsLocal holds exactly on 10/8, 172.16/12, 192.168/16, 100.64/10, 169.254/16 in 4-byte and '
               'IPv4-mapped form and on fc00::/7 otherwise, all boundaries inside the quantifier) is a theorem about a '
               'model that is proved equal to the definition translated from util.IsLocal. The filter loop of '
               'StripLocalAddresses, modelled with its nested guards, is proved to remove exactly the attributes that '
               'are (ICE candidate, parses, type host, address parses to a local / unspecified / loopback IP) and '
               'nothing else, order preserved, idempotent, all other parts of the description untouched - over an '
               "abstract attribute list where pion's verdict about an attribute is a parameter. Applied before it leaves the "
               'process: sent_description_spec composes `leaves keep d = if keep then d else strip d` with those theorems '
               '(no local host candidate is sent unless kept; type, session part, media sections, every other attribute '
               'preserved in order; leaves_all_local: no fall-back to the unstripped description when every candidate is '
               'stripped). That Negotiate and sendAnswer compute `leaves` is tied by data-flow facts regenerated from the '
               'source (every statement mentioning the flag, the description variable, the serialised string, the encoded '
               'request and the transport is listed: the guard is exactly the negated flag, top level, no else; its body is '
               'the reassignment to the literal with SDP: util.StripLocalAddresses(x.SDP); that variable alone reaches '
               'SerializeSessionDescription, whose result alone reaches the poll / answer request and the one '
               "Exchange / Post) and by running the two real functions against the model and the oracle.",
 'level_note': "partial: pion/sdp's Unmarshal/Marshal and ice.UnmarshalCandidate are not modelled (they enter as the "
               "parameter `view` and the harness's use of pion); that Unmarshal;Marshal is the identity on the rest of "
               "the description and 'no input makes the stripping step panic' are differential evidence only (malformed "
               'stream under recover), not theorems. Session-level a=candidate lines are not filtered by the code (pion '
               'never emits them); recorded, not judged. The sender ties are statement-level facts about Negotiate and sendAnswer '
               'only: that no other function of client/lib or proxy/lib sends a description to the broker is not an obligation '
               "(the proxy's NAT probe, checkNATType, posts an unstripped offer to the probe server, not the broker: recorded, "
               'not judged). On the proxy side pion v3.1.41 cannot gather loopback / unspecified host candidates, so for '
               'sendAnswer these two kinds rest on the tie and the common/util harness; invalid UTF-8 in a description is '
               "altered by the JSON transport (C13) and exempt from the 'everything else preserved' oracle. Trusted: Lean kernel; "
               'translator (IsLocal; statement lists, identifier lists and signatures of the two senders); the hand-written '
               'model of net.ParseIP / IP.To4 / IsUnspecified / IsLoopback (shared with C18).',
 'level_category': 'proof-partial',
 'design_ref': 'DESIGN.md §5.8',
 'trusted': ['pion/sdp v3.0.5 Unmarshal/Marshal and pion/ice v2.2.6 UnmarshalCandidate (not modelled; their verdicts are inputs)',
             'pion/webrtc v3.1.41 + pion/transport vnet (proxy-side harness: source of real local descriptions)',
             'messages.DecodeClientPollRequest / DecodeAnswerRequest and util.DeserializeSessionDescription as the recording broker (C12, C13); plain encoding/json as fallback',
             'Go stdlib modelled by hand: net.ParseIP, IP.To4, IP.IsUnspecified, IP.IsLoopback'],
 'assumptions': ['descriptions handed to StripLocalAddresses carry ICE candidates only as media-level attributes (as pion emits them)']}

SPEC['thorough_passes'] = 4  # the thorough tier runs the whole harness under this many consecutive seeds
