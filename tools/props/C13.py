"""Registry entry for C13 (see tools/registry.py)."""

SPEC = {'id': 'C13',
 'modules': ['Snowflake.Props.C13', 'Snowflake.Tie.SessionDesc'],
 'theorems': [('Snowflake.Props.C13', 'Snowflake.SessionDesc.C13.sdp_roundtrip'),
              ('Snowflake.Props.C13', 'Snowflake.SessionDesc.C13.roundtrip_items'),
              ('Snowflake.Props.C13', 'Snowflake.SessionDesc.C13.serialize_injective'),
              ('Snowflake.Props.C13', 'Snowflake.SessionDesc.C13.sdp_roundtrip_bytes'),
              ('Snowflake.Props.C13', 'Snowflake.SessionDesc.C13.other_type_rejected'),
              ('Snowflake.Props.C13', 'Snowflake.SessionDesc.C13.deserialize_total'),
              ('Snowflake.Props.C13', 'Snowflake.SessionDesc.C13.deserialize_total_bytes'),
              ('Snowflake.Props.C13', 'Snowflake.SessionDesc.C13.repair_conservative'),
              ('Snowflake.Props.C13', 'Snowflake.SessionDesc.C13.repair_turns_panic_into_error'),
              ('Snowflake.Props.C13', 'Snowflake.SessionDesc.C13.pinned_panics_type_number'),
              ('Snowflake.Props.C13', 'Snowflake.SessionDesc.C13.pinned_panics_sdp_number'),
              ('Snowflake.Props.C13', 'Snowflake.SessionDesc.C13.pinned_panics_null_members'),
              ('Snowflake.Props.C13', 'Snowflake.SessionDesc.C13.pinned_not_total'),
              ('Snowflake.Proofs.Json', 'Snowflake.Json.parseStr_renderStr'),
              ('Snowflake.Proofs.Json', 'Snowflake.Json.parse_marshalObj'),
              ('Snowflake.Base.Utf8', 'Snowflake.Utf8.decodeLossy_encode')],
 'ties': [('Snowflake.Tie.SessionDesc', 'Snowflake.Tie.SessionDesc.asserts_tie'),
          ('Snowflake.Tie.SessionDesc', 'Snowflake.Tie.SessionDesc.asserts_checked_tie'),
          ('Snowflake.Tie.SessionDesc', 'Snowflake.Tie.SessionDesc.switch_tie'),
          ('Snowflake.Tie.SessionDesc', 'Snowflake.Tie.SessionDesc.typeOfName_name')],
 'harness': [{'pkg': 'common/util', 'test': 'TestVerifC13$', 'checklinkname': True}, {'pkg': 'proxy/lib', 'test': 'TestVerifC13Proxy$', 'checklinkname': True}, {'pkg': 'client/lib', 'test': 'TestVerifC13Client$', 'checklinkname': True}],
 'overlay': {'common/util/zz_verif_c13_test.go': 'c13_util_test.go', 'proxy/lib/zz_verif_c13_test.go': 'c13_proxylib_test.go', 'client/lib/zz_verif_c13_test.go': 'c13_clientlib_test.go',
             'common/zzverif/jsongen.go': 'vh/jsongen.go'},
 'rule': 'cases = JSON-shaped documents (object with present / absent / duplicated / re-spelled "type" and "sdp" '
         'members of every JSON type, extra members, whitespace), every JSON type at top level, deep nesting around '
         'the 10000 limit, numbers around the float64 overflow threshold, escapes and surrogates, invalid UTF-8, '
         'mutations / truncations / random bytes, and descriptions (type 0..6, SDP text of any content) through '
         'Serialize then Deserialize; a case is non-trivial when it is brace-delimited or does not end in an error '
         '(deserialise) / has a non-empty SDP (serialise); distinct = distinct (class, case line)'
         " Proxy side: connection lines at the RFC 4566 position and in media sections, complete / multicast / truncated after every field; the case distribution records which inputs pion's parser accepts; descriptions with several media sections and hundreds of attributes / candidates; SDP text containing fragments that look like JSON escapes (backslash-u003c and the like). Client side: SDP-shaped answers (with and without connection lines, candidates of every address class) handed to the real Negotiate path under both keepLocalAddresses settings.",
 'level_text': 'Round trip (four types, every SDP text, also on raw bytes) and totality of DeserializeSessionDescription '
               'are kernel-checked theorems over a model that follows util.go statement by statement on top of an '
               'executable model of encoding/json (scanner grammar, unquoting, map binding, float64 overflow, Marshal '
               'escaping); the JSON string/object round trip and the UTF-8 round trip are proved for all strings. The '
               'form of the two type assertions (single-value = panics, comma-ok = error) and the type-name switch are '
               'regenerated from the source and tied to the model; the real functions are run against the model and the '
               'oracle (never panics, round trip) on generated documents.',
 'level_note': 'proof-partial: the clause about extracting a peer address from SDP text (proxy/lib/webrtcconn.go '
               'remoteIPFromSDP) and the client side (Negotiate applied to a hostile answer) have no Lean model: pion parses the text, so they are '
               'decided by the oracle alone (never panics, the result is an address that occurs in the text) on the real functions in proxy/lib and client/lib. Trusted: Lean kernel; the '
               'hand-written model of Go 1.23.5 encoding/json, strconv.ParseFloat overflow and utf8.DecodeRune '
               '(validated differentially, not verified against their sources); pion SDPType.MarshalJSON read from '
               'v3.1.41; that these functions are the only ones applied to the remote string before pion is read, not '
               'proved.',
 'design_ref': 'DESIGN.md §5.13, §6 F6',
 'trusted': ['Go stdlib modelled: encoding/json (scanner, decode into map[string]interface{}, Marshal with HTML escaping), '
             'strconv.ParseFloat range error, unicode/utf8 DecodeRune/AppendRune; pion/webrtc SDPType.MarshalJSON'],
 'assumptions': ['int is 64 bits; DeserializeSessionDescription and remoteIPFromSDP are the only functions applied to the '
                 'untrusted string before pion']}

SPEC['thorough_passes'] = 5  # the thorough tier runs the whole harness under this many consecutive seeds
