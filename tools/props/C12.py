"""Registry entry for C12 (see tools/registry.py)."""

SPEC = {'id': 'C12',
 'modules': ['Snowflake.Props.C12', 'Snowflake.Tie.Messages'],
 'theorems': [('Snowflake.Props.C12', 'Snowflake.Messages.C12.proxy_poll_rt'),
              ('Snowflake.Props.C12', 'Snowflake.Messages.C12.proxy_poll_legacy_rt'),
              ('Snowflake.Props.C12', 'Snowflake.Messages.C12.proxy_poll_rt_bytes'),
              ('Snowflake.Props.C12', 'Snowflake.Messages.C12.rejects_extra_info_poll'),
              ('Snowflake.Props.C12', 'Snowflake.Messages.C12.poll_accepts_only_valid'),
              ('Snowflake.Props.C12', 'Snowflake.Messages.C12.poll_nat_is_a_name'),
              ('Snowflake.Props.C12', 'Snowflake.Messages.C12.rejects_poll'),
              ('Snowflake.Props.C12', 'Snowflake.Messages.C12.rejects_unmarshal_poll'),
              ('Snowflake.Props.C12', 'Snowflake.Messages.C12.rejects_absent_sid'),
              ('Snowflake.Props.C12', 'Snowflake.Messages.C12.proxy_poll_resp_match_rt'),
              ('Snowflake.Props.C12', 'Snowflake.Messages.C12.proxy_poll_resp_nomatch_rt'),
              ('Snowflake.Props.C12', 'Snowflake.Messages.C12.proxy_poll_resp_failure_rt'),
              ('Snowflake.Props.C12', 'Snowflake.Messages.C12.proxy_poll_resp_legacy_rt'),
              ('Snowflake.Props.C12', 'Snowflake.Messages.C12.rejects_extra_info_resp'),
              ('Snowflake.Props.C12', 'Snowflake.Messages.C12.pollresp_accepts_only_valid'),
              ('Snowflake.Props.C12', 'Snowflake.Messages.C12.rejects_pollresp'),
              ('Snowflake.Props.C12', 'Snowflake.Messages.C12.rejects_unmarshal_pollresp'),
              ('Snowflake.Props.C12', 'Snowflake.Messages.C12.answer_req_rt'),
              ('Snowflake.Props.C12', 'Snowflake.Messages.C12.answer_req_injective'),
              ('Snowflake.Props.C12', 'Snowflake.Messages.C12.client_resp_injective'),
              ('Snowflake.Props.C12', 'Snowflake.Messages.C12.poll_resp_match_injective'),
              ('Snowflake.Props.C12', 'Snowflake.Messages.C12.client_req_injective'),
              ('Snowflake.Props.C12', 'Snowflake.Messages.C12.answer_resp_injective'),
              ('Snowflake.Props.C12', 'Snowflake.Messages.C12.proxy_poll_injective'),
              ('Snowflake.Props.C12', 'Snowflake.Messages.C12.answer_req_accepts_only_valid'),
              ('Snowflake.Props.C12', 'Snowflake.Messages.C12.rejects_answer_req'),
              ('Snowflake.Props.C12', 'Snowflake.Messages.C12.rejects_unmarshal_answer_req'),
              ('Snowflake.Props.C12', 'Snowflake.Messages.C12.rejects_absent_answer'),
              ('Snowflake.Props.C12', 'Snowflake.Messages.C12.answer_resp_rt'),
              ('Snowflake.Props.C12', 'Snowflake.Messages.C12.answer_resp_accepts_only_valid'),
              ('Snowflake.Props.C12', 'Snowflake.Messages.C12.rejects_unmarshal_answer_resp'),
              ('Snowflake.Props.C12', 'Snowflake.Messages.C12.client_req_rt'),
              ('Snowflake.Props.C12', 'Snowflake.Messages.C12.client_req_accepts_only_valid'),
              ('Snowflake.Props.C12', 'Snowflake.Messages.C12.rejects_client_req'),
              ('Snowflake.Props.C12', 'Snowflake.Messages.C12.rejects_absent_offer'),
              ('Snowflake.Props.C12', 'Snowflake.Messages.C12.fingerprintOk_iff'),
              ('Snowflake.Props.C12', 'Snowflake.Messages.C12.client_resp_rt'),
              ('Snowflake.Props.C12', 'Snowflake.Messages.C12.client_resp_accepts_only_valid'),
              ('Snowflake.Props.C12', 'Snowflake.Messages.C12.rejects_empty_response'),
              ('Snowflake.Props.C12', 'Snowflake.Messages.C12.rejects_empty_response_encoded'),
              ('Snowflake.Props.C12', 'Snowflake.Messages.C12.rejects_unmarshal_client_resp'),
              ('Snowflake.Props.C12', 'Snowflake.Messages.C12.rejects_absent_answer_and_error'),
              ('Snowflake.Props.C12', 'Snowflake.Messages.C12.unmarshal_non_json'),
              ('Snowflake.Props.C12', 'Snowflake.Messages.C12.unmarshal_wrong_toplevel'),
              ('Snowflake.Props.C12', 'Snowflake.Messages.C12.rejects_null'),
              ('Snowflake.Props.C12', 'Snowflake.Messages.C12.unmarshal_wrong_field_type'),
              ('Snowflake.Props.C12', 'Snowflake.Messages.C12.majorVersion_eq'),
              ('Snowflake.Props.C12', 'Snowflake.Messages.C12.decoders_total'),
              ('Snowflake.Proofs.Json', 'Snowflake.Json.parseStr_renderStr'),
              ('Snowflake.Proofs.Json', 'Snowflake.Json.parseStr_items'),
              ('Snowflake.Proofs.Json', 'Snowflake.Json.parseInt64_renderInt'),
              ('Snowflake.Proofs.Json', 'Snowflake.Json.numLit_renderInt'),
              ('Snowflake.Proofs.Json', 'Snowflake.Json.parse_marshalObj'),
              ('Snowflake.Base.Utf8', 'Snowflake.Utf8.decodeItems_encode'),
              ('Snowflake.Base.Utf8', 'Snowflake.Utf8.decodeLossy_encode')],
 'ties': [('Snowflake.Tie.Messages', 'Snowflake.Tie.Messages.version_tie'),
          ('Snowflake.Tie.Messages', 'Snowflake.Tie.Messages.proxyUnknown_tie'),
          ('Snowflake.Tie.Messages', 'Snowflake.Tie.Messages.clientVersion_tie'),
          ('Snowflake.Tie.Messages', 'Snowflake.Tie.Messages.defaultBridgeFingerprint_tie'),
          ('Snowflake.Tie.Messages', 'Snowflake.Tie.Messages.natNames_tie'),
          ('Snowflake.Tie.Messages', 'Snowflake.Tie.Messages.knownProxyTypes_tie'),
          ('Snowflake.Tie.Messages', 'Snowflake.Tie.Messages.failure_texts_tie'),
          ('Snowflake.Tie.Messages', 'Snowflake.Tie.Messages.defaultBridgeFingerprint_ok'),
          ('Snowflake.Tie.Messages', 'Snowflake.Tie.Messages.status_literals_tie'),
          ('Snowflake.Tie.Messages', 'Snowflake.Tie.Messages.decoder_structs_tie'),
          ('Snowflake.Tie.Messages', 'Snowflake.Tie.Messages.decoder_zero_values'),
          ('Snowflake.Tie.Messages', 'Snowflake.Tie.Messages.encoder_structs_tie'),
          ('Snowflake.Tie.Messages', 'Snowflake.Tie.Messages.nat_switch_tie'),
          ('Snowflake.Tie.Messages', 'Snowflake.Tie.Messages.natSwitch_spec'),
          ('Snowflake.Tie.Messages', 'Snowflake.Tie.Messages.fingerprintLenBad_tie'),
          ('Snowflake.Tie.Messages', 'Snowflake.Tie.Messages.versionBad_tie'),
          ('Snowflake.Tie.Messages', 'Snowflake.Tie.Messages.emptiness_tie'),
          ('Snowflake.Tie.Messages', 'Snowflake.Tie.Messages.status_conditions_tie')],
 'harness': {'pkg': 'common/messages', 'test': 'TestVerifC12'},
 'overlay': {'common/messages/zz_verif_c12_test.go': 'c12_messages_test.go',
             'common/zzverif/jsongen.go': 'vh/jsongen.go'},
 'rule': 'cases = the six messages built from generated field values (all Unicode planes, control characters, <>&, '
         'U+2028/9, invalid UTF-8, long strings, extreme ints, empty/absent optionals) through the real encoders and '
         "decoders; one semantic defect planted in a valid message through Go's generic JSON; structured documents per "
         'struct (every member present / absent / null / wrong JSON type / duplicated / case-folded incl. U+212A and '
         'U+017F / near-miss spelling, unknown members, int literals around the int64 range, version lines); fixed '
         'corner cases; nesting around the 10000 limit; mutations, truncations and random bytes, each offered to its '
         'own and to foreign decoders; a case is non-trivial when the decoder did not answer with an error or the '
         'input is valid JSON (decoders) / always (encoders); distinct = distinct (class, case line)'
         ' Fingerprints with one non-hex byte (any ASCII byte, biased to one-bit neighbours of hex digits) in both lengths.',
 'level_text': 'All clauses are kernel-checked theorems over a model that follows proxy.go, client.go and '
               'fingerprint.go statement by statement on top of an executable model of encoding/json: six round trips '
               'with the documented defaults under exactly the validity predicate each decoder enforces (for all List '
               'Char field values and all ints in the int64 range), acceptance soundness for every decoder on every '
               'input text, the reject laws (major version, missing sid/offer/answer also at the level of absent '
               'object members, NAT names, fingerprint = 40 or 64 hex digits, empty response, not JSON, wrong '
               'top-level type, wrong field type for every struct and object), and totality (no decoder panics). '
               'Constants, struct layouts (names, order, Go types, omitempty), inline status strings, the NAT switches '
               'and every validation condition are regenerated from the Go source and proved equal to what the model '
               'uses; the real Encode*/Decode* are run against the compiled model and against independent oracles.',
 'level_note': 'Trusted: Lean kernel; translator (constants, struct tags, switch arms and if-conditions are read from '
               'the AST; the statement order inside the decoders is hand-modelled); the hand-written model of Go '
               '1.23.5 encoding/json (scanner grammar, unquoting, struct binding with case folding, int parsing, '
               'Marshal escaping), bytes.SplitN, strings.Split, hex.DecodeString and utf8.DecodeRune — validated '
               'differentially, not verified against their sources; the case folding model is exact only for ASCII '
               'field names (all field names of the repository).',
 'design_ref': 'DESIGN.md §5.12',
 'trusted': ['Go stdlib modelled: encoding/json (Unmarshal into flat structs, Marshal with HTML escaping), '
             'strconv.ParseInt, encoding/hex.DecodeString, bytes.SplitN, strings.Split, unicode/utf8'],
 'assumptions': ['int is 64 bits']}

SPEC['rule'] += (' Added after the seeded-change rounds: ' +
    'Bodies above 64 KiB; client counts up to 2^63-1 (not only below 2^53); JSON null / number / array in place of every string member; fingerprints with non-hex bytes at every position.')

SPEC['thorough_passes'] = 3  # the thorough tier runs the whole harness under this many consecutive seeds
