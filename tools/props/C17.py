"""Registry entry for C17 (see tools/registry.py)."""

P = 'Snowflake.Props.C17'
T = 'Snowflake.Tie.Turbotunnel'
SPEC = {'id': 'C17',
 'modules': [P, 'Snowflake.Props.C17Sweep', T],
 'theorems': [(P, 'Snowflake.C17.' + n) for n in [
     # (a) container/heap
     'heap_push', 'heap_pop', 'heap_remove', 'heap_fix', 'heap_init', 'heap_bookkeeping', 'heap_index_bookkeeping',
     # (b) client map
     'byAddr_byAge_consistent', 'kept_while_seen', 'sendQueue_keeps_records', 'removed_exactly_when_idle',
     'sweep_within', 'idle_removed_within_one_and_a_half',
     # (c) queue connection
     'fifo_incoming_all', 'fifo_per_address', 'copy_on_enqueue', 'recvQ_bounded', 'never_blocks',
     'ops_fail_after_close', 'close_once',
     # (d) redialing connection
     'error_only_after_close_or_dialfail', 'at_most_one_active_carrier', 'every_carrier_closed',
     'no_retained_goroutine', 'rank_zero_finished',
     # negative witnesses for the pinned (unbuffered) error channels
     'pinned_reader_leak_write_first', 'pinned_reader_leak_at_close', 'pinned_writer_leak_read_first',
     'pinned_leak_per_redial']]
             # WriteTo against the expiry sweep (F18): any number of writers / sweeps / clock steps
             + [('Snowflake.Props.C17Sweep', 'Snowflake.C17Sweep.' + n) for n in
                ['repaired_never_panics', 'repaired_record_open', 'pinned_write_can_panic']],
 'ties': [(T, 'Snowflake.Tie.Turbotunnel.' + n) for n in [
     'queueSize_tie', 'guard_tie', 'less_tie', 'queue_capacities', 'queueIncoming_shape', 'queueWriteTo_shape', 'trySend_shape',
     'queueReadFrom_shape', 'closeWithError_shape', 'outgoingQueue_shape', 'clientMap_shape', 'dialLoop_shape', 'redialApi_shape',
     'exchange_shape', 'errch_buffered', 'no_retained_goroutine_source']],
 'harness': {'pkg': 'common/turbotunnel', 'test': 'TestVerifC17'},
 'overlay': {'common/turbotunnel/zz_verif_c17_test.go': 'c17_turbotunnel_test.go'},
 'race': True,
 'rule': 'cases = (1) generated clientMapInner sequences over 2-6 addresses with an explicit, occasionally '
         'regressing clock (SendQueue / removeExpired with timeouts 0..20 and -1 / send / receive on the returned '
         'queue), compared after every operation (heap layout, address index, lengths, closed queues); '
         '(2) generated QueuePacketConn sequences (QueueIncoming / WriteTo / ReadFrom with several buffer sizes / '
         'OutgoingQueue / Close / closeWithError) with one caller buffer overwritten after every call, plus '
         'sequences that fill a queue past queueSize; (3) RedialPacketConn scripts: per carrier write-fails-first / '
         'read-fails-first / read fails during a write, 0-25 redials, ended by a failing dial, Close while dialing, '
         'or Close of a working carrier. non-trivial = more than one operation / every script; distinct = distinct '
         '(class, case line)'
         ' Script end S = Close while a dial is in flight that then succeeds (predicted by the LTS); bursts of 8 concurrent QueueIncoming / WriteTo calls with 0..4 free slots and no reader (none may block, queue ends full).',
 'level_text': 'All clauses are kernel-checked theorems over three models tied to the source: Go\'s container/heap '
               'transcribed over an abstract heap.Interface (multiset, heap order, minimal root, Remove(i), Fix, '
               'Init; generic index-bookkeeping refinement), clientMapInner as written on top of it (consistency of '
               'byAddr/byAge for all operation histories and clocks, kept-while-seen, removed-exactly-when-idle, '
               'the 1.5 x timeout bound), QueuePacketConn (FIFO per address as a history theorem, drop-when-full, '
               'value semantics = copy on enqueue, fail after close, close once) and an interleaving LTS of '
               'RedialPacketConn with the error-channel capacities as parameters (errors only after Close/dial '
               'failure, at most one active carrier, every carrier closed; for capacities >= 1 no goroutine of a '
               'closed carrier is ever blocked and both finish within 8 own steps; for capacity 0 kernel-checked '
               'schedules leave a goroutine blocked in every continuation). The capacities, queueSize, Less and the '
               'removeExpired guard are regenerated from the source and tied; skeleton obligations pin the select / '
               'close-once / copy-before-send structure. WriteTo against the periodic sweep (F18) has its own interleaving model '
               '(Model/QueueSweep: any number of writers, sweeps and clock steps; queue generations): with look-up and send in '
               'one critical section (ClientMap.trySend, pinned by trySend_shape) no schedule ever sends on a closed queue and '
               'the queue recorded for an address is never a closed one; the pinned shape (send after the lock) has a '
               'kernel-checked schedule that does, for every timeout.',
 'level_note': 'Trusted: Lean kernel; translator (time.Time/Duration as integers: Before = <, Sub = -); the '
               'hand-written transcription of container/heap (int as Nat: the j1 < 0 overflow test of down is dropped) '
               'and of the Swap/Push/Pop hooks (validated differentially: exact heap layout after every operation); Go '
               'channel/select semantics and sync.Once as modelled in the LTS (a carrier call returns once the carrier '
               'is closed; fairness for the liveness reading of no_retained_goroutine); the ClientMap lock and the '
               'race between the sweeper closing a queue and a concurrent WriteTo holding it are outside the models '
               '(C20). Which of the two make(chan error) is readErrCh is taken from source order.',
 'design_ref': 'DESIGN.md §5.17',
 'trusted': ['Go stdlib modelled: container/heap, buffered channels / select / close, sync.Once, time.Time arithmetic'],
 'assumptions': ['a carrier\'s ReadFrom/WriteTo return (with an error) once the carrier has been closed',
                 'weak fairness of the Go scheduler (for "eventually finish")']}

SPEC['rule'] += (' Added after the seeded-change rounds: ' +
    'Populations of 300 and more clients expiring together; retention measured on the real clock after Close of the queue connection; concurrent enqueue from many goroutines; a redial connection whose write fails while the send queue is full (the writer must not block re-queueing).')


SPEC['rule'] += (' Added with F18: a child process (GOMAXPROCS=2) in which 200 goroutines WriteTo three client addresses of a queue connection '
    'with a 50 us client timeout for 2.5 s while the sweep expires their queues: every WriteTo must return (a dying child = send on closed channel).')
