"""Registry entry for C02 (see tools/registry.py)."""

SPEC = {'id': 'C02',
 'modules': ['Snowflake.Props.C02', 'Snowflake.Tie.Broker'],
 'theorems': [('Snowflake.Props.C02', 'Snowflake.Broker.C02.returned_answer_is_matched_proxys'),
              ('Snowflake.Props.C02', 'Snowflake.Broker.C02.offer_handed_at_most_once'),
              ('Snowflake.Props.C02', 'Snowflake.Broker.C02.poll_reply_carries_its_one_offer'),
              ('Snowflake.Props.C02', 'Snowflake.Broker.C02.relay_url_is_bridge_of_fingerprint'),
              ('Snowflake.Props.C02', 'Snowflake.Broker.C02.unknown_fingerprint_never_matched')],
 'ties': [('Snowflake.Tie.Broker', 'Snowflake.Tie.Broker.skel_Broker_tie'),
          ('Snowflake.Tie.Broker', 'Snowflake.Tie.Broker.skel_RequestOffer_tie'),
          ('Snowflake.Tie.Broker', 'Snowflake.Tie.Broker.skel_AddSnowflake_tie'),
          ('Snowflake.Tie.Broker', 'Snowflake.Tie.Broker.skel_matchSnowflake_tie'),
          ('Snowflake.Tie.Broker', 'Snowflake.Tie.Broker.skel_ClientOffers_tie'),
          ('Snowflake.Tie.Broker', 'Snowflake.Tie.Broker.skel_ProxyAnswers_tie'),
          ('Snowflake.Tie.Broker', 'Snowflake.Tie.Broker.skel_ProxyPollsTail_tie'),
          ('Snowflake.Tie.Broker', 'Snowflake.Tie.Broker.skel_heap_Less_tie'),
          ('Snowflake.Tie.Broker', 'Snowflake.Tie.Broker.skel_heap_Swap_tie'),
          ('Snowflake.Tie.Broker', 'Snowflake.Tie.Broker.skel_heap_Push_tie'),
          ('Snowflake.Tie.Broker', 'Snowflake.Tie.Broker.skel_heap_Pop_tie'),
          ('Snowflake.Tie.Broker', 'Snowflake.Tie.Broker.timeouts_positive'),
          ('Snowflake.Tie.Broker', 'Snowflake.Tie.Broker.nat_names_distinct')],
 'harness': [{'pkg': 'broker', 'test': 'TestVerifC02$', 'timeout': '12m'}],
 'optional_overlay': {'broker/zz_verif_core_internals_test.go': 'broker_core_internals_test.go'},
 'overlay': {'broker/zz_verif_core_test.go': 'broker_core_test.go'},
 'rule': 'cases = independent real brokers (NewBrokerContext + Broker goroutine + IPC methods) each driven through a '
         'generated quiet history (polls with generated NAT type incl. absent/empty and client counts, clients with '
         'generated NAT and fingerprint (default, named, omitted, unknown), answers prompt / early / late / for '
         'unknown ids / duplicated, two timeout generations) whose annotated event list is replayed on the Lean model, '
         "plus forced-race schedules (timer between two lock acquisitions, forced with the package's own "
         'snowflakeLock) compared with explicit label traces; non-trivial = at least one event; distinct = distinct '
         '(class, event list)'
         " Fingerprints of both legal lengths; some 32-byte fingerprints extend another bridge's 20-byte fingerprint.",
 'level_text': "Kernel-checked invariants over every reachable state of an interleaving model of the broker's "
               'rendezvous core (unbounded numbers of polls, clients, answers, all interleavings, all timer firings, '
               "all bridge lists): a returned answer was posted for the session that was handed this client's offer; "
               "an offer goes to at most one poll; a poll's reply carries its one offer and the relay URL of the "
               'bridge the client named; unknown fingerprints are never matched. The model is tied to the source by '
               'regenerated synchronisation skeletons and by replaying real broker histories (in-process, real IPC '
               'methods) on the model.',
 'level_note': 'Trusted: Lean kernel; the hand-written LTS (atomic critical sections, rendezvous channels, abstract '
               'time: timers are nondeterministic; pools abstracted to sets with a clients-minimal pop - '
               'container/heap itself is verified separately in Base/Heap for C17 and tied by skeleton + observed on '
               "the real heaps); poll identity = session id (pairwise distinct ids are in the property's quantifier); "
               'net/http, prometheus and geoip are outside the model; Go mutex FIFO hand-off is used by the forcing '
               'harness only, never by a theorem.',
 'design_ref': 'DESIGN.md §5.2',
 'assumptions': ['timers eventually fire',
                 'session ids of concurrent polls are pairwise distinct',
                 'no system step of another request disables an enabled step (commutation, argued not proved)'],
 'race': True}

SPEC['rule'] += (' Added after the seeded-change rounds: ' +
    'Oracle-only scenarios run against the real broker in serial mode (one at a time, no model): the same session id polled again while the first poll is answered / unanswered; two idle polls under one id; a proxy that never answers while a spare poll waits (the offer must not be handed out twice); 300 waiting proxies of one NAT class; the same id re-polled with another NAT type; every spelling of the NAT type; sibling fingerprints of 32 bytes that share their first 20 bytes.')

SPEC['thorough_passes'] = 3  # the thorough tier runs the whole harness under this many consecutive seeds

SPEC['rule'] += (' ' +
    "Added after round four: the bridge list is reloaded between a client's fingerprint check and the hand-over of its offer (forced with the matching lock): no poll may get the offer with another bridge's relay URL.")
