"""Registry entry for C20 (see tools/registry.py)."""

_P = 'Snowflake.Props.C20'
_N = 'Snowflake.C20.'
_H = 'Snowflake.Hb.'

SPEC = {'id': 'C20',
 'modules': [_P],
 'theorems': [('Snowflake.Props.C20', _H + n) for n in ['lockset_ordered', 'lockset_ordered_wr', 'lockset_ordered_rw', 'holds_unique']]
             + [(_P, _N + n) for n in ['no_unordered_conflict', 'C20_no_race']],
 'ties': [(_P, _N + n) for n in ['table_disciplined', 'table_covered', 'table_populated', 'tracked_types_present']],
 'parallel': 4,
 'harness': [
     {'pkg': 'broker', 'test': 'TestVerifC20Broker$', 'race': True, 'timeout': '5m'},
     {'pkg': 'proxy/lib', 'test': 'TestVerifC20Proxy$', 'race': True, 'checklinkname': True, 'timeout': '5m'},
     {'pkg': 'common/turbotunnel', 'test': 'TestVerifC20Turbotunnel$', 'race': True, 'timeout': '5m'},
     {'pkg': 'client/lib', 'test': 'TestVerifC20Client$', 'race': True, 'checklinkname': True, 'timeout': '5m'},
     {'pkg': 'server/lib', 'test': 'TestVerifC20Server$', 'race': True, 'checklinkname': True, 'timeout': '5m'},
     {'pkg': 'common/event', 'test': 'TestVerifC20Event$', 'race': True, 'checklinkname': True, 'timeout': '5m'},
     # the workloads of the other checks, re-run under the race detector; only race reports count here
     {'pkg': 'broker', 'test': 'TestVerifC04$', 'race': True, 'race_only': True, 'tier': 'quick', 'timeout': '15m'},
     {'pkg': 'broker', 'test': 'TestVerifC14$', 'race': True, 'race_only': True, 'tier': 'quick', 'timeout': '30m'},
     {'pkg': 'common/turbotunnel', 'test': 'TestVerifC17', 'race': True, 'race_only': True, 'tier': 'quick', 'timeout': '15m'},
     {'pkg': 'server/lib', 'test': 'TestVerifC05Layer$', 'race': True, 'race_only': True, 'tier': 'quick', 'checklinkname': True, 'timeout': '15m'},
     {'pkg': 'server/lib', 'test': 'TestVerifC18ServerLib', 'race': True, 'race_only': True, 'tier': 'quick', 'checklinkname': True, 'timeout': '15m'},
     {'pkg': 'client/lib', 'test': 'TestVerifC01Stack$', 'race': True, 'race_only': True, 'tier': 'quick', 'checklinkname': True, 'timeout': '15m'},
     {'pkg': 'client/lib', 'test': 'TestVerifC15$', 'race': True, 'race_only': True, 'tier': 'quick', 'checklinkname': True, 'timeout': '15m'},
     {'pkg': 'proxy/lib', 'test': 'TestVerifC16', 'race': True, 'race_only': True, 'tier': 'quick', 'checklinkname': True, 'timeout': '15m'},
 ],
 'optional_overlay': {'broker/zz_verif_core_internals_test.go': 'broker_core_internals_test.go'},
 'overlay': {'broker/zz_verif_c20_test.go': 'c20_broker_test.go',
             'broker/zz_verif_core_test.go': 'broker_core_test.go',
             'broker/zz_verif_c14_test.go': 'c14_broker_http_test.go',
             'proxy/lib/zz_verif_c20_test.go': 'c20_proxylib_test.go',
             'proxy/lib/zz_verif_c16_test.go': 'c16_proxylib_test.go',
             'client/lib/zz_verif_c20_test.go': 'c20_clientlib_test.go',
             'client/lib/zz_verif_c01_test.go': 'c01_stack_test.go',
             'client/lib/zz_verif_c15_test.go': 'c15_clientlib_test.go',
             'common/turbotunnel/zz_verif_c17_test.go': 'c17_turbotunnel_test.go',
             'common/turbotunnel/zz_verif_c20_test.go': 'c20_turbotunnel_test.go',
             'server/lib/zz_verif_c20_test.go': 'c20_serverlib_test.go',
             'common/event/zz_verif_c20_test.go': 'c20_event_test.go',
             'server/lib/zz_verif_c05_test.go': 'c05_serverlib_test.go',
             'server/lib/zz_verif_c18_test.go': 'c18_serverlib_test.go'},
 'rule': 'cases = (a) access rows of the regenerated table (one per shared variable x function x read/write x lockset), all '
         'decided by the kernel; (b) race-detector workloads on the real code: a broker wired like main() (HTTP handlers, '
         'Broker goroutine, distinct-IP writer) under a herd of poll/offer/answer flows including polls idling into the '
         '10 s timeout with clients and answers arriving within +-20 ms of the timers, with the bodies of the daily '
         'logMetrics loop and of the SIGHUP geoip reload and /debug + /prometheus scrapes running every few ms; the proxy '
         'traffic counter, periodic summary, tokens and NAT type driven from the goroutines that drive them in snowflake.go; '
         'the turbotunnel adapters driven like the server and the client drive them (carrier goroutines on QueueIncoming / OutgoingQueue, KCP on ReadFrom / WriteTo, receive and send queues running full, client-map sweeps with a 40 ms timeout, Close during traffic; RedialPacketConn with carriers that fail after a few writes and Close during a redial); the client Peers collection over real pion peers under collect / pop / read / write / close churn, NAT updates '
         'and End() during churn; fresh server clientIDMap objects used by concurrent carriers and streams from their first operation on; the event dispatcher shared by client and proxy under concurrent dispatch and listener churn with a slow receiver; the real pollOffer against sessions handing back tokens; the real checkNATType against a local probe while the poll loop reads the NAT type; plus the harnesses of C04 (forced herds at timeout boundaries), C14 (the real broker binary, built with -race for this run, geoip databases loaded, SIGHUP every 40 ms while it serves the generated HTTP traffic), C17 (ClientMap / '
         'QueuePacketConn / RedialPacketConn), C05 and C18 (server sessions and carriers), C01 (whole client-server stack), '
         'C15 (Peers) and C16 (proxy sessions against a pion client) re-run under -race. One case = one driven flow / '
         'connection / round; every race report is a finding keyed by the first frames of both stacks inside the code '
         'under test; distinct = distinct (class, case line)',
 'level_text': 'Kernel-checked: the lockset theorems for traces with mutexes and reader-writer mutexes (two accesses by '
               'different threads holding a common lock, at least one exclusively, are ordered by a release->acquire '
               'chain) and, from them, that every well-formed execution conforming to the access table regenerated from '
               'the source has no unordered conflicting accesses on any declared shared variable (matching heaps and id '
               'map, every metrics counter, country statistics, geoip database pointer, rounded counters, bridge list, '
               'client map, client-id ring, active peers, last-receive time, NAT types, proxy traffic counters and sums, '
               'token counter, data channel pointer). The table itself (which locks are held where) is recomputed from '
               '/repo on every run and its discipline is decided by kernel evaluation, so removing or narrowing a lock '
               'around a listed access breaks an obligation. The statement of the property is dynamic ("as witnessed by '
               'the race detector"): the workloads above run the real code under -race and every report is a violation '
               'with the report as replay.',
 'level_note': 'proof-partial. Trusted / not verified: the must-hold lockset analysis of extract/accesses.go (syntactic, '
               'per package, alias-insensitive: a field and the lock named beside it are assumed to belong to the same '
               'object) and the declared variable list (extract/specs_accesses.go) - both cross-checked only dynamically; '
               'constructor-phase accesses happen before publication; synchronisation by channels, sync.Once, WaitGroup '
               'and goroutine creation is not in the model, so state ordered that way (answer/offer channels, '
               'WebRTCPeer.bytesLogger handed over through snowflakeChan and the receive pipe, QueuePacketConn / '
               'RedialPacketConn close paths) is covered by the race-detector workloads only; the race detector sees only '
               'the interleavings that occur; pion, net/http, prometheus and kcp/smux internals are outside the claim.',
 'design_ref': 'DESIGN.md §5.20',
 'technique': 'Lean 4 proof (lockset => happens-before, table discipline by kernel evaluation over a table regenerated from the source) '
              '+ Go race detector workloads on the real code for correspondence and witness search',
 'trusted': ['Go race detector (ThreadSanitizer runtime) as the oracle of the dynamic side',
             'must-hold lockset analysis and variable list of the translator (extract/accesses.go, specs_accesses.go)',
             'sync.Mutex / sync.RWMutex provide the well-formedness assumed by Hb.WF'],
 'assumptions': ['executions conform to the access table (accesses to the declared variables happen only at the listed sites with the listed locks held)',
                 'constructor-phase accesses are ordered before publication']}

SPEC['thorough_passes'] = 3  # the thorough tier runs the whole harness under this many consecutive seeds

SPEC['rule'] += (' Added after round five: the poll loop keeps polling the broker beside the real checkNATType; a relay that streams while the client leaves; '
    'a popped client peer that goes away unread; new broker channels built while a rendezvous is in flight; the client NAT check over two loopback STUN responders beside Collects; '
    'three sessions on the proxy own relay URL.')
