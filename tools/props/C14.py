"""Registry entry for C14 (see tools/registry.py)."""

SPEC = {'id': 'C14',
 'modules': ['Snowflake.Props.C14', 'Snowflake.Tie.BrokerHttp'],
 'theorems': [('Snowflake.Props.C14', 'Snowflake.BrokerHttp.C14.proxy_always_responds'),
              ('Snowflake.Props.C14', 'Snowflake.BrokerHttp.C14.client_always_responds'),
              ('Snowflake.Props.C14', 'Snowflake.BrokerHttp.C14.oversized_body_is_400'),
              ('Snowflake.Props.C14', 'Snowflake.BrokerHttp.C14.legacy_equiv'),
              ('Snowflake.Props.C14', 'Snowflake.BrokerHttp.C14.legacy_equiv_err'),
              ('Snowflake.Props.C14', 'Snowflake.BrokerHttp.C14.legacyMap_total'),
              ('Snowflake.Props.C14', 'Snowflake.BrokerHttp.C14.amp_status'),
              ('Snowflake.Props.C14', 'Snowflake.BrokerHttp.C14.no_poison'),
              ('Snowflake.Props.C14', 'Snowflake.BrokerHttp.C14.pinned_legacy_invalid_nat_drops')],
 'ties': [('Snowflake.Tie.BrokerHttp', 'Snowflake.Tie.BrokerHttp.skel_ServeHTTP_tie'),
          ('Snowflake.Tie.BrokerHttp', 'Snowflake.Tie.BrokerHttp.skel_MetricsServeHTTP_tie'),
          ('Snowflake.Tie.BrokerHttp', 'Snowflake.Tie.BrokerHttp.skel_proxyPolls_tie'),
          ('Snowflake.Tie.BrokerHttp', 'Snowflake.Tie.BrokerHttp.skel_clientOffers_tie'),
          ('Snowflake.Tie.BrokerHttp', 'Snowflake.Tie.BrokerHttp.skel_proxyAnswers_tie'),
          ('Snowflake.Tie.BrokerHttp', 'Snowflake.Tie.BrokerHttp.skel_ampClientOffers_tie'),
          ('Snowflake.Tie.BrokerHttp', 'Snowflake.Tie.BrokerHttp.skel_debugHandler_tie'),
          ('Snowflake.Tie.BrokerHttp', 'Snowflake.Tie.BrokerHttp.skel_metricsHandler_tie'),
          ('Snowflake.Tie.BrokerHttp', 'Snowflake.Tie.BrokerHttp.no_panic_in_handlers'),
          ('Snowflake.Tie.BrokerHttp', 'Snowflake.Tie.BrokerHttp.status_strings_tie'),
          ('Snowflake.Tie.BrokerHttp', 'Snowflake.Tie.BrokerHttp.versioned_is_not_legacy'),
          ('Snowflake.Tie.BrokerHttp', 'Snowflake.Tie.BrokerHttp.readLimit_tie')],
 'harness': [{'pkg': 'broker', 'test': 'TestVerifC14$', 'timeout': '15m'}],
 'overlay': {'broker/zz_verif_c14_test.go': 'c14_broker_http_test.go'},
 'rule': 'cases = HTTP requests sent over raw TCP to the real broker binary built from the working tree: all endpoints '
         'x methods (POST GET OPTIONS PUT DELETE HEAD FOO) x bodies (valid messages, mutated, random, empty, 99 '
         '999..250 000 bytes) x legacy bodies x Snowflake-NAT-Type values, AMP paths (valid, bad version, bad base64, '
         "empty), plain endpoints, raw net/http-level oddities, three scripted matched/timeout flows; the model's "
         'abstract core result comes from the real IPC methods on an in-process twin broker; non-trivial = every case; '
         'distinct = distinct (class, case line)'
         " The versioned equivalent of a legacy request is written by the harness's own encoder; legacy offers contain control / invalid / astral bytes; a herd of 192 polls idling into the timeout with 192 clients arriving within +-3 ms on a broker process of its own; the same boundary forced deterministically (lock held across the timer) behind the real HTTP handlers in-process.",
 'level_text': 'The handler shell around the IPC core is modelled as total decision functions; that every request gets '
               'a reply with one of the six status codes (never a dropped connection), that oversized bodies get 400, '
               "that a legacy request is answered with the image of its versioned equivalent's answer, and that the "
               'shell is stateless are kernel-checked for every body, header value and every behaviour of the core. '
               'The model is tied to the source by regenerated handler skeletons (status codes, early returns, the '
               'legacy switch, absence of panic) and constants, and validated against the real broker binary on '
               'generated request sequences. Bounded time of the core calls is C04; net/http is not modelled.',
 'level_note': 'Trusted: Lean kernel; the hand-written shell model; net/http request parsing, routing, MaxBytesReader '
               'and panic recovery (observed on the binary, not modelled); the core result fed to the model is '
               'computed by the real IPC on a twin broker; DecodeClientPollResponse(EncodePollResponse r) = r is '
               "assumed here (it is a C12 theorem). Partial: 'within bounded time' rests on C04; /prometheus and "
               'unknown paths are checked by the oracle only.',
 'design_ref': 'DESIGN.md §5.14',
 'assumptions': ["net/http delivers the request's method, path, headers and body to the handler as sent",
                 'the core calls return (C04)']}

SPEC['rule'] += (' Added after the seeded-change rounds: ' +
    'Raw requests that announce a huge Content-Length (up to 2^62) with a short or no body; a client naming an unknown bridge while polls of the scripted flows wait (those polls must still be answered); two overlapping polls under one session id; a herd of 192 polls; one scripted flow is forced in-process through the real handlers (deterministic), the same flows run against the binary.')

SPEC['thorough_passes'] = 6  # the thorough tier runs the whole harness under this many consecutive seeds

SPEC['rule'] += (' ' +
    'Added after round five: the in-process flow runs on a broker with geoip loaded after a metrics roll-over, with idle polls of every NAT type beside it; the broker binary is also started with the distinct-IP journal at interval 0 / 1 ns and with relay patterns configured.')
