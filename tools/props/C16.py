"""Registry entry for C16 (see tools/registry.py)."""

_P = 'Snowflake.Props.C16'
_T = 'Snowflake.Tie.ProxyLib'
_N = 'Snowflake.ProxySlots.C16.'
_TN = 'Snowflake.Tie.ProxyLib.'

SPEC = {'id': 'C16',
 'modules': [_P, _T],
 'theorems': [(_P, _N + n) for n in [
     'in_use_le_capacity', 'tokens_match_sessions', 'released_exactly_once', 'release_accounting',
     'full_capacity_after_quiescence', 'load_arith', 'load_multiple_of_8_le_in_use', 'count_is_slots_held',
     'loadNat_within_8', 'loadNat_mono', 'loadNat_zero_iff', 'load_within_8',
     # kernel-checked refutations for the pinned skeleton (F11) and the repaired counterpart
     'pinned_double_release', 'pinned_capacity_overrun', 'pinned_poll_loop_blocked',
     'pinned_released_exactly_once_fails', 'pinned_in_use_le_capacity_fails', 'fixed_race_single_release']],
 'ties': [(_T, _TN + n) for n in [
     'load_tie', 'poll_reads_count', 'tokens_shape', 'capacity_flag_reaches_tokens', 'poll_loop_gets_then_runs', 'runSession_stages',
     'early_exits_release_once', 'release_sites_share_one_once', 'close_before_release',
     'callback_spawns_handler', 'handler_exits', 'timeout_arm_does_not_wait']],
 'harness': [{'pkg': 'proxy/lib', 'test': 'TestVerifC16', 'checklinkname': True}],
 'overlay': {'proxy/lib/zz_verif_c16_test.go': 'c16_proxylib_test.go'},
 'rule': 'cases = get/ret/count sequences on the real tokens_t (capacity 0,1,2,3,8; every call in its own goroutine '
         'with a deadline); sequences of whole sessions through the real runSession against a scripted broker '
         '(httptest) and a relay listener: no offer (HTTP 500, garbage, error status, undecodable offer, no match '
         'then error), unparsable relay URL, rejected relay URL, inapplicable offer, answer refused / answer HTTP '
         '500, relay unreachable, normal end, with handler goroutines of connected sessions overlapping (capacity '
         '0,1,2,4,12; up to 9 concurrent connected sessions so that the reported load is 8); capacity-full '
         'templates; sessions whose client never opens the data channel, in parallel, and the F11 schedule forced '
         'through the log writer (OnDataChannel callback held until the timer arm of the select is taken); C06: '
         'generated relay URLs (inside/outside the pattern, ws/wss, userinfo, suffix/prefix tricks, ports, '
         'uppercase, opaque, empty, unparsable) under six patterns and both values of the non-TLS flag; observed: '
         'tokens.count(), len(tokens.ch), Clients of every poll, /answer reached, relay dialed; every case is '
         'non-trivial; distinct = distinct (class, case line)'
         ' Also: a connected client that stops reading during a 6 MiB relay-to-client transfer and then leaves (slot must come back); relay-URL histories on long-lived proxies (one SnowflakeProxy per pattern and flag).',
 'level_text': 'All clauses are kernel-checked theorems over an interleaving model of the slot accounting (poll loop one '
               'session at a time with every stage able to fail, OnDataChannel callback at any moment once the peer '
               'connection exists - also while the timeout arm is taken -, any number of overlapping handler '
               'goroutines, capacity N, N = 0 unlimited): sessions holding a slot never exceed N; never more than one '
               'tokens.ret() per session and exactly one once the session is over, on every exit path; after '
               'quiescence no slot is held, the token channel is empty and the counter is 0; every reported load is a '
               'multiple of 8 not above the slots in use, the counter being slots held plus one only while blocked in '
               'get. released_exactly_once is false on the pinned tree (F11): refuted for the pinned skeleton by '
               'kernel-checked schedules (double release, capacity overrun with N = 1, poll loop blocked for good) and '
               'proved for the repaired one (per-session sync.Once). The load expression is translated from the source '
               'and equal to the model by rfl; 11 regenerated skeleton obligations tie the labels to the source, one of '
               'which (release_sites_share_one_once) catches F11 deterministically; the real tokens_t and the real '
               'runSession are run against the model and the property oracle, including the forced F11 schedule.',
 'level_note': 'proof-partial. Trusted / modelled, not verified: Go channels, atomics, sync.Once; tokens.ret() (atomic '
               'decrement then channel receive) is one label when the receive can proceed at once (the only observers '
               'are count() and a get blocked on the full channel); when pion runs OnDataChannel (over-approximated: '
               'any time after makePeerConnectionFromOffer started, until a quiescence label) and that it runs at most '
               'once per peer connection (a second data channel on the same connection is outside the property); '
               'pion/websocket/copyLoop internals enter as the outcome of handler labels; time is abstracted. The '
               'binary-level clause (-capacity reaches the token pool) is a skeleton obligation on proxy/main.go and '
               'Start; the proxy binary itself is not run, but the real SnowflakeProxy.Start() loop is run in a child process against a scripted broker in the thorough tier (load reported by its polls). The C06 clause for the proxy side (relay URL outside the pattern is never answered nor '
               'dialed) is checked here differentially against the C06 model fed with url.Parse output.',
 'design_ref': 'DESIGN.md §5.16 (and §5.6 for the relay-URL clause)',
 'trusted': ['Go runtime modelled: buffered channel of capacity N (send blocks when full, receive when empty, FIFO waiters), '
             'sync/atomic counter, sync.Once',
             'pion/webrtc v3: OnDataChannel fires at most once per peer connection and not after Close has quiesced',
             'net/url.Parse output (hostname, scheme) is the input of the relay-URL model (C06)'],
 'assumptions': ['timers eventually fire (time is abstracted: the timeout arm is always enabled)',
                 'a single poll loop (SnowflakeProxy.Start) per process']}

SPEC['thorough_passes'] = 3  # the thorough tier runs the whole harness under this many consecutive seeds

SPEC['rule'] += (' ' +
    "Added after rounds four and five: clients open their data channel unordered / partially reliable / with a sub-protocol; a relay that stops reading and never closes; a broker that accepts a poll and never answers after a NAT type measurement (child process: the poll ends at the 30 s response-header timeout); three overlapping sessions on the proxy's own relay URL.")
