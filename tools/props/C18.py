"""Registry entry for C18 (see tools/registry.py)."""

_P = 'Snowflake.Props.C18'
_T = 'Snowflake.Tie.ServerLib'
_N = 'Snowflake.ClientAddr.C18.'

SPEC = {'id': 'C18',
 'modules': [_P, _T],
 'theorems': [(_P, _N + 'clientAddr_spec'),
              (_P, _N + 'clientAddr_tells_that_address'),
              (_P, _N + 'render_parses_back'),
              (_P, _N + 'render_parses_back_v4'),
              (_P, _N + 'parseIP_len16'),
              (_P, _N + 'isUnspecified_iff'),
              (_P, _N + 'ring_refines_log'),
              (_P, _N + 'ring_get_spec'),
              (_P, _N + 'ring_bounded'),
              (_P, _N + 'ring_indices_in_range'),
              (_P, _N + 'ring_capacity_zero'),
              (_P, _N + 'ring_remembers'),
              (_P, _N + 'ring_forgets'),
              (_P, _N + 'ring_get_own')],
 'ties': [(_T, 'Snowflake.Tie.ServerLib.capacity_tie'),
          (_T, 'Snowflake.Tie.ServerLib.clientAddr_listing'),
          (_T, 'Snowflake.Tie.ServerLib.newClientIDMap_listing'),
          (_T, 'Snowflake.Tie.ServerLib.set_cap0_listing'),
          (_T, 'Snowflake.Tie.ServerLib.set_delete_listing'),
          (_T, 'Snowflake.Tie.ServerLib.set_write_listing'),
          (_T, 'Snowflake.Tie.ServerLib.get_listing')],
 'harness': [{'pkg': 'server/lib', 'test': 'TestVerifC18ServerLib', 'checklinkname': True}],
 'overlay': {'server/lib/zz_verif_c18_test.go': 'c18_serverlib_test.go'},
 'rule': 'cases = client_ip strings (IPv4 incl. leading zeros / too many or few fields / ports / zones / junk; IPv6 for '
         'every pattern of zero groups in canonical, expanded, padded, upper-case, arbitrarily compressed and '
         'dotted-tail spellings plus broken spellings; 0.0.0.0, ::, mapped forms; mutations and random bytes) through '
         'the real clientAddr and net.ParseIP; raw 0/3/4/5/15/16/17-byte slices through net.IP.String / IsUnspecified '
         '/ IsLoopback; whole Set/Get operation sequences with colliding ClientIDs (incl. the all-zero id) on fresh '
         'clientIDMaps of capacity 0..8 and clientIDAddrMapCapacity (one case = one sequence; outputs of every Get, '
         'len(current), oldest and all entries compared). non-trivial = non-empty result / non-empty sequence; '
         'distinct = distinct (class, case line)',
 'level_text': 'The sanitiser clauses (empty iff absent/unparseable/unspecified; otherwise JoinHostPort(ip.String(), 1) '
               'of the parsed address; that text parses back to exactly that 16-byte address, for IPv4, IPv4-mapped and '
               'every IPv6 zero-run compression) and the ring-map clauses (for every capacity n >= 0 and every '
               'Set/Get sequence each Get equals the bounded log of the last n sets, newest first; at most n ids; '
               'oldest forgotten first; capacity 0 stores nothing; a returned address was stored under the same id) are '
               'kernel-checked theorems over a model written statement by statement from clientAddr / Set / Get. The '
               'model is tied to the source by regenerated statement listings (guards, order, presence) and the '
               'capacity constant, and by differential runs of the real functions against the compiled model and '
               'against an independent bounded-log reference.',
 'level_note': "Not covered: the 'attribution' clause (which Set/Get the HTTP handler and the KCP accept loop perform, "
               'across interleaved carriers) belongs to the server LTS of C05; the mutex of clientIDMap is C20. '
               'Trusted: Lean kernel; the hand-written model of net.ParseIP / netip.ParseAddr / net.IP.String / '
               'IsUnspecified / JoinHostPort (Go 1.23.5; validated differentially, not verified); the statement '
               'listing extractor; Set/Get/clientAddr are outside the translator subset, so there is no Gen.f = Model.f '
               'equation for them.',
 'level_category': 'proof',
 'design_ref': 'DESIGN.md §5.18',
 'trusted': ['Go stdlib modelled by hand: net.ParseIP (netip.ParseAddr, parseIPv4Fields, parseIPv6), net.IP.String '
             '(netip appendTo4/appendTo6), IP.To4/Equal/IsUnspecified/IsLoopback, net.JoinHostPort, TCPAddr.String'],
 'assumptions': ['callers of clientIDMap hold no reference into entries (the model has value semantics)']}
