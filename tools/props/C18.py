"""Registry entry for C18 (see tools/registry.py)."""

_P = 'Snowflake.Props.C18'
_PA = 'Snowflake.Props.C18Attr'
_T = 'Snowflake.Tie.ServerLib'
_N = 'Snowflake.ClientAddr.C18.'
_A = 'Snowflake.Attribution.C18.'

SPEC = {'id': 'C18',
 'modules': [_P, _PA, _T],
 'theorems': [(_P, _N + 'clientAddr_spec'),
              (_P, _N + 'clientAddr_tells_that_address'),
              (_P, _N + 'clientAddr_depends_on_address_only'),
              (_P, _N + 'render_parses_back'),
              (_P, _N + 'render_parses_back_v4'),
              (_P, _N + 'parseIP_len16'),
              (_P, _N + 'isUnspecified_iff'),
              (_P, _N + 'ring_refines_log'),
              (_P, _N + 'ring_get_spec'),
              (_P, _N + 'ring_bounded'),
              (_P, _N + 'ring_indices_in_range'),
              (_P, _N + 'ring_capacity_zero'),
              (_P, _N + 'ring_remembers'),
              (_P, _N + 'ring_forgets'),
              (_P, _N + 'ring_get_own'),
              # attribution clause (Model/Attribution.lean)
              (_PA, _A + 'afterEv_ring'),
              (_PA, _A + 'outputs_stream'),
              (_PA, _A + 'report_unaffected'),
              (_PA, _A + 'report_fixed_at_establish'),
              (_PA, _A + 'stream_address_fixed_at_establish'),
              (_PA, _A + 'report_none_iff'),
              (_PA, _A + 'last_establish'),
              (_PA, _A + 'establish_get_spec'),
              (_PA, _A + 'establish_remembers'),
              (_PA, _A + 'establish_forgets'),
              (_PA, _A + 'establish_no_carrier'),
              (_PA, _A + 'establish_get_own'),
              (_PA, _A + 'attribution'),
              (_PA, _A + 'never_another_sessions_address'),
              (_PA, _A + 'reported_address_is_own_sanitised_client_ip')],
 'ties': [(_T, 'Snowflake.Tie.ServerLib.capacity_tie'),
          (_T, 'Snowflake.Tie.ServerLib.clientAddr_listing'),
          (_T, 'Snowflake.Tie.ServerLib.newClientIDMap_listing'),
          (_T, 'Snowflake.Tie.ServerLib.set_cap0_listing'),
          (_T, 'Snowflake.Tie.ServerLib.set_delete_listing'),
          (_T, 'Snowflake.Tie.ServerLib.set_write_listing'),
          (_T, 'Snowflake.Tie.ServerLib.get_listing'),
          (_T, 'Snowflake.Tie.ServerLib.attribution_sites'),
          (_T, 'Snowflake.Tie.ServerLib.acceptStreams_get_once'),
          (_T, 'Snowflake.Tie.ServerLib.acceptStreams_get_before_loop'),
          (_T, 'Snowflake.Tie.ServerLib.acceptStreams_stamps_every_stream'),
          (_T, 'Snowflake.Tie.ServerLib.serveHTTP_addr_listing'),
          (_T, 'Snowflake.Tie.ServerLib.turbotunnel_set_listing')],
 'harness': [{'pkg': 'server/lib', 'test': 'TestVerifC18ServerLib', 'checklinkname': True},
             {'pkg': 'server/lib', 'test': 'TestVerifC18Attribution', 'checklinkname': True, 'timeout': '15m'}],
 'overlay': {'server/lib/zz_verif_c18_test.go': 'c18_serverlib_test.go',
             'server/lib/zz_verif_c18attr_test.go': 'c18_attr_test.go'},
 'rule': 'cases = client_ip strings (IPv4 incl. leading zeros / too many or few fields / ports / zones / junk; IPv6 for '
         'every pattern of zero groups in canonical, expanded, padded, upper-case, arbitrarily compressed and '
         'dotted-tail spellings plus broken spellings; 0.0.0.0, ::, mapped forms; mutations and random bytes) through '
         'the real clientAddr and net.ParseIP; raw 0/3/4/5/15/16/17-byte slices through net.IP.String / IsUnspecified '
         '/ IsLoopback; whole Set/Get operation sequences with colliding ClientIDs (incl. the all-zero id) on fresh '
         'clientIDMaps of capacity 0..8 and clientIDAddrMapCapacity (one case = one sequence; outputs of every Get, '
         'len(current), oldest and all entries compared). Attribution: one case = one generated scenario against the '
         'real server (Transport.Listen on 127.0.0.1:0, real WebSocket carriers with ?client_ip=..., a kcp-go + smux '
         'client per session wired as client/lib newSession): 2-4 sessions with ClientIDs that differ in one byte '
         '(sometimes the all-zero id), client_ip of every class (valid v4/v6, absent, empty, unspecified, junk, random '
         'bytes; valid ones unique per scenario), dead carriers of the same ClientID before and after the '
         'establishment, a redial (second live carrier, different client_ip) after the establishment and before a '
         'later stream, carriers of other ClientIDs in between, wrong-token carriers, 2-7 streams per session, a '
         'carrier whose session starts only after further foreign carriers; map = the package\'s own (scenario 0), a '
         'fresh newClientIDMap(clientIDAddrMapCapacity), or newClientIDMap(0..4) so that ids are pushed out; steps are '
         'separated by causal barriers (stream tag read by the Accept loop / server closed the TCP connection of a '
         'dead carrier / Set visible), RemoteAddr() of every connection returned by Accept() is compared with the '
         'model run of the event sequence and judged by direct oracles. non-trivial = non-empty result / non-empty '
         'sequence / scenario with at least one accepted stream; distinct = distinct (class, case line)',
 'level_text': 'The sanitiser clauses (empty iff absent/unparseable/unspecified; otherwise JoinHostPort(ip.String(), 1) '
               'of the parsed address; that text parses back to exactly that 16-byte address, for IPv4, IPv4-mapped and '
               'every IPv6 zero-run compression) and the ring-map clauses (for every capacity n >= 0 and every '
               'Set/Get sequence each Get equals the bounded log of the last n sets, newest first; at most n ids; '
               'oldest forgotten first; capacity 0 stores nothing; a returned address was stored under the same id) are '
               'kernel-checked theorems over a model written statement by statement from clientAddr / Set / Get. The '
               'model is tied to the source by regenerated statement listings (guards, order, presence) and the '
               'capacity constant, and by differential runs of the real functions against the compiled model and '
               'against an independent bounded-log reference. The attribution clause is a set of kernel-checked '
               'theorems over an event model on top of that ring map (carrier id ip = Set id (clientAddr ip); '
               'establish s id = the session\'s address := Get id; stream s = report the session\'s address), for '
               'every capacity and every event sequence: a stream reports the address fixed at the (last) '
               'establishment of its session whatever carriers of any ClientID and establishments of other sessions '
               'follow; that address is the sanitised client_ip of the most recent carrier of the ClientID if fewer '
               'than `capacity` carriers (of other ClientIDs, counted with repetition) arrived since, and nil if '
               '`capacity` or more did or there was none; a reported address was presented before the establishment '
               'by a carrier with the same ClientID and, if non-empty, is JoinHostPort(ip.String(), 1) of the valid '
               'specified address its client_ip denotes. The event model is tied to the source by regenerated '
               'listings: clientIDAddrMap is mentioned by turbotunnelMode and acceptStreams only, once each; '
               'ServeHTTP computes addr := clientAddr(r.URL.Query().Get("client_ip")) once and passes it as the addr '
               'parameter of the single turbotunnelMode call; turbotunnelMode performs Set(clientID, addr) with the '
               'ClientID read from the carrier, at top level, before the goroutines that queue the carrier\'s '
               'packets; acceptStreams performs its only Get, keyed by conn.RemoteAddr().(turbotunnel.ClientID), at '
               'top level before its only loop, assigns addr nowhere else, and the loop queues every accepted stream '
               'as SnowflakeClientConn{Conn: stream, address: addr}, whose RemoteAddr returns conn.address; and by '
               'scenario runs of the real server against the compiled model and direct oracles.',
 'level_note': "Attribution: the event model takes Set and Get as atomic and totally ordered (the mutex of clientIDMap is "
               'C20) and takes from kcp-go / smux, unproved, that acceptStreams runs once per KCP session, that the '
               'session\'s RemoteAddr() is the ClientID with which QueueIncoming tagged its packets (upstream tagging is '
               'C05) and that AcceptStream yields each stream once; these are exercised by the scenario harness only. '
               'The harness drives sequential orders fixed by causal barriers (it does not race a Set against a Get; '
               'either order is an event sequence of the model), replaces the global map by newClientIDMap(k) to '
               'reach small capacities, and uses a read-only clientIDAddrMap.Get as the barrier of a carrier whose '
               'session starts later; a scenario whose barrier is not reached in time is recorded as skipped, not '
               'judged. The listings are syntactic (statement order and nesting, identifier mentions; no alias or '
               'data-flow analysis beyond single assignments). '
               'Trusted: Lean kernel; the hand-written model of net.ParseIP / netip.ParseAddr / net.IP.String / '
               'IsUnspecified / JoinHostPort (Go 1.23.5; validated differentially, not verified); the statement '
               'listing extractor; Set/Get/clientAddr are outside the translator subset, so there is no Gen.f = Model.f '
               'equation for them.',
 'level_category': 'proof',
 'design_ref': 'DESIGN.md §5.18',
 'trusted': ['Go stdlib modelled by hand: net.ParseIP (netip.ParseAddr, parseIPv4Fields, parseIPv6), net.IP.String '
             '(netip appendTo4/appendTo6), IP.To4/Equal/IsUnspecified/IsLoopback, net.JoinHostPort, TCPAddr.String'],
 'assumptions': ['callers of clientIDMap hold no reference into entries (the model has value semantics)']}

SPEC['rule'] += (' Added after the seeded-change rounds: ' +
    "Attribution: the address recorded for a ClientID must stay the one of the carrier that delivered the stream's packets - streams opened one after the other on one session while carriers with different addresses come and go (model Attribution.lean, harness c18_attr_test.go); unspecified / malformed / port-only addresses through the sanitiser; more ids than the ring's capacity.")

SPEC['thorough_passes'] = 2  # the thorough tier runs the whole harness under this many consecutive seeds

SPEC['rule'] += (' ' +
    'Added after round four: sessions established by smux keep-alive frames before their first stream, with another carrier of the same ClientID arriving in between.')
