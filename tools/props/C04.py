"""Registry entry for C04 (see tools/registry.py)."""

SPEC = {
    "id": "C04",
    "modules": ["Snowflake.Model.Broker"],
    "theorems": [],
    "ties": [],
    "harness": [{"pkg": "broker", "test": "TestVerifC04$", "timeout": "30m"}],
    "overlay": {"broker/zz_verif_core_test.go": "broker_core_test.go"},
    "rule": "wip",
    "level_text": "wip",
    "level_note": "wip",
    "design_ref": "DESIGN.md §5.4",
}
