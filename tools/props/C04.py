"""Registry entry for C04 (see tools/registry.py)."""

SPEC = {'id': 'C04',
 'modules': ['Snowflake.Props.C04', 'Snowflake.Props.C04Reg', 'Snowflake.Tie.Broker'],
 'theorems': [('Snowflake.Props.C04', 'Snowflake.Broker.C04.poll_progress'),
              ('Snowflake.Props.C04', 'Snowflake.Broker.C04.client_progress'),
              ('Snowflake.Props.C04', 'Snowflake.Broker.C04.ans_progress'),
              ('Snowflake.Props.C04', 'Snowflake.Broker.C04.poll_completes'),
              ('Snowflake.Props.C04', 'Snowflake.Broker.C04.client_completes'),
              ('Snowflake.Props.C04', 'Snowflake.Broker.C04.answer_completes'),
              ('Snowflake.Props.C04', 'Snowflake.Broker.C04.gauge_matches_map'),
              ('Snowflake.Props.C04', 'Snowflake.Broker.C04.quiescent_clean'),
              ('Snowflake.Props.C04', 'Snowflake.Broker.C04.quiescent_fresh_client_denied'),
              ('Snowflake.Props.C04', 'Snowflake.Broker.C04.pinned_poll_timeout_vs_match_deadlocks'),
              ('Snowflake.Props.C04', 'Snowflake.Broker.C04.pinned_answer_vs_client_timeout_deadlocks'),
              ('Snowflake.Props.C04', 'Snowflake.Broker.C04.pinned_early_answer_deadlocks'),
              ('Snowflake.Props.C04', 'Snowflake.Broker.C04.fixed_same_schedules_complete'),
              ('Snowflake.Props.C04Reg', 'Snowflake.BrokerReg.C04.gauge_counts_registrations'),
              ('Snowflake.Props.C04Reg', 'Snowflake.BrokerReg.C04.gauge_nonneg'),
              ('Snowflake.Props.C04Reg', 'Snowflake.BrokerReg.C04.map_names_registered'),
              ('Snowflake.Props.C04Reg', 'Snowflake.BrokerReg.C04.quiescent_clean_any_sids')],
 'ties': [('Snowflake.Tie.Broker', 'Snowflake.Tie.Broker.skel_Broker_tie'),
          ('Snowflake.Tie.Broker', 'Snowflake.Tie.Broker.skel_RequestOffer_tie'),
          ('Snowflake.Tie.Broker', 'Snowflake.Tie.Broker.skel_AddSnowflake_tie'),
          ('Snowflake.Tie.Broker', 'Snowflake.Tie.Broker.skel_matchSnowflake_tie'),
          ('Snowflake.Tie.Broker', 'Snowflake.Tie.Broker.skel_ClientOffers_tie'),
          ('Snowflake.Tie.Broker', 'Snowflake.Tie.Broker.skel_ProxyAnswers_tie'),
          ('Snowflake.Tie.Broker', 'Snowflake.Tie.Broker.skel_ProxyPollsTail_tie'),
          ('Snowflake.Tie.Broker', 'Snowflake.Tie.Broker.skel_heap_Less_tie'),
          ('Snowflake.Tie.Broker', 'Snowflake.Tie.Broker.skel_heap_Swap_tie'),
          ('Snowflake.Tie.Broker', 'Snowflake.Tie.Broker.skel_heap_Push_tie'),
          ('Snowflake.Tie.Broker', 'Snowflake.Tie.Broker.skel_heap_Pop_tie'),
          ('Snowflake.Tie.Broker', 'Snowflake.Tie.Broker.registration_sites'),
          ('Snowflake.Tie.Broker', 'Snowflake.Tie.Broker.timeouts_positive'),
          ('Snowflake.Tie.Broker', 'Snowflake.Tie.Broker.nat_names_distinct')],
 'harness': [{'pkg': 'broker', 'test': 'TestVerifC04$', 'timeout': '12m'}],
 'optional_overlay': {'broker/zz_verif_core_internals_test.go': 'broker_core_internals_test.go'},
 'overlay': {'broker/zz_verif_core_test.go': 'broker_core_test.go'},
 'rule': 'cases = independent real brokers (NewBrokerContext + Broker goroutine + IPC methods) each driven through a '
         'generated quiet history (polls with generated NAT type incl. absent/empty and client counts, clients with '
         'generated NAT and fingerprint (default, named, omitted, unknown), answers prompt / early / late / for '
         'unknown ids / duplicated, two timeout generations) whose annotated event list is replayed on the Lean model, '
         "plus forced-race schedules (timer between two lock acquisitions, forced with the package's own "
         'snowflakeLock) compared with explicit label traces; non-trivial = at least one event; distinct = distinct '
         '(class, event list)'
         " Plus oracle-only scenarios outside the model's quantifier (a proxy polling again under the same session id while its earlier match is still in progress, answered and unanswered): every request completes, nothing registered, gauge 0 and a fresh client denied at quiescence. The template that replays ClientOffers' statements by hand lives in an optional harness part that is dropped when it no longer compiles.",
 'level_text': 'From every reachable state of the broker model every unfinished poll / client / answer request is '
               'driven to its response by at most 8 / 6 / 2 system steps (timer firings included), proved by a rank '
               'argument over an inductive invariant; at quiescence both heaps and the id map are empty, the gauge is '
               '0 and a fresh client is denied. The originally pinned skeleton has kernel-checked deadlock witnesses; '
               'both defects were re-found on the real broker by forced schedules and repaired (fix: commits). The '
               '"no leftover registrations" clause is proved a second time on a reduced registration model '
               '(Model/BrokerReg.lean: numbered polls with ARBITRARY session ids; add / timeout / pop / cleanup) without '
               'the distinct-ids assumption: the gauge always equals the number of polls holding a registration (never '
               'negative), the id map only names such polls, and once every poll has completed the gauge is 0 and the id '
               'map is empty - also when an id polls again while its earlier poll is still queued or matched.',
 'level_note': 'Trusted: Lean kernel; the hand-written LTS (atomic critical sections, rendezvous channels, abstract '
               'time: timers are nondeterministic; pools abstracted to sets with a clients-minimal pop - '
               'container/heap itself is verified separately in Base/Heap for C17 and tied by skeleton + observed on '
               "the real heaps); poll identity = session id (pairwise distinct ids are in the property's quantifier); "
               'net/http, prometheus and geoip are outside the model; Go mutex FIFO hand-off is used by the forcing '
               'harness only, never by a theorem.',
 'design_ref': 'DESIGN.md §5.4',
 'assumptions': ['timers eventually fire',
                 'session ids of concurrent polls are pairwise distinct (progress / completion theorems of the full LTS only; the registration accounting theorems of Props/C04Reg hold for arbitrary ids)',
                 'no system step of another request disables an enabled step (commutation, argued not proved)'],
 'race': True}

SPEC['rule'] += (' Added after the seeded-change rounds: ' +
    "Oracle-only scenarios (shared with C02/C03): same-sid-two-idle-polls (both polls under one id must complete at their timeouts and leave gauge and id map clean), an answer that arrives before any offer followed by the poll's timeout, several polls whose timers fall in the same millisecond.")

SPEC['thorough_passes'] = 3  # the thorough tier runs the whole harness under this many consecutive seeds

SPEC['rule'] += (' ' +
    'Added after round four: clients whose requests come through the real HTTP handlers (POST and AMP GET), are matched and then drop their connection: the registration must be gone at the client timeout.')
