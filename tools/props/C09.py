"""Registry entry for C09 (see tools/registry.py)."""

SPEC = {'id': 'C09',
 'modules': ['Snowflake.Props.C09', 'Snowflake.Tie.Encap'],
 'theorems': [('Snowflake.Props.C09', 'Snowflake.Encap.C09.roundtrip'),
              ('Snowflake.Props.C09', 'Snowflake.Encap.C09.fragmentation_independent'),
              ('Snowflake.Props.C09', 'Snowflake.Encap.C09.roundtrip_fragmented'),
              ('Snowflake.Props.C09', 'Snowflake.Encap.C09.encoding_unambiguous'),
              ('Snowflake.Props.C09', 'Snowflake.Encap.C09.streams_concatenate'),
              ('Snowflake.Props.C09', 'Snowflake.Encap.C09.padding_exact'),
              ('Snowflake.Props.C09', 'Snowflake.Encap.C09.maxData_fits'),
              ('Snowflake.Props.C09', 'Snowflake.Encap.C09.maxData_within_one'),
              ('Snowflake.Props.C09', 'Snowflake.Encap.C09.maxData_mono'),
              ('Snowflake.Props.C09', 'Snowflake.Encap.C09.maxData_bounded'),
              ('Snowflake.Props.C09', 'Snowflake.Encap.C09.pinned_zero_read_misparses'),
              ('Snowflake.Props.C09', 'Snowflake.Encap.C09.pinned_data_with_eof_loses_chunk')],
 'ties': [('Snowflake.Tie.Encap', 'Snowflake.Tie.Encap.dataPrefix_tie'),
          ('Snowflake.Tie.Encap', 'Snowflake.Tie.Encap.paddingSwitch_tie'),
          ('Snowflake.Tie.Encap', 'Snowflake.Tie.Encap.paddingBufferLen_tie')],
 'level_text': 'All clauses are kernel-checked theorems over the model of encapsulation.go: round trip for every item '
               'sequence, independence from every contract-respecting reader fragmentation (unbounded scripts), '
               'padding exact and invisible, size budget never exceeded. The encoder side of the model is regenerated '
               'from the Go source and proved equal to it; the decoder loop is tied by differential runs of the real '
               'ReadData against the compiled model.',
 'level_note': 'Trusted: Lean kernel; the translator for dataPrefixForLength / the WritePadding switch (int emitted '
               "over Nat); the hand-written model of ReadData's loop, io.ReadFull and io.CopyN (validated "
               'differentially, not verified); allocation bound = announced chunk length is read off the model, not '
               'measured.',
 'design_ref': 'DESIGN.md §5.9',
 'harness': {'pkg': 'common/encapsulation', 'test': 'TestVerifC09'},
 'overlay': {'common/encapsulation/zz_verif_c09_test.go': 'c09_encapsulation_test.go'},
 'rule': 'cases = prefix lengths, padding sizes, size budgets, byte streams (valid item sequences on every prefix '
         'boundary, truncations, mutations, random bytes, non-minimal encodings) each read whole and through scripted '
         'fragmenting readers (zero-length reads, data+EOF) and io.Pipe; a case is non-trivial when its stream/script '
         'is non-empty; distinct = distinct (class, canonical case line)'
         ' Also: four independent streams written concurrently through writers that stall at random (each reads back exactly its own chunks); prefixes whose third byte announces a continuation are rejected as too long at that point, on a truncated and on an open stream.',
 'trusted': ['Go stdlib modelled: io.ReadFull, io.CopyN(ioutil.Discard), io.Pipe zero-length writes'],
 'assumptions': ["ReadData's reader obeys the io.Reader contract and eventually stops returning (0, nil)"]}

SPEC['rule'] += (' Added after the seeded-change rounds: ' +
    'Concurrent streams over one stalling writer; paddings: 64 KiB random padding buffers, 3 MiB of consecutive paddings decoded in a child process with a 32 MiB stack limit (bounded memory, no recursion); too-long prefixes decided at the third prefix byte (oracle, independent of the model); every case evaluated twice in different orders (vh.Independent).')

SPEC['thorough_passes'] = 6  # the thorough tier runs the whole harness under this many consecutive seeds
