"""Registry entry for C19 (see tools/registry.py)."""

_P = 'Snowflake.Props.C19'
_T = 'Snowflake.Tie.Metrics'
_R = 'Snowflake.Tie.MetricsReader'
_N = 'Snowflake.Metrics.C19.'
_TN = 'Snowflake.Tie.Metrics.'

SPEC = {'id': 'C19',
 'modules': [_P, _T, _R],
 'theorems': [(_P, _N + t) for t in (
     'ceil8_spec', 'rounded_unique', 'log_counts_rounded', 'log_counts_ok',
     'ceil8_mono', 'ceil8_idem', 'ceil8_zero_iff', 'ceil8_fixed_iff', 'ceil8_bucket',
     'rounded_serial', 'lts_solo_inc_is_serial', 'rounded_concurrent', 'rounded_concurrent_quiescent', 'repaired_mutex',
     'pinned_concurrent_overshoot', 'pinned_total12_published24', 'pinned_observable_undershoot',
     'unique_once_per_type', 'totals_are_sums', 'nat_sets_sound',
     'window_selects', 'merged_count_exact', 'reader_exact_or_error', 'pinned_reader_silently_drops',
     'only_hashes_stored', 'writer_chunks_are_sets')],
 'ties': [(_T, _TN + t) for t in (
     'incGuard_tie', 'readerSkip_tie', 'knownProxyTypes_tie', 'natConsts_tie', 'binCount_src_tie',
     'inc_body_tie', 'metrics_lock_balanced', 'plain_counters_under_lock', 'country_stats_under_lock',
     'rounded_inc_serialised', 'rounded_inc_sites', 'printMetrics_tie', 'updateCountryStats_tie', 'zeroMetrics_tie',
     'sink_only_masked', 'writer_add_tie', 'writer_flush_tie')]
         + [(_R, 'Snowflake.Tie.MetricsReader.' + t) for t in ('readerLimit_tie', 'reader_scanner_tie')],
 'harness': [{'pkg': 'broker', 'test': 'TestVerifC19Broker'},
             {'pkg': 'common/ipsetsink', 'test': 'TestVerifC19Sink'},
             {'pkg': 'common/ipsetsink/sinkcluster', 'test': 'TestVerifC19Cluster'}],
 'overlay': {'broker/zz_verif_c19_test.go': 'c19_broker_test.go',
             'common/ipsetsink/zz_verif_c19_test.go': 'c19_ipsetsink_test.go',
             'common/ipsetsink/sinkcluster/zz_verif_c19_test.go': 'c19_sinkcluster_test.go'},
 'race': True,
 'rule': 'cases = binCount on 0..10^5, powers of two +-1 up to 2^53 and random values below 2^53; roundedCounter after '
         'every one of N serial Inc(); goroutine herds (2..16 goroutines x 5..2000 Inc(), with and without a concurrent '
         'scraper) checked at quiescence; request histories (polls with/without relay-URL extension ending rejected / '
         'idle / matched, clients denied / matched / timed out, period ends) driven through the real IPC.ProxyPolls and '
         'IPC.ClientOffers sequentially and in concurrent batches, read back through printMetrics and the Prometheus '
         'registry; UpdateCountryStats on generated (address, type, NAT) multisets with and without geoip over one or two '
         'periods; IPSetSink on address multisets; ClusterWriter/ClusterCounter on generated chunkings with windows on and '
         'around every chunk boundary; non-trivial = at least one event / update / address; distinct = distinct (class, case line)',
 'level_text': 'proof-partial. Theorems over the model: ceil8 is the unique value satisfying the rounding clause; every '
               'event count of the metrics log is ceil8 of the number of matching requests since the last period end, for '
               'all histories; a rounded counter equals ceil8(total) after any number of serialised Inc(), and — for the '
               'repaired Inc that holds the counter\'s mutex — in every interleaving of any number of threads whenever the '
               'mutex is free (every scrape, every quiescent state); kernel-checked witnesses show the pinned Inc violates '
               'this (total 2 published 16; total 12 published 24). Addresses count once per proxy type; totals are sums of '
               'set sizes; the reader merges exactly the chunks inside the window and the merged count is the number of '
               'distinct masked values; the writer is a function of masked values only. Ties: Inc guard, reader window '
               'condition, constants and KnownProxyTypes translated from the source; binCount by source text; skeleton '
               'obligations for Inc/Write (mutex), every counter update site of ipc.go w.r.t. metrics.lock, printMetrics, '
               'sink, writer. Harness: correspondence with the compiled model plus independent oracles on the real code.',
 'level_note': 'Modelled, not verified: float64 exactness of binCount below 2^53 (sampled on 0..10^5, powers of two +-1, '
               'random); HyperLogLog++ as an exact finite set (exact regime checked on the real library for small sets; '
               'accuracy for large sets not claimed), gob/JSON encoding of the journal, HMAC-SHA3 as the masking parameter; '
               'time.Time comparisons as a linear order on instants; the geoip table (country of an address is an input). '
               'zeroMetrics runs without the metrics lock (F14): its races with concurrent updates are C20\'s subject; here '
               'period ends are modelled as atomic. ProxyTotal (unique IPs per country in Prometheus) is an unrounded '
               'counter and is outside the rounding clause.',
 'design_ref': 'DESIGN.md §5.19, §6 F13',
 'trusted': ['Go stdlib / third party modelled: sync.Mutex, sync/atomic (one atomic step per access), prometheus MetricVec label lookup, hyperloglog (exact for small sets), time.Time order, geoip table'],
 'assumptions': ['event counts stay below 2^53 within a period (float64 path of binCount exact)',
                 'each read/atomic add of roundedCounter.total/value is one atomic step (word-sized, aligned)',
                 'the sketch is exact for the set sizes checked (no two masked values share a sparse-index cell)']}

SPEC['thorough_passes'] = 2  # the thorough tier runs the whole harness under this many consecutive seeds

SPEC['rule'] += (' ' +
    'Added after rounds four and five: zoned link-local addresses; explicitly empty (accept-all) relay patterns; the glue between the poll handler and the distinct-IP journal (addresses that poll again in later chunks of the same period).')
