"""Registry entry for C03 (see tools/registry.py)."""

SPEC = {'id': 'C03',
 'modules': ['Snowflake.Props.C03', 'Snowflake.Tie.Broker'],
 'theorems': [('Snowflake.Props.C03', 'Snowflake.Broker.C03.match_compatible'),
              ('Snowflake.Props.C03', 'Snowflake.Broker.C03.denied_only_if_pool_empty'),
              ('Snowflake.Props.C03', 'Snowflake.Broker.C03.match_is_min_clients'),
              ('Snowflake.Props.C03', 'Snowflake.Broker.C03.match_or_deny'),
              ('Snowflake.Props.C03', 'Snowflake.Broker.C03.waiting_mem')],
 'ties': [('Snowflake.Tie.Broker', 'Snowflake.Tie.Broker.skel_Broker_tie'),
          ('Snowflake.Tie.Broker', 'Snowflake.Tie.Broker.skel_RequestOffer_tie'),
          ('Snowflake.Tie.Broker', 'Snowflake.Tie.Broker.skel_AddSnowflake_tie'),
          ('Snowflake.Tie.Broker', 'Snowflake.Tie.Broker.skel_matchSnowflake_tie'),
          ('Snowflake.Tie.Broker', 'Snowflake.Tie.Broker.skel_ClientOffers_tie'),
          ('Snowflake.Tie.Broker', 'Snowflake.Tie.Broker.skel_ProxyAnswers_tie'),
          ('Snowflake.Tie.Broker', 'Snowflake.Tie.Broker.skel_ProxyPollsTail_tie'),
          ('Snowflake.Tie.Broker', 'Snowflake.Tie.Broker.skel_heap_Less_tie'),
          ('Snowflake.Tie.Broker', 'Snowflake.Tie.Broker.skel_heap_Swap_tie'),
          ('Snowflake.Tie.Broker', 'Snowflake.Tie.Broker.skel_heap_Push_tie'),
          ('Snowflake.Tie.Broker', 'Snowflake.Tie.Broker.skel_heap_Pop_tie'),
          ('Snowflake.Tie.Broker', 'Snowflake.Tie.Broker.timeouts_positive'),
          ('Snowflake.Tie.Broker', 'Snowflake.Tie.Broker.nat_names_distinct')],
 'harness': [{'pkg': 'broker', 'test': 'TestVerifC03$', 'timeout': '12m'}],
 'optional_overlay': {'broker/zz_verif_core_internals_test.go': 'broker_core_internals_test.go'},
 'overlay': {'broker/zz_verif_core_test.go': 'broker_core_test.go'},
 'rule': 'cases = independent real brokers (NewBrokerContext + Broker goroutine + IPC methods) each driven through a '
         'generated quiet history (polls with generated NAT type incl. absent/empty and client counts, clients with '
         'generated NAT and fingerprint (default, named, omitted, unknown), answers prompt / early / late / for '
         'unknown ids / duplicated, two timeout generations) whose annotated event list is replayed on the Lean model, '
         "plus forced-race schedules (timer between two lock acquisitions, forced with the package's own "
         'snowflakeLock) compared with explicit label traces; non-trivial = at least one event; distinct = distinct '
         '(class, event list)',
 'level_text': 'Theorems over every reachable state / every enabled match or denial of the broker model: NAT '
               'compatibility of every match, refusal only when the eligible pool is empty, the matched proxy is '
               'clients-minimal in the eligible pool, and match/deny are exhaustive and exclusive. Pool choice, push '
               "choice and heap order are tied to the source by regenerated skeletons; the real broker's matches are "
               "validated against the model's guards on generated mixed populations.",
 'level_note': 'Trusted: Lean kernel; the hand-written LTS (atomic critical sections, rendezvous channels, abstract '
               'time: timers are nondeterministic; pools abstracted to sets with a clients-minimal pop - '
               'container/heap itself is verified separately in Base/Heap for C17 and tied by skeleton + observed on '
               "the real heaps); poll identity = session id (pairwise distinct ids are in the property's quantifier); "
               'net/http, prometheus and geoip are outside the model; Go mutex FIFO hand-off is used by the forcing '
               'harness only, never by a theorem.',
 'design_ref': 'DESIGN.md §5.3',
 'assumptions': ['timers eventually fire',
                 'session ids of concurrent polls are pairwise distinct',
                 'no system step of another request disables an enabled step (commutation, argued not proved)'],
 'race': True}

SPEC['rule'] += (' Added after the seeded-change rounds: ' +
    'Oracle-only scenarios (shared with C02/C04, run one at a time against the real broker): many-waiting-proxies (300 restricted proxies, then clients of both kinds), same-sid-repoll-with-other-nat (an eligible proxy must not be lost when its id is polled again with another NAT type), nat-spellings (every accepted and rejected spelling of the NAT type on both sides).')

SPEC['thorough_passes'] = 3  # the thorough tier runs the whole harness under this many consecutive seeds

SPEC['rule'] += (' ' +
    'Added after round five: scenario other-entry-points (a poll announcing version 1.10 as raw JSON over the real /proxy handler, a legacy client with the Snowflake-NAT-Type header over the real /client handler); many-waiting-proxies now parks 1100 restricted proxies between two pairs of unrestricted ones.')
