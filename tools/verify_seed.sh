#!/bin/sh
# usage: verify_seed.sh <worktree> <seed dir> <pkg dir> [ldflags] [extra flags for the demo runs, e.g. -race]
# Confirms: patch applies; package builds; existing tests pass with the patch; demo fails with the patch and passes without.
WT=$1; D=$2; PKG=$3; LDF=$4; DF=$5
export GOFLAGS=-mod=mod GOPROXY=off GOSUMDB=off GOTOOLCHAIN=local
mkdir -p /tmp/seedmod; cp $WT/go.mod /tmp/seedmod/repo.go.mod; cp $WT/go.sum /tmp/seedmod/repo.go.sum
GT="go test -modfile=/tmp/seedmod/repo.go.mod -vet=off -count=1 $LDF"
cd $WT && git checkout -q -- . && git clean -fdq
git apply $D/patch.diff || { echo "RESULT apply-failed"; exit 1; }
$GT ./$PKG/ > /tmp/seed_existing.log 2>&1; e1=$?
cp $D/demo_test.go $WT/$PKG/zz_demo_test.go
$GT $DF -run 'Demo' ./$PKG/ > /tmp/seed_demo_with.log 2>&1; e2=$?
git checkout -q -- .
$GT $DF -run 'Demo' ./$PKG/ > /tmp/seed_demo_without.log 2>&1; e3=$?
rm -f $WT/$PKG/zz_demo_test.go; git checkout -q -- . ; git clean -fdq
echo "RESULT existing_tests_with_patch=$e1 demo_with_patch=$e2 demo_without_patch=$e3"
[ $e1 = 0 ] && [ $e2 != 0 ] && [ $e3 = 0 ] && echo "CONFIRMED" || { echo "NOT CONFIRMED"; tail -5 /tmp/seed_existing.log /tmp/seed_demo_with.log /tmp/seed_demo_without.log; }
