#!/usr/bin/env python3
"""Regenerate the generated parts of DESIGN.md (between <!-- BEGIN GENERATED x --> / <!-- END GENERATED x -->):
   asbuilt : per property, what the registered check consists of (from tools/props/*.py)
   seeded  : the seeded changes kept under /verif/seeded and what caught each (from meta.json)"""
import json
import os
import re
import sys

HERE = os.path.dirname(os.path.abspath(__file__))
VERIF = os.path.dirname(HERE)
sys.path.insert(0, HERE)
from registry import PROPS  # noqa: E402


def asbuilt():
    out = []
    for pid in sorted(PROPS):
        s = PROPS[pid]
        hs = s.get("harness") or []
        if isinstance(hs, dict):
            hs = [hs]
        out.append(f"**{pid}** — {len(s['theorems'])} property theorems + {len(s.get('ties', []))} tie obligations "
                   f"(modules {', '.join('`' + m.replace('Snowflake.', '') + '`' for m in s['modules'])}); "
                   f"harness: {', '.join('`' + h['pkg'] + ' ' + h['test'].rstrip('$') + '`' + (' (-race)' if h.get('race') else '') for h in hs) or 'none'}.")
        out.append("")
        out.append("*Decided:* " + s.get("level_text", "").strip())
        out.append("")
        out.append("*Trusted / not covered:* " + s.get("level_note", "").strip())
        out.append("")
        out.append("*Cases:* " + s.get("rule", "").strip())
        out.append("")
    return "\n".join(out)


def seeded():
    d = os.path.join(VERIF, "seeded")
    rows = ["| Seed | Package | Change (as described by its author, who saw only the property text) | Caught by |", "|---|---|---|---|"]
    for name in sorted(os.listdir(d)) if os.path.isdir(d) else []:
        mp = os.path.join(d, name, "meta.json")
        if not os.path.exists(mp):
            continue
        m = json.load(open(mp))
        what = re.sub(r"\s+", " ", str(m.get("what") or "")).replace("|", "\\|")
        if len(what) > 330:
            what = what[:327] + "…"
        caught = re.sub(r"\s+", " ", str(m.get("caught_by") or "")).replace("|", "\\|")
        rows.append(f"| {name} | {m.get('package')} | {what} | {caught} |")
    return "\n".join(rows)


def main():
    p = os.path.join(VERIF, "DESIGN.md")
    s = open(p).read()
    for key, gen in (("asbuilt", asbuilt), ("seeded", seeded)):
        a, b = f"<!-- BEGIN GENERATED {key} -->", f"<!-- END GENERATED {key} -->"
        if a in s and b in s:
            s = s[:s.index(a) + len(a)] + "\n" + gen() + "\n" + s[s.index(b):]
    open(p, "w").write(s)
    print("DESIGN.md tables regenerated")


if __name__ == "__main__":
    main()
