#!/bin/sh
# usage: seedtest.sh <prop> <patch.diff> [tier]  — apply a seeded change to /repo, run the check, undo.
# The property's evidence file and the regenerated Lean modules are restored afterwards: committed evidence
# must come from runs on the unchanged tree only.
P=$1; D=$2; T=${3:-quick}
cd /verif
[ -f evidence/$P.json ] && cp evidence/$P.json /tmp/seedtest_evidence_$P.json
git -C /repo apply "$D" || { echo "patch does not apply"; exit 2; }
python3 run.py $P $T; rc=$?
git -C /repo checkout -- .
echo "seedtest $P $(basename $(dirname $D)): exit=$rc"
[ -f evidence/replay/$P-1.json ] && head -c 900 evidence/replay/$P-1.json
[ -f /tmp/seedtest_evidence_$P.json ] && mv /tmp/seedtest_evidence_$P.json evidence/$P.json
rm -f evidence/replay/$P-*.json
git checkout -q -- lean/Snowflake/Generated 2>/dev/null
exit 0
