#!/bin/sh
# usage: seedtest.sh <prop> <patch.diff> [tier]  — apply a seeded change to /repo, run the check, undo.
P=$1; D=$2; T=${3:-quick}
cd /verif
git -C /repo apply "$D" || { echo "patch does not apply"; exit 2; }
python3 run.py $P $T; rc=$?
git -C /repo checkout -- .
echo "seedtest $P $(basename $(dirname $D)): exit=$rc"
[ -f evidence/replay/$P-1.json ] && head -c 900 evidence/replay/$P-1.json
exit 0
