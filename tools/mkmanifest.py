#!/usr/bin/env python3
"""Regenerate /verif/MANIFEST.json from tools/registry.py."""
import json
import os
import sys

HERE = os.path.dirname(os.path.abspath(__file__))
sys.path.insert(0, HERE)
from registry import PROPS, NOT_APPLICABLE  # noqa: E402

checks = []
for pid in sorted(PROPS):
    s = PROPS[pid]
    checks.append({
        "property_id": pid,
        "quick_cmd": f"python3 run.py {pid} quick",
        "thorough_cmd": f"python3 run.py {pid} thorough",
        "evidence_file": f"/verif/evidence/{pid}.json",
        "replay_cmd_template": f"python3 run.py {pid} replay {{path}}",
        "engine": "lean4-proof+correspondence",
        "level_claimed": {"category": "proof", "text": s["level_text"], "design_ref": s.get("design_ref", "DESIGN.md §5")},
        "level_note": s["level_note"],
        "technique": s.get("technique", "Lean 4 theorems over an executable model; model tied to the source by a regenerating translator and a differential correspondence check"),
    })

manifest = {
    "version": 1,
    "setup_cmd": "python3 run.py setup",
    "hooks": {
        "guard": "verif",
        "enable": "go test -tags verif -overlay=<json mapping virtual zz_verif_*_test.go and common/zzverif into the package> (no file is added to /repo)",
        "baseline_off_cmd": "sh /verif/tools/baseline.sh",
        "source_commits": [],
        "add_only": True,
    },
    "engines": [
        {"name": "lean4-proof+correspondence", "path": "/verif/run.py", "serves_properties": sorted(PROPS),
         "kind_free_text": "Lean 4 kernel-checked theorems about executable models (lean/Snowflake); /verif/extract regenerates constants, "
                           "translated functions, regexes and synchronisation skeletons from /repo on every run (tie obligations); "
                           "/verif/harness drives the real Go code in-process (go test -overlay) against the compiled model (sfdriver) "
                           "and evaluates the property oracle on the real code"},
    ],
    "checks": checks,
    "not_applicable": [{"property_id": k, "reason": v} for k, v in sorted(NOT_APPLICABLE.items()) if k not in PROPS],
    "notes": "See DESIGN.md. known_findings.txt lists recorded findings and fixed defects. Checks take file locks, so they may be run in parallel.",
}
with open(os.path.join(os.path.dirname(HERE), "MANIFEST.json"), "w") as f:
    json.dump(manifest, f, indent=1)
print("MANIFEST.json:", len(checks), "checks,", len(manifest["not_applicable"]), "not applicable")
