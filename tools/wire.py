#!/usr/bin/env python3
"""wire.py <dispatch-key> <Driver module suffix> [root imports...] — add a driver to Driver/Main.lean and imports to Snowflake.lean."""
import sys
key, mod, imports = sys.argv[1], sys.argv[2], sys.argv[3:]
p = '/verif/lean/Driver/Main.lean'
s = open(p).read()
if f'import Driver.{mod}\n' not in s:
    s = s.replace('/-!\n`sfdriver`', f'import Driver.{mod}\n/-!\n`sfdriver`', 1)
    s = s.replace('  | _ => "bad-op"\n\npartial def loop', f'  | "{key}" :: rest => Driver.{mod}.handle rest\n  | _ => "bad-op"\n\npartial def loop', 1)
    open(p, 'w').write(s)
p = '/verif/lean/Snowflake.lean'
s = open(p).read()
for i in imports:
    if f'import {i}\n' not in s:
        s += f'import {i}\n'
open(p, 'w').write(s)
