"""Per-property registry.  Each tools/props/Cxx.py defines SPEC = {...}:

  id            property id
  modules       Lean modules to build for this property (Props + Tie modules)
  theorems      [(module, fully.qualified.theorem)]  property theorems (obligations)
  ties          [(module, fully.qualified.theorem)]  tie obligations (regenerated facts = model)
  harness       one dict or a list of {pkg, test[, checklinkname, timeout, timeout_s]}: Go harness tests run in /repo/<pkg>
  overlay       {virtual path under /repo: file under /verif/harness}
  rule          how cases are generated and what counts as distinct / non-trivial
  level_text / level_note / design_ref / technique / assumptions / trusted   (MANIFEST + evidence texts)
  race          True if the thorough tier should also run the harness with -race
"""
import importlib
import os
import sys

TRUSTED_BASE = [
    "Lean 4.33.0 kernel (leanchecker re-check in thorough tier); axioms allowed: propext, Classical.choice, Quot.sound",
    "translator /verif/extract (go/parser + regexp/syntax + emission code); refusals fail the build",
    "correspondence harness /verif/harness (generators, canonicalisation, recover/deadline classification)",
    "Lean compiler for sfdriver (differential runs only, never for theorems)",
]

HERE = os.path.dirname(os.path.abspath(__file__))
sys.path.insert(0, HERE)
PROPS = {}
for fn in sorted(os.listdir(os.path.join(HERE, "props"))):
    if fn.startswith("C") and fn.endswith(".py"):
        mod = importlib.import_module("props." + fn[:-3])
        PROPS[mod.SPEC["id"]] = mod.SPEC

ALL_IDS = ["C%02d" % i for i in range(1, 21)]
NOT_APPLICABLE_REASONS = {}
NOT_APPLICABLE = {p: NOT_APPLICABLE_REASONS.get(p, "check not built yet in this round (planned, see DESIGN.md §9); not claimed")
                  for p in ALL_IDS if p not in PROPS}
