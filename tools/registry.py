"""Per-property registry: Lean modules, obligations (property theorems + ties), harness."""

TRUSTED_BASE = [
    "Lean 4.33.0 kernel (leanchecker re-check in thorough tier); axioms allowed: propext, Classical.choice, Quot.sound",
    "translator /verif/extract (go/parser + regexp/syntax + emission code); refusals fail the build",
    "correspondence harness /verif/harness (generators, canonicalisation, recover/deadline classification)",
    "Lean compiler for sfdriver (differential runs only, never for theorems)",
]

E = "Snowflake.Props.C09"
PROPS = {
    "C09": {
        "id": "C09",
        "modules": ["Snowflake.Props.C09", "Snowflake.Tie.Encap"],
        "theorems": [
            ("Snowflake.Props.C09", "Snowflake.Encap.C09.roundtrip"),
            ("Snowflake.Props.C09", "Snowflake.Encap.C09.fragmentation_independent"),
            ("Snowflake.Props.C09", "Snowflake.Encap.C09.roundtrip_fragmented"),
            ("Snowflake.Props.C09", "Snowflake.Encap.C09.padding_exact"),
            ("Snowflake.Props.C09", "Snowflake.Encap.C09.maxData_fits"),
            ("Snowflake.Props.C09", "Snowflake.Encap.C09.maxData_within_one"),
            ("Snowflake.Props.C09", "Snowflake.Encap.C09.pinned_zero_read_misparses"),
            ("Snowflake.Props.C09", "Snowflake.Encap.C09.pinned_data_with_eof_loses_chunk"),
        ],
        "ties": [
            ("Snowflake.Tie.Encap", "Snowflake.Tie.Encap.dataPrefix_tie"),
            ("Snowflake.Tie.Encap", "Snowflake.Tie.Encap.paddingSwitch_tie"),
            ("Snowflake.Tie.Encap", "Snowflake.Tie.Encap.paddingBufferLen_tie"),
        ],
        "level_text": "All clauses are kernel-checked theorems over the model of encapsulation.go: round trip for every item sequence, "
                      "independence from every contract-respecting reader fragmentation (unbounded scripts), padding exact and invisible, "
                      "size budget never exceeded. The encoder side of the model is regenerated from the Go source and proved equal to it; "
                      "the decoder loop is tied by differential runs of the real ReadData against the compiled model.",
        "level_note": "Trusted: Lean kernel; the translator for dataPrefixForLength / the WritePadding switch (int emitted over Nat); "
                      "the hand-written model of ReadData's loop, io.ReadFull and io.CopyN (validated differentially, not verified); "
                      "allocation bound = announced chunk length is read off the model, not measured.",
        "design_ref": "DESIGN.md §5.9",
        "harness": {"pkg": "common/encapsulation", "test": "TestVerifC09"},
        "overlay": {"common/encapsulation/zz_verif_c09_test.go": "c09_encapsulation_test.go"},
        "rule": "cases = prefix lengths, padding sizes, size budgets, byte streams (valid item sequences on every prefix boundary, "
                "truncations, mutations, random bytes, non-minimal encodings) each read whole and through scripted fragmenting "
                "readers (zero-length reads, data+EOF) and io.Pipe; a case is non-trivial when its stream/script is non-empty; "
                "distinct = distinct (class, canonical case line)",
        "trusted": ["Go stdlib modelled: io.ReadFull, io.CopyN(ioutil.Discard), io.Pipe zero-length writes"],
        "assumptions": ["ReadData's reader obeys the io.Reader contract and eventually stops returning (0, nil)"],
    },
}

PROPS["C06"] = {
    "id": "C06",
    "modules": ["Snowflake.Props.C06", "Snowflake.Tie.NameMatcher"],
    "theorems": [("Snowflake.Props.C06", "Snowflake.NameMatcher.C06." + t) for t in [
        "superset_sound", "superset_sound_rules", "broker_check_sound", "broker_rejects_iff",
        "proxy_accepts_only_member_and_wss", "empty_url_not_rejected", "proxy_rejects_outside"]],
    "ties": [("Snowflake.Tie.NameMatcher", "Snowflake.Tie.NameMatcher." + t) for t in [
        "new_tie", "isValidRule_tie", "isSupersetOf_tie", "isMember_tie", "proxyRejects_tie", "proxyPolls_check_precedes_offer"]],
    "harness": [{"pkg": "common/namematcher", "test": "TestVerifC06Matcher"},
                {"pkg": "broker", "test": "TestVerifC06Broker"}],
    "overlay": {"common/namematcher/zz_verif_c06_test.go": "c06_namematcher_test.go",
                "broker/zz_verif_c06_test.go": "c06_broker_test.go"},
    "rule": "cases = (pattern, pattern, hostname) triples built to share suffixes (with/without ^ and $, empty, doubled anchors), "
            "broker configurations (allowed, presumed, proxy pattern, legacy flag) through the real CheckProxyRelayPattern and "
            "the real IPC.ProxyPolls; non-trivial = superset or membership holds / every broker case; distinct = distinct (class, case line)",
    "level_text": "The superset-implies-membership law is a theorem for all matchers, patterns and hostnames; the broker check and the proxy's "
                  "acceptance condition are theorems over definitions that are regenerated from the Go source (matcher functions and the "
                  "runSession condition are translated and proved equal to the model by rfl); the ordering 'pattern check and return before "
                  "RequestOffer' is a regenerated skeleton obligation; real matcher, CheckProxyRelayPattern and IPC.ProxyPolls are run "
                  "against the model and the property oracle.",
    "level_note": "Trusted: Lean kernel; translator (strings.HasPrefix/HasSuffix/TrimPrefix/TrimSuffix modelled on byte lists); net/url.Parse "
                  "output (hostname, scheme) is an input to the model, and that the websocket dialer connects to the URL's host is not modelled; "
                  "'never gives such a proxy a client' rests on the rejection preceding registration (skeleton tie + observed on the real IPC).",
    "design_ref": "DESIGN.md §5.6",
    "assumptions": ["net/url.Parse returns the hostname/scheme the dialer will use"],
}

NOT_APPLICABLE = {p: "check not built yet in this round (planned, see DESIGN.md §9); not claimed" for p in
                  ["C01", "C02", "C03", "C04", "C05", "C07", "C08", "C10", "C11", "C12", "C13", "C14", "C15", "C16", "C17", "C18", "C19", "C20"]}
