"""Per-property registry: Lean modules, obligations (property theorems + ties), harness."""

TRUSTED_BASE = [
    "Lean 4.33.0 kernel (leanchecker re-check in thorough tier); axioms allowed: propext, Classical.choice, Quot.sound",
    "translator /verif/extract (go/parser + regexp/syntax + emission code); refusals fail the build",
    "correspondence harness /verif/harness (generators, canonicalisation, recover/deadline classification)",
    "Lean compiler for sfdriver (differential runs only, never for theorems)",
]

E = "Snowflake.Props.C09"
PROPS = {
    "C09": {
        "id": "C09",
        "modules": ["Snowflake.Props.C09", "Snowflake.Tie.Encap"],
        "theorems": [
            ("Snowflake.Props.C09", "Snowflake.Encap.C09.roundtrip"),
            ("Snowflake.Props.C09", "Snowflake.Encap.C09.fragmentation_independent"),
            ("Snowflake.Props.C09", "Snowflake.Encap.C09.roundtrip_fragmented"),
            ("Snowflake.Props.C09", "Snowflake.Encap.C09.padding_exact"),
            ("Snowflake.Props.C09", "Snowflake.Encap.C09.maxData_fits"),
            ("Snowflake.Props.C09", "Snowflake.Encap.C09.maxData_within_one"),
            ("Snowflake.Props.C09", "Snowflake.Encap.C09.pinned_zero_read_misparses"),
            ("Snowflake.Props.C09", "Snowflake.Encap.C09.pinned_data_with_eof_loses_chunk"),
        ],
        "ties": [
            ("Snowflake.Tie.Encap", "Snowflake.Tie.Encap.dataPrefix_tie"),
            ("Snowflake.Tie.Encap", "Snowflake.Tie.Encap.paddingSwitch_tie"),
            ("Snowflake.Tie.Encap", "Snowflake.Tie.Encap.paddingBufferLen_tie"),
        ],
        "harness": {"pkg": "common/encapsulation", "test": "TestVerifC09"},
        "overlay": {"common/encapsulation/zz_verif_c09_test.go": "c09_encapsulation_test.go"},
        "rule": "cases = prefix lengths, padding sizes, size budgets, byte streams (valid item sequences on every prefix boundary, "
                "truncations, mutations, random bytes, non-minimal encodings) each read whole and through scripted fragmenting "
                "readers (zero-length reads, data+EOF) and io.Pipe; a case is non-trivial when its stream/script is non-empty; "
                "distinct = distinct (class, canonical case line)",
        "trusted": ["Go stdlib modelled: io.ReadFull, io.CopyN(ioutil.Discard), io.Pipe zero-length writes"],
        "assumptions": ["ReadData's reader obeys the io.Reader contract and eventually stops returning (0, nil)"],
    },
}
