#!/bin/sh
# usage: sweep.sh "<props>" "<seeds>" [tier] — run checks on the unchanged tree for several seeds; print one line each.
cd /verif
for s in $2; do for p in $1; do
  out=$(VERIF_SEED=$s python3 run.py $p ${3:-quick} 2>&1); rc=$?
  echo "seed=$s rc=$rc $(echo "$out" | grep -c VIOLATION) viol | $(echo "$out" | tail -1)"
  if [ $rc != 0 ]; then echo "$out" | grep "VIOLATION\|KNOWN" | head -5; for f in evidence/replay/$p-*.json; do [ -f $f ] && cp $f /tmp/sweep_$(basename $f .json)_seed$s.json; done; fi
done; done
