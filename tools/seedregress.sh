#!/bin/sh
# usage: seedregress.sh [pattern]  — re-run every stored seeded change (or those matching the pattern) against the
# current checks in a private workspace (/tmp/work/seedreg: copy of /verif + worktree of /repo HEAD); prints one
# line per seed; result table to stdout.  Does not touch /repo or /verif.
PAT=${1:-.}
W=/tmp/work/seedreg
if [ ! -d $W/repo ]; then
  mkdir -p $W
  git -C /repo worktree add -q --detach $W/repo HEAD
fi
git -C $W/repo checkout -q -- . ; git -C $W/repo checkout -q --detach $(git -C /repo rev-parse HEAD)
mkdir -p $W/verif
rsync -a --delete --exclude .git --exclude .cache --exclude evidence /verif/ $W/verif/
mkdir -p $W/verif/evidence
for d in $(ls -d /verif/seeded/C*-* | sort); do
  id=$(basename $d); P=${id%-*}
  echo "$id" | grep -q "$PAT" || continue
  git -C $W/repo apply $d/patch.diff 2>/dev/null || { echo "$id: PATCH-DOES-NOT-APPLY"; continue; }
  out=$(cd $W/verif && VERIF_REPO=$W/repo python3 run.py $P quick 2>&1); rc=$?
  git -C $W/repo checkout -q -- .
  key=$(python3 - <<PY
import json,glob
for f in sorted(glob.glob('$W/verif/evidence/replay/$P-*.json')):
    d=json.load(open(f)); fi=d.get('finding')
    print(fi['key'] if fi else 'no-failing-input-found'); break
PY
)
  echo "$id: exit=$rc $(echo "$out" | grep -c '^VIOLATION') violation line(s); first: $key"
done
