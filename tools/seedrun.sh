#!/bin/sh
# usage: seedrun.sh <Prop> <seeddir>...   (private workspace /tmp/work/seed; syncs /verif first)
W=${SEEDW:-/tmp/work/seed}
P=$1; shift
rsync -a --delete --exclude .git --exclude .cache --exclude evidence --exclude 'lean/.lake' /verif/ $W/verif/
git -C $W/repo checkout -q -- . ; git -C $W/repo checkout -q --detach $(git -C /repo rev-parse HEAD)
for D in "$@"; do
  tag=$(echo $D | sed "s#/tmp/seeded-##; s#/verif/seeded/##; s#/#-#g")
  git -C $W/repo apply $D/patch.diff || { echo "$P $tag: patch does not apply"; continue; }
  rm -f $W/verif/evidence/replay/$P-*.json
  (cd $W/verif && VERIF_REPO=$W/repo python3 run.py $P quick > /tmp/seedrun-$P-$tag.log 2>&1; echo "exit=$?" >> /tmp/seedrun-$P-$tag.log)
  git -C $W/repo checkout -q -- .
  keys=$(cd $W/verif && grep -ho '"key": "[^"]*"' evidence/replay/$P-*.json 2>/dev/null | sort | uniq -c | tr '\n' ';')
  echo "$P $tag: $(grep -c '^VIOLATION' /tmp/seedrun-$P-$tag.log) violation lines; $(grep '^exit=' /tmp/seedrun-$P-$tag.log); $(grep '^VIOLATION' /tmp/seedrun-$P-$tag.log | grep -c no-failing-input) without input; keys: $keys"
done
