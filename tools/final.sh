#!/bin/sh
# End-of-session routine: regenerate every evidence file on the unchanged tree, regenerate MANIFEST / DESIGN tables, validate.
cd /verif
[ -z "$(git -C /repo status --porcelain)" ] || { echo "/repo is not clean"; exit 1; }
sh tools/sweep.sh "C01 C02 C03 C04 C05 C06 C07 C08 C09 C10 C11 C12 C13 C14 C15 C16 C17 C18 C19 C20" "0" quick
python3 tools/mkmanifest.py
python3 tools/mkdesign_tables.py
python3-vt - <<'PY'
import json, jsonschema, glob
ms = json.load(open('/root/.vp/MANIFEST.schema.json')); es = json.load(open('/root/.vp/EVIDENCE.schema.json'))
jsonschema.validate(json.load(open('/verif/MANIFEST.json')), ms)
bad = 0
for p in sorted(glob.glob('/verif/evidence/C*.json')):
    try:
        jsonschema.validate(json.load(open(p)), es)
    except Exception as e:
        bad += 1; print('INVALID', p, str(e)[:200])
print('manifest ok;', len(glob.glob('/verif/evidence/C*.json')), 'evidence files,', bad, 'invalid')
PY
ls evidence/replay 2>/dev/null | head
