import Snowflake.Base.Hex
import Snowflake.Model.ClientAddr
/-! Line protocol for the IP text model, `clientAddr` and the ClientID ring map (C18). -/
namespace Driver.C18
open Snowflake Snowflake.IP Snowflake.ClientAddr

def b (x : Bool) : String := if x then "true" else "false"

/-- `s<key>=<val>` or `g<key>` -/
def parseOp (t : String) : Option (Op Nat Nat) :=
  match t.toList with
  | 's' :: rest =>
    match (String.ofList rest).splitOn "=" with
    | [k, v] => match k.toNat?, v.toNat? with
      | some kk, some vv => some (Op.set kk vv)
      | _, _ => none
    | _ => none
  | 'g' :: rest => (String.ofList rest).toNat?.map Op.get
  | _ => none

def outStr : Option Nat → String
  | some v => toString v
  | none => "none"

def handle : List String → String
  | ["addr", h] =>
    match Hex.decode h with
    | some s => Hex.enc (clientAddr s)
    | none => "bad-op"
  | ["parse", h] =>
    match Hex.decode h with
    | some s => match parseIP s with
      | some ip => Hex.enc ip
      | none => "nil"
    | none => "bad-op"
  | ["render", h] =>
    match Hex.decode h with
    | some ip => Hex.enc (render ip)
    | none => "bad-op"
  | ["pred", h] =>
    match Hex.decode h with
    | some ip => s!"unspec={b (isUnspecified ip)} loopback={b (isLoopback ip)}"
    | none => "bad-op"
  | "ring" :: cap :: ops =>
    match cap.toNat?, ops.mapM parseOp with
    | some n, some os =>
      let (outs, m) := runRing 0 0 (Ring.new 0 0 n) os
      let es := m.entries.map fun e => s!"{e.1}:{e.2}"
      s!"{if outs.isEmpty then "." else ",".intercalate (outs.map outStr)} len={m.current.length} oldest={m.oldest} entries={if es.isEmpty then "." else ",".intercalate es}"
    | _, _ => "bad-op"
  | _ => "bad-op"

end Driver.C18
