import Snowflake.Base.Hex
import Snowflake.Model.ClientAddr
import Snowflake.Model.Attribution
/-! Line protocol for the IP text model, `clientAddr`, the ClientID ring map and the attribution model
(C18). -/
namespace Driver.C18
open Snowflake Snowflake.IP Snowflake.ClientAddr Snowflake.Attribution

def b (x : Bool) : String := if x then "true" else "false"

/-- `s<key>=<val>` or `g<key>` -/
def parseOp (t : String) : Option (Op Nat Nat) :=
  match t.toList with
  | 's' :: rest =>
    match (String.ofList rest).splitOn "=" with
    | [k, v] => match k.toNat?, v.toNat? with
      | some kk, some vv => some (Op.set kk vv)
      | _, _ => none
    | _ => none
  | 'g' :: rest => (String.ofList rest).toNat?.map Op.get
  | _ => none

def outStr : Option Nat → String
  | some v => toString v
  | none => "none"

/-- `c<id>=<hex client_ip>` (carrier), `e<session>=<id>` (establish), `t<session>` (stream) -/
def parseEv (t : String) : Option (Ev Nat Nat GoStr.Str) :=
  match t.toList with
  | 'c' :: rest =>
    match (String.ofList rest).splitOn "=" with
    | [k, h] => match k.toNat?, Hex.decode h with
      | some kk, some ip => some (Ev.carrier kk ip)
      | _, _ => none
    | _ => none
  | 'e' :: rest =>
    match (String.ofList rest).splitOn "=" with
    | [s, k] => match s.toNat?, k.toNat? with
      | some ss, some kk => some (Ev.establish ss kk)
      | _, _ => none
    | _ => none
  | 't' :: rest => (String.ofList rest).toNat?.map Ev.stream
  | _ => none

/-- `nosession` / `none` (nil address) / hex of the address text (`-` = the empty address) -/
def attrOut : Option (Option GoStr.Str) → String
  | none => "nosession"
  | some none => "none"
  | some (some a) => Hex.enc a

def handle : List String → String
  | "attr" :: cap :: evs =>
    match cap.toNat?, evs.mapM parseEv with
    | some n, some es =>
      let outs := (run clientAddr 0 [] (init 0 [] n) es).1
      if outs.isEmpty then "." else ",".intercalate (outs.map attrOut)
    | _, _ => "bad-op"
  | ["addr", h] =>
    match Hex.decode h with
    | some s => Hex.enc (clientAddr s)
    | none => "bad-op"
  | ["parse", h] =>
    match Hex.decode h with
    | some s => match parseIP s with
      | some ip => Hex.enc ip
      | none => "nil"
    | none => "bad-op"
  | ["render", h] =>
    match Hex.decode h with
    | some ip => Hex.enc (render ip)
    | none => "bad-op"
  | ["pred", h] =>
    match Hex.decode h with
    | some ip => s!"unspec={b (isUnspecified ip)} loopback={b (isLoopback ip)}"
    | none => "bad-op"
  | "ring" :: cap :: ops =>
    match cap.toNat?, ops.mapM parseOp with
    | some n, some os =>
      let (outs, m) := runRing 0 0 (Ring.new 0 0 n) os
      let es := m.entries.map fun e => s!"{e.1}:{e.2}"
      s!"{if outs.isEmpty then "." else ",".intercalate (outs.map outStr)} len={m.current.length} oldest={m.oldest} entries={if es.isEmpty then "." else ",".intercalate es}"
    | _, _ => "bad-op"
  | _ => "bad-op"

end Driver.C18
