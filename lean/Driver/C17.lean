import Snowflake.Base.Hex
import Snowflake.Model.ClientMap
import Snowflake.Model.QueueConn
import Snowflake.Model.Redial
import Snowflake.Model.RedialSource
/-!
Line protocol for the C17 models (one line = one whole operation sequence / script).

```
c17 cm <A> <op,op,…>       clientMapInner; addresses 0..A-1
     ops:  S:addr:t           SendQueue(addr, t)
           X:t:timeout        removeExpired(t, timeout)
           W:addr:t:hex       SendQueue(addr, t) then non-blocking send of hex on the returned queue
           T:addr:t           SendQueue(addr, t) then non-blocking receive from the returned queue
     reply: one snapshot per op, joined by ';':
           <out>|<byAge: addr@lastSeen#qlen,…>|<byAddr: addr>idx,… for addr < A>|<len(byAddr)>|<closed addrs so far>
c17 q <op,op,…>            QuePacketConn (clock = op index)
     ops:  I:hex:addr  W:hex:addr  R:buflen  O:addr  C:-|n
     reply: outputs joined by ';'
c17 redial <modes> <end>   RedialPacketConn LTS at the error-channel capacities of the source
     modes: string over W (write fails first) R (read fails first) B (read fails while a write is in
            flight; the write fails after Close), '-' for none;  end: F (next dial fails)
            C (Close while dialing, then the dial fails)  L (one more carrier that works, then Close)
c17 caps                   the capacities read from the source
```
-/
namespace Driver.C17
open Snowflake

def splitTok (s : String) (sep : String) : List String := (s.splitOn sep).filter (· ≠ "")

def parseInt (s : String) : Option Int :=
  if s.startsWith "n" then (s.drop 1).toString.toNat?.map (fun n => -(n : Int)) else s.toNat?.map (fun n => (n : Int))

def showInt (i : Int) : String := if i < 0 then "n" ++ toString i.natAbs else toString i.natAbs

def joinOr (l : List String) (sep : String) : String := if l.isEmpty then "-" else sep.intercalate l

/-! ### clientMapInner -/
section CM
open Snowflake.ClientMap

def cmSnap (A : Nat) (out : String) (s : Inner) : String :=
  let age := s.byAge.toList.map (fun r => s!"{r.addr}@{showInt r.lastSeen}#{r.queue.length}")
  let idx := (List.range A).filterMap (fun a => (s.byAddr.get a).map (fun i => s!"{a}>{i}"))
  let cl := s.closed.map (fun r => toString r.addr)
  let pan := if s.panicked then "|panic" else ""
  s!"{out}|{joinOr age ","}|{joinOr idx ","}|{s.byAddr.size}|{joinOr cl ","}{pan}"

def cmOp (s : Inner) (tok : String) : Option (Inner × String) :=
  match tok.splitOn ":" with
  | ["S", a, t] => do
    let a ← a.toNat?; let t ← parseInt t
    some (sendQueue s a t, ".")
  | ["X", t, d] => do
    let t ← parseInt t; let d ← parseInt d
    some (removeExpired s t d, ".")
  | ["W", a, t, h] => do
    let a ← a.toNat?; let t ← parseInt t; let p ← Hex.decode h
    let r := offer (sendQueue s a t) a p
    some (r.1, if r.2 then "sent" else "full")
  | ["T", a, t] => do
    let a ← a.toNat?; let t ← parseInt t
    let r := poll (sendQueue s a t) a
    some (r.1, match r.2 with | some p => "got:" ++ Hex.enc p | none => "empty")
  | _ => none

def cmRun (A : Nat) : Inner → List String → List String → Option (List String)
  | _, [], acc => some acc.reverse
  | s, tok :: rest, acc =>
    match cmOp s tok with
    | some (s', out) => cmRun A s' rest (cmSnap A out s' :: acc)
    | none => none

end CM

/-! ### QueuePacketConn -/
section Q
open Snowflake.QueueConn

def errStr : Err → String
  | .closedConn => "closed"
  | .custom n => s!"custom{n}"

def qOp (tok : String) (now : Int) : Option Op :=
  match tok.splitOn ":" with
  | ["I", h, a] => do let p ← Hex.decode h; let a ← a.toNat?; some (.incoming p a)
  | ["W", h, a] => do let p ← Hex.decode h; let a ← a.toNat?; some (.write p a now)
  | ["R", n] => do let n ← n.toNat?; some (.read n)
  | ["O", a] => do let a ← a.toNat?; some (.out a now)
  | ["C", e] => if e = "-" then some (.close none) else do let n ← e.toNat?; some (.close (some (.custom n)))
  | _ => none

def outStr : Out → String
  | .none => "."
  | .write (.ok n) => s!"ok:{n}"
  | .write (.err e) => "err:" ++ errStr e
  | .read (.ok d a) => s!"ok:{Hex.enc d}:{a}"
  | .read (.err e) => "err:" ++ errStr e
  | .read .wouldBlock => "block"
  | .out (some p) => "some:" ++ Hex.enc p
  | .out none => "none"
  | .close none => "nil"
  | .close (some e) => "err:" ++ errStr e

def qRun : St → List String → Nat → List String → Option (List String)
  | _, [], _, acc => some acc.reverse
  | s, tok :: rest, i, acc =>
    match qOp tok (i : Int) with
    | some op => let r := step s op; qRun r.1 rest (i + 1) (outStr r.2 :: acc)
    | none => none

end Q

/-! ### RedialPacketConn -/
section R
open Snowflake.Redial

/-- Steps the goroutines take by themselves (no environment decision needed), in a fixed priority
order: rendezvous first (a select arm with a waiting partner is ready, so `default` is not taken),
the carrier calls of a *closed* carrier fail.  The observable outcome does not depend on the order. -/
def internalLabels (s : St) : List Label :=
  (List.range s.n).flatMap (fun k =>
    [Label.rSendToMain k, .wSendToMain k, .rSendToWriter k, .wSendToReader k,
     .mRecvR k, .mRecvW k, .mClose k,
     .rSelClosed k, .rSelW k, .rSend k, .rExit k,
     .wSelClosed k, .wSelR k, .wSelPkt k, .wSend k, .wExit k, .rDefault k]
    ++ (if s.cclosed k then [Label.readFail k, .writeFail k] else []))
  ++ [.mTopClosed, .mTopDefault]

def settle (capR capW : Nat) : Nat → St → St
  | 0, s => s
  | fuel + 1, s =>
    match (internalLabels s).findSome? (fun l => step capR capW s l) with
    | some s' => settle capR capW fuel s'
    | none => s

/-- environment events of one carrier, by mode; `k` = its index -/
def modeEvents (m : Char) (k : Nat) : Option (List Label) :=
  if m = 'W' then some [.dialOk, .apiWrite, .writeFail k]
  else if m = 'R' then some [.dialOk, .readOk k, .apiRead, .readFail k]
  else if m = 'B' then some [.dialOk, .apiWrite, .readFail k]
  else none

def endEvents (e : String) (k : Nat) : Option (List Label) :=
  if e = "F" then some [.dialFail]
  else if e = "C" then some [.userClose, .dialFail]
  else if e = "L" then some [.dialOk, .apiWrite, .writeOk k, .readOk k, .apiRead, .userClose]
  else if e = "S" then some [.userClose, .dialOk]   -- Close while a dial is in flight that then succeeds
  else none

/-- play environment events, settling after each; `none` if an event is not enabled -/
def play (capR capW : Nat) : St → List Label → Option St
  | s, [] => some s
  | s, l :: ls =>
    match step capR capW s l with
    | some s' => play capR capW (settle capR capW 64 s') ls
    | none => none

def playModes (capR capW : Nat) : St → List Char → Nat → Option St
  | s, [], _ => some s
  | s, m :: ms, k =>
    match modeEvents m k with
    | some evs =>
      match play capR capW s evs with
      | some s' => playModes capR capW s' ms (k + 1)
      | none => none
    | none => none

def countIf (n : Nat) (p : Nat → Bool) : Nat := ((List.range n).filter p).length

def redial (capR capW : Nat) (modes : String) (e : String) : String :=
  let ms := if modes = "-" then [] else modes.toList
  match playModes capR capW (settle capR capW 64 Redial.init) ms 0 with
  | none => "bad-op"
  | some s1 =>
    let surfacedBefore := s1.errSurfaced
    match endEvents e ms.length with
    | none => "bad-op"
    | some evs =>
      match play capR capW s1 evs with
      | none => "bad-op"
      | some s2 =>
        let after := match step capR capW s2 .apiWrite with
          | some s3 => s3.errSurfaced
          | none => false
        let why := if s2.dialFailed then "dial" else if s2.userClosed then "closed" else "none"
        let readers := countIf s2.n (fun k => s2.rd k != .done)
        let writers := countIf s2.n (fun k => s2.wr k != .done)
        let closedN := countIf s2.n (fun k => s2.cclosed k)
        let maxOpen := if s2.n > 0 then 1 else 0
        s!"dials={s2.n} closed={closedN} maxopen={maxOpen} errbefore={surfacedBefore} errafter={after}:{why} " ++
        s!"loopdone={decide (s2.main = .done)} readers={readers} writers={writers}"

end R

def handle : List String → String
  | ["cm", a, ops] =>
    match a.toNat? with
    | some A =>
      match cmRun A ClientMap.empty (splitTok ops ",") [] with
      | some outs => joinOr outs ";"
      | none => "bad-op"
    | none => "bad-op"
  | ["q", ops] =>
    match qRun QueueConn.init (splitTok ops ",") 0 [] with
    | some outs => joinOr outs ";"
    | none => "bad-op"
  | ["redial", modes, e] => redial Redial.Source.capR Redial.Source.capW modes e
  | ["redialcap", cr, cw, modes, e] =>
    match cr.toNat?, cw.toNat? with
    | some r, some w => redial r w modes e
    | _, _ => "bad-op"
  | ["caps"] => s!"{Redial.Source.capR} {Redial.Source.capW}"
  | _ => "bad-op"

end Driver.C17
