import Snowflake.Model.ProxySlots
/-!
Line protocol for the proxy slot model (C16).  Stateless: one line = one complete case.

* `tokens <N> <ops>` — `tokens_t` alone: `ops` is a string over `g` (get), `r` (ret), `c` (count), each
  call in its own goroutine.  Reply: one outcome per op (`ok`, `blocked`, `blocked>k`, `n<count>`).
* `events <fixed> <N> <ev,ev,…>` — whole sessions, one after the other: `f0`…`f4` a session failing at
  stage 0 (poll) … 4 (sendAnswer), `t` timeout, `d` data channel opened (handler keeps running), `u` data channel opened but relay unreachable, `x` the
  F11 race, `h<i>` the handler of session `i` ends, `c` count.  Reply per event: sessions
  `<Clients sent>/<count after>`, others `<count after>`; `disabled` if an event cannot run.
* `sched <fixed> <N> <label,label,…>` — explicit interleaving (`lStart:0`, `cbFire:2`, …).
  Reply: `disabled@k` or a canonical summary.
* `load <count>` — `(count / 8) * 8` on Go's int64.
-/
namespace Driver.C16
open Snowflake Snowflake.ProxySlots

def parseStage : Nat → Option Stage
  | 0 => some .poll | 1 => some .parseURL | 2 => some .checkRelay | 3 => some .makePC | 4 => some .sendAnswer
  | _ => none

def parseEv (s : String) : Option Ev :=
  match s with
  | "t" => some .timeout
  | "d" => some .connect
  | "u" => some .relayDown
  | "x" => some .race
  | "c" => some .count
  | _ =>
    if s.startsWith "f" then ((s.drop 1).toNat?.bind parseStage).map .fail
    else if s.startsWith "h" then (s.drop 1).toNat?.map .handlerEnd
    else none

def parseLab (s : String) : Option Lab :=
  match s.splitOn ":" with
  | [n, a] =>
    match a.toNat? with
    | none => none
    | some i =>
      match n with
      | "lStart" => some (.lStart i) | "lAcquire" => some (.lAcquire i) | "lPoll" => some (.lPoll i)
      | "lOk" => some (.lOk i) | "lFail" => some (.lFail i) | "lData" => some (.lData i)
      | "lTimeout" => some (.lTimeout i) | "lRelease" => some (.lRelease i) | "lRetRecv" => some (.lRetRecv i)
      | "cbFire" => some (.cbFire i) | "cbDead" => some (.cbDead i) | "hEnd" => some (.hEnd i)
      | "hRelease" => some (.hRelease i) | "hRetRecv" => some (.hRetRecv i)
      | _ => none
  | _ => none

def parseTOp : Char → Option TOp
  | 'g' => some .get | 'r' => some .ret | 'c' => some .count | _ => none

def lpStr : LPC → String
  | .absent => "absent" | .acquiring => "acquiring" | .stage k => s!"stage{k.index}" | .waiting => "waiting"
  | .exiting _ => "exiting" | .inRet => "inRet" | .returned => "returned"

def hStr : HPC → String
  | .none => "none" | .running => "running" | .exiting => "exiting" | .inRet => "inRet" | .done => "done"

def nats (l : List Nat) : String := if l.isEmpty then "-" else ".".intercalate (l.map toString)

def summary (s : St) : String :=
  let ids := (List.range 8).filter fun i => (s.ss i).lp != .absent
  let per := ids.map fun i => s!"s{i}={lpStr (s.ss i).lp}/{hStr (s.ss i).h}/rets{(s.ss i).rets}"
  s!"count={s.clients} ch={s.chLen} held={nats s.held} polls={s.polls.length} " ++ " ".intercalate per

def runSched (fixed : Bool) (N : Nat) : St → Nat → List Lab → String
  | s, _, [] => summary s
  | s, k, l :: ls => match step fixed N s l with
    | some s' => runSched fixed N s' (k + 1) ls
    | none => s!"disabled@{k}"

def handle : List String → String
  | ["tokens", n, ops] =>
    match n.toNat?, ops.toList.mapM parseTOp with
    | some N, some os => ",".intercalate (tRun N os)
    | _, _ => "bad-op"
  | ["events", f, n, evs] =>
    match n.toNat?, (evs.splitOn ",").mapM parseEv with
    | some N, some es => if f = "0" ∨ f = "1" then ",".intercalate (runEvents (f = "1") N es 0 init) else "bad-op"
    | _, _ => "bad-op"
  | ["sched", f, n, labs] =>
    match n.toNat?, (labs.splitOn ",").mapM parseLab with
    | some N, some ls => if f = "0" ∨ f = "1" then runSched (f = "1") N init 0 ls else "bad-op"
    | _, _ => "bad-op"
  | ["load", c] =>
    match c.toInt? with
    | some v => toString (load v)
    | none => "bad-op"
  | _ => "bad-op"

end Driver.C16
