import Snowflake.Base.Hex
import Snowflake.Model.Metrics
/-!
Line protocol for the metrics model (C19).  Stateless: one line = one complete case.

  bin N                         binCount N
  binrange LO HI                binCount LO … binCount (HI-1), comma separated
  incn K                        K serialised Inc():  "total value"
  incseq K                      value after each of K serialised Inc(), comma separated ("." if K = 0)
  lts REP N SCHED               interleaving model, REP = 0 pinned / 1 repaired, N threads,
                                SCHED = comma separated thread ids ("." empty): "total value done q|b"
  log OPS                       OPS = comma separated  Z | P<ext 0/1><r|i|m> | C<unr 0/1><d|m|t>  ("." empty):
                                the eight published counts
  stats GEO UPDS                UPDS = comma separated addr:tyHex:natHex:ccHex ("." empty)
  writer BIG START OPS          OPS = comma separated  a<now>:<h> (add, interval BIG) | b<now>:<h> (add, interval 0)
                                | f<now> (flush):  "chunks=<start>-<stop>-<card>;… cur=<card>"
  count FROM TO CHUNKS          CHUNKS = semicolon separated start:stop:v.v.v ("." none; "-" empty set): "sum included"
  countl CHK LIMIT FROM TO LINES  reader behind a line scanner with token limit LIMIT; CHK = 1 the scanner error is
                                returned (repaired) / 0 it is dropped (pinned); LINES = start:stop:v.v.v:len;…
                                reply "sum included" or "error"
-/
namespace Driver.C19
open Snowflake Snowflake.Metrics

def commaList (s : String) : List String := if s = "." then [] else s.splitOn ","

def joinNat (l : List Nat) : String := if l.isEmpty then "." else ",".intercalate (l.map toString)

def parseSched (n : Nat) (s : String) : Option (List (Fin n)) :=
  (commaList s).mapM fun w =>
    match w.toNat? with
    | some t => if h : t < n then some ⟨t, h⟩ else none
    | none => none

def decideQuiescent {n : Nat} (s : St n) : Bool := decide (Quiescent s)

def parseOp (w : String) : Option Op :=
  match w.toList with
  | ['Z'] => some .zero
  | ['P', e, o] =>
    let ext := e == '1'
    (match o with
     | 'r' => some (.ev (.poll ext .rejected))
     | 'i' => some (.ev (.poll ext .idle))
     | 'm' => some (.ev (.poll ext .matched))
     | _ => none)
  | ['C', u, o] =>
    let unr := u == '1'
    (match o with
     | 'd' => some (.ev (.client unr .denied))
     | 'm' => some (.ev (.client unr .matched))
     | 't' => some (.ev (.client unr .timedOut))
     | _ => none)
  | _ => none

def parseUpd (w : String) : Option Upd :=
  match w.splitOn ":" with
  | [a, ty, nat, cc] =>
    match a.toNat?, Hex.decode ty, Hex.decode nat, Hex.decode cc with
    | some addr, some t, some n, some c => some ⟨addr, t, n, c⟩
    | _, _, _, _ => none
  | _ => none

/-- insertion sort of strings (small lists only) -/
def insertSorted (x : String) : List String → List String
  | [] => [x]
  | y :: ys => if x ≤ y then x :: y :: ys else y :: insertSorted x ys

def sortStrings (l : List String) : List String := l.foldr insertSorted []

def statsLine (s : Stats) : String :=
  let types := knownProxyTypes.map fun t => s!"{Hex.enc t}={(s.typeSet (some t)).length}"
  let ccKeys := s.ccs.foldl (fun acc c => insertNew c acc) []
  let ccs := sortStrings (ccKeys.map fun c => s!"{Hex.enc c}={s.ccCount c}")
  let ccStr := if ccs.isEmpty then "." else ";".intercalate ccs
  s!"total={s.total} unknown={(s.typeSet none).length} types={";".intercalate types} nat={s.natR.length},{s.natU.length},{s.natX.length} cc={ccStr}"

inductive WTok
  | add (now h : Nat) | addNow (now h : Nat) | flush (now : Nat)

def parseWTok (w : String) : Option WTok :=
  match w.toList with
  | 'f' :: rest => (String.ofList rest).toNat?.map .flush
  | c :: rest =>
    match (String.ofList rest).splitOn ":" with
    | [a, b] =>
      match a.toNat?, b.toNat? with
      | some now, some h => if c == 'a' then some (.add now h) else if c == 'b' then some (.addNow now h) else none
      | _, _ => none
    | _ => none
  | [] => none

def writerStep (big : Nat) (w : Writer) : WTok → Writer
  | .add now h => w.add big now h
  | .addNow now h => w.add 0 now h
  | .flush now => w.flush now

def parseChunk (w : String) : Option Chunk :=
  match w.splitOn ":" with
  | [a, b, vs] =>
    match a.toNat?, b.toNat? with
    | some st, some en =>
      if vs = "-" then some ⟨st, en, []⟩
      else ((vs.splitOn ".").mapM String.toNat?).map fun l => ⟨st, en, l.foldl (fun acc v => insertNew v acc) []⟩
    | _, _ => none
  | _ => none

def parseLine (w : String) : Option Line :=
  match w.splitOn ":" with
  | [a, b, vs, n] =>
    match parseChunk s!"{a}:{b}:{vs}", n.toNat? with
    | some c, some len => some ⟨c, len⟩
    | _, _ => none
  | _ => none

def handle : List String → String
  | ["bin", n] =>
    match n.toNat? with
    | some k => toString (binCount k)
    | none => "bad-op"
  | ["binrange", lo, hi] =>
    match lo.toNat?, hi.toNat? with
    | some a, some b => joinNat ((List.range (b - a)).map fun i => binCount (a + i))
    | _, _ => "bad-op"
  | ["incn", k] =>
    match k.toNat? with
    | some kk => let c := RC.incN kk RC.zero; s!"{c.total} {c.value}"
    | none => "bad-op"
  | ["incseq", k] =>
    match k.toNat? with
    | some kk =>
      let r := (List.range kk).foldl (fun (p : RC × List Nat) _ => let c := p.1.inc; (c, c.value :: p.2)) (RC.zero, [])
      joinNat r.2.reverse
    | none => "bad-op"
  | ["lts", rep, n, sched] =>
    match n.toNat? with
    | some nn =>
      match parseSched nn sched with
      | some sc =>
        let s := run (rep = "1") sc (St.init nn)
        s!"{s.total} {s.value} {s.done} {if decideQuiescent s then "q" else "b"}"
      | none => "bad-op"
    | none => "bad-op"
  | ["log", ops] =>
    match (commaList ops).mapM parseOp with
    | some os => joinNat (os.foldl Counters.op Counters.zero).publish
    | none => "bad-op"
  | ["stats", geo, upds] =>
    match (commaList upds).mapM parseUpd with
    | some us => statsLine (Stats.run (geo = "1") us)
    | none => "bad-op"
  | ["writer", big, start, ops] =>
    match big.toNat?, start.toNat?, (commaList ops).mapM parseWTok with
    | some b, some st, some toks =>
      let w := toks.foldl (writerStep b) ⟨st, [], []⟩
      let cs := w.journal.map fun c => s!"{c.start}-{c.stop}-{c.vals.length}"
      s!"chunks={if cs.isEmpty then "." else ";".intercalate cs} cur={w.cur.length}"
    | _, _, _ => "bad-op"
  | ["count", frm, to, chunks] =>
    match frm.toNat?, to.toNat?, (if chunks = "." then some [] else (chunks.splitOn ";").mapM parseChunk) with
    | some f, some t, some cs => let r := count f t cs; s!"{r.sum} {r.chunkIncluded}"
    | _, _, _ => "bad-op"
  | ["countl", chk, limit, frm, to, lines] =>
    match limit.toNat?, frm.toNat?, to.toNat?, (if lines = "." then some [] else (lines.splitOn ";").mapM parseLine) with
    | some lim, some f, some t, some ls =>
      if chk = "1" then
        (match countChecked lim f t ls with
         | some r => s!"{r.sum} {r.chunkIncluded}"
         | none => "error")
      else let r := countUnchecked lim f t ls; s!"{r.sum} {r.chunkIncluded}"
    | _, _, _, _ => "bad-op"
  | _ => "bad-op"

end Driver.C19
