import Snowflake.Base.Hex
import Snowflake.Model.AmpPath
/-! Line protocol for the AMP path / cache URL / rendezvous model (C11). -/
namespace Driver.C11
open Snowflake Snowflake.AmpPath

def pathErrStr : PathErr → String
  | .missingIndicator => "missingIndicator"
  | .missingData => "missingData"
  | .unknownIndicator v => s!"unknownIndicator:{v.toNat}"
  | .corrupt => "corrupt"

def respStr : HttpResp → String
  | .status c => s!"status {c}"
  | .ok b => s!"ok {Hex.enc b}"
  | .legacy => "legacy"

/-- `!` = none (error), otherwise hex. -/
def parseOpt (s : String) : Option (Option (List UInt8)) :=
  if s = "!" then some none else (Hex.decode s).map some

def cacheErrStr : CacheErr → String
  | .contentType => "contentType" | .scheme => "scheme" | .userinfo => "userinfo" | .port => "port"
  | .host => "host" | .unescape => "unescape" | .cacheQuery => "cacheQuery" | .cacheFragment => "cacheFragment"

def exErrStr : Option ExErr → String
  | none => "ok"
  | some .unexpected => "unexpected"
  | some .unexpectedEOF => "unexpectedEOF"
  | some (.armor _) => "armor"

def parseSizes (s : String) : Option (Nat → Nat) :=
  match (s.splitOn ",").mapM String.toNat? with
  | some [] => none
  | some l => some (fun i => l.getD (i % l.length) 1)
  | none => none

def handle : List String → String
  | ["encpath", p, d] =>
    match Hex.decode p, Hex.decode d with
    | some pad, some data => Hex.enc (encodePath pad data)
    | _, _ => "bad-op"
  | ["decpath", p] =>
    match Hex.decode p with
    | some path =>
      match decodePath path with
      | .ok d => s!"ok {Hex.enc d}"
      | .error e => s!"err {pathErrStr e}"
    | none => "bad-op"
  | ["amp", p, r] =>
    match Hex.decode p, parseOpt r with
    | some path, some resp => respStr (ampClientOffers (fun _ => resp) path)
    | _, _ => "bad-op"
  | ["post", b, r] =>
    match Hex.decode b, parseOpt r with
    | some body, some resp => respStr (postClientOffers (fun _ => resp) body)
    | _, _ => "bad-op"
  | ["pathescape", s] =>
    match Hex.decode s with
    | some b => Hex.enc (pathEscape b)
    | none => "bad-op"
  | ["clean", s] =>
    match Hex.decode s with
    | some b => Hex.enc (clean b)
    | none => "bad-op"
  | ["join", s] =>
    match (s.splitOn ",").mapM Hex.decode with
    | some l => Hex.enc (pathJoin l)
    | none => "bad-op"
  | ["mid", s] =>
    match Hex.decode s with
    | some u => Hex.enc (prefixMid u)
    | none => "bad-op"
  | ["basic", d, u, a] =>
    match Hex.decode d with
    | some dom =>
      if u = "?" ∧ !simpleDomain dom then "needs-param"
      else
        match (if u = "?" then some none else parseOpt u), (if a = "?" then some none else parseOpt a) with
        | some uni, some asc =>
          let uni' : Option (List UInt8) := if simpleDomain dom then some dom else uni
          if a = "?" ∧ (uni'.map (fun x => !isAscii (prefixMid x))).getD false then "needs-param"
          else
            match domainPrefixBasic dom uni asc with
            | some p => s!"ok {Hex.enc p}"
            | none => "err"
        | _, _ => "bad-op"
    | none => "bad-op"
  | ["prefix", d, dg, u, a] =>
    match Hex.decode d, Hex.decode dg with
    | some dom, some digest =>
      if u = "?" ∧ !simpleDomain dom then "needs-param"
      else
        match (if u = "?" then some none else parseOpt u), (if a = "?" then some none else parseOpt a) with
        | some uni, some asc =>
          let uni' : Option (List UInt8) := if simpleDomain dom then some dom else uni
          if a = "?" ∧ (uni'.map (fun x => !isAscii (prefixMid x))).getD false then "needs-param"
          else Hex.enc (domainPrefix dom digest uni asc)
        | _, _ => "bad-op"
    | _, _ => "bad-op"
  | ["fallback", dg] =>
    match Hex.decode dg with
    | some digest => Hex.enc (domainPrefixFallback digest)
    | none => "bad-op"
  | ["cacheurl", pub, cache, ct, pfx] =>
    match (pub.splitOn ",").mapM Hex.decode, (cache.splitOn ",").mapM Hex.decode, Hex.decode ct, Hex.decode pfx with
    | some [ps, pu, ph, pp, ppath, pq, pf], some [cs, cu, ch, cp, cpath, cq, cf], some ctype, some pre =>
      let p : PubURL := ⟨ps, !pu.isEmpty, ph, pp, ppath, pq, pf⟩
      let c : CacheURLIn := ⟨cs, cu, ch, cp, cpath, cq, cf⟩
      match cacheURL p c ctype pre with
      | .ok o => s!"ok {Hex.enc o.scheme} {Hex.enc o.user} {Hex.enc o.host} {Hex.enc o.rawPath} {Hex.enc o.rawQuery} {Hex.enc o.fragment}"
      | .error e => s!"err {cacheErrStr e}"
    | _, _, _, _ => "bad-op"
  | ["front", f, h] =>
    match Hex.decode f, Hex.decode h with
    | some front, some host => let r := frontedRequest front host; s!"{Hex.enc r.1} {Hex.enc r.2}"
    | _, _ => "bad-op"
  | ["limited", lim, n] =>
    match lim.toNat?, n.toNat? with
    | some limit, some len =>
      let r := limitedRead (List.replicate len 120) limit
      s!"{r.1.length} {exErrStr r.2}"
    | _, _ => "bad-op"
  | ["httpx", st, n] =>
    match st.toNat?, n.toNat? with
    | some status, some len =>
      let r := httpExchange status (List.replicate len 120)
      s!"{r.1.length} {exErrStr r.2} {(usedByNegotiate r).isSome}"
    | _, _ => "bad-op"
  | ["ampx", sz, st, loc, b] =>
    match parseSizes sz, st.toNat?, Hex.decode b with
    | some sizes, some status, some body =>
      let r := ampExchange sizes status (loc = "1") body
      s!"{Hex.enc r.1} {exErrStr r.2}"
    | _, _, _ => "bad-op"
  | _ => "bad-op"

end Driver.C11
