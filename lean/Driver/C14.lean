import Snowflake.Base.Hex
import Snowflake.Model.BrokerHttp
/-! Line protocol for the broker HTTP shell model (C14). -/
namespace Driver.C14
open Snowflake Snowflake.BrokerHttp

def outStr : Outcome → String
  | .reply s b => s!"{s} {Hex.enc b}"
  | .dropped => "dropped"

def parseCore (s : String) : Option CoreRes :=
  match s.splitOn ":" with
  | ["ok", h] => (Hex.decode h).map .ok
  | ["bad"] => some .errBadRequest
  | ["internal"] => some .errInternal
  | ["other"] => some .errOther
  | _ => none

def parseClientCore (s : String) : Option ClientCore :=
  match s.splitOn ":" with
  | ["err"] => some .err
  | ["resp", a, e, raw] =>
    match Hex.decode a, Hex.decode e, Hex.decode raw with
    | some a, some e, some raw => some (.resp ⟨a, e⟩ raw)
    | _, _, _ => none
  | _ => none

def handle : List String → String
  | ["proxy", opt, tl, core] =>
    match parseCore core with
    | some c => outStr (serve (opt = "1") (proxyShell (tl = "1") c))
    | none => "bad-op"
  | ["client", fx, opt, tl, body, nat, arg, core] =>
    match Hex.decode body, Hex.decode nat, parseClientCore core with
    | some b, some n, some c =>
      let enc : Bytes → Bytes → Option Bytes := fun _ _ => if arg = "none" then none else Hex.decode arg
      outStr (serve (opt = "1") (clientShell (fx = "1") (tl = "1") b n enc (fun _ => c)))
    | _, _, _ => "bad-op"
  | ["amp", pre, dec, core] =>
    match parseClientCore core with
    | some c =>
      let d : Option Bytes := if dec = "none" then none else Hex.decode dec
      toString (ampShell (pre = "1") d (fun _ => c))
    | none => "bad-op"
  | ["debug", ok, body] =>
    match Hex.decode body with
    | some b => outStr (debugShell (ok = "1") b)
    | none => "bad-op"
  | ["robots"] => outStr (.reply 200 robotsBody)
  | _ => "bad-op"

end Driver.C14
