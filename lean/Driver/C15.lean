import Snowflake.Model.Peers
/-!
Line protocol for the client peer-pool model (C15).  Stateless: one line = one complete case.

* `seq <fix> <max> <op,op,…> <catches>` — sequential script.  `<fix>` = three bits `f8 f9 f10`
  (`111` = repaired, `000` = pinned).  Ops: `c` collect, `p` pop, `x<i>` close peer `i`, `e` End,
  `n` Count.  `<catches>`: outcome of the k-th `Catch` call, one letter each (`o` ok, `e` error
  from the broker, `i` unusable ICE configuration; `-` = all ok).  Reply: one outcome per op, comma
  separated (`blocked>k:o` = was blocked, finished with `o` while op `k` settled).
* `sched <fix> <max> <label,label,…>` — explicit interleaving; labels as `cCatch:0:ok`, `eMelt:1`, ….
  Reply: `disabled@k` or a canonical summary of the final state.
* `connect <f10> <env>` — outcome of `WebRTCPeer.connect` for an environment class.
-/
namespace Driver.C15
open Snowflake Snowflake.Peers

def parseFix (s : String) : Option Fix :=
  match s.toList with
  | [a, b, c] =>
    if (a = '0' ∨ a = '1') ∧ (b = '0' ∨ b = '1') ∧ (c = '0' ∨ c = '1') then
      some ⟨a = '1', b = '1', c = '1'⟩ else none
  | _ => none

def parseEnv : String → Option CatchEnv
  | "pcFail" => some .pcFail
  | "dcFail" => some .dcFail
  | "offerFail" => some .offerFail
  | "brokerFail" => some .brokerFail
  | "sdpFail" => some .sdpFail
  | "dcTimeout" => some .dcTimeout
  | "ok" => some .ok
  | _ => none

def parseOp (s : String) : Option Op :=
  match s with
  | "c" => some .collect
  | "p" => some .pop
  | "e" => some .endOp
  | "n" => some .count
  | _ =>
    if s.startsWith "x" then (s.drop 1).toNat?.map .closePeer else none

def parseLab (s : String) : Option Lab :=
  match s.splitOn ":" with
  | [n, a] =>
    match a.toNat? with
    | none => none
    | some i =>
      match n with
      | "cCall" => some (.cCall i) | "cLock" => some (.cLock i) | "cCheck" => some (.cCheck i)
      | "cSend" => some (.cSend i) | "cMeltArm" => some (.cMeltArm i)
      | "lTimer" => some (.lTimer i) | "lMelted" => some (.lMelted i)
      | "pCall" => some (.pCall i) | "pRecv" => some (.pRecv i) | "pCheck" => some (.pCheck i)
      | "pAgain" => some (.pAgain i)
      | "eCall" => some (.eCall i) | "eMelt" => some (.eMelt i) | "eLock" => some (.eLock i)
      | "eCrit" => some (.eCrit i) | "eOnce" => some (.eOnce i)
      | "peerClose" => some (.peerClose i)
      | _ => none
  | [n, a, e] =>
    match n, a.toNat?, parseEnv e with
    | "cCatch", some i, some env => some (.cCatch i env)
    | _, _, _ => none
  | ["count"] => some .count
  | _ => none

def nats (l : List Nat) : String := if l.isEmpty then "-" else ".".intercalate (l.map toString)

def panicStr : Option Panic → String
  | none => "-"
  | some .closeClosedMelt => "close-closed-melt"
  | some .closeClosedChan => "close-closed-chan"
  | some .sendOnClosed => "send-on-closed"
  | some .nilDeref => "nil-deref"

def colStr : CPC → String
  | .absent => "absent" | .wantLock => "wantLock" | .locked => "locked" | .catching => "catching"
  | .sending p => s!"sending{p}"
  | .ret (.ok p) => s!"ok{p}" | .ret .melted => "err-melted" | .ret .capacity => "err-capacity"
  | .ret .catchErr => "err-catch" | .ret .panicked => "panic" | .stopped => "stopped"

def popStr : PPC → String
  | .absent => "absent" | .recv => "recv" | .check p => s!"check{p}" | .got p => s!"p{p}" | .gotNil => "nil"

def endStr : EPC → String
  | .absent => "absent" | .closeMelt => "closeMelt" | .wantLock => "wantLock" | .locked => "locked"
  | .waitOnce => "waitOnce" | .done => "ok" | .panicked => "panic"

def b01 (b : Bool) : String := if b then "1" else "0"

/-- Canonical summary: global flags, channel, active list, open peers, then thread states for the
thread ids `0 … 3` of each kind that are in use. -/
def summary (s : St) : String :=
  let ids := List.range 4
  let cols := ids.filterMap fun i => if s.col i = .absent then none else some s!"c{i}={colStr (s.col i)}"
  let pops := ids.filterMap fun i => if s.pop i = .absent then none else some s!"q{i}={popStr (s.pop i)}"
  let es := ids.filterMap fun i => if s.ends i = .absent then none else some s!"e{i}={endStr (s.ends i)}"
  let openP := (List.range s.next).filter fun p => !s.closedP p
  s!"panic={panicStr s.panic} melt={b01 s.melt} chanClosed={b01 s.chanClosed} chan={nats s.chan} " ++
  s!"active={nats s.active} open={nats openP} catches={s.catches} " ++ " ".intercalate (cols ++ pops ++ es)

def runSched (fx : Fix) (max : Nat) : St → Nat → List Lab → String
  | s, _, [] => summary s
  | s, k, l :: ls => match step fx max s l with
    | some s' => runSched fx max s' (k + 1) ls
    | none => s!"disabled@{k}"

def outStr : Outcome → String
  | .ok => "ok" | .err => "err" | .panic => "panic"

def parseCatches (s : String) : Option (List CatchEnv) :=
  if s = "-" then some [] else
  s.toList.mapM fun c =>
    if c = 'o' then some CatchEnv.ok else if c = 'e' then some .brokerFail else if c = 'i' then some .pcFail else none

def handle : List String → String
  | ["seq", f, m, ops, cs] =>
    match parseFix f, m.toNat?, (ops.splitOn ",").mapM parseOp, parseCatches cs with
    | some fx, some max, some os, some envs => ",".intercalate (runScript fx max envs os)
    | _, _, _, _ => "bad-op"
  | ["sched", f, m, labs] =>
    match parseFix f, m.toNat?, (labs.splitOn ",").mapM parseLab with
    | some fx, some max, some ls => runSched fx max init 0 ls
    | _, _, _ => "bad-op"
  | ["connect", f, e] =>
    match parseEnv e with
    | some env => if f = "1" ∨ f = "0" then outStr (connect (f = "1") env) else "bad-op"
    | none => "bad-op"
  | _ => "bad-op"

end Driver.C15
