import Snowflake.Base.Hex
import Snowflake.Base.Utf8
import Snowflake.Model.Messages
/-! Line protocol for the broker-message model (C12).  All strings are hex of raw bytes (`-` = empty);
encoders answer with the hex of the encoded message, decoders with a canonical outcome line. -/
namespace Driver.C12
open Snowflake Snowflake.Messages

def hx (s : Json.Text) : String := Hex.enc (Utf8.encode s)

def items (h : String) : Option GoStr := (Hex.decode h).map Utf8.decodeItems
def text (h : String) : Option Json.Text := (Hex.decode h).map Utf8.decodeLossy
def out (t : Json.Text) : String := Hex.enc (Utf8.encode t)

def b (x : Bool) : String := if x then "true" else "false"

def handle : List String → String
  | ["enc-poll", sid, ty, nat, clients, pat] =>
    match items sid, items ty, items nat, clients.toInt?, items pat with
    | some s, some t, some n, some c, some p => out (encodeProxyPollRequestWithRelayPrefix s t n c p)
    | _, _, _, _, _ => "bad-op"
  | ["dec-poll", d] =>
    match text d with
    | some data =>
      match decodeProxyPollRequestWithRelayPrefix data with
      | .ok m => s!"ok {hx m.sid} {hx m.proxyType} {hx m.natType} {m.clients} {hx m.relayPrefix} {b m.relayPrefixAware}"
      | .err => "err"
      | .panic => "panic"
    | none => "bad-op"
  | ["dec-poll0", d] =>
    match text d with
    | some data =>
      match decodeProxyPollRequest data with
      | .ok (sid, ty, nat, c) => s!"ok {hx sid} {hx ty} {hx nat} {c}"
      | .err => "err"
      | .panic => "panic"
    | none => "bad-op"
  | ["enc-pollresp", offer, succ, nat, url, reason] =>
    match items offer, items nat, items url, items reason with
    | some o, some n, some u, some r =>
      if succ = "0" || succ = "1" then out (encodePollResponseWithRelayURL o (succ = "1") n u r) else "bad-op"
    | _, _, _, _ => "bad-op"
  | ["dec-pollresp", d] =>
    match text d with
    | some data =>
      match decodePollResponseWithRelayURL data with
      | .ok o n u => s!"ok {hx o} {hx n} {hx u}"
      | .failure r n u => s!"fail {hx r} {hx n} {hx u}"
      | .err => "err"
      | .panic => "panic"
    | none => "bad-op"
  | ["dec-pollresp0", d] =>
    match text d with
    | some data =>
      match decodePollResponse data with
      | .ok o n => s!"ok {hx o} {hx n}"
      | .failure r n => s!"fail {hx r} {hx n}"
      | .err => "err"
      | .panic => "panic"
    | none => "bad-op"
  | ["enc-ansreq", answer, sid] =>
    match items answer, items sid with
    | some a, some s => out (encodeAnswerRequest a s)
    | _, _ => "bad-op"
  | ["dec-ansreq", d] =>
    match text d with
    | some data =>
      match decodeAnswerRequest data with
      | .ok (a, s) => s!"ok {hx a} {hx s}"
      | .err => "err"
      | .panic => "panic"
    | none => "bad-op"
  | ["enc-ansresp", succ] =>
    if succ = "0" || succ = "1" then out (encodeAnswerResponse (succ = "1")) else "bad-op"
  | ["dec-ansresp", d] =>
    match text d with
    | some data =>
      match decodeAnswerResponse data with
      | .ok s => s!"ok {b s}"
      | .err => "err"
      | .panic => "panic"
    | none => "bad-op"
  | ["enc-clientreq", offer, nat, fp] =>
    match items offer, items nat, items fp with
    | some o, some n, some f => out (encodeClientPollRequest o n f)
    | _, _, _ => "bad-op"
  | ["dec-clientreq", d] =>
    match text d with
    | some data =>
      match decodeClientPollRequest data with
      | .ok m => s!"ok {hx m.offer} {hx m.nat} {hx m.fingerprint}"
      | .err => "err"
      | .panic => "panic"
    | none => "bad-op"
  | ["enc-clientresp", answer, error] =>
    match items answer, items error with
    | some a, some e => out (encodeClientPollResponse a e)
    | _, _ => "bad-op"
  | ["dec-clientresp", d] =>
    match text d with
    | some data =>
      match decodeClientPollResponse data with
      | .ok (a, e) => s!"ok {hx a} {hx e}"
      | .err => "err"
      | .panic => "panic"
    | none => "bad-op"
  | _ => "bad-op"

end Driver.C12
