import Snowflake.Base.Hex
import Snowflake.Model.Safelog
/-!
Line protocol for the safelog model and the regular-expression matcher.

The regular expressions travel in the request (prefix notation, comma separated, one word) so that the
driver does not depend on a generated module:
`e` eps · `c:lo-hi;lo-hi…` class · `k` cat · `a` alt · `s` star · `p:i` capture · `r:m:e` repeat `{m,m+e}` ·
`bot` `eot` `bol` `eol`.
-/
namespace Driver.C07
open Snowflake Snowflake.Rx Snowflake.Safelog

def parseRange (s : String) : Option (Nat × Nat) :=
  match s.splitOn "-" with
  | [a, b] => match a.toNat?, b.toNat? with
    | some x, some y => some (x, y)
    | _, _ => none
  | _ => none

def parseCls (s : String) : Option (List (Nat × Nat)) :=
  if s = "" then some [] else (s.splitOn ";").mapM parseRange

/-- Prefix-notation parser (fuel = number of words). -/
def parseRx : Nat → List String → Option (Rx × List String)
  | 0, _ => none
  | _, [] => none
  | n + 1, w :: ws =>
    match w.splitOn ":" with
    | ["e"] => some (.eps, ws)
    | ["bot"] => some (.bot, ws)
    | ["eot"] => some (.eot, ws)
    | ["bol"] => some (.bol, ws)
    | ["eol"] => some (.eol, ws)
    | ["c", rs] => match parseCls rs with
      | some c => some (.cls c, ws)
      | none => none
    | ["k"] => match parseRx n ws with
      | some (a, ws1) => match parseRx n ws1 with
        | some (b, ws2) => some (.cat a b, ws2)
        | none => none
      | none => none
    | ["a"] => match parseRx n ws with
      | some (a, ws1) => match parseRx n ws1 with
        | some (b, ws2) => some (.alt a b, ws2)
        | none => none
      | none => none
    | ["s"] => match parseRx n ws with
      | some (a, ws1) => some (.star a, ws1)
      | none => none
    | ["p", i] => match i.toNat?, parseRx n ws with
      | some j, some (a, ws1) => some (.cap j a, ws1)
      | _, _ => none
    | ["r", m, e] => match m.toNat?, e.toNat?, parseRx n ws with
      | some mm, some ee, some (a, ws1) => some (rep a mm ee, ws1)
      | _, _, _ => none
    | _ => none

def rxOf (s : String) : Option Rx :=
  let ws := s.splitOn ","
  match parseRx (ws.length + 1) ws with
  | some (r, []) => some r
  | _ => none

def hexList (s : String) : Option (List Bytes) :=
  if s = "." then some [] else (s.splitOn ",").mapM Hex.decode

def listHex (l : List Bytes) : String :=
  if l.isEmpty then "." else ",".intercalate (l.map Hex.enc)

def handle : List String → String
  | ["scrub", fx, full, addr, h] =>
    match rxOf full, rxOf addr, Hex.decode h with
    | some f, some a, some b => Hex.enc (scrub (fx = "1") f a b)
    | _, _, _ => "bad-op"
  | ["write", fx, full, addr, hs] =>
    match rxOf full, rxOf addr, hexList hs with
    | some f, some a, some bs =>
      let r := writes (fx = "1") (scrub (fx = "1") f a) [] bs
      s!"{listHex r.1} {Hex.enc r.2}"
    | _, _, _ => "bad-op"
  | ["find", rx, h] =>
    match rxOf rx, Hex.decode h with
    | some r, some b =>
      match find r (decode b) with
      | some (s, m, _) => s!"{(bytesOf s).length} {(bytesOf s).length + (bytesOf m).length}"
      | none => "none"
    | _, _ => "bad-op"
  | ["repl", rx, h, rp] =>
    match rxOf rx, Hex.decode h, Hex.decode rp with
    | some r, some b, some p => Hex.enc (replaceAll r b p)
    | _, _, _ => "bad-op"
  | _ => "bad-op"

end Driver.C07
