import Snowflake.Base.Hex
import Snowflake.Model.Util
/-! Line protocol for `IsLocal` and the candidate filter (C08). -/
namespace Driver.C08
open Snowflake Snowflake.Util

/-- attribute facts: `-` not a candidate, `x` candidate that pion cannot parse, `h:<hex>` host candidate
with address text, `o:<hex>` candidate of another type with address text -/
def parseAttr (t : String) : Option CandInfo :=
  if t = "-" then some ⟨false, false, false, []⟩
  else if t = "x" then some ⟨true, false, false, []⟩
  else match t.splitOn ":" with
    | ["h", h] => (Hex.decode h).map fun a => ⟨true, true, true, a⟩
    | ["o", h] => (Hex.decode h).map fun a => ⟨true, true, false, a⟩
    | _ => none

/-- media sections are separated by `|`; `.` is a section without attributes -/
def splitMedia : List String → List (List String)
  | [] => [[]]
  | t :: ts =>
    match splitMedia ts with
    | cur :: rest => if t = "|" then [] :: cur :: rest else (t :: cur) :: rest
    | [] => [[t]]

def enumFrom {α : Type} : Nat → List α → List (Nat × α)
  | _, [] => []
  | i, a :: as => (i, a) :: enumFrom (i + 1) as

def handle : List String → String
  | ["islocal", h] =>
    match Hex.decode h with
    | some ip => if isLocal ip then "true" else "false"
    | none => "bad-op"
  | ["strip"] => "none"
  | "strip" :: toks =>
    let secs := (splitMedia toks).map fun sec => sec.filter (· ≠ ".")
    match secs.mapM (fun sec => sec.mapM parseAttr) with
    | some ms =>
      let d : Sdp (Nat × CandInfo) Unit Unit := ⟨(), ms.map fun as => ⟨(), enumFrom 0 as⟩⟩
      let out := stripSdp (fun a => a.2) d
      " | ".intercalate (out.media.map fun m =>
        if m.attrs.isEmpty then "." else ",".intercalate (m.attrs.map fun a => toString a.1))
    | none => "bad-op"
  | _ => "bad-op"

end Driver.C08
