import Snowflake.Base.Hex
import Snowflake.Model.Util
/-! Line protocol for `IsLocal` and the candidate filter (C08). -/
namespace Driver.C08
open Snowflake Snowflake.Util

/-- attribute facts: `-` not a candidate, `x` candidate that pion cannot parse, `h:<hex>` host candidate
with address text, `o:<hex>` candidate of another type with address text -/
def parseAttr (t : String) : Option CandInfo :=
  if t = "-" then some ⟨false, false, false, []⟩
  else if t = "x" then some ⟨true, false, false, []⟩
  else match t.splitOn ":" with
    | ["h", h] => (Hex.decode h).map fun a => ⟨true, true, true, a⟩
    | ["o", h] => (Hex.decode h).map fun a => ⟨true, true, false, a⟩
    | _ => none

/-- media sections are separated by `|`; `.` is a section without attributes -/
def splitMedia : List String → List (List String)
  | [] => [[]]
  | t :: ts =>
    match splitMedia ts with
    | cur :: rest => if t = "|" then [] :: cur :: rest else (t :: cur) :: rest
    | [] => [[t]]

def enumFrom {α : Type} : Nat → List α → List (Nat × α)
  | _, [] => []
  | i, a :: as => (i, a) :: enumFrom (i + 1) as

def parseSdp (toks : List String) : Option (Sdp (Nat × CandInfo) Unit Unit) :=
  let secs := (splitMedia toks).map fun sec => sec.filter (· ≠ ".")
  (secs.mapM (fun (sec : List String) => sec.mapM parseAttr)).map fun ms => ⟨(), ms.map fun as => ⟨(), enumFrom 0 as⟩⟩

/-- surviving attribute indices per media section -/
def render (out : Sdp (Nat × CandInfo) Unit Unit) : String :=
  " | ".intercalate (out.media.map fun m =>
    if m.attrs.isEmpty then "." else ",".intercalate (m.attrs.map fun a => toString a.1))

def handle : List String → String
  | ["islocal", h] =>
    match Hex.decode h with
    | some ip => if isLocal ip then "true" else "false"
    | none => "bad-op"
  | ["strip"] => "none"
  | "strip" :: toks =>
    match parseSdp toks with
    | some d => render (stripSdp (fun a => a.2) d)
    | none => "bad-op"
  -- `leaves <keep: 0|1> <attribute facts…>`: what Negotiate / sendAnswer send (`Util.leaves`)
  | ["leaves", _] => "none"
  | "leaves" :: k :: toks =>
    if k ≠ "0" ∧ k ≠ "1" then "bad-op" else
    match parseSdp toks with
    | some d => render (leaves (fun a => a.2) (k == "1") (⟨(), d⟩ : Desc Unit (Nat × CandInfo) Unit Unit)).sdp
    | none => "bad-op"
  | _ => "bad-op"

end Driver.C08
