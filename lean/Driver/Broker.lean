import Snowflake.Model.Broker
/-!
Line protocol for the broker rendezvous model (C02/C03/C04).

  broker trace <fixed 0|1> <bridges> <labels>    run an explicit label sequence
  broker quiet <fixed 0|1> <bridges> <events>    run external events, letting the system settle
                                                 (all enabled non-timer system labels) after each

bridges:  `.` or `fp=url,fp=url…`          labels / events: comma separated tokens, fields split by `:`
NAT letters: u = unrestricted, r = restricted, k = unknown
-/
namespace Driver.Broker
open Snowflake.Broker

def natOf : String → Option NatT
  | "u" => some .unrestricted | "r" => some .restricted | "k" => some .unknown | _ => none

def parseBridges (s : String) : Option (Nat → Option Nat) :=
  if s = "." then some (fun _ => none) else
  (s.splitOn ",").foldlM (fun (f : Nat → Option Nat) ent =>
    match ent.splitOn "=" with
    | [a, b] => match a.toNat?, b.toNat? with
      | some fp, some url => some (fun x => if x = fp then some url else f x)
      | _, _ => none
    | _ => none) (fun _ => none)

def parseLab (t : String) : Option Lab :=
  match t.splitOn ":" with
  | ["pa", p, n, k] => match p.toNat?, natOf n, k.toNat? with
    | some p, some n, some k => some (.pollArrive p n k) | _, _, _ => none
  | ["ca", c, n, fp] => match c.toNat?, natOf n, fp.toNat? with
    | some c, some n, some fp => some (.clientArrive c n fp) | _, _, _ => none
  | ["aa", a, p] => match a.toNat?, p.toNat? with
    | some a, some p => some (.ansArrive a p) | _, _ => none
  | ["add", p] => p.toNat?.map .add
  | ["wo", p, c] => match p.toNat?, c.toNat? with | some p, some c => some (.wOffer p c) | _, _ => none
  | ["wt", p] => p.toNat?.map .wTimer
  | ["wc", p] => p.toNat?.map .wCrit
  | ["wl", p, c] => match p.toNat?, c.toNat? with | some p, some c => some (.wLate p c) | _, _ => none
  | ["wf", p] => p.toNat?.map .wFwd
  | ["hi", p] => p.toNat?.map .hIdle
  | ["hr", p] => p.toNat?.map .hRespond
  | ["cj", c] => c.toNat?.map .cReject
  | ["cm", c, p] => match c.toNat?, p.toNat? with | some c, some p => some (.cMatch c p) | _, _ => none
  | ["cd", c] => c.toNat?.map .cDeny
  | ["cn", c, a] => match c.toNat?, a.toNat? with | some c, some a => some (.cAns c a) | _, _ => none
  | ["cr", c] => c.toNat?.map .cRecv
  | ["ct", c] => c.toNat?.map .cTimer
  | ["cf", c] => c.toNat?.map .cFin
  | ["al", a] => a.toNat?.map .aLookup
  | ["as", a] => a.toNat?.map .aSend
  | _ => none

def hpcStr : HPC → String
  | .absent => "absent" | .sendPolls => "sendPolls" | .waitOffer => "waitOffer"
  | .gotOffer c => s!"gotOffer:{c}" | .idle => "idlePending" | .done => "done"

def pollStr (st : St) (p : Nat) : String :=
  let s := st.ss p
  match s.res with
  | .matched c url => s!"p{p}=matched:{c}:{url}"
  | .idle => s!"p{p}=idle"
  | .noBridge c => s!"p{p}=nobridge:{c}"
  | .none => s!"p{p}=pending"

def clientStr (st : St) (c : Nat) : String :=
  let k := st.cs c
  if k.pc != .done then s!"c{c}=pending" else
  match k.res with
  | .answer a => s!"c{c}=answer:{a}"
  | .timedOut => s!"c{c}=timeout"
  | .denied => s!"c{c}=denied"
  | .noBridge => s!"c{c}=nobridge"
  | .none => s!"c{c}=pending"

def ansStr (st : St) (a : Nat) : String :=
  let r := st.as a
  if r.pc != .done then s!"a{a}=pending" else if r.ok then s!"a{a}=ok" else s!"a{a}=gone"

def summary (fixed : Bool) (st : St) : String :=
  let ps := st.polls.map (pollStr st)
  let cs := st.clients.map (clientStr st)
  let as := st.answers.map (ansStr st)
  let hu := (st.polls.filter (waiting st true)).length
  let hr := (st.polls.filter (waiting st false)).length
  let mp := (st.polls.filter (fun p => (st.ss p).inMap)).length
  " ".intercalate (ps ++ cs ++ as) ++
    s!" heapU={hu} heapR={hr} map={mp} gauge={st.gauge} deadlocked={deadlocked fixed st}"

/-- Let the system settle: fire enabled non-timer system labels until none is enabled. -/
def settle (fixed : Bool) : Nat → St → St
  | 0, st => st
  | fuel + 1, st =>
    match (enabledLabels fixed st).find? (fun l => !l.isTimer) with
    | some l => match step fixed st l with
      | some st' => settle fixed fuel st'
      | none => st
    | none => st

/-- External events of a quiet history. `C` carries the poll the real broker matched (if any). -/
def quietEvent (fixed : Bool) (st : St) (t : String) : Option St :=
  let go (l : Lab) : Option St := (step fixed st l).map (settle fixed 64)
  match t.splitOn ":" with
  | ["P", p, n, k] => match p.toNat?, natOf n, k.toNat? with
    | some p, some n, some k => go (.pollArrive p n k) | _, _, _ => none
  | ["C", c, n, fp] => match c.toNat?, natOf n, fp.toNat? with
    | some c, some n, some fp =>
      -- not matched: the model must be able to deny or reject
      match step fixed st (.clientArrive c n fp) with
      | some st1 =>
        match step fixed st1 (.cDeny c) with
        | some st2 => some (settle fixed 64 st2)
        | none => (step fixed st1 (.cReject c)).map (settle fixed 64)
      | none => none
    | _, _, _ => none
  | ["C", c, n, fp, p] => match c.toNat?, natOf n, fp.toNat?, p.toNat? with
    | some c, some n, some fp, some p =>
      match step fixed st (.clientArrive c n fp) with
      | some st1 => (step fixed st1 (.cMatch c p)).map (settle fixed 64)
      | none => none
    | _, _, _, _ => none
  | ["A", a, p] => match a.toNat?, p.toNat? with
    | some a, some p => go (.ansArrive a p) | _, _ => none
  | ["TP", p] => match p.toNat? with
    | some p => go (.wTimer p) | none => none
  | ["TC", c] => match c.toNat? with
    | some c => go (.cTimer c) | none => none
  | _ => none

def handle : List String → String
  | ["trace", fx, br, labs] =>
    match parseBridges br, (if labs = "." then some [] else (labs.splitOn ",").mapM parseLab) with
    | some bridge, some ls =>
      let fixed := fx = "1"
      match firstRejected fixed (init bridge) ls 0 with
      | some i => s!"rejected {i}"
      | none => match runL fixed (init bridge) ls with
        | some st => "ok " ++ summary fixed st
        | none => "rejected ?"
    | _, _ => "bad-op"
  | ["quiet", fx, br, evs] =>
    match parseBridges br with
    | some bridge =>
      let fixed := fx = "1"
      let rec go (st : St) (i : Nat) : List String → String
        | [] => "ok " ++ summary fixed st
        | e :: es => match quietEvent fixed st e with
          | some st' => go st' (i + 1) es
          | none => s!"rejected {i}"
      go (init bridge) 0 (if evs = "." then [] else evs.splitOn ",")
    | none => "bad-op"
  | _ => "bad-op"

end Driver.Broker
