import Snowflake.Base.Hex
import Snowflake.Model.Amp
/-! Line protocol for the AMP armor model and the base64 theory (C10). -/
namespace Driver.C10
open Snowflake Snowflake.Amp

/-- `.` = no element, otherwise comma separated hex strings (`-` = empty). -/
def parseList (s : String) : Option (List (List UInt8)) :=
  if s = "." then some [] else (s.splitOn ",").mapM Hex.decode

def parseSizes (s : String) : Option (Nat → Nat) :=
  match (s.splitOn ",").mapM String.toNat? with
  | some [] => none
  | some l => some (fun i => l.getD (i % l.length) 1)
  | none => none

def errStr : Err → String
  | .eof => "eof"
  | .unknownVersion b => s!"unknownVersion:{b.toNat}"
  | .missingPre => "missingPre"
  | .nestedPre => "nestedPre"
  | .strayPre => "strayPre"
  | .bufExceeded => "bufExceeded"
  | .corrupt => "corrupt"
  | .unexpectedEOF => "unexpectedEOF"

def resultStr : Result → String
  | .initErr e => s!"init {errStr e}"
  | .read o none => s!"read {Hex.enc o} ok"
  | .read o (some e) => s!"read {Hex.enc o} {errStr e}"

def tokStr : Tok → String
  | .text t => "T:" ++ Hex.enc t
  | .startTag n => "S:" ++ Hex.enc n
  | .endTag n => "E:" ++ Hex.enc n
  | .selfClosing n => "X:" ++ Hex.enc n
  | .comment => "C"
  | .doctype => "D"

def encOf : String → Option Base64.Enc
  | "std" => some Base64.std
  | "url" => some Base64.url
  | "rawstd" => some Base64.rawStd
  | "rawurl" => some Base64.rawUrl
  | _ => none

def b64ErrStr : Option Base64.Err → String
  | none => "none"
  | some .eof => "eof"
  | some .unexpectedEOF => "unexpectedEOF"
  | some .corrupt => "corrupt"
  | some (.other n) => s!"other:{n}"

def handle : List String → String
  | ["enc", cs] =>
    match parseList cs with
    | some chunks => Hex.enc (encodeChunks chunks)
    | none => "bad-op"
  | ["dec", sz, h] =>
    match parseSizes sz, Hex.decode h with
    | some sizes, some doc => resultStr (decode sizes doc)
    | _, _ => "bad-op"
  | ["tok", h] =>
    match Hex.decode h with
    | some doc =>
      let t := tokenize doc
      let e := match t.2 with | .eof => "eof" | .exceeded => "exceeded"
      (if t.1.isEmpty then "." else ",".intercalate (t.1.map tokStr)) ++ " " ++ e
    | none => "bad-op"
  | ["words", h] =>
    match Hex.decode h with
    | some t => let ws := words t; if ws.isEmpty then "." else ",".intercalate (ws.map Hex.enc)
    | none => "bad-op"
  | ["ws", n] =>
    match n.toNat? with
    | some k => if isASCIIWhitespace (UInt8.ofNat k) then "true" else "false"
    | none => "bad-op"
  | ["b64enc", e, h] =>
    match encOf e, Hex.decode h with
    | some enc, some b => Hex.enc (Base64.encode enc b)
    | _, _ => "bad-op"
  | ["b64encs", e, cs] =>
    match encOf e, parseList cs with
    | some enc, some chunks =>
      let ws := Base64.Encoder.run enc [] chunks
      if ws.isEmpty then "." else ",".intercalate (ws.map Hex.enc)
    | _, _ => "bad-op"
  | ["b64dec", e, h] =>
    match encOf e, Hex.decode h with
    | some enc, some s => let r := Base64.decodeRaw enc s; s!"{Hex.enc r.1} {if r.2 then "ok" else "corrupt"}"
    | _, _ => "bad-op"
  | ["b64stream", e, sz, fin, cs] =>
    match encOf e, parseSizes sz, fin.toNat?, parseList cs with
    | some enc, some sizes, some f, some chunks =>
      let src : Base64.Src := { chunks := chunks.filter (fun c => !c.isEmpty), fin := if f = 0 then .eof else .other f }
      let r := Base64.streamDecode enc sizes src
      s!"{Hex.enc r.1} {b64ErrStr r.2}"
    | _, _, _, _ => "bad-op"
  | _ => "bad-op"

end Driver.C10
