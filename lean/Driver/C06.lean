import Snowflake.Base.Hex
import Snowflake.Model.NameMatcher
/-! Line protocol for the name matcher model. -/
namespace Driver.C06
open Snowflake Snowflake.NameMatcher

def b (x : Bool) : String := if x then "true" else "false"

def handle : List String → String
  | ["new", r] =>
    match Hex.decode r with
    | some rule => let m := new rule; s!"{b m.exact} {Hex.enc m.suffix}"
    | none => "bad-op"
  | ["valid", r] =>
    match Hex.decode r with
    | some rule => b (isValidRule rule)
    | none => "bad-op"
  | ["sup", a, c] =>
    match Hex.decode a, Hex.decode c with
    | some ra, some rb => b (isSupersetOf (new ra) (new rb))
    | _, _ => "bad-op"
  | ["mem", r, h] =>
    match Hex.decode r, Hex.decode h with
    | some rule, some host => b (isMember (new rule) host)
    | _, _ => "bad-op"
  | ["broker", al, pr, pa, ns] =>
    match Hex.decode al, Hex.decode pr, Hex.decode pa with
    | some allowed, some presumed, some pattern => b (brokerCheck allowed presumed pattern (ns = "1"))
    | _, _, _ => "bad-op"
  | ["proxy", u, mem, allow, sch] =>
    match Hex.decode u, Hex.decode sch with
    | some url, some scheme => if proxyRejects url (mem = "1") (allow = "1") scheme then "reject" else "accept"
    | _, _ => "bad-op"
  | _ => "bad-op"

end Driver.C06
