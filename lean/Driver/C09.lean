import Snowflake.Base.Hex
import Snowflake.Model.Encap
/-! Line protocol for the encapsulation model. -/
namespace Driver.C09
open Snowflake Snowflake.Encap

def statusStr : Status → String
  | .eof => "eof" | .unexpectedEOF => "unexpectedEOF" | .tooLong => "tooLong"

def chunksStr (cs : List Bytes) : String :=
  if cs.isEmpty then "." else ",".intercalate (cs.map Hex.enc)

def parseScript (s : String) : Option Script :=
  if s = "." then some [] else
  (s.splitOn ",").mapM fun ent =>
    match ent.splitOn ":" with
    | [k, e] => match k.toNat? with
      | some kk => some (kk, e = "1")
      | none => none
    | _ => none

def handle : List String → String
  | ["decode", h] =>
    match Hex.decode h with
    | some bs => let (cs, st) := decodeAll bs; s!"{chunksStr cs} {statusStr st}"
    | none => "bad-op"
  | ["read", fx, h, sc] =>
    match Hex.decode h, parseScript sc with
    | some bs, some script =>
      let (cs, st) := readAll (fx = "1") (bs.length + script.length + 2) ⟨bs, script⟩
      s!"{chunksStr cs} {statusStr st}"
    | _, _ => "bad-op"
  | ["prefix", n] =>
    match n.toNat? with
    | some k => match dataPrefix k with
      | some p => Hex.enc p
      | none => "tooLong"
    | none => "bad-op"
  | ["pad", n] =>
    match n.toNat? with
    | some k => Hex.enc (padding k)
    | none => "bad-op"
  | ["max", n] =>
    match n.toNat? with
    | some k => toString (maxDataForSize k)
    | none => "bad-op"
  | _ => "bad-op"

end Driver.C09
