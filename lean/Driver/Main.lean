import Driver.C09
import Driver.C06
import Driver.Broker
import Driver.C14
import Driver.C18
import Driver.C08
import Driver.C13
import Driver.C12
import Driver.C19
import Driver.C17
import Driver.C07
import Driver.C05
import Driver.C15
import Driver.C16
import Driver.C10
import Driver.C11
/-!
`sfdriver`: executable models behind a line protocol.  One request per line
(`<model> <op> <args…>`), one reply line per request.  Core-only (no Mathlib below this file).
-/

def dispatch (ws : List String) : String :=
  match ws with
  | "c09" :: rest => Driver.C09.handle rest
  | "c06" :: rest => Driver.C06.handle rest
  | "broker" :: rest => Driver.Broker.handle rest
  | "c14" :: rest => Driver.C14.handle rest
  | "c18" :: rest => Driver.C18.handle rest
  | "c08" :: rest => Driver.C08.handle rest
  | "c13" :: rest => Driver.C13.handle rest
  | "c12" :: rest => Driver.C12.handle rest
  | "c19" :: rest => Driver.C19.handle rest
  | "c17" :: rest => Driver.C17.handle rest
  | "c07" :: rest => Driver.C07.handle rest
  | "c05" :: rest => Driver.C05.handle rest
  | "c15" :: rest => Driver.C15.handle rest
  | "c16" :: rest => Driver.C16.handle rest
  | "c10" :: rest => Driver.C10.handle rest
  | "c11" :: rest => Driver.C11.handle rest
  | _ => "bad-op"

partial def loop (hin : IO.FS.Stream) (hout : IO.FS.Stream) : IO Unit := do
  let line ← hin.getLine
  if line.isEmpty then return ()
  let ws := (line.trimAscii.toString.splitOn " ").filter (· ≠ "")
  hout.putStrLn (dispatch ws)
  hout.flush
  loop hin hout

def main : IO Unit := do
  loop (← IO.getStdin) (← IO.getStdout)
