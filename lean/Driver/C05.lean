import Snowflake.Base.Hex
import Snowflake.Model.Server
/-! Line protocol for the server carrier-layer model (C05 / C01). -/
namespace Driver.C05
open Snowflake Snowflake.Server Snowflake.Encap

def hexList (xs : List Bytes) : String := if xs.isEmpty then "." else ",".intercalate (xs.map Hex.enc)

def parseLab (t : String) : Option Lab :=
  match t.splitOn ":" with
  | ["o", k] => k.toNat?.map .open
  | ["r", k, h] => match k.toNat?, Hex.decode h with
    | some k, some b => some (.recv k b) | _, _ => none
  | ["c", k] => k.toNat?.map .cut
  | ["h", k] => k.toNat?.map .hStep
  | ["w", p, id] => match Hex.decode p, Hex.decode id with
    | some p, some id => some (.kcpWrite p id) | _, _ => none
  | ["s", k] => k.toNat?.map .wStep
  | ["kr"] => some .kcpRead
  | _ => none

/-- run handler steps of carrier k until none is enabled -/
def drain (st : St) (k : Nat) : Nat → St
  | 0 => st
  | fuel + 1 => match step st (.hStep k) with
    | some st' => drain st' k fuel
    | none => st

def carrierStr (st : St) (k : Nat) : String :=
  let c := st.cs k
  let pres := match c.presented with | some id => Hex.enc id | none => "none"
  s!"presented={pres} queued={hexList c.queued} written={hexList c.written} closed={c.pc == .closed}"

def handle : List String → String
  | ["carrier", tok, qs, bytes] =>
    match Hex.decode tok, qs.toNat?, Hex.decode bytes with
    | some token, some q, some bs =>
      match runL (init token q) [.open 0, .recv 0 bs, .cut 0] with
      | some st => carrierStr (drain st 0 (bs.length + 4)) 0
      | none => "rejected"
    | _, _, _ => "bad-op"
  | ["trace", tok, qs, n, labs] =>
    match Hex.decode tok, qs.toNat?, n.toNat?, (if labs = "." then some [] else (labs.splitOn ",").mapM parseLab) with
    | some token, some q, some n, some ls =>
      match runL (init token q) ls with
      | some st =>
        let cs := (List.range n).map (fun k => s!"k{k}: " ++ carrierStr st k)
        let inq := ",".intercalate (st.inq.map (fun (p, id) => Hex.enc p ++ "@" ++ Hex.enc id))
        " | ".intercalate cs ++ s!" | inq={if st.inq.isEmpty then "." else inq}"
      | none => "rejected"
    | _, _, _, _ => "bad-op"
  | _ => "bad-op"

end Driver.C05
