import Snowflake.Base.Hex
import Snowflake.Base.Utf8
import Snowflake.Model.SessionDesc
/-! Line protocol for the session-description model (C13).

* `de <fixed 0|1> <hex bytes>` → `ok <type> <hex sdp>` | `err` | `panic`
* `ser <type 0..> <hex sdp bytes>` → hex of the JSON text
-/
namespace Driver.C13
open Snowflake Snowflake.SessionDesc

def typeStr : SDPType → String
  | .offer => "offer" | .pranswer => "pranswer" | .answer => "answer" | .rollback => "rollback" | .other => "other"

/-- the Go integer value of `webrtc.SDPType` -/
def typeOfInt : Nat → SDPType
  | 1 => .offer | 2 => .pranswer | 3 => .answer | 4 => .rollback | _ => .other

def outcomeStr : Outcome → String
  | .ok t sdp => s!"ok {typeStr t} {Hex.enc (Utf8.encode sdp)}"
  | .err => "err"
  | .panic => "panic"

def handle : List String → String
  | ["de", fx, h] =>
    match Hex.decode h with
    | some bs => if fx = "0" || fx = "1" then outcomeStr (deserialize (fx = "1") (Utf8.decodeLossy bs)) else "bad-op"
    | none => "bad-op"
  | ["ser", t, h] =>
    match t.toNat?, Hex.decode h with
    | some n, some bs => Hex.enc (Utf8.encode (serialize (typeOfInt n) (Utf8.decodeItems bs)))
    | _, _ => "bad-op"
  | _ => "bad-op"

end Driver.C13
