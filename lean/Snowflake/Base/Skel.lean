/-
Helpers for reasoning about synchronisation skeletons (`List String` emitted by the extractor):
block structure and ordering queries.  Core-only, kernel-evaluable.
-/
namespace Snowflake.Skel

/-- Lines of the block whose opening line has just been consumed (`d` = nesting depth so far). -/
def blockFrom : List String → Nat → List String
  | [], _ => []
  | l :: ls, d =>
    if l == "}" then (if d == 0 then [] else l :: blockFrom ls (d - 1))
    else if l == "}else{" then (if d == 0 then [] else l :: blockFrom ls d)
    else if l.endsWith "{" then l :: blockFrom ls (d + 1)
    else l :: blockFrom ls d

/-- Index of the first line satisfying `p`. -/
def idx (sk : List String) (p : String → Bool) : Option Nat := sk.findIdx? p

/-- The body of the first block whose opening line satisfies `p`. -/
def blockOf (sk : List String) (p : String → Bool) : Option (List String) :=
  match sk.findIdx? p with
  | some i => some (blockFrom (sk.drop (i + 1)) 0)
  | none => none

/-- `a` occurs, `b` occurs, and the first `a` is strictly before the first `b`. -/
def before (sk : List String) (a b : String → Bool) : Bool :=
  match sk.findIdx? a, sk.findIdx? b with
  | some i, some j => decide (i < j)
  | _, _ => false

def count (sk : List String) (p : String → Bool) : Nat := (sk.filter p).length

def pre (s : String) : String → Bool := fun l => l.startsWith s

end Snowflake.Skel
