/-
Go's `encoding/base64` (go1.23.5) as the repository uses it — core-only, executable.

* `Enc`            an encoding: 64-symbol alphabet and whether `=` padding is used
                   (`StdEncoding`, `URLEncoding`, `RawStdEncoding`, `RawURLEncoding`; never strict);
* `encode`         `Encoding.Encode` / `EncodeToString`;
* `Encoder`        the streaming `NewEncoder` (`Write` / `Close`, at most two pending bytes between
                   writes, output handed on in blocks of 4 resp. ≤ 1024 bytes);
* `decodeRaw`      `Encoding.Decode` / `DecodeString`: the bytes written before an error and whether
                   an error (`CorruptInputError`) occurred.  `\r` and `\n` are skipped anywhere, padding
                   rules as in `decodeQuantum`, trailing bits are not checked (non-strict).  The fast
                   paths of `Decode` (8 / 4 symbols at a time) are semantically the quantum loop and
                   are not modelled separately; error *positions* are not modelled;
* `Dec`            the streaming `NewDecoder` reading through `newlineFilteringReader` from a source
                   that hands out its data chunk by chunk (an `io.Pipe`, a fragmenting reader):
                   `Dec.read` is `decoder.Read(p)` with `len(p) = plen`, statement by statement.

Theorems are in `Snowflake/Proofs/Base64.lean`.
-/
namespace Snowflake.Base64

abbrev Bytes := List UInt8

structure Enc where
  alpha : List UInt8
  pad : Bool
deriving DecidableEq, Repr

/-- `ABCDEFGHIJKLMNOPQRSTUVWXYZabcdefghijklmnopqrstuvwxyz0123456789+/` -/
def stdAlpha : List UInt8 :=
  [65, 66, 67, 68, 69, 70, 71, 72, 73, 74, 75, 76, 77, 78, 79, 80, 81, 82, 83, 84, 85, 86, 87, 88, 89, 90,
   97, 98, 99, 100, 101, 102, 103, 104, 105, 106, 107, 108, 109, 110, 111, 112, 113, 114, 115, 116, 117,
   118, 119, 120, 121, 122, 48, 49, 50, 51, 52, 53, 54, 55, 56, 57, 43, 47]

/-- `ABCDEFGHIJKLMNOPQRSTUVWXYZabcdefghijklmnopqrstuvwxyz0123456789-_` -/
def urlAlpha : List UInt8 :=
  [65, 66, 67, 68, 69, 70, 71, 72, 73, 74, 75, 76, 77, 78, 79, 80, 81, 82, 83, 84, 85, 86, 87, 88, 89, 90,
   97, 98, 99, 100, 101, 102, 103, 104, 105, 106, 107, 108, 109, 110, 111, 112, 113, 114, 115, 116, 117,
   118, 119, 120, 121, 122, 48, 49, 50, 51, 52, 53, 54, 55, 56, 57, 45, 95]

def std : Enc := ⟨stdAlpha, true⟩
def url : Enc := ⟨urlAlpha, true⟩
def rawStd : Enc := ⟨stdAlpha, false⟩
def rawUrl : Enc := ⟨urlAlpha, false⟩

/-- `enc.encode[i]` -/
def Enc.sym (e : Enc) (i : Nat) : UInt8 := e.alpha.getD i 0

/-- `enc.decodeMap[c]` (`none` = 0xff) -/
def Enc.val (e : Enc) (c : UInt8) : Option Nat :=
  let i := e.alpha.idxOf c
  if i < 64 then some i else none

/-- `=` -/
def padChar : UInt8 := 61

def isNL (c : UInt8) : Bool := c == 10 || c == 13

/-! ## Encoding -/

def padding (e : Enc) (n : Nat) : Bytes := if e.pad then List.replicate n padChar else []

/-- `Encoding.Encode`: 3 bytes → 4 symbols; a final group of 1 or 2 bytes gives 2 or 3 symbols and
padding. -/
def encode (e : Enc) : Bytes → Bytes
  | a :: b :: c :: rest =>
    let v := a.toNat * 65536 + b.toNat * 256 + c.toNat
    e.sym (v / 262144 % 64) :: e.sym (v / 4096 % 64) :: e.sym (v / 64 % 64) :: e.sym (v % 64) :: encode e rest
  | [a, b] =>
    let v := a.toNat * 65536 + b.toNat * 256
    e.sym (v / 262144 % 64) :: e.sym (v / 4096 % 64) :: e.sym (v / 64 % 64) :: padding e 1
  | [a] =>
    let v := a.toNat * 65536
    e.sym (v / 262144 % 64) :: e.sym (v / 4096 % 64) :: padding e 2
  | [] => []

/-! ## Streaming encoder (`base64.NewEncoder`) -/

/-- The loop "large interior chunks" of `encoder.Write`: while at least 3 bytes remain, encode
`min(768, len - len % 3)` of them and hand the result to the underlying writer.  Returns the
trailing fringe (< 3 bytes) and the list of underlying writes.  `fuel ≥ p.length` always suffices. -/
def interior (e : Enc) : Nat → Bytes → Bytes × List Bytes
  | 0, p => (p, [])
  | fuel + 1, p =>
    if p.length ≥ 3 then
      let nn := if 768 > p.length then p.length - p.length % 3 else 768
      let r := interior e fuel (p.drop nn)
      (r.1, encode e (p.take nn) :: r.2)
    else (p, [])

/-- `encoder.Write(p)` on a writer that never fails: new pending bytes (`e.buf[:e.nbuf]`) and the
underlying writes, in order. -/
def Encoder.write (e : Enc) (buf : Bytes) (p : Bytes) : Bytes × List Bytes :=
  if buf.length > 0 then
    -- leading fringe
    let i := min (3 - buf.length) p.length
    let buf' := buf ++ p.take i
    let p' := p.drop i
    if buf'.length < 3 then (buf', [])
    else
      let r := interior e p'.length p'
      (r.1, encode e buf' :: r.2)
  else interior e p.length p

/-- `encoder.Close()`: flush the pending bytes with padding. -/
def Encoder.close (e : Enc) (buf : Bytes) : List Bytes :=
  if buf.length > 0 then [encode e buf] else []

/-- All underlying writes of: `NewEncoder`, one `Write` per chunk, `Close`. -/
def Encoder.run (e : Enc) : Bytes → List Bytes → List Bytes
  | buf, [] => Encoder.close e buf
  | buf, c :: cs => let r := Encoder.write e buf c; r.2 ++ Encoder.run e r.1 cs

/-! ## One-shot decoding (`Encoding.Decode`) -/

/-- The bytes of a quantum with `acc.length` symbols (2, 3 or 4 → 1, 2 or 3 bytes). -/
def outBytes (acc : List Nat) : Bytes :=
  let v := acc.getD 0 0 * 262144 + acc.getD 1 0 * 4096 + acc.getD 2 0 * 64 + acc.getD 3 0
  [UInt8.ofNat (v / 65536), UInt8.ofNat (v / 256 % 256), UInt8.ofNat (v % 256)].take (acc.length - 1)

/-- After the first `=` of a quantum with `acc.length` ∈ {2, 3} symbols (`decodeQuantum`, "we've
reached the end and there's padding"): with two symbols a second `=` must follow (newlines may
intervene); then only newlines may follow, anything else is "trailing garbage" — reported as an
error *together with* the bytes of this quantum. -/
def padTail (acc : List Nat) (cs : Bytes) : Bytes × Bool :=
  if acc.length = 2 then
    match cs.dropWhile isNL with
    | [] => ([], false)
    | d :: r => if d != padChar then ([], false) else (outBytes acc, (r.dropWhile isNL).isEmpty)
  else (outBytes acc, (cs.dropWhile isNL).isEmpty)

/-- The quantum loop of `Decode`: `acc` holds the symbols of the current quantum (`j = acc.length`).
Result: bytes written, and `true` iff no `CorruptInputError`. -/
def decodeGo (e : Enc) : List Nat → Bytes → Bytes × Bool
  | acc, [] =>
    if acc.length = 0 then ([], true)
    else if acc.length = 1 || e.pad then ([], false)
    else (outBytes acc, true)
  | acc, c :: cs =>
    match e.val c with
    | some v =>
      if acc.length = 3 then
        let r := decodeGo e [] cs
        (outBytes (acc ++ [v]) ++ r.1, r.2)
      else decodeGo e (acc ++ [v]) cs
    | none =>
      if isNL c then decodeGo e acc cs
      else if !(e.pad && c == padChar) then ([], false)
      else if acc.length < 2 then ([], false)
      else padTail acc cs

/-- `enc.Decode(dst, src)`: `(dst[:n], err == nil)`. -/
def decodeRaw (e : Enc) (s : Bytes) : Bytes × Bool := decodeGo e [] s

/-- `enc.DecodeString(s)` when only success matters. -/
def decode (e : Enc) (s : Bytes) : Option Bytes :=
  match decodeRaw e s with
  | (o, true) => some o
  | (_, false) => none

/-! ## Streaming decoder (`base64.NewDecoder`) -/

inductive Err
  | eof | unexpectedEOF | corrupt
  | other (code : Nat)      -- an error of the underlying reader, passed through
deriving DecidableEq, Repr

/-- The underlying reader: data is handed out chunk by chunk (one `Read` returns at most the rest of
the current chunk — an `io.Pipe` delivers one `Write` at a time; a fragmenting reader delivers its
fragments); once the chunks are used up every `Read` returns `(0, fin)`.  Zero-length chunks would be
`(0, nil)` reads, which both loops above simply retry; the model drops them. -/
structure Src where
  chunks : List Bytes
  fin : Err
deriving DecidableEq, Repr

def Src.bytes (s : Src) : Bytes := s.chunks.flatten

/-- One `Read` of the wrapped reader into a buffer of `k ≥ 1` bytes. -/
def rawRead (k : Nat) (s : Src) : Bytes × Option Err × Src :=
  match s.chunks with
  | [] => ([], some s.fin, s)
  | c :: cs =>
    if c.length ≤ k then (c, none, { s with chunks := cs })
    else (c.take k, none, { s with chunks := c.drop k :: cs })

/-- `newlineFilteringReader.Read`: strip `\r`/`\n`; if nothing is left read again. -/
def filterRead : Nat → Nat → Src → Bytes × Option Err × Src
  | 0, _, s => ([], none, s)
  | fuel + 1, k, s =>
    match rawRead k s with
    | (d, err, s') =>
      if d.isEmpty then ([], err, s')
      else
        let f := d.filter (fun c => !isNL c)
        if f.isEmpty then filterRead fuel k s' else (f, err, s')

/-- Fuel that always suffices for `filterRead`. -/
def Src.fuel (s : Src) : Nat := s.bytes.length + s.chunks.length + 1

structure Dec where
  enc : Enc
  buf : Bytes := []              -- d.buf[:d.nbuf]
  out : Bytes := []              -- d.out
  err : Option Err := none       -- d.err
  readErr : Option Err := none   -- d.readErr
  src : Src
  fuel : Nat                     -- model only: bound for the newline filter's retry loop (≥ src.fuel)
deriving DecidableEq, Repr

/-- `NewDecoder(enc, r)` -/
def Dec.new (e : Enc) (s : Src) : Dec := { enc := e, src := s, fuel := s.fuel }

/-- One iteration of the refill loop: `nn, d.readErr = d.r.Read(d.buf[d.nbuf:nn]); d.nbuf += nn`. -/
def Dec.fill (nn : Nat) (d : Dec) : Dec :=
  let r := filterRead d.fuel (nn - d.buf.length) d.src
  { d with buf := d.buf ++ r.1, readErr := r.2.1, src := r.2.2 }

/-- "Refill buffer": `for d.nbuf < 4 && d.readErr == nil { … }`.  Every iteration adds at least one
byte or sets `readErr`, so four iterations always suffice. -/
def Dec.refill : Nat → Nat → Dec → Dec
  | 0, _, d => d
  | fuel + 1, nn, d =>
    if d.buf.length < 4 ∧ d.readErr = none then Dec.refill fuel nn (d.fill nn) else d

/-- `decoder.Read`, the part `if d.nbuf < 4 { … }` after the refill loop has given up. -/
def Dec.readShort (plen : Nat) (d : Dec) : Bytes × Option Err × Dec :=
  let fallthrough : Bytes × Option Err × Dec :=
    let e : Option Err := if d.readErr = some .eof ∧ d.buf.length > 0 then some .unexpectedEOF else d.readErr
    ([], e, { d with err := e })
  if !d.enc.pad ∧ d.buf.length > 0 then
    -- decode final fragment, without padding
    let r := decodeRaw d.enc d.buf
    let derr : Option Err := if r.2 then none else some .corrupt
    let n := r.1.take plen
    let d1 := { d with buf := [], err := derr, out := r.1.drop plen }
    if n.length > 0 ∨ (plen = 0 ∧ d1.out.length > 0) then (n, none, d1)
    else if derr.isSome then ([], derr, d1)
    else
      let e : Option Err := d1.readErr
      ([], e, { d1 with err := e })
  else fallthrough

/-- `decoder.Read`, the part "decode chunk into p, or d.out and then p if p is too small". -/
def Dec.readDecode (plen : Nat) (d : Dec) : Bytes × Option Err × Dec :=
  let nr := d.buf.length / 4 * 4
  let nw := d.buf.length / 4 * 3
  let r := decodeRaw d.enc (d.buf.take nr)
  let derr : Option Err := if r.2 then none else some .corrupt
  if nw > plen then
    (r.1.take plen, derr, { d with buf := d.buf.drop nr, err := derr, out := r.1.drop plen })
  else
    (r.1, derr, { d with buf := d.buf.drop nr, err := derr })

/-- `decoder.Read(p)` with `len(p) = plen`: bytes delivered, error returned, new state. -/
def Dec.read (plen : Nat) (d : Dec) : Bytes × Option Err × Dec :=
  if d.out.length > 0 then
    (d.out.take plen, none, { d with out := d.out.drop plen })
  else if d.err.isSome then ([], d.err, d)
  else
    let nn := min (max (plen / 3 * 4) 4) 1024
    let d := Dec.refill 4 nn d
    if d.buf.length < 4 then Dec.readShort plen d else Dec.readDecode plen d

/-- The caller's loop `for { n, err := r.Read(buf[:size i]); out = append(out, buf[:n]...); if err != nil { break } }`
(`io.ReadAll` is this loop with its own buffer sizes).  `sizes i` is the buffer length of the i-th
call.  Returns the bytes collected and the error that ended the loop (`none` = fuel exhausted, which
cannot happen with `fuel > ` input length and positive sizes). -/
def Dec.readAll (sizes : Nat → Nat) : Nat → Nat → Dec → Bytes × Option Err
  | 0, _, _ => ([], none)
  | fuel + 1, i, d =>
    match Dec.read (sizes i) d with
    | (o, some e, _) => (o, some e)
    | (o, none, d') => let r := Dec.readAll sizes fuel (i + 1) d'; (o ++ r.1, r.2)

/-- `NewDecoder(enc, r)` read to the end. -/
def streamDecode (e : Enc) (sizes : Nat → Nat) (s : Src) : Bytes × Option Err :=
  Dec.readAll sizes (s.bytes.length + 2) 0 (Dec.new e s)

end Snowflake.Base64
