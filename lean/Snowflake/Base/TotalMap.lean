/-
Total maps `Nat → α` with pointwise update, and the generic "run a label list" / reachability
scaffolding used by the interleaving (LTS) models (C15 Peers, C16 proxy slots).  Core-only.

Thread tables are total maps from thread ids to program counters (an `absent` program counter marks
an unused id), lock-protected sections without blocking operations are single atomic labels and
`step : St → Lab → Option St` is executable (DESIGN.md §5.2 "Representation").
-/
namespace Snowflake.TotalMap

/-- pointwise update -/
def upd {α} (m : Nat → α) (k : Nat) (v : α) : Nat → α := fun x => if x = k then v else m x

@[simp] theorem upd_same {α} (m : Nat → α) (k : Nat) (v : α) : upd m k v k = v := by simp [upd]

@[simp] theorem upd_ne {α} (m : Nat → α) (k : Nat) (v : α) (x : Nat) (h : x ≠ k) : upd m k v x = m x := by
  simp [upd, h]

theorem upd_apply {α} (m : Nat → α) (k : Nat) (v : α) (x : Nat) :
    upd m k v x = if x = k then v else m x := rfl

/-- Run a list of labels; `none` as soon as one of them is not enabled. -/
def runL {S L} (step : S → L → Option S) : S → List L → Option S
  | s, [] => some s
  | s, l :: ls => match step s l with
    | some s' => runL step s' ls
    | none => none

@[simp] theorem runL_nil {S L} (step : S → L → Option S) (s : S) : runL step s [] = some s := rfl

theorem runL_cons {S L} (step : S → L → Option S) (s : S) (l : L) (ls : List L) :
    runL step s (l :: ls) = (step s l).bind (fun s' => runL step s' ls) := by
  simp only [runL]; cases step s l <;> rfl

theorem runL_append {S L} (step : S → L → Option S) (s : S) (as bs : List L) :
    runL step s (as ++ bs) = (runL step s as).bind (fun s' => runL step s' bs) := by
  induction as generalizing s with
  | nil => simp
  | cons a as ih =>
    simp only [List.cons_append, runL]
    cases h : step s a with
    | none => simp
    | some s' => simp [ih]

/-- States reachable from `init` by enabled labels. -/
inductive Reach {S L} (step : S → L → Option S) (init : S) : S → Prop
  | init : Reach step init init
  | step {s s' : S} (l : L) : Reach step init s → step s l = some s' → Reach step init s'

theorem Reach.runL {S L} {step : S → L → Option S} {init s s' : S} (h : Reach step init s) (ls : List L)
    (hr : TotalMap.runL step s ls = some s') : Reach step init s' := by
  induction ls generalizing s with
  | nil => simp at hr; exact hr ▸ h
  | cons l ls ih =>
    simp only [TotalMap.runL] at hr
    cases hs : step s l with
    | none => simp [hs] at hr
    | some s1 => simp only [hs] at hr; exact ih (Reach.step l h hs) hr

/-- Invariant rule. -/
theorem Reach.inv {S L} {step : S → L → Option S} {init : S} (P : S → Prop) (h0 : P init)
    (hstep : ∀ s l s', P s → step s l = some s' → P s') {s : S} (h : Reach step init s) : P s := by
  induction h with
  | init => exact h0
  | step l _ hs ih => exact hstep _ l _ ih hs

end Snowflake.TotalMap
