/-
UTF-8 with Go's decoding policy (core-only).

`decodeItems` models iterating `utf8.DecodeRune` over a byte string: every step yields either a
valid Unicode scalar value (`some c`) or `none` for `(RuneError, 1)` — one offending byte is consumed
and decoding resumes at the next byte ("one U+FFFD per invalid byte").  A sequence is invalid when
it is truncated, has a bad continuation byte, is overlong, encodes a surrogate, or exceeds
U+10FFFF; this is the same set Go's `first`/`acceptRanges` tables reject (E0 needs A0..BF ⇔ value ≥
0x800, ED needs 80..9F ⇔ value < 0xD800, F0 needs 90..BF ⇔ value ≥ 0x10000, F4 needs 80..8F ⇔ value
< 0x110000); the equivalence with Go's tables is validated differentially by the C12/C13 harnesses.

`encodeChar` is `utf8.AppendRune` for a valid scalar.
-/
namespace Snowflake.Utf8

abbrev Bytes := List UInt8

/-- U+FFFD, `utf8.RuneError` / `unicode.ReplacementChar`. -/
def replacement : Char := Char.ofNat 0xFFFD

/-- continuation byte `10xxxxxx` -/
def isCont (n : Nat) : Bool := 0x80 ≤ n && n < 0xC0

/-- One `utf8.DecodeRune` step: `none` at end of input; otherwise the item and the remaining bytes. -/
def decodeStep : Bytes → Option (Option Char × Bytes)
  | [] => none
  | b0 :: r =>
    let n0 := b0.toNat
    if n0 < 0x80 then some (some (Char.ofNat n0), r)
    else if n0 < 0xC2 then some (none, r)
    else if n0 < 0xE0 then
      match r with
      | b1 :: r1 =>
        if isCont b1.toNat then some (some (Char.ofNat ((n0 - 0xC0) * 64 + (b1.toNat - 0x80))), r1)
        else some (none, r)
      | [] => some (none, r)
    else if n0 < 0xF0 then
      match r with
      | b1 :: b2 :: r2 =>
        let n := (n0 - 0xE0) * 4096 + (b1.toNat - 0x80) * 64 + (b2.toNat - 0x80)
        if isCont b1.toNat && isCont b2.toNat && 0x800 ≤ n && !(0xD800 ≤ n && n < 0xE000) then
          some (some (Char.ofNat n), r2)
        else some (none, r)
      | _ => some (none, r)
    else if n0 < 0xF5 then
      match r with
      | b1 :: b2 :: b3 :: r3 =>
        let n := (n0 - 0xF0) * 262144 + (b1.toNat - 0x80) * 4096 + (b2.toNat - 0x80) * 64 + (b3.toNat - 0x80)
        if isCont b1.toNat && isCont b2.toNat && isCont b3.toNat && 0x10000 ≤ n && n < 0x110000 then
          some (some (Char.ofNat n), r3)
        else some (none, r)
      | _ => some (none, r)
    else some (none, r)

/-- Iterated `DecodeRune` with explicit fuel (every step consumes at least one byte). -/
def decodeItemsF : Nat → Bytes → List (Option Char)
  | 0, _ => []
  | f + 1, bs =>
    match decodeStep bs with
    | none => []
    | some (it, r) => it :: decodeItemsF f r

/-- The items of a Go string as seen by `for range` / `utf8.DecodeRune`: scalars and offending bytes. -/
def decodeItems (bs : Bytes) : List (Option Char) := decodeItemsF bs.length bs

/-- Go's replacement policy: each offending byte becomes one U+FFFD. -/
def decodeLossy (bs : Bytes) : List Char := (decodeItems bs).map (·.getD replacement)

/-- `utf8.AppendRune` for a valid scalar value. -/
def encodeChar (c : Char) : Bytes :=
  let n := c.toNat
  if n < 0x80 then [UInt8.ofNat n]
  else if n < 0x800 then [UInt8.ofNat (0xC0 + n / 64), UInt8.ofNat (0x80 + n % 64)]
  else if n < 0x10000 then
    [UInt8.ofNat (0xE0 + n / 4096), UInt8.ofNat (0x80 + n / 64 % 64), UInt8.ofNat (0x80 + n % 64)]
  else
    [UInt8.ofNat (0xF0 + n / 262144), UInt8.ofNat (0x80 + n / 4096 % 64),
     UInt8.ofNat (0x80 + n / 64 % 64), UInt8.ofNat (0x80 + n % 64)]

def encode (cs : List Char) : Bytes := cs.flatMap encodeChar

/-! ### Round trip -/

theorem char_range (c : Char) : c.toNat < 0xD800 ∨ (0xDFFF < c.toNat ∧ c.toNat < 0x110000) := c.valid

private theorem u8 {n : Nat} (h : n < 256) : (UInt8.ofNat n).toNat = n :=
  UInt8.toNat_ofNat_of_lt' h

/-- Decoding the encoding of `c`, followed by anything, yields `c` and leaves the rest. -/
theorem decodeStep_encodeChar (c : Char) (rest : Bytes) :
    decodeStep (encodeChar c ++ rest) = some (some c, rest) := by
  have hr := char_range c
  unfold encodeChar
  simp only
  by_cases h1 : c.toNat < 0x80
  · simp only [h1, if_true, List.cons_append, List.nil_append, decodeStep]
    rw [u8 (by omega)]
    simp [h1]
  · by_cases h2 : c.toNat < 0x800
    · simp only [h1, h2, if_true, if_false, List.cons_append, List.nil_append, decodeStep]
      rw [u8 (by omega), u8 (by omega)]
      have a1 : ¬ (0xC0 + c.toNat / 64 < 0x80) := by omega
      have a2 : ¬ (0xC0 + c.toNat / 64 < 0xC2) := by omega
      have a3 : 0xC0 + c.toNat / 64 < 0xE0 := by omega
      have a4 : isCont (0x80 + c.toNat % 64) = true := by simp [isCont]; omega
      have a5 : (0xC0 + c.toNat / 64 - 0xC0) * 64 + (0x80 + c.toNat % 64 - 0x80) = c.toNat := by omega
      simp only [a1, a2, a3, a4, a5, if_true, if_false, Char.ofNat_toNat]
    · by_cases h3 : c.toNat < 0x10000
      · simp only [h1, h2, h3, if_true, if_false, List.cons_append, List.nil_append, decodeStep]
        rw [u8 (by omega), u8 (by omega), u8 (by omega)]
        have a1 : ¬ (0xE0 + c.toNat / 4096 < 0x80) := by omega
        have a2 : ¬ (0xE0 + c.toNat / 4096 < 0xC2) := by omega
        have a3 : ¬ (0xE0 + c.toNat / 4096 < 0xE0) := by omega
        have a3' : 0xE0 + c.toNat / 4096 < 0xF0 := by omega
        have a4 : isCont (0x80 + c.toNat / 64 % 64) = true := by simp [isCont]; omega
        have a4' : isCont (0x80 + c.toNat % 64) = true := by simp [isCont]; omega
        have a5 : (0xE0 + c.toNat / 4096 - 0xE0) * 4096 + (0x80 + c.toNat / 64 % 64 - 0x80) * 64
            + (0x80 + c.toNat % 64 - 0x80) = c.toNat := by omega
        have a6 : (0x800 ≤ c.toNat) = True := by simp; omega
        have a7 : (0xD800 ≤ c.toNat && decide (c.toNat < 0xE000)) = false := by
          simp only [Bool.and_eq_false_imp, decide_eq_true_eq, decide_eq_false_iff_not]; omega
        simp only [a1, a2, a3, a3', a4, a4', a5, a6, a7, if_true, if_false, Char.ofNat_toNat,
          Bool.and_self, Bool.not_false, decide_true]
      · simp only [h1, h2, h3, if_false, List.cons_append, List.nil_append, decodeStep]
        rw [u8 (by omega), u8 (by omega), u8 (by omega), u8 (by omega)]
        have a1 : ¬ (0xF0 + c.toNat / 262144 < 0x80) := by omega
        have a2 : ¬ (0xF0 + c.toNat / 262144 < 0xC2) := by omega
        have a3 : ¬ (0xF0 + c.toNat / 262144 < 0xE0) := by omega
        have a3' : ¬ (0xF0 + c.toNat / 262144 < 0xF0) := by omega
        have a3'' : 0xF0 + c.toNat / 262144 < 0xF5 := by omega
        have a4 : isCont (0x80 + c.toNat / 4096 % 64) = true := by simp [isCont]; omega
        have a4' : isCont (0x80 + c.toNat / 64 % 64) = true := by simp [isCont]; omega
        have a4'' : isCont (0x80 + c.toNat % 64) = true := by simp [isCont]; omega
        have a5 : (0xF0 + c.toNat / 262144 - 0xF0) * 262144 + (0x80 + c.toNat / 4096 % 64 - 0x80) * 4096
            + (0x80 + c.toNat / 64 % 64 - 0x80) * 64 + (0x80 + c.toNat % 64 - 0x80) = c.toNat := by omega
        have a6 : (0x10000 ≤ c.toNat) = True := by simp; omega
        have a7 : (c.toNat < 0x110000) = True := by simp; omega
        simp only [a1, a2, a3, a3', a3'', a4, a4', a4'', a5, a6, a7, if_true, if_false,
          Char.ofNat_toNat, Bool.and_self, decide_true]

theorem encodeChar_length_pos (c : Char) : 0 < (encodeChar c).length := by
  unfold encodeChar
  simp only
  repeat' split
  all_goals simp

theorem decodeItemsF_encode (cs : List Char) :
    ∀ f, (encode cs).length ≤ f → decodeItemsF f (encode cs) = cs.map some := by
  induction cs with
  | nil =>
    intro f _
    cases f <;> simp [encode, decodeItemsF, decodeStep]
  | cons c cs ih =>
    intro f hf
    have he : encode (c :: cs) = encodeChar c ++ encode cs := by simp [encode]
    rw [he] at hf ⊢
    have hp := encodeChar_length_pos c
    cases f with
    | zero => simp only [List.length_append] at hf; omega
    | succ f =>
      simp only [decodeItemsF, decodeStep_encodeChar]
      rw [ih f (by simp only [List.length_append] at hf; omega)]
      simp

/-- **UTF-8 round trip**, item level: valid text decodes to itself with no offending byte. -/
theorem decodeItems_encode (cs : List Char) : decodeItems (encode cs) = cs.map some :=
  decodeItemsF_encode cs _ (Nat.le_refl _)

/-- **UTF-8 round trip**: `decodeLossy (encode cs) = cs`. -/
theorem decodeLossy_encode (cs : List Char) : decodeLossy (encode cs) = cs := by
  simp only [decodeLossy, decodeItems_encode, List.map_map]
  induction cs with
  | nil => rfl
  | cons c cs ih => simp only [List.map_cons, Function.comp, Option.getD_some, ih]

end Snowflake.Utf8
