import Snowflake.Base.GoStr
/-!
# `Base.IP` — Go 1.23.5 `net.ParseIP`, `net.IP.String`, `To4`, `IsUnspecified`, `IsLoopback`,
`net.JoinHostPort` (core-only, executable)

Hand-written model of the standard library (trusted base; validated differentially by the C18 / C08
harnesses, not verified against the Go source):

* `net.ParseIP s` is `netip.ParseAddr s` with every zone rejected, followed by `As16()`; the result is
  therefore always a 16-byte slice (IPv4 in IPv4-mapped form) or nil.
* `netip.ParseAddr` dispatches on the first of `.`, `:`, `%` in the string.
* IPv4: `netip.parseIPv4Fields` (four decimal fields, no leading zero, each ≤ 255).
* IPv6: `netip.parseIPv6` (optional leading `::`, up to eight hex groups of 1–4 digits, one `::`,
  embedded dotted quad as the last 4 bytes, `::` must stand for at least one group).
* `net.IP.String`: 4-byte and IPv4-mapped addresses as dotted quad, other 16-byte addresses via
  `netip.Addr.appendTo6` (first longest run of ≥ 2 zero groups becomes `::`, lower-case hex without
  leading zeros).

Addresses are `List UInt8` of length 4 or 16 (Go's `net.IP`), strings are byte lists.
-/
namespace Snowflake.IP
open Snowflake.GoStr

/-! ## byte classes -/

def isDigit (c : UInt8) : Bool := decide (48 ≤ c.toNat ∧ c.toNat ≤ 57)

/-- value of a hexadecimal digit (`0-9a-fA-F`) -/
def hexVal (c : UInt8) : Option Nat :=
  let n := c.toNat
  if 48 ≤ n ∧ n ≤ 57 then some (n - 48)
  else if 97 ≤ n ∧ n ≤ 102 then some (n - 87)
  else if 65 ≤ n ∧ n ≤ 70 then some (n - 55)
  else none

def isHex (c : UInt8) : Bool := (hexVal c).isSome

/-! ## IPv4 text -/

/-- `netip.parseIPv4Fields`: the loop over the bytes of the field string.  State as in the Go code:
`val`, `digLen` (digits in the current octet) and the octets stored so far (`pos = fields.length`).
The Go test `i == 0 || s[i-1] == '.'` is `digLen = 0` (only digits and dots get this far), and
`i == len(s)-1` is `rest = []`. -/
def v4loop : Str → Nat → Nat → List UInt8 → Option (List UInt8)
  | [], val, _, fields => if fields.length < 3 then none else some (fields ++ [UInt8.ofNat val])
  | c :: rest, val, digLen, fields =>
    if isDigit c then
      if digLen = 1 ∧ val = 0 then none                       -- octet with leading zero
      else
        let val' := val * 10 + (c.toNat - 48)
        if val' > 255 then none else v4loop rest val' (digLen + 1) fields
    else if c = 46 then
      if digLen = 0 ∨ rest = [] then none                     -- field must have at least one digit
      else if fields.length = 3 then none                     -- address too long
      else v4loop rest 0 0 (fields ++ [UInt8.ofNat val])
    else none                                                 -- unexpected character

/-- `netip.parseIPv4`: the four octets. -/
def parse4 (s : Str) : Option (List UInt8) := v4loop s 0 0 []

def digit (n : Nat) : UInt8 := UInt8.ofNat (48 + n)

/-- `netip.appendDecimal` -/
def dec (x : UInt8) : Str :=
  let n := x.toNat
  (if n ≥ 100 then [digit (n / 100)] else []) ++ (if n ≥ 10 then [digit (n / 10 % 10)] else []) ++ [digit (n % 10)]

/-- `netip.Addr.appendTo4` -/
def render4 (a b c d : UInt8) : Str := dec a ++ [46] ++ dec b ++ [46] ++ dec c ++ [46] ++ dec d

/-! ## IPv6 text -/

def hexNum (ds : Str) : Nat := ds.foldl (fun acc c => acc * 16 + (hexVal c).getD 0) 0

/-- The `for i < 16` loop of `netip.parseIPv6` on a zone-free string.  `acc` is `ip[0:i]` (the
bytes stored so far, `i = acc.length`), `ell` the position of the ellipsis.  Each pass stores one
16-bit group, so the fuel is `(16 - i) / 2`: fuel 0 is the loop condition `i < 16` failing, and then
(as for every `break`, where `s` is empty) "must have used entire string" is checked. -/
def v6loop : Nat → Str → Option Nat → List UInt8 → Option (Option Nat × List UInt8)
  | 0, s, ell, acc => if s = [] then some (ell, acc) else none
  | fuel + 1, s, ell, acc =>
    let ds := s.takeWhile isHex
    let rest := s.dropWhile isHex
    if ds.length > 4 then none                                -- more than 4 digits in group
    else if ds.length = 0 then none                           -- no digits found
    else if rest.head? = some 46 then                         -- trailing dotted quad
      if ell = none ∧ acc.length ≠ 12 then none
      else if acc.length + 4 > 16 then none
      else match parse4 s with
        | none => none
        | some f => some (ell, acc ++ f)
    else
      let g := hexNum ds
      let acc' := acc ++ [UInt8.ofNat (g / 256), UInt8.ofNat (g % 256)]
      match rest with
      | [] => some (ell, acc')                                -- stop at end of string
      | c :: r1 =>
        if c ≠ 58 then none                                   -- want colon
        else match r1 with
          | [] => none                                        -- colon must be followed by more
          | c2 :: r2 =>
            if c2 = 58 then
              if ell.isSome then none                         -- multiple ::
              else if r2 = [] then some (some acc'.length, acc')
              else v6loop fuel r2 (some acc'.length) acc'
            else v6loop fuel r1 ell acc'

/-- `netip.parseIPv6` followed by `net.parseIP`'s zone test: a `%` anywhere makes the result nil
(an empty zone is a parse error, a non-empty one is rejected by `net.parseIP`). -/
def parse6 (s : Str) : Option (List UInt8) :=
  if s.contains 37 then none
  else
    let lead := s.take 2 == [58, 58]
    let s1 := if lead then s.drop 2 else s
    if lead ∧ s1 = [] then some (List.replicate 16 0)
    else
      match v6loop 8 s1 (if lead then some 0 else none) [] with
      | none => none
      | some (ell, acc) =>
        if acc.length < 16 then
          match ell with
          | none => none                                      -- address string too short
          | some e => some (acc.take e ++ List.replicate (16 - acc.length) 0 ++ acc.drop e)
        else if ell.isSome then none                          -- :: must expand to at least one group
        else some acc

def v4InV6Prefix : List UInt8 := [0, 0, 0, 0, 0, 0, 0, 0, 0, 0, 0xff, 0xff]

/-- `net.ParseIP`: `none` is Go's nil; a result always has 16 bytes. -/
def parseIP (s : Str) : Option (List UInt8) :=
  match s.find? (fun c => c == 46 || c == 58 || c == 37) with
  | some c =>
    if c = 46 then (parse4 s).map (v4InV6Prefix ++ ·)
    else if c = 58 then parse6 s
    else none
  | none => none

def hexDigit (n : Nat) : UInt8 := if n < 10 then UInt8.ofNat (48 + n) else UInt8.ofNat (87 + n)

/-- `netip.appendHex` of a 16-bit group -/
def hex (x : Nat) : Str :=
  (if x ≥ 0x1000 then [hexDigit (x / 4096)] else []) ++ (if x ≥ 0x100 then [hexDigit (x / 256 % 16)] else [])
    ++ (if x ≥ 0x10 then [hexDigit (x / 16 % 16)] else []) ++ [hexDigit (x % 16)]

/-- the 16-bit groups of a byte string (`v6u16`) -/
def groups : List UInt8 → List Nat
  | a :: b :: rest => (a.toNat * 256 + b.toNat) :: groups rest
  | _ => []

/-- number of leading zero groups -/
def zeroRun (gs : List Nat) : Nat := (gs.takeWhile (· == 0)).length

/-- The first loop of `appendTo6`: `best` is `(zeroStart, zeroEnd)`; a run starting at `i` replaces it
when it has at least 2 groups and is strictly longer. -/
def bestRun : List Nat → Nat → Option (Nat × Nat) → Option (Nat × Nat)
  | [], _, best => best
  | g :: gs, i, best =>
    let l := zeroRun (g :: gs)
    let cur := match best with
      | some (s, e) => e - s
      | none => 0
    bestRun gs (i + 1) (if l ≥ 2 ∧ l > cur then some (i, i + l) else best)

def joinGroups : List Nat → Str
  | [] => []
  | [g] => hex g
  | g :: gs => hex g ++ [58] ++ joinGroups gs

/-- `netip.Addr.appendTo6` without zone -/
def render6 (gs : List Nat) : Str :=
  match bestRun gs 0 none with
  | none => joinGroups gs
  | some (zs, ze) => joinGroups (gs.take zs) ++ [58, 58] ++ joinGroups (gs.drop ze)

def hexString (b : Str) : Str := b.flatMap (fun x => [hexDigit (x.toNat / 16), hexDigit (x.toNat % 16)])

/-- `net.IP.String` -/
def render (ip : Str) : Str :=
  if ip.length = 0 then ofString "<nil>"
  else if ip.length ≠ 4 ∧ ip.length ≠ 16 then 63 :: hexString ip
  else match to4 ip with
    | some p4 => render4 (idx p4 0) (idx p4 1) (idx p4 2) (idx p4 3)
    | none => render6 (groups ip)

/-! ## predicates -/

/-- `net.IP.Equal` -/
def equal (ip x : Str) : Bool :=
  if ip.length = x.length then ip == x
  else if ip.length = 4 ∧ x.length = 16 then x.take 12 == v4InV6Prefix && ip == x.drop 12
  else if ip.length = 16 ∧ x.length = 4 then ip.take 12 == v4InV6Prefix && ip.drop 12 == x
  else false

/-- `net.IPv4zero` (16-byte form) and `net.IPv6unspecified`, `net.IPv6loopback` -/
def ipv4zero : Str := v4InV6Prefix ++ [0, 0, 0, 0]
def ipv6unspecified : Str := List.replicate 16 0
def ipv6loopback : Str := List.replicate 15 0 ++ [1]

/-- `net.IP.IsUnspecified` -/
def isUnspecified (ip : Str) : Bool := equal ip ipv4zero || equal ip ipv6unspecified

/-- `net.IP.IsLoopback` -/
def isLoopback (ip : Str) : Bool :=
  match to4 ip with
  | some ip4 => idx ip4 0 == 127
  | none => equal ip ipv6loopback

/-- `net.JoinHostPort` -/
def joinHostPort (host port : Str) : Str :=
  if host.contains 58 then [91] ++ host ++ [93, 58] ++ port else host ++ [58] ++ port

end Snowflake.IP
