import Snowflake.Base.Skel
/-
More queries on synchronisation skeletons (`List String` emitted by the extractor): every line
annotated with the stack of blocks that enclose it, so that ties can state *where* a statement sits
("inside the function literal passed to `Once.Do`", "is the communication of a `select` arm whose
sibling arm receives from `melt`", "inside the timeout arm") instead of comparing whole lists.
Core-only, kernel-evaluable.
-/
namespace Snowflake.Skel

/-- A block opener with the index of its line. `select` arms appear as frames `case:` / `default:`
(the communication part) and `do:` (the arm's body) above the `select{` frame. -/
abbrev Frame := Nat × String

def isArm (l : String) : Bool := l == "case:" || l == "default:" || l == "do:"

def popArm : List Frame → List Frame
  | (i, m) :: r => if isArm m then r else (i, m) :: r
  | [] => []

/-- Lines (without the pure structure markers `}`, `}else{`, `case:`, `default:`, `do:`) with the
stack of enclosing frames, innermost first. -/
def annotateAux : List String → Nat → List Frame → List (List Frame × String)
  | [], _, _ => []
  | l :: ls, i, st =>
    if l == "}" then annotateAux ls (i + 1) (popArm st).tail
    else if l == "}else{" then annotateAux ls (i + 1) ((i, "else{") :: st.tail)
    else if isArm l then annotateAux ls (i + 1) ((i, l) :: popArm st)
    else if l.endsWith "{" then (st, l) :: annotateAux ls (i + 1) ((i, l) :: st)
    else (st, l) :: annotateAux ls (i + 1) st

def annotate (sk : List String) : List (List Frame × String) := annotateAux sk 0 []

/-- Lines at nesting depth 0. -/
def topLevel (sk : List String) : List String :=
  (annotate sk).filterMap fun (st, l) => if st.isEmpty then some l else none

/-- Stacks of all lines satisfying `p`. -/
def stacksOf (sk : List String) (p : String → Bool) : List (List Frame) :=
  (annotate sk).filterMap fun (st, l) => if p l then some st else none

/-- Every line satisfying `p` has an enclosing frame whose opener satisfies `q` (vacuously true if
there is no such line: combine with `count`). -/
def allInside (sk : List String) (p q : String → Bool) : Bool :=
  (stacksOf sk p).all fun st => st.any fun (_, o) => q o

/-- No line satisfying `p` has an enclosing frame whose opener satisfies `q`. -/
def noneInside (sk : List String) (p q : String → Bool) : Bool :=
  (stacksOf sk p).all fun st => !st.any fun (_, o) => q o

/-- The `select` (index of its opening line) of which a line with this stack is an arm's
communication. -/
def commOfSelect : List Frame → Option Nat
  | (_, "case:") :: (i, "select{") :: _ => some i
  | _ => none

/-- The `select` in one of whose arm bodies (directly, not nested deeper) the line sits, together
with the index of that arm's `do:` marker. -/
def bodyOfSelect : List Frame → Option (Nat × Nat)
  | (j, "do:") :: (i, "select{") :: _ => some (i, j)
  | _ => none

/-- Some line satisfying `a` and some line satisfying `b` are communications of two arms of the
same `select`. -/
def selectSiblings (sk : List String) (a b : String → Bool) : Bool :=
  ((stacksOf sk a).filterMap commOfSelect).any fun i =>
    ((stacksOf sk b).filterMap commOfSelect).contains i

/-- Every line satisfying `a` is the communication of a `select` arm that has a sibling arm whose
communication satisfies `b`. -/
def allSelectSiblings (sk : List String) (a b : String → Bool) : Bool :=
  (stacksOf sk a).all fun st =>
    match commOfSelect st with
    | some i => ((stacksOf sk b).filterMap commOfSelect).contains i
    | none => false

/-- Lines of `sk` strictly after the first line satisfying `p`. -/
def after (sk : List String) (p : String → Bool) : List String :=
  match sk.findIdx? p with
  | some i => sk.drop (i + 1)
  | none => []

def has (sk : List String) (p : String → Bool) : Bool := sk.any p

def infixChars (sub : List Char) : List Char → Bool
  | [] => sub.isEmpty
  | c :: cs => sub.isPrefixOf (c :: cs) || infixChars sub cs

/-- substring test (structural, so that the kernel can evaluate it) -/
def contains (sub : String) : String → Bool := fun l => infixChars sub.toList l.toList

end Snowflake.Skel
