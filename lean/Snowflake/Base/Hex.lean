/-
Hex and small parsing helpers for the `sfdriver` line protocol (core-only).
-/
namespace Snowflake.Hex

def hexDigit (n : Nat) : Char :=
  if n < 10 then Char.ofNat (48 + n) else Char.ofNat (87 + n)

def encode (bs : List UInt8) : String :=
  String.ofList (bs.foldr (fun b acc => hexDigit (b.toNat / 16) :: hexDigit (b.toNat % 16) :: acc) [])

def digitVal (c : Char) : Option Nat :=
  let n := c.toNat
  if 48 ≤ n ∧ n ≤ 57 then some (n - 48)
  else if 97 ≤ n ∧ n ≤ 102 then some (n - 87)
  else if 65 ≤ n ∧ n ≤ 70 then some (n - 55)
  else none

def decodeChars : List Char → Option (List UInt8)
  | [] => some []
  | [_] => none
  | a :: b :: rest =>
    match digitVal a, digitVal b, decodeChars rest with
    | some x, some y, some r => some (UInt8.ofNat (x * 16 + y) :: r)
    | _, _, _ => none

/-- `-` stands for the empty byte string. -/
def decode (s : String) : Option (List UInt8) :=
  if s = "-" then some [] else decodeChars s.toList

def enc (bs : List UInt8) : String := if bs.isEmpty then "-" else encode bs

end Snowflake.Hex
