import Snowflake.Base.SkelStack
/-
Data-flow queries on statement lists emitted by the extractor with `idents: true`: next to the lines
`sk : List String` there is `ids : List (List String)`, the identifiers that occur in each statement
(go/scanner over the untruncated statement text; string literals and comments excluded).  A tie can then
list *every* statement that mentions a variable, a field or a function — so that any additional use
changes the list — without substring search, which is slow in the kernel.  Core-only.
-/
namespace Snowflake.Skel

/-- the lines of `sk` whose statement mentions the identifier `id` (`ids` = identifiers per line) -/
def linesWith (sk : List String) (ids : List (List String)) (id : String) : List String :=
  (sk.zip ids).filterMap fun (l, is) => if is.contains id then some l else none

/-- as many lines as prefixes, each line starting with its prefix -/
def startAll (ls ps : List String) : Bool :=
  ls.length == ps.length && (ls.zip ps).all fun (l, p) => l.startsWith p

/-- what closes the first block whose opening line satisfies `p`: `"}"`, or `"}else{"` if it has an
else branch -/
def closer (sk : List String) (p : String → Bool) : Option String :=
  match sk.findIdx? p with
  | some i => (sk.drop (i + 1 + (blockFrom (sk.drop (i + 1)) 0).length)).head?
  | none => none

/-- goroutines, deferred calls and function literals -/
def detached (l : String) : Bool := l.startsWith "go" || l.startsWith "defer" || l == "func{"

example : linesWith ["call f(offer.SDP)", "assign offerSDP := g(x)", "call h(\"offer\")"] [["f", "offer", "SDP"], ["offerSDP", "g", "x"], ["h"]] "offer"
    = ["call f(offer.SDP)"] := by decide +kernel
example : closer ["if a{", "x", "}else{", "y", "}"] (· == "if a{") = some "}else{"
    ∧ closer ["if a{", "if b{", "x", "}", "}", "y"] (· == "if a{") = some "}" := by decide +kernel

end Snowflake.Skel
