/-
Go string / byte-slice helpers used by the translated functions (core-only).
Go strings are byte sequences: `List UInt8`.
-/
namespace Snowflake.GoStr

abbrev Str := List UInt8

/-- `strings.HasPrefix s p` -/
def hasPrefix (s p : Str) : Bool := p.isPrefixOf s

/-- `strings.HasSuffix s p` -/
def hasSuffix (s p : Str) : Bool := p.isSuffixOf s

/-- `strings.TrimPrefix s p` -/
def trimPrefix (s p : Str) : Str := if hasPrefix s p then s.drop p.length else s

/-- `strings.TrimSuffix s p` -/
def trimSuffix (s p : Str) : Str := if hasSuffix s p then s.take (s.length - p.length) else s

/-- `s[i]` for an index the Go code has established to be in range (0 otherwise). -/
def idx (s : Str) (i : Nat) : UInt8 := s.getD i 0

/-- `net.IP.To4`: a 4-byte slice is itself; a 16-byte slice with the IPv4-mapped prefix
`00×10 ff ff` yields its last four bytes; anything else is nil. -/
def to4 (ip : Str) : Option Str :=
  if ip.length = 4 then some ip
  else if ip.length = 16 ∧ (ip.take 10).all (· == 0) ∧ idx ip 10 = 0xff ∧ idx ip 11 = 0xff then
    some (ip.drop 12)
  else none

def ofString (s : String) : Str := s.toUTF8.toList

end Snowflake.GoStr
