/-
Event traces with mutexes / reader-writer mutexes and the lockset theorems (C20).  Core-only.

A trace is a list of events `(thread, op)`.  Lock usage is well formed when
  * a lock is acquired exclusively only while nobody holds it (neither exclusively nor shared),
  * it is acquired shared only while nobody holds it exclusively,
  * it is released only by its exclusive holder
(what `sync.Mutex` / `sync.RWMutex` guarantee together with the lock/unlock pairing of the source).
The theorems: two accesses by different threads that both happen while their threads hold a common
lock, at least one of them exclusively, are ordered by an explicit happens-before chain
  access i  ≤po  release r  <sync  acquire a  ≤po  access j
so they cannot race.
-/
namespace Snowflake.Hb

inductive Op
  | acq (l : String)       -- Lock
  | rel (l : String)       -- Unlock
  | racq (l : String)      -- RLock
  | rrel (l : String)      -- RUnlock
  | rd (v : String)
  | wr (v : String)
  | ard (v : String)       -- atomic load
  | awr (v : String)       -- atomic store / RMW
deriving DecidableEq, Repr

structure Ev where
  tid : Nat
  op : Op
deriving DecidableEq, Repr

abbrev Trace := List Ev

/-- Some thread releases `l` (exclusive mode) at index `k`. -/
def isRel (τ : Trace) (l : String) (k : Nat) : Prop := ∃ t, τ[k]? = some ⟨t, .rel l⟩

/-- Thread `t` holds `l` exclusively just before index `i`: it acquired it at some `a < i` and nobody
released it in between. -/
def Holds (τ : Trace) (t : Nat) (l : String) (i : Nat) : Prop :=
  ∃ a, a < i ∧ τ[a]? = some ⟨t, .acq l⟩ ∧ ∀ k, a < k → k < i → ¬ isRel τ l k

/-- Thread `t` holds `l` in shared mode just before index `i`: it r-acquired it at some `a < i` and has
not r-released it since. -/
def HoldsR (τ : Trace) (t : Nat) (l : String) (i : Nat) : Prop :=
  ∃ a, a < i ∧ τ[a]? = some ⟨t, .racq l⟩ ∧ ∀ k, a < k → k < i → τ[k]? ≠ some ⟨t, .rrel l⟩

/-- Well-formed lock usage. -/
structure WF (τ : Trace) : Prop where
  acq_free : ∀ a t l, τ[a]? = some ⟨t, .acq l⟩ → ∀ t', ¬ Holds τ t' l a
  acq_freeR : ∀ a t l, τ[a]? = some ⟨t, .acq l⟩ → ∀ t', ¬ HoldsR τ t' l a
  racq_free : ∀ a t l, τ[a]? = some ⟨t, .racq l⟩ → ∀ t', ¬ Holds τ t' l a
  rel_held : ∀ r t l, τ[r]? = some ⟨t, .rel l⟩ → Holds τ t l r

def isAccess : Op → Bool
  | .rd _ | .wr _ | .ard _ | .awr _ => true
  | _ => false

/-- At most one thread holds a lock exclusively at any point. -/
theorem holds_unique {τ : Trace} (wf : WF τ) {t t' : Nat} {l : String} {i : Nat}
    (h : Holds τ t l i) (h' : Holds τ t' l i) : t = t' := by
  obtain ⟨a, ha, hacq, hno⟩ := h
  obtain ⟨a', ha', hacq', hno'⟩ := h'
  rcases Nat.lt_trichotomy a a' with hlt | heq | hgt
  · exfalso
    exact wf.acq_free a' t' l hacq' t ⟨a, hlt, hacq, fun k h1 h2 => hno k h1 (Nat.lt_trans h2 ha')⟩
  · subst heq; rw [hacq] at hacq'; cases hacq'; rfl
  · exfalso
    exact wf.acq_free a t l hacq t' ⟨a', hgt, hacq', fun k h1 h2 => hno' k h1 (Nat.lt_trans h2 ha)⟩

/-- If `t` holds `l` before `i` and nothing releases `l` in `[i, j)`, it still holds it before `j`. -/
theorem holds_extend {τ : Trace} {t : Nat} {l : String} {i j : Nat} (h : Holds τ t l i) (hij : i ≤ j)
    (hno : ∀ k, i ≤ k → k < j → ¬ isRel τ l k) : Holds τ t l j := by
  obtain ⟨a, ha, hacq, hn⟩ := h
  refine ⟨a, Nat.lt_of_lt_of_le ha hij, hacq, ?_⟩
  intro k h1 h2
  rcases Nat.lt_or_ge k i with hk | hk
  · exact hn k h1 hk
  · exact hno k hk h2

theorem holdsR_extend {τ : Trace} {t : Nat} {l : String} {i j : Nat} (h : HoldsR τ t l i) (hij : i ≤ j)
    (hno : ∀ k, i ≤ k → k < j → τ[k]? ≠ some ⟨t, .rrel l⟩) : HoldsR τ t l j := by
  obtain ⟨a, ha, hacq, hn⟩ := h
  refine ⟨a, Nat.lt_of_lt_of_le ha hij, hacq, ?_⟩
  intro k h1 h2
  rcases Nat.lt_or_ge k i with hk | hk
  · exact hn k h1 hk
  · exact hno k hk h2

/-- Holding is monotone downwards: held before `j` with the acquisition before `i ≤ j` means held before `i`. -/
theorem holds_restrict {τ : Trace} {t : Nat} {l : String} {a i j : Nat} (hai : a < i) (hij : i ≤ j)
    (hacq : τ[a]? = some ⟨t, .acq l⟩) (hno : ∀ k, a < k → k < j → ¬ isRel τ l k) : Holds τ t l i :=
  ⟨a, hai, hacq, fun k h1 h2 => hno k h1 (Nat.lt_of_lt_of_le h2 hij)⟩

/-- Least index in `[i, j)` with a property, classically. -/
theorem exists_first {P : Nat → Prop} {i j : Nat} (h : ¬ ∀ k, i ≤ k → k < j → ¬ P k) :
    ∃ r, i ≤ r ∧ r < j ∧ P r ∧ ∀ k, i ≤ k → k < r → ¬ P k := by
  have : ∃ r, i ≤ r ∧ r < j ∧ P r := by
    apply Classical.byContradiction
    intro hn
    apply h
    intro k h1 h2 hr
    exact hn ⟨k, h1, h2, hr⟩
  obtain ⟨r, h1, h2, h3⟩ := this
  induction r using Nat.strongRecOn with
  | _ r ih =>
    by_cases hfirst : ∀ k, i ≤ k → k < r → ¬ P k
    · exact ⟨r, h1, h2, h3, hfirst⟩
    · have : ∃ k, i ≤ k ∧ k < r ∧ P k := by
        apply Classical.byContradiction
        intro hn
        apply hfirst
        intro k a b c
        exact hn ⟨k, a, b, c⟩
      obtain ⟨k, a, b, c⟩ := this
      exact ih k b a (Nat.lt_trans b h2) c

/-- **Lockset theorem, exclusive/exclusive.** In a well-formed trace, let `i < j` be access events of
different threads `ti ≠ tj` such that `ti` holds `l` at `i` and `tj` holds `l` at `j`.  Then there are
indices `i < r < a < j` with: `r` a release of `l` *by `ti`* (program order after `i`), `a` the
acquisition of `l` *by `tj`* (program order before `j`), and release-before-acquire is a synchronisation
edge — i.e. the two accesses are ordered by happens-before. -/
theorem lockset_ordered {τ : Trace} (wf : WF τ) {i j ti tj : Nat} {l : String} {oi oj : Op}
    (hij : i < j) (hi : τ[i]? = some ⟨ti, oi⟩) (_hj : τ[j]? = some ⟨tj, oj⟩)
    (hai : isAccess oi = true) (hne : ti ≠ tj)
    (hhi : Holds τ ti l i) (hhj : Holds τ tj l j) :
    ∃ r a, i < r ∧ r < a ∧ a < j ∧ τ[r]? = some ⟨ti, .rel l⟩ ∧ τ[a]? = some ⟨tj, .acq l⟩ := by
  obtain ⟨aj, haj, hacqj, hnoj⟩ := hhj
  have hlt : i < aj := by
    rcases Nat.lt_trichotomy i aj with h | h | h
    · exact h
    · subst h; rw [hi] at hacqj; cases hacqj; simp [isAccess] at hai
    · exfalso
      exact hne (holds_unique wf hhi (holds_restrict h (Nat.le_of_lt hij) hacqj hnoj))
  have hex : ¬ ∀ k, i ≤ k → k < aj → ¬ isRel τ l k := by
    intro hno
    exact wf.acq_free aj tj l hacqj ti (holds_extend hhi (Nat.le_of_lt hlt) hno)
  obtain ⟨r, hr1, hr2, ⟨tr, hrel⟩, hfirst⟩ := exists_first hex
  have hholdr : Holds τ ti l r := holds_extend hhi hr1 hfirst
  have htr : tr = ti := holds_unique wf (wf.rel_held r tr l hrel) hholdr
  subst htr
  have hri : i < r := by
    rcases Nat.lt_or_ge i r with h | h
    · exact h
    · have : r = i := Nat.le_antisymm h hr1
      subst this; rw [hi] at hrel; cases hrel; simp [isAccess] at hai
  exact ⟨r, aj, hri, hr2, haj, hrel, hacqj⟩

/-- **Lockset theorem, exclusive then shared.** The earlier access holds `l` exclusively, the later one
in shared mode: ordered through `Unlock` by `ti` → `RLock` by `tj`. -/
theorem lockset_ordered_wr {τ : Trace} (wf : WF τ) {i j ti tj : Nat} {l : String} {oi oj : Op}
    (hij : i < j) (hi : τ[i]? = some ⟨ti, oi⟩) (_hj : τ[j]? = some ⟨tj, oj⟩)
    (hai : isAccess oi = true)
    (hhi : Holds τ ti l i) (hhj : HoldsR τ tj l j) :
    ∃ r a, i < r ∧ r < a ∧ a < j ∧ τ[r]? = some ⟨ti, .rel l⟩ ∧ τ[a]? = some ⟨tj, .racq l⟩ := by
  obtain ⟨aj, haj, hacqj, hnoj⟩ := hhj
  obtain ⟨ai, hai', hacqi, hnoi⟩ := hhi
  have hlt : i < aj := by
    rcases Nat.lt_trichotomy i aj with h | h | h
    · exact h
    · subst h; rw [hi] at hacqj; cases hacqj; simp [isAccess] at hai
    · exfalso
      -- aj < i : compare with ti's exclusive acquisition ai
      rcases Nat.lt_trichotomy aj ai with h' | h' | h'
      · -- tj holds shared at ai: exclusive acquisition impossible
        exact wf.acq_freeR ai ti l hacqi tj
          ⟨aj, h', hacqj, fun k h1 h2 => hnoj k h1 (Nat.lt_trans h2 (Nat.lt_trans hai' hij))⟩
      · subst h'; rw [hacqi] at hacqj; cases hacqj
      · -- ti holds exclusively at aj: shared acquisition impossible
        exact wf.racq_free aj tj l hacqj ti
          ⟨ai, h', hacqi, fun k h1 h2 => hnoi k h1 (Nat.lt_trans h2 h)⟩
  have hhi : Holds τ ti l i := ⟨ai, hai', hacqi, hnoi⟩
  have hex : ¬ ∀ k, i ≤ k → k < aj → ¬ isRel τ l k := by
    intro hno
    exact wf.racq_free aj tj l hacqj ti (holds_extend hhi (Nat.le_of_lt hlt) hno)
  obtain ⟨r, hr1, hr2, ⟨tr, hrel⟩, hfirst⟩ := exists_first hex
  have hholdr : Holds τ ti l r := holds_extend hhi hr1 hfirst
  have htr : tr = ti := holds_unique wf (wf.rel_held r tr l hrel) hholdr
  subst htr
  have hri : i < r := by
    rcases Nat.lt_or_ge i r with h | h
    · exact h
    · have : r = i := Nat.le_antisymm h hr1
      subst this; rw [hi] at hrel; cases hrel; simp [isAccess] at hai
  exact ⟨r, aj, hri, hr2, haj, hrel, hacqj⟩

/-- **Lockset theorem, shared then exclusive.** The earlier access holds `l` in shared mode, the later one
exclusively: ordered through `RUnlock` by `ti` → `Lock` by `tj`. -/
theorem lockset_ordered_rw {τ : Trace} (wf : WF τ) {i j ti tj : Nat} {l : String} {oi oj : Op}
    (hij : i < j) (hi : τ[i]? = some ⟨ti, oi⟩) (_hj : τ[j]? = some ⟨tj, oj⟩)
    (hai : isAccess oi = true)
    (hhi : HoldsR τ ti l i) (hhj : Holds τ tj l j) :
    ∃ r a, i < r ∧ r < a ∧ a < j ∧ τ[r]? = some ⟨ti, .rrel l⟩ ∧ τ[a]? = some ⟨tj, .acq l⟩ := by
  obtain ⟨aj, haj, hacqj, hnoj⟩ := hhj
  obtain ⟨ai, hai', hacqi, hnoi⟩ := hhi
  have hlt : i < aj := by
    rcases Nat.lt_trichotomy i aj with h | h | h
    · exact h
    · subst h; rw [hi] at hacqj; cases hacqj; simp [isAccess] at hai
    · exfalso
      rcases Nat.lt_trichotomy aj ai with h' | h' | h'
      · -- tj holds exclusively at ai: shared acquisition impossible
        exact wf.racq_free ai ti l hacqi tj
          ⟨aj, h', hacqj, fun k h1 h2 => hnoj k h1 (Nat.lt_trans h2 (Nat.lt_trans hai' hij))⟩
      · subst h'; rw [hacqi] at hacqj; cases hacqj
      · -- ti holds shared at aj: exclusive acquisition impossible
        exact wf.acq_freeR aj tj l hacqj ti
          ⟨ai, h', hacqi, fun k h1 h2 => hnoi k h1 (Nat.lt_trans h2 h)⟩
  have hhi : HoldsR τ ti l i := ⟨ai, hai', hacqi, hnoi⟩
  have hex : ¬ ∀ k, i ≤ k → k < aj → ¬ (τ[k]? = some ⟨ti, .rrel l⟩) := by
    intro hno
    exact wf.acq_freeR aj tj l hacqj ti (holdsR_extend hhi (Nat.le_of_lt hlt) hno)
  obtain ⟨r, hr1, hr2, hrel, _⟩ := exists_first hex
  have hri : i < r := by
    rcases Nat.lt_or_ge i r with h | h
    · exact h
    · have : r = i := Nat.le_antisymm h hr1
      subst this; rw [hi] at hrel; cases hrel; simp [isAccess] at hai
  exact ⟨r, aj, hri, hr2, haj, hrel, hacqj⟩

end Snowflake.Hb
