/-
Event traces with mutexes and the lockset theorem (C20).  Core-only.

A trace is a list of events `(thread, op)`.  Mutex usage is well formed when a lock is acquired only
while nobody holds it and released only by its holder (what `sync.Mutex` guarantees, resp. what the
lock/unlock pairing of the source guarantees).  The theorem: two accesses by different threads that
both happen while their threads hold a common lock are ordered by an explicit happens-before chain
  access i  ≤po  release r  <sync  acquire a  ≤po  access j
so they cannot race.
-/
namespace Snowflake.Hb

inductive Op
  | acq (l : Nat)
  | rel (l : Nat)
  | rd (v : Nat)
  | wr (v : Nat)
  | ard (v : Nat)      -- atomic load
  | awr (v : Nat)      -- atomic store / RMW
deriving DecidableEq, Repr

structure Ev where
  tid : Nat
  op : Op
deriving DecidableEq, Repr

abbrev Trace := List Ev

/-- Some thread releases `l` at index `k`. -/
def isRel (τ : Trace) (l k : Nat) : Prop := ∃ t, τ[k]? = some ⟨t, .rel l⟩

/-- Thread `t` holds `l` just before index `i`: it acquired it at some `a < i` and nobody released it
in between. -/
def Holds (τ : Trace) (t l i : Nat) : Prop :=
  ∃ a, a < i ∧ τ[a]? = some ⟨t, .acq l⟩ ∧ ∀ k, a < k → k < i → ¬ isRel τ l k

/-- Well-formed mutex usage. -/
structure WF (τ : Trace) : Prop where
  acq_free : ∀ a t l, τ[a]? = some ⟨t, .acq l⟩ → ∀ t', ¬ Holds τ t' l a
  rel_held : ∀ r t l, τ[r]? = some ⟨t, .rel l⟩ → Holds τ t l r

def isAccess : Op → Bool
  | .rd _ | .wr _ | .ard _ | .awr _ => true
  | _ => false

/-- At most one thread holds a lock at any point. -/
theorem holds_unique {τ : Trace} (wf : WF τ) {t t' l i : Nat} (h : Holds τ t l i) (h' : Holds τ t' l i) :
    t = t' := by
  obtain ⟨a, ha, hacq, hno⟩ := h
  obtain ⟨a', ha', hacq', hno'⟩ := h'
  rcases Nat.lt_trichotomy a a' with hlt | heq | hgt
  · -- t holds at a' : contradiction with acq_free at a'
    exfalso
    exact wf.acq_free a' t' l hacq' t ⟨a, hlt, hacq, fun k h1 h2 => hno k h1 (Nat.lt_trans h2 ha')⟩
  · subst heq; rw [hacq] at hacq'; cases hacq'; rfl
  · exfalso
    exact wf.acq_free a t l hacq t' ⟨a', hgt, hacq', fun k h1 h2 => hno' k h1 (Nat.lt_trans h2 ha)⟩

/-- If `t` holds `l` before `i` and nothing releases `l` in `[i, j)`, it still holds it before `j`. -/
theorem holds_extend {τ : Trace} {t l i j : Nat} (h : Holds τ t l i) (hij : i ≤ j)
    (hno : ∀ k, i ≤ k → k < j → ¬ isRel τ l k) : Holds τ t l j := by
  obtain ⟨a, ha, hacq, hn⟩ := h
  refine ⟨a, Nat.lt_of_lt_of_le ha hij, hacq, ?_⟩
  intro k h1 h2
  rcases Nat.lt_or_ge k i with hk | hk
  · exact hn k h1 hk
  · exact hno k hk h2

/-- Existence of a first index in `[i, j)` satisfying a decidable-free property, classically. -/
theorem exists_rel_between {τ : Trace} {l i j : Nat} (h : ¬ ∀ k, i ≤ k → k < j → ¬ isRel τ l k) :
    ∃ r, i ≤ r ∧ r < j ∧ isRel τ l r ∧ ∀ k, i ≤ k → k < r → ¬ isRel τ l k := by
  -- strong induction on the distance
  have : ∃ r, i ≤ r ∧ r < j ∧ isRel τ l r := by
    apply Classical.byContradiction
    intro hn
    apply h
    intro k h1 h2 hr
    exact hn ⟨k, h1, h2, hr⟩
  obtain ⟨r, h1, h2, h3⟩ := this
  induction r using Nat.strongRecOn with
  | _ r ih =>
    by_cases hfirst : ∀ k, i ≤ k → k < r → ¬ isRel τ l k
    · exact ⟨r, h1, h2, h3, hfirst⟩
    · have : ∃ k, i ≤ k ∧ k < r ∧ isRel τ l k := by
        apply Classical.byContradiction
        intro hn
        apply hfirst
        intro k a b c
        exact hn ⟨k, a, b, c⟩
      obtain ⟨k, a, b, c⟩ := this
      exact ih k b a (Nat.lt_trans b h2) c

/-- **Lockset theorem.** In a well-formed trace, let `i < j` be access events of different threads
`ti ≠ tj` such that `ti` holds `l` at `i` and `tj` holds `l` at `j`.  Then there are indices
`i < r < a < j` with: `r` a release of `l` *by `ti`* (program order after `i`), `a` the acquisition of
`l` *by `tj`* (program order before `j`), and release-before-acquire is a synchronisation edge — i.e. the
two accesses are ordered by happens-before. -/
theorem lockset_ordered {τ : Trace} (wf : WF τ) {i j ti tj l : Nat} {oi oj : Op}
    (hij : i < j) (hi : τ[i]? = some ⟨ti, oi⟩) (hj : τ[j]? = some ⟨tj, oj⟩)
    (hai : isAccess oi = true) (_haj : isAccess oj = true) (hne : ti ≠ tj)
    (hhi : Holds τ ti l i) (hhj : Holds τ tj l j) :
    ∃ r a, i < r ∧ r < a ∧ a < j ∧ τ[r]? = some ⟨ti, .rel l⟩ ∧ τ[a]? = some ⟨tj, .acq l⟩ := by
  obtain ⟨aj, haj, hacqj, hnoj⟩ := hhj
  -- tj's acquisition is after i
  have hlt : i < aj := by
    rcases Nat.lt_trichotomy i aj with h | h | h
    · exact h
    · subst h; rw [hi] at hacqj; cases hacqj; simp [isAccess] at hai
    · -- aj < i : then tj holds l before i as well; contradiction with uniqueness
      exfalso
      have : Holds τ tj l i := ⟨aj, h, hacqj, fun k h1 h2 => hnoj k h1 (Nat.lt_trans h2 hij)⟩
      exact hne (holds_unique wf hhi this)
  -- somebody releases l in [i, aj): otherwise ti still holds it at aj
  have hex : ¬ ∀ k, i ≤ k → k < aj → ¬ isRel τ l k := by
    intro hno
    exact wf.acq_free aj tj l hacqj ti (holds_extend hhi (Nat.le_of_lt hlt) hno)
  obtain ⟨r, hr1, hr2, ⟨tr, hrel⟩, hfirst⟩ := exists_rel_between hex
  -- the first such release is by the holder, which is ti
  have hholdr : Holds τ ti l r := holds_extend hhi hr1 hfirst
  have htr : tr = ti := holds_unique wf (wf.rel_held r tr l hrel) hholdr
  subst htr
  have hri : i < r := by
    rcases Nat.lt_or_ge i r with h | h
    · exact h
    · have : r = i := Nat.le_antisymm h hr1
      subst this; rw [hi] at hrel; cases hrel; simp [isAccess] at hai
  exact ⟨r, aj, hri, hr2, haj, hrel, hacqj⟩

end Snowflake.Hb
