/-
Regular expressions as Go's `regexp/syntax` parses them (core-only, executable).
The generated terms in `Snowflake/Generated/Regex.lean` are values of `Rx`.
-/
namespace Snowflake

inductive Rx
  | eps
  | cls (ranges : List (Nat × Nat))
  | cat (a b : Rx)
  | alt (a b : Rx)          -- ordered alternation (leftmost-first priority)
  | star (a : Rx)           -- greedy
  | cap (i : Nat) (a : Rx)  -- capture group (transparent for matching)
  | bot | eot               -- \A and \z  (`^`/`$` without (?m))
  | bol | eol               -- `^`/`$` under (?m)
deriving Repr, DecidableEq

namespace Rx

/-- `r{0,e}` greedy: nested optionals (structural on `e`). -/
def optN (r : Rx) : Nat → Rx
  | 0 => .eps
  | e + 1 => .alt (.cat r (optN r e)) .eps

/-- `r{m, m+e}` (structural on `m`). -/
def repM (r : Rx) (e : Nat) : Nat → Rx
  | 0 => optN r e
  | m + 1 => .cat r (repM r e m)

/-- `r{m, m+e}` as Go's `OpRepeat` with `Min = m`, `Max = m + e`. -/
def rep (r : Rx) (m e : Nat) : Rx := repM r e m

def size : Rx → Nat
  | .cat a b => a.size + b.size + 1
  | .alt a b => a.size + b.size + 1
  | .star a => a.size + 1
  | .cap _ a => a.size + 1
  | _ => 1

end Rx
end Snowflake
