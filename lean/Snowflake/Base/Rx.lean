/-
Regular expressions as Go's `regexp/syntax` parses them (core-only, executable).
The generated terms in `Snowflake/Generated/*.lean` are values of `Rx`.

* text = list of code points that remember their original bytes (`Tok`), decoded from bytes the way
  Go's `regexp` steps over a `[]byte` (`utf8.DecodeRune`: one U+FFFD of width 1 per offending byte);
* `Matches r l m t`  — denotation: `r` matches the segment `m` standing between the left context `l`
  (reversed) and the right context `t`;
* `run`              — leftmost-first (priority) backtracking matcher with continuations, structurally
  recursive on the expression so that `decide +kernel` evaluates it (`star` is fuelled by the
  remaining input);
* `findFrom`/`find`  — leftmost match with Go's priority among the matches starting there;
* `replPieces`/`replaceAllFunc`/`replaceAll` — the loop of `regexp.(*Regexp).replaceAll`
  (non-overlapping, left to right, Go's rules for empty matches);
* structural analyses used by theorems about generated expressions: `minWeight`, `anchorFree`,
  `eraseCaps`, `factors`.

Proofs are in `Snowflake/Proofs/Rx.lean`.
-/
namespace Snowflake

inductive Rx
  | eps
  | cls (ranges : List (Nat × Nat))
  | cat (a b : Rx)
  | alt (a b : Rx)          -- ordered alternation (leftmost-first priority)
  | star (a : Rx)           -- greedy
  | cap (i : Nat) (a : Rx)  -- capture group (transparent for matching)
  | bot | eot               -- \A and \z  (`^`/`$` without (?m))
  | bol | eol               -- `^`/`$` under (?m)
deriving Repr, DecidableEq

namespace Rx

/-- `r{0,e}` greedy: nested optionals (structural on `e`). -/
def optN (r : Rx) : Nat → Rx
  | 0 => .eps
  | e + 1 => .alt (.cat r (optN r e)) .eps

/-- `r{m, m+e}` (structural on `m`). -/
def repM (r : Rx) (e : Nat) : Nat → Rx
  | 0 => optN r e
  | m + 1 => .cat r (repM r e m)

/-- `r{m, m+e}` as Go's `OpRepeat` with `Min = m`, `Max = m + e`. -/
def rep (r : Rx) (m e : Nat) : Rx := repM r e m

def size : Rx → Nat
  | .cat a b => a.size + b.size + 1
  | .alt a b => a.size + b.size + 1
  | .star a => a.size + 1
  | .cap _ a => a.size + 1
  | _ => 1

/-! ## Text: code points with their original bytes -/

/-- One step of Go's `regexp` over a `[]byte`: the code point and the bytes it was decoded from. -/
structure Tok where
  r : Nat
  bs : List UInt8
deriving Repr, DecidableEq

def bytesOf (t : List Tok) : List UInt8 := t.flatMap (·.bs)

def inR (lo hi x : Nat) : Bool := Nat.ble lo x && Nat.ble x hi

/-- `utf8.DecodeRune` (Go 1.23) on a first byte and the up to three bytes that follow it (`none` = end of
input): code point and width; `(U+FFFD, 1)` for every offending byte. -/
def decodeRune4 (c0 : UInt8) (o1 o2 o3 : Option UInt8) : Nat × Nat :=
  let p0 := c0.toNat
  if p0 < 0x80 then (p0, 1)
  else if p0 < 0xC2 then (0xFFFD, 1)
  else if p0 < 0xE0 then
    match o1 with
    | some c1 =>
      if inR 0x80 0xBF c1.toNat then ((p0 % 32) * 64 + c1.toNat % 64, 2) else (0xFFFD, 1)
    | none => (0xFFFD, 1)
  else if p0 < 0xF0 then
    match o1, o2 with
    | some c1, some c2 =>
      if inR (if p0 = 0xE0 then 0xA0 else 0x80) (if p0 = 0xED then 0x9F else 0xBF) c1.toNat
          && inR 0x80 0xBF c2.toNat then
        ((p0 % 16) * 4096 + (c1.toNat % 64) * 64 + c2.toNat % 64, 3)
      else (0xFFFD, 1)
    | _, _ => (0xFFFD, 1)
  else if p0 < 0xF5 then
    match o1, o2, o3 with
    | some c1, some c2, some c3 =>
      if inR (if p0 = 0xF0 then 0x90 else 0x80) (if p0 = 0xF4 then 0x8F else 0xBF) c1.toNat
          && inR 0x80 0xBF c2.toNat && inR 0x80 0xBF c3.toNat then
        ((p0 % 8) * 262144 + (c1.toNat % 64) * 4096 + (c2.toNat % 64) * 64 + c3.toNat % 64, 4)
      else (0xFFFD, 1)
    | _, _, _ => (0xFFFD, 1)
  else (0xFFFD, 1)

def nth : List UInt8 → Nat → Option UInt8
  | [], _ => none
  | b :: _, 0 => some b
  | _ :: bs, i + 1 => nth bs i

/-- `utf8.DecodeRune` on a byte slice. -/
def decodeRune : List UInt8 → Nat × Nat
  | [] => (0xFFFD, 0)
  | c0 :: rest => decodeRune4 c0 (nth rest 0) (nth rest 1) (nth rest 2)

/-- Decode with explicit fuel (one unit per code point). -/
def decodeF : Nat → List UInt8 → List Tok
  | 0, _ => []
  | _, [] => []
  | n + 1, b :: bs =>
    let d := decodeRune (b :: bs)
    ⟨d.1, b :: bs.take (d.2 - 1)⟩ :: decodeF n (bs.drop (d.2 - 1))

/-- The text Go's `regexp` sees for a byte slice. -/
def decode (bs : List UInt8) : List Tok := decodeF bs.length bs

/-! ## Denotation -/

def clsMem (rs : List (Nat × Nat)) (x : Nat) : Bool := rs.any fun p => Nat.ble p.1 x && Nat.ble x p.2

/-- Line-anchor test: the neighbouring text (towards the anchor) is empty or starts with `\n`. -/
def atLine : List Tok → Bool
  | [] => true
  | x :: _ => x.r == 10

/-- `Matches r l m t`: `r` matches exactly the segment `m`, where `l` is the text to the left of the
segment (reversed, nearest first) and `t` the text to its right. -/
inductive Matches : Rx → List Tok → List Tok → List Tok → Prop
  | eps (l t) : Matches .eps l [] t
  | cls (rs l x t) : clsMem rs x.r = true → Matches (.cls rs) l [x] t
  | cat {a b l m₁ m₂ t} : Matches a l m₁ (m₂ ++ t) → Matches b (m₁.reverse ++ l) m₂ t →
      Matches (.cat a b) l (m₁ ++ m₂) t
  | altL {a b l m t} : Matches a l m t → Matches (.alt a b) l m t
  | altR {a b l m t} : Matches b l m t → Matches (.alt a b) l m t
  | starNil (a l t) : Matches (.star a) l [] t
  | starCons {a l m₁ m₂ t} : Matches a l m₁ (m₂ ++ t) → Matches (.star a) (m₁.reverse ++ l) m₂ t →
      Matches (.star a) l (m₁ ++ m₂) t
  | cap {i a l m t} : Matches a l m t → Matches (.cap i a) l m t
  | bot (t) : Matches .bot [] [] t
  | eot (l) : Matches .eot l [] []
  | bol (l t) : atLine l = true → Matches .bol l [] t
  | eol (l t) : atLine t = true → Matches .eol l [] t

/-! ## Backtracking matcher -/

/-- Position: (text to the left, reversed; text to the right). -/
abbrev Pos := List Tok × List Tok

/-- Greedy iteration of `step` with priority "one more round, then stop".  Rounds that consume
nothing follow Go's compiled form (`x*` for a nullable `x` is `(x+)?`, and a thread that comes back to
the loop's split instruction at the same position is dropped): an empty *first* round leaves the loop,
an empty later round is abandoned.  Either way every continued round consumes input, which is what
makes `fuel = remaining input` sufficient. -/
def starLoop {α} (step : Pos → (Pos → Option α) → Option α) :
    Nat → Bool → Pos → (Pos → Option α) → Option α
  | 0, _, p, k => k p
  | n + 1, first, p, k =>
    match step p (fun q =>
        if q.2.length < p.2.length then starLoop step n false q k
        else if first then k q else none) with
    | some v => some v
    | none => k p

/-- Leftmost-first backtracking: the first success in priority order of `k` applied to an end position. -/
def run {α} : Rx → Pos → (Pos → Option α) → Option α
  | .eps, p, k => k p
  | .cls rs, (l, x :: xs), k => if clsMem rs x.r then k (x :: l, xs) else none
  | .cls _, (_, []), _ => none
  | .cat a b, p, k => run a p (fun q => run b q k)
  | .alt a b, p, k =>
    match run a p k with
    | some v => some v
    | none => run b p k
  | .star a, p, k => starLoop (fun p' k' => run a p' k') p.2.length true p k
  | .cap _ a, p, k => run a p k
  | .bot, p, k => if p.1.isEmpty then k p else none
  | .eot, p, k => if p.2.isEmpty then k p else none
  | .bol, p, k => if atLine p.1 then k p else none
  | .eol, p, k => if atLine p.2 then k p else none

/-- The preferred match starting exactly here: `(matched, rest)`. -/
def matchAt (r : Rx) (l xs : List Tok) : Option (List Tok × List Tok) :=
  match run r (l, xs) (fun q => some q.2) with
  | some t => some (xs.take (xs.length - t.length), t)
  | none => none

/-- Leftmost match at or after the current position: `(skipped, matched, rest)`. -/
def findFrom (r : Rx) : List Tok → List Tok → Option (List Tok × List Tok × List Tok)
  | l, [] =>
    match matchAt r l [] with
    | some (m, t) => some ([], m, t)
    | none => none
  | l, x :: xs =>
    match matchAt r l (x :: xs) with
    | some (m, t) => some ([], m, t)
    | none =>
      match findFrom r (x :: l) xs with
      | some (s, m, t) => some (x :: s, m, t)
      | none => none

/-- `(*Regexp).Find` on a whole text. -/
def find (r : Rx) (xs : List Tok) : Option (List Tok × List Tok × List Tok) := findFrom r [] xs

/-- `(*Regexp).Match`. -/
def hasMatch (r : Rx) (b : List UInt8) : Bool := (find r (decode b)).isSome

/-! ## `ReplaceAll` -/

/-- Output of the replacement loop before rendering: text copied verbatim, or a match to be replaced. -/
inductive Piece
  | keep (t : List Tok)
  | hit (m : List Tok)
deriving Repr, DecidableEq

/-- The loop of `regexp.(*Regexp).replaceAll`.  `l` = text before `searchPos` (reversed), `xs` = text
from `searchPos`, `am` = "`searchPos` equals the end of the previous match" (Go: an empty match
immediately after another match is not replaced).  Each round advances `searchPos`, so
`fuel = xs.length + 1` is enough. -/
def replPieces (r : Rx) : Nat → List Tok → Bool → List Tok → List Piece
  | 0, _, _, xs => [.keep xs]
  | n + 1, l, am, xs =>
    match findFrom r l xs with
    | none => [.keep xs]
    | some (s, m, t) =>
      let l' := m.reverse ++ (s.reverse ++ l)
      let here := m.isEmpty && s.isEmpty          -- empty match at searchPos itself
      let head := if here && am then [Piece.keep s] else [Piece.keep s, Piece.hit m]
      if here then
        match t with
        | [] => head
        | y :: ys => head ++ (Piece.keep [y] :: replPieces r n (y :: l') false ys)
      else head ++ replPieces r n l' true t

def render (f : List UInt8 → List UInt8) : List Piece → List UInt8
  | [] => []
  | .keep t :: ps => bytesOf t ++ render f ps
  | .hit m :: ps => f (bytesOf m) ++ render f ps

/-- `(*Regexp).ReplaceAllFunc(b, f)`. -/
def replaceAllFunc (r : Rx) (b : List UInt8) (f : List UInt8 → List UInt8) : List UInt8 :=
  let toks := decode b
  render f (replPieces r (toks.length + 1) [] false toks)

/-- `(*Regexp).ReplaceAll(b, repl)` for a replacement without `$` (no template expansion). -/
def replaceAll (r : Rx) (b : List UInt8) (repl : List UInt8) : List UInt8 :=
  replaceAllFunc r b (fun _ => repl)

/-! ## Structural analyses -/

/-- Weight of a byte string under a per-byte weight. -/
def weightB (w : UInt8 → Nat) : List UInt8 → Nat
  | [] => 0
  | b :: bs => w b + weightB w bs

/-- Weight of a text = weight of its bytes. -/
def weightT (w : UInt8 → Nat) (t : List Tok) : Nat := weightB w (bytesOf t)

/-- Lower bound for the weight of a member of a class: a class made of single-rune ASCII ranges weighs
at least the lightest of them; anything else is bounded by 0. -/
def clsLB (w : UInt8 → Nat) : List (Nat × Nat) → Nat
  | [] => 0
  | [(lo, hi)] => if lo = hi ∧ lo < 128 then w (UInt8.ofNat lo) else 0
  | (lo, hi) :: rest => min (if lo = hi ∧ lo < 128 then w (UInt8.ofNat lo) else 0) (clsLB w rest)

/-- Lower bound for the weight of every match. -/
def minWeight (w : UInt8 → Nat) : Rx → Nat
  | .eps => 0
  | .cls rs => clsLB w rs
  | .cat a b => minWeight w a + minWeight w b
  | .alt a b => min (minWeight w a) (minWeight w b)
  | .star _ => 0
  | .cap _ a => minWeight w a
  | _ => 0

/-- No anchors: matching does not depend on the surrounding text. -/
def anchorFree : Rx → Bool
  | .eps => true
  | .cls _ => true
  | .cat a b => anchorFree a && anchorFree b
  | .alt a b => anchorFree a && anchorFree b
  | .star a => anchorFree a
  | .cap _ a => anchorFree a
  | _ => false

/-- No class of the expression contains the code point `c`: no match contains it. -/
def avoids (c : Nat) : Rx → Bool
  | .cls rs => !clsMem rs c
  | .cat a b => avoids c a && avoids c b
  | .alt a b => avoids c a && avoids c b
  | .star a => avoids c a
  | .cap _ a => avoids c a
  | _ => true

/-- Captures are transparent for matching. -/
def eraseCaps : Rx → Rx
  | .cat a b => .cat (eraseCaps a) (eraseCaps b)
  | .alt a b => .alt (eraseCaps a) (eraseCaps b)
  | .star a => .star (eraseCaps a)
  | .cap _ a => eraseCaps a
  | r => r

/-- Top-level concatenation factors (captures erased), left to right. -/
def factors : Rx → List Rx
  | .cat a b => factors a ++ factors b
  | .cap _ a => factors a
  | .eps => []
  | r => [eraseCaps r]

/-- Top-level alternatives (captures erased), in priority order. -/
def branches : Rx → List Rx
  | .alt a b => branches a ++ branches b
  | .cap _ a => branches a
  | r => [eraseCaps r]

end Rx
end Snowflake
