/-
Go's `container/heap` (go1.23.5, `src/container/heap/heap.go`), transcribed function by function
over an abstract `heap.Interface`.  Core-only, structurally recursive (fuel = size), kernel-evaluable.

* `Iface σ α` is `heap.Interface` for a container type `σ` with elements `α`:
  `Len`, `Less(i,j)`, `Swap(i,j)`, `Push(x)`, `Pop()` — the *user hooks*.  Implementations that keep
  extra bookkeeping (an `index` field per element, or a separate `addr ↦ index` map) put it into
  their hooks exactly as the Go code does; the generic functions below never look inside `σ`.
* `up`, `down`, `init`, `push`, `pop`, `remove`, `fix` are the seven functions of heap.go.
* `arrI key` is the plain instance: an `Array α` ordered by an integer key (`Less(i,j) = key a[i] < key a[j]`);
  `idxI key X` is the instance for elements that store their own position (`index` field maintained by
  `Swap`/`Push`/`Pop`, as `broker.SnowflakeHeap` does).

Differences from the Go text, all outside the reachable behaviour: `int` is `Nat` (so `(0-1)/2 = 0`
as in Go, where `-1/2` truncates to `0`; the `j1 < 0` overflow test of `down` is dropped), and
out-of-range indices are no-ops instead of panics (total accessors).  The loops carry a fuel argument
that is initialised with a bound on the number of iterations (`up`: `j+1`, `down`: `n`), so the
fuel never runs out (`Proofs/Heap.lean` proves the invariants for exactly these definitions).
Theorems live in `Snowflake/Proofs/Heap.lean`.
-/
namespace Snowflake.Heap

/-- `heap.Interface`. `pop` removes and returns element `Len()-1` (`none` on an empty container). -/
structure Iface (σ : Type) (α : Type) where
  len  : σ → Nat
  less : σ → Nat → Nat → Bool
  swap : σ → Nat → Nat → σ
  push : σ → α → σ
  pop  : σ → σ × Option α

variable {σ α : Type}

/-- Go: `(j - 1) / 2`; for `j = 0` Go computes `-1/2 = 0`, as does truncated subtraction. -/
def parent (j : Nat) : Nat := (j - 1) / 2

/-- `func up(h Interface, j int)`:
```
for { i := (j - 1) / 2; if i == j || !h.Less(j, i) { break }; h.Swap(i, j); j = i }
``` -/
def upLoop (I : Iface σ α) : Nat → σ → Nat → σ
  | 0, h, _ => h
  | fuel + 1, h, j =>
    let i := parent j
    if i == j || !I.less h j i then h
    else upLoop I fuel (I.swap h i j) i

def up (I : Iface σ α) (h : σ) (j : Nat) : σ := upLoop I (j + 1) h j

/-- `j := j1; if j2 := j1 + 1; j2 < n && h.Less(j2, j1) { j = j2 }` with `j1 = 2*i + 1`. -/
def minChild (I : Iface σ α) (h : σ) (n i : Nat) : Nat :=
  let j1 := 2 * i + 1
  if j1 + 1 < n && I.less h (j1 + 1) j1 then j1 + 1 else j1

/-- The loop of `func down(h Interface, i0, n int) bool`; returns the container and the final `i`:
```
for { j1 := 2*i + 1; if j1 >= n || j1 < 0 { break }
      j := j1; if j2 := j1 + 1; j2 < n && h.Less(j2, j1) { j = j2 }
      if !h.Less(j, i) { break }; h.Swap(i, j); i = j }
``` -/
def downLoop (I : Iface σ α) (n : Nat) : Nat → σ → Nat → σ × Nat
  | 0, h, i => (h, i)
  | fuel + 1, h, i =>
    if 2 * i + 1 ≥ n then (h, i)
    else
      let j := minChild I h n i
      if !I.less h j i then (h, i)
      else downLoop I n fuel (I.swap h i j) j

/-- `down(h, i0, n)`: the container and the Go result `i > i0`. -/
def down (I : Iface σ α) (h : σ) (i0 n : Nat) : σ × Bool :=
  let r := downLoop I n n h i0
  (r.1, decide (r.2 > i0))

/-- `for i := n/2 - 1; i >= 0; i-- { down(h, i, n) }`, with `k = i + 1` counting down to 0. -/
def initLoop (I : Iface σ α) (n : Nat) : Nat → σ → σ
  | 0, h => h
  | k + 1, h => initLoop I n k (down I h k n).1

/-- `func Init(h Interface)`. -/
def init (I : Iface σ α) (h : σ) : σ :=
  let n := I.len h
  initLoop I n (n / 2) h

/-- `func Push(h Interface, x any) { h.Push(x); up(h, h.Len()-1) }`. -/
def push (I : Iface σ α) (h : σ) (x : α) : σ :=
  let h := I.push h x
  up I h (I.len h - 1)

/-- `Pop` up to (excluding) the final `h.Pop()`: `n := h.Len() - 1; h.Swap(0, n); down(h, 0, n)`. -/
def popPrep (I : Iface σ α) (h : σ) : σ :=
  let n := I.len h - 1
  let h := I.swap h 0 n
  (down I h 0 n).1

/-- `func Pop(h Interface) any { n := h.Len() - 1; h.Swap(0, n); down(h, 0, n); return h.Pop() }`. -/
def pop (I : Iface σ α) (h : σ) : σ × Option α := I.pop (popPrep I h)

/-- `Remove` up to (excluding) the final `h.Pop()`:
`n := h.Len() - 1; if n != i { h.Swap(i, n); if !down(h, i, n) { up(h, i) } }`. -/
def removePrep (I : Iface σ α) (h : σ) (i : Nat) : σ :=
  let n := I.len h - 1
  if n != i then
    let h := I.swap h i n
    let d := down I h i n
    if !d.2 then up I d.1 i else d.1
  else h

/-- `func Remove(h Interface, i int) any`. -/
def remove (I : Iface σ α) (h : σ) (i : Nat) : σ × Option α := I.pop (removePrep I h i)

/-- `func Fix(h Interface, i int) { if !down(h, i, h.Len()) { up(h, i) } }`. -/
def fix (I : Iface σ α) (h : σ) (i : Nat) : σ :=
  let d := down I h i (I.len h)
  if !d.2 then up I d.1 i else d.1

/-! ## The plain array instance -/

/-- Key of the element at position `i` (0 outside the array; never consulted there). -/
def keyAt (key : α → Int) (a : Array α) (i : Nat) : Int :=
  match a[i]? with
  | some x => key x
  | none => 0

/-- `Array α` ordered by `key`: `Less(i,j) = key a[i] < key a[j]`, `Swap` exchanges two cells,
`Push` appends, `Pop` removes the last cell. -/
def arrI (key : α → Int) : Iface (Array α) α where
  len := Array.size
  less := fun a i j => decide (keyAt key a i < keyAt key a j)
  swap := fun a i j => a.swapIfInBounds i j
  push := Array.push
  pop := fun a => (a.pop, a.back?)

/-! ## Elements with an `index` field -/

/-- Elements that store their own heap position (Go: an `index int` field, `-1` = not in the heap). -/
structure Indexed (α : Type) where
  getIdx : α → Option Nat
  setIdx : α → Option Nat → α

/-- `heap.Interface` of a slice of elements with an `index` field, as `broker.SnowflakeHeap` writes it:
`Swap` exchanges two cells and stores the new positions, `Push` stores `index = len` and appends,
`Pop` removes the last cell and stores `index = -1`. -/
def idxI (key : α → Int) (X : Indexed α) : Iface (Array α) α where
  len := Array.size
  less := fun a i j => decide (keyAt key a i < keyAt key a j)
  swap := fun a i j =>
    match a[i]?, a[j]? with
    | some x, some y => (a.setIfInBounds i (X.setIdx y (some i))).setIfInBounds j (X.setIdx x (some j))
    | _, _ => a
  push := fun a x => a.push (X.setIdx x (some a.size))
  pop := fun a => (a.pop, a.back?.map (fun x => X.setIdx x none))

end Snowflake.Heap
