import Snowflake.Base.Utf8
/-
An executable model of the part of Go 1.23.5 `encoding/json` that the repository relies on
(core-only).  Text is `List Char`; raw bytes are first decoded with `Utf8.decodeLossy`, which is
faithful because the scanner rejects every byte ≥ 0x80 outside string literals (as it rejects every
non-ASCII `Char` here) and `unquote` replaces every offending byte inside a string literal by
U+FFFD.

* `parse`        — `checkValid` + value construction: the grammar of scanner.go (whitespace = space
                   \t \r \n, literals, numbers, strings with escapes, arrays, objects, nesting depth
                   limit 10000, only whitespace after the top-level value).  Numbers keep their
                   literal text; objects keep all members in document order (duplicates included).
* `unmarshalMap` — `json.Unmarshal(data, &m)` for `m map[string]interface{}`.
* `unmarshalStruct` — `json.Unmarshal(data, &s)` for flat structs with `string`, `int`, `*string` fields.
* `marshalObj`   — `json.Marshal` of such structs (field order, `omitempty`, HTML-safe escaping).

Every error of `Unmarshal` is the single outcome `none`: the repository never looks at the kind of
error.  Explicit fuel (`text length + 1`) makes the mutual recursion structural.
-/
namespace Snowflake.Json

abbrev Text := List Char

inductive Json where
  | null
  | bool (b : Bool)
  | num (lit : Text)
  | str (s : Text)
  | arr (xs : List Json)
  | obj (kvs : List (Text × Json))

/-! ## Lexical level -/

/-- scanner.go `isSpace` -/
def isWs (c : Char) : Bool := c = ' ' || c = '\t' || c = '\r' || c = '\n'

def skipWs : Text → Text
  | [] => []
  | c :: r => if isWs c then skipWs r else c :: r

def isDigit (c : Char) : Bool := 48 ≤ c.toNat && c.toNat ≤ 57

/-- value of a hexadecimal digit (both cases, as `getu4` accepts) -/
def hexVal (c : Char) : Option Nat :=
  let n := c.toNat
  if 48 ≤ n && n ≤ 57 then some (n - 48)
  else if 97 ≤ n && n ≤ 102 then some (n - 87)
  else if 65 ≤ n && n ≤ 70 then some (n - 55)
  else none

def hex4 (a b c d : Char) : Option Nat :=
  match hexVal a, hexVal b, hexVal c, hexVal d with
  | some x, some y, some z, some w => some (x * 4096 + y * 256 + z * 16 + w)
  | _, _, _, _ => none

/-- What one lexical element of a string literal denotes: a scalar value, or a UTF-16 surrogate
code unit written as `\uD800`…`\uDFFF` (only escapes can produce those). -/
inductive U16 where
  | ch (c : Char)
  | sur (n : Nat)

def isSurrogate (n : Nat) : Bool := 0xD800 ≤ n && n < 0xE000

def mkUnit (n : Nat) : U16 := if isSurrogate n then .sur n else .ch (Char.ofNat n)

/-- the two-character escapes of `unquote` -/
def simpleEsc (e : Char) : Option Char :=
  if e = '"' then some '"'
  else if e = '\\' then some '\\'
  else if e = '/' then some '/'
  else if e = 'b' then some (Char.ofNat 8)
  else if e = 'f' then some (Char.ofNat 12)
  else if e = 'n' then some '\n'
  else if e = 'r' then some '\r'
  else if e = 't' then some '\t'
  else none

def pushUnit (u : U16) : Option (List U16 × Text) → Option (List U16 × Text)
  | none => none
  | some (us, rest) => some (u :: us, rest)

/-- Body of a string literal (the text after the opening quote) up to and including the closing
quote: its elements and the remaining text.  `none`: unterminated, control character < 0x20,
unknown escape, or `\u` not followed by four hex digits (scanner.go `stateInString…`). -/
def strUnits : Text → Option (List U16 × Text)
  | [] => none
  | c :: r =>
    if c = '"' then some ([], r)
    else if c = '\\' then
      match r with
      | [] => none
      | e :: r1 =>
        if e = 'u' then
          match r1 with
          | a :: b :: c2 :: d :: r2 =>
            match hex4 a b c2 d with
            | none => none
            | some n => pushUnit (mkUnit n) (strUnits r2)
          | _ => none
        else
          match simpleEsc e with
          | none => none
          | some x => pushUnit (.ch x) (strUnits r1)
    else if c.toNat < 0x20 then none
    else pushUnit (.ch c) (strUnits r)

/-- decode.go `unquote`, surrogate handling: a high surrogate escape immediately followed by a low
surrogate escape is one scalar (`utf16.DecodeRune`); any other surrogate escape is U+FFFD and the
following element is processed on its own.  The first argument is a surrogate escape that has been
read but not yet resolved. -/
def combineAux : Option Nat → List U16 → Text
  | none, [] => []
  | some _, [] => [Utf8.replacement]
  | none, .ch c :: r => c :: combineAux none r
  | some _, .ch c :: r => Utf8.replacement :: c :: combineAux none r
  | none, .sur a :: r => combineAux (some a) r
  | some a, .sur b :: r =>
    if a < 0xDC00 && 0xDC00 ≤ b then
      Char.ofNat (0x10000 + (a - 0xD800) * 0x400 + (b - 0xDC00)) :: combineAux none r
    else Utf8.replacement :: combineAux (some b) r

def combine (us : List U16) : Text := combineAux none us

/-- String literal after its opening quote: the decoded Go string and the remaining text. -/
def parseStr (cs : Text) : Option (Text × Text) :=
  match strUnits cs with
  | none => none
  | some (us, rest) => some (combine us, rest)

def spanDigits : Text → Text × Text
  | [] => ([], [])
  | c :: r => if isDigit c then let (ds, rest) := spanDigits r; (c :: ds, rest) else ([], c :: r)

/-- integer part: `0` or `[1-9][0-9]*` -/
def numInt : Text → Option (Text × Text)
  | [] => none
  | c :: r =>
    if c = '0' then some (['0'], r)
    else if isDigit c then let (ds, rest) := spanDigits r; some (c :: ds, rest)
    else none

/-- optional fraction: `.` must be followed by at least one digit -/
def numFrac : Text → Option (Text × Text)
  | [] => some ([], [])
  | c :: r =>
    if c = '.' then
      let (ds, rest) := spanDigits r
      if ds.isEmpty then none else some ('.' :: ds, rest)
    else some ([], c :: r)

/-- optional sign of an exponent -/
def expSign : Text → Text × Text
  | [] => ([], [])
  | c :: r => if c = '+' || c = '-' then ([c], r) else ([], c :: r)

/-- optional exponent: `e`/`E`, optional sign, at least one digit -/
def numExp : Text → Option (Text × Text)
  | [] => some ([], [])
  | c :: r =>
    if c = 'e' || c = 'E' then
      let (sign, r1) := expSign r
      let (ds, rest) := spanDigits r1
      if ds.isEmpty then none else some (c :: (sign ++ ds), rest)
    else some ([], c :: r)

def numUnsigned (cs : Text) : Option (Text × Text) :=
  match numInt cs with
  | none => none
  | some (ip, r1) =>
    match numFrac r1 with
    | none => none
    | some (fp, r2) =>
      match numExp r2 with
      | none => none
      | some (ep, r3) => some (ip ++ (fp ++ ep), r3)

/-- Number literal by maximal munch, as the scanner's states `stateNeg … stateE0` do; whatever
follows is judged by the caller (`stateEndValue`). -/
def numLit : Text → Option (Text × Text)
  | [] => none
  | c :: r =>
    if c = '-' then
      match numUnsigned r with
      | none => none
      | some (l, rest) => some ('-' :: l, rest)
    else numUnsigned (c :: r)

/-- scanner.go `maxNestingDepth` -/
def maxDepth : Nat := 10000

/-! ## Values -/

mutual
/-- One JSON value at the head of the text (no leading whitespace). `d` = number of enclosing
arrays/objects (`len(s.parseState)`). -/
def value : Nat → Nat → Text → Option (Json × Text)
  | 0, _, _ => none
  | f + 1, d, cs =>
    match cs with
    | [] => none
    | c :: r =>
      if c = '"' then
        match parseStr r with
        | none => none
        | some (s, rest) => some (.str s, rest)
      else if c = '{' then
        if maxDepth < d + 1 then none
        else
          match skipWs r with
          | [] => none
          | c1 :: r1 =>
            if c1 = '}' then some (.obj [], r1)
            else
              match members f (d + 1) (c1 :: r1) with
              | none => none
              | some (kvs, rest) => some (.obj kvs, rest)
      else if c = '[' then
        if maxDepth < d + 1 then none
        else
          match skipWs r with
          | [] => none
          | c1 :: r1 =>
            if c1 = ']' then some (.arr [], r1)
            else
              match elements f (d + 1) (c1 :: r1) with
              | none => none
              | some (xs, rest) => some (.arr xs, rest)
      else if c = 't' then
        match r with
        | 'r' :: 'u' :: 'e' :: rest => some (.bool true, rest)
        | _ => none
      else if c = 'f' then
        match r with
        | 'a' :: 'l' :: 's' :: 'e' :: rest => some (.bool false, rest)
        | _ => none
      else if c = 'n' then
        match r with
        | 'u' :: 'l' :: 'l' :: rest => some (.null, rest)
        | _ => none
      else
        match numLit cs with
        | none => none
        | some (lit, rest) => some (.num lit, rest)

/-- `"key" : value` pairs separated by `,` up to the closing `}` (text starts at a key's quote). -/
def members : Nat → Nat → Text → Option (List (Text × Json) × Text)
  | 0, _, _ => none
  | f + 1, d, cs =>
    match cs with
    | [] => none
    | c :: r =>
      if c = '"' then
        match parseStr r with
        | none => none
        | some (k, r1) =>
          match skipWs r1 with
          | [] => none
          | c2 :: r2 =>
            if c2 = ':' then
              match value f d (skipWs r2) with
              | none => none
              | some (v, r3) =>
                match skipWs r3 with
                | [] => none
                | c4 :: r4 =>
                  if c4 = ',' then
                    match members f d (skipWs r4) with
                    | none => none
                    | some (kvs, rest) => some ((k, v) :: kvs, rest)
                  else if c4 = '}' then some ([(k, v)], r4)
                  else none
            else none
      else none

/-- values separated by `,` up to the closing `]` -/
def elements : Nat → Nat → Text → Option (List Json × Text)
  | 0, _, _ => none
  | f + 1, d, cs =>
    match value f d cs with
    | none => none
    | some (v, r1) =>
      match skipWs r1 with
      | [] => none
      | c2 :: r2 =>
        if c2 = ',' then
          match elements f d (skipWs r2) with
          | none => none
          | some (xs, rest) => some (v :: xs, rest)
        else if c2 = ']' then some ([v], r2)
        else none
end

/-- `checkValid` + value: exactly one value surrounded by optional whitespace. -/
def parse (cs : Text) : Option Json :=
  match value (cs.length + 1) 0 (skipWs cs) with
  | none => none
  | some (v, rest) => if (skipWs rest).isEmpty then some v else none

/-! ## Numbers: `int` fields and the float64 overflow test -/

def decVal (ds : Text) : Nat := ds.foldl (fun a c => a * 10 + (c.toNat - 48)) 0

/-- `strconv.ParseInt(lit, 10, 64)` on a JSON number literal: digits only after an optional `-`,
value in the int64 range (`int` is 64 bits on the platforms the check runs on). -/
def parseInt64 (lit : Text) : Option Int :=
  match lit with
  | '-' :: ds =>
    if !ds.isEmpty && ds.all isDigit && decVal ds ≤ 2 ^ 63 then some (-(decVal ds : Int)) else none
  | ds =>
    if !ds.isEmpty && ds.all isDigit && decVal ds < 2 ^ 63 then some (decVal ds : Int) else none

/-- State of strconv's `decimal.set`: kept digits (at most 800, most significant first, reversed
here), decimal point, whether a `.` was seen. -/
structure Dec where
  rev : Text := []
  nd : Nat := 0
  dp : Int := 0
  sawdot : Bool := false

/-- one mantissa character of `decimal.set` -/
def Dec.step (b : Dec) (c : Char) : Dec :=
  if c = '.' then { b with sawdot := true, dp := b.nd }
  else if c = '0' && b.nd = 0 then { b with dp := b.dp - 1 }
  else if b.nd < 800 then { b with rev := c :: b.rev, nd := b.nd + 1 }
  else b

/-- exponent digits with strconv's clamp `if e < 10000 { e = e*10 + digit }` -/
def expClamp (ds : Text) : Nat := ds.foldl (fun e c => if e < 10000 then e * 10 + (c.toNat - 48) else e) 0

/-- 2^1024 − 2^970: the smallest magnitude that rounds (ties to even) to ±Inf. -/
def f64OverflowThreshold : Nat := (2 ^ 54 - 1) * 2 ^ 970

/-- Does `strconv.ParseFloat(lit, 64)` report `ErrRange` with ±Inf for this (valid) JSON number
literal?  Follows `decimal.set` (800-digit cap, decimal point taken from the *kept* digits, clamped
exponent) and the overflow exits of `decimal.floatBits`; the rounding is decided exactly with
`Nat` arithmetic.  (The fast paths of `atof64` never return ±Inf and agree with this test.) -/
def f64Overflows (lit : Text) : Bool :=
  let body := match lit with
    | '-' :: r => r
    | _ => lit
  let mant := body.takeWhile (fun c => !(c = 'e' || c = 'E'))
  let ex := (body.dropWhile (fun c => !(c = 'e' || c = 'E'))).drop 1
  let b := mant.foldl Dec.step {}
  let dp0 : Int := if b.sawdot then b.dp else b.nd
  let dp : Int := match ex with
    | '-' :: ds => dp0 - expClamp ds
    | '+' :: ds => dp0 + expClamp ds
    | ds => dp0 + expClamp ds
  if b.nd = 0 then false
  else if dp > 310 then true
  else if dp < -330 then false
  else
    let m := decVal b.rev.reverse
    if dp ≥ b.nd then decide (f64OverflowThreshold ≤ m * 10 ^ (dp - b.nd).toNat)
    else decide (f64OverflowThreshold * 10 ^ ((b.nd : Int) - dp).toNat ≤ m)

mutual
/-- some number in the value does not fit a float64 (`convertNumber` fails when decoding into
`interface{}`) -/
def Json.hasOverflow : Json → Bool
  | .num lit => f64Overflows lit
  | .arr xs => anyOverflow xs
  | .obj kvs => anyOverflowKV kvs
  | _ => false
def anyOverflow : List Json → Bool
  | [] => false
  | x :: xs => x.hasOverflow || anyOverflow xs
def anyOverflowKV : List (Text × Json) → Bool
  | [] => false
  | kv :: kvs => kv.2.hasOverflow || anyOverflowKV kvs
end

/-! ## `Unmarshal` into `map[string]interface{}` -/

/-- The members of the decoded map in document order (a later duplicate overrides an earlier one,
see `mapGet`).  `null` leaves the map nil (no members).  Errors: syntax error, top-level value that is
neither object nor `null`, a number that overflows float64 anywhere in the object (the error is
saved, decoding goes on, `Unmarshal` returns it). -/
def unmarshalMap (text : Text) : Option (List (Text × Json)) :=
  match parse text with
  | some (.obj kvs) => if anyOverflowKV kvs then none else some kvs
  | some .null => some []
  | _ => none

/-- `v, ok := m[k]`: exact key, last duplicate wins. -/
def mapGet (m : List (Text × Json)) (k : Text) : Option Json :=
  m.foldl (fun acc kv => if kv.1 = k then some kv.2 else acc) none

/-! ## `Unmarshal` into flat structs -/

/-- A struct field's current value; the constructor is its Go type (`string`, `int`, `*string`). -/
inductive FVal where
  | str (s : Text)
  | int (i : Int)
  | optStr (o : Option Text)
deriving DecidableEq

abbrev Struct := List (Text × FVal)

/-- fold.go `foldRune` restricted to what can fold to an ASCII letter: a–z ↦ A–Z, U+212A (Kelvin
sign) ↦ K, U+017F (long s) ↦ S; these are the only members of the simple-folding orbits of ASCII
letters.  Exact for keys compared with ASCII field names (all field names of the repository). -/
def asciiFold (c : Char) : Char :=
  if 97 ≤ c.toNat && c.toNat ≤ 122 then Char.ofNat (c.toNat - 32)
  else if c.toNat = 0x212A then 'K'
  else if c.toNat = 0x17F then 'S'
  else c

def foldName (k : Text) : Text := k.map asciiFold

/-- decode.go: `f := fields.byExactName[key]; if f == nil { f = fields.byFoldedName[foldName(key)] }`
(the folded index keeps the first field of each folded name). Returns the field's name. -/
def resolve (st : Struct) (k : Text) : Option Text :=
  match st.find? (fun f => f.1 = k) with
  | some f => some f.1
  | none =>
    match st.find? (fun f => foldName f.1 = foldName k) with
    | some f => some f.1
    | none => none

/-- `literalStore` / `array` / `object` for the three field types: `none` = `UnmarshalTypeError`. -/
def FVal.store : FVal → Json → Option FVal
  | .str _, .str t => some (.str t)
  | .str s, .null => some (.str s)
  | .int _, .num lit => match parseInt64 lit with
    | some i => some (.int i)
    | none => none
  | .int i, .null => some (.int i)
  | .optStr _, .str t => some (.optStr (some t))
  | .optStr _, .null => some (.optStr none)
  | _, _ => none

def storeAt (name : Text) (j : Json) : Struct → Option Struct
  | [] => some []
  | (n, v) :: r =>
    if n = name then
      match v.store j with
      | some v' => some ((n, v') :: r)
      | none => none
    else
      match storeAt name j r with
      | some r' => some ((n, v) :: r')
      | none => none

/-- One object member: unknown keys are skipped; a type error is *saved* (flag `false`) and decoding
continues. -/
def bindMember (acc : Struct × Bool) (kv : Text × Json) : Struct × Bool :=
  match resolve acc.1 kv.1 with
  | none => acc
  | some n =>
    match storeAt n kv.2 acc.1 with
    | some st' => (st', acc.2)
    | none => (acc.1, false)

def bindObj (init : Struct) (kvs : List (Text × Json)) : Struct × Bool :=
  kvs.foldl bindMember (init, true)

/-- `return d.savedError`: the struct is delivered only when no type error was saved -/
def finishBind : Struct × Bool → Option Struct
  | (st, true) => some st
  | (_, false) => none

/-- `json.Unmarshal(text, &s)` with `s` zero-initialised as `init`: `none` on any error. -/
def unmarshalStruct (init : Struct) (text : Text) : Option Struct :=
  match parse text with
  | some (.obj kvs) => finishBind (bindObj init kvs)
  | some .null => some init
  | _ => none

def Struct.getStr (st : Struct) (name : Text) : Text :=
  match st.find? (fun f => f.1 = name) with
  | some (_, .str s) => s
  | _ => []

def Struct.getInt (st : Struct) (name : Text) : Int :=
  match st.find? (fun f => f.1 = name) with
  | some (_, .int i) => i
  | _ => 0

def Struct.getOptStr (st : Struct) (name : Text) : Option Text :=
  match st.find? (fun f => f.1 = name) with
  | some (_, .optStr o) => o
  | _ => none

/-! ## `Marshal` -/

/-- lower-case hex digit, encode.go `hex` -/
def hexDigit (n : Nat) : Char := if n < 10 then Char.ofNat (48 + n) else Char.ofNat (87 + n)

def u4 (n : Nat) : Text :=
  ['\\', 'u', hexDigit (n / 4096 % 16), hexDigit (n / 256 % 16), hexDigit (n / 16 % 16), hexDigit (n % 16)]

/-- encode.go `appendString` with `escapeHTML = true`, one valid scalar. -/
def escChar (c : Char) : Text :=
  if c = '"' then ['\\', '"']
  else if c = '\\' then ['\\', '\\']
  else if c.toNat = 8 then ['\\', 'b']
  else if c.toNat = 12 then ['\\', 'f']
  else if c = '\n' then ['\\', 'n']
  else if c = '\r' then ['\\', 'r']
  else if c = '\t' then ['\\', 't']
  else if c.toNat < 0x20 || c = '<' || c = '>' || c = '&' || c.toNat = 0x2028 || c.toNat = 0x2029 then
    u4 c.toNat
  else [c]

/-- an item of a Go string: a scalar, or an offending byte (written as the escape `�`) -/
def escItem : Option Char → Text
  | some c => escChar c
  | none => u4 0xFFFD

/-- a Go string (as items, see `Utf8.decodeItems`) as a JSON string literal -/
def renderItems (s : List (Option Char)) : Text := '"' :: (s.flatMap escItem ++ ['"'])

/-- a valid-UTF-8 Go string as a JSON string literal -/
def renderStr (s : Text) : Text := '"' :: (s.flatMap escChar ++ ['"'])

def digitChar (n : Nat) : Char := Char.ofNat (48 + n)

def decFuel : Nat → Nat → Text
  | 0, _ => []
  | f + 1, n => if n < 10 then [digitChar n] else decFuel f (n / 10) ++ [digitChar (n % 10)]

/-- decimal digits of a natural number (`strconv.AppendUint`) -/
def natToDec (n : Nat) : Text := decFuel (n + 1) n

/-- `strconv.AppendInt(_, i, 10)` -/
def renderInt (i : Int) : Text :=
  if i < 0 then '-' :: natToDec i.natAbs else natToDec i.natAbs

/-- values of struct fields handed to `Marshal` -/
inductive MVal where
  | str (s : List (Option Char))
  | int (i : Int)
  | null

def MVal.render : MVal → Text
  | .str s => renderItems s
  | .int i => renderInt i
  | .null => ['n', 'u', 'l', 'l']

/-- encode.go `isEmptyValue` -/
def MVal.isEmpty : MVal → Bool
  | .str s => s.isEmpty
  | .int i => i == 0
  | .null => true

structure MField where
  name : Text
  val : MVal
  omitEmpty : Bool := false

def renderMembers : List (Text × MVal) → Text
  | [] => []
  | (k, v) :: rest =>
    match rest with
    | [] => renderStr k ++ ':' :: v.render
    | _ :: _ => renderStr k ++ ':' :: (v.render ++ ',' :: renderMembers rest)

def keptFields (fs : List MField) : List (Text × MVal) :=
  (fs.filter (fun f => !(f.omitEmpty && f.val.isEmpty))).map (fun f => (f.name, f.val))

/-- `json.Marshal` of a flat struct: fields in declaration order, `omitempty` ones dropped when empty. -/
def marshalObj (fs : List MField) : Text := '{' :: (renderMembers (keptFields fs) ++ ['}'])

/-- what a marshalled field value parses back to -/
def MVal.toJson : MVal → Json
  | .str s => .str (s.map (·.getD Utf8.replacement))
  | .int i => .num (renderInt i)
  | .null => .null

def ofText (s : Text) : List (Option Char) := s.map some

end Snowflake.Json
