import Snowflake.Proofs.BrokerInv2
/-!
Third invariant bundle of the broker model: the id list of polls and the available-proxies gauge.
-/
namespace Snowflake.Broker

theorem filter_len_congr (L : List Nat) (f g : Nat → Bool) (h : ∀ q ∈ L, f q = g q) :
    (L.filter f).length = (L.filter g).length := by
  induction L with
  | nil => rfl
  | cons x xs ih =>
    have hx := h x (List.mem_cons_self ..)
    have ih' := ih (fun q hq => h q (List.mem_cons_of_mem _ hq))
    simp only [List.filter_cons, hx]
    split <;> simp [ih']

theorem filter_len_flip_true (L : List Nat) (p : Nat) (hn : L.Nodup) (hp : p ∈ L) (f g : Nat → Bool)
    (hfg : ∀ q, q ≠ p → g q = f q) (hf : f p = false) (hg : g p = true) :
    (L.filter g).length = (L.filter f).length + 1 := by
  induction L with
  | nil => cases hp
  | cons x xs ih =>
    have hnx : x ∉ xs := (List.nodup_cons.mp hn).1
    have hnxs : xs.Nodup := (List.nodup_cons.mp hn).2
    by_cases hx : x = p
    · subst hx
      have : (xs.filter g).length = (xs.filter f).length :=
        filter_len_congr xs g f (fun q hq => hfg q (by intro e; subst e; exact hnx hq))
      simp [List.filter_cons, hf, hg, this]
    · have hp' : p ∈ xs := by
        rcases List.mem_cons.mp hp with e | e
        · exact absurd e.symm hx
        · exact e
      have := ih hnxs hp'
      simp only [List.filter_cons, hfg x hx]
      split <;> simp [this]

theorem filter_len_flip_false (L : List Nat) (p : Nat) (hn : L.Nodup) (hp : p ∈ L) (f g : Nat → Bool)
    (hfg : ∀ q, q ≠ p → g q = f q) (hf : f p = true) (hg : g p = false) :
    (L.filter g).length + 1 = (L.filter f).length := by
  have := filter_len_flip_true L p hn hp g f (fun q hq => (hfg q hq).symm) hg hf
  omega

/-- number of polls registered in `idToSnowflake` -/
def mapCount (st : St) : Nat := (st.polls.filter (fun p => (st.ss p).inMap)).length

structure ListOK (st : St) : Prop where
  mem : ∀ p, (st.ss p).h ≠ .absent → p ∈ st.polls
  nodup : st.polls.Nodup
  gauge : st.gauge = (mapCount st : Int)

section
variable {st st' : St}

/-- Labels that change which polls are in the map. -/
def Lab.flips : Lab → Bool
  | .add _ | .wCrit _ | .cFin _ => true
  | _ => false

theorem inMap_frame (l : Lab) (hl : l.flips = false) (hs : step true st l = some st') :
    ∀ q, (st'.ss q).inMap = (st.ss q).inMap := by
  cases l <;> simp only [Lab.flips] at hl <;> (try cases hl) <;> step_cases hs <;> intro q <;>
    (try rfl) <;> (simp only [upd] <;> split <;> simp_all)

theorem gauge_frame (l : Lab) (hl : l.flips = false) (hs : step true st l = some st') :
    st'.gauge = st.gauge := by
  cases l <;> simp only [Lab.flips] at hl <;> (try cases hl) <;> step_cases hs <;> rfl

theorem polls_frame (l : Lab) (hs : step true st l = some st') :
    st'.polls = st.polls ∨ ∃ p nat k, l = .pollArrive p nat k ∧ st'.polls = st.polls ++ [p] ∧ p ∉ st.polls
      ∧ (st.ss p).inMap = (st'.ss p).inMap := by
  cases l <;> step_cases hs <;> (try (left; rfl))
  right; rename_i p nat k hg
  exact ⟨p, nat, k, rfl, rfl, hg.2, by simp⟩

theorem h_absent_frame (l : Lab) (hs : step true st l = some st') :
    ∀ q, (st.ss q).h ≠ .absent → (st'.ss q).h ≠ .absent := by
  cases l <;> step_cases hs <;> intro q hq <;> (try exact hq) <;>
    (simp only [upd] <;> split <;> simp_all)

theorem h_becomes_present (l : Lab) (hs : step true st l = some st') (q : Nat)
    (h0 : (st.ss q).h = .absent) (h1 : (st'.ss q).h ≠ .absent) : q ∈ st'.polls := by
  cases l <;> step_cases hs <;> (try exact absurd h0 h1) <;> simp only [upd] at h1 <;>
    (try (split at h1 <;> simp_all))

theorem mapCount_congr (hp : st'.polls = st.polls) (hf : ∀ q, (st'.ss q).inMap = (st.ss q).inMap) :
    mapCount st' = mapCount st := by
  unfold mapCount; rw [hp]
  exact filter_len_congr _ _ _ (fun q _ => hf q)

theorem mapCount_flip_true (hp : st'.polls = st.polls) (p : Nat) (hpm : p ∈ st.polls)
    (hn : st.polls.Nodup) (hfr : ∀ q, q ≠ p → (st'.ss q).inMap = (st.ss q).inMap)
    (h0 : (st.ss p).inMap = false) (h1 : (st'.ss p).inMap = true) : mapCount st' = mapCount st + 1 := by
  unfold mapCount; rw [hp]
  exact filter_len_flip_true st.polls p hn hpm _ _ hfr h0 h1

theorem mapCount_flip_false (hp : st'.polls = st.polls) (p : Nat) (hpm : p ∈ st.polls)
    (hn : st.polls.Nodup) (hfr : ∀ q, q ≠ p → (st'.ss q).inMap = (st.ss q).inMap)
    (h0 : (st.ss p).inMap = true) (h1 : (st'.ss p).inMap = false) : mapCount st' + 1 = mapCount st := by
  unfold mapCount; rw [hp]
  exact filter_len_flip_false st.polls p hn hpm _ _ hfr h0 h1

theorem list_step (l : Lab) (hs : step true st l = some st')
    (h : ∀ q, SessOK (st.ss q)) (hl : LinkOK st) (hL : ListOK st) : ListOK st' := by
  have hmem : ∀ q, (st'.ss q).h ≠ .absent → q ∈ st'.polls := by
    intro q hq
    by_cases h0 : (st.ss q).h = .absent
    · exact h_becomes_present l hs q h0 hq
    · have := hL.mem q h0
      rcases polls_frame l hs with e | ⟨p, _, _, _, e, _, _⟩
      · rw [e]; exact this
      · rw [e]; exact List.mem_append_left _ this
  have hnd : st'.polls.Nodup := by
    rcases polls_frame l hs with e | ⟨p, _, _, _, e, hp, _⟩
    · rw [e]; exact hL.nodup
    · rw [e]; exact List.nodup_append.mpr ⟨hL.nodup, by simp, by
        intro a ha b hb; simp at hb; subst hb; intro e; subst e; exact hp ha⟩
  refine ⟨hmem, hnd, ?_⟩
  by_cases hf : l.flips = false
  · rw [gauge_frame l hf hs, hL.gauge]
    congr 1
    rcases polls_frame l hs with e | ⟨p, _, _, _, e, hp, hpm⟩
    · exact (mapCount_congr e (inMap_frame l hf hs)).symm
    · unfold mapCount
      rw [e, List.filter_append]
      have h1 : (st'.ss p).inMap = false := by
        rw [← hpm]
        have := (h p).absent
        by_cases ha : (st.ss p).h = .absent
        · exact (this ha).2.2.1
        · exact absurd (hL.mem p ha) hp
      simp only [List.filter_cons, h1, List.filter_nil, List.append_nil, Bool.false_eq_true, if_false]
      exact filter_len_congr _ _ _ (fun q _ => (inMap_frame l hf hs q).symm)
  · cases l <;> simp only [Lab.flips] at hf <;> (try (simp at hf; done))
    · -- add p
      rename_i p
      have hp := h p
      step_cases hs
      rename_i hg
      have hpm : p ∈ st.polls := hL.mem p (by rw [hg]; simp)
      simp only []
      have := mapCount_flip_true (st := st)
        (st' := { st with ss := upd st.ss p { (st.ss p) with h := .waitOffer, w := .select, inHeap := true, heapU := pushU (st.ss p).nat, inMap := true }, gauge := st.gauge + 1 })
        rfl p hpm hL.nodup
        (fun q hq => by simp [upd_ne _ _ _ _ hq]) ((hp.sendPolls hg).2.2.1) (by simp)
      have hg' := hL.gauge
      generalize hX : mapCount _ = n at this ⊢
      omega
    · -- wCrit p
      rename_i p
      have hp := h p
      step_cases hs
      · rename_i hg hh
        have hne : (st.ss p).h ≠ .absent := by rw [(hp.inHeap hh).1]; simp
        have hpm : p ∈ st.polls := hL.mem p hne
        simp only []
        have := mapCount_flip_false (st := st)
          (st' := { st with ss := upd st.ss p { (st.ss p) with w := .done, inHeap := false, inMap := false, closed := true }, gauge := st.gauge - 1 })
          rfl p hpm hL.nodup
          (fun q hq => by simp [upd_ne _ _ _ _ hq]) ((hp.inHeap hh).2.2.1) (by simp)
        have hg' := hL.gauge
        generalize hX : mapCount _ = n at this ⊢
        omega
      · simp only []
        rw [hL.gauge]; congr 1
        apply filter_len_congr
        intro q _
        simp only [upd]; split <;> simp_all
    · -- cFin c
      rename_i c
      step_cases hs
      rename_i _ p hpc
      have hp := h p
      have hk := hl.fin c p hpc
      have hne : (st.ss p).h ≠ .absent := by
        intro e; have := (hp.absent e).2.2.1; rw [hk.2.2.1] at this; cases this
      have hpm : p ∈ st.polls := hL.mem p hne
      simp only []
      have := mapCount_flip_false (st := st)
        (st' := { st with cs := upd st.cs c { (st.cs c) with pc := .done }, ss := upd st.ss p { (st.ss p) with inMap := false }, gauge := st.gauge - 1 })
        rfl p hpm hL.nodup
        (fun q hq => by simp [upd_ne _ _ _ _ hq]) hk.2.2.1 (by simp)
      have hg' := hL.gauge
      generalize hX : mapCount _ = n at this ⊢
      omega

end
end Snowflake.Broker
