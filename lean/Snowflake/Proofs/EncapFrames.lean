import Snowflake.Proofs.Encap
/-!
Framing is local and prefix-closed (used by C05 and C01, and for C09's classification): what
`ReadData` returns depends only on the bytes it consumes; a stream that ends in the middle of a
chunk yields exactly the complete chunks before the cut — never a partial, altered or merged one.
-/
namespace Snowflake.Encap

/-- A successfully parsed prefix consumes a front part of at most 3 bytes, and parsing depends on
that part only. -/
theorem parsePrefix_local {bs : Bytes} {d : Bool} {n : Nat} {rest : Bytes}
    (h : parsePrefix bs = .ok d n rest) :
    ∃ pre, bs = pre ++ rest ∧ 1 ≤ pre.length ∧ ∀ more, parsePrefix (pre ++ more) = .ok d n more := by
  unfold parsePrefix at h
  split at h
  · cases h
  · rename_i b0 r0
    simp only at h
    split at h
    · rename_i c0
      cases h
      exact ⟨[b0], rfl, by simp, fun more => by simp [parsePrefix, c0]⟩
    · rename_i c0
      split at h
      · cases h
      · rename_i b1 r1
        split at h
        · rename_i c1
          cases h
          exact ⟨[b0, b1], rfl, by simp, fun more => by simp [parsePrefix, c0, c1]⟩
        · rename_i c1
          split at h
          · cases h
          · rename_i b2 r2
            split at h
            · rename_i c2
              cases h
              exact ⟨[b0, b1, b2], rfl, by simp, fun more => by simp [parsePrefix, c0, c1, c2]⟩
            · cases h

/-- **Locality of `ReadData`.** If reading from `bs` yields the data chunk `p` leaving `rest`, then
`bs = delta ++ rest` for the consumed part `delta`, and reading from `delta` followed by *anything*
yields the same chunk and leaves exactly that anything. -/
theorem next_local : ∀ (f : Nat) (bs : Bytes) (p rest : Bytes), next f bs = (.chunk p, rest) →
    ∃ delta, bs = delta ++ rest ∧ 1 ≤ delta.length ∧
      ∀ (more : Bytes) (f' : Nat), (delta ++ more).length < f' → next f' (delta ++ more) = (.chunk p, more) := by
  intro f
  induction f with
  | zero => intro bs p rest h; simp [next] at h
  | succ f ih =>
    intro bs p rest h
    simp only [next] at h
    split at h
    · cases h
    · cases h
    · cases h
    · rename_i d n rest0 hp
      obtain ⟨pre, hbs, hpre1, hloc⟩ := parsePrefix_local hp
      split at h
      · cases h
      · rename_i hlen
        split at h
        · -- data chunk
          rename_i hd
          simp only [Prod.mk.injEq, Res.chunk.injEq] at h
          obtain ⟨h1, h2⟩ := h
          subst h1 h2
          refine ⟨pre ++ rest0.take n, ?_, by simp; omega, ?_⟩
          · rw [hbs, List.append_assoc, List.take_append_drop]
          · intro more f' hf'
            cases f' with
            | zero => omega
            | succ f' =>
              have hpp := hloc (rest0.take n ++ more)
              rw [List.append_assoc, next_succ_ok _ _ _ _ _ hpp]
              have hn : n ≤ rest0.length := by omega
              have e1 : ¬ ((rest0.take n ++ more).length < n) := by
                simp [List.length_take, Nat.min_eq_left hn]
              have e2 : (rest0.take n ++ more).take n = rest0.take n := by
                rw [List.take_append_of_le_length (by simp [List.length_take, Nat.min_eq_left hn])]
                simp [List.take_take]
              have e3 : (rest0.take n ++ more).drop n = more := by
                rw [List.drop_append_of_le_length (by simp [List.length_take, Nat.min_eq_left hn])]
                simp [List.drop_take]
              simp only [e1, if_false, hd, if_true, e2, e3]
        · -- padding: skipped, then recursion
          rename_i hd
          obtain ⟨delta, hd1, hd2, hd3⟩ := ih (rest0.drop n) p rest h
          have hn : n ≤ rest0.length := by omega
          refine ⟨pre ++ rest0.take n ++ delta, ?_, by simp; omega, ?_⟩
          · rw [hbs, List.append_assoc, List.append_assoc, ← hd1, List.take_append_drop]
          · intro more f' hf'
            cases f' with
            | zero => omega
            | succ f' =>
              have hpp := hloc (rest0.take n ++ delta ++ more)
              rw [List.append_assoc, List.append_assoc, ← List.append_assoc (rest0.take n),
                next_succ_ok _ _ _ _ _ hpp]
              have e1 : ¬ ((rest0.take n ++ delta ++ more).length < n) := by
                simp [List.length_take, Nat.min_eq_left hn]
              have e3 : (rest0.take n ++ delta ++ more).drop n = delta ++ more := by
                rw [List.append_assoc, List.drop_append_of_le_length (by simp [List.length_take, Nat.min_eq_left hn])]
                  <;> simp [List.drop_take]
              simp only [e1, if_false, hd, e3]
              apply hd3
              simp only [List.length_append, List.length_take, Nat.min_eq_left hn] at hf' ⊢
              omega

/-- Decoding a stream whose front part `delta` is what one `ReadData` consumes. -/
theorem decodeAll_cons_chunk (delta more p : Bytes)
    (h : ∀ (f' : Nat), (delta ++ more).length < f' → next f' (delta ++ more) = (.chunk p, more)) :
    decodeAll (delta ++ more) = (p :: (decodeAll more).1, (decodeAll more).2) := by
  unfold decodeAll
  have hn := h _ (Nat.lt_succ_self (delta ++ more).length)
  have hlt : more.length < (delta ++ more).length := by
    have := next_chunk_length_lt _ _ p (by rw [hn])
    rw [hn] at this; exact this
  have e : decodeFuel ((delta ++ more).length + 1) (delta ++ more)
      = (p :: (decodeFuel (delta ++ more).length more).1, (decodeFuel (delta ++ more).length more).2) := by
    simp only [decodeFuel, hn]
  rw [e, decodeFuel_fuel _ (more.length + 1) more hlt (Nat.lt_succ_self _)]

/-- `Frames fr ps`: the byte string `fr` is a sequence of complete chunks whose data chunks are `ps`,
in the strong, continuation-passing sense: decoding `fr` followed by anything gives `ps` followed by
the decoding of that anything. -/
def Frames (fr : Bytes) (ps : List Bytes) : Prop :=
  ∀ more, decodeAll (fr ++ more) = (ps ++ (decodeAll more).1, (decodeAll more).2)

theorem frames_nil : Frames [] [] := by intro more; simp

theorem frames_snoc {fr : Bytes} {ps : List Bytes} (h : Frames fr ps) (delta p : Bytes)
    (hd : ∀ (more : Bytes) (f' : Nat), (delta ++ more).length < f' → next f' (delta ++ more) = (.chunk p, more)) :
    Frames (fr ++ delta) (ps ++ [p]) := by
  intro more
  rw [List.append_assoc, h (delta ++ more), decodeAll_cons_chunk delta more p (hd more)]
  simp

theorem decodeAll_nil : decodeAll [] = ([], .eof) := by
  simp [decodeAll, decodeFuel, next, parsePrefix]

/-- A complete frame sequence decodes to exactly its data chunks with a clean EOF. -/
theorem frames_decode {fr : Bytes} {ps : List Bytes} (h : Frames fr ps) : decodeAll fr = (ps, .eof) := by
  have := h []
  simpa [decodeAll_nil] using this

end Snowflake.Encap
