import Snowflake.Proofs.BrokerInv3
/-! Reachable states of the broker model (repaired skeleton) satisfy all invariant bundles. -/
namespace Snowflake.Broker

structure Inv (st : St) : Prop where
  sess : ∀ q, SessOK (st.ss q)
  link : LinkOK st
  res : ResOK st
  list : ListOK st

/-- States reachable from the initial state of a broker with bridge list `bridge` by any labels
(any arrivals, any interleaving, any timer firings). -/
inductive Reachable (bridge : Nat → Option Nat) : St → Prop
  | init : Reachable bridge (init bridge)
  | step {st st' : St} (l : Lab) : Reachable bridge st → step true st l = some st' → Reachable bridge st'

theorem inv_init (bridge : Nat → Option Nat) : Inv (init bridge) := by
  refine ⟨fun _ => sessOK_default, ?_, ?_, ?_⟩
  · constructor <;> simp [init]
  · constructor <;> simp [init]
  · constructor <;> simp [init, mapCount]

theorem inv_step {st st' : St} (l : Lab) (hs : step true st l = some st') (hi : Inv st) : Inv st' :=
  ⟨sess_step l hs hi.sess hi.link, link_step l hs hi.sess hi.link, res_step l hs hi.sess hi.link hi.res,
    list_step l hs hi.sess hi.link hi.list⟩

theorem inv_reachable {bridge : Nat → Option Nat} {st : St} (h : Reachable bridge st) : Inv st := by
  induction h with
  | init => exact inv_init bridge
  | step l _ hs ih => exact inv_step l hs ih

theorem bridge_reachable {bridge : Nat → Option Nat} {st : St} (h : Reachable bridge st) : st.bridge = bridge := by
  induction h with
  | init => rfl
  | step l _ hs ih => rw [bridge_step l hs, ih]

/-- `runL` stays inside the reachable states. -/
theorem reachable_runL {bridge : Nat → Option Nat} : ∀ (ls : List Lab) (st st' : St), Reachable bridge st →
    runL true st ls = some st' → Reachable bridge st' := by
  intro ls
  induction ls with
  | nil => intro st st' h hr; simp [runL] at hr; subst hr; exact h
  | cons l ls ih =>
    intro st st' h hr
    simp only [runL] at hr
    split at hr
    · rename_i st1 hs1; exact ih st1 st' (.step l h hs1) hr
    · cases hr

end Snowflake.Broker
