import Snowflake.Base.Base64
/-! Theorems about the base64 model (`Snowflake/Base/Base64.lean`). Core-only. -/
namespace Snowflake.Base64

/-- What the proofs need of an alphabet (checked by evaluation for the four Go encodings). -/
structure Enc.Good (e : Enc) : Prop where
  rt : ∀ i : Fin 64, e.val (e.sym i.val) = some i.val
  padNone : e.val padChar = none
  symNotPad : ∀ i : Fin 64, e.sym i.val ≠ padChar

theorem std_good : std.Good := ⟨by decide, by decide, by decide⟩
theorem url_good : url.Good := ⟨by decide, by decide, by decide⟩
theorem rawStd_good : rawStd.Good := ⟨by decide, by decide, by decide⟩
theorem rawUrl_good : rawUrl.Good := ⟨by decide, by decide, by decide⟩

theorem Enc.Good.val_sym {e : Enc} (g : e.Good) {i : Nat} (h : i < 64) : e.val (e.sym i) = some i :=
  g.rt ⟨i, h⟩

/-- Induction in steps of three bytes. -/
theorem ind3 {P : Bytes → Prop} (h0 : P []) (h1 : ∀ a, P [a]) (h2 : ∀ a b, P [a, b])
    (h3 : ∀ a b c r, P r → P (a :: b :: c :: r)) : ∀ l, P l
  | [] => h0
  | [a] => h1 a
  | [a, b] => h2 a b
  | a :: b :: c :: r => h3 a b c r (ind3 h0 h1 h2 h3 r)

/-! ### Round trip -/

theorem ofNat_toNat (a : UInt8) : UInt8.ofNat a.toNat = a := by simp

theorem outBytes4 (a b c : UInt8) :
    outBytes [(a.toNat * 65536 + b.toNat * 256 + c.toNat) / 262144 % 64,
              (a.toNat * 65536 + b.toNat * 256 + c.toNat) / 4096 % 64,
              (a.toNat * 65536 + b.toNat * 256 + c.toNat) / 64 % 64,
              (a.toNat * 65536 + b.toNat * 256 + c.toNat) % 64] = [a, b, c] := by
  have ha := a.toNat_lt; have hb := b.toNat_lt; have hc := c.toNat_lt
  simp only [outBytes, List.getD_cons_zero, List.getD_cons_succ, List.length_cons, List.length_nil]
  have e1 : ((a.toNat * 65536 + b.toNat * 256 + c.toNat) / 262144 % 64 * 262144 +
      (a.toNat * 65536 + b.toNat * 256 + c.toNat) / 4096 % 64 * 4096 +
      (a.toNat * 65536 + b.toNat * 256 + c.toNat) / 64 % 64 * 64 +
      (a.toNat * 65536 + b.toNat * 256 + c.toNat) % 64) = a.toNat * 65536 + b.toNat * 256 + c.toNat := by omega
  rw [e1]
  have e2 : (a.toNat * 65536 + b.toNat * 256 + c.toNat) / 65536 = a.toNat := by omega
  have e3 : (a.toNat * 65536 + b.toNat * 256 + c.toNat) / 256 % 256 = b.toNat := by omega
  have e4 : (a.toNat * 65536 + b.toNat * 256 + c.toNat) % 256 = c.toNat := by omega
  rw [e2, e3, e4]
  simp

theorem outBytes3 (a b : UInt8) :
    outBytes [(a.toNat * 65536 + b.toNat * 256) / 262144 % 64,
              (a.toNat * 65536 + b.toNat * 256) / 4096 % 64,
              (a.toNat * 65536 + b.toNat * 256) / 64 % 64] = [a, b] := by
  have ha := a.toNat_lt; have hb := b.toNat_lt
  simp only [outBytes, List.getD_cons_zero, List.getD_cons_succ, List.length_cons, List.length_nil,
    List.getD_nil]
  have e2 : ((a.toNat * 65536 + b.toNat * 256) / 262144 % 64 * 262144 +
      (a.toNat * 65536 + b.toNat * 256) / 4096 % 64 * 4096 +
      (a.toNat * 65536 + b.toNat * 256) / 64 % 64 * 64 + 0) / 65536 = a.toNat := by omega
  have e3 : ((a.toNat * 65536 + b.toNat * 256) / 262144 % 64 * 262144 +
      (a.toNat * 65536 + b.toNat * 256) / 4096 % 64 * 4096 +
      (a.toNat * 65536 + b.toNat * 256) / 64 % 64 * 64 + 0) / 256 % 256 = b.toNat := by omega
  rw [e2, e3]
  simp

theorem outBytes2 (a : UInt8) :
    outBytes [(a.toNat * 65536) / 262144 % 64, (a.toNat * 65536) / 4096 % 64] = [a] := by
  have ha := a.toNat_lt
  simp only [outBytes, List.getD_cons_zero, List.getD_cons_succ, List.length_cons, List.length_nil,
    List.getD_nil]
  have e2 : ((a.toNat * 65536) / 262144 % 64 * 262144 +
      (a.toNat * 65536) / 4096 % 64 * 4096 + 0 * 64 + 0) / 65536 = a.toNat := by omega
  rw [e2]
  simp

theorem isNL_pad : isNL padChar = false := by decide

/-- One full quantum of valid symbols is decoded to its three bytes and decoding continues. -/
theorem decodeGo_quantum {e : Enc} (g : e.Good) {v0 v1 v2 v3 : Nat} (h0 : v0 < 64) (h1 : v1 < 64)
    (h2 : v2 < 64) (h3 : v3 < 64) (rest : Bytes) :
    decodeGo e [] (e.sym v0 :: e.sym v1 :: e.sym v2 :: e.sym v3 :: rest)
      = (outBytes [v0, v1, v2, v3] ++ (decodeGo e [] rest).1, (decodeGo e [] rest).2) := by
  simp [decodeGo, g.val_sym h0, g.val_sym h1, g.val_sym h2, g.val_sym h3]

/-- **Round trip** (`Decode(Encode(b)) = b`, no error) for every byte string. -/
theorem decodeRaw_encode {e : Enc} (g : e.Good) : ∀ b : Bytes, decodeRaw e (encode e b) = (b, true) := by
  unfold decodeRaw
  apply ind3
  · simp [encode, decodeGo]
  · intro a
    have ha := a.toNat_lt
    have h0 : a.toNat * 65536 / 262144 % 64 < 64 := by omega
    have h1 : a.toNat * 65536 / 4096 % 64 < 64 := by omega
    have hv : e.val 61 = none := g.padNone
    have hn : isNL 61 = false := by decide
    cases hp : e.pad
    · simp [encode, padding, hp, decodeGo, g.val_sym h0, g.val_sym h1, outBytes2]
    · simp [encode, padding, hp, decodeGo, g.val_sym h0, g.val_sym h1, hv, hn, padTail,
        List.replicate, outBytes2, padChar]
  · intro a b
    have ha := a.toNat_lt; have hb := b.toNat_lt
    have h0 : (a.toNat * 65536 + b.toNat * 256) / 262144 % 64 < 64 := by omega
    have h1 : (a.toNat * 65536 + b.toNat * 256) / 4096 % 64 < 64 := by omega
    have h2 : (a.toNat * 65536 + b.toNat * 256) / 64 % 64 < 64 := by omega
    have hv : e.val 61 = none := g.padNone
    have hn : isNL 61 = false := by decide
    cases hp : e.pad
    · simp [encode, padding, hp, decodeGo, g.val_sym h0, g.val_sym h1, g.val_sym h2, outBytes3]
    · simp [encode, padding, hp, decodeGo, g.val_sym h0, g.val_sym h1, g.val_sym h2, hv, hn,
        padTail, List.replicate, outBytes3, padChar]
  · intro a b c r ih
    have ha := a.toNat_lt; have hb := b.toNat_lt; have hc := c.toNat_lt
    simp only [encode]
    rw [decodeGo_quantum g (by omega) (by omega) (by omega) (by omega), ih, outBytes4]
    simp

theorem decode_encode {e : Enc} (g : e.Good) (b : Bytes) : decode e (encode e b) = some b := by
  simp [decode, decodeRaw_encode g b]

/-! ### Shape of the encoder output -/

theorem encode_append3 (e : Enc) : ∀ x y : Bytes, x.length % 3 = 0 → encode e (x ++ y) = encode e x ++ encode e y := by
  intro x
  induction x using ind3 with
  | h0 => intro y _; simp [encode]
  | h1 a => intro y h; simp at h
  | h2 a b => intro y h; simp at h
  | h3 a b c r ih =>
    intro y h
    have : r.length % 3 = 0 := by simp at h; omega
    simp [encode, ih y this]

theorem encode_length_pad (e : Enc) (hp : e.pad = true) : ∀ b : Bytes, (encode e b).length = (b.length + 2) / 3 * 4 := by
  apply ind3
  · simp [encode]
  · intro a; simp [encode, padding, hp]
  · intro a b; simp [encode, padding, hp]
  · intro a b c r ih; simp [encode, ih]; omega

/-- Every output byte is a symbol of the alphabet or the padding character. -/
theorem encode_mem (e : Enc) : ∀ (b : Bytes) (c : UInt8), c ∈ encode e b → (∃ i, i < 64 ∧ c = e.sym i) ∨ c = padChar := by
  apply ind3
  · intro c h; simp [encode] at h
  · intro a c h
    simp only [encode, padding, List.mem_cons] at h
    rcases h with h | h | h
    · exact .inl ⟨_, by omega, h⟩
    · exact .inl ⟨_, by omega, h⟩
    · split at h
      · exact .inr (List.eq_of_mem_replicate h)
      · simp at h
  · intro a b c h
    simp only [encode, padding, List.mem_cons] at h
    rcases h with h | h | h | h
    · exact .inl ⟨_, by omega, h⟩
    · exact .inl ⟨_, by omega, h⟩
    · exact .inl ⟨_, by omega, h⟩
    · split at h
      · exact .inr (List.eq_of_mem_replicate h)
      · simp at h
  · intro a b c r ih x h
    simp only [encode, List.mem_cons] at h
    rcases h with h | h | h | h | h
    · exact .inl ⟨_, by omega, h⟩
    · exact .inl ⟨_, by omega, h⟩
    · exact .inl ⟨_, by omega, h⟩
    · exact .inl ⟨_, by omega, h⟩
    · exact ih x h

/-- A predicate that holds of all 64 symbols and of `=` holds of every output byte. -/
theorem encode_all (e : Enc) (p : UInt8 → Bool) (hs : ∀ i : Fin 64, p (e.sym i.val) = true) (hp : p padChar = true)
    (b : Bytes) : ∀ c ∈ encode e b, p c = true := by
  intro c hc
  rcases encode_mem e b c hc with ⟨i, hi, rfl⟩ | rfl
  · exact hs ⟨i, hi⟩
  · exact hp

/-- **URL alphabet:** the output of the URL-safe encodings contains neither `/` nor `+`. -/
theorem url_no_slash_plus (b : Bytes) : ∀ c ∈ encode url b, c ≠ 47 ∧ c ≠ 43 := by
  intro c hc
  have := encode_all url (fun c => c != 47 && c != 43) (by decide) (by decide) b c hc
  simpa using this

theorem rawUrl_no_slash_plus (b : Bytes) : ∀ c ∈ encode rawUrl b, c ≠ 47 ∧ c ≠ 43 := by
  intro c hc
  have := encode_all rawUrl (fun c => c != 47 && c != 43) (by decide) (by decide) b c hc
  simpa using this

/-! ### Streaming encoder -/

theorem interior_spec (e : Enc) : ∀ (fuel : Nat) (p : Bytes), p.length ≤ fuel →
    (interior e fuel p).2.flatten = encode e (p.take (p.length / 3 * 3))
    ∧ (interior e fuel p).1 = p.drop (p.length / 3 * 3) := by
  intro fuel
  induction fuel with
  | zero =>
    intro p h
    have : p = [] := List.eq_nil_of_length_eq_zero (by omega)
    subst this; simp [interior, encode]
  | succ fuel ih =>
    intro p h
    simp only [interior]
    split
    · rename_i h3
      -- nn = the block taken in this iteration
      generalize hnn : (if 768 > p.length then p.length - p.length % 3 else 768) = nn
      have hnn3 : nn % 3 = 0 := by subst hnn; split <;> omega
      have hnnle : nn ≤ p.length := by subst hnn; split <;> omega
      have hnnpos : 3 ≤ nn := by subst hnn; split <;> omega
      have hl : (p.drop nn).length ≤ fuel := by simp only [List.length_drop]; omega
      obtain ⟨i1, i2⟩ := ih (p.drop nn) hl
      have hlen : (p.drop nn).length / 3 * 3 = p.length / 3 * 3 - nn := by
        simp only [List.length_drop]; omega
      constructor
      · simp only [List.flatten_cons, i1, hlen]
        have ht : (p.take nn).length % 3 = 0 := by simp only [List.length_take]; omega
        rw [← encode_append3 e _ _ ht]
        congr 1
        rw [← List.take_add]
        congr 1; omega
      · simp only [i2, hlen, List.drop_drop]
        congr 1; omega
    · rename_i h3
      have : p.length / 3 * 3 = 0 := by omega
      simp [this, encode]

theorem take_len_add {α} (X Y : List α) (k : Nat) : (X ++ Y).take (X.length + k) = X ++ Y.take k := by
  induction X with
  | nil => simp
  | cons x X ih => simp only [List.cons_append, List.length_cons]; rw [Nat.add_right_comm]; simp [ih]

theorem drop_len_add {α} (X Y : List α) (k : Nat) : (X ++ Y).drop (X.length + k) = Y.drop k := by
  induction X with
  | nil => simp
  | cons x X ih => simp only [List.cons_append, List.length_cons]; rw [Nat.add_right_comm]; simp [ih]

theorem write_spec (e : Enc) (buf p : Bytes) (hb : buf.length < 3) :
    (Encoder.write e buf p).2.flatten = encode e ((buf ++ p).take ((buf ++ p).length / 3 * 3))
    ∧ (Encoder.write e buf p).1 = (buf ++ p).drop ((buf ++ p).length / 3 * 3) := by
  unfold Encoder.write
  split
  · rename_i hpos
    generalize hi : min (3 - buf.length) p.length = i
    have hile : i ≤ p.length := by omega
    simp only []
    split
    · rename_i hlt
      simp only [List.length_append, List.length_take] at hlt
      have hall : i = p.length := by omega
      have hk : (buf ++ p).length / 3 * 3 = 0 := by simp only [List.length_append]; omega
      subst hall
      rw [hk]
      simp [encode]
    · rename_i hge
      simp only [List.length_append, List.length_take] at hge
      generalize hX : buf ++ p.take i = X at *
      generalize hY : p.drop i = Y at *
      have hsplit : buf ++ p = X ++ Y := by rw [← hX, ← hY]; simp
      have h3 : X.length = 3 := by rw [← hX]; simp only [List.length_append, List.length_take]; omega
      obtain ⟨i1, i2⟩ := interior_spec e Y.length Y (Nat.le_refl _)
      have hk : (X ++ Y).length / 3 * 3 = X.length + Y.length / 3 * 3 := by
        simp only [List.length_append, h3]; omega
      rw [hsplit, hk, take_len_add, drop_len_add]
      constructor
      · simp only [List.flatten_cons, i1]
        rw [← encode_append3 e _ _ (by rw [h3])]
      · exact i2
  · rename_i hz
    have : buf = [] := List.eq_nil_of_length_eq_zero (by omega)
    subst this
    simpa using interior_spec e p.length p (Nat.le_refl _)

theorem write_buf_lt (e : Enc) (buf p : Bytes) (hb : buf.length < 3) : (Encoder.write e buf p).1.length < 3 := by
  rw [(write_spec e buf p hb).2, List.length_drop]; omega

theorem run_spec (e : Enc) : ∀ (cs : List Bytes) (buf : Bytes), buf.length < 3 →
    (Encoder.run e buf cs).flatten = encode e (buf ++ cs.flatten) := by
  intro cs
  induction cs with
  | nil =>
    intro buf hb
    simp only [Encoder.run, Encoder.close, List.flatten_nil, List.append_nil]
    split
    · simp
    · have : buf = [] := List.eq_nil_of_length_eq_zero (by omega)
      subst this; simp [encode]
  | cons c cs ih =>
    intro buf hb
    simp only [Encoder.run, List.flatten_append, List.flatten_cons]
    obtain ⟨w1, w2⟩ := write_spec e buf c hb
    rw [w1, ih _ (write_buf_lt e buf c hb), w2, ← encode_append3]
    · congr 1
      rw [← List.append_assoc, List.take_append_drop, List.append_assoc]
    · simp only [List.length_take]; omega

/-- **Streaming = one-shot.**  Whatever the chunking of the `Write` calls, the concatenation of what
`NewEncoder(enc, w)` hands to `w` (including `Close`) is `enc.Encode` of the concatenated input. -/
theorem stream_encode (e : Enc) (cs : List Bytes) : (Encoder.run e [] cs).flatten = encode e cs.flatten := by
  simpa using run_spec e cs [] (by simp)

end Snowflake.Base64

namespace Snowflake.Base64

/-! ### Streaming decoder on a clean source

`Clean s`: every chunk is non-empty and free of `\r`/`\n` (what an `io.Pipe` fed with whitespace-split
words delivers).  On such a source whose bytes are a complete padded encoding the streaming decoder
returns exactly the encoded data, for every chunking and every sequence of positive read sizes. -/

def Clean (s : Src) : Prop := ∀ c ∈ s.chunks, c ≠ [] ∧ ∀ x ∈ c, isNL x = false

theorem filter_noNL (c : Bytes) (h : ∀ x ∈ c, isNL x = false) : c.filter (fun x => !isNL x) = c := by
  apply List.filter_eq_self.mpr
  intro x hx; simp [h x hx]

theorem filterRead_clean (fuel k : Nat) (s : Src) (hf : 1 ≤ fuel) (hk : 1 ≤ k) (hc : Clean s) :
    filterRead fuel k s =
      match s.chunks with
      | [] => ([], some s.fin, s)
      | c :: cs => (c.take k, none, { s with chunks := if c.length ≤ k then cs else c.drop k :: cs }) := by
  obtain ⟨f0, rfl⟩ : ∃ f0, fuel = f0 + 1 := ⟨fuel - 1, by omega⟩
  unfold filterRead rawRead
  cases hch : s.chunks with
  | nil => simp
  | cons c cs =>
    have hcc := hc c (by rw [hch]; exact List.mem_cons_self ..)
    have hne : c ≠ [] := hcc.1
    have hpos : 0 < c.length := List.length_pos_iff.mpr hne
    simp only
    by_cases hle : c.length ≤ k
    · simp only [hle, if_true]
      have : c.isEmpty = false := by simp [hne]
      simp only [this, Bool.false_eq_true, if_false, filter_noNL c hcc.2, List.take_of_length_le hle]
    · simp only [hle, if_false]
      have htk : (c.take k) ≠ [] := by
        intro h0; have := congrArg List.length h0
        simp only [List.length_take, List.length_nil] at this; omega
      have hnl : ∀ x ∈ c.take k, isNL x = false := fun x hx => hcc.2 x (List.mem_of_mem_take hx)
      have : (c.take k).isEmpty = false := by simp [htk]
      simp only [this, Bool.false_eq_true, if_false, filter_noNL _ hnl]

/-- What the proofs need to know about a decoder between two `Read` calls. -/
structure Dec.Inv (d : Dec) : Prop where
  clean : Clean d.src
  fuel : 1 ≤ d.fuel
  rerr : d.readErr = none ∨ (d.readErr = some d.src.fin ∧ d.src.chunks = [])

/-- Relation between a decoder and a later state of its refill loop. -/
structure Dec.Filled (d d' : Dec) : Prop where
  inv : d'.Inv
  bytes : d'.buf ++ d'.src.bytes = d.buf ++ d.src.bytes
  enc : d'.enc = d.enc
  out : d'.out = d.out
  err : d'.err = d.err
  fin : d'.src.fin = d.src.fin

theorem Dec.Filled.refl {d : Dec} (hi : d.Inv) : d.Filled d := ⟨hi, rfl, rfl, rfl, rfl, rfl⟩

theorem Dec.Filled.trans {a b c : Dec} (h1 : a.Filled b) (h2 : b.Filled c) : a.Filled c :=
  ⟨h2.inv, h2.bytes.trans h1.bytes, h2.enc.trans h1.enc, h2.out.trans h1.out, h2.err.trans h1.err,
    h2.fin.trans h1.fin⟩

/-- One iteration on a clean source: either the source is exhausted (nothing but `readErr` changes)
or at least one byte arrives. -/
theorem fill_spec (nn : Nat) (d : Dec) (hi : d.Inv) (hlt : d.buf.length < 4) (hnn : 4 ≤ nn) :
    d.Filled (d.fill nn) ∧
      (((d.fill nn).readErr = some d.src.fin ∧ (d.fill nn).src.chunks = [] ∧ (d.fill nn).buf = d.buf)
       ∨ ((d.fill nn).readErr = none ∧ d.buf.length < (d.fill nn).buf.length)) := by
  unfold Dec.fill
  rw [filterRead_clean d.fuel _ d.src hi.fuel (by omega) hi.clean]
  cases hch : d.src.chunks with
  | nil =>
    exact ⟨⟨⟨hi.clean, hi.fuel, .inr ⟨rfl, hch⟩⟩, by simp, rfl, rfl, rfl, rfl⟩, .inl ⟨rfl, hch, by simp⟩⟩
  | cons c cs =>
    simp only
    have hcc := hi.clean c (by rw [hch]; exact List.mem_cons_self ..)
    have hpos : 0 < c.length := List.length_pos_iff.mpr hcc.1
    generalize hk : nn - d.buf.length = k
    have hk1 : 1 ≤ k := by omega
    generalize hrest : (if c.length ≤ k then cs else c.drop k :: cs) = rest
    have hclean' : Clean { d.src with chunks := rest } := by
      intro x hx
      simp only at hx
      rw [← hrest] at hx
      split at hx
      · exact hi.clean x (by rw [hch]; exact List.mem_cons_of_mem _ hx)
      · rename_i hgt
        rcases List.mem_cons.mp hx with rfl | hx
        · refine ⟨?_, fun y hy => hcc.2 y (List.mem_of_mem_drop hy)⟩
          intro h0; have := congrArg List.length h0
          simp only [List.length_drop, List.length_nil] at this; omega
        · exact hi.clean x (by rw [hch]; exact List.mem_cons_of_mem _ hx)
    have hbytes : c.take k ++ ({ d.src with chunks := rest } : Src).bytes = d.src.bytes := by
      simp only [Src.bytes, hch, List.flatten_cons]
      rw [← hrest]
      split
      · rename_i hle; rw [List.take_of_length_le hle]
      · simp only [List.flatten_cons, ← List.append_assoc, List.take_append_drop]
    refine ⟨⟨⟨hclean', hi.fuel, .inl ?_⟩, ?_, ?_, ?_, ?_, ?_⟩, .inr ⟨?_, ?_⟩⟩
    all_goals first | rfl | trivial | skip
    · simp only [List.append_assoc, hbytes]
    · simp only [List.length_append, List.length_take]; omega

theorem refill_spec (nn : Nat) (hnn : 4 ≤ nn) : ∀ (fuel : Nat) (d : Dec), d.Inv → 4 ≤ fuel + d.buf.length →
    d.Filled (Dec.refill fuel nn d)
      ∧ (4 ≤ (Dec.refill fuel nn d).buf.length
          ∨ ((Dec.refill fuel nn d).readErr = some d.src.fin ∧ (Dec.refill fuel nn d).src.chunks = [])) := by
  intro fuel
  induction fuel with
  | zero =>
    intro d hi hf
    simp only [Dec.refill]
    exact ⟨.refl hi, .inl (by omega)⟩
  | succ fuel ih =>
    intro d hi hf
    simp only [Dec.refill]
    split
    · rename_i hcond
      obtain ⟨hlt, hre⟩ := hcond
      obtain ⟨f1, f2⟩ := fill_spec nn d hi hlt hnn
      rcases f2 with ⟨e1, e2, e3⟩ | ⟨e1, e2⟩
      · -- source exhausted: the loop stops at once
        have hstop : Dec.refill fuel nn (d.fill nn) = d.fill nn := by
          cases fuel with
          | zero => rfl
          | succ fuel => simp only [Dec.refill, e1]; simp
        rw [hstop]
        exact ⟨f1, .inr ⟨e1, e2⟩⟩
      · obtain ⟨g1, g2⟩ := ih (d.fill nn) f1.inv (by omega)
        refine ⟨f1.trans g1, ?_⟩
        rw [f1.fin] at g2
        exact g2
    · rename_i hcond
      refine ⟨.refl hi, ?_⟩
      by_cases hlt : d.buf.length < 4
      · right
        have : d.readErr ≠ none := fun h => hcond ⟨hlt, h⟩
        rcases hi.rerr with h | h
        · exact absurd h this
        · exact h
      · left; omega

theorem encode_length_ge (b : Bytes) : b.length ≤ (encode std b).length := by
  rw [encode_length_pad std rfl]; omega

/-- A 4-aligned prefix of a padded encoding is itself the encoding of a prefix of the data, and the
rest is the encoding of the rest. -/
theorem encode_split (y : Bytes) (nr : Nat) (h4 : nr % 4 = 0) (hle : nr ≤ (encode std y).length) (hpos : 0 < nr) :
    ∃ y1 y2, y = y1 ++ y2 ∧ encode std y1 = (encode std y).take nr ∧ encode std y2 = (encode std y).drop nr
      ∧ y1 ≠ [] := by
  have hlen := encode_length_pad std rfl y
  by_cases heq : nr = (encode std y).length
  · refine ⟨y, [], by simp, by simp [heq], by simp [heq, encode], ?_⟩
    intro h0; subst h0; simp [encode] at heq; omega
  · have hlt : nr < (encode std y).length := by omega
    have hm : nr / 4 * 3 ≤ y.length := by omega
    refine ⟨y.take (nr / 4 * 3), y.drop (nr / 4 * 3), by simp, ?_, ?_, ?_⟩
    · have hs := encode_append3 std (y.take (nr / 4 * 3)) (y.drop (nr / 4 * 3))
        (by simp only [List.length_take]; omega)
      rw [List.take_append_drop] at hs
      have hl1 : (encode std (y.take (nr / 4 * 3))).length = nr := by
        rw [encode_length_pad std rfl]; simp only [List.length_take]; omega
      rw [hs, List.take_left' hl1]
    · have hs := encode_append3 std (y.take (nr / 4 * 3)) (y.drop (nr / 4 * 3))
        (by simp only [List.length_take]; omega)
      rw [List.take_append_drop] at hs
      have hl1 : (encode std (y.take (nr / 4 * 3))).length = nr := by
        rw [encode_length_pad std rfl]; simp only [List.length_take]; omega
      rw [hs, List.drop_left' hl1]
    · intro h0
      have := congrArg List.length h0
      simp only [List.length_take, List.length_nil] at this
      omega

/-- The bytes still to be delivered (`b`) by a decoder in state `d` reading a clean complete padded
standard encoding. -/
structure Dec.Good (d : Dec) (b : Bytes) : Prop where
  inv : d.Inv
  enc : d.enc = std
  err : d.err = none
  fin : d.src.fin = .eof
  rest : ∃ y, d.buf ++ d.src.bytes = encode std y ∧ b = d.out ++ y

theorem read_good (plen : Nat) (hp : 1 ≤ plen) (d : Dec) (b : Bytes) (g : d.Good b) :
    (b = [] ∧ (Dec.read plen d).1 = [] ∧ (Dec.read plen d).2.1 = some .eof)
    ∨ (∃ o b', o ≠ [] ∧ b = o ++ b' ∧ (Dec.read plen d).1 = o ∧ (Dec.read plen d).2.1 = none
        ∧ (Dec.read plen d).2.2.Good b') := by
  obtain ⟨y, hy, hb⟩ := g.rest
  unfold Dec.read
  split
  · -- leftover output
    rename_i hout
    right
    refine ⟨d.out.take plen, d.out.drop plen ++ y, ?_, ?_, rfl, rfl, ?_⟩
    · intro h0; have := congrArg List.length h0
      simp only [List.length_take, List.length_nil] at this; omega
    · rw [hb, ← List.append_assoc, List.take_append_drop]
    · exact ⟨⟨g.inv.clean, g.inv.fuel, g.inv.rerr⟩, g.enc, g.err, g.fin, y, hy, rfl⟩
  · rename_i hout
    have hout0 : d.out = [] := List.eq_nil_of_length_eq_zero (by omega)
    simp only [g.err, Option.isSome_none, Bool.false_eq_true, if_false]
    generalize hnn : min (max (plen / 3 * 4) 4) 1024 = nn
    have hnn4 : 4 ≤ nn := by omega
    obtain ⟨fl, i7⟩ := refill_spec nn hnn4 4 d g.inv (by omega)
    generalize hd1 : Dec.refill 4 nn d = d1 at *
    have i1 := fl.inv; have i2 := fl.bytes; have i3 := fl.enc; have i4 := fl.out; have i5 := fl.err
    have i6 := fl.fin
    have hy1 : d1.buf ++ d1.src.bytes = encode std y := by rw [i2, hy]
    split
    · -- fewer than four bytes: the source is exhausted
      rename_i hlt
      have hsrc : d1.readErr = some d.src.fin ∧ d1.src.chunks = [] := by
        rcases i7 with h | h
        · omega
        · exact h
      have hpad : d1.enc.pad = true := by rw [i3, g.enc]; rfl
      unfold Dec.readShort
      simp only [hpad, Bool.not_true, Bool.false_eq_true, false_and, if_false]
      have hbytes : d1.src.bytes = [] := by simp [Src.bytes, hsrc.2]
      rw [hbytes, List.append_nil] at hy1
      have hl := encode_length_pad std rfl y
      have hbl : d1.buf.length = (encode std y).length := by rw [hy1]
      have hy0 : y = [] := by
        apply List.eq_nil_of_length_eq_zero; omega
      have hb0 : d1.buf.length = 0 := by rw [hbl, hy0]; simp [encode]
      left
      refine ⟨by rw [hb, hout0, hy0]; rfl, ?_, ?_⟩
      · first | rfl | trivial
      · simp only [hsrc.1, g.fin, hb0]
        simp
    · rename_i hge
      right
      generalize hnr : d1.buf.length / 4 * 4 = nr
      have hnr4 : nr % 4 = 0 := by omega
      have hnrpos : 0 < nr := by omega
      have hnrle : nr ≤ d1.buf.length := by omega
      have hpre : d1.buf.take nr = (encode std y).take nr := by
        rw [← hy1, List.take_append_of_le_length hnrle]
      have hnrle2 : nr ≤ (encode std y).length := by rw [← hy1]; simp only [List.length_append]; omega
      obtain ⟨y1, y2, hyy, e1, e2, hne⟩ := encode_split y nr hnr4 hnrle2 hnrpos
      have hdec : decodeRaw d1.enc (d1.buf.take nr) = (y1, true) := by
        rw [i3, g.enc, hpre, ← e1, decodeRaw_encode std_good]
      have hrest : d1.buf.drop nr ++ d1.src.bytes = encode std y2 := by
        rw [e2, ← hy1, List.drop_append_of_le_length hnrle]
      unfold Dec.readDecode
      simp only [hnr, hdec, if_true]
      split
      · refine ⟨y1.take plen, y1.drop plen ++ y2, ?_, ?_, rfl, rfl, ?_⟩
        · intro h0; have hl0 := congrArg List.length h0
          have hl1 : 0 < y1.length := List.length_pos_iff.mpr hne
          simp only [List.length_take, List.length_nil] at hl0; omega
        · rw [hb, hout0, hyy, ← List.append_assoc (List.take plen y1), List.take_append_drop]; rfl
        · exact ⟨⟨i1.clean, i1.fuel, i1.rerr⟩, by rw [← g.enc, ← i3], rfl, by rw [i6, g.fin], y2, hrest, rfl⟩
      · refine ⟨y1, y2, hne, by rw [hb, hout0, hyy]; rfl, rfl, rfl, ?_⟩
        exact ⟨⟨i1.clean, i1.fuel, i1.rerr⟩, by rw [← g.enc, ← i3], rfl, by rw [i6, g.fin], y2, hrest,
          by rw [i4, hout0]; rfl⟩

theorem readAll_good (sizes : Nat → Nat) (hs : ∀ i, 1 ≤ sizes i) : ∀ (fuel i : Nat) (d : Dec) (b : Bytes),
    d.Good b → b.length < fuel → Dec.readAll sizes fuel i d = (b, some .eof) := by
  intro fuel
  induction fuel with
  | zero => intro i d b _ h; omega
  | succ fuel ih =>
    intro i d b g hf
    simp only [Dec.readAll]
    rcases read_good (sizes i) (hs i) d b g with ⟨h0, h1, h2⟩ | ⟨o, b', hne, hb, h1, h2, h3⟩
    · generalize hr : Dec.read (sizes i) d = r at *
      obtain ⟨r1, r2, r3⟩ := r
      simp only at h1 h2
      subst h1 h2 h0
      rfl
    · generalize hr : Dec.read (sizes i) d = r at *
      obtain ⟨r1, r2, r3⟩ := r
      simp only at h1 h2 h3
      subst h1 h2
      simp only
      have hol : 0 < r1.length := List.length_pos_iff.mpr hne
      rw [ih (i + 1) r3 b' h3 (by rw [hb] at hf; simp only [List.length_append] at hf; omega), hb]

/-- **Streaming decode = data**, for every way the encoded text is cut into (non-empty, newline-free)
chunks and every sequence of positive read-buffer sizes: `NewDecoder(StdEncoding, src)` read to the
end yields the data and `io.EOF`. -/
theorem streamDecode_encode (sizes : Nat → Nat) (hs : ∀ i, 1 ≤ sizes i) (chunks : List Bytes) (y : Bytes)
    (hc : Clean ⟨chunks, .eof⟩) (hy : chunks.flatten = encode std y) :
    streamDecode std sizes ⟨chunks, .eof⟩ = (y, some .eof) := by
  unfold streamDecode
  apply readAll_good sizes hs
  · refine ⟨⟨hc, ?_, .inl rfl⟩, rfl, rfl, rfl, y, ?_, ?_⟩
    · show 1 ≤ Src.fuel _; unfold Src.fuel; omega
    · show [] ++ Src.bytes ⟨chunks, .eof⟩ = _
      simp only [Src.bytes, List.nil_append]; exact hy
    · rfl
  · have := encode_length_ge y
    simp only [Src.bytes, hy]; omega

end Snowflake.Base64

namespace Snowflake.Base64

/-! ### Which errors the streaming decoder can report -/

theorem rawRead_err (k : Nat) (s : Src) :
    ((rawRead k s).2.1 = none ∨ (rawRead k s).2.1 = some s.fin) ∧ (rawRead k s).2.2.fin = s.fin := by
  unfold rawRead
  split
  · exact ⟨.inr rfl, rfl⟩
  · split <;> exact ⟨.inl rfl, rfl⟩

theorem filterRead_err : ∀ (fuel k : Nat) (s : Src),
    ((filterRead fuel k s).2.1 = none ∨ (filterRead fuel k s).2.1 = some s.fin) ∧ (filterRead fuel k s).2.2.fin = s.fin := by
  intro fuel
  induction fuel with
  | zero => intro k s; exact ⟨.inl rfl, rfl⟩
  | succ fuel ih =>
    intro k s
    unfold filterRead
    have hr := rawRead_err k s
    generalize rawRead k s = r at hr
    obtain ⟨d, err, s'⟩ := r
    simp only at hr ⊢
    split
    · exact hr
    · split
      · have := ih k s'
        rw [hr.2] at this
        exact this
      · exact hr

/-- The errors a decoder on a source ending in `f` can hold or return: none, `CorruptInputError`, `f`
itself, and `io.ErrUnexpectedEOF` only if `f` is `io.EOF`. -/
def errOk (f : Err) (e : Option Err) : Prop :=
  e = none ∨ e = some .corrupt ∨ e = some f ∨ (f = .eof ∧ e = some .unexpectedEOF)

structure Dec.ErrInv (d : Dec) (f : Err) : Prop where
  fin : d.src.fin = f
  rerr : d.readErr = none ∨ d.readErr = some f
  err : errOk f d.err

theorem fill_errInv (nn : Nat) (d : Dec) (f : Err) (h : d.ErrInv f) : (d.fill nn).ErrInv f := by
  unfold Dec.fill
  have := filterRead_err d.fuel (nn - d.buf.length) d.src
  rw [h.fin] at this
  exact ⟨this.2, this.1, h.err⟩

theorem refill_errInv (nn : Nat) : ∀ (fuel : Nat) (d : Dec) (f : Err), d.ErrInv f → (Dec.refill fuel nn d).ErrInv f := by
  intro fuel
  induction fuel with
  | zero => intro d f h; exact h
  | succ fuel ih =>
    intro d f h
    simp only [Dec.refill]
    split
    · exact ih _ f (fill_errInv nn d f h)
    · exact h

theorem errOk_corrupt (f : Err) (b : Bool) : errOk f (if b = true then none else some Err.corrupt) := by
  cases b
  · exact .inr (.inl rfl)
  · exact .inl rfl

theorem errOk_readErr (d : Dec) (f : Err) (h : d.ErrInv f) : errOk f d.readErr := by
  rcases h.rerr with hr | hr
  · exact .inl hr
  · exact .inr (.inr (.inl hr))

theorem readShort_errInv (plen : Nat) (d : Dec) (f : Err) (h : d.ErrInv f) :
    errOk f (Dec.readShort plen d).2.1 ∧ (Dec.readShort plen d).2.2.ErrInv f := by
  have hE : errOk f (if d.readErr = some .eof ∧ d.buf.length > 0 then some .unexpectedEOF else d.readErr) := by
    split
    · rename_i hc
      rcases h.rerr with hr | hr
      · rw [hr] at hc; cases hc.1
      · rw [hr] at hc
        have : f = .eof := by injection hc.1
        exact .inr (.inr (.inr ⟨this, rfl⟩))
    · exact errOk_readErr d f h
  unfold Dec.readShort
  simp only []
  by_cases hc : (!d.enc.pad) = true ∧ d.buf.length > 0
  · rw [if_pos hc]
    cases hr2 : (decodeRaw d.enc d.buf).2
    · -- the fragment is corrupt
      simp only [Bool.false_eq_true, if_false, Option.isSome_some, if_true]
      split
      · exact ⟨.inl rfl, ⟨h.fin, h.rerr, .inr (.inl rfl)⟩⟩
      · exact ⟨.inr (.inl rfl), ⟨h.fin, h.rerr, .inr (.inl rfl)⟩⟩
    · simp only [if_true, Option.isSome_none, Bool.false_eq_true, if_false]
      split
      · exact ⟨.inl rfl, ⟨h.fin, h.rerr, .inl rfl⟩⟩
      · exact ⟨errOk_readErr d f h, ⟨h.fin, h.rerr, errOk_readErr d f h⟩⟩
  · rw [if_neg hc]
    exact ⟨hE, ⟨h.fin, h.rerr, hE⟩⟩

theorem readDecode_errInv (plen : Nat) (d : Dec) (f : Err) (h : d.ErrInv f) :
    errOk f (Dec.readDecode plen d).2.1 ∧ (Dec.readDecode plen d).2.2.ErrInv f := by
  unfold Dec.readDecode
  simp only []
  split
  · exact ⟨errOk_corrupt f _, ⟨h.fin, h.rerr, errOk_corrupt f _⟩⟩
  · exact ⟨errOk_corrupt f _, ⟨h.fin, h.rerr, errOk_corrupt f _⟩⟩

theorem read_errInv (plen : Nat) (d : Dec) (f : Err) (h : d.ErrInv f) :
    errOk f (Dec.read plen d).2.1 ∧ (Dec.read plen d).2.2.ErrInv f := by
  unfold Dec.read
  split
  · exact ⟨.inl rfl, ⟨h.fin, h.rerr, h.err⟩⟩
  · split
    · exact ⟨h.err, h⟩
    · have h1 := refill_errInv (min (max (plen / 3 * 4) 4) 1024) 4 d f h
      simp only []
      split
      · exact readShort_errInv plen _ f h1
      · exact readDecode_errInv plen _ f h1

theorem readAll_errOk (sizes : Nat → Nat) : ∀ (fuel i : Nat) (d : Dec) (f : Err), d.ErrInv f →
    errOk f (Dec.readAll sizes fuel i d).2 := by
  intro fuel
  induction fuel with
  | zero => intro i d f _; exact .inl rfl
  | succ fuel ih =>
    intro i d f h
    simp only [Dec.readAll]
    obtain ⟨h1, h2⟩ := read_errInv (sizes i) d f h
    generalize Dec.read (sizes i) d = r at h1 h2
    obtain ⟨o, e, d'⟩ := r
    cases e with
    | none => exact ih (i + 1) d' f h2
    | some e => exact h1

/-- On a source that ends with an error other than `io.EOF` (a pipe closed with an error) the
streaming decoder never reports a clean end of input. -/
theorem streamDecode_not_eof (e : Enc) (sizes : Nat → Nat) (chunks : List Bytes) (code : Nat) :
    (streamDecode e sizes ⟨chunks, .other code⟩).2 ≠ some .eof := by
  have := readAll_errOk sizes (Src.bytes ⟨chunks, .other code⟩).length.succ.succ 0 (Dec.new e ⟨chunks, .other code⟩)
    (.other code) ⟨rfl, .inl rfl, .inl rfl⟩
  unfold streamDecode
  intro h
  rw [h] at this
  rcases this with h | h | h | ⟨h, _⟩ <;> cases h

end Snowflake.Base64

namespace Snowflake.Base64

/-! ### A byte outside the alphabet is always reported -/

/-- Not a symbol of the alphabet, not `\r`/`\n`, not `=`. -/
def isBad (e : Enc) (c : UInt8) : Bool := (e.val c).isNone && !isNL c && c != padChar

theorem dropWhile_bad (l : Bytes) (b : UInt8) (hb : b ∈ l) (hnl : isNL b = false) : (l.dropWhile isNL).isEmpty = false := by
  induction l with
  | nil => cases hb
  | cons x r ih =>
    simp only [List.dropWhile_cons]
    split
    · rename_i hx
      rcases List.mem_cons.mp hb with rfl | h
      · rw [hnl] at hx; cases hx
      · exact ih h
    · rfl

theorem padTail_bad (e : Enc) (acc : List Nat) (cs : Bytes) (b : UInt8) (hb : b ∈ cs) (hbad : isBad e b = true) :
    (padTail acc cs).2 = false := by
  simp only [isBad, Bool.and_eq_true, Bool.not_eq_true', bne_iff_ne, ne_eq] at hbad
  obtain ⟨⟨_, hnl⟩, hpad⟩ := hbad
  unfold padTail
  split
  · -- a second pad character is expected
    have hne := dropWhile_bad cs b hb hnl
    cases hdw : cs.dropWhile isNL with
    | nil => rfl
    | cons d r =>
      simp only
      split
      · rfl
      · rename_i hd
        have hd' : d = padChar := by simpa using hd
        -- the bad byte is in r
        have hmem : b ∈ d :: r := by
          rw [← hdw]
          -- b survives dropWhile because it is not a newline
          clear hdw hd hd' hne
          induction cs with
          | nil => cases hb
          | cons x xs ih =>
            simp only [List.dropWhile_cons]
            split
            · rename_i hx
              rcases List.mem_cons.mp hb with rfl | h
              · rw [hnl] at hx; cases hx
              · exact ih h
            · exact hb
        rcases List.mem_cons.mp hmem with rfl | h
        · exact absurd hd' hpad
        · exact dropWhile_bad r b h hnl
  · exact dropWhile_bad cs b hb hnl

theorem decodeGo_bad (e : Enc) : ∀ (s : Bytes) (acc : List Nat) (b : UInt8), b ∈ s → isBad e b = true →
    (decodeGo e acc s).2 = false := by
  intro s
  induction s with
  | nil => intro acc b hb; cases hb
  | cons c cs ih =>
    intro acc b hb hbad
    have hbad' := hbad
    simp only [isBad, Bool.and_eq_true, Bool.not_eq_true', bne_iff_ne, ne_eq, Option.isNone_iff_eq_none] at hbad'
    obtain ⟨⟨hval, hnl⟩, hpad⟩ := hbad'
    simp only [decodeGo]
    cases hv : e.val c with
    | some v =>
      have hcs : b ∈ cs := by
        rcases List.mem_cons.mp hb with rfl | h
        · rw [hval] at hv; cases hv
        · exact h
      simp only
      split
      · exact ih [] b hcs hbad
      · exact ih _ b hcs hbad
    | none =>
      simp only
      split
      · rename_i hcnl
        have hcs : b ∈ cs := by
          rcases List.mem_cons.mp hb with rfl | h
          · rw [hnl] at hcnl; cases hcnl
          · exact h
        exact ih acc b hcs hbad
      · split
        · rfl
        · rename_i hp
          split
          · rfl
          · have hc : c = padChar := by
              simp only [Bool.not_eq_true', Bool.and_eq_false_iff, not_or, Bool.not_eq_false, beq_iff_eq] at hp
              exact hp.2
            have hcs : b ∈ cs := by
              rcases List.mem_cons.mp hb with rfl | h
              · exact absurd hc hpad
              · exact h
            exact padTail_bad e acc cs b hcs hbad

/-- The bytes of a source that survive the newline filter. -/
def Src.filtered (s : Src) : Bytes := s.bytes.filter (fun c => !isNL c)

theorem rawRead_bytes (k : Nat) (s : Src) :
    (rawRead k s).1 ++ (rawRead k s).2.2.bytes = s.bytes ∧ ((rawRead k s).2.1 ≠ none → s.chunks = [] ∧ (rawRead k s).2.2 = s) := by
  unfold rawRead
  cases hch : s.chunks with
  | nil => simp [Src.bytes, hch]
  | cons c cs =>
    simp only
    split
    · simp [Src.bytes, hch]
    · simp only [Src.bytes, hch, List.flatten_cons, ← List.append_assoc, List.take_append_drop]
      simp

theorem filterRead_filtered : ∀ (fuel k : Nat) (s : Src),
    (filterRead fuel k s).1 ++ (filterRead fuel k s).2.2.filtered = s.filtered
    ∧ ((filterRead fuel k s).2.1 ≠ none → (filterRead fuel k s).2.2.chunks = []) := by
  intro fuel
  induction fuel with
  | zero => intro k s; simp [filterRead]
  | succ fuel ih =>
    intro k s
    unfold filterRead
    obtain ⟨hb, he⟩ := rawRead_bytes k s
    generalize rawRead k s = r at hb he
    obtain ⟨d, err, s'⟩ := r
    simp only at hb he ⊢
    split
    · rename_i hd
      have hd0 : d = [] := by simpa using hd
      subst hd0
      simp only [List.nil_append] at hb ⊢
      refine ⟨by simp [Src.filtered, hb], ?_⟩
      intro hne
      obtain ⟨h1, h2⟩ := he hne
      rw [h2]; exact h1
    · split
      · rename_i hf
        obtain ⟨i1, i2⟩ := ih k s'
        refine ⟨?_, i2⟩
        rw [i1]
        have hf0 : d.filter (fun c => !isNL c) = [] := by simpa using hf
        simp only [Src.filtered, ← hb, List.filter_append, hf0, List.nil_append]
      · refine ⟨by simp only [Src.filtered, ← hb, List.filter_append], ?_⟩
        intro hne
        obtain ⟨h1, h2⟩ := he hne
        rw [h2]; exact h1

/-- A bad byte is still ahead of the decoder (buffered or in the source), which has not failed yet. -/
structure Dec.BadAhead (d : Dec) (b : UInt8) : Prop where
  bad : isBad d.enc b = true
  mem : b ∈ d.buf ++ d.src.filtered
  err : d.err = none
  rerr : d.readErr ≠ none → d.src.chunks = []
  pad : d.enc.pad = true

theorem fill_badAhead (nn : Nat) (d : Dec) (b : UInt8) (h : d.BadAhead b) : (d.fill nn).BadAhead b := by
  unfold Dec.fill
  obtain ⟨f1, f2⟩ := filterRead_filtered d.fuel (nn - d.buf.length) d.src
  refine ⟨h.bad, ?_, h.err, f2, h.pad⟩
  simp only [List.append_assoc, f1]
  exact h.mem

theorem refill_badAhead (nn : Nat) : ∀ (fuel : Nat) (d : Dec) (b : UInt8), d.BadAhead b → (Dec.refill fuel nn d).BadAhead b := by
  intro fuel
  induction fuel with
  | zero => intro d b h; exact h
  | succ fuel ih =>
    intro d b h
    simp only [Dec.refill]
    split
    · exact ih _ b (fill_badAhead nn d b h)
    · exact h

theorem read_badAhead (plen : Nat) (d : Dec) (b : UInt8) (h : d.BadAhead b) :
    (Dec.read plen d).2.1 ≠ some .eof ∧ ((Dec.read plen d).2.1 = none → (Dec.read plen d).2.2.BadAhead b) := by
  unfold Dec.read
  split
  · exact ⟨by simp, fun _ => ⟨h.bad, h.mem, h.err, h.rerr, h.pad⟩⟩
  · simp only [h.err, Option.isSome_none, Bool.false_eq_true, if_false]
    have h1 := refill_badAhead (min (max (plen / 3 * 4) 4) 1024) 4 d b h
    generalize Dec.refill 4 (min (max (plen / 3 * 4) 4) 1024) d = d1 at h1
    split
    · -- fewer than four bytes buffered
      rename_i hlt
      unfold Dec.readShort
      simp only [h1.pad, Bool.not_true, Bool.false_eq_true, false_and, if_false]
      constructor
      · split
        · simp
        · rename_i hc
          intro heof
          have hne : d1.readErr ≠ none := by rw [heof]; simp
          have hch := h1.rerr hne
          have hb0 : ¬ (d1.buf.length > 0) := fun hpos => hc ⟨heof, hpos⟩
          have hbuf : d1.buf = [] := List.eq_nil_of_length_eq_zero (by omega)
          have := h1.mem
          simp [hbuf, Src.filtered, Src.bytes, hch] at this
      · intro he
        refine ⟨h1.bad, h1.mem, he, h1.rerr, h1.pad⟩
    · -- decode a 4-aligned prefix of the buffer
      unfold Dec.readDecode
      simp only []
      generalize hnr : d1.buf.length / 4 * 4 = nr
      by_cases hin : b ∈ d1.buf.take nr
      · have hfalse : (decodeRaw d1.enc (d1.buf.take nr)).2 = false := decodeGo_bad d1.enc _ [] b hin h1.bad
        simp only [hfalse, Bool.false_eq_true, if_false]
        split <;> exact ⟨by simp, fun he => by cases he⟩
      · have hmem : b ∈ d1.buf.drop nr ++ d1.src.filtered := by
          have := h1.mem
          rw [← List.take_append_drop nr d1.buf, List.append_assoc] at this
          rcases List.mem_append.mp this with h' | h'
          · exact absurd h' hin
          · exact h'
        cases hr2 : (decodeRaw d1.enc (d1.buf.take nr)).2
        · simp only [Bool.false_eq_true, if_false]
          split <;> exact ⟨by simp, fun he => by cases he⟩
        · simp only [if_true]
          split
          · exact ⟨by simp, fun _ => ⟨h1.bad, hmem, rfl, h1.rerr, h1.pad⟩⟩
          · exact ⟨by simp, fun _ => ⟨h1.bad, hmem, rfl, h1.rerr, h1.pad⟩⟩

theorem readAll_badAhead (sizes : Nat → Nat) : ∀ (fuel i : Nat) (d : Dec) (b : UInt8), d.BadAhead b →
    (Dec.readAll sizes fuel i d).2 ≠ some .eof := by
  intro fuel
  induction fuel with
  | zero => intro i d b _; simp [Dec.readAll]
  | succ fuel ih =>
    intro i d b h
    simp only [Dec.readAll]
    obtain ⟨h1, h2⟩ := read_badAhead (sizes i) d b h
    generalize Dec.read (sizes i) d = r at h1 h2
    obtain ⟨o, e, d'⟩ := r
    cases e with
    | none => exact ih (i + 1) d' b (h2 rfl)
    | some e => exact h1

/-- **A byte outside the alphabet is always an error.**  If the source contains a byte that is neither
a symbol of the (padded) encoding nor `\r`, `\n` or `=`, the streaming decoder never reports a clean
end of input — whatever the chunking and the read sizes. -/
theorem streamDecode_bad (e : Enc) (hp : e.pad = true) (sizes : Nat → Nat) (s : Src) (b : UInt8) (hb : b ∈ s.bytes)
    (hbad : isBad e b = true) : (streamDecode e sizes s).2 ≠ some .eof := by
  unfold streamDecode
  apply readAll_badAhead sizes _ _ _ b
  refine ⟨hbad, ?_, rfl, fun h => absurd rfl h, hp⟩
  simp only [Dec.new, List.nil_append, Src.filtered, List.mem_filter]
  refine ⟨hb, ?_⟩
  simp only [isBad, Bool.and_eq_true, Bool.not_eq_true'] at hbad
  simp [hbad.1.2]

end Snowflake.Base64
