import Snowflake.Base.Json
/-!
Lemmas about `Snowflake.Json`: string literals and integers written by `Marshal` are read back by
the parser; flat objects round-trip.  Core-only.
-/
namespace Snowflake.Json
open Snowflake

/-! ### Hex digits -/

theorem hexVal_hexDigit : ∀ d : Fin 16, hexVal (hexDigit d.val) = some d.val := by decide

theorem hex4_u4 (n : Nat) (h : n < 65536) :
    hex4 (hexDigit (n / 4096 % 16)) (hexDigit (n / 256 % 16)) (hexDigit (n / 16 % 16)) (hexDigit (n % 16))
      = some n := by
  have a := hexVal_hexDigit ⟨n / 4096 % 16, by omega⟩
  have b := hexVal_hexDigit ⟨n / 256 % 16, by omega⟩
  have c := hexVal_hexDigit ⟨n / 16 % 16, by omega⟩
  have d := hexVal_hexDigit ⟨n % 16, by omega⟩
  simp only at a b c d
  simp only [hex4, a, b, c, d]
  congr 1
  omega

theorem strUnits_quote (rest : Text) : strUnits ('"' :: rest) = some ([], rest) := by
  rw [strUnits.eq_def]; simp

theorem strUnits_plain (c : Char) (h1 : c ≠ '"') (h2 : c ≠ '\\') (h3 : ¬ c.toNat < 0x20) (tail : Text) :
    strUnits (c :: tail) = pushUnit (.ch c) (strUnits tail) := by
  conv => lhs; rw [strUnits.eq_def]
  simp only [h1, h2, h3, if_false]

/-- `\uXXXX` is read as the unit it denotes. -/
theorem strUnits_u4 (n : Nat) (h : n < 65536) (tail : Text) :
    strUnits (u4 n ++ tail) = pushUnit (mkUnit n) (strUnits tail) := by
  simp only [u4, List.cons_append, List.nil_append]
  conv => lhs; rw [strUnits.eq_def]
  simp only [show ('\\' = '"') = False by decide, if_false, if_true, hex4_u4 n h]

theorem mkUnit_char (c : Char) : mkUnit c.toNat = .ch c := by
  have := Utf8.char_range c
  have hs : isSurrogate c.toNat = false := by
    simp only [isSurrogate, Bool.and_eq_false_imp, decide_eq_true_eq, decide_eq_false_iff_not]; omega
  simp [mkUnit, hs]

theorem simple_esc_step (e x : Char) (he : e ≠ 'u') (hx : simpleEsc e = some x) (tail : Text) :
    strUnits ('\\' :: e :: tail) = pushUnit (.ch x) (strUnits tail) := by
  conv => lhs; rw [strUnits.eq_def]
  simp only [show ('\\' = '"') = False by decide, if_false, if_true, he, hx]

/-- What `Marshal` writes for one scalar is read back as that scalar. -/
theorem strUnits_escChar (c : Char) (tail : Text) :
    strUnits (escChar c ++ tail) = pushUnit (.ch c) (strUnits tail) := by
  unfold escChar
  by_cases h1 : c = '"'
  · subst h1; exact simple_esc_step _ _ (by decide) (by decide) tail
  by_cases h2 : c = '\\'
  · subst h2; exact simple_esc_step _ _ (by decide) (by decide) tail
  by_cases h3 : c.toNat = 8
  · have : c = Char.ofNat 8 := by rw [← h3, Char.ofNat_toNat]
    simp only [h1, h2, h3, if_true, if_false]
    rw [this]; exact simple_esc_step _ _ (by decide) (by decide) tail
  by_cases h4 : c.toNat = 12
  · have : c = Char.ofNat 12 := by rw [← h4, Char.ofNat_toNat]
    simp only [h1, h2, h4, if_true, if_false]
    rw [this]; exact simple_esc_step _ _ (by decide) (by decide) tail
  by_cases h5 : c = '\n'
  · subst h5; exact simple_esc_step _ _ (by decide) (by decide) tail
  by_cases h6 : c = '\r'
  · subst h6; exact simple_esc_step _ _ (by decide) (by decide) tail
  by_cases h7 : c = '\t'
  · subst h7; exact simple_esc_step _ _ (by decide) (by decide) tail
  simp only [h1, h2, h3, h4, h5, h6, h7, if_false]
  split
  · rename_i h
    have hn : c.toNat < 65536 := by
      simp only [Bool.or_eq_true, decide_eq_true_eq] at h
      rcases h with ((((h | h) | h) | h) | h) | h
      · omega
      · subst h; decide
      · subst h; decide
      · subst h; decide
      · omega
      · omega
    rw [strUnits_u4 _ hn, mkUnit_char]
  · rename_i h
    simp only [Bool.or_eq_true, decide_eq_true_eq, not_or] at h
    simp only [List.cons_append, List.nil_append]
    exact strUnits_plain c h1 h2 h.1.1.1.1.1 tail

theorem strUnits_escItem (it : Option Char) (tail : Text) :
    strUnits (escItem it ++ tail) = pushUnit (.ch (it.getD Utf8.replacement)) (strUnits tail) := by
  cases it with
  | some c => exact strUnits_escChar c tail
  | none =>
    simp only [escItem, Option.getD_none]
    rw [strUnits_u4 _ (by decide)]
    rfl

/-- The body written for a Go string, followed by the closing quote, is read back whole. -/
theorem strUnits_items (s : List (Option Char)) (rest : Text) :
    strUnits (s.flatMap escItem ++ '"' :: rest)
      = some (s.map (fun it => U16.ch (it.getD Utf8.replacement)), rest) := by
  induction s with
  | nil => exact strUnits_quote rest
  | cons it s ih =>
    simp only [List.flatMap_cons, List.append_assoc, strUnits_escItem, ih, pushUnit, List.map_cons]

theorem combineAux_ch (s : Text) : combineAux none (s.map U16.ch) = s := by
  induction s with
  | nil => rfl
  | cons c s ih => simp only [List.map_cons, combineAux, ih]

/-- **String literal round trip** (items of any Go string): the literal `Marshal` writes is read
back as the string with every offending byte replaced by U+FFFD. -/
theorem parseStr_items (s : List (Option Char)) (rest : Text) :
    parseStr (s.flatMap escItem ++ '"' :: rest) = some (s.map (·.getD Utf8.replacement), rest) := by
  simp only [parseStr, strUnits_items, combine]
  have : s.map (fun it => U16.ch (it.getD Utf8.replacement))
      = (s.map (·.getD Utf8.replacement)).map U16.ch := by simp [List.map_map]
  rw [this, combineAux_ch]

theorem renderStr_eq (s : Text) : renderStr s = renderItems (ofText s) := by
  simp only [renderStr, renderItems, ofText, List.flatMap_map]
  rfl

/-- **String literal round trip**: for every `List Char` string `s`, parsing the rendered literal
gives back `s` (and leaves what follows the literal). -/
theorem map_getD_some (s : Text) : s.map ((fun x => x.getD Utf8.replacement) ∘ some) = s := by
  induction s with
  | nil => rfl
  | cons c s ih => simp only [List.map_cons, Function.comp, Option.getD_some, ih]

theorem parseStr_renderStr (s rest : Text) :
    parseStr (s.flatMap escChar ++ '"' :: rest) = some (s, rest) := by
  have := parseStr_items (ofText s) rest
  simp only [ofText, List.flatMap_map, List.map_map, map_getD_some] at this
  exact this

/-! ### Integers -/

theorem isDigit_digitChar (n : Nat) (h : n < 10) : isDigit (digitChar n) = true := by
  have : ∀ d : Fin 10, isDigit (digitChar d.val) = true := by decide
  exact this ⟨n, h⟩

theorem digitChar_val (n : Nat) (h : n < 10) : (digitChar n).toNat - 48 = n := by
  have : ∀ d : Fin 10, (digitChar d.val).toNat - 48 = d.val := by decide
  exact this ⟨n, h⟩

theorem digitChar_ne_zero (n : Nat) (h : n < 10) (h0 : n ≠ 0) : digitChar n ≠ '0' := by
  have : ∀ d : Fin 10, d.val ≠ 0 → digitChar d.val ≠ '0' := by decide
  exact this ⟨n, h⟩ h0

theorem decFuel_digits : ∀ f n, ∀ c ∈ decFuel f n, isDigit c = true := by
  intro f
  induction f with
  | zero => intro n c hc; simp [decFuel] at hc
  | succ f ih =>
    intro n c hc
    unfold decFuel at hc
    split at hc
    · simp only [List.mem_singleton] at hc; subst hc; exact isDigit_digitChar n (by omega)
    · simp only [List.mem_append, List.mem_singleton] at hc
      rcases hc with hc | hc
      · exact ih _ c hc
      · subst hc; exact isDigit_digitChar _ (by omega)

theorem decVal_append (ds : Text) (c : Char) : decVal (ds ++ [c]) = decVal ds * 10 + (c.toNat - 48) := by
  simp [decVal, List.foldl_append]

theorem decVal_decFuel : ∀ f n, n < f → decVal (decFuel f n) = n := by
  intro f
  induction f with
  | zero => intro n h; omega
  | succ f ih =>
    intro n h
    unfold decFuel
    split
    · rename_i h10
      simp only [decVal, List.foldl_cons, List.foldl_nil, Nat.zero_mul, Nat.zero_add]
      exact digitChar_val n h10
    · rw [decVal_append, ih (n / 10) (by omega), digitChar_val _ (by omega)]
      omega

/-- A positive number's decimal form starts with a non-zero digit. -/
theorem decFuel_head : ∀ f n, n < f → 0 < n →
    ∃ d ds, decFuel f n = d :: ds ∧ d ≠ '0' ∧ isDigit d = true := by
  intro f
  induction f with
  | zero => intro n h; omega
  | succ f ih =>
    intro n h hp
    unfold decFuel
    split
    · rename_i h10
      exact ⟨digitChar n, [], rfl, digitChar_ne_zero n h10 (by omega), isDigit_digitChar n h10⟩
    · obtain ⟨d, ds, he, hd, hg⟩ := ih (n / 10) (by omega) (by omega)
      exact ⟨d, ds ++ [digitChar (n % 10)], by rw [he]; rfl, hd, hg⟩

theorem natToDec_zero : natToDec 0 = ['0'] := by decide

theorem natToDec_digits (n : Nat) : ∀ c ∈ natToDec n, isDigit c = true := decFuel_digits _ _

theorem decVal_natToDec (n : Nat) : decVal (natToDec n) = n := decVal_decFuel _ _ (Nat.lt_succ_self n)

theorem natToDec_ne_nil (n : Nat) : natToDec n ≠ [] := by
  unfold natToDec decFuel
  split <;> simp

/-- what may follow a number literal without being swallowed by it -/
def NumStop : Text → Prop
  | [] => True
  | c :: _ => isDigit c = false ∧ c ≠ '.' ∧ c ≠ 'e' ∧ c ≠ 'E'

theorem spanDigits_append (ds rest : Text) (hd : ∀ c ∈ ds, isDigit c = true) (hs : NumStop rest) :
    spanDigits (ds ++ rest) = (ds, rest) := by
  induction ds with
  | nil =>
    cases rest with
    | nil => rfl
    | cons c r => simp only [NumStop] at hs; simp [spanDigits, hs.1]
  | cons d ds ih =>
    have h1 : isDigit d = true := hd d (List.mem_cons_self ..)
    have h2 := ih (fun c hc => hd c (List.mem_cons_of_mem _ hc))
    simp [spanDigits, h1, h2]

theorem numFrac_stop (rest : Text) (hs : NumStop rest) : numFrac rest = some ([], rest) := by
  cases rest with
  | nil => rfl
  | cons c r => simp only [NumStop] at hs; simp [numFrac, hs.2.1]

theorem numExp_stop (rest : Text) (hs : NumStop rest) : numExp rest = some ([], rest) := by
  cases rest with
  | nil => rfl
  | cons c r => simp only [NumStop] at hs; simp [numExp, hs.2.2.1, hs.2.2.2]

theorem numUnsigned_natToDec (n : Nat) (rest : Text) (hs : NumStop rest) :
    numUnsigned (natToDec n ++ rest) = some (natToDec n, rest) := by
  by_cases h0 : n = 0
  · subst h0
    simp [natToDec_zero, numUnsigned, numInt, numFrac_stop rest hs, numExp_stop rest hs]
  · obtain ⟨d, ds, he, hd, hg⟩ := decFuel_head (n + 1) n (Nat.lt_succ_self n) (by omega)
    have hall := natToDec_digits n
    unfold natToDec at hall ⊢
    rw [he] at hall ⊢
    have hds : ∀ c ∈ ds, isDigit c = true := fun c hc => hall c (List.mem_cons_of_mem _ hc)
    simp [numUnsigned, numInt, hd, hg, spanDigits_append ds rest hds hs, numFrac_stop rest hs,
      numExp_stop rest hs]

theorem isDigit_ne {c : Char} (h : isDigit c = true) (x : Char) (hx : isDigit x = false) : c ≠ x := by
  intro e; subst e; rw [h] at hx; cases hx

theorem natToDec_head (n : Nat) : ∃ d ds, natToDec n = d :: ds ∧ isDigit d = true := by
  have hne := natToDec_ne_nil n
  have hall := natToDec_digits n
  cases h : natToDec n with
  | nil => exact absurd h hne
  | cons d ds => exact ⟨d, ds, rfl, hall d (by rw [h]; exact List.mem_cons_self ..)⟩

/-- **Integer literal round trip (lexical)**: what `Marshal` writes for an `int` is one number literal. -/
theorem numLit_renderInt (i : Int) (rest : Text) (hs : NumStop rest) :
    numLit (renderInt i ++ rest) = some (renderInt i, rest) := by
  unfold renderInt
  split
  · simp [numLit, numUnsigned_natToDec _ rest hs]
  · obtain ⟨d, ds, he, hd⟩ := natToDec_head i.natAbs
    have hne : d ≠ '-' := isDigit_ne hd '-' (by decide)
    have := numUnsigned_natToDec i.natAbs rest hs
    rw [he] at this ⊢
    simp only [List.cons_append] at this ⊢
    simp [numLit, hne, this]

/-- **Integer round trip (value)**: `ParseInt` of the literal written for `i` is `i`, for every `i`
in the int64 range. -/
theorem parseInt64_renderInt (i : Int) (hlo : -(2 ^ 63 : Int) ≤ i) (hhi : i < (2 ^ 63 : Int)) :
    parseInt64 (renderInt i) = some i := by
  unfold renderInt
  have hall := natToDec_digits i.natAbs
  have hne := natToDec_ne_nil i.natAbs
  have hv := decVal_natToDec i.natAbs
  have hall' : (natToDec i.natAbs).all isDigit = true := by
    simp only [List.all_eq_true]; exact hall
  have hemp : (natToDec i.natAbs).isEmpty = false := by
    cases h : natToDec i.natAbs with
    | nil => exact absurd h hne
    | cons _ _ => rfl
  split
  · rename_i hneg
    have hb : i.natAbs ≤ 2 ^ 63 := by omega
    simp only [parseInt64, hall', hemp, hv, Bool.not_false, Bool.and_self, Bool.true_and,
      decide_eq_true_eq, hb, if_true]
    congr 1; omega
  · rename_i hpos
    obtain ⟨d, ds, he, hd⟩ := natToDec_head i.natAbs
    have hne' : d ≠ '-' := isDigit_ne hd '-' (by decide)
    have hb : i.natAbs < 2 ^ 63 := by omega
    rw [he] at hall' hemp hv ⊢
    unfold parseInt64
    split
    · rename_i ds' heq
      exact absurd (List.cons.inj heq).1 hne'
    · simp only [hall', hemp, hv, Bool.not_false, Bool.and_self, Bool.true_and,
        decide_eq_true_eq, hb, if_true]
      congr 1; omega

/-! ### Values and flat objects -/

theorem skipWs_cons (c : Char) (r : Text) (h : isWs c = false) : skipWs (c :: r) = c :: r := by
  simp [skipWs, h]

theorem isWs_digit {c : Char} (h : isDigit c = true) : isWs c = false := by
  simp only [isWs, Bool.or_eq_false_iff, decide_eq_false_iff_not]
  refine ⟨⟨⟨?_, ?_⟩, ?_⟩, ?_⟩ <;> exact isDigit_ne h _ (by decide)

/-- the first character of a rendered integer -/
theorem renderInt_head (i : Int) : ∃ c r, renderInt i = c :: r ∧ (c = '-' ∨ isDigit c = true) := by
  unfold renderInt
  split
  · exact ⟨'-', _, rfl, Or.inl rfl⟩
  · obtain ⟨d, ds, he, hd⟩ := natToDec_head i.natAbs
    exact ⟨d, ds, he, Or.inr hd⟩

theorem value_str (f d : Nat) (s : List (Option Char)) (rest : Text) :
    value (f + 1) d (renderItems s ++ rest) = some (.str (s.map (·.getD Utf8.replacement)), rest) := by
  simp only [renderItems, List.cons_append, List.append_assoc, List.nil_append]
  rw [value.eq_def]
  simp only [parseStr_items, if_true]

theorem value_int (f d : Nat) (i : Int) (rest : Text) (hs : NumStop rest) :
    value (f + 1) d (renderInt i ++ rest) = some (.num (renderInt i), rest) := by
  obtain ⟨c, r, he, hc⟩ := renderInt_head i
  have hn := numLit_renderInt i rest hs
  rw [he] at hn ⊢
  simp only [List.cons_append] at hn ⊢
  have h1 : c ≠ '"' ∧ c ≠ '{' ∧ c ≠ '[' ∧ c ≠ 't' ∧ c ≠ 'f' ∧ c ≠ 'n' := by
    rcases hc with hc | hc
    · subst hc; decide
    · exact ⟨isDigit_ne hc _ (by decide), isDigit_ne hc _ (by decide), isDigit_ne hc _ (by decide),
        isDigit_ne hc _ (by decide), isDigit_ne hc _ (by decide), isDigit_ne hc _ (by decide)⟩
  rw [value.eq_def]
  simp only [h1.1, h1.2.1, h1.2.2.1, h1.2.2.2.1, h1.2.2.2.2.1, h1.2.2.2.2.2, if_false, hn]

theorem value_null (f d : Nat) (rest : Text) :
    value (f + 1) d ('n' :: 'u' :: 'l' :: 'l' :: rest) = some (.null, rest) := by
  rw [value.eq_def]
  simp

theorem numStop_sep (c : Char) (rest : Text) (hc : c = ',' ∨ c = '}') : NumStop (c :: rest) := by
  rcases hc with hc | hc <;> subst hc <;> simp only [NumStop] <;> decide

/-- A marshalled field value followed by `,` or `}` is read back as one value. -/
theorem value_render (v : MVal) (f d : Nat) (c : Char) (hc : c = ',' ∨ c = '}') (rest : Text) :
    value (f + 1) d (v.render ++ c :: rest) = some (v.toJson, c :: rest) := by
  cases v with
  | str s => exact value_str f d s _
  | int i => exact value_int f d i _ (numStop_sep c rest hc)
  | null => exact value_null f d _

theorem render_head (v : MVal) : ∃ h t, v.render = h :: t ∧ isWs h = false := by
  cases v with
  | str s => exact ⟨'"', _, rfl, by decide⟩
  | int i =>
    obtain ⟨c, r, he, hc⟩ := renderInt_head i
    refine ⟨c, r, he, ?_⟩
    rcases hc with hc | hc
    · subst hc; decide
    · exact isWs_digit hc
  | null => exact ⟨'n', _, rfl, by decide⟩

def toJsonKV (kv : Text × MVal) : Text × Json := (kv.1, kv.2.toJson)

theorem renderMembers_cons (k : Text) (v : MVal) (tail : List (Text × MVal)) (rest : Text) :
    renderMembers ((k, v) :: tail) ++ '}' :: rest
      = '"' :: (k.flatMap escChar ++ '"' :: ':' :: (v.render ++
          (match tail with
           | [] => '}' :: rest
           | _ :: _ => ',' :: (renderMembers tail ++ '}' :: rest)))) := by
  cases tail <;> simp [renderMembers, renderStr]

/-- The members `Marshal` writes, up to the closing brace, are read back in order. -/
theorem members_render : ∀ (kvs : List (Text × MVal)), kvs ≠ [] → ∀ (f d : Nat) (rest : Text),
    kvs.length < f →
    members f d (renderMembers kvs ++ '}' :: rest) = some (kvs.map toJsonKV, rest) := by
  intro kvs
  induction kvs with
  | nil => intro h; exact absurd rfl h
  | cons kv tail ih =>
    intro _ f d rest hf
    obtain ⟨k, v⟩ := kv
    cases f with
    | zero => omega
    | succ f =>
      cases f with
      | zero => simp only [List.length_cons] at hf; omega
      | succ f =>
        rw [renderMembers_cons, members.eq_def]
        simp only [if_true, parseStr_renderStr]
        rw [skipWs_cons ':' _ (by decide)]
        simp only [if_true]
        obtain ⟨h, t, hv, hw⟩ := render_head v
        cases tail with
        | nil =>
          have e1 : skipWs (v.render ++ '}' :: rest) = v.render ++ '}' :: rest := by
            rw [hv]; exact skipWs_cons h _ hw
          simp only [e1, value_render v f d '}' (Or.inr rfl) rest]
          rw [skipWs_cons '}' _ (by decide)]
          simp [toJsonKV]
        | cons kv2 tail2 =>
          have e1 : skipWs (v.render ++ ',' :: (renderMembers (kv2 :: tail2) ++ '}' :: rest))
              = v.render ++ ',' :: (renderMembers (kv2 :: tail2) ++ '}' :: rest) := by
            rw [hv]; exact skipWs_cons h _ hw
          simp only [e1, value_render v f d ',' (Or.inl rfl) _]
          rw [skipWs_cons ',' _ (by decide)]
          have e2 : skipWs (renderMembers (kv2 :: tail2) ++ '}' :: rest)
              = renderMembers (kv2 :: tail2) ++ '}' :: rest := by
            obtain ⟨k2, v2⟩ := kv2
            rw [renderMembers_cons]; exact skipWs_cons '"' _ (by decide)
          simp only [if_true, e2]
          rw [ih (by simp) (f + 1) d rest (by simp only [List.length_cons] at hf ⊢; omega)]
          simp [toJsonKV]

theorem renderMembers_length (kvs : List (Text × MVal)) : kvs.length ≤ (renderMembers kvs).length := by
  induction kvs with
  | nil => simp [renderMembers]
  | cons kv tail ih =>
    obtain ⟨k, v⟩ := kv
    cases tail with
    | nil => simp [renderMembers, renderStr]
    | cons kv2 t2 =>
      simp only [renderMembers, renderStr, List.length_cons, List.length_append] at ih ⊢
      omega

/-- **Object round trip**: a flat object of strings, ints and nulls, as written by `Marshal`, parses
to its members in order (every offending byte of a string replaced by U+FFFD). -/
theorem parse_object (kvs : List (Text × MVal)) :
    parse ('{' :: (renderMembers kvs ++ ['}'])) = some (.obj (kvs.map toJsonKV)) := by
  unfold parse
  rw [skipWs_cons '{' _ (by decide)]
  rw [value.eq_def]
  simp only [show ('{' = '"') = False by decide, if_false, if_true,
    show (maxDepth < 0 + 1) = False by decide]
  cases kvs with
  | nil => simp [renderMembers, skipWs_cons '}' _ (by decide), skipWs]
  | cons kv tail =>
    obtain ⟨k, v⟩ := kv
    have e : skipWs (renderMembers ((k, v) :: tail) ++ ['}'])
        = '"' :: (k.flatMap escChar ++ '"' :: ':' :: (v.render ++
          (match tail with
           | [] => ['}']
           | _ :: _ => ',' :: (renderMembers tail ++ ['}'])))) := by
      rw [renderMembers_cons]; exact skipWs_cons '"' _ (by decide)
    rw [e]
    simp only [show ('"' = '}') = False by decide, if_false]
    rw [← renderMembers_cons]
    rw [members_render ((k, v) :: tail) (by simp) _ 1 []
      (by have := renderMembers_length ((k, v) :: tail); simp only [List.length_cons, List.length_append] at this ⊢; omega)]
    simp [skipWs]

theorem parse_marshalObj (fs : List MField) :
    parse (marshalObj fs) = some (.obj ((keptFields fs).map toJsonKV)) := parse_object _

end Snowflake.Json
