import Snowflake.Model.Metrics
/-!
Helper lemmas for C19 (`Props/C19.lean`): arithmetic of `ceil8`, the serial `Inc`, and the
inductive invariant of the interleaving model of the repaired `roundedCounter.Inc`.
-/
namespace Snowflake.Metrics

/-! ### ceil8 -/

theorem ceil8_dvd (n : Nat) : 8 ∣ ceil8 n := by unfold ceil8; omega
theorem ceil8_ge (n : Nat) : n ≤ ceil8 n := by unfold ceil8; omega
theorem ceil8_lt (n : Nat) : ceil8 n < n + 8 := by unfold ceil8; omega

/-- The three requirements determine the value. -/
theorem roundedOK_iff (t v : Nat) : RoundedOK t v ↔ v = ceil8 t := by
  unfold RoundedOK ceil8; omega

theorem ceil8_succ_of_gt (n : Nat) (h : n + 1 > ceil8 n) : ceil8 (n + 1) = ceil8 n + 8 := by
  unfold ceil8 at *; omega

theorem ceil8_succ_of_le (n : Nat) (h : ¬ n + 1 > ceil8 n) : ceil8 (n + 1) = ceil8 n := by
  unfold ceil8 at *; omega

/-! ### serial Inc -/

theorem inc_exact (n : Nat) : (⟨n, ceil8 n⟩ : RC).inc = ⟨n + 1, ceil8 (n + 1)⟩ := by
  unfold RC.inc incGuard incStep
  by_cases h : n + 1 > ceil8 n
  · simp [h, ceil8_succ_of_gt n h]
  · simp [h, ceil8_succ_of_le n h]

theorem incN_exact (k : Nat) : ∀ n, RC.incN k ⟨n, ceil8 n⟩ = ⟨n + k, ceil8 (n + k)⟩ := by
  induction k with
  | zero => intro n; rfl
  | succ k ih =>
    intro n
    simp only [RC.incN, inc_exact, ih]
    have : n + 1 + k = n + (k + 1) := by omega
    rw [this]

/-! ### interleaving model: invariant of the repaired body -/

@[simp] theorem upd_same {α : Type} {n : Nat} (f : Fin n → α) (t : Fin n) (v : α) : upd f t v t = v := by
  simp [upd]

theorem upd_other {α : Type} {n : Nat} (f : Fin n → α) (t u : Fin n) (v : α) (h : u ≠ t) :
    upd f t v u = f u := by
  simp [upd, h]

/-- The data relation while thread `h` holds the mutex, by its program counter. -/
def HolderRel (total value done : Nat) : Pc → Prop
  | .idle => False
  | .locked => value = ceil8 total ∧ total = done
  | .added => value = ceil8 (total - 1) ∧ total = done + 1
  | .readTotal tt => tt = total ∧ value = ceil8 (total - 1) ∧ total = done + 1
  | .willAdd => value = ceil8 (total - 1) ∧ total > value ∧ total = done + 1
  | .unlocking => value = ceil8 total ∧ total = done + 1

/-- Inductive invariant of the repaired model: only the mutex holder is inside `Inc`, and the
shared words are related as the holder's program point dictates. -/
structure Inv {n : Nat} (s : St n) : Prop where
  excl : ∀ t, s.pc t ≠ .idle → s.lock = some t
  data : match s.lock with
    | none => s.value = ceil8 s.total ∧ s.total = s.done
    | some h => HolderRel s.total s.value s.done (s.pc h)

theorem inv_init (n : Nat) : Inv (St.init n) := by
  constructor
  · intro t h; simp [St.init] at h
  · simp [St.init, ceil8]

theorem holder_data {n : Nat} {s : St n} {t : Fin n} (hinv : Inv s) (hl : s.lock = some t) :
    HolderRel s.total s.value s.done (s.pc t) := by
  have hd := hinv.data
  rw [hl] at hd
  exact hd

theorem others_idle {n : Nat} {s : St n} {t : Fin n} (hinv : Inv s) (hl : s.lock = some t) :
    ∀ u, u ≠ t → s.pc u = .idle := by
  intro u hut
  apply Classical.byContradiction
  intro hne
  have := hinv.excl u hne
  rw [hl] at this
  exact hut (Option.some.inj this).symm

/-- Build the invariant for a state whose mutex is held by `t`. -/
theorem inv_of_holder {n : Nat} {s' : St n} (t : Fin n) (hl : s'.lock = some t)
    (hex : ∀ u, u ≠ t → s'.pc u = .idle)
    (hrel : HolderRel s'.total s'.value s'.done (s'.pc t)) : Inv s' := by
  constructor
  · intro u hu
    by_cases hut : u = t
    · rw [hut]; exact hl
    · exact absurd (hex u hut) hu
  · rw [hl]; exact hrel

/-- Build the invariant for a state whose mutex is free. -/
theorem inv_of_free {n : Nat} {s' : St n} (hl : s'.lock = none) (hex : ∀ u, s'.pc u = .idle)
    (hrel : s'.value = ceil8 s'.total ∧ s'.total = s'.done) : Inv s' := by
  constructor
  · intro u hu; exact absurd (hex u) hu
  · rw [hl]; exact hrel

theorem pred_succ_ceil {a : Nat} (h : 0 < a) : a - 1 + 1 = a := by omega

theorem inv_step {n : Nat} (s : St n) (t : Fin n) (hinv : Inv s) : Inv (step true s t) := by
  unfold step
  cases hpc : s.pc t with
  | idle =>
    simp only [if_true]
    cases hl : s.lock with
    | some h => simpa using hinv
    | none =>
      have hd := hinv.data
      rw [hl] at hd
      have hidle : ∀ u, s.pc u = .idle := by
        intro u
        apply Classical.byContradiction
        intro hne
        have := hinv.excl u hne
        rw [hl] at this
        cases this
      refine inv_of_holder t rfl (fun u hut => ?_) ?_
      · simp only [upd_other _ _ _ _ hut]; exact hidle u
      · simp only [upd_same, HolderRel]; exact hd
  | locked =>
    have hl : s.lock = some t := hinv.excl t (by rw [hpc]; simp)
    have hd := holder_data hinv hl
    rw [hpc] at hd; simp only [HolderRel] at hd
    refine inv_of_holder t hl (fun u hut => ?_) ?_
    · simp only [upd_other _ _ _ _ hut]; exact others_idle hinv hl u hut
    · simp only [upd_same, HolderRel, Nat.add_sub_cancel]; omega
  | added =>
    have hl : s.lock = some t := hinv.excl t (by rw [hpc]; simp)
    have hd := holder_data hinv hl
    rw [hpc] at hd; simp only [HolderRel] at hd
    refine inv_of_holder t hl (fun u hut => ?_) ?_
    · simp only [upd_other _ _ _ _ hut]; exact others_idle hinv hl u hut
    · simp only [upd_same, HolderRel]; exact ⟨trivial, hd⟩
  | readTotal tt =>
    have hl : s.lock = some t := hinv.excl t (by rw [hpc]; simp)
    have hd := holder_data hinv hl
    rw [hpc] at hd; simp only [HolderRel] at hd
    obtain ⟨htt, hv, hdone⟩ := hd
    cases hg : incGuard tt s.value with
    | true =>
      simp only [hg, if_true]
      refine inv_of_holder t hl (fun u hut => ?_) ?_
      · simp only [upd_other _ _ _ _ hut]; exact others_idle hinv hl u hut
      · simp only [upd_same, HolderRel]
        simp only [incGuard, decide_eq_true_eq] at hg
        omega
    | false =>
      simp only [hg, finish, if_true, Bool.false_eq_true, if_false]
      refine inv_of_holder t hl (fun u hut => ?_) ?_
      · simp only [upd_other _ _ _ _ hut]; exact others_idle hinv hl u hut
      · simp only [upd_same, HolderRel]
        simp only [incGuard, decide_eq_false_iff_not] at hg
        have h1 : s.total - 1 + 1 = s.total := by omega
        have h2 := ceil8_succ_of_le (s.total - 1) (by rw [h1, ← hv]; omega)
        rw [h1] at h2
        omega
  | willAdd =>
    have hl : s.lock = some t := hinv.excl t (by rw [hpc]; simp)
    have hd := holder_data hinv hl
    rw [hpc] at hd; simp only [HolderRel] at hd
    obtain ⟨hv, hgt, hdone⟩ := hd
    simp only [finish, if_true]
    refine inv_of_holder t hl (fun u hut => ?_) ?_
    · simp only [upd_other _ _ _ _ hut]; exact others_idle hinv hl u hut
    · simp only [upd_same, HolderRel, incStep]
      have h1 : s.total - 1 + 1 = s.total := by omega
      have h2 := ceil8_succ_of_gt (s.total - 1) (by rw [h1, ← hv]; omega)
      rw [h1] at h2
      omega
  | unlocking =>
    have hl : s.lock = some t := hinv.excl t (by rw [hpc]; simp)
    have hd := holder_data hinv hl
    rw [hpc] at hd; simp only [HolderRel] at hd
    refine inv_of_free rfl (fun u => ?_) ?_
    · by_cases hut : u = t
      · rw [hut]; simp only [upd_same]
      · simp only [upd_other _ _ _ _ hut]; exact others_idle hinv hl u hut
    · simp only; omega

theorem inv_run {n : Nat} (sched : List (Fin n)) : ∀ s : St n, Inv s → Inv (run true sched s) := by
  induction sched with
  | nil => intro s h; exact h
  | cons t ts ih => intro s h; exact ih _ (inv_step s t h)

theorem quiescent_lock_free {n : Nat} {s : St n} (hinv : Inv s) (hq : Quiescent s) : s.lock = none := by
  cases hl : s.lock with
  | none => rfl
  | some h =>
    have hd := holder_data hinv hl
    rw [hq h] at hd
    exact hd.elim

/-! ### event counters -/

/-- Number of requests in `reqs` that count for log line `k`. -/
def cnt (k : Nat) (reqs : List Req) : Nat := (reqs.filter (hits k)).length

theorem cnt_nil (k : Nat) : cnt k [] = 0 := rfl

theorem cnt_cons (k : Nat) (r : Req) (rs : List Req) :
    cnt k (r :: rs) = (if hits k r then 1 else 0) + cnt k rs := by
  unfold cnt
  by_cases h : hits k r = true
  · simp [h]; omega
  · simp [h]

/-- The true counts for the eight log lines, in the order of `Counters.toList`. -/
def trueCounts (reqs : List Req) : List Nat :=
  [cnt 0 reqs, cnt 1 reqs, cnt 2 reqs, cnt 3 reqs, cnt 4 reqs, cnt 5 reqs, cnt 6 reqs, cnt 7 reqs]

theorem foldl_apply_counts (reqs : List Req) : ∀ c : Counters,
    (reqs.foldl Counters.apply c).toList =
      [c.proxyIdle + cnt 0 reqs, c.pollWithRelayURL + cnt 1 reqs, c.pollWithoutRelayURL + cnt 2 reqs,
       c.pollRejected + cnt 3 reqs, c.clientDenied + cnt 4 reqs, c.clientRestrictedDenied + cnt 5 reqs,
       c.clientUnrestrictedDenied + cnt 6 reqs, c.clientMatch + cnt 7 reqs] := by
  induction reqs with
  | nil => intro c; simp [Counters.toList, cnt_nil]
  | cons r rs ih =>
    intro c
    rw [List.foldl_cons, ih]
    simp only [cnt_cons]
    cases r with
    | poll ext out =>
      cases ext <;> cases out <;> simp [Counters.apply, hits] <;> omega
    | client unr out =>
      cases unr <;> cases out <;> simp [Counters.apply, hits] <;> omega

theorem foldl_op_sinceZero (ops : List Op) : ∀ acc : List Req,
    ops.foldl Counters.op (acc.foldl Counters.apply Counters.zero)
      = (sinceZero ops acc).foldl Counters.apply Counters.zero := by
  induction ops with
  | nil => intro acc; rfl
  | cons o os ih =>
    intro acc
    cases o with
    | ev r =>
      simp only [List.foldl_cons, Counters.op, sinceZero]
      rw [← ih (acc ++ [r]), List.foldl_append]
      rfl
    | zero =>
      simp only [List.foldl_cons, Counters.op, sinceZero]
      exact ih []

/-! ### duplicate-free insertion / merge -/

theorem mem_insertNew {α : Type} [DecidableEq α] (a x : α) (l : List α) :
    x ∈ insertNew a l ↔ x = a ∨ x ∈ l := by
  unfold insertNew
  by_cases h : a ∈ l
  · simp only [h, if_true]
    constructor
    · intro hx; exact Or.inr hx
    · intro hx; cases hx with
      | inl e => rw [e]; exact h
      | inr hx => exact hx
  · simp only [h, if_false, List.mem_append, List.mem_singleton]
    constructor
    · intro hx; exact hx.symm
    · intro hx; exact hx.symm

theorem nodup_append_singleton {α : Type} (a : α) (l : List α) (hl : l.Nodup) (ha : a ∉ l) :
    (l ++ [a]).Nodup := by
  rw [List.nodup_append]
  refine ⟨hl, by simp, ?_⟩
  intro x hx y hy
  rw [List.mem_singleton] at hy
  intro e
  rw [e, hy] at hx
  exact ha hx

theorem nodup_insertNew {α : Type} [DecidableEq α] (a : α) (l : List α) (hl : l.Nodup) :
    (insertNew a l).Nodup := by
  unfold insertNew
  by_cases h : a ∈ l
  · simp only [h, if_true]; exact hl
  · simp only [h, if_false]; exact nodup_append_singleton a l hl h

theorem mem_merge (vals : List Nat) : ∀ (acc : List Nat) (x : Nat),
    x ∈ merge acc vals ↔ x ∈ acc ∨ x ∈ vals := by
  induction vals with
  | nil => intro acc x; simp [merge]
  | cons v vs ih =>
    intro acc x
    have : merge acc (v :: vs) = merge (insertNew v acc) vs := rfl
    rw [this, ih, mem_insertNew, List.mem_cons]
    constructor
    · rintro ((h | h) | h)
      · exact Or.inr (Or.inl h)
      · exact Or.inl h
      · exact Or.inr (Or.inr h)
    · rintro (h | h | h)
      · exact Or.inl (Or.inr h)
      · exact Or.inl (Or.inl h)
      · exact Or.inr h

theorem nodup_merge (vals : List Nat) : ∀ acc : List Nat, acc.Nodup → (merge acc vals).Nodup := by
  induction vals with
  | nil => intro acc h; exact h
  | cons v vs ih =>
    intro acc h
    have : merge acc (v :: vs) = merge (insertNew v acc) vs := rfl
    rw [this]
    exact ih _ (nodup_insertNew v acc h)

/-! ### reader -/

theorem skipped_iff (frm to : Nat) (c : Chunk) : c.skipped frm to = true ↔ ¬ c.inWindow frm to := by
  unfold Chunk.skipped skipCond Chunk.inWindow
  simp only [Bool.or_eq_true, Bool.and_eq_true, decide_eq_true_eq, Bool.not_eq_true', beq_eq_false_iff_ne]
  omega

/-- The chunks the specification selects. -/
def selected (frm to : Nat) (journal : List Chunk) : List Chunk :=
  journal.filter (fun c => decide (c.inWindow frm to))

theorem countLoop_spec (frm to : Nat) (cs : List Chunk) : ∀ (acc : List Nat) (k : Nat),
    (countLoop frm to cs (acc, k)).2 = k + (selected frm to cs).length
    ∧ (acc.Nodup → (countLoop frm to cs (acc, k)).1.Nodup)
    ∧ (∀ x, x ∈ (countLoop frm to cs (acc, k)).1 ↔ x ∈ acc ∨ ∃ c ∈ cs, c.inWindow frm to ∧ x ∈ c.vals) := by
  induction cs with
  | nil => intro acc k; simp [countLoop, selected]
  | cons c cs ih =>
    intro acc k
    by_cases hs : c.skipped frm to = true
    · have hw : ¬ c.inWindow frm to := (skipped_iff frm to c).1 hs
      have hloop : countLoop frm to (c :: cs) (acc, k) = countLoop frm to cs (acc, k) := by
        simp [countLoop, hs]
      rw [hloop]
      obtain ⟨h1, h2, h3⟩ := ih acc k
      refine ⟨?_, h2, ?_⟩
      · rw [h1]; simp [selected, hw]
      · intro x
        rw [h3 x]
        constructor
        · rintro (h | ⟨c', hc', hw', hx⟩)
          · exact Or.inl h
          · exact Or.inr ⟨c', List.mem_cons_of_mem _ hc', hw', hx⟩
        · rintro (h | ⟨c', hc', hw', hx⟩)
          · exact Or.inl h
          · rw [List.mem_cons] at hc'
            cases hc' with
            | inl e => rw [e] at hw'; exact absurd hw' hw
            | inr hc' => exact Or.inr ⟨c', hc', hw', hx⟩
    · have hw : c.inWindow frm to := by
        apply Classical.byContradiction
        intro hn
        exact hs ((skipped_iff frm to c).2 hn)
      have hloop : countLoop frm to (c :: cs) (acc, k) = countLoop frm to cs (merge acc c.vals, k + 1) := by
        simp [countLoop, hs]
      rw [hloop]
      obtain ⟨h1, h2, h3⟩ := ih (merge acc c.vals) (k + 1)
      refine ⟨?_, fun hn => h2 (nodup_merge _ _ hn), ?_⟩
      · rw [h1]; simp [selected, hw]; omega
      · intro x
        rw [h3 x, mem_merge]
        constructor
        · rintro ((h | h) | ⟨c', hc', hw', hx⟩)
          · exact Or.inl h
          · exact Or.inr ⟨c, List.mem_cons_self .., hw, h⟩
          · exact Or.inr ⟨c', List.mem_cons_of_mem _ hc', hw', hx⟩
        · rintro (h | ⟨c', hc', hw', hx⟩)
          · exact Or.inl (Or.inl h)
          · rw [List.mem_cons] at hc'
            cases hc' with
            | inl e => rw [e] at hx; exact Or.inl (Or.inr hx)
            | inr hc' => exact Or.inr ⟨c', hc', hw', hx⟩

/-! ### scanner -/

theorem scan_ok (limit : Nat) (lines : List Line) :
    (scan limit lines).2 = false → (scan limit lines).1 = lines.map (·.chunk) := by
  induction lines with
  | nil => intro _; rfl
  | cons l ls ih =>
    unfold scan
    by_cases h : l.len > limit
    · simp [h]
    · simp only [h, if_false, List.map_cons]
      intro h2
      rw [ih h2]

theorem scan_err (limit : Nat) (lines : List Line) :
    (scan limit lines).2 = true ↔ ∃ l ∈ lines, l.len > limit := by
  induction lines with
  | nil => simp [scan]
  | cons l ls ih =>
    unfold scan
    by_cases h : l.len > limit
    · simp only [h, if_true, true_iff]
      exact ⟨l, List.mem_cons_self .., h⟩
    · simp only [h, if_false, ih, List.mem_cons]
      constructor
      · rintro ⟨x, hx, hl⟩; exact ⟨x, Or.inr hx, hl⟩
      · rintro ⟨x, hx | hx, hl⟩
        · rw [hx] at hl; exact absurd hl h
        · exact ⟨x, hx, hl⟩

/-! ### writer -/

theorem run_mask {α : Type} (m : α → Nat) (interval : Nat) (ops : List (WOp α)) : ∀ w : Writer,
    Writer.run m interval w ops = Writer.run id interval w (ops.map (WOp.mask m)) := by
  induction ops with
  | nil => intro w; rfl
  | cons o os ih =>
    intro w
    simp only [Writer.run, List.map_cons, List.foldl_cons] at ih ⊢
    rw [ih]
    cases o <;> rfl

/-- Every chunk in the journal, and the current sink, is duplicate-free. -/
def Writer.Clean (w : Writer) : Prop := w.cur.Nodup ∧ ∀ c ∈ w.journal, c.vals.Nodup

theorem clean_flush (w : Writer) (now : Nat) (h : w.Clean) : (w.flush now).Clean := by
  refine ⟨List.nodup_nil, ?_⟩
  intro c hc
  simp only [Writer.flush, List.mem_append, List.mem_singleton] at hc
  cases hc with
  | inl hc => exact h.2 c hc
  | inr e => rw [e]; exact h.1

theorem clean_add (interval : Nat) (w : Writer) (now v : Nat) (h : w.Clean) : (w.add interval now v).Clean := by
  unfold Writer.add
  by_cases hc : w.last + interval < now
  · simp only [hc, if_true]
    have := clean_flush w now h
    exact ⟨nodup_insertNew _ _ this.1, this.2⟩
  · simp only [hc, if_false]
    exact ⟨nodup_insertNew _ _ h.1, h.2⟩

theorem clean_run {α : Type} (m : α → Nat) (interval : Nat) (ops : List (WOp α)) : ∀ w : Writer,
    w.Clean → (Writer.run m interval w ops).Clean := by
  induction ops with
  | nil => intro w h; exact h
  | cons o os ih =>
    intro w h
    simp only [Writer.run, List.foldl_cons] at ih ⊢
    apply ih
    cases o with
    | add now ip => exact clean_add interval w now (m ip) h
    | flush now => exact clean_flush w now h

/-! ### unique-address sets -/

/-- What is known about the sets after the updates `us` (in this period). -/
structure StatsInv (geo : Bool) (s : Stats) (us : List Upd) : Prop where
  nodup : s.seen.Nodup
  mem : ∀ b a, (b, a) ∈ s.seen ↔ ∃ u ∈ us, bucket u.ty = b ∧ u.addr = a
  ccs : geo = true → s.ccs.length = s.seen.length
  natNodup : s.natR.Nodup ∧ s.natU.Nodup ∧ s.natX.Nodup
  natR : ∀ a ∈ s.natR, ∃ u ∈ us, u.addr = a ∧ u.nat = natRestricted
  natU : ∀ a ∈ s.natU, ∃ u ∈ us, u.addr = a ∧ u.nat = natUnrestricted
  natX : ∀ a ∈ s.natX, ∃ u ∈ us, u.addr = a ∧ u.nat ≠ natRestricted ∧ u.nat ≠ natUnrestricted
  natCover : geo = true → ∀ b a, (b, a) ∈ s.seen → a ∈ s.natR ∨ a ∈ s.natU ∨ a ∈ s.natX

theorem statsInv_empty (geo : Bool) : StatsInv geo Stats.empty [] := by
  constructor <;> simp [Stats.empty]

theorem ex_mono {us : List Upd} {u : Upd} {P : Upd → Prop} (h : ∃ x ∈ us, P x) : ∃ x ∈ us ++ [u], P x := by
  obtain ⟨x, hx, hp⟩ := h
  exact ⟨x, List.mem_append_left _ hx, hp⟩

theorem ex_last {us : List Upd} {u : Upd} {P : Upd → Prop} (h : P u) : ∃ x ∈ us ++ [u], P x :=
  ⟨u, by simp, h⟩

theorem mem_step {s : Stats} {us : List Upd} {u : Upd}
    (hm : ∀ b a, (b, a) ∈ s.seen ↔ ∃ x ∈ us, bucket x.ty = b ∧ x.addr = a) :
    ∀ b a, (b, a) ∈ s.seen ++ [(bucket u.ty, u.addr)] ↔ ∃ x ∈ us ++ [u], bucket x.ty = b ∧ x.addr = a := by
  intro b a
  rw [List.mem_append, hm, List.mem_singleton]
  constructor
  · rintro (h | h)
    · exact ex_mono h
    · rw [Prod.mk.injEq] at h
      exact ex_last ⟨h.1.symm, h.2.symm⟩
  · rintro ⟨x, hx, hb, ha⟩
    rw [List.mem_append, List.mem_singleton] at hx
    cases hx with
    | inl hx => exact Or.inl ⟨x, hx, hb, ha⟩
    | inr e => rw [e] at hb ha; rw [hb, ha]; exact Or.inr rfl

theorem statsInv_update (geo : Bool) (s : Stats) (us : List Upd) (u : Upd) (h : StatsInv geo s us) :
    StatsInv geo (s.update geo u) (us ++ [u]) := by
  unfold Stats.update
  by_cases hs : (bucket u.ty, u.addr) ∈ s.seen
  · simp only [hs, if_true]
    refine ⟨h.nodup, ?_, h.ccs, h.natNodup, fun a ha => ex_mono (h.natR a ha), fun a ha => ex_mono (h.natU a ha),
      fun a ha => ex_mono (h.natX a ha), h.natCover⟩
    intro b a
    rw [h.mem]
    constructor
    · exact ex_mono
    · rintro ⟨x, hx, hb, ha⟩
      rw [List.mem_append, List.mem_singleton] at hx
      cases hx with
      | inl hx => exact ⟨x, hx, hb, ha⟩
      | inr e => rw [e] at hb ha; rw [← hb, ← ha]; exact (h.mem _ _).1 hs
  · simp only [hs, if_false]
    have hnd := nodup_append_singleton _ _ h.nodup hs
    cases geo with
    | false =>
      simp only [Bool.not_false, if_true]
      exact ⟨hnd, mem_step h.mem, by simp, h.natNodup, fun a ha => ex_mono (h.natR a ha),
        fun a ha => ex_mono (h.natU a ha), fun a ha => ex_mono (h.natX a ha), by simp⟩
    | true =>
      simp only [Bool.not_true, Bool.false_eq_true, if_false]
      have hcc : (s.ccs ++ [u.cc]).length = (s.seen ++ [(bucket u.ty, u.addr)]).length := by
        simp only [List.length_append, List.length_singleton, h.ccs rfl]
      have hcov (R U X : List Nat) (hR : ∀ a, a ∈ s.natR → a ∈ R) (hU : ∀ a, a ∈ s.natU → a ∈ U)
          (hX : ∀ a, a ∈ s.natX → a ∈ X) (hnew : u.addr ∈ R ∨ u.addr ∈ U ∨ u.addr ∈ X) :
          ∀ b a, (b, a) ∈ s.seen ++ [(bucket u.ty, u.addr)] → a ∈ R ∨ a ∈ U ∨ a ∈ X := by
        intro b a hba
        rw [List.mem_append, List.mem_singleton] at hba
        cases hba with
        | inl hba =>
          rcases h.natCover rfl b a hba with h1 | h1 | h1
          · exact Or.inl (hR a h1)
          · exact Or.inr (Or.inl (hU a h1))
          · exact Or.inr (Or.inr (hX a h1))
        | inr e => rw [Prod.mk.injEq] at e; rw [e.2]; exact hnew
      by_cases hr : u.nat = natRestricted
      · simp only [hr, if_true]
        refine ⟨hnd, mem_step h.mem, fun _ => hcc, ⟨nodup_insertNew _ _ h.natNodup.1, h.natNodup.2⟩, ?_,
          fun a ha => ex_mono (h.natU a ha), fun a ha => ex_mono (h.natX a ha), fun _ => ?_⟩
        · intro a ha
          rw [mem_insertNew] at ha
          cases ha with
          | inl e => exact ex_last ⟨e.symm, hr⟩
          | inr ha => exact ex_mono (h.natR a ha)
        · exact hcov _ _ _ (fun a ha => (mem_insertNew _ _ _).2 (Or.inr ha)) (fun _ ha => ha) (fun _ ha => ha)
            (Or.inl ((mem_insertNew _ _ _).2 (Or.inl rfl)))
      · simp only [hr, if_false]
        by_cases hu : u.nat = natUnrestricted
        · simp only [hu, if_true]
          refine ⟨hnd, mem_step h.mem, fun _ => hcc,
            ⟨h.natNodup.1, nodup_insertNew _ _ h.natNodup.2.1, h.natNodup.2.2⟩,
            fun a ha => ex_mono (h.natR a ha), ?_, fun a ha => ex_mono (h.natX a ha), fun _ => ?_⟩
          · intro a ha
            rw [mem_insertNew] at ha
            cases ha with
            | inl e => exact ex_last ⟨e.symm, hu⟩
            | inr ha => exact ex_mono (h.natU a ha)
          · exact hcov _ _ _ (fun _ ha => ha) (fun a ha => (mem_insertNew _ _ _).2 (Or.inr ha)) (fun _ ha => ha)
              (Or.inr (Or.inl ((mem_insertNew _ _ _).2 (Or.inl rfl))))
        · simp only [hu, if_false]
          refine ⟨hnd, mem_step h.mem, fun _ => hcc,
            ⟨h.natNodup.1, h.natNodup.2.1, nodup_insertNew _ _ h.natNodup.2.2⟩,
            fun a ha => ex_mono (h.natR a ha), fun a ha => ex_mono (h.natU a ha), ?_, fun _ => ?_⟩
          · intro a ha
            rw [mem_insertNew] at ha
            cases ha with
            | inl e => exact ex_last ⟨e.symm, hr, hu⟩
            | inr ha => exact ex_mono (h.natX a ha)
          · exact hcov _ _ _ (fun _ ha => ha) (fun _ ha => ha) (fun a ha => (mem_insertNew _ _ _).2 (Or.inr ha))
              (Or.inr (Or.inr ((mem_insertNew _ _ _).2 (Or.inl rfl))))

theorem statsInv_foldl (geo : Bool) (us : List Upd) : ∀ (s : Stats) (pre : List Upd),
    StatsInv geo s pre → StatsInv geo (us.foldl (Stats.update geo) s) (pre ++ us) := by
  induction us with
  | nil => intro s pre h; simpa using h
  | cons u us ih =>
    intro s pre h
    have := ih _ _ (statsInv_update geo s pre u h)
    simpa [List.append_assoc] using this

theorem statsInv_run (geo : Bool) (us : List Upd) : StatsInv geo (Stats.run geo us) us := by
  have := statsInv_foldl geo us Stats.empty [] (statsInv_empty geo)
  simpa [Stats.run] using this

theorem bucket_cases (ty : Str) : bucket ty = none ∨ (bucket ty = some ty ∧ ty ∈ knownProxyTypes) := by
  unfold bucket
  by_cases h : ty ∈ knownProxyTypes
  · simp [h]
  · simp [h]

/-- Buckets that can occur: `none` or a known type. -/
def BucketOK (b : Option Str) : Prop := b = none ∨ ∃ t ∈ knownProxyTypes, b = some t

def typeLen (l : List (Option Str × Nat)) (b : Option Str) : Nat := (l.filter (fun p => p.1 = b)).length

theorem typeLen_cons (p : Option Str × Nat) (l : List (Option Str × Nat)) (b : Option Str) :
    typeLen (p :: l) b = (if p.1 = b then 1 else 0) + typeLen l b := by
  unfold typeLen
  by_cases h : p.1 = b
  · simp [h]; omega
  · simp [h]

theorem total_list (l : List (Option Str × Nat)) (h : ∀ p ∈ l, BucketOK p.1) :
    typeLen l none + (knownProxyTypes.map (fun t => typeLen l (some t))).sum = l.length := by
  induction l with
  | nil => simp [typeLen, knownProxyTypes]
  | cons p l ih =>
    have ih := ih (fun q hq => h q (List.mem_cons_of_mem _ hq))
    have hp := h p (List.mem_cons_self ..)
    simp only [knownProxyTypes, List.map_cons, List.map_nil, List.sum_cons, List.sum_nil, typeLen_cons,
      List.length_cons] at ih ⊢
    rcases hp with hp | ⟨t, ht, hp⟩
    · simp only [hp, if_true]
      simp
      omega
    · simp only [knownProxyTypes, List.mem_cons, List.not_mem_nil, or_false] at ht
      rcases ht with e | e | e | e <;> (subst e; rw [hp]; simp (decide := true); omega)

theorem statsInv_bucketOK {geo : Bool} {s : Stats} {us : List Upd} (h : StatsInv geo s us) :
    ∀ p ∈ s.seen, BucketOK p.1 := by
  intro p hp
  obtain ⟨u, _, hb, _⟩ := (h.mem p.1 p.2).1 hp
  rw [← hb]
  rcases bucket_cases u.ty with h0 | ⟨h1, h2⟩
  · exact Or.inl h0
  · exact Or.inr ⟨u.ty, h2, h1⟩

end Snowflake.Metrics
