import Snowflake.Model.Peers
/-!
Invariants of the peer-pool LTS (`Model/Peers.lean`).

* `Safe` — holds in every reachable state for *every* `Fix` (pinned and repaired alike).
* `Fixed` — additional facts of the repaired skeleton (`Fix.all`): no panic, `sync.Once` bookkeeping.
-/
namespace Snowflake.Peers
open Snowflake.TotalMap

/-- the program counters at which a `Collect` goroutine holds `collectLock` -/
def CPC.holds : CPC → Bool
  | .locked => true | .catching => true | .sending _ => true | _ => false

/-- `Catch` in flight or peer not yet handed over -/
def CPC.busy : CPC → Bool
  | .catching => true | .sending _ => true | _ => false

structure Safe (max : Nat) (s : St) : Prop where
  len : s.active.length ≤ max
  room : ∀ c, s.col c = .catching → s.active.length < max
  lockC : ∀ c, (s.col c).holds = true → s.lock = some (.col c)
  lockE : ∀ e, s.ends e = .locked → s.lock = some (.fin e)
  ownC : ∀ c, s.lock = some (.col c) → (s.col c).holds = true
  ownE : ∀ e, s.lock = some (.fin e) → s.ends e = .locked
  tracked : ∀ p, p < s.next → s.closedP p = false → p ∈ s.active
  handed : ∀ x ∈ s.handed, x.2 = false
  meltE : ∀ e, (s.ends e = .wantLock ∨ s.ends e = .locked ∨ s.ends e = .done) → s.melt = true
  doneMelt : s.endDone = true → s.melt = true
  doneChan : s.endDone = true → s.chanClosed = true
  doneActive : s.endDone = true → s.active = []
  doneClosed : s.endDone = true → ∀ p, p < s.next → s.closedP p = true
  doneBusy : s.endDone = true → ∀ c, (s.col c).busy = false
  chanDone : s.chanClosed = true → s.endDone = true
  endsDone : ∀ e, s.ends e = .done → s.endDone = true
  onceDone : s.once = .complete → s.endDone = true

theorem safe_init (max : Nat) : Safe max init := by
  constructor <;> simp [init, CPC.holds, CPC.busy]

theorem purge_length_le (cl : Nat → Bool) (a : List Nat) : (purge cl a).length ≤ a.length := by
  unfold purge; exact List.length_filter_le _ _

theorem mem_purge (cl : Nat → Bool) (a : List Nat) (p : Nat) : p ∈ purge cl a ↔ p ∈ a ∧ cl p = false := by
  simp [purge]

theorem busy_holds (pc : CPC) (h : pc.busy = true) : pc.holds = true := by
  cases pc <;> simp_all [CPC.busy, CPC.holds]


/-- Push the `Safe` bundle through one label: unfold `step`, split its guards, and close every
conjunct with `simp_all` / `grind` (the residual facts are the purge lemmas and "busy ⇒ holds"). -/
syntax "safe_auto " ident ident : tactic
set_option hygiene false in
macro_rules
  | `(tactic| safe_auto $hi $hs) => `(tactic| (
      obtain ⟨h1, h2, h3, h4, h5, h6, h7, h8, h9, h10, h11, h12, h13, h14, h15, h16, h17⟩ := $hi
      have hp := purge_length_le s.closedP s.active
      have hm := mem_purge s.closedP s.active
      have hn : s.active = [] → purge s.closedP s.active = [] := fun h => by simp [h, purge]
      have hb : ∀ c, (s.col c).busy = true → s.lock = some (.col c) := fun c h => h3 c (busy_holds _ h)
      simp only [step] at $hs:ident
      (repeat' split at $hs:ident) <;> (try cases $hs:ident) <;>
      constructor <;> (try simp only []) <;> intros <;>
      grind [upd, CPC.holds, CPC.busy]))

theorem safe_cCall (fx : Fix) (max : Nat) (s s' : St) (c : Nat) (hi : Safe max s)
    (hs : step fx max s (.cCall c) = some s') : Safe max s' := by
  safe_auto hi hs

theorem safe_cLock (fx : Fix) (max : Nat) (s s' : St) (c : Nat) (hi : Safe max s)
    (hs : step fx max s (.cLock c) = some s') : Safe max s' := by
  safe_auto hi hs

theorem safe_cCheck (fx : Fix) (max : Nat) (s s' : St) (c : Nat) (hi : Safe max s)
    (hs : step fx max s (.cCheck c) = some s') : Safe max s' := by
  safe_auto hi hs

theorem safe_cCatch (fx : Fix) (max : Nat) (s s' : St) (c : Nat) (e : CatchEnv) (hi : Safe max s)
    (hs : step fx max s (.cCatch c e) = some s') : Safe max s' := by
  safe_auto hi hs

theorem safe_cSend (fx : Fix) (max : Nat) (s s' : St) (c : Nat) (hi : Safe max s)
    (hs : step fx max s (.cSend c) = some s') : Safe max s' := by
  safe_auto hi hs

theorem safe_cMeltArm (fx : Fix) (max : Nat) (s s' : St) (c : Nat) (hi : Safe max s)
    (hs : step fx max s (.cMeltArm c) = some s') : Safe max s' := by
  safe_auto hi hs

theorem safe_lTimer (fx : Fix) (max : Nat) (s s' : St) (c : Nat) (hi : Safe max s)
    (hs : step fx max s (.lTimer c) = some s') : Safe max s' := by
  safe_auto hi hs

theorem safe_lMelted (fx : Fix) (max : Nat) (s s' : St) (c : Nat) (hi : Safe max s)
    (hs : step fx max s (.lMelted c) = some s') : Safe max s' := by
  safe_auto hi hs

theorem safe_pCall (fx : Fix) (max : Nat) (s s' : St) (q : Nat) (hi : Safe max s)
    (hs : step fx max s (.pCall q) = some s') : Safe max s' := by
  safe_auto hi hs

theorem safe_pRecv (fx : Fix) (max : Nat) (s s' : St) (q : Nat) (hi : Safe max s)
    (hs : step fx max s (.pRecv q) = some s') : Safe max s' := by
  safe_auto hi hs

theorem safe_pCheck (fx : Fix) (max : Nat) (s s' : St) (q : Nat) (hi : Safe max s)
    (hs : step fx max s (.pCheck q) = some s') : Safe max s' := by
  safe_auto hi hs

theorem safe_pAgain (fx : Fix) (max : Nat) (s s' : St) (q : Nat) (hi : Safe max s)
    (hs : step fx max s (.pAgain q) = some s') : Safe max s' := by
  safe_auto hi hs

theorem safe_eCall (fx : Fix) (max : Nat) (s s' : St) (e : Nat) (hi : Safe max s)
    (hs : step fx max s (.eCall e) = some s') : Safe max s' := by
  safe_auto hi hs

theorem safe_eMelt (fx : Fix) (max : Nat) (s s' : St) (e : Nat) (hi : Safe max s)
    (hs : step fx max s (.eMelt e) = some s') : Safe max s' := by
  safe_auto hi hs

theorem safe_eLock (fx : Fix) (max : Nat) (s s' : St) (e : Nat) (hi : Safe max s)
    (hs : step fx max s (.eLock e) = some s') : Safe max s' := by
  safe_auto hi hs

theorem safe_eCrit (fx : Fix) (max : Nat) (s s' : St) (e : Nat) (hi : Safe max s)
    (hs : step fx max s (.eCrit e) = some s') : Safe max s' := by
  safe_auto hi hs

theorem safe_eOnce (fx : Fix) (max : Nat) (s s' : St) (e : Nat) (hi : Safe max s)
    (hs : step fx max s (.eOnce e) = some s') : Safe max s' := by
  safe_auto hi hs

theorem safe_peerClose (fx : Fix) (max : Nat) (s s' : St) (p : Nat) (hi : Safe max s)
    (hs : step fx max s (.peerClose p) = some s') : Safe max s' := by
  safe_auto hi hs

theorem safe_count (fx : Fix) (max : Nat) (s s' : St)  (hi : Safe max s)
    (hs : step fx max s (.count) = some s') : Safe max s' := by
  safe_auto hi hs

theorem safe_step (fx : Fix) (max : Nat) (s s' : St) (l : Lab) (hi : Safe max s)
    (hs : step fx max s l = some s') : Safe max s' := by
  cases l with
  | cCall c => exact safe_cCall fx max s s' c hi hs
  | cLock c => exact safe_cLock fx max s s' c hi hs
  | cCheck c => exact safe_cCheck fx max s s' c hi hs
  | cCatch c e => exact safe_cCatch fx max s s' c e hi hs
  | cSend c => exact safe_cSend fx max s s' c hi hs
  | cMeltArm c => exact safe_cMeltArm fx max s s' c hi hs
  | lTimer c => exact safe_lTimer fx max s s' c hi hs
  | lMelted c => exact safe_lMelted fx max s s' c hi hs
  | pCall q => exact safe_pCall fx max s s' q hi hs
  | pRecv q => exact safe_pRecv fx max s s' q hi hs
  | pCheck q => exact safe_pCheck fx max s s' q hi hs
  | pAgain q => exact safe_pAgain fx max s s' q hi hs
  | eCall e => exact safe_eCall fx max s s' e hi hs
  | eMelt e => exact safe_eMelt fx max s s' e hi hs
  | eLock e => exact safe_eLock fx max s s' e hi hs
  | eCrit e => exact safe_eCrit fx max s s' e hi hs
  | eOnce e => exact safe_eOnce fx max s s' e hi hs
  | peerClose p => exact safe_peerClose fx max s s' p hi hs
  | count => exact safe_count fx max s s'  hi hs

theorem safe_reachable {fx : Fix} {max : Nat} {s : St} (h : Reachable fx max s) : Safe max s :=
  Reach.inv (Safe max) (safe_init max) (fun s l s' hi hs => safe_step fx max s s' l hi hs) h


/-! ## The repaired skeleton (`Fix.all`) -/

/-- the program counters at which an `End` goroutine is executing the body of `End` -/
def EPC.inBody : EPC → Bool
  | .closeMelt => true | .wantLock => true | .locked => true | _ => false

structure Fixed (s : St) : Prop where
  noPanic : s.panic = none
  runner : ∀ e, (s.ends e).inBody = true → s.once = .running e
  running : ∀ e, s.once = .running e → (s.ends e).inBody = true
  meltOpen : ∀ e, s.ends e = .closeMelt → s.melt = false
  waiting : ∀ e, s.ends e = .waitOnce → s.once ≠ .fresh
  noEndPanic : ∀ e, s.ends e ≠ .panicked
  doneOnce : s.endDone = true → s.once = .complete
  freshMelt : s.once = .fresh → s.melt = false

theorem fixed_init : Fixed init := by
  constructor <;> simp [init, EPC.inBody]

theorem connect_fixed_ne_panic (e : CatchEnv) : connect true e ≠ .panic := by
  cases e <;> simp [connect, prepare, afterPrepare]

syntax "fixed_auto " ident ident ident : tactic
set_option hygiene false in
macro_rules
  | `(tactic| fixed_auto $hsafe $hi $hs) => `(tactic| (
      obtain ⟨g1, g2, g3, g4, g5, g6, g7, g8⟩ := $hi
      have hbusy : s.endDone = true → ∀ c, (s.col c).busy = false := ($hsafe).doneBusy
      have hchan : s.chanClosed = true → s.endDone = true := ($hsafe).chanDone
      have hmeltE := ($hsafe).meltE
      have hcp := connect_fixed_ne_panic
      simp only [step, Fix.all] at $hs:ident
      (repeat' split at $hs:ident) <;> (try cases $hs:ident) <;>
      constructor <;> (try simp only []) <;> intros <;>
      grind [upd, EPC.inBody, CPC.busy, setPanic]))

theorem fixed_cCall (max : Nat) (s s' : St) (c : Nat) (hsafe : Safe max s) (hi : Fixed s)
    (hs : step Fix.all max s (.cCall c) = some s') : Fixed s' := by
  fixed_auto hsafe hi hs

theorem fixed_cLock (max : Nat) (s s' : St) (c : Nat) (hsafe : Safe max s) (hi : Fixed s)
    (hs : step Fix.all max s (.cLock c) = some s') : Fixed s' := by
  fixed_auto hsafe hi hs

theorem fixed_cCheck (max : Nat) (s s' : St) (c : Nat) (hsafe : Safe max s) (hi : Fixed s)
    (hs : step Fix.all max s (.cCheck c) = some s') : Fixed s' := by
  fixed_auto hsafe hi hs

theorem fixed_cCatch (max : Nat) (s s' : St) (c : Nat) (e : CatchEnv) (hsafe : Safe max s) (hi : Fixed s)
    (hs : step Fix.all max s (.cCatch c e) = some s') : Fixed s' := by
  fixed_auto hsafe hi hs

theorem fixed_cSend (max : Nat) (s s' : St) (c : Nat) (hsafe : Safe max s) (hi : Fixed s)
    (hs : step Fix.all max s (.cSend c) = some s') : Fixed s' := by
  fixed_auto hsafe hi hs

theorem fixed_cMeltArm (max : Nat) (s s' : St) (c : Nat) (hsafe : Safe max s) (hi : Fixed s)
    (hs : step Fix.all max s (.cMeltArm c) = some s') : Fixed s' := by
  fixed_auto hsafe hi hs

theorem fixed_lTimer (max : Nat) (s s' : St) (c : Nat) (hsafe : Safe max s) (hi : Fixed s)
    (hs : step Fix.all max s (.lTimer c) = some s') : Fixed s' := by
  fixed_auto hsafe hi hs

theorem fixed_lMelted (max : Nat) (s s' : St) (c : Nat) (hsafe : Safe max s) (hi : Fixed s)
    (hs : step Fix.all max s (.lMelted c) = some s') : Fixed s' := by
  fixed_auto hsafe hi hs

theorem fixed_pCall (max : Nat) (s s' : St) (q : Nat) (hsafe : Safe max s) (hi : Fixed s)
    (hs : step Fix.all max s (.pCall q) = some s') : Fixed s' := by
  fixed_auto hsafe hi hs

theorem fixed_pRecv (max : Nat) (s s' : St) (q : Nat) (hsafe : Safe max s) (hi : Fixed s)
    (hs : step Fix.all max s (.pRecv q) = some s') : Fixed s' := by
  fixed_auto hsafe hi hs

theorem fixed_pCheck (max : Nat) (s s' : St) (q : Nat) (hsafe : Safe max s) (hi : Fixed s)
    (hs : step Fix.all max s (.pCheck q) = some s') : Fixed s' := by
  fixed_auto hsafe hi hs

theorem fixed_pAgain (max : Nat) (s s' : St) (q : Nat) (hsafe : Safe max s) (hi : Fixed s)
    (hs : step Fix.all max s (.pAgain q) = some s') : Fixed s' := by
  fixed_auto hsafe hi hs

theorem fixed_eCall (max : Nat) (s s' : St) (e : Nat) (hsafe : Safe max s) (hi : Fixed s)
    (hs : step Fix.all max s (.eCall e) = some s') : Fixed s' := by
  fixed_auto hsafe hi hs

theorem fixed_eMelt (max : Nat) (s s' : St) (e : Nat) (hsafe : Safe max s) (hi : Fixed s)
    (hs : step Fix.all max s (.eMelt e) = some s') : Fixed s' := by
  fixed_auto hsafe hi hs

theorem fixed_eLock (max : Nat) (s s' : St) (e : Nat) (hsafe : Safe max s) (hi : Fixed s)
    (hs : step Fix.all max s (.eLock e) = some s') : Fixed s' := by
  fixed_auto hsafe hi hs

theorem fixed_eCrit (max : Nat) (s s' : St) (e : Nat) (hsafe : Safe max s) (hi : Fixed s)
    (hs : step Fix.all max s (.eCrit e) = some s') : Fixed s' := by
  fixed_auto hsafe hi hs

theorem fixed_eOnce (max : Nat) (s s' : St) (e : Nat) (hsafe : Safe max s) (hi : Fixed s)
    (hs : step Fix.all max s (.eOnce e) = some s') : Fixed s' := by
  fixed_auto hsafe hi hs

theorem fixed_peerClose (max : Nat) (s s' : St) (p : Nat) (hsafe : Safe max s) (hi : Fixed s)
    (hs : step Fix.all max s (.peerClose p) = some s') : Fixed s' := by
  fixed_auto hsafe hi hs

theorem fixed_count (max : Nat) (s s' : St)  (hsafe : Safe max s) (hi : Fixed s)
    (hs : step Fix.all max s (.count) = some s') : Fixed s' := by
  fixed_auto hsafe hi hs

theorem fixed_step (max : Nat) (s s' : St) (l : Lab) (hsafe : Safe max s) (hi : Fixed s)
    (hs : step Fix.all max s l = some s') : Fixed s' := by
  cases l with
  | cCall c => exact fixed_cCall max s s' c hsafe hi hs
  | cLock c => exact fixed_cLock max s s' c hsafe hi hs
  | cCheck c => exact fixed_cCheck max s s' c hsafe hi hs
  | cCatch c e => exact fixed_cCatch max s s' c e hsafe hi hs
  | cSend c => exact fixed_cSend max s s' c hsafe hi hs
  | cMeltArm c => exact fixed_cMeltArm max s s' c hsafe hi hs
  | lTimer c => exact fixed_lTimer max s s' c hsafe hi hs
  | lMelted c => exact fixed_lMelted max s s' c hsafe hi hs
  | pCall q => exact fixed_pCall max s s' q hsafe hi hs
  | pRecv q => exact fixed_pRecv max s s' q hsafe hi hs
  | pCheck q => exact fixed_pCheck max s s' q hsafe hi hs
  | pAgain q => exact fixed_pAgain max s s' q hsafe hi hs
  | eCall e => exact fixed_eCall max s s' e hsafe hi hs
  | eMelt e => exact fixed_eMelt max s s' e hsafe hi hs
  | eLock e => exact fixed_eLock max s s' e hsafe hi hs
  | eCrit e => exact fixed_eCrit max s s' e hsafe hi hs
  | eOnce e => exact fixed_eOnce max s s' e hsafe hi hs
  | peerClose p => exact fixed_peerClose max s s' p hsafe hi hs
  | count => exact fixed_count max s s'  hsafe hi hs

theorem fixed_reachable {max : Nat} {s : St} (h : Reachable Fix.all max s) : Safe max s ∧ Fixed s :=
  Reach.inv (fun s => Safe max s ∧ Fixed s) ⟨safe_init max, fixed_init⟩
    (fun s l s' hi hs => ⟨safe_step Fix.all max s s' l hi.1 hs, fixed_step max s s' l hi.1 hi.2 hs⟩) h


/-! ## Progress of `End` in the repaired skeleton -/

/-- What the current holder of `collectLock` does until it releases the lock, if the `Catch` that may
be in flight ends as `o`. -/
def holderSched (s : St) (o : CatchEnv) : List Lab :=
  match s.lock with
  | some (.col c) =>
    match s.col c with
    | .locked => [.cCheck c]
    | .catching => if connect true o = .ok then [.cCatch c o, .cMeltArm c] else [.cCatch c o]
    | .sending _ => [.cMeltArm c]
    | _ => []
  | _ => []

theorem connect_fixed_cases (o : CatchEnv) : connect true o = .ok ∨ connect true o = .err := by
  cases o <;> simp [connect, prepare, afterPrepare]

theorem holder_releases (max : Nat) (s : St) (o : CatchEnv) (hsafe : Safe max s)
    (hmelt : s.melt = true) (hfin : ∀ e, s.lock ≠ some (.fin e)) :
    ∃ s', run Fix.all max s (holderSched s o) = some s' ∧ s'.lock = none ∧ s'.ends = s.ends ∧
      s'.once = s.once ∧ s'.chanClosed = s.chanClosed := by
  unfold holderSched
  cases hl : s.lock with
  | none => exact ⟨s, by simp [run], hl, rfl, rfl, rfl⟩
  | some ow =>
    cases ow with
    | fin e => exact absurd hl (hfin e)
    | col c =>
      have hh := hsafe.ownC c hl
      cases hc : s.col c with
      | locked => simp [run, runL, step, hc, hmelt]
      | catching =>
        rcases connect_fixed_cases o with h | h
        · simp [run, runL, step, hc, hmelt, h, Fix.all]
        · simp [run, runL, step, hc, hmelt, h, Fix.all]
      | sending p => simp [run, runL, step, hc, hmelt, Fix.all]
      | absent => simp [hc, CPC.holds] at hh
      | wantLock => simp [hc, CPC.holds] at hh
      | ret r => simp [hc, CPC.holds] at hh
      | stopped => simp [hc, CPC.holds] at hh


/-- The rest of the body of `End` run by goroutine `r`. -/
def bodySched (s : St) (r : Nat) (o : CatchEnv) : List Lab :=
  match s.ends r with
  | .closeMelt => .eMelt r :: (holderSched s o ++ [.eLock r, .eCrit r])
  | .wantLock => holderSched s o ++ [.eLock r, .eCrit r]
  | .locked => [.eCrit r]
  | _ => []

/-- A schedule that lets `End` goroutine `e` return: only `e` itself, the `Once` runner and the
current lock holder move. -/
def endSched (s : St) (e : Nat) (o : CatchEnv) : List Lab :=
  match s.ends e with
  | .waitOnce => (match s.once with | .running r => bodySched s r o | _ => []) ++ [.eOnce e]
  | _ => bodySched s e o

theorem lock_finish (max : Nat) (s : St) (r : Nat) (hw : s.ends r = .wantLock) (hl : s.lock = none)
    (hc : s.chanClosed = false) :
    ∃ s', run Fix.all max s [.eLock r, .eCrit r] = some s' ∧ s'.ends r = .done ∧ s'.once = .complete ∧
      ∀ e, e ≠ r → s'.ends e = s.ends e := by
  simp [run, runL, step, hw, hl, hc, Fix.all, upd]
  intro e he; simp [he]

theorem body_completes (max : Nat) (s : St) (r : Nat) (o : CatchEnv) (hsafe : Safe max s) (hfx : Fixed s)
    (hb : (s.ends r).inBody = true) :
    ∃ s', run Fix.all max s (bodySched s r o) = some s' ∧ s'.ends r = .done ∧ s'.once = .complete ∧
      ∀ e, e ≠ r → s'.ends e = s.ends e := by
  have hrun := hfx.runner r hb
  have hnc : s.chanClosed = false := by
    cases h : s.chanClosed with
    | false => rfl
    | true => have := hfx.doneOnce (hsafe.chanDone h); simp [this] at hrun
  have hfin : ∀ e, s.ends r ≠ .locked → s.lock ≠ some (.fin e) := by
    intro e hne hl
    have h1 := hsafe.ownE e hl
    have h2 := hfx.runner e (by simp [h1, EPC.inBody])
    rw [hrun] at h2
    cases h2
    exact hne h1
  unfold bodySched
  cases hr : s.ends r with
  | locked => simp [run, runL, step, hr, hnc, Fix.all, upd]; intro e he; simp [he]
  | wantLock =>
    have hm := hsafe.meltE r (Or.inl hr)
    obtain ⟨s1, h1, hl1, he1, ho1, hc1⟩ := holder_releases max s o hsafe hm (fun e => hfin e (by simp [hr]))
    obtain ⟨s2, h2, hd, hoc, hoth⟩ := lock_finish max s1 r (by rw [he1]; exact hr) hl1 (by rw [hc1]; exact hnc)
    refine ⟨s2, ?_, hd, hoc, ?_⟩
    · simp only [run] at h1 h2 ⊢
      rw [runL_append, h1]; exact h2
    · intro e he; rw [hoth e he, he1]
  | closeMelt =>
    have hmo := hfx.meltOpen r hr
    -- after `close(p.melt)`
    let s0 : St := { s with melt := true, ends := upd s.ends r .wantLock }
    have hstep : step Fix.all max s (.eMelt r) = some s0 := by simp [step, hr, hmo, s0]
    have hsafe0 : Safe max s0 := safe_step _ _ _ _ _ hsafe hstep
    have hh : holderSched s0 o = holderSched s o := rfl
    obtain ⟨s1, h1, hl1, he1, ho1, hc1⟩ := holder_releases max s0 o hsafe0 rfl
      (fun e => hfin e (by simp [hr]))
    obtain ⟨s2, h2, hd, hoc, hoth⟩ := lock_finish max s1 r (by rw [he1]; simp [s0]) hl1 (by rw [hc1]; exact hnc)
    refine ⟨s2, ?_, hd, hoc, ?_⟩
    · simp only [run] at h1 h2 ⊢
      rw [runL_cons, hstep]; simp only [Option.bind]
      rw [← hh, runL_append, h1]; exact h2
    · intro e he; rw [hoth e he, he1]; simp [s0, upd, he]
  | absent => simp [hr, EPC.inBody] at hb
  | waitOnce => simp [hr, EPC.inBody] at hb
  | done => simp [hr, EPC.inBody] at hb
  | panicked => simp [hr, EPC.inBody] at hb


theorem end_sched_completes (max : Nat) (s : St) (e : Nat) (o : CatchEnv) (hsafe : Safe max s) (hfx : Fixed s)
    (hp : (s.ends e).pending = true) :
    ∃ s', run Fix.all max s (endSched s e o) = some s' ∧ s'.ends e = .done := by
  unfold endSched
  cases he : s.ends e with
  | waitOnce =>
    have hw := hfx.waiting e he
    cases ho : s.once with
    | fresh => exact absurd ho hw
    | complete => simp [run, runL, step, he, ho]
    | running r =>
      have hb := hfx.running r ho
      have hne : e ≠ r := by intro h; subst h; simp [he, EPC.inBody] at hb
      obtain ⟨s1, h1, _, hoc, hoth⟩ := body_completes max s r o hsafe hfx hb
      refine ⟨{ s1 with ends := upd s1.ends e .done }, ?_, by simp⟩
      simp only [run] at h1 ⊢
      rw [runL_append, h1]
      simp [runL, step, hoth e hne, he, hoc]
  | closeMelt =>
    obtain ⟨s1, h1, hd, _, _⟩ := body_completes max s e o hsafe hfx (by simp [he, EPC.inBody])
    exact ⟨s1, by simpa [he] using h1, hd⟩
  | wantLock =>
    obtain ⟨s1, h1, hd, _, _⟩ := body_completes max s e o hsafe hfx (by simp [he, EPC.inBody])
    exact ⟨s1, by simpa [he] using h1, hd⟩
  | locked =>
    obtain ⟨s1, h1, hd, _, _⟩ := body_completes max s e o hsafe hfx (by simp [he, EPC.inBody])
    exact ⟨s1, by simpa [he] using h1, hd⟩
  | absent => simp [he, EPC.pending] at hp
  | done => simp [he, EPC.pending] at hp
  | panicked => simp [he, EPC.pending] at hp

/-- Shape of the schedule: at most 6 labels, none of them a `Pop` label, at most one `Catch` return
(the one that was in flight). -/
theorem end_sched_shape (s : St) (e : Nat) (o : CatchEnv) :
    (endSched s e o).length ≤ 6 ∧ (∀ l ∈ endSched s e o, l.isPop = false) ∧
      ((endSched s e o).filter Lab.isCatch).length ≤ 1 := by
  unfold endSched bodySched holderSched
  repeat' split
  all_goals simp [Lab.isPop, Lab.isCatch, List.filter]


/-! ## The F9 deadlock of the pinned skeleton is permanent -/

def Lab.isRecv : Lab → Bool
  | .pRecv _ => true | _ => false

/-- The F9 situation: collector `c` holds `collectLock` at the hand-over send, the channel is full
and open, and `End` goroutine `e` has closed `melt` and waits for the lock. -/
structure F9Stuck (max : Nat) (s : St) (c e : Nat) : Prop where
  lock : s.lock = some (.col c)
  sending : (s.col c).busy = true ∧ s.col c ≠ .catching
  full : max ≤ s.chan.length
  chanOpen : s.chanClosed = false
  waiting : s.ends e = .wantLock

theorem f9_stuck_step (fx : Fix) (max : Nat) (s s' : St) (c e : Nat) (l : Lab) (hf9 : fx.f9 = false)
    (hsafe : Safe max s) (hst : F9Stuck max s c e) (hs : step fx max s l = some s')
    (hl : l.isRecv = false) : F9Stuck max s' c e := by
  obtain ⟨k1, k2, k3, k4, k5⟩ := hst
  have h3 := hsafe.lockC
  have h4 := hsafe.lockE
  have h5 := hsafe.ownC
  have h6 := hsafe.ownE
  cases l <;> simp only [step] at hs <;> (repeat' split at hs) <;> (try cases hs) <;>
  constructor <;> (try simp only []) <;>
  grind [upd, CPC.holds, CPC.busy, Lab.isRecv]

end Snowflake.Peers
