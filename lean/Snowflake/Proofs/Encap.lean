import Snowflake.Model.Encap
/-! Helper lemmas for the encapsulation model (C09). -/
namespace Snowflake.Encap

/-! ### stdlib helper models are fragmentation independent -/

theorem readFull_fst (sc : Script) : ∀ (data : Bytes) (want : Nat),
    (readFull sc data want).1 = data.take want := by
  induction sc with
  | nil => intro data want; simp [readFull]
  | cons hd sc ih =>
    obtain ⟨k, e⟩ := hd
    intro data want
    simp only [readFull]
    split
    · subst_vars; simp
    · split
      · exact ih _ _
      · split
        · have : data = [] := by simpa using ‹data.isEmpty = true›
          subst this; simp
        · split
          · rename_i h
            simp only [Bool.and_eq_true, List.isEmpty_iff] at h
            have h2 : data.length ≤ min k want := by
              have := congrArg List.length h.2; simp at this; omega
            simp only
            rw [List.take_of_length_le h2, List.take_of_length_le (by omega)]
          · simp only [ih]
            rw [← List.take_add]
            congr 1; omega

theorem readFull_data (sc : Script) : ∀ (data : Bytes) (want : Nat),
    (readFull sc data want).2.data = data.drop want := by
  induction sc with
  | nil => intro data want; simp [readFull]
  | cons hd sc ih =>
    obtain ⟨k, e⟩ := hd
    intro data want
    simp only [readFull]
    split
    · subst_vars; simp
    · split
      · exact ih _ _
      · split
        · have : data = [] := by simpa using ‹data.isEmpty = true›
          subst this; simp
        · split
          · rename_i h
            simp only [Bool.and_eq_true, List.isEmpty_iff] at h
            have h2 : data.length ≤ min k want := by
              have := congrArg List.length h.2; simp at this; omega
            simp only
            rw [h.2, List.drop_of_length_le (by omega)]
          · simp only [ih, List.drop_drop]
            congr 1; omega

theorem readFull_script_le (sc : Script) : ∀ (data : Bytes) (want : Nat),
    (readFull sc data want).2.script.length ≤ sc.length := by
  induction sc with
  | nil => intro data want; simp [readFull]
  | cons hd sc ih =>
    obtain ⟨k, e⟩ := hd
    intro data want
    simp only [readFull]
    split
    · simp
    · split
      · have := ih data want; simp; omega
      · split
        · simp
        · split
          · simp
          · have := ih (List.drop (min k want) data) (want - min k want); simp; omega

theorem skipN_fst (sc : Script) : ∀ (data : Bytes) (want : Nat),
    (skipN sc data want).1 = min want data.length := by
  induction sc with
  | nil => intro data want; simp [skipN]
  | cons hd sc ih =>
    obtain ⟨k, e⟩ := hd
    intro data want
    simp only [skipN]
    split
    · subst_vars; simp
    · split
      · exact ih _ _
      · split
        · have : data = [] := by simpa using ‹data.isEmpty = true›
          subst this; simp
        · split
          · rename_i h
            simp only [Bool.and_eq_true, List.isEmpty_iff] at h
            have := congrArg List.length h.2
            simp at this; simp only; omega
          · simp only [ih, List.length_drop]; omega

theorem skipN_data (sc : Script) : ∀ (data : Bytes) (want : Nat),
    (skipN sc data want).2.data = data.drop want := by
  induction sc with
  | nil => intro data want; simp [skipN]
  | cons hd sc ih =>
    obtain ⟨k, e⟩ := hd
    intro data want
    simp only [skipN]
    split
    · subst_vars; simp
    · split
      · exact ih _ _
      · split
        · have : data = [] := by simpa using ‹data.isEmpty = true›
          subst this; simp
        · split
          · rename_i h
            simp only [Bool.and_eq_true, List.isEmpty_iff] at h
            have := congrArg List.length h.2
            simp at this; simp only
            rw [h.2, List.drop_of_length_le (by omega)]
          · simp only [ih, List.drop_drop]
            congr 1; omega

/-! ### prefix parsing -/

theorem parsePrefix_ok_length {bs : Bytes} {d : Bool} {n : Nat} {rest : Bytes}
    (h : parsePrefix bs = .ok d n rest) : rest.length < bs.length := by
  unfold parsePrefix at h
  split at h
  · cases h
  · simp only at h
    split at h
    · cases h; simp
    · split at h
      · cases h
      · split at h
        · cases h; simp; omega
        · split at h
          · cases h
          · split at h
            · cases h; simp; omega
            · cases h

theorem next_fuel : ∀ (f1 f2 : Nat) (bs : Bytes), bs.length < f1 → bs.length < f2 →
    next f1 bs = next f2 bs := by
  intro f1
  induction f1 with
  | zero => intro f2 bs h; omega
  | succ f1 ih =>
    intro f2 bs h1 h2
    cases f2 with
    | zero => omega
    | succ f2 =>
      simp only [next]
      split <;> try rfl
      rename_i d n rest hp
      have hl := parsePrefix_ok_length hp
      split
      · rfl
      · split
        · rfl
        · apply ih <;> simp <;> omega

/-! ### the operational reader (fixed form) against the pure decoder -/

theorem readByte_fixed_nil (prev : UInt8) (sc : Script) :
    ∃ sc', readByte true prev ⟨[], sc⟩ = (none, ⟨[], sc'⟩) := by
  have h1 := readFull_fst sc [] 1
  have h2 := readFull_data sc [] 1
  simp only [readByte, if_true]
  generalize readFull sc [] 1 = q at *
  obtain ⟨got, ⟨d, sc'⟩⟩ := q
  simp at h1 h2; subst h1 h2
  exact ⟨sc', rfl⟩

theorem readByte_fixed_cons (prev b : UInt8) (rest : Bytes) (sc : Script) :
    ∃ sc', readByte true prev ⟨b :: rest, sc⟩ = (some b, ⟨rest, sc'⟩) := by
  have h1 := readFull_fst sc (b :: rest) 1
  have h2 := readFull_data sc (b :: rest) 1
  simp only [readByte, if_true]
  generalize readFull sc (b :: rest) 1 = q at *
  obtain ⟨got, ⟨d, sc'⟩⟩ := q
  simp at h1 h2; subst h1 h2
  exact ⟨sc', rfl⟩

/-- The prefix loop with `io.ReadFull` sees exactly what `parsePrefix` sees. -/
theorem readPrefix_fixed (data : Bytes) (sc : Script) :
    ∃ sc', readPrefix true ⟨data, sc⟩ =
      match parsePrefix data with
      | .eof => (.eof, ⟨[], sc'⟩)
      | .short => (.short, ⟨[], sc'⟩)
      | .tooLong => (.tooLong, ⟨data.drop 3, sc'⟩)
      | .ok d n rest => (.ok d n, ⟨rest, sc'⟩) := by
  cases data with
  | nil =>
    obtain ⟨s0, h0⟩ := readByte_fixed_nil 0 sc
    exact ⟨s0, by simp [readPrefix, parsePrefix, h0]⟩
  | cons b0 r0 =>
    obtain ⟨s0, h0⟩ := readByte_fixed_cons 0 b0 r0 sc
    by_cases c0 : (b0.toNat / 64) % 2 = 0
    · exact ⟨s0, by simp [readPrefix, parsePrefix, h0, c0]⟩
    · cases r0 with
      | nil =>
        obtain ⟨s1, h1⟩ := readByte_fixed_nil b0 s0
        exact ⟨s1, by simp [readPrefix, parsePrefix, h0, c0, h1]⟩
      | cons b1 r1 =>
        obtain ⟨s1, h1⟩ := readByte_fixed_cons b0 b1 r1 s0
        by_cases c1 : b1.toNat < 128
        · exact ⟨s1, by simp [readPrefix, parsePrefix, h0, c0, h1, c1]⟩
        · cases r1 with
          | nil =>
            obtain ⟨s2, h2⟩ := readByte_fixed_nil b1 s1
            exact ⟨s2, by simp [readPrefix, parsePrefix, h0, c0, h1, c1, h2]⟩
          | cons b2 r2 =>
            obtain ⟨s2, h2⟩ := readByte_fixed_cons b1 b2 r2 s1
            by_cases c2 : b2.toNat < 128
            · exact ⟨s2, by simp [readPrefix, parsePrefix, h0, c0, h1, c1, h2, c2]⟩
            · exact ⟨s2, by simp [readPrefix, parsePrefix, h0, c0, h1, c1, h2, c2]⟩

theorem readBody_spec (d : Bool) (n : Nat) (data : Bytes) (sc : Script) :
    ∃ sc', readBody d n ⟨data, sc⟩ =
      if data.length < n then (some .unexpectedEOF, ⟨[], sc'⟩)
      else if d then (some (.chunk (data.take n)), ⟨data.drop n, sc'⟩)
      else (none, ⟨data.drop n, sc'⟩) := by
  cases d with
  | true =>
    have h1 := readFull_fst sc data n
    have h2 := readFull_data sc data n
    simp only [readBody, if_true]
    generalize readFull sc data n = q at *
    obtain ⟨got, ⟨dd, sc'⟩⟩ := q
    simp only at h1 h2; subst h1 h2
    refine ⟨sc', ?_⟩
    by_cases hl : data.length < n
    · have : ¬ (min n data.length = n) := by omega
      simp [hl, this, List.drop_of_length_le (Nat.le_of_lt hl)]
    · have : min n data.length = n := by omega
      simp [hl, this]
  | false =>
    have h1 := skipN_fst sc data n
    have h2 := skipN_data sc data n
    simp only [readBody, Bool.false_eq_true, if_false]
    generalize skipN sc data n = q at *
    obtain ⟨m, ⟨dd, sc'⟩⟩ := q
    simp only at h1 h2; subst h1 h2
    refine ⟨sc', ?_⟩
    by_cases hl : data.length < n
    · have : ¬ (min n data.length = n) := by omega
      simp [hl, this, List.drop_of_length_le (Nat.le_of_lt hl)]
    · have : min n data.length = n := by omega
      simp [hl, this]

/-- One operational `ReadData` on any fragmentation script = the pure `next` on the bytes. -/
theorem readData_next : ∀ (fuel : Nat) (data : Bytes) (sc : Script), data.length < fuel →
    ∃ sc', readData true fuel ⟨data, sc⟩ = ((next fuel data).1, ⟨(next fuel data).2, sc'⟩) := by
  intro fuel
  induction fuel with
  | zero => intro data sc h; omega
  | succ fuel ih =>
    intro data sc hl
    obtain ⟨s1, hp⟩ := readPrefix_fixed data sc
    simp only [readData, next, hp]
    cases hpp : parsePrefix data with
    | eof => exact ⟨s1, rfl⟩
    | short => exact ⟨s1, rfl⟩
    | tooLong => exact ⟨s1, rfl⟩
    | ok d n rest =>
      have hlen := parsePrefix_ok_length hpp
      obtain ⟨s2, hb⟩ := readBody_spec d n rest s1
      simp only [hb]
      by_cases c : rest.length < n
      · exact ⟨s2, by simp [c]⟩
      · cases d with
        | true => exact ⟨s2, by simp [c]⟩
        | false =>
          obtain ⟨s3, h3⟩ := ih (rest.drop n) s2 (by simp; omega)
          exact ⟨s3, by simp [c, h3]⟩

theorem next_length_le : ∀ (fuel : Nat) (bs : Bytes), (next fuel bs).2.length ≤ bs.length := by
  intro fuel
  induction fuel with
  | zero => intro bs; simp [next]
  | succ fuel ih =>
    intro bs
    simp only [next]
    split
    · simp
    · simp
    · simp
    · rename_i d n rest hp
      have := parsePrefix_ok_length hp
      split
      · simp
      · split
        · simp; omega
        · have := ih (rest.drop n); simp at this ⊢; omega

theorem next_chunk_length_lt : ∀ (fuel : Nat) (bs : Bytes) (p : Bytes),
    (next fuel bs).1 = .chunk p → (next fuel bs).2.length < bs.length := by
  intro fuel
  induction fuel with
  | zero => intro bs p h; simp [next] at h
  | succ fuel ih =>
    intro bs p
    simp only [next]
    split
    · simp
    · simp
    · simp
    · rename_i d n rest hp
      have := parsePrefix_ok_length hp
      split
      · simp
      · split
        · simp; omega
        · intro h; have := ih (rest.drop n) p h; simp at this ⊢; omega

/-- Iterated operational reading on any script = the pure decoder on the bytes. -/
theorem readAll_decode : ∀ (fuel : Nat) (data : Bytes) (sc : Script), data.length < fuel →
    readAll true fuel ⟨data, sc⟩ = decodeFuel fuel data := by
  intro fuel
  induction fuel with
  | zero => intro data sc h; omega
  | succ fuel ih =>
    intro data sc hl
    obtain ⟨s1, h1⟩ := readData_next (fuelFor ⟨data, sc⟩) data sc (by simp [fuelFor]; omega)
    have hf : next (fuelFor ⟨data, sc⟩) data = next (data.length + 1) data :=
      next_fuel _ _ _ (by simp [fuelFor]; omega) (by omega)
    simp only [readAll, decodeFuel, h1, hf]
    generalize hq : next (data.length + 1) data = q
    obtain ⟨res, rest⟩ := q
    cases res with
    | chunk p =>
      have := next_chunk_length_lt (data.length + 1) data p (by rw [hq])
      rw [hq] at this
      simp only [ih rest s1 (by simp at this; omega)]
    | eof => rfl
    | unexpectedEOF => rfl
    | tooLong => rfl

theorem decodeFuel_fuel : ∀ (f1 f2 : Nat) (bs : Bytes), bs.length < f1 → bs.length < f2 →
    decodeFuel f1 bs = decodeFuel f2 bs := by
  intro f1
  induction f1 with
  | zero => intro f2 bs h; omega
  | succ f1 ih =>
    intro f2 bs h1 h2
    cases f2 with
    | zero => omega
    | succ f2 =>
      simp only [decodeFuel]
      generalize hq : next (bs.length + 1) bs = q
      obtain ⟨res, rest⟩ := q
      cases res with
      | chunk p =>
        have := next_chunk_length_lt (bs.length + 1) bs p (by rw [hq])
        rw [hq] at this
        simp only at this
        simp only [ih f2 rest (by omega) (by omega)]
      | eof => rfl
      | unexpectedEOF => rfl
      | tooLong => rfl

end Snowflake.Encap

namespace Snowflake.Encap

/-! ### encoder against decoder -/

theorem u8_lt {x : Nat} (h : x < 256) : (UInt8.ofNat x).toNat = x := by
  simp; omega

theorem pp1 (b0 : UInt8) (rest : Bytes) (h : b0.toNat / 64 % 2 = 0) :
    parsePrefix (b0 :: rest) = .ok (decide (b0.toNat ≥ 128)) (b0.toNat % 64) rest := by
  simp [parsePrefix, h]

theorem pp2 (b0 b1 : UInt8) (rest : Bytes) (h0 : ¬ b0.toNat / 64 % 2 = 0) (h1 : b1.toNat < 128) :
    parsePrefix (b0 :: b1 :: rest)
      = .ok (decide (b0.toNat ≥ 128)) (b0.toNat % 64 * 128 + b1.toNat % 128) rest := by
  simp [parsePrefix, h0, h1]

theorem pp3 (b0 b1 b2 : UInt8) (rest : Bytes) (h0 : ¬ b0.toNat / 64 % 2 = 0)
    (h1 : ¬ b1.toNat < 128) (h2 : b2.toNat < 128) :
    parsePrefix (b0 :: b1 :: b2 :: rest)
      = .ok (decide (b0.toNat ≥ 128))
          ((b0.toNat % 64 * 128 + b1.toNat % 128) * 128 + b2.toNat % 128) rest := by
  simp [parsePrefix, h0, h1, h2]

theorem parsePrefix_prefixFor (dbit n : Nat) (p rest : Bytes) (hd : dbit = 0 ∨ dbit = 128)
    (h : prefixFor dbit n = some p) :
    parsePrefix (p ++ rest) = .ok (decide (dbit = 128)) n rest := by
  unfold prefixFor at h
  split at h
  · cases h
    have hb : (UInt8.ofNat (dbit + n)).toNat = dbit + n := u8_lt (by omega)
    simp only [List.cons_append, List.nil_append]
    rw [pp1 _ _ (by rw [hb]; omega), hb]
    rcases hd with rfl | rfl
    · have e : ¬ (0 + n ≥ 128) := by omega
      simp only [e]; congr 1; omega
    · have e : 128 + n ≥ 128 := by omega
      simp only [e]; congr 1; omega
  · split at h
    · cases h
      have hb0 : (UInt8.ofNat (dbit + 64 + n / 128)).toNat = dbit + 64 + n / 128 := u8_lt (by omega)
      have hb1 : (UInt8.ofNat (n % 128)).toNat = n % 128 := u8_lt (by omega)
      simp only [List.cons_append, List.nil_append]
      rw [pp2 _ _ _ (by rw [hb0]; omega) (by rw [hb1]; omega), hb0, hb1]
      rcases hd with rfl | rfl
      · have e : ¬ (0 + 64 + n / 128 ≥ 128) := by omega
        simp only [e]; congr 1; omega
      · have e : 128 + 64 + n / 128 ≥ 128 := by omega
        simp only [e]; congr 1; omega
    · split at h
      · cases h
        have hb0 : (UInt8.ofNat (dbit + 64 + n / 16384)).toNat = dbit + 64 + n / 16384 :=
          u8_lt (by omega)
        have hb1 : (UInt8.ofNat (128 + n / 128 % 128)).toNat = 128 + n / 128 % 128 := u8_lt (by omega)
        have hb2 : (UInt8.ofNat (n % 128)).toNat = n % 128 := u8_lt (by omega)
        simp only [List.cons_append, List.nil_append]
        rw [pp3 _ _ _ _ (by rw [hb0]; omega) (by rw [hb1]; omega) (by rw [hb2]; omega), hb0, hb1, hb2]
        rcases hd with rfl | rfl
        · have e : ¬ (0 + 64 + n / 16384 ≥ 128) := by omega
          simp only [e]; congr 1; omega
        · have e : 128 + 64 + n / 16384 ≥ 128 := by omega
          simp only [e]; congr 1; omega
      · cases h

theorem dataPrefix_isSome {n : Nat} (h : n < 1048576) : ∃ p, dataPrefix n = some p := by
  unfold dataPrefix prefixFor
  repeat' split
  all_goals first | exact ⟨_, rfl⟩ | omega

theorem next_succ_ok (fuel : Nat) (bs : Bytes) (d : Bool) (n : Nat) (rest : Bytes)
    (h : parsePrefix bs = .ok d n rest) :
    next (fuel + 1) bs =
      if rest.length < n then (.unexpectedEOF, [])
      else if d then (.chunk (rest.take n), rest.drop n) else next fuel (rest.drop n) := by
  simp only [next, h]

/-- A data chunk at the head of a stream is what `next` returns, leaving the tail. -/
theorem next_data (d tail : Bytes) (h : d.length < 1048576) (fuel : Nat) :
    next (fuel + 1) (encodeItem (.data d) ++ tail) = (.chunk d, tail) := by
  obtain ⟨p, hp⟩ := dataPrefix_isSome h
  have hpp := parsePrefix_prefixFor 128 d.length p (d ++ tail) (Or.inr rfl) hp
  simp only [encodeItem, encodeData, hp, Option.getD_some, List.append_assoc]
  rw [next_succ_ok _ _ _ _ _ hpp]
  simp

theorem paddingBlock_spec (p : Nat) (hp1 : 1 ≤ p) (hp2 : p ≤ 1024) (tail : Bytes) :
    ∃ m, m < p ∧ parsePrefix (paddingBlock p ++ tail) = .ok false m (List.replicate m 0 ++ tail)
      ∧ (paddingBlock p).length = p := by
  unfold paddingBlock
  split
  · refine ⟨p - 1, by omega, ?_, by simp; omega⟩
    have := parsePrefix_prefixFor 0 (p - 1) [UInt8.ofNat (p - 1)] (List.replicate (p - 1) 0 ++ tail)
      (Or.inl rfl) (by simp [prefixFor]; omega)
    simpa using this
  · have h2 : p - 2 < 8192 := by omega
    simp only [h2, if_true]
    refine ⟨p - 2, by omega, ?_, by simp; omega⟩
    have hb0 : (UInt8.ofNat (64 + (p - 2) / 128)).toNat = 64 + (p - 2) / 128 := u8_lt (by omega)
    have hb1 : (UInt8.ofNat ((p - 2) % 128)).toNat = (p - 2) % 128 := u8_lt (by omega)
    simp only [List.cons_append]
    rw [pp2 _ _ _ (by rw [hb0]; omega) (by rw [hb1]; omega), hb0, hb1]
    have e : ¬ (64 + (p - 2) / 128 ≥ 128) := by omega
    simp only [e]; congr 1; omega

theorem padding_unfold {n : Nat} (hn : n ≠ 0) :
    padding n = paddingBlock (min 1024 n) ++ padding (n - min 1024 n) := by
  rw [padding]; simp [hn, paddingBufferLen]

/-- Padding at the head of a stream is invisible to `next`. -/
theorem next_padding : ∀ (n : Nat) (tail : Bytes) (fuel : Nat),
    (padding n ++ tail).length < fuel → next fuel (padding n ++ tail) = next fuel tail := by
  intro n
  induction n using Nat.strongRecOn with
  | _ n ih =>
    intro tail fuel hf
    by_cases hn : n = 0
    · subst hn; rw [padding]; simp
    · rw [padding_unfold hn] at hf ⊢
      obtain ⟨m, hm, hpp, hlen⟩ := paddingBlock_spec (min 1024 n) (by omega) (by omega)
        (padding (n - min 1024 n) ++ tail)
      cases fuel with
      | zero => omega
      | succ fuel =>
        have hf' : (padding (n - min 1024 n) ++ tail).length < fuel := by
          simp only [List.length_append, hlen] at hf ⊢; omega
        rw [List.append_assoc, next_succ_ok _ _ _ _ _ hpp]
        have e : ¬ ((List.replicate m (0 : UInt8) ++ (padding (n - min 1024 n) ++ tail)).length < m) := by
          simp
        have e2 : List.drop m (List.replicate m (0 : UInt8) ++ (padding (n - min 1024 n) ++ tail))
            = padding (n - min 1024 n) ++ tail := by
          rw [List.drop_append_of_le_length (by simp)]; simp
        simp only [e, if_false, Bool.false_eq_true, e2]
        rw [ih (n - min 1024 n) (by omega) tail fuel hf']
        exact next_fuel _ _ _ (by simp only [List.length_append] at hf'; omega)
          (by simp only [List.length_append] at hf'; omega)

theorem padding_length : ∀ (n : Nat), (padding n).length = n := by
  intro n
  induction n using Nat.strongRecOn with
  | _ n ih =>
    rw [padding]
    split
    · simp; omega
    · simp only [paddingBufferLen]
      obtain ⟨m, _, _, hlen⟩ := paddingBlock_spec (min 1024 n) (by omega) (by omega) []
      simp only [List.length_append, hlen, ih (n - min 1024 n) (by omega)]
      omega

end Snowflake.Encap

namespace Snowflake.Encap

/-! ### prefix lengths and the size-budget helper -/

def prefixLen (n : Nat) : Nat := if n < 64 then 1 else if n < 8192 then 2 else 3

theorem prefixLen_cases (n : Nat) :
    (n < 64 ∧ prefixLen n = 1) ∨ (64 ≤ n ∧ n < 8192 ∧ prefixLen n = 2) ∨ (8192 ≤ n ∧ prefixLen n = 3) := by
  unfold prefixLen
  repeat' split
  all_goals omega

theorem dataPrefix_some {n : Nat} (h : n < 1048576) :
    ∃ p, dataPrefix n = some p ∧ p.length = prefixLen n := by
  unfold dataPrefix prefixFor prefixLen
  repeat' split
  all_goals first | exact ⟨_, rfl, rfl⟩ | omega

theorem dataPrefix_none {n : Nat} (h : 1048576 ≤ n) : dataPrefix n = none := by
  unfold dataPrefix prefixFor
  repeat' split
  all_goals first | rfl | omega

theorem maxDataForSize_eq (n : Nat) :
    maxDataForSize n = if n < 1048576 then n - prefixLen n else 1048572 := by
  unfold maxDataForSize
  split
  · rename_i p hp
    rcases Nat.lt_or_ge n 1048576 with h | h
    · obtain ⟨q, hq, hql⟩ := dataPrefix_some h
      rw [hq] at hp; cases hp
      simp [h, hql]
    · rw [dataPrefix_none h] at hp; cases hp
  · rename_i hp
    rcases Nat.lt_or_ge n 1048576 with h | h
    · obtain ⟨q, hq, _⟩ := dataPrefix_some h
      rw [hq] at hp; cases hp
    · have : ¬ n < 1048576 := by omega
      simp [this]

end Snowflake.Encap
