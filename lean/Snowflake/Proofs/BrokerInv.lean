import Snowflake.Model.Broker
/-!
Invariants of the broker model (repaired skeleton, `fixed = true`), pushed through every label.
Used by `Props/C02.lean`, `Props/C03.lean`, `Props/C04.lean`.
-/
namespace Snowflake.Broker

/-- Facts about one poll record alone. -/
structure SessOK (s : Sess) : Prop where
  absent : s.h = .absent → s.w = .none ∧ s.inHeap = false ∧ s.inMap = false ∧ s.closed = false
      ∧ s.popBy = none ∧ s.offerFrom = none ∧ s.abuf = none ∧ s.res = .none
  sendPolls : s.h = .sendPolls → s.w = .none ∧ s.inHeap = false ∧ s.inMap = false ∧ s.closed = false
      ∧ s.popBy = none ∧ s.offerFrom = none ∧ s.abuf = none ∧ s.res = .none
  wnone : s.w = .none → s.h = .absent ∨ s.h = .sendPolls
  inHeap : s.inHeap = true → s.h = .waitOffer ∧ (s.w = .select ∨ s.w = .timedOut) ∧ s.inMap = true
      ∧ s.popBy = none
  heapU : s.w ≠ .none → s.heapU = pushU s.nat
  wwait : s.w = .select ∨ s.w = .timedOut ∨ s.w = .lateRecv → s.h = .waitOffer ∧ s.offerFrom = none
      ∧ s.closed = false ∧ (s.inHeap = true ∨ s.popBy.isSome)
  late : s.w = .lateRecv → s.inHeap = false
  fwd : ∀ c, s.w = .forward c → s.h = .waitOffer ∧ s.offerFrom = some c ∧ s.closed = false ∧ s.inHeap = false
  got : ∀ c, s.h = .gotOffer c → s.w = .done ∧ s.offerFrom = some c ∧ s.inHeap = false ∧ s.closed = false
  closed : s.closed = true → s.w = .done ∧ s.inHeap = false ∧ s.inMap = false ∧ s.offerFrom = none
      ∧ s.popBy = none ∧ (s.h = .waitOffer ∨ s.h = .idle ∨ s.h = .done)
  wdone : s.w = .done → (s.closed = true ∨ s.offerFrom.isSome) ∧ (s.h = .waitOffer → s.closed = true)
  idle : s.h = .idle → s.closed = true
  offer : ∀ c, s.offerFrom = some c → s.popBy = some c
  inMap : s.inMap = true → s.inHeap = true ∨ s.popBy.isSome
  popped : s.popBy.isSome → s.inHeap = false ∧ s.w ≠ .none
  res : s.res ≠ .none → s.h = .done
  resMatched : ∀ c u, s.res = .matched c u → s.offerFrom = some c
  resIdle : s.res = .idle → s.closed = true

/-- Facts relating a client record to the poll records. `sf` is recovered from `popBy`. -/
structure LinkOK (st : St) : Prop where
  sendOffer : ∀ c p, (st.cs c).pc = .sendOffer p → (st.ss p).popBy = some c ∧ (st.ss p).offerFrom = none
      ∧ (st.ss p).inMap = true ∧ (st.bridge (st.cs c).fp).isSome
  waitAnswer : ∀ c p, (st.cs c).pc = .waitAnswer p → (st.ss p).popBy = some c ∧ (st.ss p).offerFrom = some c
      ∧ (st.ss p).inMap = true ∧ (st.bridge (st.cs c).fp).isSome
  fin : ∀ c p, (st.cs c).pc = .fin p → (st.ss p).popBy = some c ∧ (st.ss p).offerFrom = some c
      ∧ (st.ss p).inMap = true ∧ (st.bridge (st.cs c).fp).isSome
  popBy : ∀ c p, (st.ss p).popBy = some c →
      ((st.cs c).pc = .sendOffer p ∨ (st.cs c).pc = .waitAnswer p ∨ (st.cs c).pc = .fin p
        ∨ ((st.cs c).pc = .done ∧ (st.ss p).inMap = false ∧ (st.ss p).offerFrom = some c))
      ∧ wantU (st.cs c).nat = (st.ss p).heapU ∧ (st.bridge (st.cs c).fp).isSome
  asend : ∀ a p, (st.as a).pc = .send p → (st.ss p).h ≠ .absent ∧ (st.ss p).h ≠ .sendPolls
  sf : ∀ c p, (st.cs c).sf = some p ↔ (st.ss p).popBy = some c
  cabsent : ∀ c, (st.cs c).pc = .absent → (st.cs c).res = .none
  cres : ∀ c, (st.cs c).res ≠ .none → (st.cs c).pc = .done ∨ ∃ p, (st.cs c).pc = .fin p

theorem sessOK_default : SessOK {} := by
  constructor <;> simp

end Snowflake.Broker

namespace Snowflake.Broker

/-- A record update at `p` preserves a pointwise invariant if the new record satisfies it. -/
theorem upd_all {α} {P : α → Prop} {m : Nat → α} {k : Nat} {v : α}
    (h : ∀ q, P (m q)) (hv : P v) : ∀ q, P (upd m k v q) := by
  intro q
  by_cases hq : q = k
  · subst hq; simpa using hv
  · simpa [upd_ne _ _ _ _ hq] using h q

section
variable {st st' : St}

/-- Close `SessOK newRecord` from `SessOK oldRecord` (named `hp`) and the guard facts in context. -/
macro "sess_close" : tactic =>
  `(tactic| (constructor <;> (try simp_all) <;> (try grind [SessOK, pushU, waiting])))

/-- Unfold one step: afterwards each goal has `st'` replaced by the concrete successor state. -/
macro "step_cases" hs:ident : tactic =>
  `(tactic| (simp only [step, if_true, Bool.false_eq_true, and_false, false_and, if_false] at $hs:ident <;>
      (repeat' split at $hs:ident) <;> (try cases $hs:ident)))

theorem sess_step (l : Lab) (hs : step true st l = some st')
    (h : ∀ q, SessOK (st.ss q)) (hl : LinkOK st) : ∀ q, SessOK (st'.ss q) := by
  cases l with
  | pollArrive p nat clients => have hp := h p; step_cases hs; apply upd_all h; sess_close
  | clientArrive c nat fp => step_cases hs; exact h
  | ansArrive a p => step_cases hs; exact h
  | add p => have hp := h p; step_cases hs; apply upd_all h; sess_close
  | wOffer p c =>
    have hp := h p; have hk := hl.sendOffer c p
    step_cases hs; apply upd_all h; sess_close
  | wTimer p => have hp := h p; step_cases hs; apply upd_all h; sess_close
  | wCrit p => have hp := h p; step_cases hs <;> (apply upd_all h; sess_close)
  | wLate p c =>
    have hp := h p; have hk := hl.sendOffer c p
    step_cases hs; apply upd_all h; sess_close
  | wFwd p => have hp := h p; step_cases hs; apply upd_all h; sess_close
  | hIdle p => have hp := h p; step_cases hs; apply upd_all h; sess_close
  | hRespond p => have hp := h p; step_cases hs <;> (apply upd_all h; sess_close)
  | cReject c => step_cases hs; exact h
  | cMatch c p => have hp := h p; step_cases hs; apply upd_all h; sess_close
  | cDeny c => step_cases hs; exact h
  | cAns c a => step_cases hs; simp_all
  | cRecv c =>
    step_cases hs
    rename_i _ p hpc _ a ha
    have hp := h p; apply upd_all h; sess_close
  | cTimer c => step_cases hs; exact h
  | cFin c =>
    step_cases hs
    rename_i _ p hpc
    have hp := h p; have hk := hl.fin c p hpc
    apply upd_all h; sess_close
  | aLookup a => step_cases hs <;> exact h
  | aSend a =>
    step_cases hs
    · rename_i _ p hpc _ hb; have hp := h p; have hk := hl.asend a p hpc; apply upd_all h; sess_close
    · exact h

end

end Snowflake.Broker

namespace Snowflake.Broker
section
variable {st st' : St}

macro "link_close" : tactic =>
  `(tactic| (constructor <;> intros <;> (try simp_all) <;> (try grind [upd, LinkOK, SessOK, wantU, pushU, waiting])))

theorem link_step_pollArrive (p : Nat) (nat : NatT) (clients : Nat) (hs : step true st (.pollArrive p nat clients) = some st')
    (h : ∀ q, SessOK (st.ss q)) (hl : LinkOK st) : LinkOK st' := by
  have hp := h p; step_cases hs; link_close

theorem link_step_clientArrive (c : Nat) (nat : NatT) (fp : Nat) (hs : step true st (.clientArrive c nat fp) = some st')
    (h : ∀ q, SessOK (st.ss q)) (hl : LinkOK st) : LinkOK st' := by
  step_cases hs; link_close

theorem link_step_ansArrive (a : Nat) (p : Nat) (hs : step true st (.ansArrive a p) = some st')
    (h : ∀ q, SessOK (st.ss q)) (hl : LinkOK st) : LinkOK st' := by
  step_cases hs; link_close

theorem link_step_add (p : Nat) (hs : step true st (.add p) = some st')
    (h : ∀ q, SessOK (st.ss q)) (hl : LinkOK st) : LinkOK st' := by
  have hp := h p; step_cases hs; link_close

theorem link_step_wOffer (p : Nat) (c : Nat) (hs : step true st (.wOffer p c) = some st')
    (h : ∀ q, SessOK (st.ss q)) (hl : LinkOK st) : LinkOK st' := by
  have hp := h p; step_cases hs; link_close

theorem link_step_wTimer (p : Nat) (hs : step true st (.wTimer p) = some st')
    (h : ∀ q, SessOK (st.ss q)) (hl : LinkOK st) : LinkOK st' := by
  have hp := h p; step_cases hs; link_close

theorem link_step_wCrit (p : Nat) (hs : step true st (.wCrit p) = some st')
    (h : ∀ q, SessOK (st.ss q)) (hl : LinkOK st) : LinkOK st' := by
  have hp := h p; step_cases hs <;> link_close

theorem link_step_wLate (p : Nat) (c : Nat) (hs : step true st (.wLate p c) = some st')
    (h : ∀ q, SessOK (st.ss q)) (hl : LinkOK st) : LinkOK st' := by
  have hp := h p; step_cases hs; link_close

theorem link_step_wFwd (p : Nat) (hs : step true st (.wFwd p) = some st')
    (h : ∀ q, SessOK (st.ss q)) (hl : LinkOK st) : LinkOK st' := by
  have hp := h p; step_cases hs; link_close

theorem link_step_hIdle (p : Nat) (hs : step true st (.hIdle p) = some st')
    (h : ∀ q, SessOK (st.ss q)) (hl : LinkOK st) : LinkOK st' := by
  have hp := h p; step_cases hs; link_close

theorem link_step_hRespond (p : Nat) (hs : step true st (.hRespond p) = some st')
    (h : ∀ q, SessOK (st.ss q)) (hl : LinkOK st) : LinkOK st' := by
  have hp := h p; step_cases hs <;> link_close

theorem link_step_cReject (c : Nat) (hs : step true st (.cReject c) = some st')
    (h : ∀ q, SessOK (st.ss q)) (hl : LinkOK st) : LinkOK st' := by
  step_cases hs; link_close

theorem link_step_cMatch (c : Nat) (p : Nat) (hs : step true st (.cMatch c p) = some st')
    (h : ∀ q, SessOK (st.ss q)) (hl : LinkOK st) : LinkOK st' := by
  have hp := h p; step_cases hs; link_close

theorem link_step_cDeny (c : Nat) (hs : step true st (.cDeny c) = some st')
    (h : ∀ q, SessOK (st.ss q)) (hl : LinkOK st) : LinkOK st' := by
  step_cases hs; link_close

theorem link_step_cAns (c : Nat) (a : Nat) (hs : step true st (.cAns c a) = some st')
    (h : ∀ q, SessOK (st.ss q)) (hl : LinkOK st) : LinkOK st' := by
  step_cases hs; simp_all

theorem link_step_cRecv (c : Nat) (hs : step true st (.cRecv c) = some st')
    (h : ∀ q, SessOK (st.ss q)) (hl : LinkOK st) : LinkOK st' := by
  step_cases hs
  rename_i _ p hpc _ a ha
  have hp := h p; link_close

theorem link_step_cTimer (c : Nat) (hs : step true st (.cTimer c) = some st')
    (h : ∀ q, SessOK (st.ss q)) (hl : LinkOK st) : LinkOK st' := by
  step_cases hs
  rename_i _ p hpc
  have hp := h p; link_close

theorem link_step_cFin (c : Nat) (hs : step true st (.cFin c) = some st')
    (h : ∀ q, SessOK (st.ss q)) (hl : LinkOK st) : LinkOK st' := by
  step_cases hs
  rename_i _ p hpc
  have hp := h p; link_close

theorem link_step_aLookup (a : Nat) (hs : step true st (.aLookup a) = some st')
    (h : ∀ q, SessOK (st.ss q)) (hl : LinkOK st) : LinkOK st' := by
  have hp := h (st.as a).sid
  step_cases hs <;> link_close

theorem link_step_aSend (a : Nat) (hs : step true st (.aSend a) = some st')
    (h : ∀ q, SessOK (st.ss q)) (hl : LinkOK st) : LinkOK st' := by
  step_cases hs
  · rename_i _ p hpc _ hb; have hp := h p; link_close
  · link_close

theorem link_step (l : Lab) (hs : step true st l = some st')
    (h : ∀ q, SessOK (st.ss q)) (hl : LinkOK st) : LinkOK st' := by
  cases l with
  | pollArrive p nat clients => exact link_step_pollArrive p nat clients hs h hl
  | clientArrive c nat fp => exact link_step_clientArrive c nat fp hs h hl
  | ansArrive a p => exact link_step_ansArrive a p hs h hl
  | add p => exact link_step_add p hs h hl
  | wOffer p c => exact link_step_wOffer p c hs h hl
  | wTimer p => exact link_step_wTimer p hs h hl
  | wCrit p => exact link_step_wCrit p hs h hl
  | wLate p c => exact link_step_wLate p c hs h hl
  | wFwd p => exact link_step_wFwd p hs h hl
  | hIdle p => exact link_step_hIdle p hs h hl
  | hRespond p => exact link_step_hRespond p hs h hl
  | cReject c => exact link_step_cReject c hs h hl
  | cMatch c p => exact link_step_cMatch c p hs h hl
  | cDeny c => exact link_step_cDeny c hs h hl
  | cAns c a => exact link_step_cAns c a hs h hl
  | cRecv c => exact link_step_cRecv c hs h hl
  | cTimer c => exact link_step_cTimer c hs h hl
  | cFin c => exact link_step_cFin c hs h hl
  | aLookup a => exact link_step_aLookup a hs h hl
  | aSend a => exact link_step_aSend a hs h hl
end
end Snowflake.Broker
