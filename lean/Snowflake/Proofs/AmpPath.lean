import Snowflake.Proofs.AmpDecode
import Snowflake.Model.AmpPath
/-! Helper lemmas for the AMP path / cache URL model (C11). -/
namespace Snowflake.AmpPath
open Snowflake.Base64 (Bytes)

/-! ## Last slash -/

theorem afterLastSlash_none : ∀ (s : Bytes), (∀ c ∈ s, c ≠ sl) → afterLastSlash s = none := by
  intro s
  induction s with
  | nil => intro _; rfl
  | cons c r ih =>
    intro h
    have hc : (c == sl) = false := by simpa using h c (List.mem_cons_self ..)
    simp [afterLastSlash, ih (fun x hx => h x (List.mem_cons_of_mem _ hx)), hc]

/-- Whatever precedes it, the text after the last slash is found. -/
theorem afterLastSlash_append : ∀ (p s : Bytes), (∀ c ∈ s, c ≠ sl) → afterLastSlash (p ++ sl :: s) = some s := by
  intro p
  induction p with
  | nil => intro s h; simp [afterLastSlash, afterLastSlash_none s h]
  | cons x p ih => intro s h; simp [afterLastSlash, ih s h]

/-! ## path.Clean on normal segments -/

def SlashFree (s : Bytes) : Prop := ∀ c ∈ s, c ≠ sl

/-- A path element that `Clean` keeps as it is. -/
def NormalSeg (s : Bytes) : Prop := s ≠ [] ∧ s ≠ dot ∧ s ≠ dotdot ∧ SlashFree s

theorem splitSlash_seg : ∀ (seg r cur : Bytes), SlashFree seg → splitSlash (seg ++ r) cur = splitSlash r (seg.reverse ++ cur) := by
  intro seg
  induction seg with
  | nil => intro r cur _; rfl
  | cons c cs ih =>
    intro r cur h
    have hc : (c == sl) = false := by simpa using h c (List.mem_cons_self ..)
    simp only [List.cons_append, splitSlash, hc, Bool.false_eq_true, if_false]
    rw [ih r (c :: cur) (fun x hx => h x (List.mem_cons_of_mem _ hx))]
    simp

theorem splitSlash_slash (r cur : Bytes) : splitSlash (sl :: r) cur = cur.reverse :: splitSlash r [] := by
  simp [splitSlash]

/-- Splitting a slash-joined list of slash-free segments gives the segments back. -/
theorem splitSlash_joinSlash : ∀ (l : List Bytes), l ≠ [] → (∀ s ∈ l, SlashFree s) → splitSlash (joinSlash l) [] = l := by
  intro l
  induction l with
  | nil => intro h; exact absurd rfl h
  | cons s r ih =>
    intro _ hf
    have hs := hf s (List.mem_cons_self ..)
    cases r with
    | nil =>
      simp only [joinSlash]
      have := splitSlash_seg s [] [] hs
      rw [List.append_nil] at this
      rw [this]; simp [splitSlash]
    | cons s' r' =>
      simp only [joinSlash]
      rw [splitSlash_seg s _ [] hs, splitSlash_slash]
      simp only [List.append_nil, List.reverse_reverse]
      rw [ih (by simp) (fun x hx => hf x (List.mem_cons_of_mem _ hx))]

/-- Empty elements are dropped, normal ones kept in order. -/
theorem cleanSegs_normal (rooted : Bool) : ∀ (l st : List Bytes), (∀ s ∈ l, s = [] ∨ NormalSeg s) →
    cleanSegs rooted l st = st.reverse ++ l.filter (fun s => !s.isEmpty) := by
  intro l
  induction l with
  | nil => intro st _; simp [cleanSegs]
  | cons s r ih =>
    intro st h
    have hr : ∀ x ∈ r, x = [] ∨ NormalSeg x := fun x hx => h x (List.mem_cons_of_mem _ hx)
    rcases h s (List.mem_cons_self ..) with h0 | hn
    · subst h0
      simp [cleanSegs, ih st hr]
    · obtain ⟨h1, h2, h3, _⟩ := hn
      have e1 : s.isEmpty = false := by simp [h1]
      have e2 : (s == dot) = false := by simp [h2]
      have e3 : (s == dotdot) = false := by simp [h3]
      simp only [cleanSegs, e1, e2, e3, Bool.false_eq_true, Bool.or_self, if_false]
      rw [ih (s :: st) hr]
      simp [List.filter_cons, e1]

/-- `/l₁/l₂/…/lₙ` — an absolute path given by its elements (the empty list is the empty path). -/
def absPath (l : List Bytes) : Bytes := (l.map (fun s => sl :: s)).flatten

theorem absPath_append (a b : List Bytes) : absPath (a ++ b) = absPath a ++ absPath b := by
  simp [absPath]

theorem splitSlash_single (x : Bytes) (hx : SlashFree x) (cur : Bytes) : splitSlash x cur = [(x.reverse ++ cur).reverse] := by
  have := splitSlash_seg x [] cur hx
  rw [List.append_nil] at this
  rw [this]; rfl

theorem splitSlash_absPath : ∀ (l : List Bytes) (cur : Bytes), (∀ s ∈ l, SlashFree s) →
    splitSlash (absPath l) cur = cur.reverse :: l := by
  intro l
  induction l with
  | nil => intro cur _; rfl
  | cons x l ih =>
    intro cur h
    have hx := h x (List.mem_cons_self ..)
    have : absPath (x :: l) = sl :: (x ++ absPath l) := by simp [absPath]
    rw [this, splitSlash_slash, splitSlash_seg x _ [] hx, ih _ (fun s hs => h s (List.mem_cons_of_mem _ hs))]
    simp

theorem joinRaw_nonempty : ∀ (es : List Bytes) (buf : Bytes), buf ≠ [] → joinRaw buf es = buf ++ absPath es := by
  intro es
  induction es with
  | nil => intro buf _; simp [joinRaw, absPath]
  | cons e es ih =>
    intro buf hb
    have hl : buf.length > 0 := List.length_pos_iff.mpr hb
    have c1 : (decide (buf.length > 0) || !e.isEmpty) = true := by simp [hl]
    rw [joinRaw, if_pos c1, if_pos hl, ih _ (by simp)]
    simp [absPath]

theorem joinRaw_skip (es : List Bytes) : joinRaw [] ([] :: es) = joinRaw [] es := by
  simp [joinRaw]

theorem joinRaw_first (e : Bytes) (es : List Bytes) (he : e ≠ []) : joinRaw [] (e :: es) = e ++ absPath es := by
  have c1 : (decide (([] : Bytes).length > 0) || !e.isEmpty) = true := by simp [he]
  have c2 : ¬ (([] : Bytes).length > 0) := by simp
  rw [joinRaw, if_pos c1, if_neg c2, List.nil_append, joinRaw_nonempty _ _ he]

theorem joinSlash_cons_ne (s : Bytes) (r : List Bytes) (hr : r ≠ []) : joinSlash (s :: r) = s ++ sl :: joinSlash r := by
  cases r with
  | nil => exact absurd rfl hr
  | cons a b => rfl

theorem joinSlash_ne_nil : ∀ (l : List Bytes), l ≠ [] → (∀ s ∈ l, s ≠ []) → joinSlash l ≠ [] := by
  intro l hl h
  cases l with
  | nil => exact absurd rfl hl
  | cons a r =>
    have ha := h a (List.mem_cons_self ..)
    cases r with
    | nil => exact ha
    | cons b r' => rw [joinSlash_cons_ne a _ (by simp)]; intro h0; exact ha (List.append_eq_nil_iff.mp h0).1

theorem normal_slashFree_all (l : List Bytes) (h : ∀ s ∈ l, NormalSeg s) : ∀ s ∈ l, SlashFree s :=
  fun s hs => (h s hs).2.2.2

theorem filter_normal (l : List Bytes) (h : ∀ s ∈ l, NormalSeg s) : l.filter (fun s => !s.isEmpty) = l := by
  apply List.filter_eq_self.mpr
  intro s hs
  simp [(h s hs).1]

/-- **`path.Join` on normal components.**  `cachePath` and `pubPath` are absolute paths given by
their (normal) elements — possibly empty —, `mid` the components in between: the result is the plain
concatenation, rooted exactly when the cache path is non-empty. -/
theorem pathJoin_normal (A mid P : List Bytes) (hA : ∀ s ∈ A, NormalSeg s) (hmid : ∀ s ∈ mid, NormalSeg s)
    (hP : ∀ s ∈ P, NormalSeg s) (hne : mid ≠ []) :
    pathJoin ([absPath A] ++ mid ++ [absPath P]) = (if A = [] then [] else [sl]) ++ joinSlash (A ++ mid ++ P) := by
  obtain ⟨m1, ms, rfl⟩ : ∃ m1 ms, mid = m1 :: ms := by
    cases mid with
    | nil => exact absurd rfl hne
    | cons a b => exact ⟨a, b, rfl⟩
  have hm1 := hmid m1 (List.mem_cons_self ..)
  have hms : ∀ s ∈ ms, NormalSeg s := fun s hs => hmid s (List.mem_cons_of_mem _ hs)
  have hsum : ¬ ((([absPath A] ++ (m1 :: ms) ++ [absPath P]).map List.length).sum = 0) := by
    have : 0 < m1.length := List.length_pos_iff.mpr hm1.1
    simp only [List.map_append, List.map_cons, List.sum_append, List.sum_cons]
    omega
  unfold pathJoin
  rw [if_neg hsum]
  have hfree : ∀ s ∈ A ++ (m1 :: ms) ++ [] :: P, SlashFree s := by
    intro s hs
    simp only [List.mem_append, List.mem_cons] at hs
    rcases hs with (h | h | h) | h | h
    · exact (hA s h).2.2.2
    · subst h; exact hm1.2.2.2
    · exact (hms s h).2.2.2
    · subst h; intro c hc; cases hc
    · exact (hP s h).2.2.2
  have hEN : ∀ s ∈ A ++ (m1 :: ms) ++ [] :: P, s = [] ∨ NormalSeg s := by
    intro s hs
    simp only [List.mem_append, List.mem_cons] at hs
    rcases hs with (h | h | h) | h | h
    · exact .inr (hA s h)
    · subst h; exact .inr hm1
    · exact .inr (hms s h)
    · exact .inl h
    · exact .inr (hP s h)
  have hfilter : (A ++ (m1 :: ms) ++ [] :: P).filter (fun s => !s.isEmpty) = A ++ (m1 :: ms) ++ P := by
    simp only [List.filter_append, List.filter_cons, List.isEmpty_nil, Bool.not_true, Bool.false_eq_true, if_false]
    rw [filter_normal A hA, filter_normal P hP, filter_normal ms hms]
    simp [hm1.1]
  have hjne : joinSlash (A ++ (m1 :: ms) ++ P) ≠ [] := by
    apply joinSlash_ne_nil _ (by simp)
    intro s hs
    simp only [List.mem_append, List.mem_cons] at hs
    rcases hs with (h | h | h) | h
    · exact (hA s h).1
    · subst h; exact hm1.1
    · exact (hms s h).1
    · exact (hP s h).1
  cases A with
  | nil =>
    -- relative result
    have hraw : joinRaw [] ([absPath []] ++ (m1 :: ms) ++ [absPath P]) = m1 ++ absPath (ms ++ [] :: P) := by
      have e0 : ([absPath ([] : List Bytes)] ++ (m1 :: ms) ++ [absPath P]) = [] :: m1 :: (ms ++ [absPath P]) := rfl
      rw [e0, joinRaw_skip, joinRaw_first m1 _ hm1.1, absPath_append, absPath_append]
      simp [absPath]
    rw [hraw]
    obtain ⟨c, cs, hm1eq⟩ : ∃ c cs, m1 = c :: cs := by
      cases m1 with
      | nil => exact absurd rfl hm1.1
      | cons c cs => exact ⟨c, cs, rfl⟩
    have hcsl : c ≠ sl := by
      apply hm1.2.2.2 c; rw [hm1eq]; exact List.mem_cons_self ..
    have hroot : ((m1 ++ absPath (ms ++ [] :: P)).head? == some sl) = false := by
      rw [hm1eq]
      simp only [List.cons_append, List.head?_cons]
      simp [hcsl]
    have hne1 : (m1 ++ absPath (ms ++ [] :: P)).isEmpty = false := by rw [hm1eq]; rfl
    have hfree2 : ∀ s ∈ ms ++ [] :: P, SlashFree s := by
      intro s hs
      apply hfree s
      simp only [List.nil_append, List.cons_append, List.mem_cons, List.mem_append] at hs ⊢
      rcases hs with h | h | h
      · exact .inr (.inl h)
      · exact .inr (.inr (.inl h))
      · exact .inr (.inr (.inr h))
    have hsplit : splitSlash (m1 ++ absPath (ms ++ [] :: P)) [] = m1 :: (ms ++ [] :: P) := by
      rw [splitSlash_seg m1 _ [] hm1.2.2.2, splitSlash_absPath _ _ hfree2]
      simp
    have hcl : cleanSegs false (m1 :: (ms ++ [] :: P)) [] = m1 :: (ms ++ P) := by
      rw [cleanSegs_normal false _ [] (fun s hs => hEN s (by simpa using hs))]
      simpa using hfilter
    have hjne2 : (joinSlash (m1 :: (ms ++ P))).isEmpty = false := by simpa using hjne
    unfold clean
    simp only [hne1, Bool.false_eq_true, if_false, hroot, List.nil_append, hsplit, hcl, hjne2, if_true,
      List.cons_append]
  | cons a A' =>
    have hane : absPath (a :: A') ≠ [] := by simp [absPath]
    have hraw : joinRaw [] ([absPath (a :: A')] ++ (m1 :: ms) ++ [absPath P]) = absPath ((a :: A') ++ (m1 :: ms) ++ [] :: P) := by
      have e0 : ([absPath (a :: A')] ++ (m1 :: ms) ++ [absPath P]) = absPath (a :: A') :: ((m1 :: ms) ++ [absPath P]) := rfl
      rw [e0, joinRaw_first _ _ hane, absPath_append, absPath_append, absPath_append]
      simp [absPath]
    rw [hraw]
    have hne1 : (absPath ((a :: A') ++ (m1 :: ms) ++ [] :: P)).isEmpty = false := by simp [absPath]
    have hroot : ((absPath ((a :: A') ++ (m1 :: ms) ++ [] :: P)).head? == some sl) = true := by simp [absPath]
    have hcl : cleanSegs true ([] :: ((a :: A') ++ (m1 :: ms) ++ [] :: P)) [] = (a :: A') ++ (m1 :: ms) ++ P := by
      rw [cleanSegs_normal true _ [] (by
        intro s hs
        rcases List.mem_cons.mp hs with h | h
        · exact .inl h
        · exact hEN s h)]
      simpa using hfilter
    have hjne2 : ([sl] ++ joinSlash ((a :: A') ++ (m1 :: ms) ++ P)).isEmpty = false := by simp
    unfold clean
    simp only [hne1, Bool.false_eq_true, if_false, hroot, if_true]
    rw [splitSlash_absPath _ [] hfree]
    simp only [List.reverse_nil, hcl, hjne2, Bool.false_eq_true, if_false]
    simp

/-! ## base32 -/

theorem ind5 {P : Bytes → Prop} (h0 : P []) (h1 : ∀ a, P [a]) (h2 : ∀ a b, P [a, b]) (h3 : ∀ a b c, P [a, b, c])
    (h4 : ∀ a b c d, P [a, b, c, d]) (h5 : ∀ a b c d e r, P r → P (a :: b :: c :: d :: e :: r)) : ∀ l, P l
  | [] => h0
  | [a] => h1 a
  | [a, b] => h2 a b
  | [a, b, c] => h3 a b c
  | [a, b, c, d] => h4 a b c d
  | a :: b :: c :: d :: e :: r => h5 a b c d e r (ind5 h0 h1 h2 h3 h4 h5 r)

/-- Characters of the lower-case base32 alphabet `a–z2–7`. -/
def isB32 (c : UInt8) : Bool := (97 ≤ c && c ≤ 122) || (50 ≤ c && c ≤ 55)

theorem b32sym_ok : ∀ i : Fin 32, isB32 (b32sym i.val) = true := by decide

theorem b32sym_mod (n : Nat) : isB32 (b32sym (n % 32)) = true := b32sym_ok ⟨n % 32, Nat.mod_lt _ (by decide)⟩

theorem base32_all : ∀ (l : Bytes), ∀ c ∈ base32 l, isB32 c = true := by
  apply ind5
  · intro c h; simp [base32] at h
  · intro a c h; simp only [base32, List.mem_cons, List.not_mem_nil, or_false] at h
    rcases h with rfl | rfl <;> exact b32sym_mod _
  · intro a b c h; simp only [base32, List.mem_cons, List.not_mem_nil, or_false] at h
    rcases h with rfl | rfl | rfl | rfl <;> exact b32sym_mod _
  · intro a b c' c h; simp only [base32, List.mem_cons, List.not_mem_nil, or_false] at h
    rcases h with rfl | rfl | rfl | rfl | rfl <;> exact b32sym_mod _
  · intro a b c' d c h; simp only [base32, List.mem_cons, List.not_mem_nil, or_false] at h
    rcases h with rfl | rfl | rfl | rfl | rfl | rfl | rfl <;> exact b32sym_mod _
  · intro a b c' d e r ih c h
    simp only [base32, List.mem_cons] at h
    rcases h with rfl | rfl | rfl | rfl | rfl | rfl | rfl | rfl | h
    all_goals first | exact b32sym_mod _ | exact ih c h

theorem base32_length : ∀ (l : Bytes), (base32 l).length = l.length / 5 * 8 + [0, 2, 4, 5, 7].getD (l.length % 5) 0 := by
  apply ind5
  · rfl
  · intro a; simp [base32]
  · intro a b; simp [base32]
  · intro a b c; simp [base32]
  · intro a b c d; simp [base32]
  · intro a b c d e r ih
    simp only [base32, List.length_cons, ih]
    have e1 : (r.length + 1 + 1 + 1 + 1 + 1) / 5 = r.length / 5 + 1 := by omega
    have e2 : (r.length + 1 + 1 + 1 + 1 + 1) % 5 = r.length % 5 := by omega
    rw [e1, e2]; omega

/-! ## the basic prefix -/

theorem isAscii_no_dot_map (p : Bytes) : ∀ c ∈ p.map (fun c => if c == 46 then 45 else c), c ≠ 46 := by
  intro c hc
  obtain ⟨x, _, rfl⟩ := List.mem_map.mp hc
  by_cases h : (x == 46) = true
  · simp [h]
  · simp only [h, Bool.false_eq_true, if_false]; intro h'; apply h; simp [h']

/-- Steps 2–4 never leave a dot. -/
theorem prefixMid_no_dot (u : Bytes) : ∀ c ∈ prefixMid u, c ≠ 46 := by
  intro c hc
  unfold prefixMid at hc
  simp only [] at hc
  split at hc
  · simp only [List.mem_append, List.mem_cons, List.not_mem_nil, or_false] at hc
    rcases hc with (h | h) | h
    · rcases h with rfl | rfl <;> decide
    · exact isAscii_no_dot_map _ c h
    · rcases h with rfl | rfl <;> decide
  · exact isAscii_no_dot_map _ c hc

/-- The output of step 4 never starts with `xn--`: a string with hyphens at positions 3 and 4 is
wrapped in `0-…-0`.  (So `idna.ToASCII` has no punycode label to decode in it, and on ASCII input it
is the identity — the assumption under which `domainPrefixBasic` does not consult `asc`.) -/
theorem prefixMid_not_ace (u : Bytes) : GoStr.hasPrefix (prefixMid u) acePrefix = false := by
  unfold prefixMid
  simp only []
  generalize (List.map (fun c => if c == 46 then 45 else c) (List.flatMap (fun c => if c == 45 then [45, 45] else [c]) u)) = p
  split
  · rfl
  · rename_i h
    match p with
    | [] => rfl
    | [_] => simp [GoStr.hasPrefix, acePrefix, List.isPrefixOf]
    | [_, _] => simp [GoStr.hasPrefix, acePrefix, List.isPrefixOf]
    | [_, _, _] => simp [GoStr.hasPrefix, acePrefix, List.isPrefixOf]
    | a :: b :: c :: d :: r =>
      have hcd : ¬ (c = 45 ∧ d = 45) := by
        intro ⟨hc, hd⟩
        apply h
        subst hc hd
        simp
      simp only [GoStr.hasPrefix, acePrefix, List.isPrefixOf, Bool.and_eq_false_iff, beq_eq_false_iff_ne, ne_eq]
      by_cases hc : c = 45
      · right; right; right; left; intro h'; exact hcd ⟨hc, h'.symm⟩
      · right; right; left; intro h'; exact hc h'.symm

end Snowflake.AmpPath
