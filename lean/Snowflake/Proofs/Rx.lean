import Snowflake.Base.Rx
/-!
Generic theorems about `Snowflake.Rx` (independent of any concrete expression):

* `run_sound` / `run_complete` — the backtracking matcher against the denotation `Matches`;
* `findFrom_sound` (a match, and a leftmost one) / `findFrom_complete` / `findFrom_none`;
* pieces of the replacement loop: they partition the text, every hit is a match, the first search hit
  is replaced;
* structural analyses: `minWeight_sound`, `anchorFree_frame`, `eraseCaps`/`factors` preserve matching;
* UTF-8 text: `bytesOf_decode`, tokens are well formed, a segment of a decoded text decodes to itself.
-/
namespace Snowflake.Rx

/-! ## `run` against `Matches` -/

theorem starLoop_sound {α} (a : Rx)
    (iha : ∀ (l xs : List Tok) (k : Pos → Option α) (v : α), run a (l, xs) k = some v →
      ∃ m t, xs = m ++ t ∧ Matches a l m t ∧ k (m.reverse ++ l, t) = some v) :
    ∀ (n : Nat) (first : Bool) (l xs : List Tok) (k : Pos → Option α) (v : α),
      starLoop (fun p' k' => run a p' k') n first (l, xs) k = some v →
      ∃ m t, xs = m ++ t ∧ Matches (.star a) l m t ∧ k (m.reverse ++ l, t) = some v := by
  intro n
  induction n with
  | zero =>
    intro first l xs k v h
    exact ⟨[], xs, rfl, .starNil a l xs, by simpa [starLoop] using h⟩
  | succ n ih =>
    intro first l xs k v h
    simp only [starLoop] at h
    split at h
    · rename_i w hw
      cases h
      obtain ⟨m₁, t₁, hx, hm, hk⟩ := iha _ _ _ _ hw
      simp only at hk
      split at hk
      · obtain ⟨m₂, t, ht, hs, hk'⟩ := ih _ _ _ _ _ hk
        refine ⟨m₁ ++ m₂, t, by simp [hx, ht], .starCons (ht ▸ hm) hs, ?_⟩
        simpa using hk'
      · rename_i hlen
        have hm1 : m₁ = [] := by
          cases m₁ with
          | nil => rfl
          | cons y ys => exfalso; apply hlen; simp [hx]; omega
        subst hm1
        split at hk
        · exact ⟨[], xs, rfl, .starNil a l xs, by simpa [hx] using hk⟩
        · cases hk
    · exact ⟨[], xs, rfl, .starNil a l xs, by simpa using h⟩

/-- **Soundness of the matcher**: whatever `run` hands to its continuation is the end of a match. -/
theorem run_sound {α} (r : Rx) : ∀ (l xs : List Tok) (k : Pos → Option α) (v : α),
    run r (l, xs) k = some v → ∃ m t, xs = m ++ t ∧ Matches r l m t ∧ k (m.reverse ++ l, t) = some v := by
  induction r with
  | eps => intro l xs k v h; exact ⟨[], xs, rfl, .eps l xs, by simpa [run] using h⟩
  | cls rs =>
    intro l xs k v h
    cases xs with
    | nil => simp [run] at h
    | cons x xs =>
      simp only [run] at h
      split at h
      · exact ⟨[x], xs, rfl, .cls rs l x xs ‹_›, by simpa using h⟩
      · cases h
  | cat a b iha ihb =>
    intro l xs k v h
    simp only [run] at h
    obtain ⟨m₁, t₁, hx, hm, hk⟩ := iha _ _ _ _ h
    obtain ⟨m₂, t, ht, hm2, hk'⟩ := ihb _ _ _ _ hk
    refine ⟨m₁ ++ m₂, t, by simp [hx, ht], .cat (ht ▸ hm) hm2, ?_⟩
    simpa using hk'
  | alt a b iha ihb =>
    intro l xs k v h
    simp only [run] at h
    split at h
    · cases h
      obtain ⟨m, t, hx, hm, hk⟩ := iha _ _ _ _ ‹_›
      exact ⟨m, t, hx, .altL hm, hk⟩
    · obtain ⟨m, t, hx, hm, hk⟩ := ihb _ _ _ _ h
      exact ⟨m, t, hx, .altR hm, hk⟩
  | star a iha =>
    intro l xs k v h
    simp only [run] at h
    exact starLoop_sound a iha _ _ _ _ _ _ h
  | cap i a iha =>
    intro l xs k v h
    simp only [run] at h
    obtain ⟨m, t, hx, hm, hk⟩ := iha _ _ _ _ h
    exact ⟨m, t, hx, .cap hm, hk⟩
  | bot =>
    intro l xs k v h
    simp only [run] at h
    split at h
    · have : l = [] := by simpa using ‹l.isEmpty = true›
      subst this
      exact ⟨[], xs, rfl, .bot xs, by simpa using h⟩
    · cases h
  | eot =>
    intro l xs k v h
    simp only [run] at h
    split at h
    · have : xs = [] := by simpa using ‹xs.isEmpty = true›
      subst this
      exact ⟨[], [], rfl, .eot l, by simpa using h⟩
    · cases h
  | bol =>
    intro l xs k v h
    simp only [run] at h
    split at h
    · exact ⟨[], xs, rfl, .bol l xs ‹_›, by simpa using h⟩
    · cases h
  | eol =>
    intro l xs k v h
    simp only [run] at h
    split at h
    · exact ⟨[], xs, rfl, .eol l xs ‹_›, by simpa using h⟩
    · cases h

/-- Completeness, in the generalised form needed for the induction: for `star` the statement covers every
fuel that is at least the remaining input and both values of the first-round flag. -/
theorem run_complete_aux {α} {r : Rx} {l m t : List Tok} (h : Matches r l m t) :
    (∀ (k : Pos → Option α), (k (m.reverse ++ l, t)).isSome → (run r (l, m ++ t) k).isSome) ∧
    (∀ a, r = .star a → ∀ (n : Nat) (first : Bool) (k : Pos → Option α), (m ++ t).length ≤ n →
      (k (m.reverse ++ l, t)).isSome →
      (starLoop (fun p' k' => run a p' k') n first (l, m ++ t) k).isSome) := by
  induction h with
  | eps l t => exact ⟨fun k hk => by simpa [run] using hk, fun a h => by cases h⟩
  | cls rs l x t hm => exact ⟨fun k hk => by simpa [run, hm] using hk, fun a h => by cases h⟩
  | @cat a b l m₁ m₂ t _ _ iha ihb =>
    refine ⟨fun k hk => ?_, fun a h => by cases h⟩
    simp only [run, List.append_assoc]
    apply iha.1
    apply ihb.1
    simpa using hk
  | altL _ ih =>
    refine ⟨fun k hk => ?_, fun a h => by cases h⟩
    simp only [run]
    have := ih.1 k hk
    split <;> simp_all
  | altR _ ih =>
    refine ⟨fun k hk => ?_, fun a h => by cases h⟩
    simp only [run]
    split
    · simp
    · exact ih.1 k hk
  | starNil a l t =>
    have key : ∀ (n : Nat) (first : Bool) (k : Pos → Option α),
        (k (l, t)).isSome → (starLoop (fun p' k' => run a p' k') n first (l, t) k).isSome := by
      intro n first k hk
      cases n with
      | zero => simpa [starLoop] using hk
      | succ n =>
        simp only [starLoop]
        split
        · simp
        · exact hk
    refine ⟨fun k hk => ?_, fun a' h n first k _ hk => ?_⟩
    · simp only [run]; exact key _ _ _ (by simpa using hk)
    · cases h; exact key _ _ _ (by simpa using hk)
  | @starCons a l m₁ m₂ t _ _ iha ihs =>
    have key : ∀ (n : Nat) (first : Bool) (k : Pos → Option α), ((m₁ ++ m₂) ++ t).length ≤ n →
        (k ((m₁ ++ m₂).reverse ++ l, t)).isSome →
        (starLoop (fun p' k' => run a p' k') n first (l, (m₁ ++ m₂) ++ t) k).isSome := by
      intro n first k hn hk
      cases m₁ with
      | nil => simpa using ihs.2 a rfl n first k (by simpa using hn) (by simpa using hk)
      | cons y ys =>
        cases n with
        | zero => simp at hn
        | succ n =>
          simp only [starLoop]
          have : (run a (l, (y :: ys ++ m₂) ++ t)
              (fun q => if q.2.length < ((y :: ys ++ m₂) ++ t).length then
                  starLoop (fun p' k' => run a p' k') n false q k
                else if first then k q else none)).isSome := by
            rw [List.append_assoc]
            apply iha.1
            have hlt : (m₂ ++ t).length < (y :: ys ++ (m₂ ++ t)).length := by simp; omega
            simp only [hlt, if_true]
            apply ihs.2 a rfl n false k
            · simp at hn ⊢; omega
            · simpa using hk
          split
          · simp
          · rename_i hnone; rw [hnone] at this; simp at this
    refine ⟨fun k hk => ?_, fun a' h n first k hn hk => ?_⟩
    · simp only [run]; exact key _ _ _ (Nat.le_refl _) hk
    · cases h; exact key _ _ _ hn hk
  | cap _ ih => exact ⟨fun k hk => by simp only [run]; exact ih.1 k hk, fun a h => by cases h⟩
  | bot t => exact ⟨fun k hk => by simpa [run] using hk, fun a h => by cases h⟩
  | eot l => exact ⟨fun k hk => by simpa [run] using hk, fun a h => by cases h⟩
  | bol l t hl => exact ⟨fun k hk => by simpa [run, hl] using hk, fun a h => by cases h⟩
  | eol l t hl => exact ⟨fun k hk => by simpa [run, hl] using hk, fun a h => by cases h⟩

/-- **Completeness of the matcher**: if `r` matches `m` here and the continuation accepts the end of that
match, `run` succeeds (possibly with a match of higher priority that the continuation also accepts). -/
theorem run_complete {α} {r : Rx} {l m t : List Tok} (h : Matches r l m t) (k : Pos → Option α)
    (hk : (k (m.reverse ++ l, t)).isSome) : (run r (l, m ++ t) k).isSome :=
  (run_complete_aux h).1 k hk

/-! ## `matchAt`, `findFrom` -/

theorem matchAt_sound {r : Rx} {l xs m t : List Tok} (h : matchAt r l xs = some (m, t)) :
    xs = m ++ t ∧ Matches r l m t := by
  unfold matchAt at h
  split at h
  · rename_i t' ht
    obtain ⟨m', t'', hx, hm, hk⟩ := run_sound r l xs (fun q => some q.2) t' ht
    simp only [Option.some.injEq] at hk
    subst hk
    simp only [Option.some.injEq, Prod.mk.injEq] at h
    obtain ⟨h1, h2⟩ := h
    subst h2
    have : m = m' := by rw [← h1, hx]; simp
    subst this
    exact ⟨hx, hm⟩
  · cases h

theorem matchAt_complete {r : Rx} {l m t : List Tok} (h : Matches r l m t) :
    (matchAt r l (m ++ t)).isSome := by
  unfold matchAt
  have := run_complete h (fun q => some q.2) (by simp)
  split
  · simp
  · rename_i hn; rw [hn] at this; simp at this

/-- **`find` returns a match, and a leftmost one**: no match of `r` starts earlier in the text. -/
theorem findFrom_sound {r : Rx} : ∀ {xs l s m t : List Tok}, findFrom r l xs = some (s, m, t) →
    xs = s ++ (m ++ t) ∧ Matches r (s.reverse ++ l) m t ∧
    (∀ s' m' t', xs = s' ++ (m' ++ t') → Matches r (s'.reverse ++ l) m' t' → s.length ≤ s'.length) := by
  intro xs
  induction xs with
  | nil =>
    intro l s m t h
    simp only [findFrom] at h
    split at h
    · rename_i m0 t0 h0
      simp only [Option.some.injEq, Prod.mk.injEq] at h
      obtain ⟨rfl, rfl, rfl⟩ := h
      obtain ⟨hx, hm⟩ := matchAt_sound h0
      exact ⟨by simpa using hx, by simpa using hm, fun _ _ _ _ _ => Nat.zero_le _⟩
    · cases h
  | cons x xs ih =>
    intro l s m t h
    simp only [findFrom] at h
    split at h
    · rename_i m0 t0 h0
      simp only [Option.some.injEq, Prod.mk.injEq] at h
      obtain ⟨rfl, rfl, rfl⟩ := h
      obtain ⟨hx, hm⟩ := matchAt_sound h0
      exact ⟨by simpa using hx, by simpa using hm, fun _ _ _ _ _ => Nat.zero_le _⟩
    · rename_i hnone
      split at h
      · rename_i s0 m0 t0 h0
        simp only [Option.some.injEq, Prod.mk.injEq] at h
        obtain ⟨rfl, rfl, rfl⟩ := h
        obtain ⟨hx, hm, hleft⟩ := ih h0
        refine ⟨by simp [hx], by simpa using hm, ?_⟩
        intro s' m' t' hx' hm'
        cases s' with
        | nil =>
          exfalso
          have := matchAt_complete (by simpa using hm' : Matches r l m' t')
          rw [show m' ++ t' = x :: xs by simpa using hx'.symm, hnone] at this
          simp at this
        | cons y ys =>
          simp only [List.cons_append, List.cons.injEq] at hx'
          obtain ⟨rfl, hx''⟩ := hx'
          have := hleft ys m' t' hx'' (by simpa using hm')
          simp; omega
      · cases h

/-- **`find` finds a match whenever one exists** anywhere at or after the current position. -/
theorem findFrom_complete {r : Rx} : ∀ {s l m t : List Tok}, Matches r (s.reverse ++ l) m t →
    (findFrom r l (s ++ (m ++ t))).isSome := by
  intro s
  induction s with
  | nil =>
    intro l m t h
    have := matchAt_complete (by simpa using h : Matches r l m t)
    simp only [List.nil_append]
    cases hmt : m ++ t with
    | nil =>
      rw [hmt] at this
      simp only [findFrom]
      split
      · simp
      · rename_i hn; rw [hn] at this; simp at this
    | cons y ys =>
      rw [hmt] at this
      simp only [findFrom]
      split
      · simp
      · rename_i hn; rw [hn] at this; simp at this
  | cons x s ih =>
    intro l m t h
    simp only [List.cons_append, findFrom]
    split
    · simp
    · have := ih (l := x :: l) (m := m) (t := t) (by simpa using h)
      split
      · simp
      · rename_i hn; rw [hn] at this; simp at this

/-- No result means no match anywhere in the rest of the text. -/
theorem findFrom_none {r : Rx} {l xs : List Tok} (h : findFrom r l xs = none) (s m t : List Tok)
    (hx : xs = s ++ (m ++ t)) : ¬ Matches r (s.reverse ++ l) m t := by
  intro hm
  have := findFrom_complete (s := s) (l := l) hm
  rw [← hx, h] at this
  simp at this

/-- The match reported at the leftmost position is the one `run` prefers there (Go's priority). -/
theorem findFrom_priority {r : Rx} : ∀ {xs l s m t : List Tok}, findFrom r l xs = some (s, m, t) →
    matchAt r (s.reverse ++ l) (m ++ t) = some (m, t) := by
  intro xs
  induction xs with
  | nil =>
    intro l s m t h
    simp only [findFrom] at h
    split at h
    · rename_i m0 t0 h0
      simp only [Option.some.injEq, Prod.mk.injEq] at h
      obtain ⟨rfl, rfl, rfl⟩ := h
      obtain ⟨hx, _⟩ := matchAt_sound h0
      simpa [← hx] using h0
    · cases h
  | cons x xs ih =>
    intro l s m t h
    simp only [findFrom] at h
    split at h
    · rename_i m0 t0 h0
      simp only [Option.some.injEq, Prod.mk.injEq] at h
      obtain ⟨rfl, rfl, rfl⟩ := h
      obtain ⟨hx, _⟩ := matchAt_sound h0
      simpa [← hx] using h0
    · split at h
      · rename_i s0 m0 t0 h0
        simp only [Option.some.injEq, Prod.mk.injEq] at h
        obtain ⟨rfl, rfl, rfl⟩ := h
        simpa using ih h0
      · cases h

/-! ## The replacement loop -/

/-- All text of a piece list, in order. -/
def tokensOf : List Piece → List Tok
  | [] => []
  | .keep t :: ps => t ++ tokensOf ps
  | .hit m :: ps => m ++ tokensOf ps

/-- The matches that get replaced. -/
def hits : List Piece → List (List Tok)
  | [] => []
  | .keep _ :: ps => hits ps
  | .hit m :: ps => m :: hits ps

@[simp] theorem tokensOf_append (a b : List Piece) : tokensOf (a ++ b) = tokensOf a ++ tokensOf b := by
  induction a with
  | nil => rfl
  | cons p ps ih => cases p <;> simp [tokensOf, ih]

@[simp] theorem hits_append (a b : List Piece) : hits (a ++ b) = hits a ++ hits b := by
  induction a with
  | nil => rfl
  | cons p ps ih => cases p <;> simp [hits, ih]

/-- **The pieces partition the text**: nothing is lost, duplicated or reordered by the loop. -/
theorem tokensOf_replPieces (r : Rx) : ∀ (n : Nat) (l : List Tok) (am : Bool) (xs : List Tok),
    tokensOf (replPieces r n l am xs) = xs := by
  intro n
  induction n with
  | zero => intro l am xs; simp [replPieces, tokensOf]
  | succ n ih =>
    intro l am xs
    simp only [replPieces]
    split
    · simp [tokensOf]
    · rename_i s m t hf
      obtain ⟨hx, _, _⟩ := findFrom_sound hf
      by_cases hhere : (m.isEmpty && s.isEmpty) = true
      · have hm : m = [] := by simp at hhere; exact hhere.1
        have hs : s = [] := by simp at hhere; exact hhere.2
        subst hm hs
        simp only [List.isEmpty_nil, Bool.and_self, if_true, Bool.true_and]
        cases t with
        | nil => cases am <;> simp [tokensOf, hx]
        | cons y ys => cases am <;> simp [tokensOf, hx, ih]
      · simp only [hhere, Bool.false_and, if_false, Bool.false_eq_true]
        simp [tokensOf, hx, ih]

/-- **Every replaced piece is a match of `r` in its place in the text.** -/
theorem hits_replPieces (r : Rx) : ∀ (n : Nat) (l : List Tok) (am : Bool) (xs m : List Tok),
    m ∈ hits (replPieces r n l am xs) →
    ∃ pre post, xs = pre ++ (m ++ post) ∧ Matches r (pre.reverse ++ l) m post := by
  intro n
  induction n with
  | zero => intro l am xs m h; simp [replPieces, hits] at h
  | succ n ih =>
    intro l am xs m h
    simp only [replPieces] at h
    split at h
    · simp [hits] at h
    · rename_i s m0 t hf
      obtain ⟨hx, hm0, _⟩ := findFrom_sound hf
      have hhead : ∀ (b : Bool), m ∈ hits (if b then [Piece.keep s] else [Piece.keep s, Piece.hit m0]) →
          ∃ pre post, xs = pre ++ (m ++ post) ∧ Matches r (pre.reverse ++ l) m post := by
        intro b hb
        cases b
        · simp [hits] at hb; subst hb; exact ⟨s, t, hx, hm0⟩
        · simp [hits] at hb
      have htail : ∀ (l' pre0 xs' : List Tok) (am' : Bool), xs = pre0 ++ xs' → l' = pre0.reverse ++ l →
          m ∈ hits (replPieces r n l' am' xs') →
          ∃ pre post, xs = pre ++ (m ++ post) ∧ Matches r (pre.reverse ++ l) m post := by
        intro l' pre0 xs' am' hxs hl' hmem
        obtain ⟨pre, post, hx', hm'⟩ := ih l' am' xs' m hmem
        refine ⟨pre0 ++ pre, post, by simp [hxs, hx'], ?_⟩
        subst hl'
        simpa using hm'
      split at h
      · cases t with
        | nil => exact hhead _ h
        | cons y ys =>
          simp only [hits_append, List.mem_append] at h
          rcases h with h | h
          · exact hhead _ h
          · simp only [hits] at h
            exact htail _ (s ++ (m0 ++ [y])) ys false (by simp [hx]) (by simp) h
      · simp only [hits_append, List.mem_append] at h
        rcases h with h | h
        · exact hhead _ h
        · exact htail _ (s ++ m0) t true (by simp [hx]) (by simp) h

/-- **The first match found is replaced** (at the start of the loop no match precedes it). -/
theorem first_hit_replPieces (r : Rx) (n : Nat) (l xs s m t : List Tok)
    (hf : findFrom r l xs = some (s, m, t)) : m ∈ hits (replPieces r (n + 1) l false xs) := by
  simp only [replPieces, hf, Bool.and_false, if_false, Bool.false_eq_true]
  split
  · cases t <;> simp [hits]
  · simp [hits]

theorem weightB_append (w : UInt8 → Nat) (a b : List UInt8) :
    weightB w (a ++ b) = weightB w a + weightB w b := by
  induction a with
  | nil => simp [weightB]
  | cons x xs ih => simp [weightB, ih]; omega

theorem bytesOf_append (a b : List Tok) : bytesOf (a ++ b) = bytesOf a ++ bytesOf b := by
  simp [bytesOf]

theorem weightT_append (w : UInt8 → Nat) (a b : List Tok) :
    weightT w (a ++ b) = weightT w a + weightT w b := by
  simp [weightT, bytesOf_append, weightB_append]

/-- Rendering never weighs more than the text if no replacement weighs more than what it replaces … -/
theorem render_weight_le (w : UInt8 → Nat) (f : List UInt8 → List UInt8) : ∀ (ps : List Piece),
    (∀ m ∈ hits ps, weightB w (f (bytesOf m)) ≤ weightT w m) →
    weightB w (render f ps) ≤ weightT w (tokensOf ps) := by
  intro ps
  induction ps with
  | nil => intro _; simp [render, tokensOf, weightT, bytesOf, weightB]
  | cons p ps ih =>
    intro h
    cases p with
    | keep t =>
      have := ih (fun m hm => h m (by simpa [hits] using hm))
      simp only [render, tokensOf, weightB_append, weightT_append]
      simp only [weightT] at this ⊢
      omega
    | hit m0 =>
      have := ih (fun m hm => h m (by simp [hits, hm]))
      have h0 := h m0 (by simp [hits])
      simp only [render, tokensOf, weightB_append, weightT_append]
      omega

/-- … and weighs strictly less if one replacement is strictly lighter. -/
theorem render_weight_lt (w : UInt8 → Nat) (f : List UInt8 → List UInt8) : ∀ (ps : List Piece),
    (∀ m ∈ hits ps, weightB w (f (bytesOf m)) ≤ weightT w m) →
    (∃ m ∈ hits ps, weightB w (f (bytesOf m)) < weightT w m) →
    weightB w (render f ps) < weightT w (tokensOf ps) := by
  intro ps
  induction ps with
  | nil => intro _ ⟨m, hm, _⟩; simp [hits] at hm
  | cons p ps ih =>
    intro h ⟨m1, hm1, hlt⟩
    cases p with
    | keep t =>
      have := ih (fun m hm => h m (by simpa [hits] using hm)) ⟨m1, by simpa [hits] using hm1, hlt⟩
      simp only [render, tokensOf, weightB_append, weightT_append]
      simp only [weightT] at this ⊢
      omega
    | hit m0 =>
      have hle := render_weight_le w f ps (fun m hm => h m (by simp [hits, hm]))
      have h0 := h m0 (by simp [hits])
      simp only [render, tokensOf, weightB_append, weightT_append]
      simp only [hits, List.mem_cons] at hm1
      rcases hm1 with rfl | hm1
      · omega
      · have := ih (fun m hm => h m (by simp [hits, hm])) ⟨m1, hm1, hlt⟩
        omega

/-! ## Structural analyses -/

/-- A token as `decode` produces it: an ASCII code point stands for exactly its own byte. -/
def WFTok (x : Tok) : Prop := x.r < 128 → x.bs = [UInt8.ofNat x.r]

theorem clsLB_sound (w : UInt8 → Nat) (x : Tok) (hx : WFTok x) : ∀ (rs : List (Nat × Nat)),
    clsMem rs x.r = true → clsLB w rs ≤ weightB w x.bs := by
  intro rs
  induction rs with
  | nil => intro h; simp [clsMem] at h
  | cons p rest ih =>
    intro h
    obtain ⟨lo, hi⟩ := p
    have single : clsMem [(lo, hi)] x.r = true →
        (if lo = hi ∧ lo < 128 then w (UInt8.ofNat lo) else 0) ≤ weightB w x.bs := by
      intro hm
      split
      · rename_i hc
        obtain ⟨rfl, hlt⟩ := hc
        simp [clsMem] at hm
        have : x.r = lo := by omega
        rw [hx (by omega), this]
        simp [weightB]
      · exact Nat.zero_le _
    cases rest with
    | nil => simpa [clsLB] using single h
    | cons q rest' =>
      simp only [clsLB]
      simp only [clsMem, List.any_cons, Bool.or_eq_true] at h
      rcases h with h | h
      · exact Nat.le_trans (Nat.min_le_left _ _) (single (by simpa [clsMem] using h))
      · exact Nat.le_trans (Nat.min_le_right _ _) (ih (by simpa [clsMem] using h))

/-- **`minWeight` is a lower bound** for the weight of every match consisting of well-formed tokens. -/
theorem minWeight_sound (w : UInt8 → Nat) {r : Rx} {l m t : List Tok} (h : Matches r l m t) :
    (∀ x ∈ m, WFTok x) → minWeight w r ≤ weightT w m := by
  induction h with
  | eps => intro _; simp [minWeight]
  | cls rs l x t hm =>
    intro hwf
    have := clsLB_sound w x (hwf x (by simp)) rs hm
    simpa [minWeight, weightT, bytesOf] using this
  | cat _ _ iha ihb =>
    intro hwf
    have := iha (fun x hx => hwf x (by simp [hx]))
    have := ihb (fun x hx => hwf x (by simp [hx]))
    simp only [minWeight, weightT_append]; omega
  | altL _ ih => intro hwf; exact Nat.le_trans (Nat.min_le_left _ _) (ih hwf)
  | altR _ ih => intro hwf; exact Nat.le_trans (Nat.min_le_right _ _) (ih hwf)
  | starNil => intro _; simp [minWeight]
  | starCons => intro _; simp [minWeight]
  | cap _ ih => intro hwf; exact ih hwf
  | bot => intro _; simp [minWeight]
  | eot => intro _; simp [minWeight]
  | bol => intro _; simp [minWeight]
  | eol => intro _; simp [minWeight]

/-- **An expression without anchors matches a segment regardless of what surrounds it.** -/
theorem anchorFree_frame {r : Rx} {l m t : List Tok} (h : Matches r l m t) :
    anchorFree r = true → ∀ (l' t' : List Tok), Matches r l' m t' := by
  induction h with
  | eps => intro _ l' t'; exact .eps l' t'
  | cls rs l x t hm => intro _ l' t'; exact .cls rs l' x t' hm
  | cat _ _ iha ihb =>
    intro ha l' t'
    simp only [anchorFree, Bool.and_eq_true] at ha
    exact .cat (iha ha.1 _ _) (ihb ha.2 _ _)
  | altL _ ih =>
    intro ha l' t'
    simp only [anchorFree, Bool.and_eq_true] at ha
    exact .altL (ih ha.1 _ _)
  | altR _ ih =>
    intro ha l' t'
    simp only [anchorFree, Bool.and_eq_true] at ha
    exact .altR (ih ha.2 _ _)
  | starNil a l t => intro _ l' t'; exact .starNil a l' t'
  | starCons _ _ iha ihs =>
    intro ha l' t'
    exact .starCons (iha (by simpa [anchorFree] using ha) _ _) (ihs ha _ _)
  | cap _ ih => intro ha l' t'; exact .cap (ih (by simpa [anchorFree] using ha) _ _)
  | bot => intro ha; simp [anchorFree] at ha
  | eot => intro ha; simp [anchorFree] at ha
  | bol => intro ha; simp [anchorFree] at ha
  | eol => intro ha; simp [anchorFree] at ha

/-- **A code point that no class contains occurs in no match.** -/
theorem avoids_sound {c : Nat} {r : Rx} {l m t : List Tok} (h : Matches r l m t) :
    avoids c r = true → ∀ x ∈ m, x.r ≠ c := by
  induction h with
  | eps => intro _ x hx; simp at hx
  | cls rs l x t hm =>
    intro ha y hy
    simp only [List.mem_singleton] at hy
    subst hy
    intro he
    simp [avoids, ← he, hm] at ha
  | cat _ _ iha ihb =>
    intro ha x hx
    simp only [avoids, Bool.and_eq_true] at ha
    rcases List.mem_append.1 hx with h | h
    · exact iha ha.1 x h
    · exact ihb ha.2 x h
  | altL _ ih => intro ha; simp only [avoids, Bool.and_eq_true] at ha; exact ih ha.1
  | altR _ ih => intro ha; simp only [avoids, Bool.and_eq_true] at ha; exact ih ha.2
  | starNil => intro _ x hx; simp at hx
  | starCons _ _ iha ihs =>
    intro ha x hx
    rcases List.mem_append.1 hx with h | h
    · exact iha (by simpa [avoids] using ha) x h
    · exact ihs ha x h
  | cap _ ih => intro ha; exact ih (by simpa [avoids] using ha)
  | bot => intro _ x hx; simp at hx
  | eot => intro _ x hx; simp at hx
  | bol => intro _ x hx; simp at hx
  | eol => intro _ x hx; simp at hx

theorem matches_eraseCaps_of {r : Rx} {l m t : List Tok} (h : Matches r l m t) :
    Matches (eraseCaps r) l m t := by
  induction h with
  | eps l t => exact .eps l t
  | cls rs l x t hm => exact .cls rs l x t hm
  | cat _ _ iha ihb => exact .cat iha ihb
  | altL _ ih => exact .altL ih
  | altR _ ih => exact .altR ih
  | starNil a l t => exact .starNil _ l t
  | starCons _ _ iha ihs => exact .starCons iha ihs
  | cap _ ih => exact ih
  | bot t => exact .bot t
  | eot l => exact .eot l
  | bol l t h => exact .bol l t h
  | eol l t h => exact .eol l t h

theorem matches_of_eraseCaps (r : Rx) : ∀ {l m t : List Tok}, Matches (eraseCaps r) l m t → Matches r l m t := by
  induction r with
  | eps => intro l m t h; exact h
  | cls rs => intro l m t h; exact h
  | cat a b iha ihb =>
    intro l m t h
    simp only [eraseCaps] at h
    cases h with
    | cat h1 h2 => exact .cat (iha h1) (ihb h2)
  | alt a b iha ihb =>
    intro l m t h
    simp only [eraseCaps] at h
    cases h with
    | altL h1 => exact .altL (iha h1)
    | altR h1 => exact .altR (ihb h1)
  | star a iha =>
    intro l m t h
    simp only [eraseCaps] at h
    generalize hs : (eraseCaps a).star = s at h
    induction h with
    | starNil a' l t => exact .starNil a l t
    | starCons h1 _ _ ih2 =>
      cases hs
      exact .starCons (iha h1) (ih2 rfl)
    | _ => cases hs
  | cap i a iha => intro l m t h; exact .cap (iha (by simpa [eraseCaps] using h))
  | bot => intro l m t h; exact h
  | eot => intro l m t h; exact h
  | bol => intro l m t h; exact h
  | eol => intro l m t h; exact h

/-- **Captures are transparent.** -/
theorem matches_eraseCaps_iff (r : Rx) (l m t : List Tok) :
    Matches (eraseCaps r) l m t ↔ Matches r l m t :=
  ⟨matches_of_eraseCaps r, matches_eraseCaps_of⟩

/-- Matching a list of factors one after the other. -/
inductive MatchesL : List Rx → List Tok → List Tok → List Tok → Prop
  | nil (l t) : MatchesL [] l [] t
  | cons {f fs l m₁ m₂ t} : Matches f l m₁ (m₂ ++ t) → MatchesL fs (m₁.reverse ++ l) m₂ t →
      MatchesL (f :: fs) l (m₁ ++ m₂) t

theorem matchesL_append_of {fs gs : List Rx} : ∀ {l m₁ m₂ t : List Tok},
    MatchesL fs l m₁ (m₂ ++ t) → MatchesL gs (m₁.reverse ++ l) m₂ t → MatchesL (fs ++ gs) l (m₁ ++ m₂) t := by
  induction fs with
  | nil =>
    intro l m₁ m₂ t h1 h2
    cases h1
    simpa using h2
  | cons f fs ih =>
    intro l m₁ m₂ t h1 h2
    cases h1 with
    | @cons _ _ _ a b _ hf hrest =>
      have := ih (l := a.reverse ++ l) (m₁ := b) (m₂ := m₂) (t := t) (by simpa using hrest) (by simpa using h2)
      have h3 : MatchesL (f :: (fs ++ gs)) l (a ++ (b ++ m₂)) t := .cons (by simpa using hf) this
      simpa using h3

theorem matchesL_append_inv {fs gs : List Rx} : ∀ {l m t : List Tok}, MatchesL (fs ++ gs) l m t →
    ∃ m₁ m₂, m = m₁ ++ m₂ ∧ MatchesL fs l m₁ (m₂ ++ t) ∧ MatchesL gs (m₁.reverse ++ l) m₂ t := by
  induction fs with
  | nil => intro l m t h; exact ⟨[], m, rfl, .nil _ _, by simpa using h⟩
  | cons f fs ih =>
    intro l m t h
    simp only [List.cons_append] at h
    cases h with
    | @cons _ _ _ a b _ hf hrest =>
      obtain ⟨m₁, m₂, rfl, h1, h2⟩ := ih hrest
      refine ⟨a ++ m₁, m₂, by simp, ?_, by simpa using h2⟩
      exact .cons (by simpa using hf) h1

theorem matchesL_factors_of {r : Rx} {l m t : List Tok} (h : Matches r l m t) :
    MatchesL (factors r) l m t := by
  have single : ∀ {r' : Rx} {l m t : List Tok}, Matches r' l m t → MatchesL [eraseCaps r'] l m t := by
    intro r' l m t h'
    have : MatchesL [eraseCaps r'] l (m ++ []) t :=
      .cons (by simpa using matches_eraseCaps_of h') (.nil _ _)
    simpa using this
  induction h with
  | eps l t => exact .nil l t
  | cls rs l x t hm => exact single (.cls rs l x t hm)
  | cat _ _ iha ihb => exact matchesL_append_of iha ihb
  | altL h _ => exact single (.altL h)
  | altR h _ => exact single (.altR h)
  | starNil a l t => exact single (.starNil a l t)
  | starCons h1 h2 _ _ => exact single (.starCons h1 h2)
  | cap _ ih => exact ih
  | bot t => exact single (.bot t)
  | eot l => exact single (.eot l)
  | bol l t h => exact single (.bol l t h)
  | eol l t h => exact single (.eol l t h)

theorem matches_of_matchesL_factors (r : Rx) : ∀ {l m t : List Tok}, MatchesL (factors r) l m t → Matches r l m t := by
  have single : ∀ {r' : Rx} {l m t : List Tok}, MatchesL [eraseCaps r'] l m t → Matches r' l m t := by
    intro r' l m t h
    cases h with
    | @cons _ _ _ a b _ hf hrest =>
      cases hrest
      exact matches_of_eraseCaps r' (by simpa using hf)
  induction r with
  | eps => intro l m t h; cases h; exact .eps l t
  | cat a b iha ihb =>
    intro l m t h
    obtain ⟨m₁, m₂, rfl, h1, h2⟩ := matchesL_append_inv h
    exact .cat (iha h1) (ihb h2)
  | cap i a iha => intro l m t h; exact .cap (iha h)
  | cls rs => intro l m t h; exact single h
  | alt a b _ _ => intro l m t h; exact single h
  | star a _ => intro l m t h; exact single h
  | bot => intro l m t h; exact single h
  | eot => intro l m t h; exact single h
  | bol => intro l m t h; exact single h
  | eol => intro l m t h; exact single h

/-- **Matching is matching the top-level factors in sequence** (captures erased, concatenation flattened). -/
theorem matches_iff_factors (r : Rx) (l m t : List Tok) : Matches r l m t ↔ MatchesL (factors r) l m t :=
  ⟨matchesL_factors_of, matches_of_matchesL_factors r⟩

/-- If `full` is `fL · addr · fR` up to captures and bracketing, then its matches are exactly a match of
`addr` between a match of `fL` and a match of `fR`. -/
theorem matches_sandwich {full addr fL fR : Rx} (hf : factors full = fL :: (factors addr ++ [fR]))
    (l m t : List Tok) :
    Matches full l m t ↔ ∃ dL a dR, m = dL ++ (a ++ dR) ∧ Matches fL l dL (a ++ (dR ++ t)) ∧
      Matches addr (dL.reverse ++ l) a (dR ++ t) ∧ Matches fR (a.reverse ++ (dL.reverse ++ l)) dR t := by
  rw [matches_iff_factors, hf]
  constructor
  · intro h
    cases h with
    | @cons _ _ _ dL rest _ hL hrest =>
      obtain ⟨a, dR, rfl, ha, hR⟩ := matchesL_append_inv hrest
      cases hR with
      | @cons _ _ _ d e _ hR1 hnil =>
        cases hnil
        refine ⟨dL, a, d, by simp, by simpa using hL, ?_, by simpa using hR1⟩
        exact (matches_iff_factors addr _ _ _).2 (by simpa using ha)
  · rintro ⟨dL, a, dR, rfl, hL, ha, hR⟩
    refine .cons (by simpa using hL) ?_
    apply matchesL_append_of ((matches_iff_factors addr _ _ _).1 ha)
    have : MatchesL [fR] (a.reverse ++ (dL.reverse ++ l)) (dR ++ []) t := .cons (by simpa using hR) (.nil _ _)
    simpa using this

/-! ## UTF-8 text -/

theorem decodeRune4_width (c0 : UInt8) (o1 o2 o3 : Option UInt8) :
    1 ≤ (decodeRune4 c0 o1 o2 o3).2 ∧ (decodeRune4 c0 o1 o2 o3).2 ≤ 4 := by
  unfold decodeRune4
  simp only
  repeat' split
  all_goals simp

theorem decodeRune4_ascii (c0 : UInt8) (o1 o2 o3 : Option UInt8)
    (h : (decodeRune4 c0 o1 o2 o3).1 < 128) : decodeRune4 c0 o1 o2 o3 = (c0.toNat, 1) := by
  have hb := c0.toNat_lt
  unfold decodeRune4 at h ⊢
  simp only at h ⊢
  repeat' split at h
  all_goals (first | (simp_all; done) | (exfalso; simp only [inR, Bool.and_eq_true, Nat.ble_eq] at *; omega))

/-- Truncating the look-ahead after the bytes that were consumed does not change the result: a sequence
that is invalid stays invalid when it is cut short. -/
theorem decodeRune4_trunc (c0 : UInt8) (o1 o2 o3 : Option UInt8) (j : Nat)
    (h : (decodeRune4 c0 o1 o2 o3).2 ≤ j + 1) :
    decodeRune4 c0 (if 0 < j then o1 else none) (if 1 < j then o2 else none) (if 2 < j then o3 else none)
      = decodeRune4 c0 o1 o2 o3 := by
  rcases j with _ | _ | _ | j
  all_goals
    simp only [Nat.lt_irrefl, Nat.zero_lt_succ, Nat.succ_lt_succ_iff, if_true, if_false, Nat.not_lt_zero,
      Nat.lt_add_left_iff_pos, Nat.reduceAdd] at h ⊢
  all_goals
    cases o1 <;> cases o2 <;> cases o3 <;> unfold decodeRune4 at h ⊢ <;> simp only at h ⊢ <;>
      repeat' split at h
  all_goals (first | rfl | (simp [*]; done) | (exfalso; simp at h; done) | (exfalso; simp at h; omega))


/-- The bytes a multi-byte rune consumes after the first are continuation bytes (≥ 0x80). -/
theorem decodeRune4_cont (c0 : UInt8) (o1 o2 o3 : Option UInt8) :
    (2 ≤ (decodeRune4 c0 o1 o2 o3).2 → ∃ c, o1 = some c ∧ 128 ≤ c.toNat) ∧
    (3 ≤ (decodeRune4 c0 o1 o2 o3).2 → ∃ c, o2 = some c ∧ 128 ≤ c.toNat) ∧
    (4 ≤ (decodeRune4 c0 o1 o2 o3).2 → ∃ c, o3 = some c ∧ 128 ≤ c.toNat) := by
  cases o1 <;> cases o2 <;> cases o3 <;> unfold decodeRune4 <;> simp only <;> repeat' split
  all_goals (simp only [inR, Bool.and_eq_true, Nat.ble_eq] at *)
  all_goals (first | (simp; done) | (simp; omega) | (refine ⟨?_, ?_, ?_⟩ <;> intro h <;> simp at h ⊢ <;> omega))

theorem decodeRune4_needs (c0 : UInt8) (o1 o2 o3 : Option UInt8) :
    (2 ≤ (decodeRune4 c0 o1 o2 o3).2 → o1.isSome) ∧ (3 ≤ (decodeRune4 c0 o1 o2 o3).2 → o2.isSome) ∧
    (4 ≤ (decodeRune4 c0 o1 o2 o3).2 → o3.isSome) := by
  cases o1 <;> cases o2 <;> cases o3 <;> unfold decodeRune4 <;> simp only <;> repeat' split
  all_goals simp

theorem nth_isSome : ∀ (bs : List UInt8) (i : Nat), (nth bs i).isSome → i < bs.length
  | [], _, h => by simp [nth] at h
  | _ :: _, 0, _ => by simp
  | _ :: bs, i + 1, h => by have := nth_isSome bs i (by simpa [nth] using h); simp; omega

theorem nth_take : ∀ (bs : List UInt8) (j i : Nat), nth (bs.take j) i = if i < j then nth bs i else none
  | [], j, i => by simp [nth]
  | b :: bs, 0, i => by simp [nth]
  | b :: bs, j + 1, 0 => by simp [nth]
  | b :: bs, j + 1, i + 1 => by simp [nth, nth_take bs j i]

theorem decodeRune_width_le (bs : List UInt8) : (decodeRune bs).2 ≤ bs.length := by
  cases bs with
  | nil => simp [decodeRune]
  | cons c0 rest =>
    simp only [decodeRune, List.length_cons]
    have hn := decodeRune4_needs c0 (nth rest 0) (nth rest 1) (nth rest 2)
    have hw := decodeRune4_width c0 (nth rest 0) (nth rest 1) (nth rest 2)
    generalize (decodeRune4 c0 (nth rest 0) (nth rest 1) (nth rest 2)).2 = w at hn hw
    have h1 := fun h => nth_isSome rest 0 (hn.1 h)
    have h2 := fun h => nth_isSome rest 1 (hn.2.1 h)
    have h3 := fun h => nth_isSome rest 2 (hn.2.2 h)
    omega

theorem decodeRune_width_pos (b : UInt8) (bs : List UInt8) : 1 ≤ (decodeRune (b :: bs)).2 :=
  (decodeRune4_width _ _ _ _).1

/-- `DecodeRune` gives the same answer on any prefix that still contains the bytes it consumed. -/
theorem decodeRune_take (bs : List UInt8) (k : Nat) (hk : 1 ≤ k) (h : (decodeRune bs).2 ≤ k) :
    decodeRune (bs.take k) = decodeRune bs := by
  cases bs with
  | nil => simp
  | cons c0 rest =>
    obtain ⟨j, rfl⟩ : ∃ j, k = j + 1 := ⟨k - 1, by omega⟩
    simp only [List.take_succ_cons, decodeRune, nth_take] at h ⊢
    exact decodeRune4_trunc c0 _ _ _ j h

theorem decodeF_fuel : ∀ (n m : Nat) (bs : List UInt8), bs.length ≤ n → bs.length ≤ m →
    decodeF n bs = decodeF m bs := by
  intro n
  induction n with
  | zero =>
    intro m bs h _
    have : bs = [] := by cases bs <;> simp_all
    subst this
    cases m <;> simp [decodeF]
  | succ n ih =>
    intro m bs hn hm
    cases bs with
    | nil => cases m <;> simp [decodeF]
    | cons b bs =>
      cases m with
      | zero => simp at hm
      | succ m =>
        simp only [decodeF]
        congr 1
        apply ih
        · simp at hn ⊢; omega
        · simp at hm ⊢; omega

theorem decode_nil : decode [] = [] := by simp [decode, decodeF]

theorem decode_cons (b : UInt8) (bs : List UInt8) :
    decode (b :: bs) = ⟨(decodeRune (b :: bs)).1, b :: bs.take ((decodeRune (b :: bs)).2 - 1)⟩ ::
      decode (bs.drop ((decodeRune (b :: bs)).2 - 1)) := by
  simp only [decode, List.length_cons, decodeF]
  congr 1
  apply decodeF_fuel <;> simp

/-- Induction along `decode`. -/
theorem decode_induction {P : List UInt8 → Prop} (hnil : P [])
    (hcons : ∀ b bs, P (bs.drop ((decodeRune (b :: bs)).2 - 1)) → P (b :: bs)) : ∀ bs, P bs := by
  have : ∀ (n : Nat) (bs : List UInt8), bs.length ≤ n → P bs := by
    intro n
    induction n with
    | zero => intro bs h; have : bs = [] := by cases bs <;> simp_all
              subst this; exact hnil
    | succ n ih =>
      intro bs h
      cases bs with
      | nil => exact hnil
      | cons b bs => exact hcons b bs (ih _ (by simp at h ⊢; omega))
  exact fun bs => this bs.length bs (Nat.le_refl _)

/-- **Decoding loses no byte**: the bytes of the tokens are the input. -/
theorem bytesOf_decode (bs : List UInt8) : bytesOf (decode bs) = bs := by
  induction bs using decode_induction with
  | hnil => simp [decode_nil, bytesOf]
  | hcons b bs ih =>
    rw [decode_cons]
    simp only [bytesOf, List.flatMap_cons] at ih ⊢
    rw [ih]
    simp

/-- **Decoded tokens are well formed**: an ASCII code point stands for its own single byte. -/
theorem decode_wf (bs : List UInt8) : ∀ x ∈ decode bs, WFTok x := by
  induction bs using decode_induction with
  | hnil => simp [decode_nil]
  | hcons b bs ih =>
    rw [decode_cons]
    intro x hx
    simp only [List.mem_cons] at hx
    rcases hx with rfl | hx
    · intro hlt
      simp only at hlt ⊢
      have := decodeRune4_ascii b (nth bs 0) (nth bs 1) (nth bs 2) (by simpa [decodeRune] using hlt)
      simp [decodeRune, this]
    · exact ih x hx

theorem decode_suffix : ∀ (pre : List Tok) (bs : List UInt8) (rest : List Tok),
    decode bs = pre ++ rest → decode (bytesOf rest) = rest := by
  intro pre
  induction pre with
  | nil => intro bs rest h; simp only [List.nil_append] at h; rw [← h, bytesOf_decode]
  | cons p pre ih =>
    intro bs rest h
    cases bs with
    | nil => simp [decode_nil] at h
    | cons b bs =>
      rw [decode_cons] at h
      simp only [List.cons_append, List.cons.injEq] at h
      exact ih _ _ h.2

theorem decode_prefix : ∀ (seg : List Tok) (bs : List UInt8) (post : List Tok),
    decode bs = seg ++ post → decode (bytesOf seg) = seg := by
  intro seg
  induction seg with
  | nil => intro _ _ _; simp [bytesOf, decode_nil]
  | cons x seg ih =>
    intro bs post h
    cases bs with
    | nil => simp [decode_nil] at h
    | cons b bs =>
      have hb : bytesOf (x :: seg) ++ bytesOf post = b :: bs := by
        rw [← bytesOf_append, ← h, bytesOf_decode]
      rw [decode_cons] at h
      simp only [List.cons_append, List.cons.injEq] at h
      obtain ⟨hx, hrest⟩ := h
      have ihs := ih _ _ hrest
      -- the bytes of the segment are a prefix of the input that contains the first rune entirely
      have hw := decodeRune_width_le (b :: bs)
      have hw1 := decodeRune_width_pos b bs
      generalize hd : decodeRune (b :: bs) = d at hx hrest hw hw1
      have hseg : bytesOf (x :: seg) = b :: (bs.take (d.2 - 1) ++ bytesOf seg) := by
        simp [bytesOf, ← hx]
      have hpre : bytesOf (x :: seg) = (b :: bs).take (bytesOf (x :: seg)).length := by
        rw [← hb]; simp
      have hlen : d.2 ≤ (bytesOf (x :: seg)).length := by
        rw [hseg]; simp at hw ⊢; omega
      have hdr : decodeRune (bytesOf (x :: seg)) = d := by
        rw [hpre, decodeRune_take _ _ (by omega) (by rw [hd]; exact hlen), hd]
      rw [hseg] at hdr ⊢
      rw [decode_cons, hdr]
      have htl : (bs.take (d.2 - 1)).length = d.2 - 1 := by simp at hw ⊢; omega
      have h1 : (bs.take (d.2 - 1) ++ bytesOf seg).take (d.2 - 1) = bs.take (d.2 - 1) := by
        rw [List.take_append_of_le_length (by omega)]
        simp [List.take_take]
      have h2 : (bs.take (d.2 - 1) ++ bytesOf seg).drop (d.2 - 1) = bytesOf seg := by
        rw [List.drop_append_of_le_length (by omega)]
        simp [List.drop_eq_nil_of_le, htl]
      rw [h1, h2, ihs, hx]

/-- **A segment of a decoded text decodes to itself**: handing the bytes of a match to another regexp call
(as `Scrub` does with the inner `ReplaceAll`) presents that call with exactly the matched tokens. -/
theorem decode_segment (bs : List UInt8) (pre m post : List Tok) (h : decode bs = pre ++ (m ++ post)) :
    decode (bytesOf m) = m :=
  decode_prefix m _ post (decode_suffix pre bs (m ++ post) h)

/-! ## A final newline -/

/-- The token of a line feed. -/
def nlTok : Tok := ⟨10, [10]⟩

theorem nth_append_right (bs : List UInt8) (c : UInt8) : ∀ (i : Nat), nth (bs ++ [c]) i =
    if i < bs.length then nth bs i else if i = bs.length then some c else none := by
  induction bs with
  | nil => intro i; cases i <;> simp [nth]
  | cons b bs ih =>
    intro i
    cases i with
    | zero => simp [nth]
    | succ i => simp [nth, ih i]

/-- A line feed is never swallowed by the rune before it: decoding `p ++ "\n"` is decoding `p` and then the
line feed. -/
theorem decode_snoc_nl (p : List UInt8) : decode (p ++ [10]) = decode p ++ [nlTok] := by
  induction p using decode_induction with
  | hnil => decide
  | hcons b bs ih =>
    have hw := decodeRune4_width b (nth (bs ++ [10]) 0) (nth (bs ++ [10]) 1) (nth (bs ++ [10]) 2)
    have hc := decodeRune4_cont b (nth (bs ++ [10]) 0) (nth (bs ++ [10]) 1) (nth (bs ++ [10]) 2)
    -- the rune at the front does not reach the final line feed
    have hle : (decodeRune (b :: (bs ++ [10]))).2 ≤ bs.length + 1 := by
      simp only [decodeRune]
      generalize (decodeRune4 b (nth (bs ++ [10]) 0) (nth (bs ++ [10]) 1) (nth (bs ++ [10]) 2)).2 = w at hw hc
      have key : ∀ i, i < 3 → i + 2 ≤ w → i < bs.length := by
        intro i hi hiw
        have : ∃ c, nth (bs ++ [10]) i = some c ∧ 128 ≤ c.toNat := by
          rcases i with _ | _ | _ | i
          · exact hc.1 hiw
          · exact hc.2.1 hiw
          · exact hc.2.2 hiw
          · omega
        obtain ⟨c, h1, h2⟩ := this
        rw [nth_append_right] at h1
        split at h1
        · assumption
        · split at h1
          · simp only [Option.some.injEq] at h1; subst h1; simp at h2
          · cases h1
      have k0 := key 0 (by omega)
      have k1 := key 1 (by omega)
      have k2 := key 2 (by omega)
      omega
    have heq : decodeRune (b :: bs) = decodeRune (b :: (bs ++ [10])) := by
      have := decodeRune_take (b :: (bs ++ [10])) (bs.length + 1) (by omega) hle
      rw [← this]; simp
    rw [List.cons_append, decode_cons, decode_cons b bs, heq]
    have hw1 : (decodeRune (b :: (bs ++ [10]))).2 - 1 ≤ bs.length := by omega
    rw [List.take_append_of_le_length hw1, List.drop_append_of_le_length hw1]
    rw [heq] at ih
    simp [ih]

theorem render_empty (f : List UInt8 → List UInt8) : ∀ (ps : List Piece), tokensOf ps = [] →
    (∀ m ∈ hits ps, m = [] → f (bytesOf m) = []) → render f ps = [] := by
  intro ps
  induction ps with
  | nil => intro _ _; rfl
  | cons p ps ih =>
    intro ht hf
    cases p with
    | keep t =>
      simp only [tokensOf, List.append_eq_nil_iff] at ht
      simp [render, ht.1, bytesOf, ih ht.2 (fun m hm => hf m (by simpa [hits] using hm))]
    | hit m =>
      simp only [tokensOf, List.append_eq_nil_iff] at ht
      have h1 := hf m (by simp [hits]) ht.1
      simp [render, h1, ih ht.2 (fun m' hm => hf m' (by simp [hits, hm]))]

theorem ends_of_append {α} {a b ys : List α} {z : α} (h : a ++ b = ys ++ [z]) (hb : b ≠ []) :
    ∃ ys', b = ys' ++ [z] := by
  have h1 : (a ++ b).getLast? = some z := by rw [h]; simp
  rw [List.getLast?_append] at h1
  have h2 : b.getLast? = some (b.getLast hb) := List.getLast?_eq_some_getLast hb
  rw [h2] at h1
  simp only [Option.some_or, Option.some.injEq] at h1
  exact ⟨b.dropLast, by rw [← h1, List.dropLast_concat_getLast]⟩

/-- **Rendering keeps a final line feed** if the replacement of a match that ends in one keeps it and an
empty match is replaced by nothing. -/
theorem render_ends_nl (f : List UInt8 → List UInt8) : ∀ (ps : List Piece),
    (∃ ys, tokensOf ps = ys ++ [nlTok]) →
    (∀ m ∈ hits ps, (∃ ys, m = ys ++ [nlTok]) → ∃ q, f (bytesOf m) = q ++ [10]) →
    (∀ m ∈ hits ps, m = [] → f (bytesOf m) = []) →
    ∃ q, render f ps = q ++ [10] := by
  intro ps
  induction ps with
  | nil => intro ⟨ys, h⟩ _ _; simp [tokensOf] at h
  | cons p ps ih =>
    intro ⟨ys, ht⟩ h2 h3
    have h2' : ∀ m ∈ hits ps, (∃ ys, m = ys ++ [nlTok]) → ∃ q, f (bytesOf m) = q ++ [10] :=
      fun m hm => h2 m (by cases p <;> simp [hits, hm])
    have h3' : ∀ m ∈ hits ps, m = [] → f (bytesOf m) = [] :=
      fun m hm => h3 m (by cases p <;> simp [hits, hm])
    by_cases hrest : tokensOf ps = []
    · have hr := render_empty f ps hrest h3'
      cases p with
      | keep t =>
        simp only [tokensOf, hrest, List.append_nil] at ht
        exact ⟨bytesOf ys, by simp [render, hr, ht, bytesOf, nlTok]⟩
      | hit m =>
        simp only [tokensOf, hrest, List.append_nil] at ht
        obtain ⟨q, hq⟩ := h2 m (by simp [hits]) ⟨ys, ht⟩
        exact ⟨q, by simp [render, hr, hq]⟩
    · have hsplit : ∃ tp, tokensOf (p :: ps) = tp ++ tokensOf ps := by cases p <;> exact ⟨_, rfl⟩
      obtain ⟨tp, htp⟩ := hsplit
      obtain ⟨ys', hys'⟩ := ends_of_append (htp ▸ ht) hrest
      obtain ⟨q, hq⟩ := ih ⟨ys', hys'⟩ h2' h3'
      cases p with
      | keep t => exact ⟨bytesOf t ++ q, by simp [render, hq]⟩
      | hit m => exact ⟨f (bytesOf m) ++ q, by simp [render, hq]⟩

end Snowflake.Rx
