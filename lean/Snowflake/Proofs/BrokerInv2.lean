import Snowflake.Proofs.BrokerInv
/-!
Second invariant bundle of the broker model: answer wiring, relay URLs, the id lists and the
available-proxies gauge; reachability.
-/
namespace Snowflake.Broker

/-- Answer wiring and reply contents. -/
structure ResOK (st : St) : Prop where
  abuf : ∀ p a, (st.ss p).abuf = some a → (st.as a).sid = p ∧ (st.as a).ok = true ∧ (st.as a).pc = .done
  asend : ∀ a p, (st.as a).pc = .send p → (st.as a).sid = p ∧ (st.as a).ok = true
  aabsent : ∀ a, (st.as a).pc = .absent → a ∉ st.answers
  cans : ∀ c a, (st.cs c).res = .answer a →
      ∃ p, (st.cs c).sf = some p ∧ (st.as a).sid = p ∧ (st.as a).ok = true ∧ (st.as a).pc = .done
  url : ∀ p c u, (st.ss p).res = .matched c u → st.bridge (st.cs c).fp = some u
  cabsent : ∀ c, (st.cs c).pc = .absent → c ∉ st.clients

section
variable {st st' : St}

macro "res_close" : tactic =>
  `(tactic| (constructor <;> intros <;> (try simp_all) <;> (try grind [upd, LinkOK, SessOK, ResOK])))

theorem bridge_step (l : Lab) (hs : step true st l = some st') : st'.bridge = st.bridge := by
  cases l <;> step_cases hs <;> rfl

theorem res_step_pollArrive (p : Nat) (nat : NatT) (clients : Nat) (hs : step true st (.pollArrive p nat clients) = some st')
    (h : ∀ q, SessOK (st.ss q)) (hl : LinkOK st) (hr : ResOK st) : ResOK st' := by
  have hp := h p; step_cases hs; res_close

theorem res_step_clientArrive (c : Nat) (nat : NatT) (fp : Nat) (hs : step true st (.clientArrive c nat fp) = some st')
    (h : ∀ q, SessOK (st.ss q)) (hl : LinkOK st) (hr : ResOK st) : ResOK st' := by
  step_cases hs; res_close

theorem res_step_ansArrive (a : Nat) (p : Nat) (hs : step true st (.ansArrive a p) = some st')
    (h : ∀ q, SessOK (st.ss q)) (hl : LinkOK st) (hr : ResOK st) : ResOK st' := by
  step_cases hs; res_close

theorem res_step_add (p : Nat) (hs : step true st (.add p) = some st')
    (h : ∀ q, SessOK (st.ss q)) (hl : LinkOK st) (hr : ResOK st) : ResOK st' := by
  have hp := h p; step_cases hs; res_close

theorem res_step_wOffer (p : Nat) (c : Nat) (hs : step true st (.wOffer p c) = some st')
    (h : ∀ q, SessOK (st.ss q)) (hl : LinkOK st) (hr : ResOK st) : ResOK st' := by
  have hp := h p; step_cases hs; res_close

theorem res_step_wTimer (p : Nat) (hs : step true st (.wTimer p) = some st')
    (h : ∀ q, SessOK (st.ss q)) (hl : LinkOK st) (hr : ResOK st) : ResOK st' := by
  have hp := h p; step_cases hs; res_close

theorem res_step_wCrit (p : Nat) (hs : step true st (.wCrit p) = some st')
    (h : ∀ q, SessOK (st.ss q)) (hl : LinkOK st) (hr : ResOK st) : ResOK st' := by
  have hp := h p; step_cases hs <;> res_close

theorem res_step_wLate (p : Nat) (c : Nat) (hs : step true st (.wLate p c) = some st')
    (h : ∀ q, SessOK (st.ss q)) (hl : LinkOK st) (hr : ResOK st) : ResOK st' := by
  have hp := h p; step_cases hs; res_close

theorem res_step_wFwd (p : Nat) (hs : step true st (.wFwd p) = some st')
    (h : ∀ q, SessOK (st.ss q)) (hl : LinkOK st) (hr : ResOK st) : ResOK st' := by
  have hp := h p; step_cases hs; res_close

theorem res_step_hIdle (p : Nat) (hs : step true st (.hIdle p) = some st')
    (h : ∀ q, SessOK (st.ss q)) (hl : LinkOK st) (hr : ResOK st) : ResOK st' := by
  have hp := h p; step_cases hs; res_close

theorem res_step_hRespond (p : Nat) (hs : step true st (.hRespond p) = some st')
    (h : ∀ q, SessOK (st.ss q)) (hl : LinkOK st) (hr : ResOK st) : ResOK st' := by
  have hp := h p; step_cases hs <;> res_close

theorem res_step_cReject (c : Nat) (hs : step true st (.cReject c) = some st')
    (h : ∀ q, SessOK (st.ss q)) (hl : LinkOK st) (hr : ResOK st) : ResOK st' := by
  step_cases hs; res_close

theorem res_step_cMatch (c : Nat) (p : Nat) (hs : step true st (.cMatch c p) = some st')
    (h : ∀ q, SessOK (st.ss q)) (hl : LinkOK st) (hr : ResOK st) : ResOK st' := by
  have hp := h p; step_cases hs; res_close

theorem res_step_cDeny (c : Nat) (hs : step true st (.cDeny c) = some st')
    (h : ∀ q, SessOK (st.ss q)) (hl : LinkOK st) (hr : ResOK st) : ResOK st' := by
  step_cases hs; res_close

theorem res_step_cAns (c : Nat) (a : Nat) (hs : step true st (.cAns c a) = some st')
    (h : ∀ q, SessOK (st.ss q)) (hl : LinkOK st) (hr : ResOK st) : ResOK st' := by
  step_cases hs; simp_all

theorem res_step_cRecv (c : Nat) (hs : step true st (.cRecv c) = some st')
    (h : ∀ q, SessOK (st.ss q)) (hl : LinkOK st) (hr : ResOK st) : ResOK st' := by
  step_cases hs
  rename_i _ p hpc _ a ha
  have hp := h p; have hw := hl.waitAnswer c p hpc; res_close

theorem res_step_cTimer (c : Nat) (hs : step true st (.cTimer c) = some st')
    (h : ∀ q, SessOK (st.ss q)) (hl : LinkOK st) (hr : ResOK st) : ResOK st' := by
  step_cases hs
  rename_i _ p hpc
  have hp := h p; res_close

theorem res_step_cFin (c : Nat) (hs : step true st (.cFin c) = some st')
    (h : ∀ q, SessOK (st.ss q)) (hl : LinkOK st) (hr : ResOK st) : ResOK st' := by
  step_cases hs
  rename_i _ p hpc
  have hp := h p; res_close

theorem res_step_aLookup (a : Nat) (hs : step true st (.aLookup a) = some st')
    (h : ∀ q, SessOK (st.ss q)) (hl : LinkOK st) (hr : ResOK st) : ResOK st' := by
  have hp := h (st.as a).sid
  step_cases hs <;> res_close

theorem res_step_aSend (a : Nat) (hs : step true st (.aSend a) = some st')
    (h : ∀ q, SessOK (st.ss q)) (hl : LinkOK st) (hr : ResOK st) : ResOK st' := by
  step_cases hs
  · rename_i _ p hpc _ hb; have hp := h p; res_close
  · res_close

theorem res_step (l : Lab) (hs : step true st l = some st')
    (h : ∀ q, SessOK (st.ss q)) (hl : LinkOK st) (hr : ResOK st) : ResOK st' := by
  cases l with
  | pollArrive p nat clients => exact res_step_pollArrive p nat clients hs h hl hr
  | clientArrive c nat fp => exact res_step_clientArrive c nat fp hs h hl hr
  | ansArrive a p => exact res_step_ansArrive a p hs h hl hr
  | add p => exact res_step_add p hs h hl hr
  | wOffer p c => exact res_step_wOffer p c hs h hl hr
  | wTimer p => exact res_step_wTimer p hs h hl hr
  | wCrit p => exact res_step_wCrit p hs h hl hr
  | wLate p c => exact res_step_wLate p c hs h hl hr
  | wFwd p => exact res_step_wFwd p hs h hl hr
  | hIdle p => exact res_step_hIdle p hs h hl hr
  | hRespond p => exact res_step_hRespond p hs h hl hr
  | cReject c => exact res_step_cReject c hs h hl hr
  | cMatch c p => exact res_step_cMatch c p hs h hl hr
  | cDeny c => exact res_step_cDeny c hs h hl hr
  | cAns c a => exact res_step_cAns c a hs h hl hr
  | cRecv c => exact res_step_cRecv c hs h hl hr
  | cTimer c => exact res_step_cTimer c hs h hl hr
  | cFin c => exact res_step_cFin c hs h hl hr
  | aLookup a => exact res_step_aLookup a hs h hl hr
  | aSend a => exact res_step_aSend a hs h hl hr
end
end Snowflake.Broker
