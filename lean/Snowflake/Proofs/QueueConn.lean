import Snowflake.Model.QueueConn
import Snowflake.Proofs.ClientMap
/-!
Lemmas about the queues of `Snowflake.Model.ClientMap` (what `SendQueue`, the non-blocking send and
the non-blocking receive do to the queue of every address) and the two history theorems of
`Snowflake.Model.QueueConn` (incoming and per-address outgoing FIFO).
-/
namespace Snowflake.ClientMap
open Snowflake Snowflake.Heap

/-- Contents of the outgoing queue of `addr` (empty when there is no record). -/
def queueOf (s : Inner) (a : Nat) : List Bytes := ((recOf s a).map (·.queue)).getD []

theorem recOf_iff (s : Inner) (hc : Consistent s) (a : Nat) (r : Rec) :
    recOf s a = some r ↔ r ∈ s.byAge ∧ r.addr = a := by
  unfold recOf
  constructor
  · intro h
    cases hg : s.byAddr.get a with
    | none => simp [hg] at h
    | some i =>
      simp only [hg] at h
      obtain ⟨r', hr', ha⟩ := hc.bwd a i hg
      rw [h] at hr'; cases hr'
      exact ⟨Array.mem_of_getElem? h, ha⟩
  · rintro ⟨hm, ha⟩
    obtain ⟨k, hk, rfl⟩ := Array.mem_iff_getElem.mp hm
    have := hc.fwd k s.byAge[k] (by simp [hk])
    rw [ha] at this
    simp [this, hk]

theorem recOf_ext (s s' : Inner) (hc : Consistent s) (hc' : Consistent s') (b : Nat)
    (h : ∀ x, (x ∈ s'.byAge ∧ x.addr = b) ↔ (x ∈ s.byAge ∧ x.addr = b)) : recOf s' b = recOf s b := by
  apply Option.ext
  intro x
  rw [recOf_iff s' hc', recOf_iff s hc]
  exact h x

theorem queueOf_sendQueue (s : Inner) (a : Nat) (t : Int) (g : Good s) (b : Nat) :
    queueOf (sendQueue s a t) b = queueOf s b := by
  have g' := (sendQueue_good s a t g).1
  unfold queueOf
  cases hget : s.byAddr.get a with
  | none =>
    have P := (sendQueue_new s a t g hget).2.2
    have hnone : recOf s a = none := by simp [recOf, hget]
    by_cases hb : b = a
    · subst hb
      have : recOf (sendQueue s b t) b = some { addr := b, lastSeen := t, queue := [] } := by
        rw [recOf_iff _ g'.cons]
        exact ⟨P.mem_iff.mpr (Array.mem_push.mpr (Or.inr rfl)), rfl⟩
      rw [this, hnone]; rfl
    · rw [recOf_ext s _ g.cons g'.cons b]
      intro x
      rw [P.mem_iff, Array.mem_push]
      constructor
      · rintro ⟨h | h, hx⟩
        · exact ⟨h, hx⟩
        · subst h; exact absurd hx.symm hb
      · rintro ⟨h, hx⟩; exact ⟨Or.inl h, hx⟩
  | some i =>
    obtain ⟨ri, hri, hai⟩ := g.cons.bwd a i hget
    have P := (sendQueue_existing s a t g i ri hget hri).2.2
    have hi : i < s.byAge.size := by
      rcases Nat.lt_or_ge i s.byAge.size with h | h
      · exact h
      · rw [Array.getElem?_eq_none h] at hri; cases hri
    have hsome : recOf s a = some ri := by simp [recOf, hget, hri]
    by_cases hb : b = a
    · subst hb
      have : recOf (sendQueue s b t) b = some { ri with lastSeen := t } := by
        rw [recOf_iff _ g'.cons]
        refine ⟨P.mem_iff.mpr ?_, hai⟩
        rw [Array.mem_iff_getElem?]
        exact ⟨i, by simp [hi]⟩
      rw [this, hsome]; rfl
    · rw [recOf_ext s _ g.cons g'.cons b]
      intro x
      rw [P.mem_iff]
      simp only [Array.mem_iff_getElem?, Array.getElem?_setIfInBounds]
      constructor
      · rintro ⟨⟨k, hk⟩, hx⟩
        by_cases hik : i = k
        · subst hik
          simp only [if_true, hi] at hk
          cases hk
          exact absurd (hx.symm.trans hai) hb
        · simp only [hik, if_false] at hk
          exact ⟨⟨k, hk⟩, hx⟩
      · rintro ⟨⟨k, hk⟩, hx⟩
        refine ⟨⟨k, ?_⟩, hx⟩
        have hik : i ≠ k := by
          intro h; subst h
          rw [hri] at hk; cases hk
          exact hb (hx.symm.trans hai)
        simp [hik, hk]

/-- Effect of overwriting the record of `a` (same address) on the record lookup. -/
theorem recOf_set (s : Inner) (hc : Consistent s) (a i : Nat) (r r' : Rec)
    (hget : s.byAddr.get a = some i) (hr : s.byAge[i]? = some r) (b : Nat) :
    recOf { s with byAge := s.byAge.setIfInBounds i r' } b = if b = a then some r' else recOf s b := by
  have hi : i < s.byAge.size := by
    rcases Nat.lt_or_ge i s.byAge.size with h | h
    · exact h
    · rw [Array.getElem?_eq_none h] at hr; cases hr
  unfold recOf
  by_cases hb : b = a
  · subst hb
    simp [hget, hi]
  · simp only [hb, if_false]
    cases hgb : s.byAddr.get b with
    | none => rfl
    | some j =>
      simp only [Array.getElem?_setIfInBounds]
      have hij : i ≠ j := by
        intro h; subst h
        obtain ⟨x, hx, hxa⟩ := hc.bwd a i hget
        obtain ⟨y, hy, hyb⟩ := hc.bwd b i hgb
        rw [hx] at hy; cases hy
        exact hb (hyb.symm.trans hxa)
      simp [hij]

theorem queueOf_offer (s : Inner) (a : Nat) (p : Bytes) (g : Good s) (b : Nat) :
    queueOf (offer s a p).1 b =
      if b = a ∧ (offer s a p).2 = true then queueOf s b ++ [p] else queueOf s b := by
  unfold offer
  cases hget : s.byAddr.get a with
  | none => simp
  | some i =>
    cases hr : s.byAge[i]? with
    | none => simp [hr]
    | some r =>
      simp only [hr]
      have hsome : recOf s a = some r := by simp [recOf, hget, hr]
      by_cases hl : r.queue.length < queueSize
      · simp only [hl, if_true, and_true]
        unfold queueOf
        rw [recOf_set s g.cons a i r _ hget hr b]
        by_cases hb : b = a
        · subst hb; simp [hsome]
        · simp [hb]
      · simp [hl]

theorem queueOf_poll (s : Inner) (a : Nat) (g : Good s) (b : Nat) :
    (if b = a then (poll s a).2.toList else []) ++ queueOf (poll s a).1 b = queueOf s b := by
  unfold poll
  cases hget : s.byAddr.get a with
  | none => by_cases hb : b = a <;> simp [hb]
  | some i =>
    cases hr : s.byAge[i]? with
    | none => by_cases hb : b = a <;> simp [hb, hr]
    | some r =>
      simp only [hr]
      have hsome : recOf s a = some r := by simp [recOf, hget, hr]
      cases hq : r.queue with
      | nil => by_cases hb : b = a <;> simp [hb]
      | cons x rest =>
        simp only
        unfold queueOf
        rw [recOf_set s g.cons a i r _ hget hr b]
        by_cases hb : b = a
        · subst hb; simp [hsome, hq]
        · simp [hb]

/-- No queue ever exceeds `queueSize`. -/
def Bounded (s : Inner) : Prop := ∀ a, (queueOf s a).length ≤ queueSize

end Snowflake.ClientMap

namespace Snowflake.QueueConn
open Snowflake Snowflake.ClientMap

/-! ## Histories -/

/-- Packets (values at call time) that `QueueIncoming` accepted during `ops`. -/
def acceptedIn : St → List Op → List (Bytes × Nat)
  | _, [] => []
  | s, op :: ops =>
    (match op with
      | .incoming p a => if !s.closed && decide (s.recvQ.length < queueSize) then [(p, a)] else []
      | _ => []) ++ acceptedIn (step s op).1 ops

/-- Stored packets handed out by successful `ReadFrom` calls during `ops`. -/
def deliveredIn : St → List Op → List (Bytes × Nat)
  | _, [] => []
  | s, op :: ops =>
    (match op with
      | .read _ => if s.closed then [] else s.recvQ.head?.toList
      | _ => []) ++ deliveredIn (step s op).1 ops

/-- Packets that `WriteTo(·, a)` put on the outgoing queue of `a` during `ops`. -/
def acceptedOut (a : Nat) : St → List Op → List Bytes
  | _, [] => []
  | s, op :: ops =>
    (match op with
      | .write p b t =>
        if b = a ∧ s.closed = false ∧ (offer (sendQueue s.clients b t) b p).2 = true then [p] else []
      | _ => []) ++ acceptedOut a (step s op).1 ops

/-- Packets received from `OutgoingQueue(a)` during `ops`. -/
def takenOut (a : Nat) : St → List Op → List Bytes
  | _, [] => []
  | s, op :: ops =>
    (match op with
      | .out b t => if b = a then (takeOutgoing s b t).2.toList else []
      | _ => []) ++ takenOut a (step s op).1 ops

theorem run_cons (s : St) (op : Op) (ops : List Op) :
    (run s (op :: ops)).1 = (run (step s op).1 ops).1 := rfl

theorem fifo_incoming (ops : List Op) : ∀ s : St,
    deliveredIn s ops ++ (run s ops).1.recvQ = s.recvQ ++ acceptedIn s ops := by
  induction ops with
  | nil => intro s; simp [deliveredIn, acceptedIn, run]
  | cons op ops ih =>
    intro s
    rw [run_cons]
    simp only [deliveredIn, acceptedIn, List.append_assoc, ih]
    cases op with
    | incoming p a =>
      simp only [step, queueIncoming, List.nil_append]
      by_cases hc : s.closed <;> by_cases hl : s.recvQ.length < queueSize <;> simp [hc, hl]
    | write p a t =>
      simp only [step, writeTo, List.nil_append]
      by_cases hc : s.closed <;> simp [hc]
    | read n =>
      simp only [step, readFrom, List.nil_append]
      by_cases hc : s.closed
      · simp [hc]
      · cases hq : s.recvQ with
        | nil => simp [hc, hq]
        | cons x rest => simp [hc]
    | out a t => simp [step, takeOutgoing]
    | close e =>
      simp only [step, closeWithError, List.nil_append]
      by_cases hc : s.closed <;> simp [hc]

theorem step_good (s : St) (op : Op) (g : Good s.clients) : Good (step s op).1.clients := by
  cases op with
  | incoming p a => simp only [step, queueIncoming]; split <;> (try split) <;> exact g
  | write p a t =>
    simp only [step, writeTo]
    split
    · exact g
    · exact (offer_good _ a p (sendQueue_good _ a t g).1).1
  | read n =>
    simp only [step, readFrom]
    split
    · exact g
    · split <;> exact g
  | out a t => exact (poll_good _ a (sendQueue_good _ a t g).1).1
  | close e => simp only [step, closeWithError]; split <;> exact g

theorem fifo_outgoing (a : Nat) (ops : List Op) : ∀ s : St, Good s.clients →
    takenOut a s ops ++ queueOf (run s ops).1.clients a = queueOf s.clients a ++ acceptedOut a s ops := by
  induction ops with
  | nil => intro s _; simp [takenOut, acceptedOut, run]
  | cons op ops ih =>
    intro s g
    rw [run_cons]
    simp only [takenOut, acceptedOut, List.append_assoc, ih _ (step_good s op g)]
    cases op with
    | incoming p b =>
      simp only [step, queueIncoming, List.nil_append]
      by_cases hc : s.closed <;> by_cases hl : s.recvQ.length < queueSize <;> simp [hc, hl]
    | write p b t =>
      simp only [step, writeTo, List.nil_append]
      by_cases hc : s.closed
      · simp [hc]
      · simp only [hc, Bool.false_eq_true, if_false, true_and]
        rw [queueOf_offer _ b p (sendQueue_good _ b t g).1 a, queueOf_sendQueue _ b t g a]
        by_cases hab : a = b
        · subst hab
          by_cases h2 : (offer (sendQueue s.clients a t) a p).2 = true <;> simp [h2]
        · have hba : ¬ b = a := fun hh => hab hh.symm
          simp [hab, hba]
    | read n =>
      simp only [step, readFrom, List.nil_append]
      by_cases hc : s.closed
      · simp [hc]
      · cases hq : s.recvQ with
        | nil => simp [hc]
        | cons x rest => simp [hc]
    | out b t =>
      simp only [step, takeOutgoing, List.nil_append]
      have h := queueOf_poll (sendQueue s.clients b t) b (sendQueue_good _ b t g).1 a
      rw [queueOf_sendQueue _ b t g a] at h
      by_cases hb : b = a
      · subst hb
        simp only [if_true] at h ⊢
        rw [← List.append_assoc, h]
      · have hb' : ¬ a = b := fun hh => hb hh.symm
        simp only [hb', if_false, List.nil_append] at h
        simp only [hb, if_false, List.nil_append, h]
    | close e =>
      simp only [step, closeWithError, List.nil_append]
      by_cases hc : s.closed <;> simp [hc]

end Snowflake.QueueConn
