import Snowflake.Proofs.Amp
/-! Helper lemmas for the AMP armor model (C10): tokenizer composition, the decoder on laid-out
documents, word splitting. -/
namespace Snowflake.Amp
open Snowflake.Base64 (Bytes)

/-! ## Feeding a prefix to the tokenizer -/

/-- Run the tokenizer over a prefix of the input: the state reached and the tokens delivered, or
`none` if the buffer limit is hit inside the prefix. -/
def feed (maxBuf : Nat) : TState → Bytes → Option (TState × List Tok)
  | st, [] => some (st, [])
  | st, c :: cs =>
    if maxBuf > 0 ∧ st.n + 1 ≥ maxBuf then none
    else
      match feed maxBuf (step st c).1 cs with
      | some (s', evs) => some (s', (step st c).2 ++ evs)
      | none => none

theorem run_feed (M : Nat) : ∀ (a : Bytes) (st s' : TState) (evs : List Tok) (rest : Bytes),
    feed M st a = some (s', evs) → run M st (a ++ rest) = (evs ++ (run M s' rest).1, (run M s' rest).2) := by
  intro a
  induction a with
  | nil => intro st s' evs rest h; simp only [feed, Option.some.injEq, Prod.mk.injEq] at h; obtain ⟨rfl, rfl⟩ := h; simp
  | cons c cs ih =>
    intro st s' evs rest h
    simp only [feed] at h
    split at h
    · cases h
    · rename_i hlim
      split at h
      · rename_i s1 e1 hf
        simp only [Option.some.injEq, Prod.mk.injEq] at h
        obtain ⟨rfl, rfl⟩ := h
        simp only [List.cons_append, run, hlim, if_false]
        rw [ih _ _ _ rest hf]
        simp
      · cases h

theorem feed_append (M : Nat) : ∀ (a b : Bytes) (st s1 s2 : TState) (e1 e2 : List Tok),
    feed M st a = some (s1, e1) → feed M s1 b = some (s2, e2) → feed M st (a ++ b) = some (s2, e1 ++ e2) := by
  intro a
  induction a with
  | nil => intro b st s1 s2 e1 e2 h1 h2; simp only [feed, Option.some.injEq, Prod.mk.injEq] at h1; obtain ⟨rfl, rfl⟩ := h1; simpa using h2
  | cons c cs ih =>
    intro b st s1 s2 e1 e2 h1 h2
    simp only [feed] at h1
    split at h1
    · cases h1
    · rename_i hlim
      split at h1
      · rename_i s' e' hf
        simp only [Option.some.injEq, Prod.mk.injEq] at h1
        obtain ⟨rfl, rfl⟩ := h1
        simp only [List.cons_append, feed, hlim, if_false]
        rw [ih b _ _ _ _ _ hf h2]
        simp
      · cases h1

/-- A state of the main loop of `Next` with text `b` (reversed) accumulated over `n` bytes. -/
def txt (b : Bytes) (n : Nat) : TState := { mode := .text, buf := b, n := n }

theorem fresh_eq : TState.fresh = txt [] 0 := rfl

/-- Text without `<` is accumulated. -/
theorem feed_text (M : Nat) : ∀ (t b : Bytes) (n : Nat), (∀ c ∈ t, c ≠ 60) → n + t.length < M →
    feed M (txt b n) t = some (txt (t.reverse ++ b) (n + t.length), []) := by
  intro t
  induction t with
  | nil => intro b n _ _; simp [feed]
  | cons c cs ih =>
    intro b n hc hn
    have hc0 : c ≠ 60 := hc c (List.mem_cons_self ..)
    simp only [List.length_cons] at hn
    have hlim : ¬ (M > 0 ∧ (txt b n).n + 1 ≥ M) := by simp only [txt]; omega
    have hstep : step (txt b n) c = (txt (c :: b) (n + 1), []) := by
      simp [step, txt, textStep, hc0]
    simp only [feed, hlim, if_false, hstep]
    rw [ih (c :: b) (n + 1) (fun x hx => hc x (List.mem_cons_of_mem _ hx)) (by omega)]
    simp only [List.length_cons, List.reverse_cons, List.append_assoc, List.singleton_append, List.nil_append]
    congr 3
    omega

/-- `<pre>` -/
def openTag : Bytes := [60, 112, 114, 101, 62]
/-- `</pre>` -/
def closeTag : Bytes := [60, 47, 112, 114, 101, 62]

theorem feed_open (b : Bytes) (n : Nat) (hn : n + 2 < elementSizeLimit) :
    feed elementSizeLimit (txt b n) openTag = some (TState.fresh, textTok b ++ [.startTag preName]) := by
  simp only [elementSizeLimit] at hn
  have e1 : n < 32767 := by omega
  have e2 : ¬ (32766 ≤ n) := by omega
  simp [feed, openTag, txt, step, textStep, tagNameStep, finishTag, isLetter, isWs, e1, e2, elementSizeLimit,
    lower, lowerB, rawNames, preName, TState.fresh]

theorem feed_close (b : Bytes) (n : Nat) (hn : n + 2 < elementSizeLimit) :
    feed elementSizeLimit (txt b n) closeTag = some (TState.fresh, textTok b ++ [.endTag preName]) := by
  simp only [elementSizeLimit] at hn
  have e1 : n < 32767 := by omega
  have e2 : ¬ (32766 ≤ n) := by omega
  simp [feed, closeTag, txt, step, textStep, tagNameStep, finishTag, isLetter, isWs, e1, e2, elementSizeLimit,
    lower, lowerB, preName, TState.fresh]

/-! ## Word splitting -/

theorem isWs_eq (c : UInt8) : isWs c = isASCIIWhitespace c := by
  simp only [isWs, isASCIIWhitespace]
  cases h1 : c == 32 <;> cases h2 : c == 10 <;> cases h3 : c == 13 <;> cases h4 : c == 9 <;> cases h5 : c == 12 <;> rfl

/-- `convertNewlines` does not change the words. -/
theorem splitWords_convNLgo : ∀ (t : Bytes) (p : Bool) (cur : Bytes), (p = true → cur = []) →
    splitWords (convNLgo p t) cur = splitWords t cur := by
  intro t
  induction t with
  | nil => intro p cur _; rfl
  | cons c r ih =>
    intro p cur hp
    simp only [convNLgo]
    by_cases h13 : (c == 13) = true
    · have : c = 13 := by simpa using h13
      subst this
      simp only [beq_self_eq_true, if_true]
      have e1 : isASCIIWhitespace 13 = true := by decide
      have e2 : isASCIIWhitespace 10 = true := by decide
      simp only [splitWords, e1, e2, if_true]
      split
      · exact ih true [] (fun _ => rfl)
      · rw [ih true [] (fun _ => rfl)]
    · simp only [h13, Bool.false_eq_true, if_false]
      by_cases h10 : (c == 10 && p) = true
      · simp only [h10, if_true]
        simp only [Bool.and_eq_true, beq_iff_eq] at h10
        obtain ⟨rfl, hp1⟩ := h10
        have hcur := hp hp1
        subst hcur
        have e2 : isASCIIWhitespace 10 = true := by decide
        simp only [splitWords, e2, if_true, List.isEmpty_nil]
        exact ih false [] (fun h => by cases h)
      · simp only [h10, Bool.false_eq_true, if_false]
        simp only [splitWords]
        split
        · split
          · exact ih false [] (fun h => by cases h)
          · rw [ih false [] (fun h => by cases h)]
        · exact ih false _ (fun h => by cases h)

theorem splitWords_convNL (t cur : Bytes) : splitWords (convNL t) cur = splitWords t cur :=
  splitWords_convNLgo t false cur (fun h => by cases h)

theorem words_convNL (t : Bytes) : words (convNL t) = words t := splitWords_convNL t []

def AllWs (s : Bytes) : Prop := ∀ c ∈ s, isASCIIWhitespace c = true
def NoWs (s : Bytes) : Prop := ∀ c ∈ s, isASCIIWhitespace c = false

theorem splitWords_ws_nil : ∀ (s r : Bytes), AllWs s → splitWords (s ++ r) [] = splitWords r [] := by
  intro s
  induction s with
  | nil => intro r _; rfl
  | cons c cs ih =>
    intro r h
    have hc := h c (List.mem_cons_self ..)
    simp only [List.cons_append, splitWords, hc, if_true, List.isEmpty_nil]
    exact ih r (fun x hx => h x (List.mem_cons_of_mem _ hx))

theorem splitWords_word : ∀ (w r cur : Bytes), NoWs w → splitWords (w ++ r) cur = splitWords r (w.reverse ++ cur) := by
  intro w
  induction w with
  | nil => intro r cur _; rfl
  | cons c cs ih =>
    intro r cur h
    have hc := h c (List.mem_cons_self ..)
    simp only [List.cons_append, splitWords, hc, Bool.false_eq_true, if_false]
    rw [ih r (c :: cur) (fun x hx => h x (List.mem_cons_of_mem _ hx))]
    simp

theorem splitWords_sep (s r cur : Bytes) (hs : AllWs s) (hne : s ≠ []) (hcur : cur ≠ []) :
    splitWords (s ++ r) cur = cur.reverse :: splitWords r [] := by
  cases s with
  | nil => exact absurd rfl hne
  | cons c cs =>
    have hc := hs c (List.mem_cons_self ..)
    have : cur.isEmpty = false := by simp [hcur]
    simp only [List.cons_append, splitWords, hc, if_true, this, Bool.false_eq_true, if_false]
    rw [splitWords_ws_nil cs r (fun x hx => hs x (List.mem_cons_of_mem _ hx))]

/-- A word followed by its separator. -/
structure Item where
  word : Bytes
  sep : Bytes

def Item.bytes (i : Item) : Bytes := i.word ++ i.sep

/-- Text of an element laid out as `lead w₁ s₁ w₂ s₂ … wₖ sₖ`. -/
def layText (lead : Bytes) (items : List Item) : Bytes := lead ++ (items.map Item.bytes).flatten

/-- Every word is non-empty and free of whitespace, every separator is a non-empty run of ASCII
whitespace — except that the last one may be empty. -/
def ItemsOk : List Item → Prop
  | [] => True
  | [i] => i.word ≠ [] ∧ NoWs i.word ∧ AllWs i.sep
  | i :: j :: r => i.word ≠ [] ∧ NoWs i.word ∧ AllWs i.sep ∧ i.sep ≠ [] ∧ ItemsOk (j :: r)

theorem splitWords_items : ∀ (items : List Item), ItemsOk items →
    splitWords (items.map Item.bytes).flatten [] = items.map Item.word := by
  intro items
  induction items with
  | nil => intro _; rfl
  | cons i r ih =>
    intro hok
    cases r with
    | nil =>
      obtain ⟨h1, h2, h3⟩ := hok
      simp only [List.map_cons, List.map_nil, List.flatten_cons, List.flatten_nil, List.append_nil, Item.bytes]
      rw [splitWords_word i.word i.sep [] h2, List.append_nil]
      by_cases hs : i.sep = []
      · rw [hs]; simp [splitWords, h1]
      · have := splitWords_sep i.sep [] i.word.reverse h3 hs (by simp [h1])
        rw [List.append_nil] at this
        rw [this]; simp [splitWords]
    | cons j r =>
      obtain ⟨h1, h2, h3, h4, h5⟩ := hok
      simp only [List.map_cons, List.flatten_cons, Item.bytes, List.append_assoc]
      rw [splitWords_word i.word _ [] h2, List.append_nil]
      rw [splitWords_sep i.sep _ i.word.reverse h3 h4 (by simp [h1])]
      have := ih h5
      simp only [List.map_cons, List.flatten_cons, Item.bytes, List.append_assoc] at this
      rw [this]; simp

/-- **Words of a laid-out text** are exactly its words, whatever the separators. -/
theorem words_layText (lead : Bytes) (items : List Item) (hl : AllWs lead) (hok : ItemsOk items) :
    words (layText lead items) = items.map Item.word := by
  unfold words layText
  rw [splitWords_ws_nil lead _ hl, splitWords_items items hok]

/-! ## The decoder loop on laid-out documents -/

/-- No `pre` start or end tag among the tokens. -/
def noPre : List Tok → Bool
  | [] => true
  | .startTag n :: r => n != preName && noPre r
  | .endTag n :: r => n != preName && noPre r
  | _ :: r => noPre r

theorem scan_noPre : ∀ (evs r : List Tok) (e : TEnd), noPre evs = true → scan false (evs ++ r) e = scan false r e := by
  intro evs
  induction evs with
  | nil => intro r e _; rfl
  | cons t ts ih =>
    intro r e h
    cases t with
    | text x => simp only [noPre] at h; simp [scan, ih r e h]
    | startTag n =>
      simp only [noPre, Bool.and_eq_true, bne_iff_ne, ne_eq] at h
      have : (n == preName) = false := by simp [h.1]
      simp [scan, this, ih r e h.2]
    | endTag n =>
      simp only [noPre, Bool.and_eq_true, bne_iff_ne, ne_eq] at h
      have : (n == preName) = false := by simp [h.1]
      simp [scan, this, ih r e h.2]
    | selfClosing n => simp only [noPre] at h; simp [scan, ih r e h]
    | comment => simp only [noPre] at h; simp [scan, ih r e h]
    | doctype => simp only [noPre] at h; simp [scan, ih r e h]

theorem noPre_textTok (b : Bytes) : noPre (textTok b) = true := by
  unfold textTok; split <;> rfl

theorem noPre_append (a b : List Tok) : noPre (a ++ b) = (noPre a && noPre b) := by
  induction a with
  | nil => simp [noPre]
  | cons t ts ih => cases t <;> simp [noPre, ih, Bool.and_assoc]

/-- `f` is harmless outside `pre` elements: starting between two tokens in plain text state the
tokenizer is again in plain text state after `f` (with room for the two bytes of look-ahead of the next
tag), has not hit the buffer limit, and has delivered no `pre` tag. -/
def Neutral (f : Bytes) : Prop :=
  ∃ b n evs, feed elementSizeLimit TState.fresh f = some (txt b n, evs) ∧ n + 2 < elementSizeLimit ∧ noPre evs = true

/-- One `pre` element with text `text`, followed by `filler`. -/
structure Seg where
  text : Bytes
  filler : Bytes

def Seg.bytes (s : Seg) : Bytes := openTag ++ s.text ++ closeTag ++ s.filler

def Seg.Ok (s : Seg) : Prop :=
  (∀ c ∈ s.text, c ≠ 60) ∧ s.text.length + 2 < elementSizeLimit ∧ Neutral s.filler

def renderSegs (segs : List Seg) : Bytes := (segs.map Seg.bytes).flatten

theorem scan_text_inactive (t : Bytes) (r : List Tok) (e : TEnd) : scan false (textTok t ++ r) e = scan false r e :=
  scan_noPre _ _ _ (noPre_textTok t)

theorem words_textTok (t : Bytes) (r : List Tok) (e : TEnd) :
    scan true (textTok t.reverse ++ r) e = (words t ++ (scan true r e).1, (scan true r e).2) := by
  unfold textTok
  by_cases h : t = []
  · subst h; simp [words, splitWords]
  · have : t.reverse.isEmpty = false := by simp [h]
    simp only [this, Bool.false_eq_true, if_false, List.reverse_reverse, List.singleton_append, scan, if_true,
      words_convNL]

/-- The tokens of a sequence of segments, seen by the decoder loop from plain text state. -/
theorem scan_segs : ∀ (segs : List Seg) (b : Bytes) (n : Nat), n + 2 < elementSizeLimit → (∀ s ∈ segs, s.Ok) →
    scan false (run elementSizeLimit (txt b n) (renderSegs segs)).1 (run elementSizeLimit (txt b n) (renderSegs segs)).2
      = ((segs.map (fun s => words s.text)).flatten, none) := by
  intro segs
  induction segs with
  | nil =>
    intro b n _ _
    have hfl : run elementSizeLimit (txt b n) (renderSegs []) = (textTok b, .eof) := rfl
    rw [hfl]
    have := scan_text_inactive b [] .eof
    rw [List.append_nil] at this
    rw [this]; rfl
  | cons s segs ih =>
    intro b n hn hok
    obtain ⟨hlt, hlen, b', n', evs, hf, hn', hnp⟩ := hok s (List.mem_cons_self ..)
    have hok' : ∀ x ∈ segs, x.Ok := fun x hx => hok x (List.mem_cons_of_mem _ hx)
    -- the whole segment as one feed
    have f1 := feed_open b n hn
    have f2 : feed elementSizeLimit TState.fresh s.text = some (txt s.text.reverse s.text.length, []) := by
      have := feed_text elementSizeLimit s.text [] 0 hlt (by omega)
      simpa [fresh_eq] using this
    have f3 := feed_close s.text.reverse s.text.length hlen
    have f12 := feed_append _ _ _ _ _ _ _ _ f1 f2
    have f123 := feed_append _ _ _ _ _ _ _ _ f12 f3
    have f1234' := feed_append _ _ _ _ _ _ _ _ f123 hf
    have f1234 : feed elementSizeLimit (txt b n) (openTag ++ s.text ++ closeTag ++ s.filler)
        = some (txt b' n', textTok b ++ (Tok.startTag preName :: (textTok s.text.reverse ++ (Tok.endTag preName :: evs)))) := by
      rw [f1234']; simp
    have hbytes : renderSegs (s :: segs) = (openTag ++ s.text ++ closeTag ++ s.filler) ++ renderSegs segs := by
      simp [renderSegs, Seg.bytes]
    rw [hbytes, run_feed _ _ _ _ _ _ f1234]
    simp only [List.append_assoc, List.map_cons, List.flatten_cons]
    rw [scan_text_inactive]
    simp only [List.cons_append, List.append_assoc, scan, beq_self_eq_true, if_true, Bool.false_eq_true, if_false]
    rw [words_textTok]
    simp only [List.cons_append, scan, beq_self_eq_true, if_true, Bool.not_true, Bool.false_eq_true, if_false]
    rw [scan_noPre _ _ _ hnp, ih b' n' hn' hok']

/-- **The decoder on a laid-out document**: neutral prefix, then `pre` elements with `<`-free texts
and neutral fillers.  Its result is that of the words of the texts, in order, followed by a clean
end of the pipe. -/
theorem decode_layout (sizes : Nat → Nat) (pre : Bytes) (segs : List Seg) (hpre : Neutral pre)
    (hok : ∀ s ∈ segs, s.Ok) :
    decode sizes (pre ++ renderSegs segs) = openAndRead sizes (segs.map (fun s => words s.text)).flatten none := by
  obtain ⟨b, n, evs, hf, hn, hnp⟩ := hpre
  unfold decode tokenize
  rw [run_feed _ _ _ _ _ _ hf]
  simp only []
  rw [scan_noPre _ _ _ hnp, scan_segs segs b n hn hok]

/-! ## Checking neutrality by evaluation -/

def neutralCheck (f : Bytes) : Bool :=
  match feed elementSizeLimit TState.fresh f with
  | some (s, evs) => s == txt s.buf s.n && decide (s.n + 2 < elementSizeLimit) && noPre evs
  | none => false

theorem neutral_of_check (f : Bytes) (h : neutralCheck f = true) : Neutral f := by
  unfold neutralCheck at h
  split at h
  · rename_i s evs hf
    simp only [Bool.and_eq_true, beq_iff_eq, decide_eq_true_eq] at h
    obtain ⟨⟨h1, h2⟩, h3⟩ := h
    exact ⟨s.buf, s.n, evs, by rw [hf, ← h1], h2, h3⟩
  · cases h

/-- A run of ASCII whitespace (or any `<`-free text short enough) is neutral. -/
theorem neutral_text (t : Bytes) (h : ∀ c ∈ t, c ≠ 60) (hl : t.length + 2 < elementSizeLimit) : Neutral t := by
  refine ⟨t.reverse, t.length, [], ?_, hl, rfl⟩
  have := feed_text elementSizeLimit t [] 0 h (by omega)
  simpa [fresh_eq] using this

/-! ## Pieces: text and complete markup -/

/-- `g` is a sequence of complete tokens, none of them a `pre` tag: it starts with a real tag opener
(`<` followed by a letter, `/`, `!` or `?`), and fed to the tokenizer between two tokens it returns the
tokenizer to exactly that situation without hitting the buffer limit and without delivering a `pre`
tag.  (Comments, doctype, `<?…>`, start / end / self-closing tags with any attributes, whole raw-text
elements such as `<script>…</script>`, and any concatenation of those with text in between.) -/
def markupCheck (g : Bytes) : Bool :=
  match g with
  | 60 :: c :: _ =>
    (isLetter c || c == 47 || c == 33 || c == 63) &&
      (match feed elementSizeLimit TState.fresh g with
       | some (s, evs) => s == TState.fresh && noPre evs
       | none => false)
  | _ => false

def Markup (g : Bytes) : Prop := markupCheck g = true

theorem step_textLt_opener (b : Bytes) (n : Nat) (c : UInt8)
    (hc : (isLetter c || c == 47 || c == 33 || c == 63) = true) :
    (step { mode := .textLt, buf := b, n := n } c).1 = (step { mode := .textLt, buf := [], n := 1 } c).1
    ∧ (step { mode := .textLt, buf := b, n := n } c).2 = textTok b
    ∧ (step { mode := .textLt, buf := [], n := 1 } c).2 = [] := by
  simp only [step]
  by_cases h1 : isLetter c = true
  · simp [h1, textTok]
  · by_cases h2 : (c == 47) = true
    · simp [h1, h2, textTok]
    · by_cases h3 : (c == 33) = true
      · simp [h1, h2, h3, textTok]
      · by_cases h4 : (c == 63) = true
        · simp [h1, h2, h3, h4, textTok]
        · simp [h1, h2, h3, h4] at hc

/-- Complete markup behaves the same from every plain-text state: the pending text is delivered, then
the tokens of the markup; the tokenizer is between two tokens again. -/
theorem feed_markup (g : Bytes) (hg : Markup g) (b : Bytes) (n : Nat) (hn : n + 2 < elementSizeLimit) :
    ∃ evs, feed elementSizeLimit (txt b n) g = some (TState.fresh, textTok b ++ evs) ∧ noPre evs = true := by
  unfold Markup markupCheck at hg
  split at hg
  · rename_i c g'
    simp only [Bool.and_eq_true] at hg
    obtain ⟨hc, hg⟩ := hg
    split at hg
    · rename_i s evs hf
      simp only [Bool.and_eq_true, beq_iff_eq] at hg
      obtain ⟨hs, hnp⟩ := hg
      subst hs
      refine ⟨evs, ?_, hnp⟩
      obtain ⟨e1, e2, e3⟩ := step_textLt_opener b (n + 1) c hc
      -- unfold the first two steps on both sides
      have hlim1 : ¬ (elementSizeLimit > 0 ∧ (txt b n).n + 1 ≥ elementSizeLimit) := by simp only [txt]; omega
      have hlim2 : ¬ (elementSizeLimit > 0 ∧ ({ mode := .textLt, buf := b, n := n + 1 } : TState).n + 1 ≥ elementSizeLimit) := by
        simp only; omega
      have hs1 : step (txt b n) 60 = ({ mode := .textLt, buf := b, n := n + 1 }, []) := by
        simp [step, txt, textStep]
      have hlim1' : ¬ (elementSizeLimit > 0 ∧ TState.fresh.n + 1 ≥ elementSizeLimit) := by
        simp [TState.fresh, elementSizeLimit]
      have hlim2' : ¬ (elementSizeLimit > 0 ∧ ({ mode := .textLt, buf := [], n := 1 } : TState).n + 1 ≥ elementSizeLimit) := by
        simp [elementSizeLimit]
      have hs1' : step TState.fresh 60 = ({ mode := .textLt, buf := [], n := 1 }, []) := by
        simp [step, TState.fresh, textStep]
      simp only [feed, hlim1', if_false, hs1', hlim2', List.nil_append, e3] at hf
      simp only [feed, hlim1, if_false, hs1, hlim2, List.nil_append, e1, e2]
      cases hfg : feed elementSizeLimit (step { mode := .textLt, buf := [], n := 1 } c).1 g' with
      | none => rw [hfg] at hf; cases hf
      | some r =>
        obtain ⟨s2, ev2⟩ := r
        rw [hfg] at hf
        simp only [Option.some.injEq, Prod.mk.injEq] at hf
        obtain ⟨rfl, rfl⟩ := hf
        simp
    · cases hg
  · cases hg

inductive Piece
  | text (t : Bytes)
  | markup (g : Bytes)

def Piece.bytes : Piece → Bytes
  | .text t => t
  | .markup g => g

def piecesBytes (ps : List Piece) : Bytes := (ps.map Piece.bytes).flatten

/-- A sequence of pieces is admissible when its texts are free of `<`, its markup is complete
(`Markup`), and no run of consecutive text reaches the tokenizer's buffer limit (`n` = length of the
text run so far). -/
def PiecesOk : Nat → List Piece → Prop
  | n, [] => n + 2 < elementSizeLimit
  | n, .text t :: r => (∀ c ∈ t, c ≠ 60) ∧ PiecesOk (n + t.length) r
  | n, .markup g :: r => n + 2 < elementSizeLimit ∧ Markup g ∧ PiecesOk 0 r

theorem PiecesOk.bound : ∀ (ps : List Piece) (n : Nat), PiecesOk n ps → n + 2 < elementSizeLimit := by
  intro ps
  induction ps with
  | nil => intro n h; exact h
  | cons p r ih =>
    intro n h
    cases p with
    | text t => have := ih _ h.2; omega
    | markup g => exact h.1

theorem feed_pieces : ∀ (ps : List Piece) (b : Bytes) (n : Nat), PiecesOk n ps →
    ∃ b' n' evs, feed elementSizeLimit (txt b n) (piecesBytes ps) = some (txt b' n', evs)
      ∧ n' + 2 < elementSizeLimit ∧ noPre evs = true := by
  intro ps
  induction ps with
  | nil => intro b n h; exact ⟨b, n, [], rfl, h, rfl⟩
  | cons p r ih =>
    intro b n h
    cases p with
    | text t =>
      obtain ⟨h1, h2⟩ := h
      have hb := PiecesOk.bound r _ h2
      have f1 := feed_text elementSizeLimit t b n h1 (by omega)
      obtain ⟨b', n', evs, f2, hn', hnp⟩ := ih (t.reverse ++ b) (n + t.length) h2
      refine ⟨b', n', [] ++ evs, ?_, hn', by simpa using hnp⟩
      have : piecesBytes (.text t :: r) = t ++ piecesBytes r := by simp [piecesBytes, Piece.bytes]
      rw [this]
      exact feed_append _ _ _ _ _ _ _ _ f1 f2
    | markup g =>
      obtain ⟨h1, h2, h3⟩ := h
      obtain ⟨evs1, f1, hnp1⟩ := feed_markup g h2 b n h1
      obtain ⟨b', n', evs, f2, hn', hnp⟩ := ih [] 0 h3
      refine ⟨b', n', (textTok b ++ evs1) ++ evs, ?_, hn', ?_⟩
      · have : piecesBytes (.markup g :: r) = g ++ piecesBytes r := by simp [piecesBytes, Piece.bytes]
        rw [this]
        exact feed_append _ _ _ _ _ _ _ _ f1 (by rw [fresh_eq]; exact f2)
      · simp [noPre_append, noPre_textTok, hnp1, hnp]

/-- Admissible pieces are harmless outside `pre` elements. -/
theorem neutral_pieces (ps : List Piece) (h : PiecesOk 0 ps) : Neutral (piecesBytes ps) := by
  obtain ⟨b', n', evs, f, hn, hnp⟩ := feed_pieces ps [] 0 h
  exact ⟨b', n', evs, by rw [fresh_eq]; exact f, hn, hnp⟩

/-! ## From the words to the payload -/

theorem flatten_filter_nonempty (ws : List Bytes) : (ws.filter (fun w => !w.isEmpty)).flatten = ws.flatten := by
  induction ws with
  | nil => rfl
  | cons w ws ih =>
    by_cases h : w = []
    · subst h; simp [ih]
    · have : w.isEmpty = false := by simp [h]
      simp [List.filter_cons, this, ih]

/-- The pipe carries the words of a standard base64 text preceded by the version byte `'0'`:
`NewArmorDecoder` accepts it and reading to the end yields exactly the payload, for every way the text
is split into words and every sequence of positive read sizes. -/
theorem openAndRead_good (sizes : Nat → Nat) (hs : ∀ i, 1 ≤ sizes i) (ws : List Bytes) (p : Bytes)
    (hne : ∀ w ∈ ws, w ≠ []) (hflat : ws.flatten = 48 :: Base64.encode Base64.std p) :
    openAndRead sizes ws none = .read p none := by
  cases ws with
  | nil => simp at hflat
  | cons w0 rest =>
    cases w0 with
    | nil => exact absurd rfl (hne [] (List.mem_cons_self ..))
    | cons v w =>
      simp only [List.flatten_cons, List.cons_append, List.cons.injEq] at hflat
      obtain ⟨hv, hrest⟩ := hflat
      subst hv
      have hnl : ∀ c ∈ Base64.encode Base64.std p, Base64.isNL c = false := by
        intro c hc
        have := Base64.encode_all Base64.std (fun c => !Base64.isNL c) (by decide) (by decide) p c hc
        simpa using this
      have hclean : Base64.Clean (pipeSrc (w :: rest) none) := by
        intro c hc
        simp only [pipeSrc, List.mem_filter, Bool.not_eq_true', List.isEmpty_eq_false_iff] at hc
        refine ⟨hc.2, fun x hx => hnl x ?_⟩
        rw [← hrest]
        have : x ∈ (w :: rest).flatten := List.mem_flatten.mpr ⟨c, hc.1, hx⟩
        simpa using this
      have hfl : (pipeSrc (w :: rest) none).chunks.flatten = Base64.encode Base64.std p := by
        simp only [pipeSrc, flatten_filter_nonempty]
        simpa using hrest
      have hsd := Base64.streamDecode_encode sizes hs (pipeSrc (w :: rest) none).chunks p hclean hfl
      have hsrc : pipeSrc (w :: rest) none = ⟨(pipeSrc (w :: rest) none).chunks, .eof⟩ := rfl
      simp only [openAndRead, bne_self_eq_false, Bool.false_eq_true, if_false]
      rw [hsrc, hsd]

/-! ## Errors -/

/-- The decoder reports an error: `NewArmorDecoder` fails, or reading ends with something other than a
clean `io.EOF`. -/
def Result.isError : Result → Bool
  | .read _ none => false
  | _ => true

/-- Whatever `decodeToWriter` has written, if it returns an error the caller gets an error. -/
theorem openAndRead_error (sizes : Nat → Nat) (ws : List Bytes) (e : Err) :
    (openAndRead sizes ws (some e)).isError = true := by
  unfold openAndRead
  split
  · rfl
  · rfl
  · rename_i v w rest
    split
    · rfl
    · have hne := Base64.streamDecode_not_eof Base64.std sizes (pipeSrc (w :: rest) (some e)).chunks (errCode e)
      have hsrc : pipeSrc (w :: rest) (some e) = ⟨(pipeSrc (w :: rest) (some e)).chunks, .other (errCode e)⟩ := rfl
      rw [← hsrc] at hne
      generalize Base64.streamDecode Base64.std sizes (pipeSrc (w :: rest) (some e)) = r at hne
      obtain ⟨o, oe⟩ := r
      cases oe with
      | none => rfl
      | some x =>
        cases x with
        | eof => exact absurd rfl hne
        | unexpectedEOF => rfl
        | corrupt => rfl
        | other k => rfl

/-- Words of the text tokens (what the loop writes while `active`). -/
def textWords : List Tok → List Bytes
  | [] => []
  | .text t :: r => words t ++ textWords r
  | _ :: r => textWords r

theorem scan_active_noPre : ∀ (evs r : List Tok) (e : TEnd), noPre evs = true →
    scan true (evs ++ r) e = (textWords evs ++ (scan true r e).1, (scan true r e).2) := by
  intro evs
  induction evs with
  | nil => intro r e _; simp [textWords]
  | cons t ts ih =>
    intro r e h
    cases t with
    | text x => simp only [noPre] at h; simp [scan, textWords, ih r e h]
    | startTag n =>
      simp only [noPre, Bool.and_eq_true, bne_iff_ne, ne_eq] at h
      have : (n == preName) = false := by simp [h.1]
      simp [scan, textWords, this, ih r e h.2]
    | endTag n =>
      simp only [noPre, Bool.and_eq_true, bne_iff_ne, ne_eq] at h
      have : (n == preName) = false := by simp [h.1]
      simp [scan, textWords, this, ih r e h.2]
    | selfClosing n => simp only [noPre] at h; simp [scan, textWords, ih r e h]
    | comment => simp only [noPre] at h; simp [scan, textWords, ih r e h]
    | doctype => simp only [noPre] at h; simp [scan, textWords, ih r e h]

/-- Once the tokenizer has hit its buffer limit the loop ends with an error, whatever came before. -/
theorem scan_exceeded : ∀ (toks : List Tok) (a : Bool), (scan a toks .exceeded).2 ≠ none := by
  intro toks
  induction toks with
  | nil => intro a; simp [scan]
  | cons t ts ih =>
    intro a
    cases t with
    | text x => cases a <;> simp [scan, ih]
    | startTag n => cases a <;> simp only [scan] <;> split <;> simp [ih]
    | endTag n => cases a <;> simp only [scan] <;> split <;> simp [ih]
    | selfClosing n => simp [scan, ih]
    | comment => simp [scan, ih]
    | doctype => simp [scan, ih]

theorem decode_error_of_scan (sizes : Nat → Nat) (doc : Bytes)
    (h : (scan false (tokenize doc).1 (tokenize doc).2).2 ≠ none) : (decode sizes doc).isError = true := by
  unfold decode
  simp only []
  cases he : (scan false (tokenize doc).1 (tokenize doc).2).2 with
  | none => exact absurd he h
  | some e => exact openAndRead_error sizes _ e

/-- The scan result of a document that starts with a harmless prefix and well-formed segments, in terms
of what follows them. -/
theorem scan_prefix (pre : Bytes) (segs : List Seg) (rest : Bytes) (hpre : Neutral pre) (hok : ∀ s ∈ segs, s.Ok) :
    ∃ b n, n + 2 < elementSizeLimit ∧
      scan false (tokenize (pre ++ renderSegs segs ++ rest)).1 (tokenize (pre ++ renderSegs segs ++ rest)).2
        = ((segs.map (fun s => words s.text)).flatten
             ++ (scan false (run elementSizeLimit (txt b n) rest).1 (run elementSizeLimit (txt b n) rest).2).1,
           (scan false (run elementSizeLimit (txt b n) rest).1 (run elementSizeLimit (txt b n) rest).2).2) := by
  obtain ⟨b0, n0, evs0, hf0, hn0, hnp0⟩ := hpre
  -- generalise over the state in which the segments start
  have key : ∀ (segs : List Seg) (b : Bytes) (n : Nat), n + 2 < elementSizeLimit → (∀ s ∈ segs, s.Ok) →
      ∃ b' n', n' + 2 < elementSizeLimit ∧
        scan false (run elementSizeLimit (txt b n) (renderSegs segs ++ rest)).1 (run elementSizeLimit (txt b n) (renderSegs segs ++ rest)).2
          = ((segs.map (fun s => words s.text)).flatten
               ++ (scan false (run elementSizeLimit (txt b' n') rest).1 (run elementSizeLimit (txt b' n') rest).2).1,
             (scan false (run elementSizeLimit (txt b' n') rest).1 (run elementSizeLimit (txt b' n') rest).2).2) := by
    intro segs
    induction segs with
    | nil => intro b n hn _; exact ⟨b, n, hn, by simp [renderSegs]⟩
    | cons s segs ih =>
      intro b n hn hok
      obtain ⟨hlt, hlen, b', n', evs, hf, hn', hnp⟩ := hok s (List.mem_cons_self ..)
      have hok' : ∀ x ∈ segs, x.Ok := fun x hx => hok x (List.mem_cons_of_mem _ hx)
      have f1 := feed_open b n hn
      have f2 : feed elementSizeLimit TState.fresh s.text = some (txt s.text.reverse s.text.length, []) := by
        have := feed_text elementSizeLimit s.text [] 0 hlt (by omega)
        simpa [fresh_eq] using this
      have f3 := feed_close s.text.reverse s.text.length hlen
      have f12 := feed_append _ _ _ _ _ _ _ _ f1 f2
      have f123 := feed_append _ _ _ _ _ _ _ _ f12 f3
      have f1234' := feed_append _ _ _ _ _ _ _ _ f123 hf
      have f1234 : feed elementSizeLimit (txt b n) (openTag ++ s.text ++ closeTag ++ s.filler)
          = some (txt b' n', textTok b ++ (Tok.startTag preName :: (textTok s.text.reverse ++ (Tok.endTag preName :: evs)))) := by
        rw [f1234']; simp
      obtain ⟨b2, n2, hn2, hsc⟩ := ih b' n' hn' hok'
      refine ⟨b2, n2, hn2, ?_⟩
      have hbytes : renderSegs (s :: segs) ++ rest = (openTag ++ s.text ++ closeTag ++ s.filler) ++ (renderSegs segs ++ rest) := by
        simp [renderSegs, Seg.bytes]
      rw [hbytes, run_feed _ _ _ _ _ _ f1234]
      simp only [List.append_assoc, List.map_cons, List.flatten_cons]
      rw [scan_text_inactive]
      simp only [List.cons_append, List.append_assoc, scan, beq_self_eq_true, if_true, Bool.false_eq_true, if_false]
      rw [words_textTok]
      simp only [List.cons_append, scan, beq_self_eq_true, if_true, Bool.not_true, Bool.false_eq_true, if_false]
      rw [scan_noPre _ _ _ hnp, hsc]
  obtain ⟨b', n', hn', hsc⟩ := key segs b0 n0 hn0 hok
  refine ⟨b', n', hn', ?_⟩
  unfold tokenize
  rw [List.append_assoc, run_feed _ _ _ _ _ _ hf0]
  simp only []
  rw [scan_noPre _ _ _ hnp0, hsc]

/-- Plain text reaching the buffer limit: the tokenizer stops with `ErrBufferExceeded`. -/
theorem run_text_exceeds (M : Nat) (hM : 0 < M) : ∀ (t rest b : Bytes) (n : Nat), (∀ c ∈ t, c ≠ 60) → n < M →
    M ≤ n + t.length → (run M (txt b n) (t ++ rest)).2 = .exceeded := by
  intro t
  induction t with
  | nil => intro rest b n _ h1 h2; simp only [List.length_nil, Nat.add_zero] at h2; omega
  | cons c cs ih =>
    intro rest b n hc hn h
    have hc0 : c ≠ 60 := hc c (List.mem_cons_self ..)
    simp only [List.cons_append, run]
    split
    · rfl
    · rename_i hlim
      have hlt : n + 1 < M := by simp only [txt] at hlim; omega
      have hstep : step (txt b n) c = (txt (c :: b) (n + 1), []) := by simp [step, txt, textStep, hc0]
      rw [hstep]
      simp only []
      exact ih rest (c :: b) (n + 1) (fun x hx => hc x (List.mem_cons_of_mem _ hx)) hlt
        (by simp only [List.length_cons] at h; omega)

/-- A byte that is neither in the standard base64 alphabet nor `=` (nor a line break) among the
words after the version byte: the decoder never ends cleanly. -/
theorem openAndRead_bad (sizes : Nat → Nat) (w : Bytes) (rest : List Bytes) (err : Option Err) (b : UInt8)
    (hb : b ∈ (w :: rest).flatten) (hbad : Base64.isBad Base64.std b = true) :
    (openAndRead sizes ((48 :: w) :: rest) err).isError = true := by
  have hmem : b ∈ (pipeSrc (w :: rest) err).bytes := by
    simp only [pipeSrc, Base64.Src.bytes, flatten_filter_nonempty]
    exact hb
  have hne := Base64.streamDecode_bad Base64.std rfl sizes (pipeSrc (w :: rest) err) b hmem hbad
  simp only [openAndRead, bne_self_eq_false, Bool.false_eq_true, if_false]
  generalize Base64.streamDecode Base64.std sizes (pipeSrc (w :: rest) err) = r at hne
  obtain ⟨o, oe⟩ := r
  cases oe with
  | none => rfl
  | some x =>
    cases x with
    | eof => exact absurd rfl hne
    | unexpectedEOF => rfl
    | corrupt => rfl
    | other k => rfl

end Snowflake.Amp
