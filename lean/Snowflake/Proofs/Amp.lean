import Snowflake.Proofs.Base64
import Snowflake.Model.Amp
/-! Helper lemmas for the AMP armor model (C10): encoder normal form and shape. -/
namespace Snowflake.Amp
open Snowflake.Base64 (Bytes)

/-! ## The element encoder, one byte at a time -/

/-- What `elementEncoder.Write` does with a single byte. -/
def ElemEnc.byte (enc : ElemEnc) (b : UInt8) : ElemEnc × Bytes :=
  let o0 : Bytes := if enc.ec = 0 ∧ enc.cc = 0 then preOpen else []
  if enc.cc + 1 ≥ bytesPerChunk then
    if enc.ec + 1 ≥ chunksPerElement then (⟨0, 0⟩, o0 ++ [b] ++ [10] ++ preClose)
    else (⟨0, enc.ec + 1⟩, o0 ++ [b] ++ [10])
  else (⟨enc.cc + 1, enc.ec⟩, o0 ++ [b])

def ElemEnc.bytes : ElemEnc → Bytes → ElemEnc × Bytes
  | enc, [] => (enc, [])
  | enc, b :: bs => let r := enc.byte b; let r2 := ElemEnc.bytes r.1 bs; (r2.1, r.2 ++ r2.2)

def ElemEnc.Ok (enc : ElemEnc) : Prop := enc.cc < bytesPerChunk ∧ enc.ec < chunksPerElement

theorem ElemEnc.byte_ok (enc : ElemEnc) (b : UInt8) (h : enc.Ok) : (enc.byte b).1.Ok := by
  unfold ElemEnc.byte
  simp only [ElemEnc.Ok, bytesPerChunk, chunksPerElement] at *
  by_cases h1 : enc.cc + 1 ≥ 32
  · by_cases h2 : enc.ec + 1 ≥ 992
    · simp [h1, h2]
    · simp only [h1, h2, if_true, if_false]; omega
  · simp only [h1, if_false]; omega

theorem ElemEnc.bytes_ok : ∀ (p : Bytes) (enc : ElemEnc), enc.Ok → (ElemEnc.bytes enc p).1.Ok := by
  intro p
  induction p with
  | nil => intro enc h; exact h
  | cons b bs ih => intro enc h; exact ih _ (ElemEnc.byte_ok enc b h)

theorem ElemEnc.bytes_append : ∀ (a b : Bytes) (enc : ElemEnc),
    ElemEnc.bytes enc (a ++ b) =
      ((ElemEnc.bytes (ElemEnc.bytes enc a).1 b).1, (ElemEnc.bytes enc a).2 ++ (ElemEnc.bytes (ElemEnc.bytes enc a).1 b).2) := by
  intro a
  induction a with
  | nil => intro b enc; simp [ElemEnc.bytes]
  | cons x xs ih => intro b enc; simp [ElemEnc.bytes, ih]

/-- A block that stays within one chunk or exactly completes it (what one iteration of the loop of
`elementEncoder.Write` handles). -/
theorem ElemEnc.bytes_block : ∀ (bs : Bytes) (b : UInt8) (enc : ElemEnc), enc.cc + (bs.length + 1) ≤ bytesPerChunk →
    ElemEnc.bytes enc (b :: bs) =
      if enc.cc + (bs.length + 1) ≥ bytesPerChunk then
        (if enc.ec + 1 ≥ chunksPerElement then (⟨0, 0⟩ : ElemEnc) else ⟨0, enc.ec + 1⟩,
         (if enc.ec = 0 ∧ enc.cc = 0 then preOpen else []) ++ (b :: bs) ++ [10]
           ++ (if enc.ec + 1 ≥ chunksPerElement then preClose else []))
      else (⟨enc.cc + (bs.length + 1), enc.ec⟩, (if enc.ec = 0 ∧ enc.cc = 0 then preOpen else []) ++ (b :: bs)) := by
  intro bs
  induction bs with
  | nil =>
    intro b enc h
    simp only [ElemEnc.bytes, ElemEnc.byte, List.length_nil, Nat.zero_add]
    split
    · split <;> simp
    · simp
  | cons c cs ih =>
    intro b enc h
    simp only [List.length_cons] at h
    have hlt : ¬ (enc.cc + 1 ≥ bytesPerChunk) := by simp only [bytesPerChunk] at *; omega
    rw [ElemEnc.bytes]
    simp only [ElemEnc.byte, hlt, if_false]
    rw [ih c ⟨enc.cc + 1, enc.ec⟩ (by simp only [List.length_cons]; omega)]
    have e1 : enc.cc + 1 + (cs.length + 1) = enc.cc + (cs.length + 1 + 1) := by omega
    have hne : ¬ (enc.ec = 0 ∧ enc.cc + 1 = 0) := by omega
    simp only [List.length_cons, e1, hne, if_false, List.nil_append]
    split <;> simp

theorem ElemEnc.write_bytes : ∀ (fuel : Nat) (enc : ElemEnc) (p : Bytes), enc.Ok → p.length ≤ fuel →
    (ElemEnc.write fuel enc p).1 = (ElemEnc.bytes enc p).1
    ∧ (ElemEnc.write fuel enc p).2.flatten = (ElemEnc.bytes enc p).2 := by
  intro fuel
  induction fuel with
  | zero =>
    intro enc p _ h
    have : p = [] := List.eq_nil_of_length_eq_zero (by omega)
    subst this; simp [ElemEnc.write, ElemEnc.bytes]
  | succ fuel ih =>
    intro enc p hok h
    unfold ElemEnc.write
    split
    · rename_i hpos
      obtain ⟨hcc, hec⟩ := hok
      generalize hn : min (bytesPerChunk - enc.cc) p.length = n
      have hn1 : 1 ≤ n := by simp only [bytesPerChunk] at *; omega
      have hnle : n ≤ p.length := by omega
      have hnc : enc.cc + n ≤ bytesPerChunk := by simp only [bytesPerChunk] at *; omega
      -- the block of this iteration
      obtain ⟨b, bs, hblk⟩ : ∃ b bs, p.take n = b :: bs := by
        cases htk : p.take n with
        | nil => have := congrArg List.length htk; simp only [List.length_take, List.length_nil] at this; omega
        | cons b bs => exact ⟨b, bs, rfl⟩
      have hbl : bs.length + 1 = n := by
        have := congrArg List.length hblk; simp only [List.length_take, List.length_cons] at this; omega
      have hsplit : p = (b :: bs) ++ p.drop n := by rw [← hblk, List.take_append_drop]
      have hB := ElemEnc.bytes_block bs b enc (by omega)
      rw [hbl] at hB
      have hbp : ElemEnc.bytes enc p = ElemEnc.bytes enc ((b :: bs) ++ p.drop n) :=
        congrArg (ElemEnc.bytes enc) hsplit
      simp only []
      by_cases hfull : enc.cc + n ≥ bytesPerChunk
      · simp only [hfull, if_true] at hB ⊢
        by_cases hel : enc.ec + 1 ≥ chunksPerElement
        · simp only [hel, if_true] at hB ⊢
          have hok' : ElemEnc.Ok ⟨0, 0⟩ := by simp [ElemEnc.Ok, bytesPerChunk, chunksPerElement]
          obtain ⟨i1, i2⟩ := ih ⟨0, 0⟩ (p.drop n) hok' (by simp only [List.length_drop]; omega)
          rw [hbp, ElemEnc.bytes_append, hB]
          refine ⟨i1, ?_⟩
          simp only [List.flatten_append, i2, hblk]
          split <;> simp
        · simp only [hel, if_false] at hB ⊢
          have hok' : ElemEnc.Ok ⟨0, enc.ec + 1⟩ := by
            simp only [ElemEnc.Ok, bytesPerChunk, chunksPerElement] at *; omega
          obtain ⟨i1, i2⟩ := ih ⟨0, enc.ec + 1⟩ (p.drop n) hok' (by simp only [List.length_drop]; omega)
          rw [hbp, ElemEnc.bytes_append, hB]
          refine ⟨i1, ?_⟩
          simp only [List.flatten_append, i2, hblk]
          split <;> simp
      · simp only [hfull, if_false] at hB ⊢
        have hel : ¬ (enc.ec ≥ chunksPerElement) := by omega
        simp only [hel, if_false]
        have hok' : ElemEnc.Ok ⟨enc.cc + n, enc.ec⟩ := by
          simp only [ElemEnc.Ok] at *; omega
        obtain ⟨i1, i2⟩ := ih ⟨enc.cc + n, enc.ec⟩ (p.drop n) hok' (by simp only [List.length_drop]; omega)
        rw [hbp, ElemEnc.bytes_append, hB]
        refine ⟨i1, ?_⟩
        simp only [List.flatten_append, i2, hblk]
        split <;> simp
    · rename_i hz
      have : p = [] := List.eq_nil_of_length_eq_zero (by omega)
      subst this; simp [ElemEnc.bytes]

theorem ElemEnc.writes_bytes : ∀ (ws : List Bytes) (enc : ElemEnc), enc.Ok →
    (ElemEnc.writes enc ws).1 = (ElemEnc.bytes enc ws.flatten).1
    ∧ (ElemEnc.writes enc ws).2.flatten = (ElemEnc.bytes enc ws.flatten).2 := by
  intro ws
  induction ws with
  | nil => intro enc _; simp [ElemEnc.writes, ElemEnc.bytes]
  | cons w ws ih =>
    intro enc hok
    obtain ⟨w1, w2⟩ := ElemEnc.write_bytes w.length enc w hok (Nat.le_refl _)
    have hok' : (ElemEnc.write w.length enc w).1.Ok := by rw [w1]; exact ElemEnc.bytes_ok w enc hok
    obtain ⟨i1, i2⟩ := ih _ hok'
    simp only [ElemEnc.writes, List.flatten_cons, ElemEnc.bytes_append, List.flatten_append]
    rw [i1, i2, w1, w2]
    exact ⟨rfl, rfl⟩

/-! ## Closed form of the encoder output -/

/-- Everything between header and trailer for the text `t` (version byte + base64). -/
def body (t : Bytes) : Bytes := (ElemEnc.bytes {} t).2 ++ (ElemEnc.bytes {} t).1.close.flatten

theorem run_closed : ∀ (cs : List Bytes) (a : ArmorEnc), a.b64.length < 3 → a.el.Ok →
    (ArmorEnc.run a cs).flatten =
      (ElemEnc.bytes a.el (Base64.encode Base64.std (a.b64 ++ cs.flatten))).2
        ++ (ElemEnc.bytes a.el (Base64.encode Base64.std (a.b64 ++ cs.flatten))).1.close.flatten
        ++ boilerplateEnd := by
  intro cs
  induction cs with
  | nil =>
    intro a hb hok
    simp only [ArmorEnc.run, ArmorEnc.close, List.flatten_nil, List.append_nil]
    obtain ⟨w1, w2⟩ := ElemEnc.writes_bytes (Base64.Encoder.close Base64.std a.b64) a.el hok
    have hflat : (Base64.Encoder.close Base64.std a.b64).flatten = Base64.encode Base64.std a.b64 := by
      unfold Base64.Encoder.close
      split
      · simp
      · have : a.b64 = [] := List.eq_nil_of_length_eq_zero (by omega)
        rw [this]; simp [Base64.encode]
    simp only [List.flatten_append, w1, w2, hflat, List.flatten_cons, List.flatten_nil, List.append_nil]
  | cons c cs ih =>
    intro a hb hok
    simp only [ArmorEnc.run, ArmorEnc.write, List.flatten_append, List.flatten_cons]
    obtain ⟨s1, s2⟩ := Base64.write_spec Base64.std a.b64 c hb
    obtain ⟨w1, w2⟩ := ElemEnc.writes_bytes (Base64.Encoder.write Base64.std a.b64 c).2 a.el hok
    have hb' := Base64.write_buf_lt Base64.std a.b64 c hb
    have hok' : (ElemEnc.writes a.el (Base64.Encoder.write Base64.std a.b64 c).2).1.Ok := by
      rw [w1]; exact ElemEnc.bytes_ok _ _ hok
    rw [ih _ hb' hok']
    simp only [w1, w2, s1, s2]
    generalize hX : a.b64 ++ c = X
    generalize hk : X.length / 3 * 3 = k
    have henc : Base64.encode Base64.std (a.b64 ++ (c ++ cs.flatten))
        = Base64.encode Base64.std (X.take k) ++ Base64.encode Base64.std (X.drop k ++ cs.flatten) := by
      rw [← Base64.encode_append3 _ _ _ (by simp only [List.length_take]; omega)]
      rw [← List.append_assoc (X.take k), List.take_append_drop, ← hX, List.append_assoc]
    rw [henc, ElemEnc.bytes_append]
    simp only [List.append_assoc]

theorem newArmorEncoder_eq : newArmorEncoder = (⟨[], ⟨1, 0⟩⟩, [boilerplateStart, preOpen, [48]]) := by
  rfl

/-- **Closed form**: header, the element encoding of `'0' ++ base64(all data)`, trailer. -/
theorem encodeChunks_eq (cs : List Bytes) :
    encodeChunks cs = boilerplateStart ++ body (48 :: Base64.encode Base64.std cs.flatten) ++ boilerplateEnd := by
  unfold encodeChunks
  rw [newArmorEncoder_eq]
  simp only [List.flatten_append, List.flatten_cons, List.flatten_nil, List.append_nil]
  rw [run_closed cs ⟨[], ⟨1, 0⟩⟩ (by simp) (by simp [ElemEnc.Ok, bytesPerChunk, chunksPerElement])]
  simp only [List.nil_append, body]
  have h0 : ElemEnc.bytes {} (48 :: Base64.encode Base64.std cs.flatten)
      = ((ElemEnc.bytes ⟨1, 0⟩ (Base64.encode Base64.std cs.flatten)).1,
         preOpen ++ [48] ++ (ElemEnc.bytes ⟨1, 0⟩ (Base64.encode Base64.std cs.flatten)).2) := by
    rw [ElemEnc.bytes]
    rfl
  rw [h0]
  simp only [List.append_assoc]

/-! ## Shape of the body -/

def renderWords (ws : List Bytes) : Bytes := (ws.map (· ++ [10])).flatten
def renderElem (ws : List Bytes) : Bytes := preOpen ++ renderWords ws ++ preClose

theorem renderWords_append (a b : List Bytes) : renderWords (a ++ b) = renderWords a ++ renderWords b := by
  simp [renderWords]

/-- Output so far: the finished elements, and the element in progress (finished words `op`, current
word `w`). -/
def partialRender (done : List (List Bytes)) (op : List Bytes) (w : Bytes) : Bytes :=
  (done.map renderElem).flatten ++ (if op = [] ∧ w = [] then [] else preOpen ++ renderWords op ++ w)

def WordOk (w : Bytes) : Prop := w ≠ [] ∧ w.length ≤ bytesPerChunk
def ElemOk (e : List Bytes) : Prop := e ≠ [] ∧ e.length ≤ chunksPerElement ∧ ∀ w ∈ e, WordOk w

theorem pr_nil (done : List (List Bytes)) : partialRender done [] [] = (done.map renderElem).flatten := by
  simp [partialRender]

theorem pr_byte (done : List (List Bytes)) (op : List Bytes) (w : Bytes) (b : UInt8) :
    partialRender done op w ++ ((if op = [] ∧ w = [] then preOpen else []) ++ [b])
      = partialRender done op (w ++ [b]) := by
  unfold partialRender
  by_cases h : op = [] ∧ w = []
  · obtain ⟨e1, e2⟩ := h; subst e1 e2; simp [renderWords]
  · simp [h]

theorem pr_word (done : List (List Bytes)) (op : List Bytes) (w : Bytes) (hw : w ≠ []) :
    partialRender done op w ++ [10] = partialRender done (op ++ [w]) [] := by
  unfold partialRender
  simp [hw, renderWords]

theorem pr_elem (done : List (List Bytes)) (op : List Bytes) (hop : op ≠ []) :
    partialRender done op [] ++ preClose = partialRender (done ++ [op]) [] [] := by
  unfold partialRender
  simp [hop, renderElem]

theorem elemOk_snoc (op : List Bytes) (w : Bytes) (hop : ∀ x ∈ op, WordOk x) (hw : WordOk w)
    (hl : op.length + 1 ≤ chunksPerElement) : ElemOk (op ++ [w]) := by
  refine ⟨by simp, by simp only [List.length_append, List.length_singleton]; exact hl, ?_⟩
  intro x hx
  rcases List.mem_append.mp hx with h | h
  · exact hop x h
  · simp only [List.mem_singleton] at h; subst h; exact hw

theorem all_snoc {α} {P : α → Prop} (l : List α) (a : α) (hl : ∀ x ∈ l, P x) (ha : P a) : ∀ x ∈ l ++ [a], P x := by
  intro x hx
  rcases List.mem_append.mp hx with h | h
  · exact hl x h
  · simp only [List.mem_singleton] at h; subst h; exact ha

theorem close_flat (enc : ElemEnc) : enc.close.flatten =
    if enc.ec = 0 ∧ enc.cc = 0 then [] else if enc.cc = 0 then preClose else 10 :: preClose := by
  unfold ElemEnc.close
  by_cases h00 : enc.ec = 0 ∧ enc.cc = 0
  · simp [h00]
  · have e1 : (!decide (enc.ec = 0 ∧ enc.cc = 0)) = true := by simp [h00]
    rw [if_pos e1, if_neg h00]
    by_cases hc0 : enc.cc = 0
    · rw [if_pos hc0, if_pos hc0]; simp
    · rw [if_neg hc0, if_neg hc0]; simp

theorem body_invariant : ∀ (t : Bytes) (enc : ElemEnc) (done : List (List Bytes)) (op : List Bytes) (w : Bytes),
    enc.ec = op.length → enc.cc = w.length → w.length < bytesPerChunk → op.length < chunksPerElement →
    (∀ e ∈ done, ElemOk e) → (∀ x ∈ op, WordOk x) →
    ∃ elems : List (List Bytes), partialRender done op w ++ (ElemEnc.bytes enc t).2 ++ (ElemEnc.bytes enc t).1.close.flatten
        = (elems.map renderElem).flatten
      ∧ elems.flatten.flatten = done.flatten.flatten ++ op.flatten ++ w ++ t
      ∧ ∀ e ∈ elems, ElemOk e := by
  intro t
  induction t with
  | nil =>
    intro enc done op w hec hcc hw hop hdone hopok
    simp only [ElemEnc.bytes, List.append_nil]
    rw [close_flat]
    by_cases h00 : enc.ec = 0 ∧ enc.cc = 0
    · have hop0 : op = [] := List.eq_nil_of_length_eq_zero (by omega)
      have hw0 : w = [] := List.eq_nil_of_length_eq_zero (by omega)
      subst hop0 hw0
      refine ⟨done, ?_, by simp, hdone⟩
      simp [h00, pr_nil]
    · by_cases hc0 : enc.cc = 0
      · have hw0 : w = [] := List.eq_nil_of_length_eq_zero (by omega)
        subst hw0
        have hopne : op ≠ [] := by intro h; subst h; simp at hec; omega
        refine ⟨done ++ [op], ?_, by simp, all_snoc done op hdone ⟨hopne, by omega, hopok⟩⟩
        rw [if_neg h00, if_pos hc0, pr_elem done op hopne, pr_nil]
      · have hwne : w ≠ [] := by intro h; subst h; simp at hcc; omega
        refine ⟨done ++ [op ++ [w]], ?_, by simp, all_snoc done _ hdone (elemOk_snoc op w hopok ⟨hwne, by omega⟩ (by omega))⟩
        rw [if_neg h00, if_neg hc0]
        rw [show (10 :: preClose) = [10] ++ preClose from rfl, ← List.append_assoc, pr_word done op w hwne,
          pr_elem done _ (by simp), pr_nil]
  | cons b t ih =>
    intro enc done op w hec hcc hw hop hdone hopok
    rw [ElemEnc.bytes]
    simp only []
    have hpfx : (if enc.ec = 0 ∧ enc.cc = 0 then preOpen else ([] : Bytes)) = if op = [] ∧ w = [] then preOpen else [] := by
      by_cases h : op = [] ∧ w = []
      · obtain ⟨e1, e2⟩ := h; subst e1 e2; simp at hec hcc; simp [hec, hcc]
      · have : ¬ (enc.ec = 0 ∧ enc.cc = 0) := by
          intro ⟨e1, e2⟩
          apply h
          exact ⟨List.eq_nil_of_length_eq_zero (by omega), List.eq_nil_of_length_eq_zero (by omega)⟩
        simp [h, this]
    have hwb1 : (w ++ [b]).length = w.length + 1 := by simp
    unfold ElemEnc.byte
    simp only [hpfx]
    by_cases hfull : enc.cc + 1 ≥ bytesPerChunk
    · simp only [hfull, if_true]
      have hwb : WordOk (w ++ [b]) := ⟨by simp, by omega⟩
      by_cases hel : enc.ec + 1 ≥ chunksPerElement
      · simp only [hel, if_true]
        -- the element is complete
        have hE : ElemOk (op ++ [w ++ [b]]) := elemOk_snoc op _ hopok hwb (by omega)
        obtain ⟨elems, g1, g2, g3⟩ := ih ⟨0, 0⟩ (done ++ [op ++ [w ++ [b]]]) [] [] rfl rfl
          (by simp [bytesPerChunk]) (by simp [chunksPerElement]) (all_snoc done _ hdone hE)
          (by intro x hx; simp at hx)
        refine ⟨elems, ?_, ?_, g3⟩
        · rw [← g1, ← pr_elem done _ (by simp), ← pr_word done op _ (by simp), ← pr_byte]
          simp only [List.append_assoc]
        · rw [g2]; simp
      · simp only [hel, if_false]
        obtain ⟨elems, g1, g2, g3⟩ := ih ⟨0, enc.ec + 1⟩ done (op ++ [w ++ [b]]) []
          (by simp only [List.length_append, List.length_singleton]; omega) rfl
          (by simp [bytesPerChunk]) (by simp only [List.length_append, List.length_singleton]; omega) hdone
          (all_snoc op _ hopok hwb)
        refine ⟨elems, ?_, ?_, g3⟩
        · rw [← g1, ← pr_word done op _ (by simp), ← pr_byte]
          simp only [List.append_assoc]
        · rw [g2]; simp
    · simp only [hfull, if_false]
      obtain ⟨elems, g1, g2, g3⟩ := ih ⟨enc.cc + 1, enc.ec⟩ done op (w ++ [b]) hec
        (by show enc.cc + 1 = _; omega) (by omega) hop hdone hopok
      refine ⟨elems, ?_, ?_, g3⟩
      · rw [← g1, ← pr_byte]; simp only [List.append_assoc]
      · rw [g2]; simp

/-- **Shape of the body**: complete `pre` elements whose words, concatenated, are the text. -/
theorem body_shape (t : Bytes) :
    ∃ elems : List (List Bytes), body t = (elems.map renderElem).flatten ∧ elems.flatten.flatten = t
      ∧ ∀ e ∈ elems, ElemOk e := by
  obtain ⟨elems, h1, h2, h3⟩ := body_invariant t {} [] [] [] rfl rfl (by simp [bytesPerChunk])
    (by simp [chunksPerElement]) (by intro e he; simp at he) (by intro x hx; simp at hx)
  refine ⟨elems, ?_, by simpa using h2, h3⟩
  rw [← h1]; simp [partialRender, body]

end Snowflake.Amp
