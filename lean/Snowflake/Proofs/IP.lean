import Snowflake.Base.IP
/-!
Lemmas about the IP text model: Go's rendering of an address parses back to the same address.
-/
namespace Snowflake.IP
open Snowflake.GoStr

/-! ## decimal octets -/

theorem digit_toNat {k : Nat} (h : k < 10) : (digit k).toNat = 48 + k := by
  simp only [digit, UInt8.toNat_ofNat']; omega

theorem isDigit_digit {k : Nat} (h : k < 10) : isDigit (digit k) = true := by
  simp only [isDigit, digit_toNat h]; simp; omega

theorem digit_ne_dot {k : Nat} (h : k < 10) : digit k ≠ 46 := by
  intro hh
  have := congrArg UInt8.toNat hh
  rw [digit_toNat h] at this
  simp at this; omega

theorem v4loop_digit {k : Nat} (hk : k < 10) (rest : Str) (val dl : Nat) (fields : List UInt8)
    (h0 : ¬ (dl = 1 ∧ val = 0)) (hv : val * 10 + k ≤ 255) :
    v4loop (digit k :: rest) val dl fields = v4loop rest (val * 10 + k) (dl + 1) fields := by
  rw [v4loop]
  simp only [isDigit_digit hk, if_true, if_neg h0, digit_toNat hk]
  have : 48 + k - 48 = k := by omega
  rw [this, if_neg (by omega)]

theorem v4loop_dot (rest : Str) (val dl : Nat) (fields : List UInt8)
    (hdl : dl ≠ 0) (hrest : rest ≠ []) (hf : fields.length ≠ 3) :
    v4loop (46 :: rest) val dl fields = v4loop rest 0 0 (fields ++ [UInt8.ofNat val]) := by
  rw [v4loop]
  have : isDigit 46 = false := by decide
  simp [this, hdl, hrest, hf]

/-- Reading a rendered octet: the loop arrives at the end of the digits with `val = x` and a non-zero
digit count. -/
theorem v4loop_dec (x : UInt8) (rest : Str) (fields : List UInt8) :
    ∃ dl, dl ≠ 0 ∧ v4loop (dec x ++ rest) 0 0 fields = v4loop rest x.toNat dl fields := by
  have hx : x.toNat < 256 := x.toNat_lt
  unfold dec
  simp only
  by_cases h100 : x.toNat ≥ 100
  · have h10 : x.toNat ≥ 10 := by omega
    refine ⟨3, by omega, ?_⟩
    simp only [h100, h10, if_true, List.cons_append, List.nil_append]
    rw [v4loop_digit (by omega) _ _ _ _ (by omega) (by omega),
      v4loop_digit (by omega) _ _ _ _ (by omega) (by omega),
      v4loop_digit (by omega) _ _ _ _ (by omega) (by omega)]
    congr 1; omega
  · by_cases h10 : x.toNat ≥ 10
    · refine ⟨2, by omega, ?_⟩
      simp only [h100, h10, if_true, if_false, List.cons_append, List.nil_append]
      rw [v4loop_digit (by omega) _ _ _ _ (by omega) (by omega),
        v4loop_digit (by omega) _ _ _ _ (by omega) (by omega)]
      congr 1; omega
    · refine ⟨1, by omega, ?_⟩
      simp only [h100, h10, if_false, List.nil_append, List.cons_append]
      rw [v4loop_digit (by omega) _ _ _ _ (by omega) (by omega)]
      congr 1; omega

theorem dec_ne_nil (x : UInt8) : dec x ≠ [] := by
  unfold dec; simp

theorem ofNat_toNat (x : UInt8) : UInt8.ofNat x.toNat = x := by simp

/-- **IPv4 text round trip**: the dotted quad Go prints is parsed back to the same four octets. -/
theorem parse4_render4 (a b c d : UInt8) : parse4 (render4 a b c d) = some [a, b, c, d] := by
  unfold parse4 render4
  simp only [List.append_assoc, List.cons_append, List.nil_append]
  obtain ⟨d1, h1, e1⟩ := v4loop_dec a (46 :: (dec b ++ 46 :: (dec c ++ 46 :: dec d))) []
  rw [e1, v4loop_dot _ _ _ _ h1 (by simp [dec_ne_nil]) (by simp)]
  obtain ⟨d2, h2, e2⟩ := v4loop_dec b (46 :: (dec c ++ 46 :: dec d)) ([] ++ [UInt8.ofNat a.toNat])
  rw [e2, v4loop_dot _ _ _ _ h2 (by simp [dec_ne_nil]) (by simp)]
  obtain ⟨d3, h3, e3⟩ := v4loop_dec c (46 :: dec d) ([] ++ [UInt8.ofNat a.toNat] ++ [UInt8.ofNat b.toNat])
  rw [e3, v4loop_dot _ _ _ _ h3 (by simp [dec_ne_nil]) (by simp)]
  obtain ⟨d4, h4, e4⟩ := v4loop_dec d [] ([] ++ [UInt8.ofNat a.toNat] ++ [UInt8.ofNat b.toNat] ++ [UInt8.ofNat c.toNat])
  rw [List.append_nil] at e4
  rw [e4, v4loop]
  simp

/-! ## hexadecimal groups -/

theorem hexVal_hexDigit_fin : ∀ d : Fin 16, hexVal (hexDigit d.val) = some d.val := by decide
theorem hexVal_hexDigit {d : Nat} (h : d < 16) : hexVal (hexDigit d) = some d := hexVal_hexDigit_fin ⟨d, h⟩
theorem isHex_hexDigit {d : Nat} (h : d < 16) : isHex (hexDigit d) = true := by simp [isHex, hexVal_hexDigit h]
theorem hexDigit_ne_fin : ∀ d : Fin 16, hexDigit d.val ≠ 58 ∧ hexDigit d.val ≠ 46 ∧ hexDigit d.val ≠ 37 := by decide
theorem isHex_colon : isHex 58 = false := by decide
def hexDigits (x : Nat) : List Nat :=
  (if x ≥ 0x1000 then [x / 4096] else []) ++ (if x ≥ 0x100 then [x / 256 % 16] else [])
    ++ (if x ≥ 0x10 then [x / 16 % 16] else []) ++ [x % 16]
theorem hex_eq (x : Nat) : hex x = (hexDigits x).map hexDigit := by
  unfold hex hexDigits
  split <;> split <;> split <;> simp
theorem hexDigits_lt {x : Nat} (hx : x < 65536) : ∀ d ∈ hexDigits x, d < 16 := by
  intro d hd
  unfold hexDigits at hd
  simp only [List.mem_append, List.mem_singleton] at hd
  rcases hd with ((h | h) | h) | h
  · split at h <;> simp at h; omega
  · split at h <;> simp at h; omega
  · split at h <;> simp at h; omega
  · omega
theorem hexDigits_len (x : Nat) : 1 ≤ (hexDigits x).length ∧ (hexDigits x).length ≤ 4 := by
  unfold hexDigits
  split <;> split <;> split <;> simp
theorem hexDigits_val {x : Nat} (hx : x < 65536) : (hexDigits x).foldl (fun a d => a * 16 + d) 0 = x := by
  unfold hexDigits
  split <;> split <;> split <;> simp <;> omega

/-- scanning a run of hex digits that is followed by the end of the string or a colon -/
theorem takeWhile_hexrun (ds : List Nat) (hds : ∀ d ∈ ds, d < 16) (rest : Str)
    (hrest : rest = [] ∨ ∃ r, rest = 58 :: r) :
    (ds.map hexDigit ++ rest).takeWhile isHex = ds.map hexDigit
    ∧ (ds.map hexDigit ++ rest).dropWhile isHex = rest := by
  induction ds with
  | nil =>
    rcases hrest with h | ⟨r, h⟩ <;> subst h <;> simp [isHex_colon]
  | cons d ds ih =>
    have hd : isHex (hexDigit d) = true := isHex_hexDigit (hds d (by simp))
    have := ih (fun x hx => hds x (by simp [hx]))
    simp [hd, this]

theorem hexNum_map (ds : List Nat) (hds : ∀ d ∈ ds, d < 16) (a : Nat) :
    (ds.map hexDigit).foldl (fun acc c => acc * 16 + (hexVal c).getD 0) a = ds.foldl (fun a d => a * 16 + d) a := by
  induction ds generalizing a with
  | nil => rfl
  | cons d ds ih =>
    simp only [List.map_cons, List.foldl_cons, hexVal_hexDigit (hds d (by simp)), Option.getD_some]
    exact ih (fun x hx => hds x (by simp [hx])) _

theorem hexNum_hex {g : Nat} (hg : g < 65536) : hexNum (hex g) = g := by
  rw [hex_eq, hexNum, hexNum_map _ (hexDigits_lt hg), hexDigits_val hg]

/-- bytes of one group -/
def gbytes (g : Nat) : List UInt8 := [UInt8.ofNat (g / 256), UInt8.ofNat (g % 256)]

/-- One pass of the loop over a rendered group followed by end of string or a colon. -/
theorem v6loop_group {g : Nat} (hg : g < 65536) (fuel : Nat) (rest : Str) (ell : Option Nat) (acc : List UInt8)
    (hrest : rest = [] ∨ ∃ r, rest = 58 :: r) :
    v6loop (fuel + 1) (hex g ++ rest) ell acc =
      match rest with
      | [] => some (ell, acc ++ gbytes g)
      | c :: r1 =>
        if c ≠ 58 then none
        else match r1 with
          | [] => none
          | c2 :: r2 =>
            if c2 = 58 then
              if ell.isSome then none
              else if r2 = [] then some (some (acc ++ gbytes g).length, acc ++ gbytes g)
              else v6loop fuel r2 (some (acc ++ gbytes g).length) (acc ++ gbytes g)
            else v6loop fuel r1 ell (acc ++ gbytes g) := by
  rw [v6loop]
  have htd := takeWhile_hexrun (hexDigits g) (hexDigits_lt hg) rest hrest
  rw [← hex_eq] at htd
  have hlen : (hex g).length = (hexDigits g).length := by rw [hex_eq]; simp
  have hl := hexDigits_len g
  simp only [htd.1, htd.2, hexNum_hex hg, gbytes]
  rw [if_neg (by omega), if_neg (by omega)]
  have : ¬ rest.head? = some 46 := by
    rcases hrest with h | ⟨r, h⟩ <;> subst h <;> simp
  rw [if_neg this]
  cases rest with
  | nil => rfl
  | cons c r1 => cases r1 <;> rfl


def gsBytes (gs : List Nat) : List UInt8 := gs.flatMap gbytes

theorem joinGroups_cons2 (g g' : Nat) (gs : List Nat) :
    joinGroups (g :: g' :: gs) = hex g ++ 58 :: joinGroups (g' :: gs) := by
  simp [joinGroups]

theorem hex_head {g : Nat} (hg : g < 65536) : ∃ c r, hex g = c :: r ∧ c ≠ 58 ∧ c ≠ 46 ∧ c ≠ 37 := by
  rw [hex_eq]
  have hl := hexDigits_len g
  have hlt := hexDigits_lt hg
  cases hd : hexDigits g with
  | nil => simp [hd] at hl
  | cons d ds =>
    have : d < 16 := hlt d (by simp [hd])
    have := hexDigit_ne_fin ⟨d, this⟩
    exact ⟨hexDigit d, ds.map hexDigit, by simp, this⟩

theorem joinGroups_head {g : Nat} (hg : g < 65536) (gs : List Nat) :
    ∃ c r, joinGroups (g :: gs) = c :: r ∧ c ≠ 58 ∧ c ≠ 46 ∧ c ≠ 37 := by
  obtain ⟨c, r, h, hc⟩ := hex_head hg
  cases gs with
  | nil => exact ⟨c, r, by simpa [joinGroups] using h, hc⟩
  | cons g' gs => exact ⟨c, r ++ 58 :: joinGroups (g' :: gs), by rw [joinGroups_cons2, h]; rfl, hc⟩

/-- The loop reads a colon-separated list of groups up to the end of the string. -/
theorem v6loop_groups (gs : List Nat) (hne : gs ≠ []) (hgs : ∀ g ∈ gs, g < 65536) (fuel : Nat)
    (hf : gs.length ≤ fuel) (ell : Option Nat) (acc : List UInt8) :
    v6loop fuel (joinGroups gs) ell acc = some (ell, acc ++ gsBytes gs) := by
  induction gs generalizing fuel acc with
  | nil => exact absurd rfl hne
  | cons g gs ih =>
    cases fuel with
    | zero => simp at hf
    | succ f =>
      have hg : g < 65536 := hgs g (by simp)
      cases gs with
      | nil =>
        have := v6loop_group hg f [] ell acc (Or.inl rfl)
        simpa [joinGroups, gsBytes] using this
      | cons g' gs' =>
        obtain ⟨c, r, hcr, hc, _⟩ := joinGroups_head (hgs g' (by simp)) gs'
        have := v6loop_group hg f (58 :: joinGroups (g' :: gs')) ell acc (Or.inr ⟨_, rfl⟩)
        rw [joinGroups_cons2, this, hcr]
        simp only [ne_eq, not_true_eq_false, if_false, if_neg hc]
        rw [← hcr, ih (by simp) (fun x hx => hgs x (by simp [hx])) f (by simpa using hf)]
        simp [gsBytes, List.append_assoc]

/-- The loop reads a list of groups followed by `::`. -/
theorem v6loop_groups_ellipsis (gs : List Nat) (hne : gs ≠ []) (hgs : ∀ g ∈ gs, g < 65536) (fuel : Nat)
    (hf : gs.length ≤ fuel) (acc : List UInt8) (tail : Str) :
    v6loop fuel (joinGroups gs ++ 58 :: 58 :: tail) none acc =
      if tail = [] then some (some (acc ++ gsBytes gs).length, acc ++ gsBytes gs)
      else v6loop (fuel - gs.length) tail (some (acc ++ gsBytes gs).length) (acc ++ gsBytes gs) := by
  induction gs generalizing fuel acc with
  | nil => exact absurd rfl hne
  | cons g gs ih =>
    cases fuel with
    | zero => simp at hf
    | succ f =>
      have hg : g < 65536 := hgs g (by simp)
      cases gs with
      | nil =>
        have := v6loop_group hg f (58 :: 58 :: tail) none acc (Or.inr ⟨_, rfl⟩)
        simp only [joinGroups, gsBytes, List.flatMap_cons, List.flatMap_nil, List.append_nil, List.length_cons,
          List.length_nil]
        rw [this]
        simp
      | cons g' gs' =>
        obtain ⟨c, r, hcr, hc, _⟩ := joinGroups_head (hgs g' (by simp)) gs'
        have := v6loop_group hg f (58 :: (joinGroups (g' :: gs') ++ 58 :: 58 :: tail)) none acc (Or.inr ⟨_, rfl⟩)
        rw [joinGroups_cons2, List.append_assoc, List.cons_append, this, hcr]
        simp only [ne_eq, not_true_eq_false, if_false, List.cons_append, if_neg hc]
        rw [← List.cons_append, ← hcr, ih (by simp) (fun x hx => hgs x (by simp [hx])) f (by simpa using hf)]
        simp [gsBytes, List.append_assoc]


theorem gsBytes_length (gs : List Nat) : (gsBytes gs).length = 2 * gs.length := by
  induction gs with
  | nil => rfl
  | cons g gs ih => simp [gsBytes, gbytes] at ih ⊢; omega

theorem joinGroups_eq_nil {gs : List Nat} (hgs : ∀ g ∈ gs, g < 65536) : joinGroups gs = [] ↔ gs = [] := by
  cases gs with
  | nil => simp [joinGroups]
  | cons g gs =>
    obtain ⟨c, r, h, _⟩ := joinGroups_head (hgs g (by simp)) gs
    simp [h]

/-- characters of rendered groups: never `.` or `%` -/
theorem hex_chars {g : Nat} (hg : g < 65536) : ∀ c ∈ hex g, c ≠ 58 ∧ c ≠ 46 ∧ c ≠ 37 := by
  intro c hc
  rw [hex_eq, List.mem_map] at hc
  obtain ⟨d, hd, rfl⟩ := hc
  exact hexDigit_ne_fin ⟨d, hexDigits_lt hg d hd⟩

theorem joinGroups_chars (gs : List Nat) (hgs : ∀ g ∈ gs, g < 65536) : ∀ c ∈ joinGroups gs, c ≠ 46 ∧ c ≠ 37 := by
  induction gs with
  | nil => simp [joinGroups]
  | cons g gs ih =>
    cases gs with
    | nil =>
      intro c hc
      simp only [joinGroups] at hc
      exact (hex_chars (hgs g (by simp)) c hc).2
    | cons g' gs' =>
      intro c hc
      rw [joinGroups_cons2, List.mem_append, List.mem_cons] at hc
      rcases hc with h | h | h
      · exact (hex_chars (hgs g (by simp)) c h).2
      · subst h; decide
      · exact ih (fun x hx => hgs x (by simp [hx])) c h

theorem contains_pct_false (s : Str) (h : ∀ c ∈ s, c ≠ 46 ∧ c ≠ 37) : s.contains 37 = false := by
  cases hc : s.contains 37 with
  | false => rfl
  | true =>
    rw [List.contains_iff_mem] at hc
    exact absurd rfl (h 37 hc).2

/-- `::` with `pre` before and `post` after it (fewer than 8 groups in total). -/
theorem parse6_ellipsis (pre post : List Nat) (hpre : ∀ g ∈ pre, g < 65536) (hpost : ∀ g ∈ post, g < 65536)
    (hlen : pre.length + post.length < 8) :
    parse6 (joinGroups pre ++ 58 :: 58 :: joinGroups post) =
      some (gsBytes pre ++ List.replicate (16 - 2 * (pre.length + post.length)) 0 ++ gsBytes post) := by
  unfold parse6
  have hchars : ∀ c ∈ joinGroups pre ++ 58 :: 58 :: joinGroups post, c ≠ 46 ∧ c ≠ 37 := by
    intro c hc
    simp only [List.mem_append, List.mem_cons] at hc
    rcases hc with h | h | h | h
    · exact joinGroups_chars pre hpre c h
    · subst h; decide
    · subst h; decide
    · exact joinGroups_chars post hpost c h
  rw [contains_pct_false _ hchars]
  simp only [Bool.false_eq_true, if_false]
  cases pre with
  | nil =>
    simp only [joinGroups, List.nil_append, List.take, List.drop, beq_self_eq_true, if_true, true_and]
    by_cases hp : post = []
    · subst hp; simp [joinGroups, gsBytes]
    · have hj : joinGroups post ≠ [] := fun h => hp ((joinGroups_eq_nil hpost).mp h)
      rw [if_neg hj, v6loop_groups post hp hpost 8 (by simp at hlen; omega) (some 0) []]
      have hl := gsBytes_length post
      simp only [List.nil_append, hl]
      simp at hlen
      rw [if_pos (by omega)]
      simp [gsBytes]
  | cons g pre' =>
    obtain ⟨c, r, hcr, hc, _⟩ := joinGroups_head (hpre g (by simp)) pre'
    have hlead : ((joinGroups (g :: pre') ++ 58 :: 58 :: joinGroups post).take 2 == [58, 58]) = false := by
      rw [hcr]
      cases r with
      | nil => simp [hc]
      | cons c' r' => simp [hc]
    simp only [hlead, Bool.false_eq_true, if_false, false_and]
    rw [v6loop_groups_ellipsis (g :: pre') (by simp) hpre 8 (by simp at hlen ⊢; omega) [] (joinGroups post)]
    have hl1 := gsBytes_length (g :: pre')
    have hl2 := gsBytes_length post
    simp only [List.length_cons] at hlen hl1
    by_cases hp : post = []
    · subst hp
      simp only [joinGroups, if_true, List.nil_append, hl1]
      rw [if_pos (by omega)]
      have e1 : 2 * (pre'.length + 1) = (gsBytes (g :: pre')).length := by rw [hl1]
      rw [e1, List.take_length, List.drop_length, ← e1]
      simp [gsBytes]
    · have hj : joinGroups post ≠ [] := fun h => hp ((joinGroups_eq_nil hpost).mp h)
      have hfuel : post.length ≤ 8 - (g :: pre').length := by simp only [List.length_cons]; omega
      rw [if_neg hj, v6loop_groups post hp hpost _ hfuel]
      simp only [List.nil_append, List.length_append, hl1, hl2]
      rw [if_pos (by omega)]
      have e1 : 2 * (pre'.length + 1) = (gsBytes (g :: pre')).length := by rw [hl1]
      rw [e1, List.take_left, List.drop_left]
      simp only [List.length_cons, List.append_assoc]
      congr 4; omega

/-- all eight groups written out -/
theorem parse6_full (gs : List Nat) (hgs : ∀ g ∈ gs, g < 65536) (hlen : gs.length = 8) :
    parse6 (joinGroups gs) = some (gsBytes gs) := by
  unfold parse6
  rw [contains_pct_false _ (joinGroups_chars gs hgs)]
  simp only [Bool.false_eq_true, if_false]
  cases gs with
  | nil => simp at hlen
  | cons g gs' =>
    obtain ⟨c, r, hcr, hc, _⟩ := joinGroups_head (hgs g (by simp)) gs'
    have hlead : ((joinGroups (g :: gs')).take 2 == [58, 58]) = false := by
      rw [hcr]
      cases r with
      | nil => simp
      | cons c' r' => simp [hc]
    simp only [hlead, Bool.false_eq_true, if_false, false_and]
    rw [v6loop_groups (g :: gs') (by simp) hgs 8 (by omega) none []]
    have hl := gsBytes_length (g :: gs')
    simp only [List.nil_append, hl, hlen]
    simp


/-! ## the zero run chosen by `appendTo6` -/

theorem zeroRun_spec (L : List Nat) : zeroRun L ≤ L.length ∧ ∀ j, j < zeroRun L → L[j]? = some 0 := by
  induction L with
  | nil => simp [zeroRun]
  | cons g gs ih =>
    unfold zeroRun at ih ⊢
    by_cases hg : g = 0
    · subst hg
      simp only [List.takeWhile_cons, beq_self_eq_true, if_true, List.length_cons]
      refine ⟨by omega, ?_⟩
      intro j hj
      cases j with
      | zero => rfl
      | succ j => simpa using ih.2 j (by omega)
    · simp [hg]

/-- what the round trip needs from the chosen run: it is a run of zero groups -/
def RunOk (full : List Nat) (p : Nat × Nat) : Prop :=
  p.1 < p.2 ∧ p.2 ≤ full.length ∧ ∀ j, p.1 ≤ j → j < p.2 → full[j]? = some 0

theorem best_step (l i cur : Nat) (best : Option (Nat × Nat)) (q : Nat × Nat)
    (hq : (if l ≥ 2 ∧ l > cur then some (i, i + l) else best) = some q) :
    (l ≥ 2 ∧ q = (i, i + l)) ∨ best = some q := by
  split at hq
  · rename_i h; exact Or.inl ⟨h.1, (Option.some.inj hq).symm⟩
  · exact Or.inr hq

theorem bestRun_sound (full : List Nat) : ∀ (gs : List Nat) (i : Nat) (best : Option (Nat × Nat)),
    full.drop i = gs → (∀ p, best = some p → RunOk full p) → ∀ p, bestRun gs i best = some p → RunOk full p := by
  intro gs
  induction gs with
  | nil => intro i best _ hb p hp; exact hb p (by simpa [bestRun] using hp)
  | cons g gs ih =>
    intro i best hdrop hb p hp
    simp only [bestRun] at hp
    refine ih (i + 1) _ ?_ ?_ p hp
    · rw [← List.drop_drop, hdrop]; rfl
    · intro q hq
      rcases best_step _ _ _ _ _ hq with ⟨hl2, hq⟩ | hq
      · subst hq
        have hz := zeroRun_spec (g :: gs)
        have hlen : (full.drop i).length = (g :: gs).length := by rw [hdrop]
        rw [List.length_drop] at hlen
        simp only [List.length_cons] at hlen hz
        refine ⟨by simp only; omega, by simp only; omega, ?_⟩
        intro j hj1 hj2
        simp only at hj1 hj2
        have := hz.2 (j - i) (by omega)
        rw [← hdrop, List.getElem?_drop] at this
        rwa [show i + (j - i) = j by omega] at this
      · exact hb q hq

theorem run_split {full : List Nat} {p : Nat × Nat} (h : RunOk full p) :
    full = full.take p.1 ++ List.replicate (p.2 - p.1) 0 ++ full.drop p.2 := by
  obtain ⟨h1, h2, h3⟩ := h
  have e1 : full = full.take p.1 ++ full.drop p.1 := (List.take_append_drop _ _).symm
  have e2 : full.drop p.1 = (full.drop p.1).take (p.2 - p.1) ++ (full.drop p.1).drop (p.2 - p.1) :=
    (List.take_append_drop _ _).symm
  have e3 : (full.drop p.1).drop (p.2 - p.1) = full.drop p.2 := by
    rw [List.drop_drop]; congr 1; omega
  have e4 : (full.drop p.1).take (p.2 - p.1) = List.replicate (p.2 - p.1) 0 := by
    rw [List.eq_replicate_iff]
    refine ⟨by rw [List.length_take, List.length_drop]; omega, ?_⟩
    intro b hb
    obtain ⟨j, hj⟩ := List.getElem?_of_mem hb
    rw [List.getElem?_take] at hj
    split at hj
    · rw [List.getElem?_drop, h3 _ (by omega) (by omega)] at hj
      exact (Option.some.inj hj).symm
    · cases hj
  rw [e3, e4] at e2
  conv => lhs; rw [e1, e2]
  simp [List.append_assoc]

/-! ## bytes and groups -/

theorem gsBytes_append (a b : List Nat) : gsBytes (a ++ b) = gsBytes a ++ gsBytes b := by
  simp [gsBytes]

theorem gsBytes_replicate_zero (k : Nat) : gsBytes (List.replicate k 0) = List.replicate (2 * k) 0 := by
  induction k with
  | zero => rfl
  | succ k ih =>
    rw [List.replicate_succ, show 2 * (k + 1) = 2 * k + 1 + 1 by omega, List.replicate_succ, List.replicate_succ]
    simp only [gsBytes, List.flatMap_cons] at ih ⊢
    rw [ih]; rfl

theorem groups_spec : ∀ (n : Nat) (ip : List UInt8), ip.length = 2 * n →
    (groups ip).length = n ∧ (∀ g ∈ groups ip, g < 65536) ∧ gsBytes (groups ip) = ip
  | 0, ip, h => by
    have : ip = [] := List.length_eq_zero_iff.mp (by omega)
    subst this; simp [groups, gsBytes]
  | n + 1, ip, h => by
    match ip, h with
    | a :: b :: rest, h =>
      have ih := groups_spec n rest (by simp at h; omega)
      have ha := a.toNat_lt
      have hb := b.toNat_lt
      refine ⟨by simp [groups, ih.1], ?_, ?_⟩
      · intro g hg
        simp only [groups, List.mem_cons] at hg
        rcases hg with h | h
        · omega
        · exact ih.2.1 g h
      · simp only [groups, gsBytes, List.flatMap_cons, gbytes]
        have e1 : (a.toNat * 256 + b.toNat) / 256 = a.toNat := by omega
        have e2 : (a.toNat * 256 + b.toNat) % 256 = b.toNat := by omega
        rw [e1, e2]
        have := ih.2.2
        simp only [gsBytes] at this
        simp [this]


/-! ## IPv6 text round trip -/

theorem render6_eq_cases (gs : List Nat) :
    (bestRun gs 0 none = none ∧ render6 gs = joinGroups gs) ∨
    (∃ p, bestRun gs 0 none = some p ∧ RunOk gs p ∧
      render6 gs = joinGroups (gs.take p.1) ++ 58 :: 58 :: joinGroups (gs.drop p.2)) := by
  unfold render6
  cases hb : bestRun gs 0 none with
  | none => exact Or.inl ⟨rfl, rfl⟩
  | some p =>
    refine Or.inr ⟨p, rfl, bestRun_sound gs gs 0 none (by simp) (by simp) p hb, ?_⟩
    obtain ⟨zs, ze⟩ := p
    simp

/-- **IPv6 text round trip**: what `appendTo6` prints for 16 bytes, `parseIPv6` reads back as the same
16 bytes — whichever run of zero groups was compressed. -/
theorem parse6_render6 (ip : List UInt8) (hlen : ip.length = 16) : parse6 (render6 (groups ip)) = some ip := by
  obtain ⟨hl, hlt, hb⟩ := groups_spec 8 ip (by omega)
  rcases render6_eq_cases (groups ip) with ⟨_, hr⟩ | ⟨p, _, hok, hr⟩
  · rw [hr, parse6_full _ hlt hl, hb]
  · have hsplit := run_split hok
    obtain ⟨h1, h2, _⟩ := hok
    rw [hr, parse6_ellipsis _ _ (fun g hg => hlt g (List.mem_of_mem_take hg)) (fun g hg => hlt g (List.mem_of_mem_drop hg))
      (by rw [List.length_take, List.length_drop]; omega)]
    conv => rhs; rw [← hb, hsplit]
    rw [gsBytes_append, gsBytes_append, gsBytes_replicate_zero, List.length_take, List.length_drop]
    congr 4
    omega

/-! ## dispatch on the first of `.`, `:`, `%` -/

theorem find_colon (s : Str) (h : ∀ c ∈ s, c ≠ 46 ∧ c ≠ 37) (hm : (58 : UInt8) ∈ s) :
    s.find? (fun c => c == 46 || c == 58 || c == 37) = some 58 := by
  induction s with
  | nil => simp at hm
  | cons c s ih =>
    by_cases hc : c = 58
    · subst hc; simp
    · have h1 := h c (by simp)
      have : (c == 46 || c == 58 || c == 37) = false := by simp [h1.1, h1.2, hc]
      rw [List.find?_cons, this]
      refine ih (fun x hx => h x (by simp [hx])) ?_
      rcases List.mem_cons.mp hm with h' | h'
      · exact absurd h'.symm hc
      · exact h'

theorem colon_mem_joinGroups (g g' : Nat) (gs : List Nat) : (58 : UInt8) ∈ joinGroups (g :: g' :: gs) := by
  rw [joinGroups_cons2]; simp

theorem render6_chars (gs : List Nat) (hgs : ∀ g ∈ gs, g < 65536) (hlen : 2 ≤ gs.length) :
    (∀ c ∈ render6 gs, c ≠ 46 ∧ c ≠ 37) ∧ (58 : UInt8) ∈ render6 gs := by
  rcases render6_eq_cases gs with ⟨_, hr⟩ | ⟨p, _, _, hr⟩
  · rw [hr]
    refine ⟨joinGroups_chars gs hgs, ?_⟩
    match gs, hlen with
    | g :: g' :: gs', _ => exact colon_mem_joinGroups g g' gs'
  · rw [hr]
    refine ⟨?_, by simp⟩
    intro c hc
    simp only [List.mem_append, List.mem_cons] at hc
    rcases hc with h | h | h | h
    · exact joinGroups_chars _ (fun g hg => hgs g (List.mem_of_mem_take hg)) c h
    · subst h; decide
    · subst h; decide
    · exact joinGroups_chars _ (fun g hg => hgs g (List.mem_of_mem_drop hg)) c h

theorem parseIP_render6 (ip : List UInt8) (hlen : ip.length = 16) : parseIP (render6 (groups ip)) = some ip := by
  obtain ⟨hl, hlt, _⟩ := groups_spec 8 ip (by omega)
  obtain ⟨h1, h2⟩ := render6_chars (groups ip) hlt (by omega)
  unfold parseIP
  rw [find_colon _ h1 h2]
  simp only [show ¬ ((58 : UInt8) = 46) by decide, if_false, if_true]
  exact parse6_render6 ip hlen

theorem dec_chars (x : UInt8) : ∀ c ∈ dec x, c ≠ 46 ∧ c ≠ 58 ∧ c ≠ 37 := by
  have key : ∀ k, k < 10 → digit k ≠ 46 ∧ digit k ≠ 58 ∧ digit k ≠ 37 := by
    intro k hk
    have := digit_toNat hk
    refine ⟨?_, ?_, ?_⟩ <;> intro hh <;> rw [hh] at this <;> simp at this <;> omega
  intro c hc
  have hx := x.toNat_lt
  unfold dec at hc
  simp only [List.mem_append, List.mem_singleton] at hc
  rcases hc with (h | h) | h
  · split at h <;> simp at h; subst h; exact key _ (by omega)
  · split at h <;> simp at h; subst h; exact key _ (by omega)
  · subst h; exact key _ (by omega)

theorem find_dot (a : UInt8) (rest : Str) :
    (dec a ++ 46 :: rest).find? (fun c => c == 46 || c == 58 || c == 37) = some 46 := by
  rw [List.find?_append]
  have : (dec a).find? (fun c => c == 46 || c == 58 || c == 37) = none := by
    rw [List.find?_eq_none]
    intro c hc
    have := dec_chars a c hc
    simp [this.1, this.2.1, this.2.2]
  rw [this]; simp

theorem parseIP_render4 (a b c d : UInt8) : parseIP (render4 a b c d) = some (v4InV6Prefix ++ [a, b, c, d]) := by
  unfold parseIP
  have : render4 a b c d = dec a ++ 46 :: (dec b ++ [46] ++ dec c ++ [46] ++ dec d) := by
    simp [render4, List.append_assoc]
  rw [this, find_dot, ← this]
  simp [parse4_render4]

/-! ## `net.IP.String` -/

theorem len4 (ip : List UInt8) (h : ip.length = 4) : ∃ a b c d, ip = [a, b, c, d] := by
  match ip, h with
  | [a, b, c, d], _ => exact ⟨a, b, c, d, rfl⟩

theorem len16 (ip : List UInt8) (h : ip.length = 16) :
    ∃ a0 a1 a2 a3 a4 a5 a6 a7 a8 a9 a10 a11 a12 a13 a14 a15,
      ip = [a0, a1, a2, a3, a4, a5, a6, a7, a8, a9, a10, a11, a12, a13, a14, a15] := by
  match ip, h with
  | [a0, a1, a2, a3, a4, a5, a6, a7, a8, a9, a10, a11, a12, a13, a14, a15], _ =>
    exact ⟨a0, a1, a2, a3, a4, a5, a6, a7, a8, a9, a10, a11, a12, a13, a14, a15, rfl⟩

/-- `To4` of a 16-byte address: either it is `::ffff:a.b.c.d` or nil. -/
theorem to4_16 (ip : List UInt8) (h : ip.length = 16) :
    (∃ a b c d, ip = v4InV6Prefix ++ [a, b, c, d] ∧ to4 ip = some [a, b, c, d]) ∨ to4 ip = none := by
  obtain ⟨a0, a1, a2, a3, a4, a5, a6, a7, a8, a9, a10, a11, a12, a13, a14, a15, rfl⟩ := len16 ip h
  unfold to4
  simp only [List.length_cons, List.length_nil]
  rw [if_neg (by omega)]
  split
  · rename_i hc
    left
    simp [idx] at hc
    obtain ⟨⟨h0, h1, h2, h3, h4, h5, h6, h7, h8, h9⟩, h10, h11⟩ := hc
    subst_vars
    exact ⟨a12, a13, a14, a15, rfl, rfl⟩
  · right; rfl

/-- **Go's text of an address parses back to that address** (16-byte form, which is what
`net.ParseIP` produces): IPv4-mapped addresses via the dotted quad, all others via `appendTo6`. -/
theorem parseIP_render_16 (ip : List UInt8) (h : ip.length = 16) : parseIP (render ip) = some ip := by
  unfold render
  rw [if_neg (by omega), if_neg (by omega)]
  rcases to4_16 ip h with ⟨a, b, c, d, hip, h4⟩ | h4
  · rw [h4]; simp only [idx, List.getD_cons_zero, List.getD_cons_succ]
    rw [parseIP_render4, hip]
  · rw [h4]; exact parseIP_render6 ip h

/-- 4-byte form: parses back to the same address in 16-byte form. -/
theorem parseIP_render_4 (ip : List UInt8) (h : ip.length = 4) : parseIP (render ip) = some (v4InV6Prefix ++ ip) := by
  obtain ⟨a, b, c, d, rfl⟩ := len4 ip h
  simp only [render, to4, idx, List.length_cons, List.length_nil]
  simp [parseIP_render4]


/-! ## `net.ParseIP` returns 16 bytes -/

theorem v4loop_length : ∀ (s : Str) (val dl : Nat) (fields r : List UInt8),
    fields.length ≤ 3 → v4loop s val dl fields = some r → r.length = 4
  | [], val, dl, fields, r, hf, h => by
    simp only [v4loop] at h
    split at h
    · cases h
    · cases h; simp; omega
  | c :: rest, val, dl, fields, r, hf, h => by
    rw [v4loop] at h
    split at h
    · split at h
      · cases h
      · simp only at h
        split at h
        · cases h
        · exact v4loop_length rest _ _ fields r hf h
    · split at h
      · split at h
        · cases h
        · split at h
          · cases h
          · exact v4loop_length rest _ _ _ r (by simp; omega) h
      · cases h

theorem parse4_length {s : Str} {r : List UInt8} (h : parse4 s = some r) : r.length = 4 :=
  v4loop_length s 0 0 [] r (by simp) h

theorem v6loop_length : ∀ (fuel : Nat) (s : Str) (ell : Option Nat) (acc : List UInt8) (ell' : Option Nat)
    (acc' : List UInt8), acc.length + 2 * fuel ≤ 16 → v6loop fuel s ell acc = some (ell', acc') → acc'.length ≤ 16
  | 0, s, ell, acc, ell', acc', hb, h => by
    simp only [v6loop] at h
    split at h
    · cases h; omega
    · cases h
  | fuel + 1, s, ell, acc, ell', acc', hb, h => by
    rw [v6loop] at h
    simp only at h
    split at h; · cases h
    split at h; · cases h
    split at h
    · split at h; · cases h
      split at h; · cases h
      split at h
      · cases h
      · rename_i f hf
        cases h
        have := parse4_length hf
        simp; omega
    · split at h
      · cases h; simp; omega
      · split at h; · cases h
        split at h
        · cases h
        · split at h
          · split at h; · cases h
            split at h
            · cases h; simp; omega
            · exact v6loop_length fuel _ _ _ ell' acc' (by simp; omega) h
          · exact v6loop_length fuel _ _ _ ell' acc' (by simp; omega) h

theorem parse6_length {s : Str} {r : List UInt8} (h : parse6 s = some r) : r.length = 16 := by
  unfold parse6 at h
  split at h; · cases h
  simp only at h
  generalize (s.take 2 == [58, 58]) = lead at h
  generalize (if lead = true then s.drop 2 else s) = s1 at h
  generalize (if lead = true then some 0 else none) = e0 at h
  split at h
  · cases h; simp
  · cases hl : v6loop 8 s1 e0 [] with
    | none => rw [hl] at h; cases h
    | some p =>
      obtain ⟨ell, acc⟩ := p
      rw [hl] at h
      simp only at h
      have hle := v6loop_length 8 _ _ [] ell acc (by simp) hl
      split at h
      · cases ell with
        | none => cases h
        | some e =>
          cases h
          have : (acc.take e ++ acc.drop e).length = acc.length := by rw [List.take_append_drop]
          simp only [List.length_append, List.length_replicate] at this ⊢
          omega
      · split at h
        · cases h
        · cases h; omega

/-- Every address `net.ParseIP` returns is a 16-byte slice. -/
theorem parseIP_length {s : Str} {ip : List UInt8} (h : parseIP s = some ip) : ip.length = 16 := by
  unfold parseIP at h
  split at h
  · split at h
    · simp only [Option.map_eq_some_iff] at h
      obtain ⟨f, hf, rfl⟩ := h
      have := parse4_length hf
      simp [v4InV6Prefix, this]
    · split at h
      · exact parse6_length h
      · cases h
  · cases h

end Snowflake.IP
