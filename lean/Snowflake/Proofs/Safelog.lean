import Snowflake.Proofs.Rx
import Snowflake.Model.Safelog
/-!
Lemmas about the safelog model, generic in the two regular expressions.  What is needed of the concrete
expressions is collected in `Shape` and discharged for the generated terms by `decide +kernel` in
`Props/C07.lean`.
-/
namespace Snowflake.Safelog
open Snowflake.Rx

/-- What the proofs need to know about the pair of expressions: `full` is `fL · addr · fR` up to captures
and bracketing, `addr` has no anchors, and every match of `addr` has positive weight. -/
structure Shape (full addr fL fR : Rx) : Prop where
  fac : factors full = fL :: (factors addr ++ [fR])
  anchorFree : anchorFree addr = true
  heavy : 0 < minWeight wt addr

theorem placeholder_weight : weightB wt placeholder = 0 := by decide

/-- The inner `ReplaceAll` never adds weight … -/
theorem inner_le (addr : Rx) (bs : Bytes) : weightB wt (replaceAll addr bs placeholder) ≤ weightB wt bs := by
  unfold replaceAll replaceAllFunc
  simp only []
  have h := render_weight_le wt (fun _ => placeholder)
    (replPieces addr ((decode bs).length + 1) [] false (decode bs))
    (fun m _ => by simp [placeholder_weight])
  rw [tokensOf_replPieces] at h
  simpa [weightT, bytesOf_decode] using h

/-- … and removes some whenever it finds a match. -/
theorem inner_lt (addr : Rx) (hw : 0 < minWeight wt addr) (bs : Bytes)
    (hf : (find addr (decode bs)).isSome) : weightB wt (replaceAll addr bs placeholder) < weightB wt bs := by
  unfold replaceAll replaceAllFunc
  simp only []
  have h := render_weight_lt wt (fun _ => placeholder)
    (replPieces addr ((decode bs).length + 1) [] false (decode bs))
    (fun m _ => by simp [placeholder_weight])
  rw [tokensOf_replPieces] at h
  simp only [weightT, bytesOf_decode] at h
  apply h
  unfold find at hf
  cases hff : findFrom addr [] (decode bs) with
  | none => rw [hff] at hf; simp at hf
  | some r =>
    obtain ⟨s, m, t⟩ := r
    refine ⟨m, first_hit_replPieces addr _ [] _ s m t hff, ?_⟩
    obtain ⟨hx, hm, _⟩ := findFrom_sound hff
    have hwf : ∀ x ∈ m, WFTok x := fun x hxm => decode_wf bs x (by rw [hx]; simp [hxm])
    have := minWeight_sound wt hm hwf
    simp only [placeholder_weight, weightT] at this ⊢
    omega

/-- **Each pass that finds a match removes weight.** -/
theorem pass_lt {full addr fL fR : Rx} (sh : Shape full addr fL fR) (b : Bytes)
    (hf : hasMatch full b = true) : weightB wt (scrubPass full addr b) < weightB wt b := by
  unfold scrubPass replaceAllFunc
  simp only []
  have h := render_weight_lt wt (fun m => replaceAll addr m placeholder)
    (replPieces full ((decode b).length + 1) [] false (decode b))
    (fun m _ => by simpa [weightT] using inner_le addr (bytesOf m))
  rw [tokensOf_replPieces] at h
  simp only [weightT, bytesOf_decode] at h
  apply h
  unfold hasMatch find at hf
  cases hff : findFrom full [] (decode b) with
  | none => rw [hff] at hf; simp at hf
  | some r =>
    obtain ⟨s, m, t⟩ := r
    refine ⟨m, first_hit_replPieces full _ [] _ s m t hff, ?_⟩
    obtain ⟨hx, hm, _⟩ := findFrom_sound hff
    apply inner_lt addr sh.heavy
    rw [decode_segment b s m t hx]
    obtain ⟨dL, a, dR, rfl, _, ha, _⟩ := (matches_sandwich sh.fac _ _ _).1 hm
    have ha' := anchorFree_frame ha sh.anchorFree (dL.reverse ++ []) dR
    have := findFrom_complete (s := dL) (l := []) ha'
    simpa [find] using this

theorem scrubLoop_clean {full addr fL fR : Rx} (sh : Shape full addr fL fR) :
    ∀ (n : Nat) (b : Bytes), weightB wt b < n → hasMatch full (scrubLoop full addr n b) = false := by
  intro n
  induction n with
  | zero => intro b h; omega
  | succ n ih =>
    intro b h
    simp only [scrubLoop]
    split
    · rename_i hm
      apply ih
      have := pass_lt sh b hm
      omega
    · rename_i hm; simpa using hm

/-- **The repeating scrubber ends with nothing left to match** (its fuel is never exhausted). -/
theorem scrub_fixed_no_match {full addr fL fR : Rx} (sh : Shape full addr fL fR) (b : Bytes) :
    hasMatch full (scrub true full addr b) = false := by
  simp only [scrub, if_true]
  exact scrubLoop_clean sh _ _ (Nat.lt_succ_self _)

/-! ## `Scrub` keeps the final newline of a line -/

/-- The bytes end in a line feed. -/
def EndsNL (b : Bytes) : Prop := ∃ q, b = q ++ [10]

theorem no_empty_match {addr : Rx} (hw : 0 < minWeight wt addr) {l t : List Tok} : ¬ Matches addr l [] t := by
  intro h
  have := minWeight_sound wt h (by simp)
  simp [weightT, bytesOf, weightB] at this
  omega

theorem inner_keeps_nl (addr : Rx) (hw : 0 < minWeight wt addr) (hav : avoids 10 addr = true) (bs : Bytes)
    (h : ∃ ys, decode bs = ys ++ [nlTok]) : EndsNL (replaceAll addr bs placeholder) := by
  unfold replaceAll replaceAllFunc
  simp only []
  apply render_ends_nl
  · rw [tokensOf_replPieces]; exact h
  · intro m hm ⟨ys, hys⟩
    obtain ⟨pre, post, _, hmm⟩ := hits_replPieces _ _ _ _ _ _ hm
    exact absurd rfl (avoids_sound hmm hav nlTok (by simp [hys]))
  · intro m hm he
    obtain ⟨pre, post, _, hmm⟩ := hits_replPieces _ _ _ _ _ _ hm
    subst he
    exact absurd hmm (no_empty_match hw)

theorem pass_keeps_nl {full addr fL fR : Rx} (sh : Shape full addr fL fR) (hav : avoids 10 addr = true)
    (b : Bytes) (h : EndsNL b) : EndsNL (scrubPass full addr b) := by
  obtain ⟨q, rfl⟩ := h
  unfold scrubPass replaceAllFunc
  simp only []
  apply render_ends_nl
  · rw [tokensOf_replPieces]; exact ⟨_, decode_snoc_nl q⟩
  · intro m hm hys
    obtain ⟨pre, post, hx, _⟩ := hits_replPieces _ _ _ _ _ _ hm
    apply inner_keeps_nl addr sh.heavy hav
    rw [decode_segment _ pre m post hx]
    exact hys
  · intro m hm he
    obtain ⟨pre, post, _, hmm⟩ := hits_replPieces _ _ _ _ _ _ hm
    subst he
    obtain ⟨dL, a, dR, hnil, _, ha, _⟩ := (matches_sandwich sh.fac _ _ _).1 hmm
    have : a = [] := by
      have := congrArg List.length hnil
      simp at this
      exact List.eq_nil_of_length_eq_zero (by omega)
    subst this
    exact absurd ha (no_empty_match sh.heavy)

/-- **`Scrub` of a line that ends in a newline ends in a newline.** -/
theorem scrub_fixed_keeps_nl {full addr fL fR : Rx} (sh : Shape full addr fL fR) (hav : avoids 10 addr = true)
    (b : Bytes) (h : EndsNL b) : EndsNL (scrub true full addr b) := by
  simp only [scrub, if_true]
  generalize weightB wt b + 1 = n
  induction n generalizing b with
  | zero => exact h
  | succ n ih =>
    simp only [scrubLoop]
    split
    · exact ih _ (pass_keeps_nl sh hav b h)
    · exact h

/-! ## The writer -/

theorem splitLinesAux_eq (cur : Bytes) (hc : (10 : UInt8) ∉ cur) : ∀ (bs : Bytes),
    splitLinesAux cur bs = splitLinesAux [] (cur.reverse ++ bs) := by
  induction cur with
  | nil => intro bs; rfl
  | cons c cur ih =>
    intro bs
    have hc' : (10 : UInt8) ∉ cur := fun h => hc (by simp [h])
    have hne : c ≠ 10 := fun h => hc (by simp [h])
    have e : splitLinesAux cur (c :: bs) = splitLinesAux (c :: cur) bs := by simp [splitLinesAux, hne]
    rw [← e, ih hc' (c :: bs)]
    simp

theorem splitLinesAux_rest_no_nl : ∀ (bs cur : Bytes), (10 : UInt8) ∉ cur →
    (10 : UInt8) ∉ (splitLinesAux cur bs).2 := by
  intro bs
  induction bs with
  | nil => intro cur h; simpa [splitLinesAux] using h
  | cons c cs ih =>
    intro cur h
    simp only [splitLinesAux]
    split
    · exact ih [] (by simp)
    · rename_i hne
      exact ih (c :: cur) (by simp [h]; exact fun e => hne e.symm)

/-- Splitting a concatenation: the lines of the first part, then the lines of (its rest ++ the second part). -/
theorem splitLinesAux_append : ∀ (x cur y : Bytes), (10 : UInt8) ∉ cur →
    splitLinesAux cur (x ++ y) =
      ((splitLinesAux cur x).1 ++ (splitLines ((splitLinesAux cur x).2 ++ y)).1,
       (splitLines ((splitLinesAux cur x).2 ++ y)).2) := by
  intro x
  induction x with
  | nil =>
    intro cur y h
    simp only [List.nil_append, splitLinesAux, splitLines]
    rw [splitLinesAux_eq cur h y]
  | cons c cs ih =>
    intro cur y h
    simp only [List.cons_append, splitLinesAux]
    split
    · rw [ih [] y (by simp)]; simp
    · rename_i hne
      rw [ih (c :: cur) y (by simp [h]; exact fun e => hne e.symm)]

theorem splitLines_append (x y : Bytes) :
    splitLines (x ++ y) =
      ((splitLines x).1 ++ (splitLines ((splitLines x).2 ++ y)).1, (splitLines ((splitLines x).2 ++ y)).2) :=
  splitLinesAux_append x [] y (by simp)

/-- Re-splitting the unterminated rest gives no line. -/
theorem splitLines_rest (x : Bytes) (h : (10 : UInt8) ∉ x) : splitLines x = ([], x) := by
  have : ∀ (bs cur : Bytes), (10 : UInt8) ∉ bs → splitLinesAux cur bs = ([], cur.reverse ++ bs) := by
    intro bs
    induction bs with
    | nil => intro cur _; simp [splitLinesAux]
    | cons c cs ih =>
      intro cur hn
      have hne : c ≠ 10 := fun e => hn (by simp [e])
      simp only [splitLinesAux, hne, if_false]
      rw [ih (c :: cur) (fun h' => hn (by simp [h']))]
      simp
  simpa [splitLines] using this x [] h

/-- Every line handed to the scrubber is complete: it ends in `\n` and contains no other `\n`. -/
theorem splitLinesAux_lines : ∀ (bs cur : Bytes), (10 : UInt8) ∉ cur →
    ∀ ln ∈ (splitLinesAux cur bs).1, ∃ body, ln = body ++ [10] ∧ (10 : UInt8) ∉ body := by
  intro bs
  induction bs with
  | nil => intro cur _ ln h; simp [splitLinesAux] at h
  | cons c cs ih =>
    intro cur hc ln h
    simp only [splitLinesAux] at h
    split at h
    · rename_i hc10
      simp only [List.mem_cons] at h
      rcases h with rfl | h
      · exact ⟨cur.reverse, by simp [hc10], by simpa using hc⟩
      · exact ih [] (by simp) ln h
    · rename_i hne
      exact ih (c :: cur) (by simp [hc]; exact fun e => hne e.symm) ln h

/-- The lines and the rest together are the input. -/
theorem splitLinesAux_flatten : ∀ (bs cur : Bytes),
    (splitLinesAux cur bs).1.flatten ++ (splitLinesAux cur bs).2 = cur.reverse ++ bs := by
  intro bs
  induction bs with
  | nil => intro cur; simp [splitLinesAux]
  | cons c cs ih =>
    intro cur
    simp only [splitLinesAux]
    split
    · have := ih []
      simp only [List.flatten_cons, List.append_assoc]
      rw [this]; simp
    · rw [ih (c :: cur)]; simp

/-- The line-wise writer, for any chunking: what it emits and what it keeps is determined by the stream. -/
theorem writes_fixed (sc : Bytes → Bytes) : ∀ (chunks : List Bytes) (pend : Bytes), (10 : UInt8) ∉ pend →
    writes true sc pend chunks =
      ((splitLines (pend ++ chunks.flatten)).1.map sc, (splitLines (pend ++ chunks.flatten)).2) := by
  intro chunks
  induction chunks with
  | nil => intro pend h; simp [writes, splitLines_rest pend h]
  | cons b bs ih =>
    intro pend h
    have hrest : (10 : UInt8) ∉ (splitLines (pend ++ b)).2 := splitLinesAux_rest_no_nl _ [] (by simp)
    simp only [writes, write, if_true, List.flatten_cons]
    rw [ih _ hrest, ← List.append_assoc pend b, splitLines_append (pend ++ b)]
    simp

/-! ## Exposed addresses are found -/

theorem clsMem_delimCls {r : Nat} (h : isDelimRune r) : clsMem delimCls r = true := by
  obtain ⟨h1, h2, h3⟩ := h
  simp only [isWordRune, not_or, not_and, Nat.not_le] at h2
  simp only [clsMem, delimCls, List.any_cons, List.any_nil, Bool.or_false, Bool.or_eq_true,
    Bool.and_eq_true, Nat.ble_eq]
  omega

theorem clsMem_spaceCls {r : Nat} (h : isSpaceRune r) : clsMem spaceCls r = true := by
  simp only [isSpaceRune] at h
  simp only [clsMem, spaceCls, List.any_cons, List.any_nil, Bool.or_false, Bool.or_eq_true,
    Bool.and_eq_true, Nat.ble_eq]
  omega

/-- **An exposed address is found** by the full pattern (generic matcher completeness plus the shape of
the pattern). -/
theorem exposed_found {full addr : Rx} (sh : Shape full addr delimL delimR) (toks : List Tok)
    (h : Exposed addr toks) : (find full toks).isSome := by
  obtain ⟨pre, a, post, rfl, ha, hl, hr⟩ := h
  -- the address matches in any surroundings
  have hA : ∀ l t, Matches addr l a t := anchorFree_frame ha sh.anchorFree
  -- right delimiter: what it consumes and what is left
  have hR : ∀ l, ∃ dR t, post = dR ++ t ∧ Matches delimR l dR t := by
    intro l
    rcases hr with rfl | ⟨d, q, rfl, hd⟩ | ⟨c, s, q, rfl, hc, hs⟩
    · exact ⟨[], [], rfl, .altR (.altR (.altR (.eot l)))⟩
    · exact ⟨[d], q, rfl, .altR (.altR (.altL (.cls _ l d q (clsMem_delimCls hd))))⟩
    · refine ⟨[c, s], q, rfl, .altR (.altL ?_)⟩
      have h1 : Matches (.cls [(58, 58)]) l [c] ([s] ++ q) := .cls _ l c _ (by simp [clsMem, hc])
      have h2 : Matches (.cls spaceCls) ([c].reverse ++ l) [s] q := .cls _ _ s q (clsMem_spaceCls hs)
      exact .cat h1 h2
  unfold find
  rcases hl with rfl | ⟨p, d, rfl, hd⟩
  · obtain ⟨dR, t, rfl, hdr⟩ := hR (a.reverse ++ ([] : List Tok).reverse ++ [])
    have hm : Matches full ([] : List Tok) ([] ++ (a ++ dR)) t :=
      (matches_sandwich sh.fac _ _ _).2 ⟨[], a, dR, rfl, .altL (.bot _), hA _ _, by simpa using hdr⟩
    have := findFrom_complete (s := []) (l := []) (by simpa using hm)
    simpa using this
  · obtain ⟨dR, t, rfl, hdr⟩ := hR (a.reverse ++ ([d].reverse ++ (p.reverse ++ [])))
    have hm : Matches full (p.reverse ++ []) ([d] ++ (a ++ dR)) t :=
      (matches_sandwich sh.fac _ _ _).2
        ⟨[d], a, dR, rfl, .altR (.cls _ _ d _ (clsMem_delimCls hd)), hA _ _, hdr⟩
    have := findFrom_complete (s := p) (l := []) hm
    simpa using this

/-- **After the repeating scrubber no address of the pattern's own language stands exposed.** -/
theorem scrub_fixed_clean {full addr : Rx} (sh : Shape full addr delimL delimR) (b : Bytes) :
    ¬ Exposed addr (decode (scrub true full addr b)) := by
  intro h
  have h1 := exposed_found sh _ h
  have h2 := scrub_fixed_no_match sh b
  simp only [hasMatch] at h2
  rw [h2] at h1
  simp at h1

end Snowflake.Safelog
