import Snowflake.Proofs.Safelog
/-!
Coverage: an independent grammar `AddrGo` of the address spellings Go's `net` package prints or accepts
(dotted quad; eight groups; six groups and a dotted quad; one `::` with at most seven groups around it,
possibly ending in a dotted quad; each bare, bracketed and/or with a port) is contained in the language of
the address pattern of shape `addressShapeN n` — completely for `n ≥ 6`, and for smaller `n` except for
more than `n + 1` groups on one side of `::`.
-/
namespace Snowflake.Safelog
open Snowflake.Rx

/-- `r` matches the segment in every context (the patterns here have no anchors). -/
def L (r : Rx) (a : List Tok) : Prop := ∀ l t, Matches r l a t

theorem L_eps : L .eps [] := fun l t => .eps l t
theorem L_cls {rs : List (Nat × Nat)} {x : Tok} (h : clsMem rs x.r = true) : L (.cls rs) [x] :=
  fun l t => .cls rs l x t h
theorem L_cat {a b : Rx} {m₁ m₂ : List Tok} (h1 : L a m₁) (h2 : L b m₂) : L (.cat a b) (m₁ ++ m₂) :=
  fun _ _ => .cat (h1 _ _) (h2 _ _)
theorem L_altL {a b : Rx} {m : List Tok} (h : L a m) : L (.alt a b) m := fun _ _ => .altL (h _ _)
theorem L_altR {a b : Rx} {m : List Tok} (h : L b m) : L (.alt a b) m := fun _ _ => .altR (h _ _)

theorem L_optN (r : Rx) : ∀ (e : Nat) (ps : List (List Tok)), ps.length ≤ e → (∀ p ∈ ps, L r p) →
    L (optN r e) ps.flatten := by
  intro e
  induction e with
  | zero =>
    intro ps h _
    have : ps = [] := by cases ps <;> simp_all
    subst this; exact L_eps
  | succ e ih =>
    intro ps h hp
    cases ps with
    | nil => exact L_altR L_eps
    | cons p ps =>
      simp only [optN, List.flatten_cons]
      exact L_altL (L_cat (hp p (by simp)) (ih ps (by simpa using h) (fun q hq => hp q (by simp [hq]))))

/-- `r{m,m+e}` matches any concatenation of between `m` and `m+e` pieces that each match `r`. -/
theorem L_rep (r : Rx) (e : Nat) : ∀ (m : Nat) (ps : List (List Tok)), m ≤ ps.length → ps.length ≤ m + e →
    (∀ p ∈ ps, L r p) → L (rep r m e) ps.flatten := by
  intro m
  induction m with
  | zero => intro ps _ h hp; exact L_optN r e ps (by simpa using h) hp
  | succ m ih =>
    intro ps h1 h2 hp
    cases ps with
    | nil => simp at h1
    | cons p ps =>
      simp only [rep, repM, List.flatten_cons]
      exact L_cat (hp p (by simp))
        (ih ps (by simpa using h1) (by simp at h2 ⊢; omega) (fun q hq => hp q (by simp [hq])))

/-- Part by part. -/
inductive Seq : List Rx → List (List Tok) → Prop
  | nil : Seq [] []
  | cons {r rs s ss} : L r s → Seq rs ss → Seq (r :: rs) (s :: ss)

/-- A sequence matches the concatenation of segments matched by its parts. -/
theorem L_seq : ∀ (parts : List Rx) (segs : List (List Tok)), Seq parts segs →
    L (seqRx parts) segs.flatten := by
  intro parts
  induction parts with
  | nil => intro segs h; cases h; exact L_eps
  | cons r rs ih =>
    intro segs h
    cases h with
    | cons h1 hrest =>
      rename_i s ss
      cases rs with
      | nil => cases hrest; simpa [seqRx] using h1
      | cons r' rs' =>
        simp only [seqRx, List.flatten_cons]
        exact L_cat h1 (ih _ hrest)

/-! ## The grammar -/

def isDigit (r : Nat) : Prop := 48 ≤ r ∧ r ≤ 57
def isHex (r : Nat) : Prop := (48 ≤ r ∧ r ≤ 57) ∨ (65 ≤ r ∧ r ≤ 70) ∨ (97 ≤ r ∧ r ≤ 102)

/-- Between `lo` and `hi` decimal digits. -/
def Dec (lo hi : Nat) (d : List Tok) : Prop := lo ≤ d.length ∧ d.length ≤ hi ∧ ∀ x ∈ d, isDigit x.r
/-- One to four hex digits. -/
def HexGroup (g : List Tok) : Prop := 1 ≤ g.length ∧ g.length ≤ 4 ∧ ∀ x ∈ g, isHex x.r
def IsColon (c : Tok) : Prop := c.r = 58
def IsDot (c : Tok) : Prop := c.r = 46

/-- `k` groups, each followed by a colon: `g:g:…g:`. -/
def GroupsC (k : Nat) (s : List Tok) : Prop :=
  ∃ ps : List (List Tok), ps.length = k ∧ s = ps.flatten ∧ ∀ p ∈ ps, ∃ g c, p = g ++ [c] ∧ HexGroup g ∧ IsColon c

/-- `k` groups separated by colons (nothing for `k = 0`). -/
def Side (k : Nat) (s : List Tok) : Prop :=
  (k = 0 ∧ s = []) ∨ (∃ pre g, 1 ≤ k ∧ GroupsC (k - 1) pre ∧ HexGroup g ∧ s = pre ++ g)

/-- Dotted quad. -/
def V4 (a : List Tok) : Prop :=
  ∃ d₁ d₂ d₃ d₄ p₁ p₂ p₃, Dec 1 3 d₁ ∧ Dec 1 3 d₂ ∧ Dec 1 3 d₃ ∧ Dec 1 3 d₄ ∧ IsDot p₁ ∧ IsDot p₂ ∧ IsDot p₃ ∧
    a = d₁ ++ ([p₁] ++ (d₂ ++ ([p₂] ++ (d₃ ++ ([p₃] ++ d₄)))))

/-- `::` with `l` groups before and `r` after it. -/
def V6Comp (l r : Nat) (a : List Tok) : Prop :=
  ∃ sl sr c₁ c₂, Side l sl ∧ Side r sr ∧ IsColon c₁ ∧ IsColon c₂ ∧ a = sl ++ ([c₁, c₂] ++ sr)

/-- `::` with `l` groups before it and `r` groups and a dotted quad after it. -/
def V6Comp4 (l r : Nat) (a : List Tok) : Prop :=
  ∃ sl pre v c₁ c₂, Side l sl ∧ GroupsC r pre ∧ V4 v ∧ IsColon c₁ ∧ IsColon c₂ ∧ a = sl ++ ([c₁, c₂] ++ (pre ++ v))

/-- IPv6 spellings: eight groups; six groups and a dotted quad; compressed forms with `l` and `r` groups
around `::` where `okc l r` / `ok4 l r` say which counts are meant. -/
def V6With (okc ok4 : Nat → Nat → Prop) (a : List Tok) : Prop :=
  (∃ pre g, GroupsC 7 pre ∧ HexGroup g ∧ a = pre ++ g)
  ∨ (∃ pre v, GroupsC 6 pre ∧ V4 v ∧ a = pre ++ v)
  ∨ (∃ l r, okc l r ∧ V6Comp l r a)
  ∨ (∃ l r, ok4 l r ∧ V6Comp4 l r a)

/-- An address as Go prints or accepts it: IPv4 or IPv6, bare, `[v6]`, `v4:port`, `[v6]:port`. -/
def AddrWith (okc ok4 : Nat → Nat → Prop) (a : List Tok) : Prop :=
  V4 a ∨ V6With okc ok4 a
  ∨ (∃ ip lb rb, V6With okc ok4 ip ∧ lb.r = 91 ∧ rb.r = 93 ∧ a = [lb] ++ (ip ++ [rb]))
  ∨ (∃ ip c p, V4 ip ∧ IsColon c ∧ Dec 1 5 p ∧ a = ip ++ ([c] ++ p))
  ∨ (∃ ip lb rb c p, V6With okc ok4 ip ∧ lb.r = 91 ∧ rb.r = 93 ∧ IsColon c ∧ Dec 1 5 p ∧
      a = ([lb] ++ (ip ++ [rb])) ++ ([c] ++ p))

/-- What `net.ParseIP` accepts: `::` stands for at least one group, so at most seven groups are written. -/
def AddrGo : List Tok → Prop := AddrWith (fun l r => l + r ≤ 7) (fun l r => l + r + 2 ≤ 7)

/-! ## Pieces -/

theorem singletons_flatten (d : List Tok) : (d.map fun x => [x]).flatten = d := by
  induction d with
  | nil => rfl
  | cons x xs ih => simp [ih]

theorem L_digits {lo ex : Nat} {d : List Tok} (h : Dec lo (lo + ex) d) : L (rep (.cls digitCls) lo ex) d := by
  obtain ⟨h1, h2, h3⟩ := h
  have := L_rep (.cls digitCls) ex lo (d.map fun x => [x]) (by simpa using h1) (by simpa using h2)
    (by
      intro p hp
      obtain ⟨x, hx, rfl⟩ := List.mem_map.1 hp
      have := h3 x hx
      simp only [isDigit] at this
      exact L_cls (by simp [clsMem, digitCls]; omega))
  rwa [singletons_flatten] at this

theorem L_hexGroup {g : List Tok} (h1 : g.length ≤ 4) (h3 : ∀ x ∈ g, isHex x.r) : L hexGroupRx g := by
  have := L_rep (.cls hexCls) 4 0 (g.map fun x => [x]) (by simp) (by simpa using h1)
    (by
      intro p hp
      obtain ⟨x, hx, rfl⟩ := List.mem_map.1 hp
      have := h3 x hx
      simp only [isHex] at this
      exact L_cls (by simp [clsMem, hexCls]; omega))
  rwa [singletons_flatten] at this

theorem L_colon {c : Tok} (h : IsColon c) : L colonRx [c] := L_cls (by simp [clsMem, IsColon.eq_1 c ▸ h])
theorem L_dot {c : Tok} (h : IsDot c) : L dotRx [c] := L_cls (by simp [clsMem, IsDot.eq_1 c ▸ h])

theorem L_optGroup_some {g : List Tok} (h : HexGroup g) : L optGroupRx g := L_altL (L_hexGroup h.2.1 h.2.2)
theorem L_optGroup_none : L optGroupRx [] := L_altR L_eps

theorem L_groupsC {k lo ex : Nat} {s : List Tok} (h : GroupsC k s) (h1 : lo ≤ k) (h2 : k ≤ lo + ex) :
    L (rep groupColonRx lo ex) s := by
  obtain ⟨ps, hk, rfl, hp⟩ := h
  apply L_rep groupColonRx ex lo ps (by omega) (by omega)
  intro p hpm
  obtain ⟨g, c, rfl, hg, hc⟩ := hp p hpm
  exact L_cat (L_hexGroup hg.2.1 hg.2.2) (L_colon hc)

theorem L_v4 {a : List Tok} (h : V4 a) : L ipv4Shape a := by
  obtain ⟨d₁, d₂, d₃, d₄, p₁, p₂, p₃, h1, h2, h3, h4, q1, q2, q3, rfl⟩ := h
  have := L_seq [dec3Rx, dotRx, dec3Rx, dotRx, dec3Rx, dotRx, dec3Rx] [d₁, [p₁], d₂, [p₂], d₃, [p₃], d₄]
    (.cons (L_digits h1) (.cons (L_dot q1) (.cons (L_digits h2) (.cons (L_dot q2) (.cons (L_digits h3)
      (.cons (L_dot q3) (.cons (L_digits h4) .nil)))))))
  simpa [ipv4Shape] using this

/-- `(g:){0,n}(g)?` matches `k ≤ n + 1` colon-separated groups. -/
theorem side_parts {n k : Nat} {s : List Tok} (h : Side k s) (hk : k ≤ n + 1) :
    ∃ s₁ s₂, s = s₁ ++ s₂ ∧ L (rep groupColonRx 0 n) s₁ ∧ L optGroupRx s₂ := by
  rcases h with ⟨_, rfl⟩ | ⟨pre, g, h1, hpre, hg, rfl⟩
  · exact ⟨[], [], rfl, L_groupsC (k := 0) ⟨[], rfl, rfl, by simp⟩ (Nat.le_refl _) (by omega), L_optGroup_none⟩
  · exact ⟨pre, g, rfl, L_groupsC hpre (Nat.zero_le _) (by omega), L_optGroup_some hg⟩

theorem L_dcolon {c₁ c₂ : Tok} (h1 : IsColon c₁) (h2 : IsColon c₂) : L (.cat colonRx colonRx) [c₁, c₂] :=
  L_cat (m₁ := [c₁]) (m₂ := [c₂]) (L_colon h1) (L_colon h2)

/-- **IPv6 coverage** for the shape with bound `n`: every spelling whose group counts around `::` fit the
bound is in the language of `ipv6Full`. -/
theorem L_v6 {n : Nat} (_hn : 5 ≤ n) {okc ok4 : Nat → Nat → Prop}
    (hc : ∀ l r, okc l r → l ≤ n + 1 ∧ r ≤ n + 1) (h4 : ∀ l r, ok4 l r → l ≤ n + 1 ∧ r ≤ n)
    {a : List Tok} (h : V6With okc ok4 a) :
    L (ipv6FullShape (ipv6AddressParts 5 2) (ipv6CompressedParts n) ipv4Shape) a := by
  rcases h with ⟨pre, g, hpre, hg, rfl⟩ | ⟨pre, v, hpre, hv, rfl⟩ | ⟨l, r, hok, sl, sr, c₁, c₂, hsl, hsr, hc1, hc2, rfl⟩
      | ⟨l, r, hok, sl, pre, v, c₁, c₂, hsl, hpre, hv, hc1, hc2, rfl⟩
  · -- eight groups: (g:){7} g
    have := L_seq (ipv6AddressParts 5 2) [pre, g]
      (.cons (L_groupsC hpre (by omega) (by omega)) (.cons (L_optGroup_some hg) .nil))
    exact L_altR (L_altR (L_altL (by simpa using this)))
  · -- six groups and a dotted quad: (g:){6} then nothing then v4
    have := L_seq (ipv6AddressParts 5 2 ++ [ipv4Shape]) [pre, [], v]
      (.cons (L_groupsC hpre (by omega) (by omega)) (.cons L_optGroup_none (.cons (L_v4 hv) .nil)))
    exact L_altL (by simpa using this)
  · obtain ⟨hl, hr⟩ := hc l r hok
    obtain ⟨a₁, a₂, rfl, ha1, ha2⟩ := side_parts (n := n) hsl hl
    obtain ⟨b₁, b₂, rfl, hb1, hb2⟩ := side_parts (n := n) hsr hr
    have := L_seq (ipv6CompressedParts n) [a₁, a₂, [c₁, c₂], b₁, b₂]
      (.cons ha1 (.cons ha2 (.cons (L_dcolon hc1 hc2) (.cons hb1 (.cons hb2 .nil)))))
    exact L_altR (L_altR (L_altR (by simpa using this)))
  · obtain ⟨hl, hr⟩ := h4 l r hok
    obtain ⟨a₁, a₂, rfl, ha1, ha2⟩ := side_parts (n := n) hsl hl
    have := L_seq (ipv6CompressedParts n ++ [ipv4Shape]) [a₁, a₂, [c₁, c₂], pre, [], v]
      (.cons ha1 (.cons ha2 (.cons (L_dcolon hc1 hc2) (.cons (L_groupsC hpre (Nat.zero_le _) (by omega))
        (.cons L_optGroup_none (.cons (L_v4 hv) .nil))))))
    exact L_altR (L_altL (by simpa using this))

theorem L_port {c : Tok} {p : List Tok} (hc : IsColon c) (hp : Dec 1 5 p) : L portShape ([c] ++ p) :=
  L_altL (L_cat (L_colon hc) (L_digits (lo := 1) (ex := 4) hp))

theorem L_noport : L portShape [] := L_altR L_eps

/-- **Address coverage** for the shape with bound `n`. -/
theorem L_addr {n : Nat} (hn : 5 ≤ n) {okc ok4 : Nat → Nat → Prop}
    (hc : ∀ l r, okc l r → l ≤ n + 1 ∧ r ≤ n + 1) (h4 : ∀ l r, ok4 l r → l ≤ n + 1 ∧ r ≤ n)
    {a : List Tok} (h : AddrWith okc ok4 a) : L (addressShapeN n) a := by
  have v6 := fun {x : List Tok} (hx : V6With okc ok4 x) => L_v6 hn hc h4 hx
  have br : ∀ {ip : List Tok} {lb rb : Tok}, V6With okc ok4 ip → lb.r = 91 → rb.r = 93 →
      L (.cat (.cls [(91, 91)]) (.cat (ipv6FullShape (ipv6AddressParts 5 2) (ipv6CompressedParts n) ipv4Shape)
        (.cls [(93, 93)]))) ([lb] ++ (ip ++ [rb])) := by
    intro ip lb rb hip h1 h2
    exact L_cat (L_cls (by simp [clsMem, h1])) (L_cat (v6 hip) (L_cls (by simp [clsMem, h2])))
  unfold addressShapeN addressShape
  rcases h with h | h | ⟨ip, lb, rb, hip, h1, h2, rfl⟩ | ⟨ip, c, p, hip, hc', hp, rfl⟩
      | ⟨ip, lb, rb, c, p, hip, h1, h2, hc', hp, rfl⟩
  · simpa using L_cat (L_altL (L_v4 h)) L_noport
  · simpa using L_cat (L_altR (L_altR (v6 h))) L_noport
  · simpa using L_cat (L_altR (L_altL (br hip h1 h2))) L_noport
  · exact L_cat (L_altL (L_v4 hip)) (L_port hc' hp)
  · exact L_cat (L_altR (L_altL (br hip h1 h2))) (L_port hc' hp)

/-- Complete coverage once the bound is at least 6. -/
theorem L_addrGo {n : Nat} (hn : 6 ≤ n) {a : List Tok} (h : AddrGo a) : L (addressShapeN n) a :=
  L_addr (by omega) (fun l r (h : l + r ≤ 7) => by omega) (fun l r (h : l + r + 2 ≤ 7) => by omega) h

end Snowflake.Safelog
