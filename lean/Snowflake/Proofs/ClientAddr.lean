import Snowflake.Model.ClientAddr
/-!
Helper lemmas for C18: the Go-map model `Index`, modular arithmetic of the ring, and the invariant
that links a `Ring` to the full history of `set`s.
-/
namespace Snowflake.ClientAddr

namespace Index
variable {K : Type} [DecidableEq K]

theorem get_delete (m : Index K) (k k' : K) :
    (delete m k).get k' = if k' = k then none else m.get k' := by
  induction m with
  | nil => simp [delete, get]
  | cons e m ih =>
    simp only [delete, get] at ih ⊢
    rw [List.filter_cons]
    by_cases h : e.1 = k <;> by_cases h2 : e.1 = k' <;> by_cases h' : k' = k <;> simp_all

theorem get_set (m : Index K) (k k' : K) (i : Nat) :
    (set m k i).get k' = if k' = k then some i else m.get k' := by
  by_cases h : k' = k
  · simp [set, get, h]
  · have : ¬ k = k' := fun x => h x.symm
    have hd := get_delete m k k'
    simp only [get] at hd
    simp [set, get, h, this, hd]

/-- keys of the map -/
def keys (m : Index K) : List K := m.map (·.1)

theorem mem_keys_iff (m : Index K) (k : K) : k ∈ keys m ↔ (m.get k).isSome := by
  induction m with
  | nil => simp [keys, get]
  | cons e m ih =>
    simp only [keys, get] at ih ⊢
    by_cases h : e.1 = k
    · simp [h]
    · have : ¬ k = e.1 := fun x => h x.symm
      simp_all

theorem keys_delete (m : Index K) (k : K) : keys (delete m k) = (keys m).filter (fun x => ¬ x = k) := by
  induction m with
  | nil => rfl
  | cons e m ih =>
    simp only [keys, delete] at ih ⊢
    by_cases h : e.1 = k <;> simp_all

theorem nodup_delete (m : Index K) (k : K) (h : (keys m).Nodup) : (keys (delete m k)).Nodup := by
  rw [keys_delete]; exact h.filter _

theorem nodup_set (m : Index K) (k : K) (i : Nat) (h : (keys m).Nodup) : (keys (set m k i)).Nodup := by
  have h1 := nodup_delete m k h
  have h2 : k ∉ keys (delete m k) := by simp [keys_delete]
  simpa [set, keys] using ⟨by simpa [keys] using h2, by simpa [keys] using h1⟩

end Index

/-! ## arithmetic of slots -/

/-- `t ↦ t % n` is injective on any window of `n` consecutive numbers. -/
theorem mod_window {n a e : Nat} (he : e < n) (h : (a + e) % n = a % n) : e = 0 := by
  have hn : 0 < n := by omega
  have hr : a % n < n := Nat.mod_lt _ hn
  have h1 : (a % n + e) % n = a % n := by rw [Nat.mod_add_mod]; exact h
  by_cases hlt : a % n + e < n
  · rw [Nat.mod_eq_of_lt hlt] at h1; omega
  · rw [Nat.mod_eq_sub_mod (by omega), Nat.mod_eq_of_lt (by omega)] at h1; omega

/-- The slot of the `d`-th newest of `c` sets is the slot about to be overwritten iff `d = n - 1`. -/
theorem slot_eq_oldest_iff {n c d : Nat} (hd : d < c) (hdn : d < n) :
    (c - 1 - d) % n = c % n ↔ d + 1 = n := by
  constructor
  · intro h
    by_cases hlt : d + 1 < n
    · have hc : c = (c - 1 - d) + (d + 1) := by omega
      have := mod_window (a := c - 1 - d) hlt (by rw [← hc]; exact h.symm)
      omega
    · omega
  · intro h
    have hc : c = (c - 1 - d) + n := by omega
    conv => rhs; rw [hc]
    simp

end Snowflake.ClientAddr

namespace Snowflake.ClientAddr
section ring
variable {K V : Type} [DecidableEq K] (k0 : K) (v0 : V)

/-- The invariant linking the ring (capacity `n > 0`) to the full history `R` of `set`s, newest first.
`R[d]` is the `d`-th newest set; it lives in slot `(|R| - 1 - d) % n` as long as `d < n`. -/
structure Inv (n : Nat) (R : List (K × V)) (m : Ring K V) : Prop where
  len : m.entries.length = n
  old : m.oldest = R.length % n
  slots : ∀ d, d < R.length → d < n → m.entries[(R.length - 1 - d) % n]? = R[d]?
  fresh : ∀ j, R.length ≤ j → j < n → m.entries[j]? = some (k0, v0)
  cur_some : ∀ k i, m.current.get k = some i →
    ∃ d v, d < n ∧ R[d]? = some (k, v) ∧ i = (R.length - 1 - d) % n ∧ ∀ d', d' < d → ∀ v', R[d']? ≠ some (k, v')
  cur_none : ∀ k, m.current.get k = none → ∀ d, d < n → ∀ v, R[d]? ≠ some (k, v)
  nodup : (Index.keys m.current).Nodup

theorem inv_new (n : Nat) : Inv k0 v0 n [] (Ring.new k0 v0 n) where
  len := by simp [Ring.new]
  old := by simp [Ring.new]
  slots := by intro d hd; simp at hd
  fresh := by intro j _ hj; simp [Ring.new, hj]
  cur_some := by intro k i h; simp [Ring.new, Index.get] at h
  cur_none := by intro k _ d _ v; simp
  nodup := by simp [Ring.new, Index.keys]

variable {k0 v0}

/-- every indexed key points at a slot that holds that key -/
theorem Inv.points {n : Nat} {R : List (K × V)} {m : Ring K V} (h : Inv k0 v0 n R m) {k : K} {i : Nat}
    (hk : m.current.get k = some i) : ∃ v, m.entries[i]? = some (k, v) := by
  obtain ⟨d, v, hdn, hR, hi, _⟩ := h.cur_some k i hk
  have hdc : d < R.length := by
    rcases Nat.lt_or_ge d R.length with h' | h'
    · exact h'
    · rw [List.getElem?_eq_none h'] at hR; cases hR
  exact ⟨v, by rw [hi, h.slots d hdc hdn, hR]⟩

theorem inv_set {n : Nat} (hn : 0 < n) {R : List (K × V)} {m : Ring K V} (h : Inv k0 v0 n R m) (k : K) (v : V) :
    Inv k0 v0 n ((k, v) :: R) (Ring.set k0 v0 m k v) := by
  have hlen := h.len
  have ho : m.oldest < n := by rw [h.old]; exact Nat.mod_lt _ hn
  have hne : ¬ m.entries.length = 0 := by omega
  -- the index after the conditional delete
  let old := (m.entries.getD m.oldest (k0, v0)).1
  let cur1 := if m.current.get old = some m.oldest then m.current.delete old else m.current
  have hset : Ring.set k0 v0 m k v =
      { entries := m.entries.set m.oldest (k, v), oldest := (m.oldest + 1) % m.entries.length,
        current := cur1.set k m.oldest } := by
    simp only [Ring.set, hne, if_false, cur1, old]
  have hcur1 : ∀ k', cur1.get k' =
      if k' = old ∧ m.current.get old = some m.oldest then none else m.current.get k' := by
    intro k'
    simp only [cur1]
    by_cases hc : m.current.get old = some m.oldest
    · simp only [hc, if_true, Index.get_delete, and_true]
    · simp only [hc, if_false, and_false]
  -- nobody in cur1 points at the slot being overwritten
  have hnot : ∀ k' i, cur1.get k' = some i → m.current.get k' = some i ∧ i ≠ m.oldest := by
    intro k' i hk'
    rw [hcur1] at hk'
    by_cases hc : k' = old ∧ m.current.get old = some m.oldest
    · simp [hc] at hk'
    · rw [if_neg hc] at hk'
      refine ⟨hk', fun hi => hc ?_⟩
      subst hi
      obtain ⟨v', hv'⟩ := h.points hk'
      have : old = k' := by simp only [old, List.getD_eq_getElem?_getD, hv', Option.getD_some]
      exact ⟨this.symm, this ▸ hk'⟩
  rw [hset]
  refine ⟨by simp [hlen], ?_, ?_, ?_, ?_, ?_, ?_⟩
  · simp only [List.length_cons, hlen, h.old, Nat.mod_add_mod]
  · intro d hd hdn
    simp only [List.length_cons] at hd ⊢
    cases d with
    | zero =>
      have : R.length + 1 - 1 - 0 = R.length := by omega
      rw [this, ← h.old]
      simp [hlen, ho]
    | succ d =>
      have e1 : R.length + 1 - 1 - (d + 1) = R.length - 1 - d := by omega
      have hne' : (R.length - 1 - d) % n ≠ m.oldest := by
        rw [h.old]; intro hh
        have := (slot_eq_oldest_iff (by omega) (by omega)).mp hh
        omega
      rw [e1, List.getElem?_set, if_neg (Ne.symm hne')]
      simpa using h.slots d (by omega) (by omega)
  · intro j hj hjn
    simp only [List.length_cons] at hj
    have : m.oldest ≠ j := by
      have := Nat.mod_le R.length n
      rw [h.old]; omega
    rw [List.getElem?_set, if_neg this]
    exact h.fresh j (by omega) hjn
  · intro k' i hk'
    rw [Index.get_set] at hk'
    by_cases hkk : k' = k
    · subst hkk
      simp only [if_true, Option.some.injEq] at hk'
      refine ⟨0, v, hn, by simp, ?_, by intro d' hd'; omega⟩
      simp only [List.length_cons]
      rw [← hk', h.old]; congr 1
    · rw [if_neg hkk] at hk'
      obtain ⟨hk1, hio⟩ := hnot k' i hk'
      obtain ⟨d, v', hdn, hR, hi, hmin⟩ := h.cur_some k' i hk1
      have hdc : d < R.length := by
        rcases Nat.lt_or_ge d R.length with h' | h'
        · exact h'
        · rw [List.getElem?_eq_none h'] at hR; cases hR
      have hd1 : d + 1 ≠ n := by
        intro hh
        have := (slot_eq_oldest_iff hdc hdn).mpr hh
        exact hio (by rw [hi, this, h.old])
      refine ⟨d + 1, v', by omega, by simpa using hR, ?_, ?_⟩
      · simp only [List.length_cons]; rw [hi]; congr 1; omega
      · intro d' hd' v''
        cases d' with
        | zero => simp; intro hh; exact fun _ => hkk hh.symm
        | succ e => simpa using hmin e (by omega) v''
  · intro k' hk' d hdn v''
    rw [Index.get_set] at hk'
    by_cases hkk : k' = k
    · simp [hkk] at hk'
    · rw [if_neg hkk] at hk'
      cases d with
      | zero => simp; intro hh; exact fun _ => hkk hh.symm
      | succ e =>
        simp only [List.getElem?_cons_succ]
        rw [hcur1] at hk'
        by_cases hc : k' = old ∧ m.current.get old = some m.oldest
        · obtain ⟨hko, hco⟩ := hc
          rw [← hko] at hco
          obtain ⟨d0, v1, hd0n, hR, hi, hmin⟩ := h.cur_some k' _ hco
          have hdc : d0 < R.length := by
            rcases Nat.lt_or_ge d0 R.length with h' | h'
            · exact h'
            · rw [List.getElem?_eq_none h'] at hR; cases hR
          have := (slot_eq_oldest_iff hdc hd0n).mp (by rw [← hi, h.old])
          exact hmin e (by omega) v''
        · rw [if_neg hc] at hk'
          exact h.cur_none k' hk' e (by omega) v''
  · apply Index.nodup_set
    simp only [cur1]
    split
    · exact Index.nodup_delete _ _ h.nodup
    · exact h.nodup

/-! ### reading the log -/

theorem logGet_first (L : List (K × V)) (k : K) (d : Nat) (v : V) (hd : L[d]? = some (k, v))
    (hmin : ∀ d', d' < d → ∀ v', L[d']? ≠ some (k, v')) : logGet L k = some v := by
  induction L generalizing d with
  | nil => simp at hd
  | cons x xs ih =>
    cases d with
    | zero =>
      simp only [List.getElem?_cons_zero, Option.some.injEq] at hd
      simp [logGet, hd]
    | succ e =>
      have hx : ¬ x.1 = k := by
        intro hh
        exact hmin 0 (by omega) x.2 (by simp [← hh])
      have := ih e (by simpa using hd) (fun d' hd' v' => by simpa using hmin (d' + 1) (by omega) v')
      simpa [logGet, List.find?_cons, hx] using this

theorem logGet_none (L : List (K × V)) (k : K) (h : ∀ (d : Nat) (v : V), L[d]? ≠ some (k, v)) : logGet L k = none := by
  induction L with
  | nil => rfl
  | cons x xs ih =>
    have hx : ¬ x.1 = k := by
      intro hh
      exact h 0 x.2 (by simp [← hh])
    have := ih (fun d v => by simpa using h (d + 1) v)
    simpa [logGet, List.find?_cons, hx] using this

theorem logGet_some_mem {L : List (K × V)} {k : K} {v : V} (h : logGet L k = some v) : (k, v) ∈ L := by
  simp only [logGet, Option.map_eq_some_iff] at h
  obtain ⟨e, he, hv⟩ := h
  have h1 := List.find?_some he
  have h2 := List.mem_of_find?_eq_some he
  simp only [decide_eq_true_eq] at h1
  rw [← h1, ← hv]; exact h2

/-- `Get` reads the bounded log. -/
theorem Inv.get_eq {n : Nat} {R : List (K × V)} {m : Ring K V} (h : Inv k0 v0 n R m) (k : K) :
    Ring.get k0 v0 m k = logGet (R.take n) k := by
  unfold Ring.get
  cases hk : m.current.get k with
  | none =>
    simp only
    symm; apply logGet_none
    intro d v
    rw [List.getElem?_take]
    split
    · exact h.cur_none k hk d (by assumption) v
    · simp
  | some i =>
    simp only
    obtain ⟨d, v, hdn, hR, hi, hmin⟩ := h.cur_some k i hk
    have hdc : d < R.length := by
      rcases Nat.lt_or_ge d R.length with h' | h'
      · exact h'
      · rw [List.getElem?_eq_none h'] at hR; cases hR
    have he : m.entries[i]? = some (k, v) := by rw [hi, h.slots d hdc hdn, hR]
    rw [List.getD_eq_getElem?_getD, he]
    symm
    apply logGet_first _ k d v
    · rw [List.getElem?_take, if_pos hdn]; exact hR
    · intro d' hd' v'
      rw [List.getElem?_take, if_pos (by omega)]
      exact hmin d' hd' v'

/-- Every remembered ClientID is the key of one of the last `n` sets, and no ClientID is listed twice:
the index never has more than `n` entries. -/
theorem Inv.keys_subset {n : Nat} {R : List (K × V)} {m : Ring K V} (h : Inv k0 v0 n R m) :
    Index.keys m.current ⊆ (R.take n).map (·.1) := by
  intro k hk
  rw [Index.mem_keys_iff] at hk
  cases hg : m.current.get k with
  | none => simp [hg] at hk
  | some i =>
    obtain ⟨d, v, hdn, hR, _, _⟩ := h.cur_some k i hg
    have : (R.take n)[d]? = some (k, v) := by rw [List.getElem?_take, if_pos hdn]; exact hR
    exact List.mem_map.mpr ⟨(k, v), List.mem_of_getElem? this, rfl⟩

theorem Inv.size_le {n : Nat} {R : List (K × V)} {m : Ring K V} (h : Inv k0 v0 n R m) :
    m.current.length ≤ n := by
  have h1 := List.Nodup.length_le_of_subset h.nodup h.keys_subset
  simp only [Index.keys, List.length_map, List.length_take] at h1
  omega

/-! ### capacity 0 -/

theorem set_cap0 (m : Ring K V) (hm : m.entries = []) (k : K) (v : V) : Ring.set k0 v0 m k v = m := by
  simp [Ring.set, hm]

/-- The abstraction relation for every capacity: for `n = 0` the map stays the empty initial map. -/
def Abs (k0 : K) (v0 : V) (n : Nat) (R : List (K × V)) (m : Ring K V) : Prop :=
  if n = 0 then m.entries = [] ∧ m.current = [] else Inv k0 v0 n R m

theorem abs_new (n : Nat) : Abs k0 v0 n [] (Ring.new k0 v0 n) := by
  unfold Abs
  split
  · subst_vars; simp [Ring.new]
  · exact inv_new k0 v0 n

theorem abs_set {n : Nat} {R : List (K × V)} {m : Ring K V} (h : Abs k0 v0 n R m) (k : K) (v : V) :
    Abs k0 v0 n ((k, v) :: R) (Ring.set k0 v0 m k v) := by
  unfold Abs at h ⊢
  split
  · rename_i hn; rw [if_pos hn] at h; rw [set_cap0 m h.1]; exact h
  · rename_i hn; rw [if_neg hn] at h; exact inv_set (by omega) h k v

theorem Abs.get_eq {n : Nat} {R : List (K × V)} {m : Ring K V} (h : Abs k0 v0 n R m) (k : K) :
    Ring.get k0 v0 m k = logGet (R.take n) k := by
  unfold Abs at h
  split at h
  · subst_vars; simp [Ring.get, h.2, Index.get, logGet]
  · exact Inv.get_eq h k

theorem Abs.size_le {n : Nat} {R : List (K × V)} {m : Ring K V} (h : Abs k0 v0 n R m) :
    m.current.length ≤ n ∧ m.entries.length = n := by
  unfold Abs at h
  split at h
  · subst_vars; simp [h.1, h.2]
  · exact ⟨Inv.size_le h, h.len⟩

/-- All slice indices the Go code uses are in range (no out-of-range panic): `oldest` and every index
stored in `current` are below the capacity. -/
theorem Abs.in_range {n : Nat} {R : List (K × V)} {m : Ring K V} (h : Abs k0 v0 n R m) :
    (n = 0 ∨ m.oldest < n) ∧ ∀ k i, m.current.get k = some i → i < n := by
  unfold Abs at h
  split at h
  · exact ⟨Or.inl (by assumption), by intro k i hk; simp [h.2, Index.get] at hk⟩
  · rename_i hn
    refine ⟨Or.inr (by rw [h.old]; exact Nat.mod_lt _ (by omega)), ?_⟩
    intro k i hk
    obtain ⟨d, v, _, _, hi, _⟩ := h.cur_some k i hk
    rw [hi]; exact Nat.mod_lt _ (by omega)

omit [DecidableEq K] in
theorem logSet_take (n : Nat) (R : List (K × V)) (k : K) (v : V) :
    logSet n (R.take n) k v = ((k, v) :: R).take n := by
  cases n with
  | zero => simp [logSet]
  | succ n => simp [logSet, List.take_take]

/-- All sets applied in order, newest first: the history after `ops`. -/
def history : List (K × V) → List (Op K V) → List (K × V)
  | R, [] => R
  | R, Op.set k v :: ops => history ((k, v) :: R) ops
  | R, Op.get _ :: ops => history R ops

theorem run_refines {n : Nat} (ops : List (Op K V)) {R : List (K × V)} {m : Ring K V} (h : Abs k0 v0 n R m) :
    (runRing k0 v0 m ops).1 = (runLog n (R.take n) ops).1
    ∧ Abs k0 v0 n (history R ops) (runRing k0 v0 m ops).2
    ∧ (runLog n (R.take n) ops).2 = (history R ops).take n := by
  induction ops generalizing R m with
  | nil => exact ⟨rfl, h, rfl⟩
  | cons op ops ih =>
    cases op with
    | set k v =>
      simp only [runRing, runLog, history, logSet_take]
      exact ih (abs_set h k v)
    | get k =>
      simp only [runRing, runLog, history]
      obtain ⟨h1, h2, h3⟩ := ih h
      exact ⟨by rw [h.get_eq k, h1], h2, h3⟩

end ring
end Snowflake.ClientAddr
