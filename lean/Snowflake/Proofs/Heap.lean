import Snowflake.Base.Heap
/-!
Theorems about `Snowflake.Base.Heap` (Go's `container/heap`).

Part 1 — the plain array instance `arrI key`: `up`/`down` re-establish the heap order from the
"heap except at one node" invariants (Go's exact loops, including the `(j-1)/2` parent of 0 and the
choice of the smaller child), they permute the array and leave the cells outside their range
untouched; from these: `Push`, `Pop`, `Remove`, `Fix`, `Init` preserve / establish the heap order and
the multiset of elements, `Pop` returns the root, the root is `key`-minimal, `Remove i` returns the
element at `i`.

Part 2 — any implementation of `heap.Interface` whose hooks *refine* the array instance under an
implementation invariant `Inv` (e.g. "every element's stored index is its position", or "the address
index maps every address to the position of its record"): the generic functions commute with the
abstraction and preserve `Inv` (index bookkeeping).
-/
namespace Snowflake.Heap
variable {α : Type} (key : α → Int)

theorem keyAt_lt (a : Array α) (i : Nat) (h : i < a.size) : keyAt key a i = key a[i] := by
  simp [keyAt, h]

theorem keyAt_swap (a : Array α) (i j k : Nat) (hi : i < a.size) (hj : j < a.size) :
    keyAt key (a.swapIfInBounds i j) k =
      if k = i then keyAt key a j else if k = j then keyAt key a i else keyAt key a k := by
  rw [keyAt_lt key a i hi, keyAt_lt key a j hj]
  unfold keyAt
  simp only [Array.swapIfInBounds_def, hi, hj, dite_true, Array.getElem?_swap]
  by_cases h1 : k = i
  · subst h1
    by_cases h2 : j = k
    · subst h2; simp
    · simp [h2]
  · by_cases h2 : k = j
    · subst h2; simp [h1]
    · have h3 : ¬ j = k := fun h => h2 h.symm
      have h4 : ¬ i = k := fun h => h1 h.symm
      simp [h1, h2, h3, h4]

/-- the edge `parent c → c` is ordered -/
def Ok (a : Array α) (c : Nat) : Prop := keyAt key a (parent c) ≤ keyAt key a c

theorem less_iff (a : Array α) (i j : Nat) :
    (arrI key).less a i j = true ↔ keyAt key a i < keyAt key a j := by
  simp [arrI]

theorem minChild_spec (a : Array α) (n i : Nat) (h : 2 * i + 1 < n) :
    (minChild (arrI key) a n i = 2 * i + 1 ∨ minChild (arrI key) a n i = 2 * i + 2)
    ∧ minChild (arrI key) a n i < n
    ∧ keyAt key a (minChild (arrI key) a n i) ≤ keyAt key a (2 * i + 1)
    ∧ (2 * i + 2 < n → keyAt key a (minChild (arrI key) a n i) ≤ keyAt key a (2 * i + 2)) := by
  unfold minChild
  simp only [Bool.and_eq_true, decide_eq_true_eq, less_iff]
  split
  · rename_i hc
    refine ⟨Or.inr rfl, hc.1, by omega, fun _ => Int.le_refl _⟩
  · rename_i hc
    refine ⟨Or.inl rfl, h, Int.le_refl _, fun h2 => ?_⟩
    have : ¬ keyAt key a (2 * i + 1 + 1) < keyAt key a (2 * i + 1) := fun hh => hc ⟨h2, hh⟩
    show keyAt key a (2 * i + 1) ≤ keyAt key a (2 * i + 1 + 1)
    omega

structure DownInv (a : Array α) (n lo i : Nat) : Prop where
  edge : ∀ c, 0 < c → c < n → lo ≤ parent c → parent c ≠ i → c ≠ i → Ok key a c
  grand : 0 < i → lo ≤ parent i → ∀ c, 0 < c → c < n → parent c = i → keyAt key a (parent i) ≤ keyAt key a c

structure DownRes (a r : Array α) (n lo i fi : Nat) : Prop where
  edge : ∀ c, 0 < c → c < n → lo ≤ parent c → c ≠ i → Ok key r c
  moved : i < fi → 0 < i → lo ≤ parent i → Ok key r i
  ge : i ≤ fi
  same : fi = i → r = a
  size : r.size = a.size

theorem downLoop_spec (n lo : Nat) : ∀ (fuel : Nat) (a : Array α) (i : Nat),
    n ≤ fuel + i → n ≤ a.size → lo ≤ i → DownInv key a n lo i →
    DownRes key a (downLoop (arrI key) n fuel a i).1 n lo i (downLoop (arrI key) n fuel a i).2 := by
  intro fuel
  induction fuel with
  | zero =>
    intro a i hf hn hlo h
    simp only [downLoop]
    refine ⟨?_, ?_, Nat.le_refl _, fun _ => rfl, rfl⟩
    · intro c hc0 hcn hcl hci
      by_cases hp : parent c = i
      · unfold parent at hp; omega
      · exact h.edge c hc0 hcn hcl hp hci
    · intro hlt; omega
  | succ fuel ih =>
    intro a i hf hn hlo h
    simp only [downLoop]
    split
    · rename_i hj1
      refine ⟨?_, ?_, Nat.le_refl _, fun _ => rfl, rfl⟩
      · intro c hc0 hcn hcl hci
        by_cases hp : parent c = i
        · unfold parent at hp; omega
        · exact h.edge c hc0 hcn hcl hp hci
      · intro hlt; omega
    · rename_i hj1
      have hj1' : 2 * i + 1 < n := by omega
      obtain ⟨hjv, hjn, hjl, hjr⟩ := minChild_spec key a n i hj1'
      generalize minChild (arrI key) a n i = j at *
      split
      · rename_i hnl
        have hge : keyAt key a i ≤ keyAt key a j := by
          have : ¬ keyAt key a j < keyAt key a i := by
            rw [← less_iff]; simpa using hnl
          omega
        refine ⟨?_, ?_, Nat.le_refl _, fun _ => rfl, rfl⟩
        · intro c hc0 hcn hcl hci
          by_cases hp : parent c = i
          · have hc : c = 2 * i + 1 ∨ c = 2 * i + 2 := by unfold parent at hp; omega
            unfold Ok; rw [hp]; dsimp only
            rcases hc with hc | hc
            · subst hc; omega
            · subst hc; have := hjr hcn; omega
          · exact h.edge c hc0 hcn hcl hp hci
        · intro hlt; omega
      · rename_i hl
        have hlt : keyAt key a j < keyAt key a i := by
          rw [← less_iff]; simpa using hl
        have hi : i < a.size := by omega
        have hj : j < a.size := by omega
        have hpj : parent j = i := by unfold parent; omega
        have hsw := keyAt_swap key a i j
        have r := ih ((arrI key).swap a i j) j (by omega) (by simpa [arrI] using hn) (by omega) ?inv
        case inv =>
          constructor
          · intro c hc0 hcn hcl hpc hcj
            unfold Ok
            simp only [arrI, hsw _ hi hj]
            by_cases hci : c = i
            · subst hci
              have h1 : parent c ≠ c := by unfold parent; omega
              simp only [h1, hpc, if_false, if_true]
              exact h.grand hc0 hcl j (by omega) hjn hpj
            · simp only [hci, hcj, hpc, if_false]
              by_cases hp : parent c = i
              · simp only [hp, if_true]
                have hc : c = 2 * i + 1 ∨ c = 2 * i + 2 := by unfold parent at hp; omega
                rcases hc with hc | hc
                · subst hc; exact hjl
                · subst hc; exact hjr hcn
              · simp only [hp, if_false]
                exact h.edge c hc0 hcn hcl hp hci
          · intro hj0 hlj c hc0 hcn hpc
            simp only [arrI, hsw _ hi hj, hpj]
            have hci : c ≠ i := by unfold parent at hpc; omega
            have hcj : c ≠ j := by unfold parent at hpc; omega
            have hij : i ≠ j := by omega
            simp only [hci, hcj, if_false, if_true]
            have := h.edge c hc0 hcn (by omega) (by omega) hci
            unfold Ok at this
            rw [hpc] at this
            exact this
        have hsz : ((arrI key).swap a i j).size = a.size := by simp [arrI]
        refine ⟨?_, ?_, by have := r.ge; omega, fun hh => by have := r.ge; omega, by rw [r.size, hsz]⟩
        · intro c hc0 hcn hcl hci
          by_cases hcj : c = j
          · subst hcj
            by_cases hm : c < (downLoop (arrI key) n fuel ((arrI key).swap a i c) c).2
            · exact r.moved hm hc0 (by omega)
            · have he := r.same (by have := r.ge; omega)
              rw [he]
              unfold Ok
              simp only [arrI, hsw _ hi hj, hpj]
              have hij : i ≠ c := by omega
              simp only [hij, if_false, if_true]
              omega
          · exact r.edge c hc0 hcn hcl hcj
        · intro _ hi0 hli
          exact r.edge i hi0 (by omega) hli (by omega)

/-! ## up -/

def IsHeapN (a : Array α) (n : Nat) : Prop := ∀ c, 0 < c → c < n → Ok key a c

structure UpInv (a : Array α) (n j : Nat) : Prop where
  edge : ∀ c, 0 < c → c < n → c ≠ j → Ok key a c
  grand : 0 < j → ∀ c, 0 < c → c < n → parent c = j → keyAt key a (parent j) ≤ keyAt key a c

theorem upLoop_spec (n : Nat) : ∀ (fuel : Nat) (a : Array α) (j : Nat),
    j < fuel → j < n → n ≤ a.size → UpInv key a n j →
    IsHeapN key (upLoop (arrI key) fuel a j) n ∧ (upLoop (arrI key) fuel a j).size = a.size := by
  intro fuel
  induction fuel with
  | zero => intro a j hf; omega
  | succ fuel ih =>
    intro a j hf hjn hn h
    simp only [upLoop]
    split
    · rename_i hc
      refine ⟨?_, rfl⟩
      intro c hc0 hcn
      by_cases hcj : c = j
      · subst hcj
        simp only [Bool.or_eq_true, beq_iff_eq, Bool.not_eq_true'] at hc
        rcases hc with hc | hc
        · unfold parent at hc; omega
        · have : ¬ keyAt key a c < keyAt key a (parent c) := by
            rw [← less_iff]; simp [hc]
          unfold Ok; omega
      · exact h.edge c hc0 hcn hcj
    · rename_i hc
      simp only [Bool.or_eq_true, beq_iff_eq, Bool.not_eq_true', not_or, Bool.not_eq_false] at hc
      obtain ⟨hpne, hl⟩ := hc
      have hlt : keyAt key a j < keyAt key a (parent j) := (less_iff key a j (parent j)).1 hl
      have hj0 : 0 < j := by unfold parent at hpne; omega
      have hpj : parent j < j := by unfold parent; omega
      have hi : parent j < a.size := by omega
      have hj : j < a.size := by omega
      have hsw := keyAt_swap key a (parent j) j
      have hsz : ((arrI key).swap a (parent j) j).size = a.size := by simp [arrI]
      have r := ih ((arrI key).swap a (parent j) j) (parent j) (by omega) (by omega) (by omega) ?inv
      case inv =>
        constructor
        · intro c hc0 hcn hcp
          unfold Ok
          simp only [arrI, hsw _ hi hj]
          simp only [hcp, if_false]
          by_cases hcj : c = j
          · subst hcj
            have h1 : parent c ≠ c := by omega
            simp only [if_true, h1, if_false]
            omega
          · simp only [hcj, if_false]
            have hpc : parent c < c := by unfold parent; omega
            by_cases h1 : parent c = parent j
            · simp only [h1, if_true]
              have := h.edge c hc0 hcn hcj
              unfold Ok at this; rw [h1] at this; omega
            · simp only [h1, if_false]
              by_cases h2 : parent c = j
              · simp only [h2, if_true]
                exact h.grand hj0 c hc0 hcn h2
              · simp only [h2, if_false]
                exact h.edge c hc0 hcn hcj
        · intro hp0 c hc0 hcn hpc
          simp only [arrI, hsw _ hi hj]
          have hpp : parent (parent j) < parent j := by unfold parent; unfold parent at hp0; omega
          have h1 : parent (parent j) ≠ parent j := by omega
          have h2 : parent (parent j) ≠ j := by omega
          simp only [h1, h2, if_false]
          have e1 := h.edge (parent j) hp0 (by omega) (by omega)
          unfold Ok at e1
          by_cases hcj : c = j
          · subst hcj
            have h3 : c ≠ parent c := by omega
            simp only [h3, if_false, if_true]
            exact e1
          · have h3 : c ≠ parent j := by unfold parent at hpc ⊢; omega
            simp only [h3, hcj, if_false]
            have e2 := h.edge c hc0 hcn hcj
            unfold Ok at e2; rw [hpc] at e2
            omega
      exact ⟨r.1, by rw [r.2, hsz]⟩
/-! ## permutation, frame, minimal root -/

def IsHeap (a : Array α) : Prop := IsHeapN key a a.size

theorem swapIfInBounds_perm (a : Array α) (i j : Nat) : (a.swapIfInBounds i j).Perm a := by
  simp only [Array.swapIfInBounds_def]
  split
  · split
    · exact Array.swap_perm _ _
    · exact Array.Perm.refl _
  · exact Array.Perm.refl _

theorem getElem?_swapIfInBounds_of_ne (a : Array α) (i j k : Nat) (hi : k ≠ i) (hj : k ≠ j) :
    (a.swapIfInBounds i j)[k]? = a[k]? := by
  simp only [Array.swapIfInBounds_def]
  split
  · split
    · rw [Array.getElem?_swap]
      simp [Ne.symm hi, Ne.symm hj]
    · rfl
  · rfl

theorem getElem?_swapIB {β : Type} (a : Array β) (i j k : Nat) (hi : i < a.size) (hj : j < a.size) :
    (a.swapIfInBounds i j)[k]? = if k = i then a[j]? else if k = j then a[i]? else a[k]? := by
  simp only [Array.swapIfInBounds_def, hi, hj, dite_true, Array.getElem?_swap]
  by_cases h1 : k = i
  · subst h1
    by_cases h2 : j = k
    · subst h2; simp
    · simp [h2, hj]
  · by_cases h2 : k = j
    · subst h2; simp [h1, hi]
    · have h3 : ¬ j = k := fun h => h2 h.symm
      have h4 : ¬ i = k := fun h => h1 h.symm
      simp [h1, h2, h3, h4]

theorem upLoop_perm : ∀ (fuel : Nat) (a : Array α) (j : Nat), (upLoop (arrI key) fuel a j).Perm a := by
  intro fuel
  induction fuel with
  | zero => intro a j; exact Array.Perm.refl _
  | succ fuel ih =>
    intro a j
    simp only [upLoop]
    split
    · exact Array.Perm.refl _
    · exact (ih _ _).trans (swapIfInBounds_perm a _ _)

theorem downLoop_perm (n : Nat) : ∀ (fuel : Nat) (a : Array α) (i : Nat),
    (downLoop (arrI key) n fuel a i).1.Perm a := by
  intro fuel
  induction fuel with
  | zero => intro a i; exact Array.Perm.refl _
  | succ fuel ih =>
    intro a i
    simp only [downLoop]
    split
    · exact Array.Perm.refl _
    · split
      · exact Array.Perm.refl _
      · exact (ih _ _).trans (swapIfInBounds_perm a _ _)

/-- `up(j)` touches no cell above `j`. -/
theorem upLoop_frame : ∀ (fuel : Nat) (a : Array α) (j k : Nat), j < k →
    (upLoop (arrI key) fuel a j)[k]? = a[k]? := by
  intro fuel
  induction fuel with
  | zero => intro a j k _; rfl
  | succ fuel ih =>
    intro a j k hk
    simp only [upLoop]
    split
    · rfl
    · have hp : parent j ≤ j := by unfold parent; omega
      rw [ih _ _ k (by omega)]
      exact getElem?_swapIfInBounds_of_ne a _ _ k (by omega) (by omega)

/-- `down(i, n)` touches no cell below `i` and no cell at or above `n`. -/
theorem downLoop_frame (n : Nat) : ∀ (fuel : Nat) (a : Array α) (i k : Nat), (k < i ∨ n ≤ k) →
    (downLoop (arrI key) n fuel a i).1[k]? = a[k]? := by
  intro fuel
  induction fuel with
  | zero => intro a i k _; rfl
  | succ fuel ih =>
    intro a i k hk
    simp only [downLoop]
    split
    · rfl
    · rename_i hj1
      obtain ⟨hjv, hjn, -, -⟩ := minChild_spec key a n i (by omega)
      generalize minChild (arrI key) a n i = j at *
      split
      · rfl
      · rw [ih _ _ k (by omega)]
        exact getElem?_swapIfInBounds_of_ne a _ _ k (by omega) (by omega)

theorem root_min (a : Array α) (n : Nat) (h : IsHeapN key a n) : ∀ k, k < n → keyAt key a 0 ≤ keyAt key a k := by
  intro k
  induction k using Nat.strongRecOn with
  | _ k ih =>
    intro hk
    by_cases h0 : k = 0
    · subst h0; exact Int.le_refl _
    · have hp : parent k < k := by unfold parent; omega
      have := ih (parent k) hp (by omega)
      have := h k (by omega) hk
      unfold Ok at this
      omega
/-! ## The seven functions on the array instance -/

theorem keyAt_congr (a b : Array α) (k : Nat) (h : a[k]? = b[k]?) : keyAt key a k = keyAt key b k := by
  unfold keyAt; rw [h]

theorem keyAt_push_lt (a : Array α) (x : α) (k : Nat) (h : k < a.size) :
    keyAt key (a.push x) k = keyAt key a k := by
  apply keyAt_congr; rw [Array.getElem?_push_lt h]; simp [h]

theorem keyAt_pop_lt (a : Array α) (k : Nat) (h : k < a.size - 1) :
    keyAt key a.pop k = keyAt key a k := by
  apply keyAt_congr; rw [Array.getElem?_pop]; simp [h]

/-! ### Push -/

theorem push_eq (a : Array α) (x : α) :
    push (arrI key) a x = upLoop (arrI key) (a.size + 1) (a.push x) a.size := by
  simp [push, up, arrI]

theorem push_spec (a : Array α) (x : α) (h : IsHeap key a) :
    IsHeap key (push (arrI key) a x) ∧ (push (arrI key) a x).size = a.size + 1 := by
  rw [push_eq]
  have r := upLoop_spec key (a.size + 1) (a.size + 1) (a.push x) a.size (by omega) (by omega) (by simp) ?inv
  case inv =>
    constructor
    · intro c hc0 hcn hcj
      have hp : parent c < c := by unfold parent; omega
      unfold Ok
      rw [keyAt_push_lt key a x c (by omega), keyAt_push_lt key a x _ (by omega)]
      exact h c hc0 (by omega)
    · intro _ c hc0 hcn hpc
      unfold parent at hpc; omega
  have hs : (upLoop (arrI key) (a.size + 1) (a.push x) a.size).size = a.size + 1 := by rw [r.2]; simp
  exact ⟨by unfold IsHeap; rw [hs]; exact r.1, hs⟩

theorem push_perm (a : Array α) (x : α) : (push (arrI key) a x).Perm (a.push x) := by
  rw [push_eq]; exact upLoop_perm key _ _ _

/-! ### Pop -/

theorem eq_push_pop_of_back (a : Array α) (x : α) (h : a[a.size - 1]? = some x) : a = a.pop.push x := by
  rw [← Array.back?_eq_getElem?, Array.back?_eq_some_iff] at h
  obtain ⟨ys, rfl⟩ := h
  simp

theorem pop_spec (a : Array α) (h : IsHeap key a) (hne : 0 < a.size) :
    (pop (arrI key) a).2 = a[0]?
    ∧ IsHeap key (pop (arrI key) a).1
    ∧ (pop (arrI key) a).1.size = a.size - 1
    ∧ a.Perm ((pop (arrI key) a).1.push a[0]) := by
  have hn : a.size - 1 < a.size := by omega
  let a1 := a.swapIfInBounds 0 (a.size - 1)
  have hsw := fun k => keyAt_swap key a 0 (a.size - 1) k hne hn
  have hs1 : a1.size = a.size := by simp [a1]
  have r := downLoop_spec key (a.size - 1) 0 (a.size - 1) a1 0 (by omega) (by omega) (by omega) ?inv
  case inv =>
    constructor
    · intro c hc0 hcn _ hpc hc
      have hp : parent c < c := by unfold parent; omega
      unfold Ok
      rw [hsw, hsw]
      have h1 : parent c ≠ a.size - 1 := by omega
      have h2 : c ≠ a.size - 1 := by omega
      simp only [hpc, hc, h1, h2, if_false]
      exact h c hc0 (by omega)
    · intro h0; omega
  let a2 := (downLoop (arrI key) (a.size - 1) (a.size - 1) a1 0).1
  have hs2 : a2.size = a.size := by rw [← hs1]; exact r.size
  have hback : a2[a.size - 1]? = a[0]? := by
    have := downLoop_frame key (a.size - 1) (a.size - 1) a1 0 (a.size - 1) (Or.inr (Nat.le_refl _))
    rw [this]
    show (a.swapIfInBounds 0 (a.size - 1))[a.size - 1]? = a[0]?
    simp only [Array.swapIfInBounds_def, hne, hn, dite_true, Array.getElem?_swap]
    simp [hne]
  have hpop : pop (arrI key) a = (a2.pop, a2.back?) := by
    simp [pop, popPrep, down, arrI, a2, a1]
  rw [hpop]
  have hb2 : a2.back? = a[0]? := by rw [Array.back?_eq_getElem?, hs2]; exact hback
  refine ⟨hb2, ?_, by simp [hs2], ?_⟩
  · intro c hc0 hcn
    simp only [Array.size_pop, hs2] at hcn
    have hp : parent c < c := by unfold parent; omega
    unfold Ok
    rw [keyAt_pop_lt key a2 c (by omega), keyAt_pop_lt key a2 _ (by omega)]
    exact r.edge c hc0 hcn (by omega) (by omega)
  · have e : a2 = a2.pop.push a[0] := by
      apply eq_push_pop_of_back
      rw [hs2, hback]; simp [hne]
    rw [← e]
    exact ((downLoop_perm key _ _ _ _).trans (swapIfInBounds_perm a _ _)).symm

/-! ### the common tail of `Fix` and `Remove`: `if !down(h, i, n) { up(h, i) }` -/

def siftAt (a : Array α) (i n : Nat) : Array α :=
  let d := down (arrI key) a i n
  if !d.2 then up (arrI key) d.1 i else d.1

theorem siftAt_spec (a : Array α) (i n : Nat) (hin : i < n) (hn : n ≤ a.size)
    (inv : DownInv key a n 0 i) :
    IsHeapN key (siftAt key a i n) n ∧ (siftAt key a i n).size = a.size
    ∧ (siftAt key a i n).Perm a ∧ ∀ k, n ≤ k → (siftAt key a i n)[k]? = a[k]? := by
  have r := downLoop_spec key n 0 n a i (by omega) hn (by omega) inv
  have hfr := downLoop_frame key n n a i
  have hpm := downLoop_perm key n n a i
  unfold siftAt down
  simp only []
  generalize downLoop (arrI key) n n a i = d at *
  by_cases hm : i < d.2
  · simp only [hm, decide_true, Bool.not_true, Bool.false_eq_true, if_false]
    refine ⟨?_, r.size, hpm, fun k hk => hfr k (Or.inr hk)⟩
    intro c hc0 hcn
    by_cases hci : c = i
    · subst hci; exact r.moved hm hc0 (by omega)
    · exact r.edge c hc0 hcn (by omega) hci
  · have he : d.1 = a := r.same (by have := r.ge; omega)
    simp only [hm, decide_false, Bool.not_false, if_true, he]
    have u := upLoop_spec key n (i + 1) a i (by omega) hin hn ?uinv
    case uinv =>
      constructor
      · intro c hc0 hcn hci
        have := r.edge c hc0 hcn (by omega) hci
        rwa [he] at this
      · intro hi0 c hc0 hcn hpc
        exact inv.grand hi0 (by omega) c hc0 hcn hpc
    unfold up
    exact ⟨u.1, u.2, upLoop_perm key _ _ _, fun k hk => upLoop_frame key _ _ _ k (by omega)⟩

/-! ### Fix -/

theorem fix_eq (a : Array α) (i : Nat) : fix (arrI key) a i = siftAt key a i a.size := by
  simp [fix, siftAt, arrI]

/-- `Fix(i)` re-establishes the heap order when `a` is a heap except for the key at `i`. -/
theorem fix_spec (a : Array α) (i : Nat) (hi : i < a.size) (inv : DownInv key a a.size 0 i) :
    IsHeap key (fix (arrI key) a i) ∧ (fix (arrI key) a i).size = a.size ∧ (fix (arrI key) a i).Perm a := by
  rw [fix_eq]
  have r := siftAt_spec key a i a.size hi (Nat.le_refl _) inv
  exact ⟨by unfold IsHeap; rw [r.2.1]; exact r.1, r.2.1, r.2.2.1⟩

theorem keyAt_set_ne (b : Array α) (i k : Nat) (x : α) (hi : i < b.size) (hk : k ≠ i) :
    keyAt key (b.set i x hi) k = keyAt key b k := by
  apply keyAt_congr
  rw [Array.getElem?_set]
  simp [Ne.symm hk]

/-- Overwriting the element at `i` of a heap yields the precondition of `Fix(i)`. -/
theorem fix_pre_of_set (b : Array α) (i : Nat) (x : α) (hi : i < b.size) (h : IsHeap key b) :
    DownInv key (b.set i x hi) (b.set i x hi).size 0 i := by
  constructor
  · intro c hc0 hcn _ hpc hci
    simp only [Array.size_set] at hcn
    unfold Ok
    rw [keyAt_set_ne key b i c x hi hci, keyAt_set_ne key b i _ x hi hpc]
    exact h c hc0 hcn
  · intro hi0 _ c hc0 hcn hpc
    simp only [Array.size_set] at hcn
    have hp : parent i < i := by unfold parent; omega
    have hci : c ≠ i := by unfold parent at hpc; omega
    rw [keyAt_set_ne key b i c x hi hci, keyAt_set_ne key b i _ x hi (by omega)]
    have h1 := h c hc0 hcn
    have h2 := h i hi0 hi
    unfold Ok at h1 h2
    rw [hpc] at h1
    omega

/-! ### Remove -/

theorem remove_spec (a : Array α) (i : Nat) (h : IsHeap key a) (hi : i < a.size) :
    (remove (arrI key) a i).2 = a[i]?
    ∧ IsHeap key (remove (arrI key) a i).1
    ∧ (remove (arrI key) a i).1.size = a.size - 1
    ∧ a.Perm ((remove (arrI key) a i).1.push a[i]) := by
  have hn : a.size - 1 < a.size := by omega
  by_cases hni : a.size - 1 = i
  · have e : remove (arrI key) a i = (a.pop, a.back?) := by
      simp [remove, removePrep, arrI, hni]
    rw [e]
    refine ⟨by rw [Array.back?_eq_getElem?, hni], ?_, by simp, ?_⟩
    · intro c hc0 hcn
      simp only [Array.size_pop] at hcn
      have hp : parent c < c := by unfold parent; omega
      unfold Ok
      rw [keyAt_pop_lt key a c (by omega), keyAt_pop_lt key a _ (by omega)]
      exact h c hc0 (by omega)
    · have e2 : a = a.pop.push a[i] := by
        apply eq_push_pop_of_back; rw [hni]; simp [hi]
      rw [← e2]
  · have hin : i < a.size - 1 := by omega
    let a1 := a.swapIfInBounds i (a.size - 1)
    have hsw := fun k => keyAt_swap key a i (a.size - 1) k hi hn
    have hs1 : a1.size = a.size := by simp [a1]
    have r := siftAt_spec key a1 i (a.size - 1) hin (by omega) ?inv
    case inv =>
      constructor
      · intro c hc0 hcn _ hpc hc
        have hp : parent c < c := by unfold parent; omega
        unfold Ok
        rw [hsw, hsw]
        have h1 : parent c ≠ a.size - 1 := by omega
        have h2 : c ≠ a.size - 1 := by omega
        simp only [hpc, hc, h1, h2, if_false]
        exact h c hc0 (by omega)
      · intro hi0 _ c hc0 hcn hpc
        have hp : parent i < i := by unfold parent; omega
        have hci : c ≠ i := by unfold parent at hpc; omega
        rw [hsw, hsw]
        have h1 : parent i ≠ i := by omega
        have h2 : parent i ≠ a.size - 1 := by omega
        have h3 : c ≠ a.size - 1 := by omega
        simp only [h1, h2, h3, hci, if_false]
        have e1 := h c hc0 (by omega)
        have e2 := h i hi0 hi
        unfold Ok at e1 e2
        rw [hpc] at e1
        omega
    let a2 := siftAt key a1 i (a.size - 1)
    obtain ⟨rh, rs, rp, rf⟩ := r
    have hs2 : a2.size = a.size := by rw [← hs1]; exact rs
    have hback : a2[a.size - 1]? = a[i]? := by
      rw [rf _ (Nat.le_refl _)]
      show (a.swapIfInBounds i (a.size - 1))[a.size - 1]? = a[i]?
      simp only [Array.swapIfInBounds_def, hi, hn, dite_true, Array.getElem?_swap]
      simp [hi]
    have hrem : remove (arrI key) a i = (a2.pop, a2.back?) := by
      have : (a.size - 1 != i) = true := by simp [hni]
      simp [remove, removePrep, arrI, this, a2, a1, siftAt]
    rw [hrem]
    have hb2 : a2.back? = a[i]? := by rw [Array.back?_eq_getElem?, hs2]; exact hback
    refine ⟨hb2, ?_, by simp [hs2], ?_⟩
    · intro c hc0 hcn
      simp only [Array.size_pop, hs2] at hcn
      have hp : parent c < c := by unfold parent; omega
      unfold Ok
      rw [keyAt_pop_lt key a2 c (by omega), keyAt_pop_lt key a2 _ (by omega)]
      exact rh c hc0 hcn
    · have e : a2 = a2.pop.push a[i] := by
        apply eq_push_pop_of_back
        rw [hs2, hback]; simp [hi]
      rw [← e]
      exact (rp.trans (swapIfInBounds_perm a _ _)).symm

/-! ### Init -/

def HeapFrom (a : Array α) (n lo : Nat) : Prop := ∀ c, 0 < c → c < n → lo ≤ parent c → Ok key a c

theorem initLoop_spec (n : Nat) : ∀ (k : Nat) (a : Array α), n ≤ a.size → HeapFrom key a n k →
    IsHeapN key (initLoop (arrI key) n k a) n ∧ (initLoop (arrI key) n k a).size = a.size
    ∧ (initLoop (arrI key) n k a).Perm a := by
  intro k
  induction k with
  | zero =>
    intro a _ h
    exact ⟨fun c hc0 hcn => h c hc0 hcn (Nat.zero_le _), rfl, Array.Perm.refl _⟩
  | succ k ih =>
    intro a hn h
    simp only [initLoop, down]
    have r := downLoop_spec key n k n a k (by omega) hn (Nat.le_refl _) ?inv
    case inv =>
      constructor
      · intro c hc0 hcn hl hpc _
        exact h c hc0 hcn (by omega)
      · intro hk0 hl; unfold parent at hl; omega
    have q := ih (downLoop (arrI key) n n a k).1 (by rw [r.size]; exact hn) ?hf
    case hf =>
      intro c hc0 hcn hl
      exact r.edge c hc0 hcn hl (by unfold parent at hl; omega)
    exact ⟨q.1, by rw [q.2.1, r.size], q.2.2.trans (downLoop_perm key _ _ _ _)⟩

/-- `Init` establishes the heap order on an arbitrary array and permutes it. -/
theorem init_spec (a : Array α) :
    IsHeap key (init (arrI key) a) ∧ (init (arrI key) a).size = a.size ∧ (init (arrI key) a).Perm a := by
  have r := initLoop_spec key a.size (a.size / 2) a (Nat.le_refl _) ?hf
  case hf =>
    intro c hc0 hcn hl
    unfold parent at hl; omega
  have e : init (arrI key) a = initLoop (arrI key) a.size (a.size / 2) a := by simp [init, arrI]
  rw [e]
  exact ⟨by unfold IsHeap; rw [r.2.1]; exact r.1, r.2.1, r.2.2⟩

/-! ## Part 2: implementations of `heap.Interface` that refine the array instance -/

/-- `I` (an implementation with its own `Swap`/`Less` hooks and bookkeeping) refines the plain array
heap through `abs`, under the implementation invariant `Inv`, which the `Swap` hook must preserve. -/
structure Refines {σ : Type} (I : Iface σ α) (abs : σ → Array α) (Inv : σ → Prop) : Prop where
  len : ∀ s, Inv s → I.len s = (abs s).size
  less : ∀ s i j, Inv s → i < (abs s).size → j < (abs s).size →
    I.less s i j = (arrI key).less (abs s) i j
  swap_abs : ∀ s i j, Inv s → i < (abs s).size → j < (abs s).size →
    abs (I.swap s i j) = (abs s).swapIfInBounds i j
  swap_inv : ∀ s i j, Inv s → i < (abs s).size → j < (abs s).size → Inv (I.swap s i j)

variable {σ : Type} {I : Iface σ α} {abs : σ → Array α} {Inv : σ → Prop}

theorem arrI_len (a : Array α) : (arrI key).len a = a.size := rfl
theorem arrI_swap (a : Array α) (i j : Nat) : (arrI key).swap a i j = a.swapIfInBounds i j := rfl
theorem arrI_push (a : Array α) (x : α) : (arrI key).push a x = a.push x := rfl
theorem arrI_pop (a : Array α) : (arrI key).pop a = (a.pop, a.back?) := rfl

theorem upLoop_refines (R : Refines key I abs Inv) : ∀ (fuel : Nat) (s : σ) (j : Nat),
    Inv s → j < (abs s).size →
    abs (upLoop I fuel s j) = upLoop (arrI key) fuel (abs s) j ∧ Inv (upLoop I fuel s j) := by
  intro fuel
  induction fuel with
  | zero => intro s j hi _; exact ⟨rfl, hi⟩
  | succ fuel ih =>
    intro s j hi hj
    have hp : parent j < (abs s).size := by unfold parent; omega
    simp only [upLoop]
    rw [R.less s j (parent j) hi hj hp]
    split
    · exact ⟨rfl, hi⟩
    · have e := R.swap_abs s (parent j) j hi hp hj
      have r := ih (I.swap s (parent j) j) (parent j) (R.swap_inv s _ _ hi hp hj) (by rw [e]; simpa using hp)
      rw [e] at r
      exact r

theorem minChild_refines (R : Refines key I abs Inv) (s : σ) (n i : Nat) (hi : Inv s)
    (hn : n ≤ (abs s).size) : minChild I s n i = minChild (arrI key) (abs s) n i := by
  unfold minChild
  simp only []
  by_cases h : 2 * i + 1 + 1 < n
  · rw [R.less s (2 * i + 1 + 1) (2 * i + 1) hi (by omega) (by omega)]
  · simp [h]

theorem downLoop_refines (R : Refines key I abs Inv) (n : Nat) : ∀ (fuel : Nat) (s : σ) (i : Nat),
    Inv s → n ≤ (abs s).size →
    abs (downLoop I n fuel s i).1 = (downLoop (arrI key) n fuel (abs s) i).1
    ∧ (downLoop I n fuel s i).2 = (downLoop (arrI key) n fuel (abs s) i).2
    ∧ Inv (downLoop I n fuel s i).1 := by
  intro fuel
  induction fuel with
  | zero => intro s i hi _; exact ⟨rfl, rfl, hi⟩
  | succ fuel ih =>
    intro s i hi hn
    simp only [downLoop]
    split
    · exact ⟨rfl, rfl, hi⟩
    · rename_i hj1
      rw [minChild_refines key R s n i hi hn]
      obtain ⟨hjv, hjn, -, -⟩ := minChild_spec key (abs s) n i (by omega)
      generalize minChild (arrI key) (abs s) n i = j at *
      rw [R.less s j i hi (by omega) (by omega)]
      split
      · exact ⟨rfl, rfl, hi⟩
      · have e := R.swap_abs s i j hi (by omega) (by omega)
        have r := ih (I.swap s i j) j (R.swap_inv s _ _ hi (by omega) (by omega)) (by rw [e]; simpa using hn)
        rw [e] at r
        exact r

theorem up_refines (R : Refines key I abs Inv) (s : σ) (j : Nat) (hi : Inv s) (hj : j < (abs s).size) :
    abs (up I s j) = up (arrI key) (abs s) j ∧ Inv (up I s j) :=
  upLoop_refines key R _ s j hi hj

theorem down_refines (R : Refines key I abs Inv) (s : σ) (i n : Nat) (hi : Inv s) (hn : n ≤ (abs s).size) :
    abs (down I s i n).1 = (down (arrI key) (abs s) i n).1
    ∧ (down I s i n).2 = (down (arrI key) (abs s) i n).2 ∧ Inv (down I s i n).1 := by
  have r := downLoop_refines key R n n s i hi hn
  simp only [down]
  exact ⟨r.1, by rw [r.2.1], r.2.2⟩

/-- `Fix` commutes with the abstraction and preserves the implementation invariant. -/
theorem fix_refines (R : Refines key I abs Inv) (s : σ) (i : Nat) (hi : Inv s) (hlt : i < (abs s).size) :
    abs (fix I s i) = fix (arrI key) (abs s) i ∧ Inv (fix I s i) := by
  have d := down_refines key R s i (I.len s) hi (by rw [R.len s hi]; exact Nat.le_refl _)
  have hl : I.len s = (arrI key).len (abs s) := by rw [R.len s hi]; rfl
  simp only [fix]
  rw [← hl, ← d.2.1]
  split
  · have u := up_refines key R (down I s i (I.len s)).1 i d.2.2 (by
      rw [d.1]
      have := (downLoop_perm key (I.len s) (I.len s) (abs s) i).size_eq
      simp only [down]; omega)
    rw [d.1] at u
    exact u
  · exact ⟨d.1, d.2.2⟩

/-- `Push`, given that the `Push` hook appends (the abstraction of) the element and re-establishes
the invariant. -/
theorem push_refines (R : Refines key I abs Inv) (s : σ) (x x' : α)
    (ha : abs (I.push s x) = (abs s).push x') (hi : Inv (I.push s x)) :
    abs (push I s x) = push (arrI key) (abs s) x' ∧ Inv (push I s x) := by
  simp only [push, arrI_len, arrI_push]
  have hl : I.len (I.push s x) = ((abs s).push x').size := by rw [R.len _ hi, ha]
  have u := up_refines key R (I.push s x) (I.len (I.push s x) - 1) hi (by rw [R.len _ hi]; rw [ha]; simp)
  rw [ha] at u
  rw [hl] at u ⊢
  exact u

/-- `Pop` up to the final hook call. -/
theorem popPrep_refines (R : Refines key I abs Inv) (s : σ) (hi : Inv s) (hne : 0 < (abs s).size) :
    abs (popPrep I s) = popPrep (arrI key) (abs s) ∧ Inv (popPrep I s) := by
  have hl : I.len s = (abs s).size := R.len s hi
  have hn : (abs s).size - 1 < (abs s).size := by omega
  have e := R.swap_abs s 0 ((abs s).size - 1) hi hne hn
  have hi' := R.swap_inv s 0 ((abs s).size - 1) hi hne hn
  have d := down_refines key R (I.swap s 0 ((abs s).size - 1)) 0 ((abs s).size - 1) hi' (by rw [e]; simp)
  rw [e] at d
  simp only [popPrep, arrI_len, arrI_swap, hl]
  exact ⟨d.1, d.2.2⟩

/-- `Remove` up to the final hook call. -/
theorem removePrep_refines (R : Refines key I abs Inv) (s : σ) (i : Nat) (hi : Inv s) (hlt : i < (abs s).size) :
    abs (removePrep I s i) = removePrep (arrI key) (abs s) i ∧ Inv (removePrep I s i) := by
  have hl : I.len s = (abs s).size := R.len s hi
  have hn : (abs s).size - 1 < (abs s).size := by omega
  simp only [removePrep, arrI_len, arrI_swap, hl]
  by_cases hni : ((abs s).size - 1 != i) = true
  · simp only [hni, if_true]
    have e := R.swap_abs s i ((abs s).size - 1) hi hlt hn
    have hi' := R.swap_inv s i ((abs s).size - 1) hi hlt hn
    have d := down_refines key R (I.swap s i ((abs s).size - 1)) i ((abs s).size - 1) hi' (by rw [e]; simp)
    rw [e] at d
    rw [d.2.1]
    by_cases hm : (!(down (arrI key) ((abs s).swapIfInBounds i ((abs s).size - 1)) i ((abs s).size - 1)).2) = true
    · simp only [hm, if_true]
      have u := up_refines key R (down I (I.swap s i ((abs s).size - 1)) i ((abs s).size - 1)).1 i d.2.2 (by
        rw [d.1]
        have := (downLoop_perm key ((abs s).size - 1) ((abs s).size - 1) ((abs s).swapIfInBounds i ((abs s).size - 1)) i).size_eq
        simp only [down]; simp only [Array.size_swapIfInBounds] at this; omega)
      rw [d.1] at u
      exact u
    · simp only [hm]
      exact ⟨d.1, d.2.2⟩
  · simp only [hni]
    exact ⟨rfl, hi⟩

/-! ## Part 3: elements with an `index` field (the broker's `SnowflakeHeap`) -/

structure Indexed.Lawful (X : Indexed α) (key : α → Int) : Prop where
  get_set : ∀ x v, X.getIdx (X.setIdx x v) = v
  set_set : ∀ x u v, X.setIdx (X.setIdx x u) v = X.setIdx x v
  key_set : ∀ x v, key (X.setIdx x v) = key x

/-- every element's stored index is its position -/
def IdxOk (X : Indexed α) (a : Array α) : Prop := ∀ i x, a[i]? = some x → X.getIdx x = some i

/-- forget the stored indices -/
def eraseIdx (X : Indexed α) (a : Array α) : Array α := a.map (fun x => X.setIdx x none)

theorem keyAt_eraseIdx (X : Indexed α) (L : X.Lawful key) (a : Array α) (i : Nat) :
    keyAt key (eraseIdx X a) i = keyAt key a i := by
  unfold keyAt eraseIdx
  rw [Array.getElem?_map]
  cases a[i]? with
  | none => rfl
  | some x => simp [L.key_set]

theorem idx_refines (X : Indexed α) (L : X.Lawful key) :
    Refines key (idxI key X) (eraseIdx X) (IdxOk X) where
  len := fun s _ => by simp [idxI, eraseIdx]
  less := fun s i j _ _ _ => by
    simp only [idxI, arrI, keyAt_eraseIdx key X L]
  swap_abs := fun s i j _ hi hj => by
    simp only [eraseIdx, Array.size_map] at hi hj
    have h1 : s[i]? = some s[i] := by simp [hi]
    have h2 : s[j]? = some s[j] := by simp [hj]
    simp only [idxI, h1, h2, eraseIdx]
    apply Array.ext_getElem?
    intro k
    rw [getElem?_swapIB _ _ _ _ (by simpa using hi) (by simpa using hj)]
    simp only [Array.getElem?_map, Array.getElem?_setIfInBounds, Array.size_setIfInBounds]
    by_cases hkj : j = k
    · subst hkj
      by_cases hki : j = i
      · subst hki; simp [hj, L.set_set]
      · simp [hki, hj, hi, L.set_set]
    · by_cases hki : i = k
      · subst hki
        simp [hkj, hi, hj, L.set_set]
      · have a1 : ¬ k = i := fun h => hki h.symm
        have a2 : ¬ k = j := fun h => hkj h.symm
        simp [hkj, hki, a1, a2]
  swap_inv := fun s i j h hi hj => by
    simp only [eraseIdx, Array.size_map] at hi hj
    have h1 : s[i]? = some s[i] := by simp [hi]
    have h2 : s[j]? = some s[j] := by simp [hj]
    simp only [idxI, h1, h2]
    intro k x hk
    simp only [Array.getElem?_setIfInBounds, Array.size_setIfInBounds] at hk
    by_cases hkj : j = k
    · subst hkj
      simp only [if_true, hj] at hk
      cases hk; exact L.get_set _ _
    · simp only [hkj, if_false] at hk
      by_cases hki : i = k
      · subst hki
        simp only [if_true, hi] at hk
        cases hk; exact L.get_set _ _
      · simp only [hki, if_false] at hk
        exact h k x hk

/-- **Index bookkeeping for `Fix`** (and, by the same `Refines` instance, for `up`, `down`,
`popPrep`, `removePrep`): the stored indices stay equal to the positions and, forgetting them, the
result is the plain heap's. -/
theorem idx_fix (X : Indexed α) (L : X.Lawful key) (a : Array α) (i : Nat) (h : IdxOk X a) (hi : i < a.size) :
    IdxOk X (fix (idxI key X) a i)
    ∧ eraseIdx X (fix (idxI key X) a i) = fix (arrI key) (eraseIdx X a) i := by
  have r := fix_refines key (idx_refines key X L) a i h (by simpa [eraseIdx] using hi)
  exact ⟨r.2, r.1⟩

/-- **Index bookkeeping for `Push`**: the pushed element and everything `up` moves carry their
positions. -/
theorem idx_push (X : Indexed α) (L : X.Lawful key) (a : Array α) (x : α) (h : IdxOk X a) :
    IdxOk X (push (idxI key X) a x)
    ∧ eraseIdx X (push (idxI key X) a x) = push (arrI key) (eraseIdx X a) (X.setIdx x none) := by
  have hp : eraseIdx X ((idxI key X).push a x) = (eraseIdx X a).push (X.setIdx x none) := by
    simp [idxI, eraseIdx, L.set_set]
  have hi : IdxOk X ((idxI key X).push a x) := by
    intro k y hk
    simp only [idxI, Array.getElem?_push] at hk
    by_cases hks : k = a.size
    · simp only [hks, if_true] at hk
      cases hk; rw [hks]; exact L.get_set _ _
    · simp only [hks, if_false] at hk
      exact h k y hk
  have r := push_refines key (idx_refines key X L) a x (X.setIdx x none) hp hi
  exact ⟨r.2, r.1⟩

/-- **Index bookkeeping for `Pop` and `Remove`**: the removed element gets index `none` (Go: -1), the
remaining elements carry their positions, and forgetting indices the result is the plain heap's. -/
theorem idx_pop_hook (X : Indexed α) (L : X.Lawful key) (a : Array α) (h : IdxOk X a) :
    IdxOk X ((idxI key X).pop a).1
    ∧ (∀ y, ((idxI key X).pop a).2 = some y → X.getIdx y = none)
    ∧ eraseIdx X ((idxI key X).pop a).1 = ((arrI key).pop (eraseIdx X a)).1
    ∧ ((idxI key X).pop a).2.map (fun y => X.setIdx y none) = ((arrI key).pop (eraseIdx X a)).2 := by
  refine ⟨?_, ?_, ?_, ?_⟩
  · intro k y hk
    simp only [idxI, Array.getElem?_pop] at hk
    split at hk
    · exact h k y hk
    · cases hk
  · intro y hy
    simp only [idxI, Option.map_eq_some_iff] at hy
    obtain ⟨z, _, rfl⟩ := hy
    exact L.get_set _ _
  · simp only [idxI, arrI, eraseIdx]
    apply Array.ext_getElem?
    intro k
    simp [Array.getElem?_pop, Array.getElem?_map]
  · simp only [idxI, arrI, eraseIdx, Array.back?_eq_getElem?, Array.getElem?_map, Array.size_map]
    cases a[a.size - 1]? with
    | none => rfl
    | some z => simp [L.set_set]

theorem idx_pop (X : Indexed α) (L : X.Lawful key) (a : Array α) (h : IdxOk X a) (hne : 0 < a.size) :
    IdxOk X (pop (idxI key X) a).1
    ∧ (∀ y, (pop (idxI key X) a).2 = some y → X.getIdx y = none)
    ∧ eraseIdx X (pop (idxI key X) a).1 = (pop (arrI key) (eraseIdx X a)).1
    ∧ (pop (idxI key X) a).2.map (fun y => X.setIdx y none) = (pop (arrI key) (eraseIdx X a)).2 := by
  have r := popPrep_refines key (idx_refines key X L) a h (by simpa [eraseIdx] using hne)
  have q := idx_pop_hook key X L (popPrep (idxI key X) a) r.2
  simp only [pop]
  rw [← r.1]
  exact q

theorem idx_remove (X : Indexed α) (L : X.Lawful key) (a : Array α) (i : Nat) (h : IdxOk X a) (hi : i < a.size) :
    IdxOk X (remove (idxI key X) a i).1
    ∧ (∀ y, (remove (idxI key X) a i).2 = some y → X.getIdx y = none)
    ∧ eraseIdx X (remove (idxI key X) a i).1 = (remove (arrI key) (eraseIdx X a) i).1
    ∧ (remove (idxI key X) a i).2.map (fun y => X.setIdx y none) = (remove (arrI key) (eraseIdx X a) i).2 := by
  have r := removePrep_refines key (idx_refines key X L) a i h (by simpa [eraseIdx] using hi)
  have q := idx_pop_hook key X L (removePrep (idxI key X) a i) r.2
  simp only [remove]
  rw [← r.1]
  exact q

end Snowflake.Heap
