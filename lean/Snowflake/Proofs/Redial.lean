import Snowflake.Model.Redial
/-!
Invariants of the `RedialPacketConn` LTS (`Snowflake.Model.Redial`), pushed through all 28 labels by
one tactic script per bundle; progress and rank lemmas for the goroutines of a closed carrier; and
the stability lemma behind the negative witnesses (a sender on an unbuffered error channel whose
receivers are gone stays blocked in every continuation).
-/
namespace Snowflake.Redial

/-- Invariant bundle 1: errors and the carrier discipline of `dialLoop`. -/
structure Inv1 (s : St) : Prop where
  errClosed : s.errSurfaced = true → s.closed = true
  closedWhy : s.closed = true → s.userClosed = true ∨ s.dialFailed = true
  openIsCurrent : ∀ k, k < s.n → s.cclosed k = false → (s.main = .selecting k ∨ s.main = .closing k)
  currentIsLast : ∀ k, (s.main = .selecting k ∨ s.main = .closing k) → k + 1 = s.n
  closedDialed : ∀ k, s.cclosed k = true → k < s.n

theorem inv1_init : Inv1 init := by
  constructor <;> simp [init]

theorem inv1_step (capR capW : Nat) (s s' : St) (l : Label) (hs : step capR capW s l = some s')
    (hi : Inv1 s) : Inv1 s' := by
  obtain ⟨h1, h2, h3, h4, h5⟩ := hi
  cases l <;> simp only [step] at hs <;> (repeat' split at hs) <;> (try cases hs) <;>
    (try simp at hs) <;>
    refine ⟨?_, ?_, ?_, ?_, ?_⟩ <;> intros <;> simp_all [upd] <;> (try grind)
/-- Invariant bundle 2: error channels and the goroutines that own them. -/
structure Inv2 (s : St) : Prop where
  rbuf : ∀ k, (s.rch k).buf = 0 ∨ s.rd k = .exiting ∨ s.rd k = .done
  wbuf : ∀ k, (s.wch k).buf = 0 ∨ s.wr k = .exiting ∨ s.wr k = .done
  rdone : ∀ k, s.rd k = .done → (s.rch k).closed = true
  wdone : ∀ k, s.wr k = .done → (s.wch k).closed = true
  present : ∀ k, k < s.n → s.rd k ≠ .absent ∧ s.wr k ≠ .absent
  absent : ∀ k, s.n ≤ k → s.rd k = .absent ∧ s.wr k = .absent

theorem inv2_init : Inv2 init := by
  constructor <;> simp [init]

theorem inv2_step (capR capW : Nat) (s s' : St) (l : Label) (hs : step capR capW s l = some s')
    (hi : Inv2 s) : Inv2 s' := by
  obtain ⟨h1, h2, h3, h4, h5, h6⟩ := hi
  cases l <;> simp only [step] at hs <;> (repeat' split at hs) <;> (try cases hs) <;>
    (try simp at hs) <;>
    refine ⟨?_, ?_, ?_, ?_, ?_, ?_⟩ <;> intros <;> simp_all [upd, Chan.recv] <;> (try grind)
/-- With buffered error channels the reader of any carrier always has an enabled step until it
has returned: it is never blocked (its `ReadFrom` on the carrier is assumed to return). -/
theorem reader_enabled (capR capW : Nat) (hR : 1 ≤ capR) (s : St) (i2 : Inv2 s) (k : Nat)
    (h : s.rd k ≠ .done) (ha : s.rd k ≠ .absent) :
    ∃ l ∈ [Label.rSelClosed k, .rSelW k, .rDefault k, .readFail k, .rSend k, .rExit k],
      (step capR capW s l).isSome = true := by
  have hb := i2.rbuf k
  cases hr : s.rd k with
  | absent => exact absurd hr ha
  | done => exact absurd hr h
  | top =>
    by_cases hc : s.closed = true
    · exact ⟨.rSelClosed k, by simp, by simp [step, hr, hc]⟩
    · by_cases hw : (s.wch k).ready = true
      · exact ⟨.rSelW k, by simp, by simp [step, hr, hw]⟩
      · exact ⟨.rDefault k, by simp, by simp [step, hr, hc, hw]⟩
  | reading => exact ⟨.readFail k, by simp, by simp [step, hr]⟩
  | sending =>
    have : (s.rch k).buf = 0 := by simp [hr] at hb; exact hb
    exact ⟨.rSend k, by simp, by simp [step, hr, this]; omega⟩
  | exiting => exact ⟨.rExit k, by simp, by simp [step, hr]⟩

/-- Once the reader has returned (so `readErrCh` is closed) the writer always has an enabled step
until it has returned. -/
theorem writer_enabled (capR capW : Nat) (hW : 1 ≤ capW) (s : St) (i2 : Inv2 s) (k : Nat)
    (hrd : s.rd k = .done) (h : s.wr k ≠ .done) (ha : s.wr k ≠ .absent) :
    ∃ l ∈ [Label.wSelR k, .writeFail k, .wSend k, .wExit k],
      (step capR capW s l).isSome = true := by
  have hb := i2.wbuf k
  have hcl := i2.rdone k hrd
  cases hw : s.wr k with
  | absent => exact absurd hw ha
  | done => exact absurd hw h
  | select => exact ⟨.wSelR k, by simp, by simp [step, hw, Chan.ready, hcl]⟩
  | writing => exact ⟨.writeFail k, by simp, by simp [step, hw]⟩
  | sending =>
    have : (s.wch k).buf = 0 := by simp [hw] at hb; exact hb
    exact ⟨.wSend k, by simp, by simp [step, hw, this]; omega⟩
  | exiting => exact ⟨.wExit k, by simp, by simp [step, hw]⟩

theorem rank_pos_cases (s : St) (k : Nat) (hk : k < s.n) (i2 : Inv2 s) (h : 0 < rank s k) :
    (s.rd k ≠ .done ∧ s.rd k ≠ .absent) ∨ (s.rd k = .done ∧ s.wr k ≠ .done ∧ s.wr k ≠ .absent) := by
  have hp := i2.present k hk
  unfold rank at h
  cases hr : s.rd k <;> cases hw : s.wr k <;> simp_all [rrank, wrank]

/-- **Progress.** With both error channels buffered, the goroutines of a dialed carrier always have
an enabled step of their own until both have returned. -/
theorem group_progress (capR capW : Nat) (hR : 1 ≤ capR) (hW : 1 ≤ capW) (s : St) (i2 : Inv2 s)
    (k : Nat) (hk : k < s.n) (h : 0 < rank s k) :
    ∃ l ∈ groupLabels k, (step capR capW s l).isSome = true := by
  rcases rank_pos_cases s k hk i2 h with ⟨h1, h2⟩ | ⟨h1, h2, h3⟩
  · obtain ⟨l, hl, he⟩ := reader_enabled capR capW hR s i2 k h1 h2
    refine ⟨l, ?_, he⟩
    simp only [List.mem_cons, List.mem_nil_iff, or_false] at hl
    rcases hl with rfl | rfl | rfl | rfl | rfl | rfl <;> simp [groupLabels]
  · obtain ⟨l, hl, he⟩ := writer_enabled capR capW hW s i2 k h1 h2 h3
    refine ⟨l, ?_, he⟩
    simp only [List.mem_cons, List.mem_nil_iff, or_false] at hl
    rcases hl with rfl | rfl | rfl | rfl <;> simp [groupLabels]

/-- **Rank.** After `Close()` of carrier `k` no step increases the distance of its goroutines from
having returned, and every step of these goroutines decreases it. -/
theorem rank_step (capR capW : Nat) (s s' : St) (l : Label) (k : Nat)
    (hs : step capR capW s l = some s') (hc : s.cclosed k = true) (hk : k < s.n) :
    rank s' k ≤ rank s k ∧ (l ∈ groupLabels k → rank s' k < rank s k) ∧ s'.cclosed k = true ∧ k < s'.n := by
  cases l <;> simp only [step] at hs <;> (repeat' split at hs) <;> (try cases hs) <;>
    (try simp at hs) <;> simp_all [upd, rank, groupLabels] <;> (try grind [rrank, wrank])

theorem inv_reachable (capR capW : Nat) (s : St) (h : Reachable capR capW s) : Inv1 s ∧ Inv2 s := by
  induction h with
  | init => exact ⟨inv1_init, inv2_init⟩
  | step _ hs ih => exact ⟨inv1_step _ _ _ _ _ hs ih.1, inv2_step _ _ _ _ _ hs ih.2⟩

theorem run_append (capR capW : Nat) : ∀ (ls ms : List Label) (s : St),
    run capR capW s (ls ++ ms) = (run capR capW s ls).bind (fun s' => run capR capW s' ms) := by
  intro ls
  induction ls with
  | nil => intro ms s; rfl
  | cons l ls ih =>
    intro ms s
    simp only [List.cons_append, run]
    cases step capR capW s l with
    | none => rfl
    | some s' => exact ih ms s'

theorem reachable_run (capR capW : Nat) : ∀ (ls : List Label) (s s' : St),
    Reachable capR capW s → run capR capW s ls = some s' → Reachable capR capW s' := by
  intro ls
  induction ls with
  | nil => intro s s' h hr; simp only [run] at hr; cases hr; exact h
  | cons l ls ih =>
    intro s s' h hr
    simp only [run] at hr
    cases hs : step capR capW s l with
    | none => simp [hs] at hr
    | some s1 => rw [hs] at hr; exact ih s1 s' (.step h hs) hr

/-- **They can always finish.** From any state satisfying the invariants in which carrier `k` has
been closed, a schedule consisting only of steps of that carrier's two goroutines, of length at most
`rank ≤ 8`, leads to a state where both have returned. -/
theorem can_finish (capR capW : Nat) (hR : 1 ≤ capR) (hW : 1 ≤ capW) (k : Nat) : ∀ (r : Nat) (s : St),
    Inv2 s → k < s.n → s.cclosed k = true → rank s k ≤ r →
    ∃ ls s', (∀ l ∈ ls, l ∈ groupLabels k) ∧ ls.length ≤ r ∧ run capR capW s ls = some s'
      ∧ finished s' k := by
  intro r
  induction r with
  | zero =>
    intro s i2 hk hc hr
    refine ⟨[], s, by simp, by simp, rfl, ?_⟩
    have hp := i2.present k hk
    unfold rank at hr
    unfold finished
    cases h1 : s.rd k <;> cases h2 : s.wr k <;> simp_all [rrank, wrank]
  | succ r ih =>
    intro s i2 hk hc hr
    by_cases h0 : rank s k = 0
    · obtain ⟨ls, s', a, b, c, d⟩ := ih s i2 hk hc (by omega)
      exact ⟨ls, s', a, by omega, c, d⟩
    · obtain ⟨l, hl, he⟩ := group_progress capR capW hR hW s i2 k hk (by omega)
      cases hs : step capR capW s l with
      | none => simp [hs] at he
      | some s1 =>
        obtain ⟨_, h2, h3, h4⟩ := rank_step capR capW s s1 l k hs hc hk
        have := h2 hl
        obtain ⟨ls, s', a, b, c, d⟩ := ih s1 (inv2_step _ _ _ _ _ hs i2) h4 h3 (by omega)
        refine ⟨l :: ls, s', ?_, by simp; omega, by simp [run, hs, c], d⟩
        intro x hx
        rcases List.mem_cons.mp hx with rfl | hx
        · exact hl
        · exact a x hx

/-! ## Unbuffered error channels: a blocked sender stays blocked -/

/-- The reader of carrier `k` is blocked in `readErrCh <- err` while `exchange` has moved on and the
writer has returned: nobody will ever receive. -/
def LeakedReader (s : St) (k : Nat) : Prop :=
  s.rd k = .sending ∧ s.wr k = .done ∧ k < s.n ∧ s.main ≠ .selecting k

/-- The writer of carrier `k` is blocked in `writeErrCh <- err`, `exchange` has moved on, the reader
has returned. -/
def LeakedWriter (s : St) (k : Nat) : Prop :=
  s.wr k = .sending ∧ s.rd k = .done ∧ k < s.n ∧ s.main ≠ .selecting k

instance (s : St) (k : Nat) : Decidable (LeakedReader s k) := by unfold LeakedReader; infer_instance
instance (s : St) (k : Nat) : Decidable (LeakedWriter s k) := by unfold LeakedWriter; infer_instance

theorem leakedReader_step (capW : Nat) (s s' : St) (l : Label) (k : Nat)
    (hs : step 0 capW s l = some s') (h : LeakedReader s k) : LeakedReader s' k := by
  obtain ⟨h1, h2, h3, h4⟩ := h
  cases l <;> simp only [step] at hs <;> (repeat' split at hs) <;> (try cases hs) <;>
    (try simp at hs) <;> refine ⟨?_, ?_, ?_, ?_⟩ <;> simp_all [upd] <;> (try grind)

theorem leakedWriter_step (capR : Nat) (s s' : St) (l : Label) (k : Nat)
    (hs : step capR 0 s l = some s') (h : LeakedWriter s k) : LeakedWriter s' k := by
  obtain ⟨h1, h2, h3, h4⟩ := h
  cases l <;> simp only [step] at hs <;> (repeat' split at hs) <;> (try cases hs) <;>
    (try simp at hs) <;> refine ⟨?_, ?_, ?_, ?_⟩ <;> simp_all [upd] <;> (try grind)

/-- With an unbuffered `readErrCh` a leaked reader is blocked forever: whatever happens next, it is
still sitting in its send. -/
theorem leakedReader_forever (capW : Nat) : ∀ (ls : List Label) (s s' : St) (k : Nat),
    LeakedReader s k → run 0 capW s ls = some s' → LeakedReader s' k := by
  intro ls
  induction ls with
  | nil => intro s s' k h hr; simp only [run] at hr; cases hr; exact h
  | cons l ls ih =>
    intro s s' k h hr
    simp only [run] at hr
    cases hs : step 0 capW s l with
    | none => simp [hs] at hr
    | some s1 => rw [hs] at hr; exact ih s1 s' k (leakedReader_step capW s s1 l k hs h) hr

theorem leakedWriter_forever (capR : Nat) : ∀ (ls : List Label) (s s' : St) (k : Nat),
    LeakedWriter s k → run capR 0 s ls = some s' → LeakedWriter s' k := by
  intro ls
  induction ls with
  | nil => intro s s' k h hr; simp only [run] at hr; cases hr; exact h
  | cons l ls ih =>
    intro s s' k h hr
    simp only [run] at hr
    cases hs : step capR 0 s l with
    | none => simp [hs] at hr
    | some s1 => rw [hs] at hr; exact ih s1 s' k (leakedWriter_step capR s s1 l k hs h) hr

/-- `P` holds in the state reached by the schedule (and the schedule is executable). -/
def holdsAfter (capR capW : Nat) (ls : List Label) (P : St → Bool) : Bool :=
  match run capR capW init ls with
  | some s => P s
  | none => false

theorem holdsAfter_spec (capR capW : Nat) (ls : List Label) (P : St → Bool)
    (h : holdsAfter capR capW ls P = true) :
    ∃ s, run capR capW init ls = some s ∧ Reachable capR capW s ∧ P s = true := by
  unfold holdsAfter at h
  cases hr : run capR capW init ls with
  | none => simp [hr] at h
  | some s => exact ⟨s, rfl, reachable_run _ _ ls init s .init hr, by simpa [hr] using h⟩

end Snowflake.Redial
