import Snowflake.Model.Server
import Snowflake.Proofs.EncapFrames
/-! Invariants of the server carrier-layer model (C05 / C01). -/
namespace Snowflake.Server
open Snowflake.Encap

/-- Facts about one carrier record (relative to the turbotunnel token). -/
structure COK (token : Bytes) (c : Carrier) : Prop where
  split : c.allIn = c.consumed ++ c.buf
  absent : c.pc = .absent → c.allIn = [] ∧ c.presented = none ∧ c.consumed = []
  tok : c.pc = .token → c.consumed = [] ∧ c.presented = none
  cid : c.pc = .cid → c.consumed = token ∧ c.presented = none
  run : ∀ id, c.pc = .run id → c.presented = some id
  none : c.presented = none → c.queued = [] ∧ c.written = [] ∧ c.frames = []
  some : ∀ id, c.presented = some id → c.consumed = token ++ id ++ c.frames
  frames : Frames c.frames c.queued

theorem cok_default (token : Bytes) : COK token {} := by
  constructor <;> simp [frames_nil]

/-- Global facts. -/
structure GOK (st : St) : Prop where
  hist : ∀ p id k, (p, id, k) ∈ st.inHist → (st.cs k).presented = some id ∧ p ∈ (st.cs k).queued
  inq : ∀ p id, (p, id) ∈ st.inq → ∃ k, (p, id, k) ∈ st.inHist
  fifo : ∀ id, st.outq id = (st.enq id).drop (st.deq id)
  written : ∀ k id, (st.cs k).presented = some id → List.Sublist (st.cs k).written ((st.enq id).take (st.deq id))

section
variable {st st' : St}

theorem upd_all {α} {P : α → Prop} {m : Nat → α} {k : Nat} {v : α}
    (h : ∀ q, P (m q)) (hv : P v) : ∀ q, P (upd m k v q) := by
  intro q
  by_cases hq : q = k
  · subst hq; simpa using hv
  · simpa [upd_ne _ _ _ _ hq] using h q

theorem token_step (l : Lab) (hs : step st l = some st') : st'.token = st.token ∧ st'.queueSize = st.queueSize := by
  cases l <;> simp only [step, hStep] at hs <;> (repeat' split at hs) <;> (try cases hs) <;> (try exact ⟨rfl, rfl⟩)

/-- Carrier invariant is preserved by every label. -/
theorem cok_step (l : Lab) (hs : step st l = some st') (h : ∀ q, COK st.token (st.cs q)) :
    ∀ q, COK st'.token (st'.cs q) := by
  have ht := (token_step l hs).1
  rw [ht]
  cases l with
  | «open» k =>
    have hk := h k
    simp only [step] at hs; split at hs
    all_goals (try cases hs)
    rename_i hg
    have := hk.absent hg
    have hn := hk.none this.2.1
    apply upd_all h
    constructor <;> simp_all [frames_nil] <;> (try grind [COK])
  | recv k bs =>
    have hk := h k
    simp only [step] at hs; split at hs
    all_goals (try cases hs)
    apply upd_all h
    constructor <;> simp_all <;> (try grind [COK])
    all_goals (first | exact hk.frames | skip)
  | cut k =>
    have hk := h k
    simp only [step] at hs; split at hs
    all_goals (try cases hs)
    apply upd_all h
    constructor <;> simp_all <;> (try grind [COK])
    all_goals (first | exact hk.frames | skip)
  | hStep k =>
    have hk := h k
    simp only [step, hStep] at hs
    split at hs
    · -- token
      rename_i hpc
      have h0 := hk.tok hpc
      split at hs
      · split at hs
        · cases hs; apply upd_all h
          rename_i hlen htok
          have hsplit : (st.cs k).allIn = st.token ++ List.drop 8 (st.cs k).buf := by
            rw [hk.split, h0.1, ← htok]; simp
          constructor <;> simp_all <;> (try grind [COK])
          all_goals (first | exact hk.frames | skip)
        · cases hs; apply upd_all h
          constructor <;> simp_all <;> (try grind [COK])
          all_goals (first | exact hk.frames | skip)
      · split at hs
        · cases hs; apply upd_all h
          constructor <;> simp_all <;> (try grind [COK])
          all_goals (first | exact hk.frames | skip)
        · cases hs
    · -- cid
      rename_i hpc
      have h0 := hk.cid hpc
      have hn := hk.none h0.2
      split at hs
      · cases hs; apply upd_all h
        constructor <;> simp_all [frames_nil] <;> (try grind [COK])
      · split at hs
        · cases hs; apply upd_all h
          constructor <;> simp_all <;> (try grind [COK])
          all_goals (first | exact hk.frames | skip)
        · cases hs
    · -- run id
      rename_i id hpc
      have hpres := hk.run id hpc
      have hcons := hk.some id hpres
      split at hs
      · -- a complete data chunk
        rename_i p rest hnx
        obtain ⟨delta, hd1, _, hd3⟩ := next_local _ _ _ _ hnx
        have hdelta : (st.cs k).buf.take ((st.cs k).buf.length - rest.length) = delta := by
          rw [hd1]; simp
        have hfr := frames_snoc hk.frames delta p hd3
        split at hs <;> cases hs <;> apply upd_all h <;>
          (constructor <;> simp_all <;> (try grind [COK]))
      · cases hs; apply upd_all h
        constructor <;> simp_all <;> (try grind [COK])
        all_goals (first | exact hk.frames | skip)
      · split at hs
        · cases hs; apply upd_all h
          constructor <;> simp_all <;> (try grind [COK])
          all_goals (first | exact hk.frames | skip)
        · cases hs
    · cases hs
  | kcpWrite p id =>
    simp only [step] at hs; split at hs <;> cases hs <;> exact h
  | wStep k =>
    have hk := h k
    simp only [step] at hs
    split at hs
    · rename_i id hpc
      have hpres := hk.run id hpc
      split at hs
      · split at hs
        · cases hs; exact h
        · cases hs; apply upd_all h
          constructor <;> simp_all <;> (try grind [COK])
          all_goals (first | exact hk.frames | skip)
      · cases hs
    · cases hs
  | kcpRead =>
    simp only [step] at hs; split at hs <;> cases hs; exact h

end
end Snowflake.Server

namespace Snowflake.Server
open Snowflake.Encap

structure GOK2 (st : St) : Prop where
  deqle : ∀ id, st.deq id ≤ (st.enq id).length

section
variable {st st' : St}

theorem drop_eq_cons {α} {l : List α} {n : Nat} {x : α} {r : List α} (h : l.drop n = x :: r) :
    n < l.length ∧ l.take (n + 1) = l.take n ++ [x] ∧ l.drop (n + 1) = r := by
  have hn : n < l.length := by
    rcases Nat.lt_or_ge n l.length with h' | h'
    · exact h'
    · rw [List.drop_of_length_le h'] at h; cases h
  refine ⟨hn, ?_, ?_⟩
  · have hx : l[n] = x := by
      have := List.getElem_cons_drop_succ_eq_drop (as := l) (i := n) hn
      rw [h] at this; exact (List.cons.inj this).1
    rw [List.take_succ_eq_append_getElem hn, hx]
  · have := List.getElem_cons_drop_succ_eq_drop (as := l) (i := n) hn
    rw [h] at this; exact (List.cons.inj this).2

/-- Monotone facts: a presented id stays, queued packets stay. -/
theorem mono_step (l : Lab) (hs : step st l = some st') (h : ∀ q, COK st.token (st.cs q)) (q : Nat) :
    (∀ id, (st.cs q).presented = some id → (st'.cs q).presented = some id)
    ∧ (∀ p, p ∈ (st.cs q).queued → p ∈ (st'.cs q).queued) := by
  have hq := h q
  cases l <;> simp only [step, hStep] at hs <;> (repeat' split at hs) <;> (try cases hs) <;>
    (try exact ⟨fun _ h => h, fun _ h => h⟩) <;>
    (simp only [upd] <;> split <;> simp_all <;> (try grind [COK]))

/-- Which packets are written downstream on carrier `q`: unchanged except by `wStep q`. -/
theorem written_frame (l : Lab) (hs : step st l = some st') (q : Nat) :
    (st'.cs q).written = (st.cs q).written ∨
      ∃ id p rest, l = .wStep q ∧ (st.cs q).pc = .run id ∧ st.outq id = p :: rest
        ∧ (st'.cs q).written = (st.cs q).written ++ [p] := by
  cases l <;> simp only [step, hStep] at hs <;> (repeat' split at hs) <;> (try cases hs) <;>
    (try (left; rfl)) <;>
    (simp only [upd] <;> split <;> simp_all)

theorem gok2_step (l : Lab) (hs : step st l = some st') (g2 : GOK2 st) (g : GOK st) : GOK2 st' := by
  constructor
  intro id
  have h0 := g2.deqle id
  cases l with
  | kcpWrite p id' =>
    simp only [step] at hs; split at hs <;> cases hs
    · simp only [updC]; split <;> simp_all <;> omega
    · exact h0
  | wStep k =>
    simp only [step] at hs
    split at hs
    · rename_i id' hpc
      split at hs
      · rename_i p rest hq
        have hf := g.fifo id'
        rw [hq] at hf
        have := (drop_eq_cons hf.symm).1
        split at hs <;> cases hs <;> (simp only [updC]; split <;> simp_all <;> omega)
      · cases hs
    · cases hs
  | _ =>
    simp only [step, hStep] at hs <;> (repeat' split at hs) <;> (try cases hs) <;> (try exact h0)

theorem take_sublist_succ {α} (l : List α) (n : Nat) : List.Sublist (l.take n) (l.take (n + 1)) := by
  induction l generalizing n with
  | nil => simp
  | cons x xs ih =>
    cases n with
    | zero => simp
    | succ n => simp only [List.take_succ_cons]; exact List.Sublist.cons₂ x (ih n)

theorem gok_step (l : Lab) (hs : step st l = some st') (h : ∀ q, COK st.token (st.cs q))
    (g : GOK st) (g2 : GOK2 st) : GOK st' := by
  have hmono := mono_step l hs h
  cases l with
  | «open» k =>
    simp only [step] at hs; split at hs <;> cases hs
    rename_i hg
    have hk := (h k).absent hg
    have hn := (h k).none hk.2.1
    refine ⟨?_, g.inq, g.fifo, ?_⟩
    · intro p id q hm
      have := g.hist p id q hm
      exact ⟨(hmono q).1 id this.1, (hmono q).2 p this.2⟩
    · intro q id hp
      by_cases hq : q = k
      · subst hq; simp at hp; rw [hk.2.1] at hp; cases hp
      · simp [upd_ne _ _ _ _ hq] at hp ⊢; exact g.written q id hp
  | recv k bs =>
    simp only [step] at hs; split at hs <;> cases hs
    refine ⟨?_, g.inq, g.fifo, ?_⟩
    · intro p id q hm
      have := g.hist p id q hm
      exact ⟨(hmono q).1 id this.1, (hmono q).2 p this.2⟩
    · intro q id hp
      by_cases hq : q = k
      · subst hq; simp at hp ⊢; exact g.written q id hp
      · simp [upd_ne _ _ _ _ hq] at hp ⊢; exact g.written q id hp
  | cut k =>
    simp only [step] at hs; split at hs <;> cases hs
    refine ⟨?_, g.inq, g.fifo, ?_⟩
    · intro p id q hm
      have := g.hist p id q hm
      exact ⟨(hmono q).1 id this.1, (hmono q).2 p this.2⟩
    · intro q id hp
      by_cases hq : q = k
      · subst hq; simp at hp ⊢; exact g.written q id hp
      · simp [upd_ne _ _ _ _ hq] at hp ⊢; exact g.written q id hp
  | kcpWrite p id =>
    simp only [step] at hs; split at hs <;> cases hs
    · rename_i hlen
      refine ⟨g.hist, g.inq, ?_, ?_⟩
      · intro id'
        by_cases hi : id' = id
        · subst hi
          simp only [updC_same]
          rw [g.fifo id', List.drop_append_of_le_length (g2.deqle id')]
        · simp only [updC_ne _ _ _ _ hi]; exact g.fifo id'
      · intro q id' hp
        by_cases hi : id' = id
        · subst hi
          simp only [updC_same]
          rw [List.take_append_of_le_length (g2.deqle id')]
          exact g.written q id' hp
        · simp only [updC_ne _ _ _ _ hi]; exact g.written q id' hp
    · exact g
  | kcpRead =>
    simp only [step] at hs; split at hs <;> cases hs
    rename_i x rest hq
    refine ⟨g.hist, ?_, g.fifo, g.written⟩
    intro p id hm
    exact g.inq p id (by rw [hq]; exact List.mem_cons_of_mem _ hm)
  | wStep k =>
    simp only [step] at hs
    split at hs
    · rename_i id hpc
      have hpres := (h k).run id hpc
      split at hs
      · rename_i p rest hq
        have hf := g.fifo id
        rw [hq] at hf
        obtain ⟨hlt, htake, hdrop⟩ := drop_eq_cons hf.symm
        have hfifo : ∀ id', (updC st.outq id rest) id' = (st.enq id').drop ((updC st.deq id (st.deq id + 1)) id') := by
          intro id'
          by_cases hi : id' = id
          · subst hi; simp only [updC_same]; exact hdrop.symm
          · simp only [updC_ne _ _ _ _ hi]; exact g.fifo id'
        split at hs <;> cases hs
        · -- carrier already cut: packet lost, nothing written
          refine ⟨g.hist, g.inq, hfifo, ?_⟩
          intro q id' hp
          by_cases hi : id' = id
          · subst hi; simp only [updC_same]
            exact (g.written q id' hp).trans (take_sublist_succ _ _)
          · simp only [updC_ne _ _ _ _ hi]; exact g.written q id' hp
        · refine ⟨?_, g.inq, hfifo, ?_⟩
          · intro p' id' q hm
            have := g.hist p' id' q hm
            exact ⟨(hmono q).1 id' this.1, (hmono q).2 p' this.2⟩
          · intro q id' hp
            by_cases hqk : q = k
            · subst hqk
              simp only [upd_same] at hp ⊢
              rw [hpres] at hp; cases hp
              simp only [updC_same, htake]
              exact List.Sublist.append (g.written q id hpres) (List.Sublist.refl _)
            · simp only [upd_ne _ _ _ _ hqk] at hp ⊢
              by_cases hi : id' = id
              · subst hi; simp only [updC_same]
                exact (g.written q id' hp).trans (take_sublist_succ _ _)
              · simp only [updC_ne _ _ _ _ hi]; exact g.written q id' hp
      · cases hs
    · cases hs
  | hStep k =>
    have hk := h k
    simp only [step, hStep] at hs
    have hwr : ∀ q id, (st'.cs q).presented = some id →
        ((st.cs q).presented = some id ∨ (st.cs q).written = []) ∧ (st'.cs q).written = (st.cs q).written := by
      intro q id hp
      have hq := h q
      have hs' := hs
      (repeat' split at hs') <;> (try cases hs') <;>
        (simp only [upd] at hp ⊢ <;> split <;> simp_all <;> (try grind [COK]))
    have hW : ∀ q id, (st'.cs q).presented = some id → st'.enq = st.enq → st'.deq = st.deq →
        List.Sublist (st'.cs q).written ((st'.enq id).take (st'.deq id)) := by
      intro q id hp he hd
      obtain ⟨h1, h2⟩ := hwr q id hp
      rw [h2, he, hd]
      rcases h1 with h1 | h1
      · exact g.written q id h1
      · rw [h1]; exact List.nil_sublist _
    have hframe : st'.enq = st.enq ∧ st'.deq = st.deq ∧ st'.outq = st.outq := by
      have hs' := hs
      (repeat' split at hs') <;> (try cases hs') <;> exact ⟨rfl, rfl, rfl⟩
    refine ⟨?_, ?_, ?_, fun q id hp => hW q id hp hframe.1 hframe.2.1⟩
    · -- hist
      intro p id q hm
      have hs' := hs
      (repeat' split at hs') <;> (try cases hs')
      all_goals first
        | (have := g.hist p id q hm
           exact ⟨(hmono q).1 id this.1, (hmono q).2 p this.2⟩)
        | skip
      -- the accepting branch: a new history entry
      simp only [List.mem_append, List.mem_singleton, Prod.mk.injEq] at hm
      rcases hm with hm | ⟨rfl, rfl, rfl⟩
      · have := g.hist p id q hm
        exact ⟨(hmono q).1 id this.1, (hmono q).2 p this.2⟩
      · simp only [upd_same]
        exact ⟨hk.run _ (by assumption), by simp⟩
    · -- inq
      intro p id hm
      have hs' := hs
      (repeat' split at hs') <;> (try cases hs')
      all_goals first
        | exact g.inq p id hm
        | skip
      simp only [List.mem_append, List.mem_singleton, Prod.mk.injEq] at hm
      rcases hm with hm | ⟨rfl, rfl⟩
      · obtain ⟨q, hq⟩ := g.inq p id hm
        exact ⟨q, List.mem_append_left _ hq⟩
      · exact ⟨k, by simp⟩
    · intro id
      rw [hframe.1, hframe.2.1, hframe.2.2]; exact g.fifo id

end
end Snowflake.Server
