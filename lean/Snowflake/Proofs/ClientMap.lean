import Snowflake.Model.ClientMap
import Snowflake.Proofs.Heap
/-!
Lemmas about `Snowflake.Model.ClientMap`: the hooks of `clientMapInner` refine the plain array heap
under the consistency invariant (so every theorem of `Proofs/Heap.lean` transfers), `SendQueue` and
`removeExpired` keep the state good, and `removeExpired` removes exactly the expired records.
-/
namespace Snowflake.ClientMap
open Snowflake Snowflake.Heap

/-- `byAddr` and `byAge` hold the same records: every record's address maps to its position, every
map entry points at the record with that address, and the two lengths agree (so `Len()` never
panics). -/
structure Consistent (s : Inner) : Prop where
  fwd : ∀ i r, s.byAge[i]? = some r → s.byAddr.get r.addr = some i
  bwd : ∀ a i, s.byAddr.get a = some i → ∃ r, s.byAge[i]? = some r ∧ r.addr = a
  size : s.byAddr.size = s.byAge.size

theorem swapH_byAge (s : Inner) (i j : Nat) (hi : i < s.byAge.size) (hj : j < s.byAge.size) :
    (swapH s i j).byAge = s.byAge.swapIfInBounds i j
    ∧ (swapH s i j).byAddr = (s.byAddr.set s.byAge[j].addr i).set s.byAge[i].addr j
    ∧ (swapH s i j).closed = s.closed ∧ (swapH s i j).panicked = s.panicked := by
  unfold swapH
  have h1 : (s.byAge.swapIfInBounds i j)[i]? = some s.byAge[j] := by
    rw [getElem?_swapIB _ _ _ _ hi hj]; simp [hj]
  have h2 : (s.byAge.swapIfInBounds i j)[j]? = some s.byAge[i] := by
    rw [getElem?_swapIB _ _ _ _ hi hj]
    by_cases h : j = i
    · subst h; simp
    · simp [h, hi]
  simp only [h1, h2]
  simp

theorem swapH_consistent (s : Inner) (i j : Nat) (hc : Consistent s) (hi : i < s.byAge.size) (hj : j < s.byAge.size) :
    Consistent (swapH s i j) := by
  obtain ⟨e1, e2, -, -⟩ := swapH_byAge s i j hi hj
  have fi := hc.fwd i s.byAge[i] (by simp [hi])
  have fj := hc.fwd j s.byAge[j] (by simp [hj])
  obtain ⟨hf, hb, hs⟩ := hc
  constructor
  · intro k r hk
    rw [e1, getElem?_swapIB _ _ _ _ hi hj] at hk
    rw [e2]
    simp only [IdxMap.set]
    grind
  · intro a v hv
    rw [e2] at hv
    simp only [IdxMap.set] at hv
    rw [e1]
    simp only [getElem?_swapIB _ _ _ _ hi hj]
    grind
  · rw [e1, e2]
    simp only [IdxMap.set, Array.size_swapIfInBounds]
    grind

/-- Implementation invariant carried through the generic heap functions: the two structures are
consistent and the ghost fields have the given values. -/
def Inv (c : List Rec) (p : Bool) (s : Inner) : Prop := Consistent s ∧ s.closed = c ∧ s.panicked = p

theorem refines (c : List Rec) (p : Bool) : Refines Rec.lastSeen iface (fun s => s.byAge) (Inv c p) where
  len := fun _ _ => rfl
  less := fun _ _ _ _ _ _ => rfl
  swap_abs := fun s i j _ hi hj => (swapH_byAge s i j hi hj).1
  swap_inv := fun s i j h hi hj => by
    obtain ⟨-, -, e3, e4⟩ := swapH_byAge s i j hi hj
    exact ⟨swapH_consistent s i j h.1 hi hj, e3.trans h.2.1, e4.trans h.2.2⟩

theorem pushH_spec (s : Inner) (r : Rec) (hc : Consistent s) (hn : s.byAddr.get r.addr = none) :
    (pushH s r).byAge = s.byAge.push r ∧ Consistent (pushH s r)
    ∧ (pushH s r).closed = s.closed ∧ (pushH s r).panicked = s.panicked := by
  unfold pushH
  simp only [hn, Option.isSome_none, Bool.false_eq_true, if_false]
  refine ⟨trivial, ?_, trivial, trivial⟩
  obtain ⟨hf, hb, hs⟩ := hc
  constructor
  · intro k x hk
    simp only [Array.getElem?_push] at hk
    simp only [IdxMap.set]
    grind
  · intro a v hv
    simp only [IdxMap.set] at hv
    simp only [Array.getElem?_push]
    grind
  · simp only [IdxMap.set, hn, Array.size_push]
    simp [hs]

theorem popH_spec (s : Inner) (hc : Consistent s) (hne : 0 < s.byAge.size) :
    (popH s).1.byAge = s.byAge.pop ∧ (popH s).2 = s.byAge.back? ∧ Consistent (popH s).1
    ∧ (popH s).1.closed = s.closed ++ s.byAge.back?.toList ∧ (popH s).1.panicked = s.panicked := by
  unfold popH
  have hsz := hc.size
  have hb : s.byAge[s.byAge.size - 1]? = some s.byAge[s.byAge.size - 1] := by
    simp
  simp only [hsz, hb]
  have hback : s.byAge.back? = some s.byAge[s.byAge.size - 1] := by
    rw [Array.back?_eq_getElem?]; exact hb
  refine ⟨Array.extract_eq_pop rfl, hback.symm, ?_, by simp [hback], trivial⟩
  have fl := hc.fwd _ _ hb
  obtain ⟨hf, hbw, hs⟩ := hc
  constructor
  · intro k x hk
    simp only [Array.extract_eq_pop, Array.getElem?_pop] at hk
    simp only [IdxMap.erase]
    grind
  · intro a v hv
    simp only [IdxMap.erase] at hv
    simp only [Array.extract_eq_pop, Array.getElem?_pop]
    grind
  · simp only [IdxMap.erase, fl, Array.extract_eq_pop, Array.size_pop]
    simp [hs]


/-- What every reachable state satisfies. -/
structure Good (s : Inner) : Prop where
  cons : Consistent s
  heap : IsHeap Rec.lastSeen s.byAge
  nopanic : s.panicked = false

theorem good_empty : Good empty := by
  refine ⟨⟨?_, ?_, rfl⟩, ?_, rfl⟩
  · intro i r h; simp [empty] at h
  · intro a i h; simp [empty, IdxMap.empty] at h
  · intro c _ hc; simp [empty] at hc

/-- `SendQueue` on an address that is present: refresh + `heap.Fix`. -/
theorem sendQueue_existing (s : Inner) (a : Nat) (t : Int) (g : Good s) (i : Nat) (r : Rec)
    (hget : s.byAddr.get a = some i) (hr : s.byAge[i]? = some r) :
    Good (sendQueue s a t) ∧ (sendQueue s a t).closed = s.closed
    ∧ (sendQueue s a t).byAge.Perm (s.byAge.setIfInBounds i { r with lastSeen := t }) := by
  have hi : i < s.byAge.size := by
    rcases Nat.lt_or_ge i s.byAge.size with h | h
    · exact h
    · rw [Array.getElem?_eq_none h] at hr; cases hr
  unfold sendQueue
  simp only [hget, hr]
  let s1 : Inner := { s with byAge := s.byAge.setIfInBounds i { r with lastSeen := t } }
  have hc1 : Consistent s1 := by
    obtain ⟨hf, hb, hs⟩ := g.cons
    constructor
    · intro k x hk
      simp only [s1, Array.getElem?_setIfInBounds] at hk
      show s.byAddr.get x.addr = some k
      grind
    · intro a' v hv
      simp only [s1, Array.getElem?_setIfInBounds]
      have := hb a' v hv
      grind
    · simp [s1, hs]
  have hinv : Inv s.closed false s1 := ⟨hc1, rfl, g.nopanic⟩
  have hi1 : i < s1.byAge.size := by simp [s1, hi]
  have R := fix_refines Rec.lastSeen (refines s.closed false) s1 i hinv hi1
  have e : s1.byAge = s.byAge.set i { r with lastSeen := t } hi := by
    simp [s1, Array.setIfInBounds, hi]
  have F := fix_spec Rec.lastSeen s1.byAge i hi1 (by
    rw [e]; exact fix_pre_of_set Rec.lastSeen s.byAge i _ hi g.heap)
  show Good (fix iface s1 i) ∧ (fix iface s1 i).closed = s.closed ∧ (fix iface s1 i).byAge.Perm _
  refine ⟨⟨R.2.1, ?_, R.2.2.2⟩, R.2.2.1, ?_⟩
  · show IsHeap Rec.lastSeen (fix iface s1 i).byAge
    have := R.1
    rw [this]; exact F.1
  · have := R.1
    rw [this]; exact F.2.2

/-- `SendQueue` on a new address: create + `heap.Push`. -/
theorem sendQueue_new (s : Inner) (a : Nat) (t : Int) (g : Good s) (hget : s.byAddr.get a = none) :
    Good (sendQueue s a t) ∧ (sendQueue s a t).closed = s.closed
    ∧ (sendQueue s a t).byAge.Perm (s.byAge.push { addr := a, lastSeen := t, queue := [] }) := by
  unfold sendQueue
  simp only [hget]
  obtain ⟨p1, p2, p3, p4⟩ := pushH_spec s { addr := a, lastSeen := t, queue := [] } g.cons hget
  have R := push_refines Rec.lastSeen (refines s.closed false) s { addr := a, lastSeen := t, queue := [] } _
    p1 ⟨p2, p3, p4.trans g.nopanic⟩
  have P := push_spec Rec.lastSeen s.byAge { addr := a, lastSeen := t, queue := [] } g.heap
  have e := R.1
  refine ⟨⟨R.2.1, ?_, R.2.2.2⟩, R.2.2.1, ?_⟩
  · rw [e]; exact P.1
  · rw [e]; exact push_perm Rec.lastSeen _ _


/-- `heap.Pop(inner)` on a good, non-empty state removes the root, closes its queue, keeps the rest. -/
theorem pop_good (s : Inner) (g : Good s) (hne : 0 < s.byAge.size) :
    Good (pop iface s).1 ∧ (pop iface s).1.closed = s.closed ++ [s.byAge[0]]
    ∧ (pop iface s).1.byAge.size = s.byAge.size - 1
    ∧ s.byAge.Perm ((pop iface s).1.byAge.push s.byAge[0]) := by
  have R := popPrep_refines Rec.lastSeen (refines s.closed false) s ⟨g.cons, rfl, g.nopanic⟩ hne
  have P := pop_spec Rec.lastSeen s.byAge g.heap hne
  have hpa : pop (arrI Rec.lastSeen) s.byAge
      = ((popPrep (arrI Rec.lastSeen) s.byAge).pop, (popPrep (arrI Rec.lastSeen) s.byAge).back?) := rfl
  rw [hpa] at P
  dsimp only at P
  obtain ⟨P1, P2, P3, P4⟩ := P
  obtain ⟨R1, R2, R3, R4⟩ := R
  have hsz2 : (popPrep iface s).byAge.size = s.byAge.size := by
    rw [R1]
    have := Array.back?_eq_none_iff (xs := popPrep (arrI Rec.lastSeen) s.byAge)
    simp only [Array.size_pop] at P3
    rcases Nat.eq_zero_or_pos (popPrep (arrI Rec.lastSeen) s.byAge).size with h0 | h0
    · have : popPrep (arrI Rec.lastSeen) s.byAge = #[] := Array.size_eq_zero_iff.mp h0
      rw [this] at P1; simp [hne] at P1
    · omega
  obtain ⟨H1, H2, H3, H4, H5⟩ := popH_spec (popPrep iface s) R2 (by omega)
  have hpop : pop iface s = popH (popPrep iface s) := rfl
  rw [hpop]
  have hb : (popPrep iface s).byAge.back? = some s.byAge[0] := by
    rw [R1, P1]; simp [hne]
  refine ⟨⟨H3, ?_, H5.trans R4⟩, ?_, ?_, ?_⟩
  · rw [H1, R1]; exact P2
  · rw [H4, R3, hb]; rfl
  · rw [H1, R1]; exact P3
  · rw [H1, R1]; exact P4

def Expired (now timeout : Int) (r : Rec) : Prop := now - r.lastSeen ≥ timeout

theorem guard_iff (s : Inner) (now timeout : Int) :
    guard s.byAge.size now (keyAt Rec.lastSeen s.byAge 0) timeout = true ↔
      ∃ h : 0 < s.byAge.size, Expired now timeout s.byAge[0] := by
  unfold guard Expired
  simp only [Bool.and_eq_true, decide_eq_true_eq]
  constructor
  · rintro ⟨h1, h2⟩
    exact ⟨h1, by rw [keyAt_lt Rec.lastSeen _ _ h1] at h2; exact h2⟩
  · rintro ⟨h1, h2⟩
    exact ⟨h1, by rw [keyAt_lt Rec.lastSeen _ _ h1]; exact h2⟩

theorem removeExpiredLoop_spec (now timeout : Int) : ∀ (fuel : Nat) (s : Inner),
    s.byAge.size ≤ fuel → Good s →
    Good (removeExpiredLoop now timeout fuel s)
    ∧ ∃ removed : List Rec,
        (removeExpiredLoop now timeout fuel s).closed = s.closed ++ removed
        ∧ s.byAge.toList.Perm ((removeExpiredLoop now timeout fuel s).byAge.toList ++ removed)
        ∧ (∀ r ∈ removed, Expired now timeout r)
        ∧ (∀ r ∈ (removeExpiredLoop now timeout fuel s).byAge, ¬ Expired now timeout r) := by
  intro fuel
  induction fuel with
  | zero =>
    intro s hs g
    refine ⟨g, [], by simp [removeExpiredLoop], by simp [removeExpiredLoop], by simp, ?_⟩
    intro r hr
    have : s.byAge = #[] := Array.size_eq_zero_iff.mp (by omega)
    simp [removeExpiredLoop, this] at hr
  | succ fuel ih =>
    intro s hs g
    simp only [removeExpiredLoop]
    split
    · rename_i hg
      obtain ⟨hne, hexp⟩ := (guard_iff s now timeout).1 hg
      obtain ⟨G, C, S, P⟩ := pop_good s g hne
      obtain ⟨G', removed, C', P', E', N'⟩ := ih (pop iface s).1 (by omega) G
      refine ⟨G', s.byAge[0] :: removed, ?_, ?_, ?_, N'⟩
      · rw [C', C]; simp
      · have p1 : s.byAge.toList.Perm ((pop iface s).1.byAge.toList ++ [s.byAge[0]]) := by
          have := Array.perm_iff_toList_perm.mp P
          simpa using this
        refine p1.trans ?_
        refine (List.Perm.append_right _ P').trans ?_
        rw [List.append_assoc]
        exact List.Perm.append_left _ (List.perm_append_comm)
      · intro r hr
        rcases List.mem_cons.mp hr with h | h
        · rw [h]; exact hexp
        · exact E' r h
    · rename_i hg
      refine ⟨g, [], by simp, by simp, by simp, ?_⟩
      intro r hr hexp
      apply hg
      rw [guard_iff]
      obtain ⟨k, hk, rfl⟩ := Array.mem_iff_getElem.mp hr
      have hne : 0 < s.byAge.size := by omega
      refine ⟨hne, ?_⟩
      have := root_min Rec.lastSeen s.byAge s.byAge.size g.heap k hk
      rw [keyAt_lt Rec.lastSeen _ _ hne, keyAt_lt Rec.lastSeen _ _ hk] at this
      unfold Expired at *
      omega


theorem removeExpired_spec (s : Inner) (now timeout : Int) (g : Good s) :
    Good (removeExpired s now timeout)
    ∧ ∃ removed : List Rec,
        (removeExpired s now timeout).closed = s.closed ++ removed
        ∧ s.byAge.toList.Perm ((removeExpired s now timeout).byAge.toList ++ removed)
        ∧ (∀ r, r ∈ removed ↔ r ∈ s.byAge ∧ Expired now timeout r)
        ∧ (∀ r, r ∈ (removeExpired s now timeout).byAge ↔ r ∈ s.byAge ∧ ¬ Expired now timeout r) := by
  obtain ⟨G, removed, C, P, E, N⟩ := removeExpiredLoop_spec now timeout s.byAge.size s (Nat.le_refl _) g
  refine ⟨G, removed, C, P, ?_, ?_⟩
  · intro r
    constructor
    · intro hr
      exact ⟨by rw [← Array.mem_toList_iff]; exact P.mem_iff.mpr (List.mem_append_right _ hr), E r hr⟩
    · rintro ⟨hr, he⟩
      rw [← Array.mem_toList_iff] at hr
      rcases List.mem_append.mp (P.mem_iff.mp hr) with h | h
      · exact absurd he (N r (Array.mem_toList_iff.mp h))
      · exact h
  · intro r
    constructor
    · intro hr
      exact ⟨by rw [← Array.mem_toList_iff]; exact P.mem_iff.mpr (List.mem_append_left _ (Array.mem_toList_iff.mpr hr)), N r hr⟩
    · rintro ⟨hr, he⟩
      rw [← Array.mem_toList_iff] at hr
      rcases List.mem_append.mp (P.mem_iff.mp hr) with h | h
      · exact Array.mem_toList_iff.mp h
      · exact absurd (E r h) he

/-- Replacing a record by one with the same address and `LastSeen` (i.e. touching only its queue)
keeps the state good. -/
theorem good_setQueue (s : Inner) (i : Nat) (r r' : Rec) (g : Good s) (hr : s.byAge[i]? = some r)
    (ha : r'.addr = r.addr) (hl : r'.lastSeen = r.lastSeen) :
    Good { s with byAge := s.byAge.setIfInBounds i r' } := by
  obtain ⟨⟨hf, hb, hs⟩, hh, hp⟩ := g
  refine ⟨⟨?_, ?_, ?_⟩, ?_, hp⟩
  · intro k x hk
    simp only [Array.getElem?_setIfInBounds] at hk
    show s.byAddr.get x.addr = some k
    grind
  · intro a v hv
    simp only [Array.getElem?_setIfInBounds]
    have := hb a v hv
    grind
  · simp [hs]
  · have hk : ∀ k, keyAt Rec.lastSeen (s.byAge.setIfInBounds i r') k = keyAt Rec.lastSeen s.byAge k := by
      intro k
      unfold keyAt
      simp only [Array.getElem?_setIfInBounds]
      grind
    intro c hc0 hcn
    simp only [Array.size_setIfInBounds] at hcn
    unfold Ok
    rw [hk, hk]
    exact hh c hc0 hcn

theorem offer_good (s : Inner) (a : Nat) (p : Bytes) (g : Good s) :
    Good (offer s a p).1 ∧ (offer s a p).1.closed = s.closed := by
  unfold offer
  split
  · split
    · rename_i r hr
      split
      · exact ⟨good_setQueue s _ r _ g hr rfl rfl, rfl⟩
      · exact ⟨g, rfl⟩
    · exact ⟨g, rfl⟩
  · exact ⟨g, rfl⟩

theorem poll_good (s : Inner) (a : Nat) (g : Good s) :
    Good (poll s a).1 ∧ (poll s a).1.closed = s.closed := by
  unfold poll
  split
  · split
    · rename_i r hr
      split
      · exact ⟨good_setQueue s _ r _ g hr rfl rfl, rfl⟩
      · exact ⟨g, rfl⟩
    · exact ⟨g, rfl⟩
  · exact ⟨g, rfl⟩

theorem sendQueue_good (s : Inner) (a : Nat) (t : Int) (g : Good s) :
    Good (sendQueue s a t) ∧ (sendQueue s a t).closed = s.closed := by
  cases hget : s.byAddr.get a with
  | none => exact ⟨(sendQueue_new s a t g hget).1, (sendQueue_new s a t g hget).2.1⟩
  | some i =>
    obtain ⟨r, hr, -⟩ := g.cons.bwd a i hget
    exact ⟨(sendQueue_existing s a t g i r hget hr).1, (sendQueue_existing s a t g i r hget hr).2.1⟩

theorem apply_good (s : Inner) (op : Op) (g : Good s) : Good (apply s op) := by
  cases op with
  | send a t => exact (sendQueue_good s a t g).1
  | sweep t d => exact (removeExpired_spec s t d g).1
  | write a t p => exact (offer_good _ a p (sendQueue_good s a t g).1).1
  | take a t => exact (poll_good _ a (sendQueue_good s a t g).1).1

theorem foldl_good (ops : List Op) : ∀ s, Good s → Good (ops.foldl apply s) := by
  induction ops with
  | nil => intro s g; exact g
  | cons op ops ih => intro s g; exact ih _ (apply_good s op g)

theorem run_good (ops : List Op) : Good (run ops) := foldl_good ops _ good_empty


/-- `SendQueue(a, t)` keeps every record (queue contents included); the record of `a` itself gets
`LastSeen = t`, all others are untouched. -/
theorem sendQueue_keeps (s : Inner) (a : Nat) (t : Int) (g : Good s) (r : Rec) (hr : r ∈ s.byAge) :
    (if r.addr = a then { r with lastSeen := t } else r) ∈ (sendQueue s a t).byAge := by
  obtain ⟨k, hk, rfl⟩ := Array.mem_iff_getElem.mp hr
  have hfk := g.cons.fwd k s.byAge[k] (by simp [hk])
  cases hget : s.byAddr.get a with
  | none =>
    have hne : s.byAge[k].addr ≠ a := by intro h; rw [h, hget] at hfk; cases hfk
    simp only [hne, if_false]
    have P := (sendQueue_new s a t g hget).2.2
    exact P.mem_iff.mpr (Array.mem_push.mpr (Or.inl (Array.getElem_mem hk)))
  | some i =>
    obtain ⟨ri, hri, hai⟩ := g.cons.bwd a i hget
    have P := (sendQueue_existing s a t g i ri hget hri).2.2
    apply P.mem_iff.mpr
    rw [Array.mem_iff_getElem?]
    refine ⟨k, ?_⟩
    rw [Array.getElem?_setIfInBounds]
    by_cases hik : i = k
    · subst hik
      have : ri = s.byAge[i] := by simpa [hk] using hri.symm
      subst this
      simp [hai, hk]
    · have hne : s.byAge[k].addr ≠ a := by
        intro h; rw [h, hget] at hfk; cases hfk; exact hik rfl
      simp [hik, hne, hk]

/-- After `SendQueue(a, t)` there is a record for `a` with `LastSeen = t`. -/
theorem sendQueue_present (s : Inner) (a : Nat) (t : Int) (g : Good s) :
    ∃ r ∈ (sendQueue s a t).byAge, r.addr = a ∧ r.lastSeen = t := by
  cases hget : s.byAddr.get a with
  | none =>
    have P := (sendQueue_new s a t g hget).2.2
    exact ⟨_, P.mem_iff.mpr (Array.mem_push.mpr (Or.inr rfl)), rfl, rfl⟩
  | some i =>
    obtain ⟨ri, hri, hai⟩ := g.cons.bwd a i hget
    have P := (sendQueue_existing s a t g i ri hget hri).2.2
    refine ⟨{ ri with lastSeen := t }, P.mem_iff.mpr ?_, hai, rfl⟩
    rw [Array.mem_iff_getElem?]
    refine ⟨i, ?_⟩
    have hi : i < s.byAge.size := by
      rcases Nat.lt_or_ge i s.byAge.size with h | h
      · exact h
      · rw [Array.getElem?_eq_none h] at hri; cases hri
    simp [hi]

end Snowflake.ClientMap
