import Snowflake.Model.ProxySlots
/-!
Invariants of the proxy slot LTS (`Model/ProxySlots.lean`) for the repaired skeleton (`fixed = true`).
-/
namespace Snowflake.ProxySlots
open Snowflake.TotalMap

theorem load_dvd (c : Int) : (8 : Int) ∣ load c := by
  unfold load; exact Int.dvd_mul_left _ _
theorem load_le (c : Int) (h : 0 ≤ c) : load c ≤ c := by
  unfold load
  rw [Int.tdiv_eq_ediv_of_nonneg h]
  omega
theorem load_nat (n : Nat) : load (n : Int) = (loadNat n : Int) := by
  unfold load loadNat
  rw [Int.tdiv_eq_ediv_of_nonneg (by omega)]
  simp

/-- stages at which the `OnDataChannel` callback is installed -/
def Stage.hasPC : Stage → Bool
  | .poll => false | .parseURL => false | .checkRelay => false | .makePC => true | .sendAnswer => true

def LPC.late : LPC → Bool
  | .absent => false | .acquiring => false | .stage k => k.hasPC | .waiting => true
  | .exiting e => e.guarded | .inRet => false | .returned => true

def LPC.early : LPC → Bool
  | .absent => true | .acquiring => true | .stage k => !k.hasPC | .waiting => false
  | .exiting e => !e.guarded | .inRet => false | .returned => true

/-- 1 while the poll loop is blocked inside `tokens.get()` (counter incremented, no slot yet) -/
def acqOf (s : St) : Nat :=
  match s.cur with
  | some i => if (s.ss i).lp = .acquiring then 1 else 0
  | none => 0

structure Inv (N : Nat) (s : St) : Prop where
  unarmedOnce : ∀ i, (s.ss i).cb = .unarmed → (s.ss i).once = false
  unarmedH : ∀ i, (s.ss i).cb = .unarmed → (s.ss i).h = .none
  unarmedRets : ∀ i, (s.ss i).cb = .unarmed → (s.ss i).rets = (if (s.ss i).lp = .returned then 1 else 0)
  armedRets : ∀ i, (s.ss i).cb ≠ .unarmed → (s.ss i).rets = (if (s.ss i).once then 1 else 0)
  armedLp : ∀ i, (s.ss i).cb ≠ .unarmed → (s.ss i).lp.late = true
  earlyLp : ∀ i, (s.ss i).cb = .unarmed → (s.ss i).lp.early = true
  hFired : ∀ i, (s.ss i).h ≠ .none → (s.ss i).cb = .fired
  firedH : ∀ i, (s.ss i).cb = .fired → (s.ss i).h ≠ .none
  hDone : ∀ i, (s.ss i).h = .done → (s.ss i).once = true
  noInRetL : ∀ i, (s.ss i).lp ≠ .inRet
  noInRetH : ∀ i, (s.ss i).h ≠ .inRet
  retNoOnce : ∀ i, (s.ss i).lp = .returned → (s.ss i).cb ≠ .unarmed → (s.ss i).once = false →
      (s.ss i).cb = .fired ∧ ((s.ss i).h = .running ∨ (s.ss i).h = .exiting)
  heldIff : ∀ i, i ∈ s.held ↔ ((s.ss i).lp ≠ .absent ∧ (s.ss i).lp ≠ .acquiring ∧ (s.ss i).rets = 0)
  nodup : s.held.Nodup
  chan0 : N = 0 → s.chLen = 0
  chanN : N ≠ 0 → s.chLen = s.held.length
  cap : N ≠ 0 → s.chLen ≤ N
  clients : s.clients = (s.held.length : Int) + (acqOf s : Int)
  curOf : ∀ i, (s.ss i).lp ≠ .absent → (s.ss i).lp ≠ .returned → s.cur = some i
  polls : ∀ x ∈ s.polls, (8 : Int) ∣ x.1 ∧ x.1 ≤ (x.2 : Int)

theorem inv_init (N : Nat) : Inv N init := by
  constructor <;> simp [init, Sess.init, LPC.late, LPC.early, acqOf]



theorem doRet_eq (N : Nat) (s : St) (i : Nat) (h : N = 0 ∨ s.chLen > 0) :
    doRet N s i = ({ s with clients := s.clients - 1, ss := upd s.ss i { (s.ss i) with rets := (s.ss i).rets + 1 },
                            held := s.held.erase i, chLen := if N = 0 then s.chLen else s.chLen - 1 }, false) := by
  unfold doRet
  rcases h with h | h
  · simp [h]
  · by_cases hN : N = 0
    · simp [hN]
    · simp [hN, h]

theorem inv_lRelease (N : Nat) (s s' : St) (i : Nat) (hi : Inv N s)
    (hs : step true N s (.lRelease i) = some s') : Inv N s' := by
  obtain ⟨h1, h2, h3, h4, h5, h6, h7, h8, h9, h10, h11, h12, h13, h14, h15, h16, h17, h18, h19, h20⟩ := hi
  simp only [step] at hs
  split at hs
  · rename_i e he
    have hrets : (s.ss i).once = false → (s.ss i).rets = 0 := by
      intro ho
      by_cases hc : (s.ss i).cb = .unarmed
      · have := h3 i hc; simp [he] at this; exact this
      · have := h4 i hc; simp [ho] at this; exact this
    split at hs
    · -- once already consumed: nothing to release
      cases hs
      constructor <;> (try simp only []) <;> intros <;>
      grind [upd, LPC.late, LPC.early, Stage.hasPC, acqOf, Exit.guarded, cases Stage, cases Exit]
    · rename_i hcond
      have hof : (s.ss i).once = false := by
        by_cases hg : e.guarded = true
        · cases ho : (s.ss i).once with
          | false => rfl
          | true => exact absurd ⟨trivial, hg, ho⟩ hcond
        · have hc : (s.ss i).cb = .unarmed := by
            by_cases hc : (s.ss i).cb = .unarmed
            · exact hc
            · have := h5 i hc; simp [he, LPC.late] at this; exact absurd this hg
          exact h1 i hc
      have hr0 := hrets hof
      have hmem : i ∈ s.held := (h13 i).2 ⟨by simp [he], by simp [he], hr0⟩
      have hpos : N = 0 ∨ s.chLen > 0 := by
        by_cases hN : N = 0
        · exact Or.inl hN
        · right; rw [h16 hN]; exact List.length_pos_of_mem hmem
      have e1 : ∀ j, j ∈ s.held.erase i ↔ j ≠ i ∧ j ∈ s.held := fun j => h14.mem_erase_iff
      have e2 : (s.held.erase i).Nodup := h14.erase i
      have e3 : (s.held.erase i).length = s.held.length - 1 := List.length_erase_of_mem hmem
      have e4 : 0 < s.held.length := List.length_pos_of_mem hmem
      by_cases hg : e.guarded = true
      · simp only [hg, and_self, if_true] at hs
        rw [doRet_eq N _ i (by simpa using hpos)] at hs
        simp only [Bool.false_eq_true, if_false, Option.some.injEq] at hs
        subst hs
        constructor <;> (try simp only []) <;> intros <;>
        grind [upd, LPC.late, LPC.early, Stage.hasPC, acqOf, Exit.guarded, cases Stage, cases Exit]
      · have hg' : e.guarded = false := by cases h : e.guarded <;> simp_all
        simp only [hg', Bool.false_eq_true, and_false, if_false] at hs
        rw [doRet_eq N _ i hpos] at hs
        simp only [Bool.false_eq_true, if_false, Option.some.injEq] at hs
        subst hs
        constructor <;> (try simp only []) <;> intros <;>
        grind [upd, LPC.late, LPC.early, Stage.hasPC, acqOf, Exit.guarded, cases Stage, cases Exit]
  · cases hs


syntax "slots_auto " ident ident : tactic
set_option hygiene false in
macro_rules
  | `(tactic| slots_auto $hi $hs) => `(tactic| (
      obtain ⟨h1, h2, h3, h4, h5, h6, h7, h8, h9, h10, h11, h12, h13, h14, h15, h16, h17, h18, h19, h20⟩ := $hi
      have hl1 := load_dvd s.clients
      have hl2 := load_le s.clients
      simp only [step] at $hs:ident
      (repeat' split at $hs:ident) <;> (try cases $hs:ident) <;>
      constructor <;> (try simp only []) <;> intros <;>
      grind [upd, LPC.late, LPC.early, Stage.hasPC, acqOf, Exit.guarded, Stage.next, cases Stage, cases Exit, cases HPC]))

theorem inv_lStart (N : Nat) (s s' : St) (i : Nat) (hi : Inv N s)
    (hs : step true N s (.lStart i) = some s') : Inv N s' := by
  slots_auto hi hs

theorem inv_lAcquire (N : Nat) (s s' : St) (i : Nat) (hi : Inv N s)
    (hs : step true N s (.lAcquire i) = some s') : Inv N s' := by
  slots_auto hi hs

theorem inv_lPoll (N : Nat) (s s' : St) (i : Nat) (hi : Inv N s)
    (hs : step true N s (.lPoll i) = some s') : Inv N s' := by
  slots_auto hi hs

theorem inv_lOk (N : Nat) (s s' : St) (i : Nat) (hi : Inv N s)
    (hs : step true N s (.lOk i) = some s') : Inv N s' := by
  slots_auto hi hs

theorem inv_lFail (N : Nat) (s s' : St) (i : Nat) (hi : Inv N s)
    (hs : step true N s (.lFail i) = some s') : Inv N s' := by
  slots_auto hi hs

theorem inv_lData (N : Nat) (s s' : St) (i : Nat) (hi : Inv N s)
    (hs : step true N s (.lData i) = some s') : Inv N s' := by
  have hH : (s.ss i).cb = .fired → (s.ss i).once = false → (s.ss i).h = .running ∨ (s.ss i).h = .exiting := by
    intro hc ho
    have a := hi.firedH i hc
    have b := hi.noInRetH i
    have c := hi.hDone i
    cases hh : (s.ss i).h <;> simp_all
  slots_auto hi hs

theorem inv_lTimeout (N : Nat) (s s' : St) (i : Nat) (hi : Inv N s)
    (hs : step true N s (.lTimeout i) = some s') : Inv N s' := by
  slots_auto hi hs

theorem inv_lRetRecv (N : Nat) (s s' : St) (i : Nat) (hi : Inv N s)
    (hs : step true N s (.lRetRecv i) = some s') : Inv N s' := by
  slots_auto hi hs

theorem inv_cbFire (N : Nat) (s s' : St) (i : Nat) (hi : Inv N s)
    (hs : step true N s (.cbFire i) = some s') : Inv N s' := by
  slots_auto hi hs

theorem inv_cbDead (N : Nat) (s s' : St) (i : Nat) (hi : Inv N s)
    (hs : step true N s (.cbDead i) = some s') : Inv N s' := by
  slots_auto hi hs

theorem inv_hEnd (N : Nat) (s s' : St) (i : Nat) (hi : Inv N s)
    (hs : step true N s (.hEnd i) = some s') : Inv N s' := by
  slots_auto hi hs

theorem inv_hRetRecv (N : Nat) (s s' : St) (i : Nat) (hi : Inv N s)
    (hs : step true N s (.hRetRecv i) = some s') : Inv N s' := by
  slots_auto hi hs

theorem inv_hRelease (N : Nat) (s s' : St) (i : Nat) (hi : Inv N s)
    (hs : step true N s (.hRelease i) = some s') : Inv N s' := by
  obtain ⟨h1, h2, h3, h4, h5, h6, h7, h8, h9, h10, h11, h12, h13, h14, h15, h16, h17, h18, h19, h20⟩ := hi
  simp only [step] at hs
  split at hs
  · rename_i hh
    have hcb : (s.ss i).cb = .fired := h7 i (by simp [hh])
    split at hs
    · cases hs
      constructor <;> (try simp only []) <;> intros <;>
      grind [upd, LPC.late, LPC.early, Stage.hasPC, acqOf, Exit.guarded, cases Stage, cases Exit]
    · rename_i hcond
      have hof : (s.ss i).once = false := by
        cases ho : (s.ss i).once with
        | false => rfl
        | true => exact absurd ⟨trivial, ho⟩ hcond
      have hr0 : (s.ss i).rets = 0 := by
        have := h4 i (by simp [hcb]); simp [hof] at this; exact this
      have hlate := h5 i (by simp [hcb])
      have hmem : i ∈ s.held := (h13 i).2 ⟨by intro h; simp [h, LPC.late] at hlate, by intro h; simp [h, LPC.late] at hlate, hr0⟩
      have hpos : N = 0 ∨ s.chLen > 0 := by
        by_cases hN : N = 0
        · exact Or.inl hN
        · right; rw [h16 hN]; exact List.length_pos_of_mem hmem
      have e1 : ∀ j, j ∈ s.held.erase i ↔ j ≠ i ∧ j ∈ s.held := fun j => h14.mem_erase_iff
      have e2 : (s.held.erase i).Nodup := h14.erase i
      have e3 : (s.held.erase i).length = s.held.length - 1 := List.length_erase_of_mem hmem
      have e4 : 0 < s.held.length := List.length_pos_of_mem hmem
      simp only [if_true] at hs
      rw [doRet_eq N _ i (by simpa using hpos)] at hs
      simp only [Bool.false_eq_true, if_false, Option.some.injEq] at hs
      subst hs
      constructor <;> (try simp only []) <;> intros <;>
      grind [upd, LPC.late, LPC.early, Stage.hasPC, acqOf, Exit.guarded, cases Stage, cases Exit]
  · cases hs

theorem inv_step (N : Nat) (s s' : St) (l : Lab) (hi : Inv N s) (hs : step true N s l = some s') : Inv N s' := by
  cases l with
  | lStart i => exact inv_lStart N s s' i hi hs
  | lAcquire i => exact inv_lAcquire N s s' i hi hs
  | lPoll i => exact inv_lPoll N s s' i hi hs
  | lOk i => exact inv_lOk N s s' i hi hs
  | lFail i => exact inv_lFail N s s' i hi hs
  | lData i => exact inv_lData N s s' i hi hs
  | lTimeout i => exact inv_lTimeout N s s' i hi hs
  | lRelease i => exact inv_lRelease N s s' i hi hs
  | lRetRecv i => exact inv_lRetRecv N s s' i hi hs
  | cbFire i => exact inv_cbFire N s s' i hi hs
  | cbDead i => exact inv_cbDead N s s' i hi hs
  | hEnd i => exact inv_hEnd N s s' i hi hs
  | hRelease i => exact inv_hRelease N s s' i hi hs
  | hRetRecv i => exact inv_hRetRecv N s s' i hi hs

theorem inv_reachable {N : Nat} {s : St} (h : Reachable true N s) : Inv N s :=
  Reach.inv (Inv N) (inv_init N) (fun s l s' hi hs => inv_step N s s' l hi hs) h

end Snowflake.ProxySlots
