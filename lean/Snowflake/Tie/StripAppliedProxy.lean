import Snowflake.Generated.Util
import Snowflake.Model.Util
import Snowflake.Base.SkelFlow
/-!
Tie obligation for the last clause of C08 ("applied before the answer leaves the process"), proxy side:
`(*SignalingServer).sendAnswer` (proxy/lib/snowflake.go) still applies `util.StripLocalAddresses`, under exactly
the negated `keepLocalAddresses` flag, to the one description it serialises into the request — the
model's `Util.leaves`, about which `Props/C08.lean` proves `sent_description_spec`.

The statement list is regenerated with **every** call, composite literal, assignment, condition and
returned expression (`calls: "."`, `assigns: "."`), together with the identifiers that occur in each
statement (`…_ids`) and the signature.  The obligations are data-flow facts: *all* statements that
mention the description variable, the flag, the serialised string, the encoded request and the
transport are listed, so any additional use — a copy of the original kept aside, a second path to
`Serialize` / `Encode` / `Post`, a further condition on the reassignment, another assignment —
changes one of the lists and the obligation fails.

One module per sender (and apart from `Tie/Util.lean`), so that a change to one function does not take
the other ties of C08 down with it.
-/
namespace Snowflake.Tie.StripAppliedProxy
open Snowflake.Skel

open Snowflake.Gen.Util
private abbrev S := stmts_sendAnswer
private abbrev Sw := linesWith stmts_sendAnswer stmts_sendAnswer_ids

/-- **`sendAnswer` sends `leaves keepLocalAddresses pc.LocalDescription()`** (1/2).  `s` is the
receiver and `pc` a parameter; `ld` is the peer connection's local description (the only use of `pc`),
reassigned under exactly `if !s.keepLocalAddresses` (top level, no `else`, the only mention of the
flag) to the literal with the same `Type` and `SDP: util.StripLocalAddresses(ld.SDP)`; every statement
that mentions `ld` is listed: its definition, that body, and the one call
`util.SerializeSessionDescription(ld)` whose result is `answer`. -/
theorem sendAnswer_strips_under_flag :
    stmts_sendAnswer_ids.length = S.length
    ∧ stmts_sendAnswer_sig = "func (s *SignalingServer) sendAnswer(sid string, pc *webrtc.PeerConnection) error"
    ∧ Sw "keepLocalAddresses" = ["if !s.keepLocalAddresses{"]
    ∧ stacksOf S (· == "if !s.keepLocalAddresses{") = [[]]
    ∧ blockOf S (· == "if !s.keepLocalAddresses{") = some [
        "lit webrtc.SessionDescription{ Type: ld.Type, SDP: util.StripLocalAddresses(ld.SDP), }",
        "call util.StripLocalAddresses(ld.SDP)",
        "assign ld = &webrtc.SessionDescription{ Type: ld.Type, SDP: util.StripLocalAddresses(ld.SDP), }"]
    ∧ closer S (· == "if !s.keepLocalAddresses{") = some "}"
    ∧ Sw "pc" = ["call pc.LocalDescription()", "assign ld := pc.LocalDescription()"]
    ∧ Sw "LocalDescription" = Sw "pc"
    ∧ Sw "ld" = [
        "assign ld := pc.LocalDescription()",
        "lit webrtc.SessionDescription{ Type: ld.Type, SDP: util.StripLocalAddresses(ld.SDP), }",
        "call util.StripLocalAddresses(ld.SDP)",
        "assign ld = &webrtc.SessionDescription{ Type: ld.Type, SDP: util.StripLocalAddresses(ld.SDP), }",
        "call util.SerializeSessionDescription(ld)",
        "assign answer, err := util.SerializeSessionDescription(ld)"]
    ∧ Sw "StripLocalAddresses" = [
        "lit webrtc.SessionDescription{ Type: ld.Type, SDP: util.StripLocalAddresses(ld.SDP), }",
        "call util.StripLocalAddresses(ld.SDP)",
        "assign ld = &webrtc.SessionDescription{ Type: ld.Type, SDP: util.StripLocalAddresses(ld.SDP), }"] := by
  decide +kernel

/-- **`sendAnswer` sends `leaves keepLocalAddresses pc.LocalDescription()`** (2/2).  `answer` only
goes into `messages.EncodeAnswerRequest(answer, sid)`, whose result `body` only goes into the one
`s.Post`; local description, serialise, encode and post are top-level statements in this order
around the guard; nothing runs in a goroutine, deferred or in a function literal. -/
theorem sendAnswer_sends_serialised :
    Sw "SerializeSessionDescription" = [
        "call util.SerializeSessionDescription(ld)",
        "assign answer, err := util.SerializeSessionDescription(ld)"]
    ∧ Sw "answer" = [
        "assign answer, err := util.SerializeSessionDescription(ld)",
        "call messages.EncodeAnswerRequest(answer, sid)",
        "assign body, err := messages.EncodeAnswerRequest(answer, sid)"]
    ∧ Sw "body" = [
        "assign body, err := messages.EncodeAnswerRequest(answer, sid)",
        "call s.Post(brokerPath.String(), bytes.NewBuffer(body))",
        "call bytes.NewBuffer(body)",
        "assign resp, err := s.Post(brokerPath.String(), bytes.NewBuffer(body))"]
    ∧ Sw "Post" = [
        "call s.Post(brokerPath.String(), bytes.NewBuffer(body))",
        "assign resp, err := s.Post(brokerPath.String(), bytes.NewBuffer(body))"]
    ∧ Sw "transport" = [] ∧ Sw "RoundTrip" = [] ∧ Sw "http" = []
    ∧ stacksOf S (· == "call pc.LocalDescription()") = [[]]
    ∧ stacksOf S (· == "call util.SerializeSessionDescription(ld)") = [[]]
    ∧ stacksOf S (· == "call messages.EncodeAnswerRequest(answer, sid)") = [[]]
    ∧ stacksOf S (· == "call s.Post(brokerPath.String(), bytes.NewBuffer(body))") = [[]]
    ∧ before S (· == "call pc.LocalDescription()") (· == "if !s.keepLocalAddresses{") = true
    ∧ before S (· == "if !s.keepLocalAddresses{") (· == "call util.SerializeSessionDescription(ld)") = true
    ∧ before S (· == "call util.SerializeSessionDescription(ld)") (· == "call messages.EncodeAnswerRequest(answer, sid)") = true
    ∧ before S (· == "call messages.EncodeAnswerRequest(answer, sid)") (· == "call s.Post(brokerPath.String(), bytes.NewBuffer(body))") = true
    ∧ has S detached = false := by
  decide +kernel


end Snowflake.Tie.StripAppliedProxy
