import Snowflake.Generated.AmpPath
import Snowflake.Model.AmpPath
import Snowflake.Base.Skel
/-!
Tie obligations for C11: constants and the statement order (regenerated skeletons) of `common/amp/path.go`,
`cache.go`, `broker/amp.go`, `broker/http.go clientOffers`, `client/lib/rendezvous_http.go`,
`rendezvous_ampcache.go` and `BrokerChannel.Negotiate` are the ones the model was written against.
-/
namespace Snowflake.Tie.AmpPath
open Snowflake.AmpPath Snowflake.Skel

theorem clientReadLimit_tie : Gen.AmpPath.clientReadLimit = (clientReadLimit : Int) := by decide
theorem brokerReadLimit_tie : Gen.AmpPath.brokerReadLimit = (brokerReadLimit : Int) := by decide

/-- `EncodePath` encodes a random cache breaker and the data with the same `b64` helper;
`DecodePath` looks for the *last* slash (not the first) and decodes what follows with the raw URL
alphabet; the three error returns precede resp. surround it as in the model. -/
theorem path_shape :
    count Gen.AmpPath.skel_EncodePath (pre "call b64(") = 2
    ∧ before Gen.AmpPath.skel_EncodePath (pre "call rand.Read(cacheBreaker[:])") (pre "call b64(cacheBreaker[:])") = true
    ∧ count Gen.AmpPath.skel_DecodePath (pre "call strings.LastIndexByte(rest, '/')") = 1
    ∧ count Gen.AmpPath.skel_DecodePath (pre "call strings.IndexByte(") = 0
    ∧ (blockOf Gen.AmpPath.skel_DecodePath (pre "if len(path) < 1{")).map (fun b => b.getLast? == some "return") = some true
    ∧ before Gen.AmpPath.skel_DecodePath (pre "case '0':") (pre "call strings.LastIndexByte(rest, '/')") = true
    ∧ (blockOf Gen.AmpPath.skel_DecodePath (pre "if i == -1{")).map (fun b => b.getLast? == some "return") = some true
    ∧ before Gen.AmpPath.skel_DecodePath (pre "if i == -1{") (pre "call base64.RawURLEncoding.DecodeString(rest[i+1:])") = true
    ∧ before Gen.AmpPath.skel_DecodePath (pre "call base64.RawURLEncoding.DecodeString(rest[i+1:])") (pre "case default:") = true := by
  decide +kernel

/-- `ampClientOffers`: the routing prefix is trimmed; `DecodePath` is called once; `i.ClientOffers` is
called exactly once, only in the branch where decoding succeeded, the fixed error response is built in
the other branch; an error after that gives status 500 and returns; otherwise status 200 and the
response goes — once — through a new armor encoder that is closed on return. -/
theorem ampClientOffers_shape :
    before Gen.AmpPath.skel_ampClientOffers (pre "call strings.TrimPrefix(r.URL.Path, \"/amp/client/\")") (pre "call amp.DecodePath(path)") = true
    ∧ count Gen.AmpPath.skel_ampClientOffers (pre "call amp.DecodePath(") = 1
    ∧ count Gen.AmpPath.skel_ampClientOffers (pre "call i.ClientOffers(") = 1
    ∧ blockOf Gen.AmpPath.skel_ampClientOffers (pre "if err == nil{") = some ["call i.ClientOffers(arg, &response)"]
    ∧ before Gen.AmpPath.skel_ampClientOffers (pre "call amp.DecodePath(path)") (pre "if err == nil{") = true
    ∧ before Gen.AmpPath.skel_ampClientOffers (pre "}else{") (pre "call (&messages.ClientPollResponse{ Error: \"cannot decode URL path\"") = true
    ∧ count Gen.AmpPath.skel_ampClientOffers (pre "}else{") = 1
    ∧ before Gen.AmpPath.skel_ampClientOffers (pre "call i.ClientOffers(") (pre "call w.WriteHeader(http.StatusOK)") = true
    ∧ before Gen.AmpPath.skel_ampClientOffers (pre "call w.WriteHeader(http.StatusOK)") (pre "call amp.NewArmorEncoder(w)") = true
    ∧ before Gen.AmpPath.skel_ampClientOffers (pre "call amp.NewArmorEncoder(w)") (pre "defer enc.Close()") = true
    ∧ before Gen.AmpPath.skel_ampClientOffers (pre "defer enc.Close()") (pre "call enc.Write(response)") = true
    ∧ count Gen.AmpPath.skel_ampClientOffers (pre "call enc.Write(") = 1
    ∧ ((Gen.AmpPath.skel_ampClientOffers.drop ((idx Gen.AmpPath.skel_ampClientOffers (pre "call amp.DecodePath(")).getD 0)).filter (pre "call w.WriteHeader("))
        = ["call w.WriteHeader(http.StatusInternalServerError)", "call w.WriteHeader(http.StatusOK)"] := by
  decide +kernel

/-- POST `clientOffers`: the body is read through `MaxBytesReader(…, readLimit)` (failure: 400); the
legacy shim is guarded by a leading `{`; `i.ClientOffers` is called exactly once; its error gives 500. -/
theorem clientOffers_shape :
    before Gen.AmpPath.skel_clientOffers (pre "call http.MaxBytesReader(w, r.Body, readLimit)") (pre "call i.ClientOffers(") = true
    ∧ count Gen.AmpPath.skel_clientOffers (pre "call i.ClientOffers(") = 1
    ∧ before Gen.AmpPath.skel_clientOffers (pre "if len(body) > 0 && body[0] == '{'{") (pre "call i.ClientOffers(") = true
    ∧ before Gen.AmpPath.skel_clientOffers (pre "call i.ClientOffers(") (pre "call w.Write(response)") = true
    ∧ Gen.AmpPath.skel_clientOffers.getLast? = some "call w.Write(response)" := by decide +kernel

/-- `CacheURL`: the guards in the model's order, each returning; `domainPrefix`: basic result only when
it is at most 63 bytes long, else the fallback; `domainPrefixBasic`: the four steps in order. -/
theorem cacheURL_shape :
    (Gen.AmpPath.skel_CacheURL.filter (pre "if ")).take 9 =
      ["if cacheURL.Port() != \"\"{", "if contentType == \"\"{", "if pubURL.User != nil{", "if port != \"\"{",
       "if !((pubURL.Scheme == \"http\" && port == \"80\") || (pubURL.Scheme == \"https\" && port == \"443\")){",
       "if pubURL.Hostname() == \"\"{", "if err != nil{", "if cacheURL.RawQuery != \"\"{", "if cacheURL.Fragment != \"\"{"]
    ∧ before Gen.AmpPath.skel_CacheURL (pre "if contentType == \"\"{") (pre "switch pubURL.Scheme{") = true
    ∧ before Gen.AmpPath.skel_CacheURL (pre "switch pubURL.Scheme{") (pre "if pubURL.User != nil{") = true
    ∧ before Gen.AmpPath.skel_CacheURL (pre "call url.PathEscape(pubURL.Hostname())") (pre "call path.Join(pathComponents)") = true
    ∧ count Gen.AmpPath.skel_CacheURL (pre "call fmt.Errorf(") = 7
    ∧ Gen.AmpPath.skel_domainPrefix =
        ["call domainPrefixBasic(domain)", "if err == nil && len(prefix) <= 63{", "return", "}",
         "call domainPrefixFallback(domain)", "return"]
    ∧ (Gen.AmpPath.skel_domainPrefixBasic.filter (pre "call ")) =
        ["call idna.ToUnicode(domain)", "call strings.Replace(prefix, \"-\", \"--\", -1)",
         "call strings.Replace(prefix, \".\", \"-\", -1)", "call idna.ToASCII(prefix)"] := by
  decide +kernel

/-- Both `Exchange` methods: with a front the original URL host goes to `req.Host` *before* the URL
host is replaced by the front; the status check (returning an error) precedes any read of the body;
HTTP reads through `limitedRead(resp.Body, readLimit)`, AMP through `io.LimitReader(resp.Body,
readLimit + 1)` into the armor decoder and checks `N == 0` afterwards. -/
theorem exchange_shape :
    (blockOf Gen.AmpPath.skel_httpExchange (pre "if r.front != \"\"{")).map
        (fun b => b == ["assign req.Host = req.URL.Host", "assign req.URL.Host = r.front"]) = some true
    ∧ (blockOf Gen.AmpPath.skel_ampExchange (pre "if r.front != \"\"{")).map
        (fun b => b == ["assign req.Host = req.URL.Host", "assign req.URL.Host = r.front"]) = some true
    ∧ before Gen.AmpPath.skel_httpExchange (pre "if r.front != \"\"{") (pre "call r.transport.RoundTrip(req)") = true
    ∧ before Gen.AmpPath.skel_ampExchange (pre "if r.front != \"\"{") (pre "call r.transport.RoundTrip(req)") = true
    ∧ (blockOf Gen.AmpPath.skel_httpExchange (pre "if resp.StatusCode != http.StatusOK{")).map
        (fun b => b == ["call errors.New(brokerErrorUnexpected)", "return"]) = some true
    ∧ before Gen.AmpPath.skel_httpExchange (pre "if resp.StatusCode != http.StatusOK{") (pre "call limitedRead(resp.Body, readLimit)") = true
    ∧ (blockOf Gen.AmpPath.skel_ampExchange (pre "if resp.StatusCode != http.StatusOK{")).map
        (fun b => b == ["call errors.New(brokerErrorUnexpected)", "return"]) = some true
    ∧ before Gen.AmpPath.skel_ampExchange (pre "if resp.StatusCode != http.StatusOK{") (pre "call resp.Location()") = true
    ∧ before Gen.AmpPath.skel_ampExchange (pre "call resp.Location()") (pre "call io.LimitReader(resp.Body, readLimit + 1)") = true
    ∧ before Gen.AmpPath.skel_ampExchange (pre "call io.LimitReader(resp.Body, readLimit + 1)") (pre "call amp.NewArmorDecoder(lr)") = true
    ∧ before Gen.AmpPath.skel_ampExchange (pre "call ioutil.ReadAll(dec)") (pre "if lr.(*io.LimitedReader).N == 0{") = true
    ∧ before Gen.AmpPath.skel_ampExchange (pre "call amp.EncodePath(encPollReq)") (pre "call amp.CacheURL(reqURL, r.cacheURL, \"c\")") = true
    ∧ Gen.AmpPath.skel_limitedRead =
        ["call ioutil.ReadAll(&io.LimitedReader{R: r, N: limit + 1})", "if err != nil{", "return", "}else{",
         "if int64(len(p)) == limit+1{", "return", "}", "}", "return"] := by
  decide +kernel

/-- `Negotiate` returns at once when `Exchange` reports an error: the returned bytes are decoded only
on the error-free path (so truncated data handed back with `ErrUnexpectedEOF` is never used). -/
theorem negotiate_drops_data_on_error :
    count Gen.AmpPath.skel_Negotiate (pre "call bc.Rendezvous.Exchange(") = 1
    ∧ ((Gen.AmpPath.skel_Negotiate.drop ((idx Gen.AmpPath.skel_Negotiate (pre "call bc.Rendezvous.Exchange(")).getD 0)).take 5)
        = ["call bc.Rendezvous.Exchange(encReq)", "if err != nil{", "return", "}", "call messages.DecodeClientPollResponse(encResp)"] := by
  decide +kernel

end Snowflake.Tie.AmpPath
