import Snowflake.Generated.ServerHttp
import Snowflake.Model.Server
/-!
Tie obligations for the server carrier-layer model (C05, C01): token and queue size are the source's
constants; the regenerated skeletons of `ServeHTTP`, `turbotunnelMode` and the queue operations are the
ones the model `Snowflake.Model.Server` was written against (which ClientID variable tags upstream
packets and selects the downstream queue, `io.ReadFull` sizes, token comparison, non-blocking sends).
-/
namespace Snowflake.Tie.ServerHttp
open Snowflake.Gen

/-- the first 8 bytes are read with io.ReadFull and compared with turbotunnel.Token; only on equality turbotunnelMode runs, otherwise the handler returns and the deferred conn.Close() closes the carrier (labels hStep in state token). -/
def expected_ServeHTTP : List String := [
  "call upgrader.Upgrade(w, r, nil)",
  "if err != nil{",
  "return",
  "}",
  "call websocketconn.New(ws)",
  "defer conn.Close()",
  "assign clientIPParam := r.URL.Query().Get(\"client_ip\")",
  "call clientAddr(clientIPParam)",
  "assign addr := clientAddr(clientIPParam)",
  "call io.ReadFull(conn, token[:])",
  "if err != nil{",
  "return",
  "}",
  "switch{",
  "case bytes.Equal(token[:], turbotunnel.Token[:]):",
  "call turbotunnelMode(conn, addr, handler.pconn)",
  "case default:",
  "return",
  "}",
  "if err != nil{",
  "return",
  "}"
]

theorem skel_ServeHTTP_tie : ServerHttp.skel_ServeHTTP = expected_ServeHTTP := by decide +kernel

/-- the ClientID is read with io.ReadFull (hStep in state cid); the read loop passes every chunk of ReadData to QueueIncoming *with that same clientID* (hStep in state run); the write loop takes packets from OutgoingQueue *of that same clientID* and frames each with WriteData + Flush (wStep); either loop ending ends the other. -/
def expected_turbotunnelMode : List String := [
  "call io.ReadFull(conn, clientID[:])",
  "if err != nil{",
  "return",
  "}",
  "call clientIDAddrMap.Set(clientID, addr)",
  "call wg.Add(2)",
  "makechan cap=0",
  "go{",
  "defer wg.Done()",
  "defer close(done)",
  "for{",
  "call encapsulation.ReadData(conn)",
  "if err != nil{",
  "return",
  "}",
  "call pconn.QueueIncoming(p, clientID)",
  "}",
  "}",
  "go{",
  "defer wg.Done()",
  "defer conn.Close()",
  "for{",
  "select{",
  "case:",
  "recv done",
  "do:",
  "return",
  "case:",
  "recv pconn.OutgoingQueue(clientID)",
  "call pconn.OutgoingQueue(clientID)",
  "do:",
  "if !ok{",
  "return",
  "}",
  "call encapsulation.WriteData(bw, p)",
  "if err == nil{",
  "call bw.Flush()",
  "}",
  "if err != nil{",
  "return",
  "}",
  "}",
  "}",
  "}",
  "call wg.Wait()",
  "return"
]

theorem skel_turbotunnelMode_tie : ServerHttp.skel_turbotunnelMode = expected_turbotunnelMode := by decide +kernel

/-- copy, then non-blocking send on the shared receive queue (dropped when full). -/
def expected_QueueIncoming : List String := [
  "select{",
  "case:",
  "recv c.closed",
  "do:",
  "return",
  "default:",
  "do:",
  "}",
  "call copy(buf, p)",
  "select{",
  "case:",
  "send c.recvQueue",
  "do:",
  "default:",
  "do:",
  "}"
]

theorem skel_QueueIncoming_tie : ServerHttp.skel_QueueIncoming = expected_QueueIncoming := by decide +kernel

/-- copy, then `trySend` of the copy to the client map (kcpWrite). -/
def expected_WriteTo : List String := [
  "select{",
  "case:",
  "recv c.closed",
  "do:",
  "return",
  "default:",
  "do:",
  "}",
  "call copy(buf, p)",
  "call c.clients.trySend(addr, buf)",
  "return"
]

theorem skel_WriteTo_tie : ServerHttp.skel_WriteTo = expected_WriteTo := by decide +kernel

/-- `trySend`: under the client map's lock, a non-blocking send on the per-address send queue (dropped when
full); the lock also orders the send with the sweep that closes expired queues. -/
def expected_trySend : List String := [
  "call m.lock.Lock()",
  "defer m.lock.Unlock()",
  "select{",
  "case:",
  "send m.inner.SendQueue(addr, time.Now())",
  "do:",
  "return",
  "default:",
  "do:",
  "return",
  "}"
]

theorem skel_trySend_tie : ServerHttp.skel_trySend = expected_trySend := by decide +kernel

/-- the per-address queue of the client map. -/
def expected_OutgoingQueue : List String := [
  "call c.clients.SendQueue(addr)",
  "return c.clients.SendQueue(addr)"
]

theorem skel_OutgoingQueue_tie : ServerHttp.skel_OutgoingQueue = expected_OutgoingQueue := by decide +kernel

/-- The token of the model's non-vacuity example is the source's token; it is 8 bytes long. -/
theorem token_tie : ServerHttp.Token = [0x12, 0x93, 0x60, 0x5d, 0x27, 0x81, 0x75, 0xf5] ∧ ServerHttp.Token.length = 8 := by
  decide

theorem queueSize_tie : ServerHttp.queueSize = 2048 := by decide

/-- The same variable `clientID` is read from the carrier, used as the tag of `QueueIncoming` and as the
key of `OutgoingQueue`. -/
theorem same_clientID_variable :
    ServerHttp.skel_turbotunnelMode.contains "call io.ReadFull(conn, clientID[:])" = true
    ∧ ServerHttp.skel_turbotunnelMode.contains "call pconn.QueueIncoming(p, clientID)" = true
    ∧ ServerHttp.skel_turbotunnelMode.contains "call pconn.OutgoingQueue(clientID)" = true
    ∧ (ServerHttp.skel_turbotunnelMode.filter (fun l => l.startsWith "call pconn.")).length = 2 := by
  decide +kernel

end Snowflake.Tie.ServerHttp
