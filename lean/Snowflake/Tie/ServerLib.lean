import Snowflake.Generated.ServerLib
import Snowflake.Model.ClientAddr
import Snowflake.Base.SkelStack
/-!
Tie obligations for C18.  `clientAddr`, `newClientIDMap`, `Set` and `Get` are outside the translator's
expression subset (maps, slices of structs, `net.ParseIP`), so they are tied by *statement listings*
regenerated from `server/lib/http.go` and `server/lib/turbotunnel.go` (skeletons that also list every
assignment and returned expression: guards, order and presence of
the statements that `Model/ClientAddr.lean` mirrors) and by the differential harness
`harness/c18_serverlib_test.go`.

The attribution clause (`Model/Attribution.lean`: a carrier performs `Set id (clientAddr ip)`; a session
performs one `Get id` when it is established and every stream reports that result) is tied by listings of
`httpHandler.ServeHTTP`, `turbotunnelMode` and `SnowflakeListener.acceptStreams`, their signatures, and the
list of all functions of the package that mention `clientIDAddrMap` / `SnowflakeClientConn` / `.address`;
dynamically by `harness/c18_attr_test.go`.
-/
namespace Snowflake.Tie.ServerLib
open Snowflake.Skel Snowflake.Gen.ServerLib

def has (sk : List String) (l : String) : Bool := sk.contains l

/-- `p` occurs in `s` (structural, kernel-evaluable) -/
def subAt : List Char → List Char → Bool
  | [], p => p.isEmpty
  | c :: cs, p => p.isPrefixOf (c :: cs) || subAt cs p

def mentions (l p : String) : Bool := subAt l.toList p.toList

/-- The server's map is created with the (positive) capacity constant. -/
theorem capacity_tie :
    0 < clientIDAddrMapCapacity ∧ clientIDAddrMap_init = "newClientIDMap(clientIDAddrMapCapacity)" := by
  decide +kernel

/-- `clientAddr`: three guarded early returns of the empty address, in the order empty parameter /
`net.ParseIP` gives nil / `IsUnspecified`, then the `TCPAddr{IP, Port: 1, Zone: ""}.String()` result. -/
theorem clientAddr_listing :
    blockOf stmts_clientAddr (· == "if clientIPParam == \"\"{") = some ["return ClientMapAddr(\"\")"]
    ∧ blockOf stmts_clientAddr (· == "if clientIP == nil{") = some ["return ClientMapAddr(\"\")"]
    ∧ blockOf stmts_clientAddr (· == "if clientIP.IsUnspecified(){") = some ["return ClientMapAddr(\"\")"]
    ∧ before stmts_clientAddr (· == "if clientIPParam == \"\"{") (· == "assign clientIP := net.ParseIP(clientIPParam)") = true
    ∧ before stmts_clientAddr (· == "assign clientIP := net.ParseIP(clientIPParam)") (· == "if clientIP == nil{") = true
    ∧ before stmts_clientAddr (· == "if clientIP == nil{") (· == "if clientIP.IsUnspecified(){") = true
    ∧ stmts_clientAddr.getLast? = some "return ClientMapAddr((&net.TCPAddr{IP: clientIP, Port: 1, Zone: \"\"}).String())"
    ∧ count stmts_clientAddr (pre "return") = 4 ∧ count stmts_clientAddr (pre "assign") = 1
    ∧ count stmts_clientAddr (pre "if ") = 3 := by
  decide +kernel

/-- `newClientIDMap` is a single `return &clientIDMap{…}`: `capacity` zero entries, `oldest = 0`, empty
index. -/
theorem newClientIDMap_listing :
    (newClientIDMap_ret.startsWith "&clientIDMap{"
      && mentions newClientIDMap_ret "entries: make([]struct { clientID turbotunnel.ClientID addr net.Addr }, capacity)"
      && mentions newClientIDMap_ret "oldest: 0"
      && mentions newClientIDMap_ret "current: make(map[turbotunnel.ClientID]int)") = true := by
  decide +kernel

/-- `Set` (1): takes the lock, and returns on capacity 0 before any mutation. -/
theorem set_cap0_listing :
    stmts_Set.head? = some "call m.lock.Lock()" ∧ has stmts_Set "defer m.lock.Unlock()" = true
    ∧ blockOf stmts_Set (· == "if len(m.entries) == 0{") = some ["return"]
    ∧ before stmts_Set (· == "if len(m.entries) == 0{") (pre "assign") = true
    ∧ count stmts_Set (pre "return") = 1 := by
  decide +kernel

/-- `Set` (2): the old key of the slot is looked up and deleted from the index only under
`ok && i == m.oldest`; there is exactly one delete and it precedes both the overwrite of the slot's key
and the insertion of the new key. -/
theorem set_delete_listing :
    before stmts_Set (· == "assign i, ok := m.current[m.entries[m.oldest].clientID]") (· == "if ok && i == m.oldest{") = true
    ∧ blockOf stmts_Set (· == "if ok && i == m.oldest{") = some ["call delete(m.current, m.entries[m.oldest].clientID)"]
    ∧ count stmts_Set (pre "call delete(") = 1
    ∧ before stmts_Set (pre "call delete(") (· == "assign m.entries[m.oldest].clientID = clientID") = true
    ∧ before stmts_Set (pre "call delete(") (· == "assign m.current[clientID] = m.oldest") = true
    ∧ count stmts_Set (pre "if ") = 2 := by
  decide +kernel

/-- `Set` (3): slot and index are written at `m.oldest`, then `oldest` advances modulo the capacity as
the last statement; nothing else is assigned. -/
theorem set_write_listing :
    has stmts_Set "assign m.entries[m.oldest].addr = addr" = true
    ∧ before stmts_Set (· == "assign m.entries[m.oldest].clientID = clientID") (· == "assign m.oldest = (m.oldest + 1) % len(m.entries)") = true
    ∧ before stmts_Set (· == "assign m.entries[m.oldest].addr = addr") (· == "assign m.oldest = (m.oldest + 1) % len(m.entries)") = true
    ∧ before stmts_Set (· == "assign m.current[clientID] = m.oldest") (· == "assign m.oldest = (m.oldest + 1) % len(m.entries)") = true
    ∧ stmts_Set.getLast? = some "assign m.oldest = (m.oldest + 1) % len(m.entries)"
    ∧ count stmts_Set (pre "assign") = 5 := by
  decide +kernel

/-- `Get`: index lookup, then the slot's address, or `(nil, false)`; no mutation. -/
theorem get_listing :
    stmts_Get.head? = some "call m.lock.Lock()" ∧ has stmts_Get "defer m.lock.Unlock()" = true
    ∧ before stmts_Get (· == "assign i, ok := m.current[clientID]") (· == "if ok{") = true
    ∧ blockOf stmts_Get (· == "if ok{") = some ["return m.entries[i].addr, true"]
    ∧ has stmts_Get "return nil, false" = true
    ∧ count stmts_Get (pre "assign") = 1 ∧ count stmts_Get (pre "return") = 2
    ∧ count stmts_Get (pre "call delete(") = 0 := by
  decide +kernel

/-! ## attribution: which `Set` a carrier performs, which `Get` a session performs -/

def getLine : String := "assign addr, ok := clientIDAddrMap.Get(conn.RemoteAddr().(turbotunnel.ClientID))"
def queueLine : String := "call l.queueConn(&SnowflakeClientConn{Conn: stream, address: addr})"

/-- Only two functions of the package touch the global map — `turbotunnelMode` (the `Set`) and
`acceptStreams` (the `Get`), once each; `turbotunnelMode` is called from `ServeHTTP` only and
`acceptStreams` from `acceptSessions` only (one call per KCP session); the `SnowflakeClientConn` wrapper is
built in `acceptStreams` only and its `address` field is read by `RemoteAddr` and written nowhere else. -/
theorem attribution_sites :
    users_clientIDAddrMap = [("SnowflakeListener.acceptStreams", 1), ("turbotunnelMode", 1)]
    ∧ users_turbotunnelMode = [("httpHandler.ServeHTTP", 1)]
    ∧ users_acceptStreams = [("SnowflakeListener.acceptSessions", 1)]
    ∧ users_SnowflakeClientConn = [("SnowflakeListener.acceptStreams", 1)]
    ∧ users_address = [("SnowflakeClientConn.RemoteAddr", 1)]
    ∧ remoteAddr_ret = "conn.address" := by
  decide +kernel

/-- `acceptStreams` (1a) — model event `establish s id`: exactly one access to the map, a `Get` keyed by
the ClientID of *this* KCP session (`conn`, the only parameter, never reassigned), whose result is the only
assignment to `addr`. -/
theorem acceptStreams_get_once :
    sig_acceptStreams = [("conn", "*kcp.UDPSession"), ("", "error")]
    ∧ count stmts_acceptStreams (pre "call clientIDAddrMap.") = 1
    ∧ count stmts_acceptStreams (· == "call clientIDAddrMap.Get(conn.RemoteAddr().(turbotunnel.ClientID))") = 1
    ∧ count stmts_acceptStreams (· == getLine) = 1
    ∧ count stmts_acceptStreams (pre "assign addr") = 1
    ∧ count stmts_acceptStreams (pre "assign conn") = 0 := by
  decide +kernel

/-- `acceptStreams` (1b) — the lookup happens once per session, when it is established: it is a top-level
statement of the function (not inside a loop, branch, goroutine, deferred call or function literal) and
precedes the one and only loop; nothing inside the loop touches the map or assigns `addr`. -/
theorem acceptStreams_get_before_loop :
    (topLevel stmts_acceptStreams).contains getLine = true
    ∧ count stmts_acceptStreams (pre "for") = 1 ∧ count stmts_acceptStreams (pre "range ") = 0
    ∧ count stmts_acceptStreams (pre "go") = 0 ∧ count stmts_acceptStreams (pre "func{") = 0
    ∧ count stmts_acceptStreams (pre "defer") = 0
    ∧ before stmts_acceptStreams (· == getLine) (· == "for{") = true
    ∧ noneInside stmts_acceptStreams (pre "call clientIDAddrMap.") (pre "for") = true
    ∧ noneInside stmts_acceptStreams (pre "assign addr") (pre "for") = true := by
  decide +kernel

/-- `acceptStreams` (2) — model event `stream s`: the loop accepts a stream of the smux session layered
on `conn` and queues it wrapped in a `SnowflakeClientConn` whose `address` is the variable `addr` assigned
by the lookup above; that is the only `queueConn` and the only `SnowflakeClientConn` literal, and it sits
inside the loop after the `AcceptStream`. -/
theorem acceptStreams_stamps_every_stream :
    has stmts_acceptStreams "assign sess, err := smux.Server(conn, smuxConfig)" = true
    ∧ count stmts_acceptStreams (pre "assign sess") = 1
    ∧ count stmts_acceptStreams (· == "call sess.AcceptStream()") = 1
    ∧ has stmts_acceptStreams "assign stream, err := sess.AcceptStream()" = true
    ∧ count stmts_acceptStreams (pre "assign stream") = 1
    ∧ count stmts_acceptStreams (pre "call l.queueConn(") = 1
    ∧ has stmts_acceptStreams queueLine = true
    ∧ count stmts_acceptStreams (pre "lit ") = 1
    ∧ has stmts_acceptStreams "lit SnowflakeClientConn{Conn: stream, address: addr}" = true
    ∧ allInside stmts_acceptStreams (· == "call sess.AcceptStream()") (· == "for{") = true
    ∧ allInside stmts_acceptStreams (· == queueLine) (· == "for{") = true
    ∧ before stmts_acceptStreams (· == "for{") (· == "assign stream, err := sess.AcceptStream()") = true
    ∧ before stmts_acceptStreams (· == "assign stream, err := sess.AcceptStream()") (· == queueLine) = true
    ∧ stmts_acceptStreams.getLast? = some "}" := by
  decide +kernel

/-- `ServeHTTP` — the address of a carrier is `clientAddr` of the request's `client_ip` parameter: both
variables are assigned exactly once, in that order, before the single call
`turbotunnelMode(conn, addr, handler.pconn)`, which sits in the `switch` arm of the matching token; the
second parameter of `turbotunnelMode` is its `addr`. -/
theorem serveHTTP_addr_listing :
    sig_clientAddr = [("clientIPParam", "string"), ("", "net.Addr")]
    ∧ has stmts_ServeHTTP "assign clientIPParam := r.URL.Query().Get(\"client_ip\")" = true
    ∧ count stmts_ServeHTTP (pre "assign clientIPParam") = 1
    ∧ has stmts_ServeHTTP "assign addr := clientAddr(clientIPParam)" = true
    ∧ count stmts_ServeHTTP (pre "assign addr") = 1
    ∧ count stmts_ServeHTTP (pre "call clientAddr(") = 1
    ∧ has stmts_ServeHTTP "assign conn := websocketconn.New(ws)" = true
    ∧ count stmts_ServeHTTP (pre "assign conn") = 1
    ∧ before stmts_ServeHTTP (pre "assign clientIPParam") (pre "assign addr") = true
    ∧ before stmts_ServeHTTP (pre "assign addr") (pre "call turbotunnelMode(") = true
    ∧ count stmts_ServeHTTP (pre "call turbotunnelMode(") = 1
    ∧ has stmts_ServeHTTP "call turbotunnelMode(conn, addr, handler.pconn)" = true
    ∧ allInside stmts_ServeHTTP (pre "call turbotunnelMode(") (· == "switch{") = true
    ∧ before stmts_ServeHTTP (· == "case bytes.Equal(token[:], turbotunnel.Token[:]):") (pre "call turbotunnelMode(") = true
    ∧ before stmts_ServeHTTP (pre "call turbotunnelMode(") (· == "case default:") = true
    ∧ count stmts_ServeHTTP (pre "case ") = 2
    ∧ sig_turbotunnelMode = [("conn", "net.Conn"), ("addr", "net.Addr"), ("pconn", "*turbotunnel.QueuePacketConn"), ("", "error")]
    ∧ count stmts_ServeHTTP (pre "call clientIDAddrMap.") = 0 := by
  decide +kernel

/-- `turbotunnelMode` — model event `carrier id ip`: the ClientID is read from the carrier first (an error
returns before anything is stored); then exactly one access to the map, `Set(clientID, addr)` with that
ClientID and the function's `addr` parameter (neither is reassigned), as a top-level statement, before
the goroutines start and hence before any packet of this carrier is queued (`QueueIncoming(p, clientID)`,
same ClientID). -/
theorem turbotunnel_set_listing :
    stmts_turbotunnelMode.head? = some "call io.ReadFull(conn, clientID[:])"
    ∧ count stmts_turbotunnelMode (pre "call io.ReadFull(") = 1
    ∧ blockOf stmts_turbotunnelMode (· == "if err != nil{") = some ["return fmt.Errorf(\"reading ClientID: %v\", err)"]
    ∧ before stmts_turbotunnelMode (pre "call io.ReadFull(") (· == "if err != nil{") = true
    ∧ before stmts_turbotunnelMode (· == "if err != nil{") (pre "call clientIDAddrMap.") = true
    ∧ count stmts_turbotunnelMode (pre "call clientIDAddrMap.") = 1
    ∧ has stmts_turbotunnelMode "call clientIDAddrMap.Set(clientID, addr)" = true
    ∧ (topLevel stmts_turbotunnelMode).contains "call clientIDAddrMap.Set(clientID, addr)" = true
    ∧ count stmts_turbotunnelMode (pre "assign addr") = 0
    ∧ count stmts_turbotunnelMode (pre "assign clientID") = 0
    ∧ count stmts_turbotunnelMode (pre "assign conn") = 0
    ∧ before stmts_turbotunnelMode (pre "call clientIDAddrMap.") (· == "go{") = true
    ∧ before stmts_turbotunnelMode (pre "call clientIDAddrMap.") (pre "call pconn.QueueIncoming(") = true
    ∧ count stmts_turbotunnelMode (pre "call pconn.QueueIncoming(") = 1
    ∧ has stmts_turbotunnelMode "call pconn.QueueIncoming(p, clientID)" = true
    ∧ allInside stmts_turbotunnelMode (pre "call pconn.QueueIncoming(") (· == "go{") = true := by
  decide +kernel

end Snowflake.Tie.ServerLib
