import Snowflake.Generated.ServerLib
import Snowflake.Model.ClientAddr
import Snowflake.Base.Skel
/-!
Tie obligations for C18.  `clientAddr`, `newClientIDMap`, `Set` and `Get` are outside the translator's
expression subset (maps, slices of structs, `net.ParseIP`), so they are tied by *statement listings*
regenerated from `server/lib/http.go` and `server/lib/turbotunnel.go` (skeletons that also list every
assignment and returned expression: guards, order and presence of
the statements that `Model/ClientAddr.lean` mirrors) and by the differential harness
`harness/c18_serverlib_test.go`.
-/
namespace Snowflake.Tie.ServerLib
open Snowflake.Skel Snowflake.Gen.ServerLib

def has (sk : List String) (l : String) : Bool := sk.contains l

/-- `p` occurs in `s` (structural, kernel-evaluable) -/
def subAt : List Char → List Char → Bool
  | [], p => p.isEmpty
  | c :: cs, p => p.isPrefixOf (c :: cs) || subAt cs p

def mentions (l p : String) : Bool := subAt l.toList p.toList

/-- The server's map is created with the (positive) capacity constant. -/
theorem capacity_tie :
    0 < clientIDAddrMapCapacity ∧ clientIDAddrMap_init = "newClientIDMap(clientIDAddrMapCapacity)" := by
  decide +kernel

/-- `clientAddr`: three guarded early returns of the empty address, in the order empty parameter /
`net.ParseIP` gives nil / `IsUnspecified`, then the `TCPAddr{IP, Port: 1, Zone: ""}.String()` result. -/
theorem clientAddr_listing :
    blockOf stmts_clientAddr (· == "if clientIPParam == \"\"{") = some ["return ClientMapAddr(\"\")"]
    ∧ blockOf stmts_clientAddr (· == "if clientIP == nil{") = some ["return ClientMapAddr(\"\")"]
    ∧ blockOf stmts_clientAddr (· == "if clientIP.IsUnspecified(){") = some ["return ClientMapAddr(\"\")"]
    ∧ before stmts_clientAddr (· == "if clientIPParam == \"\"{") (· == "assign clientIP := net.ParseIP(clientIPParam)") = true
    ∧ before stmts_clientAddr (· == "assign clientIP := net.ParseIP(clientIPParam)") (· == "if clientIP == nil{") = true
    ∧ before stmts_clientAddr (· == "if clientIP == nil{") (· == "if clientIP.IsUnspecified(){") = true
    ∧ stmts_clientAddr.getLast? = some "return ClientMapAddr((&net.TCPAddr{IP: clientIP, Port: 1, Zone: \"\"}).String())"
    ∧ count stmts_clientAddr (pre "return") = 4 ∧ count stmts_clientAddr (pre "assign") = 1
    ∧ count stmts_clientAddr (pre "if ") = 3 := by
  decide +kernel

/-- `newClientIDMap` is a single `return &clientIDMap{…}`: `capacity` zero entries, `oldest = 0`, empty
index. -/
theorem newClientIDMap_listing :
    (newClientIDMap_ret.startsWith "&clientIDMap{"
      && mentions newClientIDMap_ret "entries: make([]struct { clientID turbotunnel.ClientID addr net.Addr }, capacity)"
      && mentions newClientIDMap_ret "oldest: 0"
      && mentions newClientIDMap_ret "current: make(map[turbotunnel.ClientID]int)") = true := by
  decide +kernel

/-- `Set` (1): takes the lock, and returns on capacity 0 before any mutation. -/
theorem set_cap0_listing :
    stmts_Set.head? = some "call m.lock.Lock()" ∧ has stmts_Set "defer m.lock.Unlock()" = true
    ∧ blockOf stmts_Set (· == "if len(m.entries) == 0{") = some ["return"]
    ∧ before stmts_Set (· == "if len(m.entries) == 0{") (pre "assign") = true
    ∧ count stmts_Set (pre "return") = 1 := by
  decide +kernel

/-- `Set` (2): the old key of the slot is looked up and deleted from the index only under
`ok && i == m.oldest`; there is exactly one delete and it precedes both the overwrite of the slot's key
and the insertion of the new key. -/
theorem set_delete_listing :
    before stmts_Set (· == "assign i, ok := m.current[m.entries[m.oldest].clientID]") (· == "if ok && i == m.oldest{") = true
    ∧ blockOf stmts_Set (· == "if ok && i == m.oldest{") = some ["call delete(m.current, m.entries[m.oldest].clientID)"]
    ∧ count stmts_Set (pre "call delete(") = 1
    ∧ before stmts_Set (pre "call delete(") (· == "assign m.entries[m.oldest].clientID = clientID") = true
    ∧ before stmts_Set (pre "call delete(") (· == "assign m.current[clientID] = m.oldest") = true
    ∧ count stmts_Set (pre "if ") = 2 := by
  decide +kernel

/-- `Set` (3): slot and index are written at `m.oldest`, then `oldest` advances modulo the capacity as
the last statement; nothing else is assigned. -/
theorem set_write_listing :
    has stmts_Set "assign m.entries[m.oldest].addr = addr" = true
    ∧ before stmts_Set (· == "assign m.entries[m.oldest].clientID = clientID") (· == "assign m.oldest = (m.oldest + 1) % len(m.entries)") = true
    ∧ before stmts_Set (· == "assign m.entries[m.oldest].addr = addr") (· == "assign m.oldest = (m.oldest + 1) % len(m.entries)") = true
    ∧ before stmts_Set (· == "assign m.current[clientID] = m.oldest") (· == "assign m.oldest = (m.oldest + 1) % len(m.entries)") = true
    ∧ stmts_Set.getLast? = some "assign m.oldest = (m.oldest + 1) % len(m.entries)"
    ∧ count stmts_Set (pre "assign") = 5 := by
  decide +kernel

/-- `Get`: index lookup, then the slot's address, or `(nil, false)`; no mutation. -/
theorem get_listing :
    stmts_Get.head? = some "call m.lock.Lock()" ∧ has stmts_Get "defer m.lock.Unlock()" = true
    ∧ before stmts_Get (· == "assign i, ok := m.current[clientID]") (· == "if ok{") = true
    ∧ blockOf stmts_Get (· == "if ok{") = some ["return m.entries[i].addr, true"]
    ∧ has stmts_Get "return nil, false" = true
    ∧ count stmts_Get (pre "assign") = 1 ∧ count stmts_Get (pre "return") = 2
    ∧ count stmts_Get (pre "call delete(") = 0 := by
  decide +kernel

end Snowflake.Tie.ServerLib
