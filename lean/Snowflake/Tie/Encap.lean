import Snowflake.Generated.Encap
import Snowflake.Model.Encap
/-!
Tie obligations for C09: the definitions regenerated from
`/repo/common/encapsulation/encapsulation.go` equal the arithmetic model the theorems are about.
-/
namespace Snowflake.Tie.Encap
open Snowflake.Encap

/-- `len(paddingBuffer)` in the source is the block size of the model. -/
theorem paddingBufferLen_tie : Gen.Encap.paddingBufferLen = (paddingBufferLen : Int) := by decide

theorem or128 : ∀ x : Fin 64, (128 : UInt8) ||| UInt8.ofNat x.val = UInt8.ofNat (128 + x.val) := by decide
theorem or192 : ∀ x : Fin 64, (192 : UInt8) ||| UInt8.ofNat x.val = UInt8.ofNat (128 + 64 + x.val) := by decide
theorem or128' : ∀ x : Fin 128, (128 : UInt8) ||| UInt8.ofNat x.val = UInt8.ofNat (128 + x.val) := by decide
theorem or64 : ∀ x : Fin 64, (64 : UInt8) ||| UInt8.ofNat x.val = UInt8.ofNat (64 + x.val) := by decide

theorem and63 (x : Nat) : x &&& 63 = x % 64 := Nat.and_two_pow_sub_one_eq_mod x 6
theorem and127 (x : Nat) : x &&& 127 = x % 128 := Nat.and_two_pow_sub_one_eq_mod x 7
theorem shr7 (x : Nat) : x >>> 7 = x / 128 := Nat.shiftRight_eq_div_pow x 7
theorem shr14 (x : Nat) : x >>> 14 = x / 16384 := Nat.shiftRight_eq_div_pow x 14

/-- The translated `dataPrefixForLength` is the model's `dataPrefix`, for every length. -/
theorem dataPrefix_tie (n : Nat) : Gen.Encap.dataPrefixForLength n = dataPrefix n := by
  unfold Gen.Encap.dataPrefixForLength dataPrefix prefixFor
  simp only [Nat.shiftRight_zero, and63, and127, shr7, shr14, beq_iff_eq]
  by_cases h1 : n < 64
  · have e : n % 64 = n := by omega
    have := or128 ⟨n, h1⟩
    simp only at this
    simp [h1, e, this]
  · have e : ¬ (n % 64 = n) := by omega
    simp only [h1, e, if_false]
    by_cases h2 : n < 8192
    · have e2 : n / 128 % 64 = n / 128 := by omega
      have := or192 ⟨n / 128, by omega⟩
      simp only at this
      simp [h2, e2, this]
    · have e2 : ¬ (n / 128 % 64 = n / 128) := by omega
      simp only [h2, e2, if_false]
      by_cases h3 : n < 1048576
      · have e3 : n / 16384 % 64 = n / 16384 := by omega
        have t1 := or192 ⟨n / 16384, by omega⟩
        have t2 := or128' ⟨n / 128 % 128, by omega⟩
        simp only at t1 t2
        simp [h3, e3, t1, t2]
      · have e3 : ¬ (n / 16384 % 64 = n / 16384) := by omega
        simp [h3, e3]

/-- The translated prefix `switch` of `WritePadding`, followed by the zero bytes it announces, is the
model's `paddingBlock`, for every block size the loop can produce (1 ≤ p ≤ 1024). -/
theorem paddingSwitch_tie (p : Nat) (h1 : 1 ≤ p) (h2 : p ≤ 1024) :
    (Gen.Encap.paddingSwitch p).2 ++ List.replicate (Gen.Encap.paddingSwitch p).1 0
      = paddingBlock p := by
  unfold Gen.Encap.paddingSwitch paddingBlock
  simp only [Nat.shiftRight_zero, and63, and127, shr7, shr14, beq_iff_eq]
  by_cases c1 : p - 1 < 64
  · have e : (p - 1) % 64 = p - 1 := by omega
    simp [c1, e]
  · have e : ¬ ((p - 1) % 64 = p - 1) := by omega
    have c2 : p - 2 < 8192 := by omega
    have e2 : (p - 2) / 128 % 64 = (p - 2) / 128 := by omega
    have := or64 ⟨(p - 2) / 128, by omega⟩
    simp only at this
    simp [c1, e, c2, e2, this]

end Snowflake.Tie.Encap
