import Snowflake.Generated.SessionDesc
import Snowflake.Model.SessionDesc
/-!
Tie obligations for C13: facts regenerated from `common/util/util.go`
`DeserializeSessionDescription` (outside the translated subset: it works on a map of interfaces)
that the model `Snowflake.SessionDesc.deserialize` depends on.
-/
namespace Snowflake.Tie.SessionDesc
open Snowflake.SessionDesc

/-- The function asserts the dynamic type of exactly the two members the model looks at, each as
`string`, in the order type, sdp. -/
theorem asserts_tie :
    Gen.SessionDesc.deserializeAsserts.map (fun a => (a.1, a.2.1))
      = [("parsed[\"type\"]", "string"), ("parsed[\"sdp\"]", "string")] := by decide

/-- Every type assertion of the function is the checked (comma-ok) form: the working tree is the
function modelled by `deserialize true`, the one `C13.deserialize_total` is about.  (On a tree with a
single-value assertion this obligation fails, and the harness exhibits the panicking input.) -/
theorem asserts_checked_tie : Gen.SessionDesc.deserializeAsserts.all (fun a => a.2.2) = true := by decide

/-- the Go constant the `switch` assigns for each model type -/
def goConst : SDPType → String
  | .offer => "webrtc.SDPTypeOffer"
  | .pranswer => "webrtc.SDPTypePranswer"
  | .answer => "webrtc.SDPTypeAnswer"
  | .rollback => "webrtc.SDPTypeRollback"
  | .other => ""

/-- The function has one tagged `switch`; its constant-string cases are exactly the four names of
the model's `typeOfName`, each assigning the corresponding `webrtc.SDPType`, and its `default` arm
returns (the "Unknown SDP type" error). -/
theorem switch_tie :
    (Gen.SessionDesc.deserializeSwitch.filter (fun c => c.1 == "switch")).length = 1 ∧
    Gen.SessionDesc.deserializeSwitch.filter (fun c => c.1.startsWith "=")
      = [SDPType.offer, .pranswer, .answer, .rollback].map
          (fun t => ("=" ++ String.ofList t.name, "stype = " ++ goConst t)) ∧
    (Gen.SessionDesc.deserializeSwitch.filter (fun c => c.1 == "default")).all
      (fun c => c.2.startsWith "return nil, ") = true := by decide +kernel

/-- `typeOfName` inverts `SDPType.name` on the four defined values. -/
theorem typeOfName_name : ∀ t : SDPType, t ≠ .other → typeOfName t.name = some t := by
  intro t ht
  cases t <;> first | exact absurd rfl ht | decide

end Snowflake.Tie.SessionDesc
