import Snowflake.Generated.ProxyLib
import Snowflake.Model.ProxySlots
import Snowflake.Base.SkelStack
/-!
Tie obligations for C16: the load expression of `pollOffer` equals the model's, and semantic facts
about the skeletons regenerated from `proxy/lib/tokens.go` and `proxy/lib/snowflake.go` on which the
labels of `Model/ProxySlots.lean` (with `fixed = true`) rely — in particular that every release
site that can run for a session once its peer connection exists goes through the same per-session
`sync.Once`.  F11 is a timing race that a differential run can only hit by forcing the schedule;
`release_sites_share_one_once` catches it deterministically.
-/
namespace Snowflake.Tie.ProxyLib
open Snowflake.Skel Snowflake.Gen.ProxyLib Snowflake.ProxySlots

def blk (sk : List String) (p : String → Bool) : List String := (blockOf sk p).getD []

/-- `numClients := int((tokens.count() / 8) * 8)` is the model's `loadNat`. -/
theorem load_tie (count : Nat) : pollOffer_numClients count = loadNat count := rfl

/-- `pollOffer` reads the counter once per poll, inside its loop (label `lPoll`). -/
theorem poll_reads_count :
    count skel_pollOffer (· == "call tokens.count()") = 1
    ∧ allInside skel_pollOffer (· == "call tokens.count()") (· == "for{") = true := by decide +kernel

/-- `tokens_t`: the channel exists only for a non-zero capacity and has that capacity; `get` is the
atomic increment followed by the (blocking) send, `ret` the atomic decrement followed by the
(blocking) receive, both channel operations only when the capacity is non-zero; `count` is an
atomic load (labels `lStart`/`lAcquire`, `doRet`). -/
theorem tokens_shape :
    skel_newTokens = ["if capacity != 0{", "makechan cap=capacity", "}", "return"]
    ∧ skel_get = ["call atomic.AddInt64(&t.clients, 1)", "if t.capacity != 0{", "send t.ch", "}"]
    ∧ skel_ret = ["call atomic.AddInt64(&t.clients, -1)", "if t.capacity != 0{", "recv t.ch", "}"]
    ∧ skel_count = ["call atomic.LoadInt64(&t.clients)", "return"] := by decide +kernel

/-- The `-capacity` flag of the proxy binary (default 0 = unlimited) becomes `SnowflakeProxy.Capacity`,
which `Start` turns into the token pool before the poll loop: the model's parameter `N`. -/
theorem capacity_flag_reaches_tokens :
    has skel_main (· == "call flag.Uint(\"capacity\", 0, \"maximum concurrent clients\")") = true
    ∧ before skel_main (· == "call flag.Parse()") (pre "lit sf.SnowflakeProxy{ Capacity: uint(*capacity),") = true
    ∧ before skel_main (pre "lit sf.SnowflakeProxy{ Capacity: uint(*capacity),") (· == "call proxy.Start()") = true
    ∧ count skel_Start (· == "call newTokens(sf.Capacity)") = 1
    ∧ before skel_Start (· == "call newTokens(sf.Capacity)") (· == "call tokens.get()") = true
    ∧ noneInside skel_Start (· == "call newTokens(sf.Capacity)") (fun _ => true) = true := by decide +kernel

/-- The poll loop takes a slot (`tokens.get()`) exactly once before each `runSession`, in the same
arm of its `select`, and runs the session synchronously: one session at a time (`cur`). -/
theorem poll_loop_gets_then_runs :
    count skel_Start (· == "call tokens.get()") = 1
    ∧ count skel_Start (pre "call sf.runSession(") = 1
    ∧ before skel_Start (· == "call tokens.get()") (pre "call sf.runSession(") = true
    ∧ (stacksOf skel_Start (· == "call tokens.get()")) = (stacksOf skel_Start (pre "call sf.runSession("))
    ∧ allInside skel_Start (pre "call sf.runSession(") (· == "for{") = true
    ∧ has skel_Start (pre "go sf.runSession") = false
    ∧ has skel_Start (· == "call tokens.ret()") = false := by decide +kernel

/-- lines of `runSession` before the peer connection is made -/
def early : List String :=
  skel_runSession.take ((skel_runSession.findIdx? (pre "call sf.makePeerConnectionFromOffer(")).getD 0)

/-- lines of `runSession` from `makePeerConnectionFromOffer` on -/
def late : List String := after skel_runSession (pre "call sf.makePeerConnectionFromOffer(")

/-- Order of the stages of `runSession` (`Stage`): poll, parse the relay URL, check it, make the peer
connection, send the answer, then the `select` between the data channel and the timer. -/
theorem runSession_stages :
    skel_runSession.head? = some "call broker.pollOffer(sid, sf.ProxyType, sf.RelayDomainNamePattern, sf.shutdown)"
    ∧ before skel_runSession (pre "call broker.pollOffer(") (pre "call url.Parse(relayURL)") = true
    ∧ before skel_runSession (pre "call url.Parse(relayURL)") (pre "call matcher.IsMember(") = true
    ∧ before skel_runSession (pre "call matcher.IsMember(") (pre "call sf.makePeerConnectionFromOffer(") = true
    ∧ before skel_runSession (pre "call sf.makePeerConnectionFromOffer(") (pre "call broker.sendAnswer(") = true
    ∧ before skel_runSession (pre "call broker.sendAnswer(") (· == "select{") = true
    ∧ selectSiblings skel_runSession (· == "recv dataChan") (· == "recv time.After(dataChannelTimeout)") = true
    ∧ count skel_runSession (· == "select{") = 1
    ∧ dataChannelTimeout > 0 := by decide +kernel

/-- The three early exits (no offer, unparsable relay URL, rejected relay URL) happen before any
peer connection exists; each is an `if` block that releases the slot directly exactly once and
returns — it is the only release on its path (exits `failed poll/parseURL/checkRelay`). -/
theorem early_exits_release_once :
    count early (fun l => l.startsWith "if ") = 3
    ∧ count early (· == "call tokens.ret()") = 3
    ∧ count early (· == "return") = 3
    ∧ allInside early (· == "call tokens.ret()") (fun o => o.startsWith "if ") = true
    ∧ (stacksOf early (· == "call tokens.ret()")).all (fun st => st.length == 1) = true
    ∧ (stacksOf early (· == "call tokens.ret()")).map (fun st => st.map (·.1))
        = (stacksOf early (· == "return")).map (fun st => st.map (·.1))
    ∧ has early (pre "call release(") = false
    ∧ has early (pre "go ") = false := by decide +kernel

/-- **F11 repaired.** From `makePeerConnectionFromOffer` on — i.e. as soon as the `OnDataChannel`
callback that starts the handler exists — nothing calls `tokens.ret()` directly: `runSession` has
exactly one function literal whose whole body is `once.Do(tokens.ret)`; the failed-connection exit,
the failed-answer exit and the timeout arm each call `release()` exactly once (the data arm never);
that same `release` is stored in the handler adaptor, passed on by it, and is the handler's only,
deferred, release.  So all release sites that can run for one session share one `Once`
(`Exit.guarded`, `hRelease`). -/
theorem release_sites_share_one_once :
    -- no direct ret once the callback exists, neither in runSession nor in the handler
    has late (contains "tokens.ret") = false
    ∧ has skel_datachannelHandler (contains "tokens.ret") = false
    ∧ has skel_adaptor (contains "tokens.ret") = false
    ∧ has skel_makePeerConnectionFromOffer (contains "tokens.ret") = false
    -- the one Once-guarded release function, defined before the peer connection is made
    ∧ count skel_runSession (contains ".Do(tokens.ret)") = 1
    ∧ count early (contains ".Do(tokens.ret)") = 1
    ∧ blk early (· == "func{") = ["call once.Do(tokens.ret)"]
    ∧ count skel_runSession (· == "func{") = 1
    -- its three uses in runSession: two returning `if` blocks and the timeout arm, once each
    ∧ count late (· == "call release()") = 3
    ∧ (blk late (pre "if err != nil{")).filter (· == "call release()") = ["call release()"]
    ∧ (blk late (pre "if err != nil{")).getLast? = some "return"
    ∧ (blk (after late (pre "call broker.sendAnswer(")) (pre "if err != nil{")).filter (· == "call release()") = ["call release()"]
    ∧ (blk (after late (pre "call broker.sendAnswer(")) (pre "if err != nil{")).getLast? = some "return"
    ∧ (blk (after late (· == "recv time.After(dataChannelTimeout)")) (· == "do:")).filter (· == "call release()") = ["call release()"]
    ∧ has (blk (after late (· == "recv dataChan")) (· == "do:") |>.takeWhile (· != "case:")) (contains "release") = false
    -- the same function reaches the handler
    ∧ has early (· == "lit dataChannelHandlerWithRelayURL{RelayURL: relayURL, sf: sf, release: release}") = true
    ∧ skel_adaptor = ["call d.sf.datachannelHandler(conn, remoteAddr, d.RelayURL, d.release)"]
    ∧ count skel_datachannelHandler (contains "release") = 1
    ∧ (topLevel skel_datachannelHandler).contains "defer release()" = true := by decide +kernel

def isRelease (l : String) : Bool := l == "call release()" || l == "call tokens.ret()"

/-- `pc.Close()` precedes the release on the failed-answer exit and in the timeout arm (`pcClosed`). -/
theorem close_before_release :
    before (blk (after late (pre "call broker.sendAnswer(")) (pre "if err != nil{")) (· == "call pc.Close()") isRelease = true
    ∧ before (blk (after late (· == "recv time.After(dataChannelTimeout)")) (· == "do:")) (· == "call pc.Close()") isRelease = true := by
  decide +kernel

/-- The `OnDataChannel` callback closes `dataChan` and starts the handler in a goroutine of its own
(label `cbFire`: `cb := fired`, `h := running`); nothing else starts a handler. -/
theorem callback_spawns_handler :
    before skel_makePeerConnectionFromOffer (pre "call pc.OnDataChannel(") (· == "call close(dataChan)") = true
    ∧ before skel_makePeerConnectionFromOffer (· == "call close(dataChan)") (· == "go handler") = true
    ∧ count skel_makePeerConnectionFromOffer (pre "go ") = 1
    ∧ has skel_runSession (pre "go ") = false := by decide +kernel

/-- The handler releases on every way out: the release is deferred at its top level before the
relay is dialed; a failed dial returns, otherwise it runs the copy loop (label `hEnd`). -/
theorem handler_exits :
    before skel_datachannelHandler (fun l => l == "defer release()" || l == "defer tokens.ret()") (pre "call websocket.DefaultDialer.Dial(") = true
    ∧ blk (after skel_datachannelHandler (pre "call websocket.DefaultDialer.Dial(")) (pre "if err != nil{") = ["return"]
    ∧ before skel_datachannelHandler (pre "call websocket.DefaultDialer.Dial(") (pre "call copyLoop(") = true := by
  decide +kernel

/-- The timeout arm of `runSession`'s `select` closes the peer connection, releases and falls out of the
function: it contains no receive, send, nested `select`, loop or conditional — nothing it could wait on
(the model's `lTimeout` label is a single step that always completes). -/
theorem timeout_arm_does_not_wait :
    after skel_runSession (· == "recv time.After(dataChannelTimeout)")
      = ["call time.After(dataChannelTimeout)", "do:", "call pc.Close()", "call release()", "}"] := by
  decide +kernel

end Snowflake.Tie.ProxyLib
